/-
Theorems about the NuGet model: refinement of the spec key, operator laws, eq/hash.
-/
import Univers.Scheme.NugetSpec
import Univers.Vers.Spec

namespace Univers.Nuget

open Std Univers

/-! ### decimal strings -/

theorem natVal_eq (s : List Char) : natVal s = Nat.ofDigitChars 10 s 0 := rfl

theorem natVal_natStr (n : Nat) : natVal (natStr n) = n := Nat.ofDigitChars_ten_toDigits

theorem natVal_append_single (ds : List Char) (d : Char) :
    natVal (ds ++ [d]) = 10 * natVal ds + (d.toNat - 48) := by
  simp [natVal, List.foldl_append]

theorem isDigit_iff (c : Char) : isDigit c = true ↔ 48 ≤ c.toNat ∧ c.toNat ≤ 57 := by
  simp only [isDigit, Bool.and_eq_true, decide_eq_true_eq, Char.le_def, UInt32.le_iff_toNat_le]
  exact Iff.rfl

theorem digitChar_sub (c : Char) (h : isDigit c = true) : Nat.digitChar (c.toNat - 48) = c := by
  have ⟨h1, h2⟩ := (isDigit_iff c).1 h
  apply Char.toNat_inj.1
  rw [Nat.toNat_digitChar_of_lt_ten (by omega)]
  omega

/-- no leading zero: `0|[1-9]\d*` given that the string consists of digits -/
def canonNum (s : List Char) : Bool := s == ['0'] || s.head? != some '0'

theorem natStr_natVal_rev (r : List Char) (hne : r ≠ []) (hd : r.all isDigit = true)
    (hc : canonNum r.reverse = true) : natStr (natVal r.reverse) = r.reverse := by
  induction r with
  | nil => exact absurd rfl hne
  | cons d r' ih =>
    have hdd : isDigit d = true := by
      simp only [List.all_cons, Bool.and_eq_true] at hd
      exact hd.1
    have hds : r'.all isDigit = true := by
      simp only [List.all_cons, Bool.and_eq_true] at hd
      exact hd.2
    have ⟨h1, h2⟩ := (isDigit_iff d).1 hdd
    rw [List.reverse_cons, natVal_append_single]
    cases hr : r'.reverse with
    | nil =>
      simp only [natVal, List.foldl_nil, Nat.mul_zero, Nat.zero_add, natStr]
      rw [Nat.toDigits_of_lt_base (by omega), digitChar_sub d hdd]
      rfl
    | cons x xs =>
      have hr' : r' ≠ [] := by
        intro h; subst h; simp at hr
      rw [List.reverse_cons, hr] at hc
      have hx : x ≠ '0' := by
        intro hx
        subst hx
        simp [canonNum] at hc
      have hcan : canonNum (x :: xs) = true := by
        simp [canonNum, hx]
      have ih' := ih hr' hds (by rw [hr]; exact hcan)
      rw [hr] at ih'
      have hpos : 0 < natVal (x :: xs) := by
        rcases Nat.eq_zero_or_pos (natVal (x :: xs)) with h0 | h0
        · rw [h0] at ih'
          simp [natStr] at ih'
          exact absurd ih'.1.symm hx
        · exact h0
      unfold natStr
      rw [← Nat.toDigits_append_toDigits (by omega) hpos (by omega : d.toNat - 48 < 10)]
      rw [Nat.toDigits_of_lt_base (by omega : d.toNat - 48 < 10), digitChar_sub d hdd]
      unfold natStr at ih'
      rw [ih']

theorem natStr_natVal (s : List Char) (hne : s ≠ []) (hd : s.all isDigit = true)
    (hc : canonNum s = true) : natStr (natVal s) = s := by
  have := natStr_natVal_rev s.reverse (by simpa using hne) (by simpa using hd) (by simpa using hc)
  simpa using this

theorem natVal_inj {s t : List Char} (hs : s ≠ []) (ht : t ≠ [])
    (hds : s.all isDigit = true) (hdt : t.all isDigit = true)
    (hcs : canonNum s = true) (hct : canonNum t = true) (h : natVal s = natVal t) : s = t := by
  rw [← natStr_natVal s hs hds hcs, ← natStr_natVal t ht hdt hct, h]

/-! ### well-formed values -/

/-- a pre-release label as `construct` leaves it: numeric labels without leading zero, lower case -/
def wfIdent (s : List Char) : Bool :=
  (if !s.isEmpty && s.all isDigit then canonNum s else true) && lower s == s

/-- what `construct` establishes about the `prerelease` string: non-empty when present, and made
of well-formed labels -/
def WFV (v : Ver) : Bool :=
  match v.pre with
  | none => true
  | some p => !p.isEmpty && (splitOn '.' p).all wfIdent

def WF : Raw → Bool
  | none => true
  | some v => WFV v

example : WF (some ⟨1, 2, 3, some "rc.1".toList, some "B".toList, 4⟩) = true := by decide

/-! ### labels: the code's tags against the spec's labels -/

theorem compare_add_right (a b k : Nat) : compare (a + k) (b + k) = compare a b := by
  simp only [Nat.compare_eq_ite_lt]
  by_cases h1 : a < b <;> by_cases h2 : b < a <;> simp [h1, h2] <;> omega

theorem lexList_eq_imp {α : Type} (cmp : α → α → Ordering) [LawfulEqCmp cmp] :
    ∀ (a b : List α), lexList cmp a b = .eq → a = b
  | [], [], _ => rfl
  | [], _ :: _, h => by simp [lexList] at h
  | _ :: _, [], h => by simp [lexList] at h
  | a :: as, b :: bs, h => by
    simp only [lexList, Ordering.then_eq_eq] at h
    rw [LawfulEqCmp.eq_of_compare h.1, lexList_eq_imp cmp as bs h.2]

theorem tagCmp_eq_identCmp (a b : List Char) (ha : wfIdent a = true) (hb : wfIdent b = true) :
    tagCmp (convert a) (convert b) = identCmp (identOf a) (identOf b) := by
  simp only [wfIdent, Bool.and_eq_true, beq_iff_eq] at ha hb
  simp only [convert, identOf, ha.2, hb.2]
  split <;> split <;> rfl

theorem identOf_inj (a b : List Char) (ha : wfIdent a = true) (hb : wfIdent b = true)
    (h : identCmp (identOf a) (identOf b) = .eq) : a = b := by
  unfold wfIdent at ha hb
  have ⟨ha1, ha2⟩ := Bool.and_eq_true_iff.1 ha
  have ⟨hb1, hb2⟩ := Bool.and_eq_true_iff.1 hb
  simp only [beq_iff_eq] at ha2 hb2
  simp only [identOf, ha2, hb2] at h
  by_cases h1 : (!a.isEmpty && a.all isDigit) = true <;> by_cases h2 : (!b.isEmpty && b.all isDigit) = true
  · rw [if_pos h1] at ha1 h
    rw [if_pos h2] at hb1 h
    simp only [Bool.and_eq_true, Bool.not_eq_true', List.isEmpty_eq_false_iff] at h1 h2
    exact natVal_inj h1.1 h2.1 h1.2 h2.2 ha1 hb1 (Nat.compare_eq_eq.1 h)
  · simp [h1, h2, identCmp] at h
  · simp [h1, h2, identCmp] at h
  · simp only [h1, h2, identCmp, charsCmp] at h
    exact lexList_eq_imp _ _ _ h

/-- length of the dotted string, counting one separator after every part -/
def jlen : List (List Char) → Nat
  | [] => 0
  | p :: ps => p.length + 1 + jlen ps

theorem splitOn_ne_nil (sep : Char) (s : List Char) : splitOn sep s ≠ [] := by
  induction s with
  | nil => simp [splitOn]
  | cons c cs ih =>
    simp only [splitOn]
    split
    · simp
    · split <;> simp

theorem jlen_splitOn (sep : Char) (s : List Char) : jlen (splitOn sep s) = s.length + 1 := by
  induction s with
  | nil => simp [splitOn, jlen]
  | cons c cs ih =>
    simp only [splitOn]
    split
    · simp only [jlen, ih, List.length_nil, List.length_cons]; omega
    · split
      · rename_i h; exact absurd h (splitOn_ne_nil sep cs)
      · rename_i p ps h
        rw [h] at ih
        simp only [jlen, List.length_cons] at ih ⊢
        omega

/-- the loop of `_nat_cmp` followed by the comparison of the string lengths is the
lexicographic comparison of the labels -/
theorem zipCmp_then_len : ∀ (pa pb : List (List Char)),
    pa.all wfIdent = true → pb.all wfIdent = true →
    (match zipCmp (pa.map convert) (pb.map convert) with
      | .eq => compare (jlen pa) (jlen pb)
      | r => r) = lexList identCmp (pa.map identOf) (pb.map identOf)
  | [], [], _, _ => by simp [zipCmp, jlen, lexList]
  | [], b :: bs, _, _ => by
    simp only [List.map_nil, List.map_cons, zipCmp, jlen, lexList]
    exact Nat.compare_eq_lt.2 (by omega)
  | a :: as, [], _, _ => by
    simp only [List.map_nil, List.map_cons, zipCmp, jlen, lexList]
    exact Nat.compare_eq_gt.2 (by omega)
  | a :: as, b :: bs, ha, hb => by
    simp only [List.all_cons, Bool.and_eq_true] at ha hb
    have ih := zipCmp_then_len as bs ha.2 hb.2
    simp only [List.map_cons, zipCmp, lexList, tagCmp_eq_identCmp a b ha.1 hb.1]
    cases hc : identCmp (identOf a) (identOf b) with
    | lt => simp
    | gt => simp
    | eq =>
      have hab := identOf_inj a b ha.1 hb.1 hc
      subst hab
      simp only [Ordering.then]
      rw [← ih]
      have : compare (jlen (a :: as)) (jlen (a :: bs)) = compare (jlen as) (jlen bs) := by
        simp only [jlen]
        rw [Nat.add_comm _ (jlen as), Nat.add_comm _ (jlen bs)]
        exact compare_add_right _ _ _
      cases hz : zipCmp (as.map convert) (bs.map convert) <;> simp [this]

theorem natCmp_eq_lex (a b : List Char) (ha : (splitOn '.' a).all wfIdent = true)
    (hb : (splitOn '.' b).all wfIdent = true) :
    natCmp a b = lexList identCmp ((splitOn '.' a).map identOf) ((splitOn '.' b).map identOf) := by
  rw [← zipCmp_then_len _ _ ha hb, jlen_splitOn, jlen_splitOn, compare_add_right]
  rfl

/-! ### refinement -/

/-- the pre-release part of `VersionInfo.compare` -/
def prePart (p q : Option (List Char)) : Ordering :=
  let rccmp := natCmp (p.getD []) (q.getD [])
  if rccmp == .eq then .eq
  else if falsy p then .gt
  else if falsy q then .lt
  else rccmp

/-- the `(major, minor, patch)` part of `VersionInfo.compare` -/
def c3 (x y : Ver) : Ordering :=
  (compare x.major y.major).then ((compare x.minor y.minor).then (compare x.patch y.patch))

theorem semverCompare_eq (x y : Ver) : semverCompare x y = (c3 x y).then (prePart x.pre y.pre) := by
  unfold semverCompare c3 prePart lexPair
  simp only []
  cases (compare x.major y.major).then ((compare x.minor y.minor).then (compare x.patch y.patch)) <;> rfl

theorem natCmp_eq_len (a b : List Char) (h : natCmp a b = .eq) : a.length = b.length := by
  unfold natCmp at h
  split at h
  · exact Nat.compare_eq_eq.1 h
  · rename_i r hr; exact absurd h (hr · )

theorem ite_eq_self (r : Ordering) :
    (if (r == .eq) = true then Ordering.eq
      else if false = true then .gt else if false = true then .lt else r) = r := by
  cases r <;> rfl

def wfPre : Option (List Char) → Bool
  | none => true
  | some p => !p.isEmpty && (splitOn '.' p).all wfIdent

theorem prePart_eq_key (p q : Option (List Char)) (hp : wfPre p = true) (hq : wfPre q = true) :
    prePart p q = optTop (lexList identCmp) (preKey p) (preKey q) := by
  cases p with
  | none =>
    cases q with
    | none => decide
    | some t =>
      cases t with
      | nil => simp [wfPre] at hq
      | cons d ds =>
        have hne : natCmp [] (d :: ds) ≠ .eq := fun h => by simpa using natCmp_eq_len _ _ h
        simp [prePart, preKey, optTop, falsy, hne]
  | some s =>
    cases s with
    | nil => simp [wfPre] at hp
    | cons c cs =>
      cases q with
      | none =>
        have hne : natCmp (c :: cs) [] ≠ .eq := fun h => by simpa using natCmp_eq_len _ _ h
        simp [prePart, preKey, optTop, falsy, hne]
      | some t =>
        cases t with
        | nil => simp [wfPre] at hq
        | cons d ds =>
          simp only [wfPre, Bool.and_eq_true] at hp hq
          simp only [prePart, preKey, optTop, falsy, Option.getD_some, List.isEmpty_cons]
          rw [← natCmp_eq_lex _ _ hp.2 hq.2]
          exact ite_eq_self _

/-- `vercmpV` as a function of the component comparisons -/
def combine (cM cm cp P : Ordering) (rx ry : Nat) : Ordering :=
  if (if ((cM.then (cm.then cp)).then .eq == .eq && rx != ry) = true then decide (rx < ry)
      else ((cM.then (cm.then cp)).then P == .lt)) = true then .lt
  else if (((cM.then (cm.then cp)).then P == .eq) && rx == ry) = true then .eq
  else .gt

theorem combine_eq (cM cm cp P : Ordering) (rx ry : Nat) :
    combine cM cm cp P rx ry = (cM.then (cm.then (cp.then (compare rx ry)))).then P := by
  unfold combine
  rcases Nat.lt_trichotomy rx ry with h | h | h
  · have hc : compare rx ry = .lt := Nat.compare_eq_lt.2 h
    have hne : (rx != ry) = true := by simp; omega
    rw [hc, hne]
    cases cM <;> cases cm <;> cases cp <;> cases P <;> simp [h]
  · have hc : compare rx ry = .eq := Nat.compare_eq_eq.2 h
    have hne : (rx != ry) = false := by simp [h]
    rw [hc, hne]
    cases cM <;> cases cm <;> cases cp <;> cases P <;> simp [h]
  · have hc : compare rx ry = .gt := Nat.compare_eq_gt.2 h
    have hne : (rx != ry) = true := by simp; omega
    have hnl : ¬ rx < ry := by omega
    have hneq : ¬ rx = ry := by omega
    rw [hc, hne]
    cases cM <;> cases cm <;> cases cp <;> cases P <;> simp [hnl, hneq]

theorem vercmpV_combine (x y : Ver) :
    vercmpV x y = combine (compare x.major y.major) (compare x.minor y.minor)
      (compare x.patch y.patch) (prePart x.pre y.pre) x.revision y.revision := by
  have hpp : prePart (some []) (some []) = .eq := by decide
  unfold vercmpV ltV eqV
  rw [semverCompare_eq, semverCompare_eq]
  simp only [hpp, c3]
  rfl

theorem vercmpV_eq_key (x y : Ver) (hx : WFV x = true) (hy : WFV y = true) :
    vercmpV x y = keyCmpV (keyV x) (keyV y) := by
  have hP := prePart_eq_key x.pre y.pre hx hy
  rw [vercmpV_combine, combine_eq]
  simp only [keyCmpV, keyV, lexPair, numsCmp, natCmp', ← hP]

/-- REFINEMENT: on well-formed values the code orders as the NuGet key does -/
theorem vercmp_eq_key (a b : Raw) (ha : WF a = true) (hb : WF b = true) :
    vercmp a b = keyCmp (key a) (key b) := by
  cases a <;> cases b <;> simp only [vercmp, key, keyCmp, optBot]
  exact vercmpV_eq_key _ _ ha hb

/-! ### order laws on the well-formed values -/

/-- the values `construct` can produce -/
abbrev WFRaw : Type := { r : Raw // WF r = true }

def vercmpW (a b : WFRaw) : Ordering := vercmp a.1 b.1

theorem vercmpW_eq (a b : WFRaw) : vercmpW a b = cmpOn (fun (r : WFRaw) => key r.1) keyCmp a b :=
  vercmp_eq_key a.1 b.1 a.2 b.2

instance : TransCmp vercmpW := by
  have : vercmpW = cmpOn (fun (r : WFRaw) => key r.1) keyCmp := by
    funext a b; exact vercmpW_eq a b
  rw [this]; infer_instance

theorem vercmp_oriented (a b : Raw) (ha : WF a = true) (hb : WF b = true) :
    vercmp a b = (vercmp b a).swap := by
  rw [vercmp_eq_key a b ha hb, vercmp_eq_key b a hb ha]; exact OrientedCmp.eq_swap

theorem vercmp_isLE_trans (a b c : Raw) (ha : WF a = true) (hb : WF b = true) (hc : WF c = true) :
    (vercmp a b).isLE → (vercmp b c).isLE → (vercmp a c).isLE := by
  rw [vercmp_eq_key a b ha hb, vercmp_eq_key b c hb hc, vercmp_eq_key a c ha hc]
  exact TransCmp.isLE_trans

/-! ### C02: the six operators -/

theorem ltV_imp_not_eqV (x y : Ver) (h : eqV x y = true) : ltV x y = false := by
  simp only [eqV, Bool.and_eq_true, beq_iff_eq] at h
  simp [ltV, h.1, h.2]

theorem verOps_lawful : Lawful verOps vercmp := by
  have key : ∀ x y : Ver, ∀ l e : Bool, ltV x y = l → eqV x y = e → (e = true → l = false) →
      ((!e && l) = ((if l then Ordering.lt else if e then .eq else .gt) == .lt)) ∧
      ((!e && (!l && !e)) = ((if l then Ordering.lt else if e then .eq else .gt) == .gt)) ∧
      (e = ((if l then Ordering.lt else if e then .eq else .gt) == .eq)) ∧
      ((e || (l || e)) = ((if l then Ordering.lt else if e then .eq else .gt) != .gt)) ∧
      ((e || !l) = ((if l then Ordering.lt else if e then .eq else .gt) != .lt)) ∧
      ((!e) = ((if l then Ordering.lt else if e then .eq else .gt) != .eq)) := by
    intro x y l e _ _ h
    cases l <;> cases e <;> simp at h ⊢
  constructor <;> intro a b <;> cases a <;> cases b <;>
    simp only [verOps, Py.attrsOps, valOps, vercmp] <;> try rfl
  all_goals
    rename_i x y
    have h := key x y _ _ rfl rfl (ltV_imp_not_eqV x y)
    simp only [valOpsV, Py.totalOrderingFromLt, vercmpV]
    first
      | exact h.1 | exact h.2.1 | exact h.2.2.1 | exact h.2.2.2.1 | exact h.2.2.2.2.1
      | exact h.2.2.2.2.2

/-! ### C12: eq and hash -/

/-- inverse of `splitOn` -/
def joinOn (sep : Char) : List (List Char) → List Char
  | [] => []
  | [p] => p
  | p :: q :: r => p ++ sep :: joinOn sep (q :: r)

theorem joinOn_cons_cons (sep c : Char) (p : List Char) (ps : List (List Char)) :
    joinOn sep ((c :: p) :: ps) = c :: joinOn sep (p :: ps) := by
  cases ps <;> simp [joinOn]

theorem joinOn_splitOn (sep : Char) (s : List Char) : joinOn sep (splitOn sep s) = s := by
  induction s with
  | nil => simp [splitOn, joinOn]
  | cons c cs ih =>
    simp only [splitOn]
    split
    · rename_i hc
      have hc' : c = sep := by simpa using hc
      cases hsp : splitOn sep cs with
      | nil => exact absurd hsp (splitOn_ne_nil sep cs)
      | cons q r =>
        rw [hsp] at ih
        simp [joinOn, ih, hc']
    · split
      · rename_i h; exact absurd h (splitOn_ne_nil sep cs)
      · rename_i q r h
        rw [h] at ih
        rw [joinOn_cons_cons, ih]

theorem splitOn_inj (sep : Char) (a b : List Char) (h : splitOn sep a = splitOn sep b) : a = b := by
  rw [← joinOn_splitOn sep a, ← joinOn_splitOn sep b, h]

theorem lex_identOf_inj : ∀ (pa pb : List (List Char)),
    pa.all wfIdent = true → pb.all wfIdent = true →
    lexList identCmp (pa.map identOf) (pb.map identOf) = .eq → pa = pb
  | [], [], _, _, _ => rfl
  | [], _ :: _, _, _, h => by simp [lexList] at h
  | _ :: _, [], _, _, h => by simp [lexList] at h
  | a :: as, b :: bs, ha, hb, h => by
    simp only [List.all_cons, Bool.and_eq_true] at ha hb
    simp only [List.map_cons, lexList, Ordering.then_eq_eq] at h
    rw [identOf_inj a b ha.1 hb.1 h.1, lex_identOf_inj as bs ha.2 hb.2 h.2]

theorem prePart_eq_imp (p q : Option (List Char)) (hp : wfPre p = true) (hq : wfPre q = true)
    (h : prePart p q = .eq) : p = q := by
  rw [prePart_eq_key p q hp hq] at h
  cases p with
  | none =>
    cases q with
    | none => rfl
    | some t =>
      cases t with
      | nil => simp [wfPre] at hq
      | cons d ds => simp [preKey, optTop] at h
  | some s =>
    cases s with
    | nil => simp [wfPre] at hp
    | cons c cs =>
      cases q with
      | none => simp [preKey, optTop] at h
      | some t =>
        cases t with
        | nil => simp [wfPre] at hq
        | cons d ds =>
          simp only [wfPre, Bool.and_eq_true] at hp hq
          simp only [preKey, optTop] at h
          rw [splitOn_inj '.' _ _ (lex_identOf_inj _ _ hp.2 hq.2 h)]

/-- C12: equal well-formed versions have the same hash key (the build metadata is ignored by
`==` and by the hash alike) -/
theorem eq_imp_hash (a b : Raw) (ha : WF a = true) (hb : WF b = true) :
    verOps.eq a b = true → hashKey a = hashKey b := by
  cases a with
  | none => cases b <;> simp [verOps, Py.attrsOps, valOps, vercmp, hashKey]
  | some x =>
    cases b with
    | none => simp [verOps, Py.attrsOps, valOps, vercmp]
    | some y =>
      intro h
      simp only [verOps, Py.attrsOps, valOps, valOpsV, Py.totalOrderingFromLt, eqV,
        Bool.and_eq_true, beq_iff_eq] at h
      obtain ⟨h1, h2⟩ := h
      rw [semverCompare_eq] at h1
      simp only [Ordering.then_eq_eq, c3] at h1
      have hpre := prePart_eq_imp x.pre y.pre ha hb h1.2
      simp only [hashKey, Nat.compare_eq_eq.1 h1.1.1, Nat.compare_eq_eq.1 h1.1.2.1,
        Nat.compare_eq_eq.1 h1.1.2.2, hpre, h2]

/-- `1.0.0+a == 1.0.0+b` and they hash alike -/
example : verOps.eq (some ⟨1, 0, 0, none, some ['a'], 0⟩) (some ⟨1, 0, 0, none, some ['b'], 0⟩) = true ∧
    hashKey (some ⟨1, 0, 0, none, some ['a'], 0⟩) = hashKey (some ⟨1, 0, 0, none, some ['b'], 0⟩) :=
  ⟨by decide, rfl⟩

/-- `WF` is needed: on values that `construct` never builds (a numeric label with a leading zero)
`==` holds between different prerelease strings -/
theorem eq_imp_hash_needs_wf :
    verOps.eq (some ⟨1, 0, 0, some "01.1".toList, none, 0⟩) (some ⟨1, 0, 0, some "1.01".toList, none, 0⟩) = true ∧
    hashKey (some ⟨1, 0, 0, some "01.1".toList, none, 0⟩) ≠ hashKey (some ⟨1, 0, 0, some "1.01".toList, none, 0⟩) ∧
    WF (some ⟨1, 0, 0, some "01.1".toList, none, 0⟩) = false :=
  ⟨by decide, by simp [hashKey], by decide⟩

/-! ### `construct` establishes `WF` -/

theorem upperRange (P : Char → Prop) (h : ∀ k, k < 91 → 65 ≤ k → P (Char.ofNat k)) (c : Char)
    (h1 : 'A' ≤ c) (h2 : c ≤ 'Z') : P c := by
  have := h c.toNat
    (by simp only [Char.le_def, UInt32.le_iff_toNat_le] at h2; exact Nat.lt_succ_of_le h2)
    (by simp only [Char.le_def, UInt32.le_iff_toNat_le] at h1; exact h1)
  rwa [Char.ofNat_toNat] at this

theorem lowerChar_of_not_upper (c : Char) (h : ¬ ('A' ≤ c ∧ c ≤ 'Z')) : lowerChar c = c := by
  simp only [lowerChar, Bool.and_eq_true, decide_eq_true_eq, h, if_false]

theorem lowerChar_facts (c : Char) :
    lowerChar (lowerChar c) = lowerChar c ∧ isDigit (lowerChar c) = isDigit c ∧
    ((lowerChar c == '.') = (c == '.')) ∧ (isDigit c = true → lowerChar c = c) := by
  by_cases h : 'A' ≤ c ∧ c ≤ 'Z'
  · exact upperRange (fun c => lowerChar (lowerChar c) = lowerChar c ∧
      isDigit (lowerChar c) = isDigit c ∧ ((lowerChar c == '.') = (c == '.')) ∧
      (isDigit c = true → lowerChar c = c)) (by decide) c h.1 h.2
  · have := lowerChar_of_not_upper c h
    rw [this]; simp [this]

theorem lower_idem (s : List Char) : lower (lower s) = lower s := by
  induction s with
  | nil => rfl
  | cons c cs ih =>
    simp only [lower, List.map_cons, List.cons.injEq] at ih ⊢
    exact ⟨(lowerChar_facts c).1, ih⟩

theorem all_isDigit_lower (s : List Char) : (lower s).all isDigit = s.all isDigit := by
  induction s with
  | nil => rfl
  | cons c cs ih =>
    simp only [lower, List.map_cons, List.all_cons] at ih ⊢
    rw [(lowerChar_facts c).2.1, ih]

theorem lower_of_digits (s : List Char) (h : s.all isDigit = true) : lower s = s := by
  induction s with
  | nil => rfl
  | cons c cs ih =>
    simp only [List.all_cons, Bool.and_eq_true] at h
    simp only [lower, List.map_cons, List.cons.injEq] at ih ⊢
    exact ⟨(lowerChar_facts c).2.2.2 h.1, ih h.2⟩

theorem splitOn_lower (s : List Char) : splitOn '.' (lower s) = (splitOn '.' s).map lower := by
  induction s with
  | nil => rfl
  | cons c cs ih =>
    simp only [lower, List.map_cons] at ih ⊢
    simp only [splitOn, (lowerChar_facts c).2.2.1]
    split
    · simp [ih, lower]
    · rw [ih]
      cases splitOn '.' cs <;> simp [lower]

theorem wfIdent_lower_of_valid (x : List Char) (h : validPreId x = true) : wfIdent (lower x) = true := by
  unfold wfIdent
  rw [lower_idem]
  simp only [beq_self_eq_true, Bool.and_true]
  by_cases hd : x.all isDigit = true
  · rw [lower_of_digits x hd]
    simp only [validPreId, Bool.and_eq_true, Bool.or_eq_true, hd, Bool.not_true, Bool.false_or] at h
    split
    · simpa [canonNum] using h.2
    · rfl
  · have : ((!(lower x).isEmpty) && (lower x).all isDigit) = false := by
      rw [all_isDigit_lower]; simp [hd]
    rw [this]; rfl

/-- what `semver.VersionInfo.parse` guarantees about `prerelease` -/
def validPre : Option (List Char) → Bool
  | none => true
  | some p => (splitOn '.' p).all validPreId

theorem parseTail_validPre (s : List Char) (pre build : Option (List Char))
    (h : parseTail s = some (pre, build)) : validPre pre = true := by
  unfold parseTail at h
  split at h
  · split at h
    · rename_i hv
      simp only [Option.map_eq_some_iff, Prod.mk.injEq] at h
      obtain ⟨_, _, h2, _⟩ := h
      subst h2
      exact hv
    · simp at h
  · simp only [Option.map_eq_some_iff, Prod.mk.injEq] at h
    obtain ⟨_, _, h2, _⟩ := h
    subst h2
    rfl

theorem semverParse_validPre (s : List Char) (v : Ver) (h : semverParse s = some v) :
    validPre v.pre = true := by
  unfold semverParse at h
  simp only [Option.bind_eq_bind, Option.bind_eq_some_iff] at h
  obtain ⟨⟨ma, r1⟩, _, h⟩ := h
  split at h
  · simp only [Option.bind_eq_some_iff] at h
    obtain ⟨⟨mi, r2⟩, _, h⟩ := h
    split at h
    · simp only [Option.bind_eq_some_iff] at h
      obtain ⟨⟨pa, r3⟩, _, ⟨pre, build⟩, ht, h⟩ := h
      simp only [Option.pure_def, Option.some.injEq] at h
      subst h
      exact parseTail_validPre _ _ _ ht
    · simp at h
  · simp at h

theorem fromCoerced_wf (s : List Char) (v : Ver) (h : fromCoerced s = some v) : WFV v = true := by
  unfold fromCoerced at h
  simp only [] at h
  split at h
  · simp at h
  · rename_i v0 hv0
    have hvp := semverParse_validPre _ _ hv0
    simp only [Option.some.injEq] at h
    subst h
    simp only [WFV]
    cases hp : v0.pre with
    | none => simp [falsy]
    | some p =>
      rw [hp] at hvp
      simp only [validPre] at hvp
      have hne : p.isEmpty = false := by
        cases p with
        | nil => simp [splitOn, validPreId] at hvp
        | cons c cs => rfl
      simp only [falsy, hne, Bool.false_eq_true, if_false, Option.map_some]
      have hne' : (lower p).isEmpty = false := by
        cases p with
        | nil => simp at hne
        | cons c cs => rfl
      simp only [hne', Bool.not_false, Bool.true_and, splitOn_lower, List.all_map]
      apply List.all_eq_true.2
      intro x hx
      exact wfIdent_lower_of_valid x (List.all_eq_true.1 hvp x hx)

/-- every value built by `NugetVersion(string)` is well formed -/
theorem construct_wf (s : List Char) (r : Raw) (h : construct s = .ok r) : WF r = true := by
  unfold construct at h
  simp only [] at h
  split at h
  · cases h; rfl
  · split at h
    · cases h
    · split at h
      · cases h
      · rename_i v hv
        cases h
        exact fromCoerced_wf _ _ hv

/-! ### NuGet folds case by upper-casing (`OrdinalIgnoreCase`); the code lower-cases -/

def upperChar (c : Char) : Char :=
  if 'a' ≤ c && c ≤ 'z' then Char.ofNat (c.toNat - 32) else c

def upper (s : List Char) : List Char := s.map upperChar

theorem isIdChar_lt (c : Char) (h : isIdChar c = true) : c.toNat < 128 := by
  simp only [isIdChar, isDigit, isAlpha, Bool.or_eq_true, Bool.and_eq_true, decide_eq_true_eq,
    Char.le_def, UInt32.le_iff_toNat_le, beq_iff_eq] at h
  rcases h with (h | h | h) | h
  · exact Nat.lt_of_le_of_lt h.2 (by decide)
  · exact Nat.lt_of_le_of_lt h.2 (by decide)
  · exact Nat.lt_of_le_of_lt h.2 (by decide)
  · subst h; decide

theorem fold_char_table : ∀ i, i < 128 → ∀ j, j < 128 →
    isIdChar (Char.ofNat i) = true → isIdChar (Char.ofNat j) = true →
    compare (lowerChar (Char.ofNat i)) (lowerChar (Char.ofNat j)) =
      compare (upperChar (Char.ofNat i)) (upperChar (Char.ofNat j)) := by
  decide +kernel

theorem fold_char (c d : Char) (hc : isIdChar c = true) (hd : isIdChar d = true) :
    compare (lowerChar c) (lowerChar d) = compare (upperChar c) (upperChar d) := by
  have := fold_char_table c.toNat (isIdChar_lt c hc) d.toNat (isIdChar_lt d hd)
  simp only [Char.ofNat_toNat] at this
  exact this hc hd

/-- on the label alphabet `[0-9A-Za-z-]` lower-case folding (the code, and `identOf`) and
upper-case folding (NuGet's `OrdinalIgnoreCase`) give the same order -/
theorem foldLower_eq_foldUpper : ∀ (a b : List Char), a.all isIdChar = true → b.all isIdChar = true →
    charsCmp (lower a) (lower b) = charsCmp (upper a) (upper b)
  | [], [], _, _ => rfl
  | [], _ :: _, _, _ => rfl
  | _ :: _, [], _, _ => rfl
  | c :: cs, d :: ds, ha, hb => by
    simp only [List.all_cons, Bool.and_eq_true] at ha hb
    have ih := foldLower_eq_foldUpper cs ds ha.2 hb.2
    simp only [charsCmp, lower, upper, List.map_cons, lexList] at ih ⊢
    rw [fold_char c d ha.1 hb.1, ih]

/-- outside the alphabet the two foldings differ (`_` lies between `Z` and `a`); such labels are
rejected by `construct` -/
theorem fold_differs_outside_alphabet :
    charsCmp (lower ['_']) (lower ['a']) = .lt ∧ charsCmp (upper ['_']) (upper ['a']) = .gt := by
  decide

/-! ### C11: `str` round trip

Not proved in general (the chain `coerce` / `_extract_revision` / `coerce` / `_REGEX` on the printed
string); checked on instances.  It FAILS for the value `None` of `NugetVersion("")`: its `str` is
`"None"`, which `NugetVersion` refuses with `InvalidNuGetVersion`. -/

theorem str_roundtrip_counterexample :
    construct [] = .ok none ∧ str none = "None".toList ∧
    construct (str none) = .error (.other "InvalidNuGetVersion") :=
  ⟨by rfl, by rfl, by rfl⟩

example : construct "01.02.03.04-RC.1+B".toList =
    .ok (some ⟨1, 2, 3, some "rc.1".toList, some "B".toList, 4⟩) := by rfl
example : str (some ⟨1, 2, 3, some "rc.1".toList, some "B".toList, 4⟩) = "1.2.3.4-rc.1+B".toList := by rfl
example : construct (str (some ⟨1, 2, 3, some "rc.1".toList, some "B".toList, 4⟩)) =
    .ok (some ⟨1, 2, 3, some "rc.1".toList, some "B".toList, 4⟩) := by rfl
example : construct (str (some ⟨10, 0, 0, none, none, 0⟩)) = .ok (some ⟨10, 0, 0, none, none, 0⟩) := by rfl

/-- `NugetVersion("abc")`: `InvalidNuGetVersion` escapes (it is not a `ValueError`) -/
theorem construct_no_digit_raises :
    construct "abc".toList = .error (.other "InvalidNuGetVersion") := by rfl

/-- ordering `NugetVersion("")` against a version raises `TypeError` (`defined = false`);
`==` answers `False` -/
theorem none_value_undefined :
    defined none (some ⟨1, 0, 0, none, none, 0⟩) = false ∧
    verOps.eq none (some ⟨1, 0, 0, none, none, 0⟩) = false := by decide

end Univers.Nuget
