/-
Layer A model of `univers.versions.GentooVersion` (scheme `ebuild`) and
`univers.versions.AlpineLinuxVersion` (scheme `alpine`), and of `univers.gentoo`
(`is_valid`, `parse_version_and_revision`, `vercmp`), branch for branch.

Neither class overrides `normalize` or `build_value`: the value is the normalized string.
`GentooVersion` hand-writes `__eq__ __lt__ __gt__ __le__ __ge__` through `gentoo.vercmp`;
`__ne__` is the attrs one of `Version` (`not self.__eq__(other)`); `__hash__` is
`hash(gentoo.get_hash_key(self.value))`.  `AlpineLinuxVersion` only adds
`is_valid_alpine_version` to `is_valid`.

The regular expressions (`re`, standard library) are modelled by recognisers of their languages:
* `_is_gentoo_version = ^(?:\d+)(?:\.\d+)*[a-zA-Z]?(?:_(p(?:re)?|beta|alpha|rc)\d*)*$` : `matchVersion`
* `suffix_regexp = ^(alpha|beta|rc|pre|p)(\d*)$` : `sufMatch`
* `revision_regexp = .*(-r\d+)` searched : `findRev` (the LAST `-r` followed by a digit; whatever
  follows the digits is dropped by the code)

Domain: ASCII text without line breaks.
-/
import Univers.Basic.PadLex
import Univers.Vers.Model
import Univers.Py.Attrs

namespace Univers.Gentoo

open Univers

/-- `Version.value`: the normalized string -/
abbrev Raw := List Char

inductive PErr | invalid | other (name : String)
  deriving DecidableEq, Repr

/-! ### `Version.normalize` -/

/-- ASCII characters on which `str.split()` splits: TAB LF VT FF CR, FS GS RS US, SPACE -/
def isWs (c : Char) : Bool :=
  c == ' ' || (9 ≤ c.toNat && c.toNat ≤ 13) || (28 ≤ c.toNat && c.toNat ≤ 31)

/-- `utils.remove_spaces`: `"".join(string.split())` -/
def removeSpaces (s : List Char) : List Char := s.filter (fun c => !isWs c)

def isV (c : Char) : Bool := c == 'v' || c == 'V'

/-- `Version.normalize`: `remove_spaces(string).lstrip("vV")` -/
def normalize (s : List Char) : List Char := (removeSpaces s).dropWhile isV

/-! ### `gentoo.parse_version_and_revision`, `gentoo.is_valid` -/

/-- `int(s)` on a string of ASCII digits (`int("0" + s)` when `s` may be empty) -/
def natOfDigits (s : List Char) : Nat := s.foldl (fun n c => 10 * n + (c.toNat - '0'.toNat)) 0

/-- `revision_regexp.search(s)`: `some (s[:match.span(1)[0]], int(match.group(1)[2:]))` for the
last position where `-r` and a digit follow -/
def findRev : List Char → Option (List Char × Nat)
  | [] => none
  | c :: cs =>
    match findRev cs with
    | some (v, n) => some (c :: v, n)
    | none =>
      match c, cs with
      | '-', 'r' :: d :: rest =>
        if d.isDigit then some ([], natOfDigits ((d :: rest).takeWhile Char.isDigit)) else none
      | _, _ => none

/-- `parse_version_and_revision(version_string)` -/
def parseVR (s : List Char) : List Char × Nat :=
  match findRev s with
  | some p => p
  | none => (s, 0)

/-- `s.split(sep)` as (first piece, further pieces) -/
def splitOn (sep : Char) : List Char → List Char × List (List Char)
  | [] => ([], [])
  | c :: cs =>
    let r := splitOn sep cs
    if c == sep then ([], r.1 :: r.2) else (c :: r.1, r.2)

/-- `s.split(sep)` as a list (never empty) -/
def splitList (sep : Char) (s : List Char) : List (List Char) :=
  (splitOn sep s).1 :: (splitOn sep s).2

/-- `suffix_value` -/
def sufNames : List (List Char × Int) :=
  [("alpha".toList, -4), ("beta".toList, -3), ("rc".toList, -1), ("pre".toList, -2), ("p".toList, 1)]

def stripPrefix : List Char → List Char → Option (List Char)
  | [], s => some s
  | _ :: _, [] => none
  | p :: ps, c :: cs => if p == c then stripPrefix ps cs else none

/-- `suffix_regexp.match(part)`: `(group(1), suffix_value[group(1)], group(2))`; alternatives
tried in the order of the pattern -/
def sufMatchIn : List (List Char × Int) → List Char → Option (List Char × Int × List Char)
  | [], _ => none
  | (name, val) :: more, s =>
    match stripPrefix name s with
    | some rest => if rest.all Char.isDigit then some (name, val, rest) else sufMatchIn more s
    | none => sufMatchIn more s

/-- `(suffix_value[match.group(1)], match.group(2))` -/
def sufMatch (s : List Char) : Option (Int × List Char) := (sufMatchIn sufNames s).map (·.2)

/-- pull a letter off the last dotted component: the components, and `ord(letter)` or `-1`.
(Used by `vercmp` for its `letters`; there `ver_parts[-1][-1]` raises `IndexError` on an empty
last component: never for a valid version; here: no letter.) -/
def stripLetter : List (List Char) → List (List Char) × Int
  | [] => ([], -1)
  | [last] =>
    match last.getLast? with
    | some c => if c.isAlpha then ([last.dropLast], c.toNat) else ([last], -1)
    | none => ([last], -1)
  | c :: cs => let r := stripLetter cs; (c :: r.1, r.2)

/-- `\d+(?:\.\d+)*[a-zA-Z]?` on the part before the first `_`: dotted components, the last one
with an optional letter; every component a non-empty string of digits -/
def matchHead (h : List Char) : Bool :=
  (stripLetter (splitList '.' h)).1.all (fun comp => !comp.isEmpty && comp.all Char.isDigit)

/-- `_is_gentoo_version(version)` -/
def matchVersion (v : List Char) : Bool :=
  matchHead (splitOn '_' v).1 && (splitOn '_' v).2.all (fun p => (sufMatch p).isSome)

/-- `gentoo.is_valid(string)` -/
def isValid (s : List Char) : Bool := matchVersion (parseVR (removeSpaces s)).1

/-- `is_valid_alpine_version(s)` -/
def isValidAlpine (s : List Char) : Bool :=
  let left := (s.takeWhile (· != '.')).takeWhile (· != '-')
  if !(!left.isEmpty && left.all Char.isDigit) then true
  else left == ['0'] || left.head? != some '0'

/-- `GentooVersion(string)` -/
def construct (s : List Char) : Except PErr Raw :=
  let n := normalize s
  if isValid n then .ok n else .error .invalid

/-- `AlpineLinuxVersion(string)` -/
def constructAlpine (s : List Char) : Except PErr Raw :=
  let n := normalize s
  if isValidAlpine n && isValid n then .ok n else .error .invalid

/-- `str(version)` = `str(self.value)` -/
def str (r : Raw) : List Char := r

/-! ### `gentoo.vercmp` -/

def charCmp (a b : Char) : Ordering := compare a.toNat b.toNat

/-- `cmp(x, y)` of `univers.utils` on two strings: code-point lexicographic order -/
def strCmp : List Char → List Char → Ordering := lexList charCmp

/-- `s.rstrip("0")` -/
def rstrip0 : List Char → List Char
  | [] => []
  | c :: cs =>
    match rstrip0 cs with
    | [] => if c == '0' then [] else [c]
    | r :: rs => c :: r :: rs

/-- the comparison of two dotted components that are not equal as strings.
(`v1[0]` raises `IndexError` on an empty component: never for a valid version.) -/
def compPair (v1 v2 : List Char) : Ordering :=
  if v1.head? != some '0' && v2.head? != some '0' then compare (natOfDigits v1) (natOfDigits v2)
  else strCmp (rstrip0 v1) (rstrip0 v2)

/-- `for v1, v2 in zip(ver_parts1, ver_parts2)`: `some c` = `return c`, `none` = loop ended -/
def compLoop : List (List Char) → List (List Char) → Option Ordering
  | v1 :: r1, v2 :: r2 =>
    if v1 == v2 then compLoop r1 r2
    else
      let c := compPair v1 v2
      if c != .eq then some c else compLoop r1 r2
  | _, _ => none

/-- the block `if parts1[0] != parts2[0]:` — `some c` = `return c`, `none` = fall through -/
def dotted (h1 h2 : List Char) : Option Ordering :=
  let l1 := stripLetter (splitList '.' h1)
  let l2 := stripLetter (splitList '.' h2)
  match compLoop l1.1 l2.1 with
  | some c => some c
  | none =>
    if l1.1.length > l2.1.length then some .gt
    else if l2.1.length > l1.1.length then some .lt
    else if l1.2 != l2.2 then some (compare l1.2 l2.2)
    else none

/-- `(suffix_value[match.group(1)], int("0" + match.group(2)))`.
(`match` is `None` for a part that is not a suffix: `AttributeError`; never for a valid version;
here `(0, 0)`.) -/
def suf (p : List Char) : Int × Nat :=
  match sufMatch p with
  | some (val, digits) => (val, natOfDigits ('0' :: digits))
  | none => (0, 0)

/-- `for x in range(max(parts1_len, parts2_len))` — `some c` = `return c`, `none` = loop ended -/
def sufLoop : List (List Char) → List (List Char) → Option Ordering
  | [], [] => none
  | [], q :: _ =>
    let s := suf q
    if s.1 != 0 then some (compare 0 s.1) else some (compare 0 s.2)
  | p :: _, [] =>
    let s := suf p
    if s.1 != 0 then some (compare s.1 0) else some (compare s.2 0)
  | p :: ps, q :: qs =>
    if p == q then sufLoop ps qs
    else
      let s1 := suf p
      let s2 := suf q
      let c := compare s1.1 s2.1
      if c != .eq then some c
      else
        let c := compare s1.2 s2.2
        if c != .eq then some c else sufLoop ps qs

/-- `gentoo.vercmp(ver1, ver2)` (`-1, 0, 1` as `lt, eq, gt`) -/
def vercmp (a b : Raw) : Ordering :=
  if a.isEmpty then (if b.isEmpty then .eq else .lt)
  else if b.isEmpty then .gt
  else
    let vr1 := parseVR a
    let vr2 := parseVR b
    if vr1.1 == vr2.1 then
      if vr1.2 == 0 && vr2.2 == 0 then .eq else compare vr1.2 vr2.2
    else
      let p1 := splitOn '_' vr1.1
      let p2 := splitOn '_' vr2.1
      match (if p1.1 != p2.1 then dotted p1.1 p2.1 else none) with
      | some c => c
      | none =>
        match sufLoop p1.2 p2.2 with
        | some c => c
        | none => compare vr1.2 vr2.2

/-! ### operators and hashing -/

/-- the value is a `str`: its six operators are code-point lexicographic -/
def valOps : VOps Raw := Univers.Py.opsOfSign strCmp

/-- `GentooVersion` / `AlpineLinuxVersion`: `__eq__ __lt__ __gt__ __le__ __ge__` hand-written on
`gentoo.vercmp`; `__ne__` = `not self.__eq__(other)` (attrs `Version.__ne__`) -/
def verOps : VOps Raw where
  eq a b := vercmp a b == .eq
  lt a b := vercmp a b == .lt
  gt a b := vercmp a b == .gt
  le a b := vercmp a b != .gt
  ge a b := vercmp a b != .lt
  ne a b := !(vercmp a b == .eq)

/-- `GentooVersion.__hash__` is defined -/
def hashable : Bool := true

/-- the `letter` step of `get_hash_key`: `dotted[-1:].isalpha()` — (letter or `""`, the dotted
string without it) -/
def splitLetter (dotted : List Char) : List Char × List Char :=
  match dotted.getLast? with
  | some c => if c.isAlpha then ([c], dotted.dropLast) else ([], dotted)
  | none => ([], dotted)

/-- `c.rstrip("0") if c.startswith("0") else c` -/
def hashComp (c : List Char) : List Char := if c.head? == some '0' then rstrip0 c else c

/-- `(match.group(1), int("0" + match.group(2)))`, `none` when `suffix_regexp` does not match
(such parts are filtered out) -/
def hashSuf (p : List Char) : Option (List Char × Nat) :=
  (sufMatchIn sufNames p).map (fun t => (t.1, natOfDigits ('0' :: t.2.2)))

/-- `gentoo.get_hash_key(self.value)`: `(components, letter, suffixes, revision)`;
`GentooVersion.__hash__` is `hash` of it -/
def hashKey (r : Raw) : List (List Char) × List Char × List (List Char × Nat) × Nat :=
  let vr := parseVR r
  let p := splitOn '_' vr.1
  let l := splitLetter p.1
  ((splitList '.' l.2).map hashComp, l.1, p.2.filterMap hashSuf, vr.2)

end Univers.Gentoo
