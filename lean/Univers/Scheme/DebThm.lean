/-
Layer A — THEOREMS for the Debian scheme.

  * `vercmp_eq_key`   (C03) `compare_version_objects` = dpkg order of the keys, on all `Raw`
  * `rank_eq_dpkgOrder`     the spec's character order is dpkg's `order()` on the Debian alphabet
  * `TransCmp vercmp`       from the refinement
  * `verOps_lawful`   (C02) all six operators are the ones induced by `vercmp`, on all `Raw`
  * `eq_imp_hash`     (C12) `==` versions have equal hash keys, on all `Raw`
                            (through `padLex_eq_stripTrail` of `Univers/Basic/PadLexEq.lean`)
  * `construct_wf`          `construct` establishes `WellFormed`
  * `str_roundtrip`   (C11) `construct (str r) = .ok r` for well-formed `r` (epoch ≤ 4300 digits)
-/
import Univers.Scheme.DebSpec
import Univers.Vers.Spec
import Univers.Basic.PadLexEq

namespace Univers.Deb

open Univers Std

/-! ### characters -/

theorem charactersOrder_eq (c : Char) : charactersOrder c =
    if c.toNat = 126 then some 0
    else if 65 ≤ c.toNat ∧ c.toNat ≤ 90 then some (c.toNat - 63)
    else if 97 ≤ c.toNat ∧ c.toNat ≤ 122 then some (c.toNat - 69)
    else if c.toNat = 43 then some 54
    else if c.toNat = 45 then some 55
    else if c.toNat = 46 then some 56
    else none := by
  unfold charactersOrder
  split <;> try (simp; done)
  simp only [← Char.toNat_inj, Char.reduceToNat, imp_false] at *
  have h1 : ¬ c.toNat = 126 := by omega
  have h2 : ¬ (65 ≤ c.toNat ∧ c.toNat ≤ 90) := by omega
  have h3 : ¬ (97 ≤ c.toNat ∧ c.toNat ≤ 122) := by omega
  have h4 : ¬ c.toNat = 43 := by omega
  have h5 : ¬ c.toNat = 45 := by omega
  have h6 : ¬ c.toNat = 46 := by omega
  rw [if_neg h1, if_neg h2, if_neg h3, if_neg h4, if_neg h5, if_neg h6]


theorem isAlpha_iff (c : Char) :
    c.isAlpha = true ↔ (65 ≤ c.toNat ∧ c.toNat ≤ 90) ∨ (97 ≤ c.toNat ∧ c.toNat ≤ 122) := by
  simp [Char.isAlpha, Char.isUpper, Char.isLower, UInt32.le_iff_toNat_le]

theorem isDigit_iff (c : Char) : c.isDigit = true ↔ 48 ≤ c.toNat ∧ c.toNat ≤ 57 := by
  simp [Char.isDigit, UInt32.le_iff_toNat_le]

/-- the class/code pair from the value in the Python table (and from the model's extension) -/
def dec (n : Nat) : Nat × Nat :=
  if n = 0 then (0, 0) else if n = 1 then (1, 0)
  else if n ≤ 27 then (2, n + 63) else if n ≤ 53 then (2, n + 69)
  else if n = 54 then (3, 43) else if n = 55 then (3, 45) else if n = 56 then (3, 46)
  else (4, n - 57)

theorem dec_orderOf (x : Option Char) : dec (orderOf x) = rank x := by
  cases x with
  | none => rfl
  | some c =>
    have ha := isAlpha_iff c
    simp only [orderOf, charactersOrder_eq, rank, ← Char.toNat_inj, Char.reduceToNat]
    by_cases h1 : c.toNat = 126
    · have : ¬ c.isAlpha = true := by rw [ha]; omega
      simp [h1, dec]
    · by_cases h2 : 65 ≤ c.toNat ∧ c.toNat ≤ 90
      · have : c.isAlpha = true := by rw [ha]; omega
        simp only [h1, h2, this, dec, if_true, if_false, and_self]
        repeat' split
        all_goals first | omega | contradiction | (congr 1; omega)
      · by_cases h3 : 97 ≤ c.toNat ∧ c.toNat ≤ 122
        · have : c.isAlpha = true := by rw [ha]; omega
          simp only [h1, h2, h3, this, dec, if_true, if_false, and_self]
          repeat' split
          all_goals first | omega | contradiction | (congr 1; omega)
        · have : ¬ c.isAlpha = true := by rw [ha]; omega
          simp only [h1, h2, h3, this, if_false]
          by_cases h4 : c.toNat = 43
          · simp [h4, dec]
          · by_cases h5 : c.toNat = 45
            · simp [h5, dec]
            · by_cases h6 : c.toNat = 46
              · simp [h6, dec]
              · simp only [h4, h5, h6, if_false, or_self, dec]
                repeat' split
                all_goals first | omega | contradiction | (congr 1; omega)


theorem dec_facts (n : Nat) :
    (n = 0 → (dec n).1 = 0 ∧ (dec n).2 = 0) ∧
    (n = 1 → (dec n).1 = 1 ∧ (dec n).2 = 0) ∧
    (2 ≤ n ∧ n ≤ 27 → (dec n).1 = 2 ∧ (dec n).2 = n + 63) ∧
    (28 ≤ n ∧ n ≤ 53 → (dec n).1 = 2 ∧ (dec n).2 = n + 69) ∧
    (n = 54 → (dec n).1 = 3 ∧ (dec n).2 = 43) ∧
    (n = 55 → (dec n).1 = 3 ∧ (dec n).2 = 45) ∧
    (n = 56 → (dec n).1 = 3 ∧ (dec n).2 = 46) ∧
    (57 ≤ n → (dec n).1 = 4 ∧ (dec n).2 = n - 57) := by
  simp only [dec]
  repeat' split
  all_goals (refine ⟨?_, ?_, ?_, ?_, ?_, ?_, ?_, ?_⟩ <;> intro _ <;> first | omega | (simp <;> omega))

theorem dec_fst_mono {a b : Nat} (h : a < b) : (dec a).1 ≤ (dec b).1 := by
  have := dec_facts a; have := dec_facts b; omega

theorem dec_snd_mono {a b : Nat} (h : a < b) (h' : (dec a).1 = (dec b).1) :
    (dec a).2 < (dec b).2 := by
  have := dec_facts a; have := dec_facts b; omega

theorem dec_mono {a b : Nat} (h : a < b) : rankCmp (dec a) (dec b) = .lt := by
  have h1 := dec_fst_mono h
  have h2 := dec_snd_mono h
  simp only [rankCmp, lexPair]
  rcases Nat.lt_or_eq_of_le h1 with h3 | h3
  · rw [Nat.compare_eq_lt.mpr h3]; rfl
  · rw [Nat.compare_eq_eq.mpr h3, Nat.compare_eq_lt.mpr (h2 h3)]; rfl

theorem rankCmp_self (p : Nat × Nat) : rankCmp p p = .eq := by
  simp [rankCmp, lexPair]

/-- the comparisons `o1 < o2`, `o1 > o2` of the Python are the spec's order on ranks -/
theorem orderOf_cmp (x y : Option Char) :
    compare (orderOf x) (orderOf y) = rankCmp (rank x) (rank y) := by
  rw [← dec_orderOf x, ← dec_orderOf y]
  rcases Nat.lt_trichotomy (orderOf x) (orderOf y) with h | h | h
  · rw [dec_mono h, Nat.compare_eq_lt.mpr h]
  · rw [h, rankCmp_self]; simp
  · have := dec_mono h
    rw [OrientedCmp.gt_of_lt this, Nat.compare_eq_gt.mpr h]


/-! ### the non-digit loop -/

/-- the ranks of a non-digit run, as in `tokens` -/
abbrev ranks (p : List Char) : List (Nat × Nat) := p.map (fun c => rank (some c))

theorem step_eq (a b : Nat) (r : Option Ordering) :
    (if a < b then some Ordering.lt else if a > b then some Ordering.gt else r).getD .eq
      = (compare a b).then (r.getD .eq) := by
  rcases Nat.lt_trichotomy a b with h | h | h
  · simp [h, Nat.compare_eq_lt.mpr h]
  · subst h; simp
  · have h1 : ¬ a < b := by omega
    simp [h1, h, Nat.compare_eq_gt.mpr h]

theorem prefixLoop_eq (p1 p2 : List Char) :
    (prefixLoop p1 p2).getD .eq = runCmp (ranks p1) (ranks p2) := by
  induction p1 generalizing p2 with
  | nil =>
    induction p2 with
    | nil => simp [prefixLoop, runCmp, padLex]
    | cons c2 p2 ih =>
      rw [prefixLoop, step_eq, ih]; simp [runCmp, padLex, orderOf_cmp]
  | cons c1 p1 ih =>
    cases p2 with
    | nil => rw [prefixLoop, step_eq, ih]; simp [runCmp, padLex, orderOf_cmp]
    | cons c2 p2 => rw [prefixLoop, step_eq, ih]; simp [runCmp, padLex, orderOf_cmp]

theorem prefixLoop_ne_eq (p1 p2 : List Char) : prefixLoop p1 p2 ≠ some .eq := by
  fun_induction prefixLoop p1 p2 <;> simp_all

theorem runCmp_self (l : List (Nat × Nat)) : runCmp l l = .eq := by
  induction l with
  | nil => simp [runCmp, padLex]
  | cons a l ih => simp [runCmp, padLex, rankCmp_self] at ih ⊢; exact ih

/-- the part of one `while` round that deals with the non-digit prefixes -/
theorem prefix_opt (p1 p2 : List Char) :
    ((if p1 != p2 then prefixLoop p1 p2 else none) = none ∧ runCmp (ranks p1) (ranks p2) = .eq) ∨
    (∃ r, (if p1 != p2 then prefixLoop p1 p2 else none) = some r ∧ r ≠ .eq ∧
      runCmp (ranks p1) (ranks p2) = r) := by
  by_cases h : p1 = p2
  · subst h; left; simp [runCmp_self]
  · have h1 := prefixLoop_eq p1 p2
    have h2 := prefixLoop_ne_eq p1 p2
    simp only [bne_iff_ne, ne_eq, h, not_false_eq_true, if_true]
    cases hp : prefixLoop p1 p2 with
    | none => left; rw [hp] at h1; exact ⟨rfl, h1.symm⟩
    | some r =>
      right
      rw [hp] at h1 h2
      exact ⟨r, rfl, fun e => h2 (by rw [e]), h1.symm⟩

/-! ### the two prefix functions are `takeWhile`/`dropWhile` -/

theorem getNonDigitPrefix_eq (v : List Char) :
    getNonDigitPrefix v = (v.takeWhile (fun c => !c.isDigit), v.dropWhile (fun c => !c.isDigit)) := by
  induction v with
  | nil => rfl
  | cons c cs ih =>
    by_cases h : c.isDigit <;> simp [getNonDigitPrefix, h, ih]

theorem digitLoop_eq (n : Nat) (v : List Char) :
    digitLoop n v = ((v.takeWhile Char.isDigit).foldl (fun n c => 10 * n + (c.toNat - '0'.toNat)) n,
      v.dropWhile Char.isDigit) := by
  induction v generalizing n with
  | nil => rfl
  | cons c cs ih =>
    by_cases h : c.isDigit
    · simp only [digitLoop, h, if_true, ih, List.takeWhile_cons, List.dropWhile_cons, List.foldl_cons,
        Char.reduceToNat, Nat.mul_comm]
    · simp [digitLoop, h]

theorem getDigitPrefix_eq (v : List Char) :
    getDigitPrefix v = (numVal (v.takeWhile Char.isDigit), v.dropWhile Char.isDigit) := by
  simp [getDigitPrefix, digitLoop_eq, numVal]

/-- the token the Python reads at the head of a list (for `[]` this is `padTok`) -/
def headTok (v : List Char) : Tok :=
  (ranks (getNonDigitPrefix v).1, (getDigitPrefix (getNonDigitPrefix v).2).1)

theorem headTok_nil : headTok [] = padTok := by
  simp [headTok, padTok, getNonDigitPrefix, getDigitPrefix, digitLoop]

theorem afterRound_nil : afterRound [] = [] := by
  simp [afterRound, getNonDigitPrefix, getDigitPrefix, digitLoop]

theorem tokens_nil : tokens [] = [] := by
  rw [tokens]

theorem tokens_cons (c : Char) (cs : List Char) :
    tokens (c :: cs) = headTok (c :: cs) :: tokens (afterRound (c :: cs)) := by
  rw [tokens]
  simp only [headTok, afterRound, getNonDigitPrefix_eq, getDigitPrefix_eq, ranks]


/-! ### `compare_strings` is the padded comparison of the token lists -/

theorem digit_step (d1 d2 : Nat) (x : Ordering) :
    (if d1 < d2 then Ordering.lt else if d1 > d2 then Ordering.gt else x) = (compare d1 d2).then x := by
  rcases Nat.lt_trichotomy d1 d2 with h | h | h
  · simp [h, Nat.compare_eq_lt.mpr h]
  · subst h; simp
  · have h1 : ¬ d1 < d2 := by omega
    simp [h1, h, Nat.compare_eq_gt.mpr h]

theorem then_assoc' (a b c : Ordering) : (a.then b).then c = a.then (b.then c) := by
  cases a <;> rfl

theorem compareStrings_step (v1 v2 : List Char) (h : ¬(v1 = [] ∧ v2 = [])) :
    compareStrings v1 v2 =
      (tokCmp (headTok v1) (headTok v2)).then (compareStrings (afterRound v1) (afterRound v2)) := by
  rw [compareStrings]
  simp only [h, dite_false]
  rcases prefix_opt (getNonDigitPrefix v1).1 (getNonDigitPrefix v2).1 with ⟨ho, hr⟩ | ⟨r, ho, hne, hr⟩
  · rw [ho]
    simp only [digit_step, tokCmp, lexPair, headTok, hr, Ordering.then]
  · rw [ho]
    simp only [tokCmp, lexPair, headTok, then_assoc', hr]
    cases r
    · rfl
    · exact absurd rfl hne
    · rfl

theorem compareStrings_eq_aux (n : Nat) : ∀ v1 v2 : List Char, v1.length + v2.length ≤ n →
    compareStrings v1 v2 = partCmp (tokens v1) (tokens v2) := by
  induction n with
  | zero =>
    intro v1 v2 h
    have h1 : v1 = [] := List.eq_nil_of_length_eq_zero (by omega)
    have h2 : v2 = [] := List.eq_nil_of_length_eq_zero (by omega)
    subst h1 h2
    rw [compareStrings]; simp [tokens_nil, partCmp, padLex]
  | succ n ih =>
    intro v1 v2 h
    cases v1 with
    | nil =>
      cases v2 with
      | nil => rw [compareStrings]; simp [tokens_nil, partCmp, padLex]
      | cons c cs =>
        have hl := afterRound_length_lt c cs
        rw [compareStrings_step _ _ (by simp), tokens_nil, tokens_cons, afterRound_nil, headTok_nil,
          ih _ _ (by simp only [List.length_nil, List.length_cons] at h hl ⊢; omega), tokens_nil]
        simp [partCmp, padLex]
    | cons c cs =>
      have hl := afterRound_length_lt c cs
      cases v2 with
      | nil =>
        rw [compareStrings_step _ _ (by simp), tokens_nil, tokens_cons, afterRound_nil, headTok_nil,
          ih _ _ (by simp only [List.length_nil, List.length_cons] at h hl ⊢; omega), tokens_nil]
        simp [partCmp, padLex]
      | cons d ds =>
        have hl' := afterRound_length_lt d ds
        rw [compareStrings_step _ _ (by simp), tokens_cons, tokens_cons,
          ih _ _ (by simp only [List.length_cons] at h hl hl' ⊢; omega)]
        simp [partCmp, padLex]

theorem compareStrings_eq (v1 v2 : List Char) :
    compareStrings v1 v2 = partCmp (tokens v1) (tokens v2) :=
  compareStrings_eq_aux _ v1 v2 (Nat.le_refl _)


/-! ### refinement: `compare_version_objects` computes the dpkg order -/

theorem compareStrings_nil : compareStrings [] [] = .eq := by
  rw [compareStrings]; simp

/-- REFINEMENT (C03): the Python three-way comparison is the comparison of the dpkg keys. -/
theorem vercmp_eq_key (a b : Raw) : vercmp a b = keyCmp (key a) (key b) := by
  have hrev : (if (!a.revision.isEmpty || !b.revision.isEmpty) = true
      then compareStrings a.revision b.revision else Ordering.eq)
      = compareStrings a.revision b.revision := by
    by_cases h : (!a.revision.isEmpty || !b.revision.isEmpty) = true
    · simp only [h, if_true]
    · have h1 : a.revision = [] := by
        cases hr : a.revision with
        | nil => rfl
        | cons c cs => simp [hr] at h
      have h2 : b.revision = [] := by
        cases hr : b.revision with
        | nil => rfl
        | cons c cs => simp [hr] at h
      simp [h1, h2, compareStrings_nil]
  simp only [vercmp, hrev, digit_step, keyCmp, key, lexPair, ← compareStrings_eq]
  cases compareStrings a.upstream b.upstream <;> rfl

instance : TransCmp vercmp :=
  have : vercmp = cmpOn key keyCmp := by funext a b; exact vercmp_eq_key a b
  this ▸ inferInstance

instance : OrientedCmp vercmp := inferInstance

theorem vercmp_self (a : Raw) : vercmp a a = .eq := ReflCmp.compare_self


/-- On the characters a Debian version may contain outside digit runs (and "end of run"),
the spec's `rank` order is literally dpkg's `order()` (`lib/dpkg/version.c`). -/
theorem rank_eq_dpkgOrder : ∀ x ∈ nonDigitAlphabet, ∀ y ∈ nonDigitAlphabet,
    rankCmp (rank x) (rank y) = compare (dpkgOrder x) (dpkgOrder y) := by
  decide +kernel


/-! ### C02: the six operators of `DebianVersion` -/

theorem verOps_eq (a b : Raw) : verOps.eq a b = (vercmp a b == .eq) := rfl

theorem verOps_ne (a b : Raw) : verOps.ne a b = (vercmp a b != .eq) := rfl

theorem verOps_lt (a b : Raw) : verOps.lt a b = (vercmp a b == .lt) := by
  simp only [verOps, Py.attrsOps, valOps]; cases vercmp a b <;> rfl

theorem verOps_gt (a b : Raw) : verOps.gt a b = (vercmp a b == .gt) := by
  simp only [verOps, Py.attrsOps, valOps]; cases vercmp a b <;> rfl

theorem verOps_le (a b : Raw) : verOps.le a b = (vercmp a b != .gt) := by
  simp only [verOps, Py.attrsOps, valOps]; cases vercmp a b <;> rfl

theorem verOps_ge (a b : Raw) : verOps.ge a b = (vercmp a b != .lt) := by
  simp only [verOps, Py.attrsOps, valOps]; cases vercmp a b <;> rfl

/-- C02: the six operators of `DebianVersion` are the ones induced by `compare_versions`
(`==` is no longer textual: `debian.Version.__eq__` is `compare_version_objects(..) == 0`). -/
theorem verOps_lawful : Lawful verOps vercmp :=
  ⟨verOps_lt, verOps_gt, verOps_eq, verOps_le, verOps_ge, verOps_ne⟩

/-- `1.0`, i.e. `DebianVersion("1.0").value` -/
def w10 : Raw := ⟨0, ['1', '.', '0'], ['0']⟩
/-- `1.00` -/
def w100 : Raw := ⟨0, ['1', '.', '0', '0'], ['0']⟩

example : construct ['1', '.', '0'] = .ok w10 := rfl
example : construct ['1', '.', '0', '0'] = .ok w100 := rfl

theorem vercmp_w10_w100 : vercmp w10 w100 = .eq := by
  rw [vercmp_eq_key]
  simp [w10, w100, key, tokens, keyCmp, lexPair, partCmp, padLex, tokCmp, runCmp, numVal, rankCmp_self]

/-- the former witness of the `==` defect: `1.0` and `1.00` are now `==` -/
example : verOps.eq w10 w100 = true ∧ verOps.ne w10 w100 = false ∧ verOps.lt w10 w100 = false := by
  simp only [verOps_eq, verOps_ne, verOps_lt, vercmp_w10_w100]; decide

/-! ### C12: equal versions have equal hashes -/

theorem tokCmp_eq_snd (x y : Tok) (h : tokCmp x y = .eq) : x.2 = y.2 := by
  simp only [tokCmp, lexPair, Ordering.then_eq_eq'] at h
  exact Nat.compare_eq_eq.mp h.2

theorem findNumbers_of_nil {s : List Char} (h : (getNonDigitPrefix s).2 = []) :
    findNumbers s = [] := by
  rw [findNumbers]; split
  · rfl
  · rename_i h'; rw [h] at h'; cases h'

theorem findNumbers_of_cons {s : List Char} {c : Char} {cs : List Char}
    (h : (getNonDigitPrefix s).2 = c :: cs) :
    findNumbers s = (headTok s).2 :: findNumbers (afterRound s) := by
  rw [findNumbers]; split
  · rename_i h'; rw [h] at h'; cases h'
  · rename_i c' cs' h'
    simp only [headTok, afterRound, h']

theorem dropTrailingZeros_eq (l : List Nat) : dropTrailingZeros l = stripTrail 0 l := by
  induction l with
  | nil => rfl
  | cons x xs ih => simp only [dropTrailingZeros, stripTrail, ih]

/-- the numbers of the tokens are the numbers `re.findall("[0-9]+")` finds, except for a
possible last `0` standing for "no digits after the last non-digit run" -/
theorem tokens_numbers_aux (n : Nat) : ∀ s : List Char, s.length ≤ n →
    stripTrail 0 ((tokens s).map Prod.snd) = stripTrail 0 (findNumbers s) := by
  induction n with
  | zero =>
    intro s h
    have : s = [] := List.eq_nil_of_length_eq_zero (by omega)
    subst this
    rw [tokens_nil, findNumbers_of_nil (by simp [getNonDigitPrefix])]; rfl
  | succ n ih =>
    intro s h
    cases s with
    | nil => rw [tokens_nil, findNumbers_of_nil (by simp [getNonDigitPrefix])]; rfl
    | cons c cs =>
      have hl := afterRound_length_lt c cs
      rw [tokens_cons]
      cases hp : (getNonDigitPrefix (c :: cs)).2 with
      | nil =>
        have h1 : afterRound (c :: cs) = [] := by
          simp [afterRound, hp, getDigitPrefix, digitLoop]
        have h2 : (headTok (c :: cs)).2 = 0 := by
          simp [headTok, hp, getDigitPrefix, digitLoop]
        rw [findNumbers_of_nil hp, h1, tokens_nil]
        simp [stripTrail, h2]
      | cons d ds =>
        rw [findNumbers_of_cons hp]
        simp only [List.map_cons, stripTrail]
        rw [ih _ (by simp only [List.length_cons] at h hl; omega)]

theorem tokens_numbers (s : List Char) :
    stripTrail 0 ((tokens s).map Prod.snd) = getSignificantNumbers s := by
  rw [getSignificantNumbers, dropTrailingZeros_eq]
  exact tokens_numbers_aux _ s (Nat.le_refl _)

/-- parts that compare equal have the same significant numbers -/
theorem partCmp_eq_numbers (u v : List Char) (h : partCmp (tokens u) (tokens v) = .eq) :
    getSignificantNumbers u = getSignificantNumbers v := by
  rw [← tokens_numbers, ← tokens_numbers]
  exact padLex_eq_stripTrail (f := Prod.snd) (d := padTok) tokCmp_eq_snd _ _ h

/-- C12, on all `Raw`: versions that are `==` have the same hash key. -/
theorem eq_imp_hash (a b : Raw) : verOps.eq a b = true → hashKey a = hashKey b := by
  rw [verOps_eq, vercmp_eq_key]
  intro h
  have h : keyCmp (key a) (key b) = .eq := by simpa using h
  simp only [keyCmp, key, lexPair, Ordering.then_eq_eq'] at h
  simp only [hashKey, Nat.compare_eq_eq.mp h.1, partCmp_eq_numbers _ _ h.2.1,
    partCmp_eq_numbers _ _ h.2.2]

/-! ### generic list lemmas -/

theorem dropWhile_eq_self {p : Char → Bool} {s : List Char} (h : ∀ c ∈ s, p c = false) :
    s.dropWhile p = s := by
  cases s with
  | nil => rfl
  | cons c cs => simp [h c (by simp)]

theorem partition_none {sep : Char} {v : List Char} (h : sep ∉ v) : partition sep v = none := by
  induction v with
  | nil => rfl
  | cons x xs ih =>
    have h1 : ¬ x = sep := fun e => h (by simp [e])
    have h2 : sep ∉ xs := fun e => h (by simp [e])
    simp [partition, h1, ih h2]

theorem partition_append {sep : Char} {a : List Char} (b : List Char) (h : sep ∉ a) :
    partition sep (a ++ sep :: b) = some (a, b) := by
  induction a with
  | nil => simp [partition]
  | cons x xs ih =>
    have h1 : ¬ x = sep := fun e => h (by simp [e])
    have h2 : sep ∉ xs := fun e => h (by simp [e])
    simp [partition, h1, ih h2]

theorem partition_some {sep : Char} {v a b : List Char} (h : partition sep v = some (a, b)) :
    v = a ++ sep :: b ∧ sep ∉ a := by
  induction v generalizing a b with
  | nil => simp [partition] at h
  | cons x xs ih =>
    simp only [partition] at h
    split at h
    · rename_i hx
      simp only [Option.some.injEq, Prod.mk.injEq] at h
      simp_all
    · rename_i hx
      split at h
      · rename_i a' b' hp
        simp only [Option.some.injEq, Prod.mk.injEq] at h
        have := ih hp
        obtain ⟨rfl, rfl⟩ := h
        simp_all
        exact fun e => hx e.symm
      · simp at h

theorem rpartition_none {sep : Char} {v : List Char} (h : sep ∉ v) : rpartition sep v = none := by
  induction v with
  | nil => rfl
  | cons x xs ih =>
    have h1 : ¬ x = sep := fun e => h (by simp [e])
    have h2 : sep ∉ xs := fun e => h (by simp [e])
    simp [rpartition, h1, ih h2]

theorem rpartition_append {sep : Char} (a : List Char) {b : List Char} (h : sep ∉ b) :
    rpartition sep (a ++ sep :: b) = some (a, b) := by
  induction a with
  | nil => simp [rpartition, rpartition_none h]
  | cons x xs ih => simp [rpartition, ih]

theorem rpartition_some {sep : Char} {v a b : List Char} (h : rpartition sep v = some (a, b)) :
    v = a ++ sep :: b ∧ sep ∉ b := by
  induction v generalizing a b with
  | nil => simp [rpartition] at h
  | cons x xs ih =>
    simp only [rpartition] at h
    split at h
    · rename_i a' b' hp
      simp only [Option.some.injEq, Prod.mk.injEq] at h
      have := ih hp
      obtain ⟨rfl, rfl⟩ := h
      simp_all
    · rename_i hp
      split at h
      · rename_i hx
        simp only [Option.some.injEq, Prod.mk.injEq] at h
        obtain ⟨rfl, rfl⟩ := h
        have hx' : x = sep := by simpa using hx
        subst hx'
        refine ⟨by simp, ?_⟩
        intro hm
        -- `sep ∈ xs` would make `rpartition` succeed
        clear ih hx
        induction xs with
        | nil => simp at hm
        | cons y ys ih2 =>
          simp only [rpartition] at hp
          split at hp
          · simp at hp
          · rename_i hq
            split at hp
            · simp at hp
            · rename_i hy
              rcases List.mem_cons.mp hm with e | e
              · exact hy (by simp [e])
              · exact ih2 hq e
      · simp at h


/-! ### characters -/

theorem allowed_toNat {c : Char} (h : allowedChar c = true) : 43 ≤ c.toNat ∧ c.toNat ≠ 58 := by
  simp only [allowedChar, Bool.or_eq_true, isAlpha_iff, isDigit_iff, beq_iff_eq,
    ← Char.toNat_inj, Char.reduceToNat] at h
  omega

theorem digit_allowed {c : Char} (h : c.isDigit = true) : allowedChar c = true := by
  simp [allowedChar, h]

theorem notSpace_of_ge {c : Char} (h : 33 ≤ c.toNat) : isPySpace c = false := by
  simp only [isPySpace, Bool.or_eq_false_iff, Bool.and_eq_false_iff, decide_eq_false_iff_not]
  omega

theorem ne_colon_of_allowed {c : Char} (h : allowedChar c = true) : c ≠ ':' := by
  intro e; subst e; exact absurd rfl (allowed_toNat h).2

theorem digit_not_v {c : Char} (h : c.isDigit = true) : (c == 'v' || c == 'V') = false := by
  rw [isDigit_iff] at h
  simp only [Bool.or_eq_false_iff, beq_eq_false_iff_ne, ne_eq, ← Char.toNat_inj, Char.reduceToNat]
  omega

theorem colon_not_digit : Char.isDigit ':' = false := by decide

/-! ### decimal digits -/

theorem digitChar_spec (k : Nat) (h : k < 10) :
    (digitChar k).isDigit = true ∧ (digitChar k).toNat - 48 = k := by
  have : k = 0 ∨ k = 1 ∨ k = 2 ∨ k = 3 ∨ k = 4 ∨ k = 5 ∨ k = 6 ∨ k = 7 ∨ k = 8 ∨ k = 9 := by omega
  rcases this with h | h | h | h | h | h | h | h | h | h <;> subst h <;> decide

theorem digitsVal_append (a : Nat) (xs ys : List Char) :
    digitsVal a (xs ++ ys) = digitsVal (digitsVal a xs) ys := by
  simp only [digitsVal, List.foldl_append]

theorem natDigitsAux_acc (fuel n : Nat) (acc : List Char) :
    natDigitsAux fuel n acc = natDigitsAux fuel n [] ++ acc := by
  induction fuel generalizing n acc with
  | zero => simp [natDigitsAux]
  | succ f ih =>
    simp only [natDigitsAux]
    split
    · simp
    · rw [ih (n / 10) (digitChar (n % 10) :: acc), ih (n / 10) [digitChar (n % 10)]]
      simp

theorem natDigitsAux_spec (fuel n : Nat) (h : n < fuel) :
    (∀ c ∈ natDigitsAux fuel n [], c.isDigit = true) ∧ natDigitsAux fuel n [] ≠ [] ∧
    digitsVal 0 (natDigitsAux fuel n []) = n := by
  induction fuel generalizing n with
  | zero => omega
  | succ f ih =>
    have hd := digitChar_spec (n % 10) (Nat.mod_lt _ (by omega))
    simp only [natDigitsAux]
    split
    · rename_i h0
      refine ⟨fun c hc => by rw [List.mem_singleton.mp hc]; exact hd.1, List.cons_ne_nil _ _, ?_⟩
      simp only [digitsVal, List.foldl_cons, List.foldl_nil, hd.2]; omega
    · rename_i h0
      have := ih (n / 10) (by omega)
      rw [natDigitsAux_acc]
      refine ⟨?_, by simp, ?_⟩
      · intro c hc
        rcases List.mem_append.mp hc with hc | hc
        · exact this.1 c hc
        · rw [List.mem_singleton.mp hc]; exact hd.1
      · rw [digitsVal_append, this.2.2]
        simp only [digitsVal, List.foldl_cons, List.foldl_nil, hd.2]; omega

theorem natDigits_spec (n : Nat) :
    (∀ c ∈ natDigits n, c.isDigit = true) ∧ natDigits n ≠ [] ∧ digitsVal 0 (natDigits n) = n :=
  natDigitsAux_spec (n + 1) n (by omega)

theorem pyInt_natDigits (n : Nat) (h : (natDigits n).length ≤ 4300) : pyInt (natDigits n) = .ok n := by
  have hs := natDigits_spec n
  have h1 : (natDigits n).isEmpty = false := by
    cases hn : natDigits n with
    | nil => exact absurd hn hs.2.1
    | cons _ _ => rfl
  have h2 : (natDigits n).all Char.isDigit = true := List.all_eq_true.mpr hs.1
  have h3 : ¬ (natDigits n).length > 4300 := by omega
  simp [pyInt, h1, h2, h3, hs.2.2]


/-! ### C11: `construct (str r)` -/

theorem matchBody_iff {v : List Char} : matchBody v = true ↔
    ∃ c rest, v = c :: rest ∧ c.isDigit = true ∧ ∀ x ∈ rest, allowedChar x = true := by
  cases v with
  | nil => simp [matchBody]
  | cons c rest =>
    simp only [matchBody, Bool.and_eq_true, List.all_eq_true]
    constructor
    · intro ⟨h1, h2⟩; exact ⟨c, rest, rfl, h1, h2⟩
    · intro ⟨c', rest', he, h1, h2⟩
      cases he; exact ⟨h1, h2⟩

theorem matchBody_all {v : List Char} (h : matchBody v = true) : ∀ x ∈ v, allowedChar x = true := by
  obtain ⟨c, rest, rfl, hc, hr⟩ := matchBody_iff.mp h
  intro x hx
  rcases List.mem_cons.mp hx with e | e
  · rw [e]; exact digit_allowed hc
  · exact hr x e

theorem strip_eq_self {s : List Char} (h : ∀ c ∈ s, isPySpace c = false) : strip s = s := by
  have h' : ∀ c ∈ s.reverse, isPySpace c = false := fun c hc => h c (List.mem_reverse.mp hc)
  simp only [strip, dropWhile_eq_self h, dropWhile_eq_self h', List.reverse_reverse]

/-- `construct` on a string without whitespace that starts with a digit and is valid -/
theorem construct_clean {s : List Char} (hs : ∀ c ∈ s, 33 ≤ c.toNat)
    (hh : ∃ c t, s = c :: t ∧ c.isDigit = true) (hv : isValid s = true) :
    (∀ e rest n, partition ':' s = some (e, rest) → pyInt e = .ok n →
      construct s = .ok (splitRevision n rest)) ∧
    (partition ':' s = none → construct s = .ok (splitRevision 0 s)) := by
  have hsp : ∀ c ∈ s, isPySpace c = false := fun c hc => notSpace_of_ge (hs c hc)
  have h1 : removeSpaces s = s := by
    simp only [removeSpaces]
    exact List.filter_eq_self.mpr (fun c hc => by simp [hsp c hc])
  have h2 : lstripV s = s := by
    obtain ⟨c, t, rfl, hc⟩ := hh
    simp [lstripV, digit_not_v hc]
  have h3 : s.isEmpty = false := by
    obtain ⟨c, t, rfl, _⟩ := hh; rfl
  constructor
  · intro e rest n hp hn
    simp [construct, normalize, h1, h2, hv, fromString, strip_eq_self hsp, h3, hp, hn]
  · intro hp
    simp [construct, normalize, h1, h2, hv, fromString, strip_eq_self hsp, h3, hp]

/-- the text after the epoch in `str r` -/
def bodyOf (r : Raw) : List Char :=
  if r.revision != ['0'] || r.upstream.contains '-' then r.upstream ++ '-' :: r.revision
  else r.upstream

theorem str_eq (r : Raw) :
    str r = if r.epoch != 0 then natDigits r.epoch ++ ':' :: bodyOf r else bodyOf r := by
  simp only [str, bodyOf]
  by_cases h1 : (r.epoch != 0) = true <;>
    by_cases h2 : (r.revision != ['0'] || r.upstream.contains '-') = true <;>
    simp only [h1, h2, if_true, if_false, Bool.false_eq_true, List.append_assoc, List.cons_append]

theorem hyphen_allowed : allowedChar '-' = true := by decide

theorem wf_rev {r : Raw} (h : WellFormed r = true) :
    (∀ x ∈ r.revision, allowedChar x = true) ∧ '-' ∉ r.revision := by
  simp only [WellFormed, Bool.and_eq_true, List.all_eq_true, bne_iff_ne, ne_eq] at h
  exact ⟨fun x hx => (h.2 x hx).1, fun hm => (h.2 _ hm).2 rfl⟩

theorem matchBody_bodyOf {r : Raw} (h : WellFormed r = true) : matchBody (bodyOf r) = true := by
  have hr := wf_rev h
  simp only [WellFormed, Bool.and_eq_true] at h
  obtain ⟨c, rest, hu, hc, hrest⟩ := matchBody_iff.mp h.1
  simp only [bodyOf]
  split
  · rw [hu]
    refine matchBody_iff.mpr ⟨c, rest ++ '-' :: r.revision, rfl, hc, ?_⟩
    intro x hx
    rcases List.mem_append.mp hx with e | e
    · exact hrest x e
    · rcases List.mem_cons.mp e with e | e
      · rw [e]; exact hyphen_allowed
      · exact hr.1 x e
  · exact h.1

theorem splitRevision_bodyOf {r : Raw} (h : WellFormed r = true) (e : Nat) :
    splitRevision e (bodyOf r) = ⟨e, r.upstream, r.revision⟩ := by
  have hr := wf_rev h
  simp only [bodyOf, splitRevision]
  by_cases hp : (r.revision != ['0'] || r.upstream.contains '-') = true
  · simp only [hp, if_true, rpartition_append r.upstream hr.2]
  · have h0 : r.revision = ['0'] := by
      cases hq : decide (r.revision = ['0']) with
      | true => exact of_decide_eq_true hq
      | false => exact absurd (by simp [of_decide_eq_false hq]) hp
    have h1 : '-' ∉ r.upstream := fun hm => hp (by simp [hm])
    rw [if_neg hp]
    simp only [rpartition_none h1, h0]

/-- C11: every well-formed value (what `construct` builds, `construct_wf`) whose epoch
`int()` accepts back is rebuilt from its `str`. -/
theorem str_roundtrip (r : Raw) (h : WellFormed r = true)
    (hep : (natDigits r.epoch).length ≤ 4300) :
    construct (str r) = .ok r := by
  have hb := matchBody_bodyOf h
  have hball := matchBody_all hb
  obtain ⟨c, rest, hbc, hc, _⟩ := matchBody_iff.mp hb
  have hnocolon : ':' ∉ bodyOf r := fun hm => ne_colon_of_allowed (hball _ hm) rfl
  rw [str_eq]
  by_cases he : r.epoch = 0
  · have : (r.epoch != 0) = false := by simp [he]
    simp only [this, Bool.false_eq_true, if_false]
    rw [(construct_clean (fun x hx => by have := allowed_toNat (hball x hx); omega)
      ⟨c, rest, hbc, hc⟩ (by simp [isValid, hb])).2 (partition_none hnocolon)]
    simp only [splitRevision_bodyOf h, ← he]
  · have : (r.epoch != 0) = true := by simpa using he
    simp only [this, if_true]
    have hd := natDigits_spec r.epoch
    have hdc : ':' ∉ natDigits r.epoch := fun hm => by
      have := hd.1 _ hm; rw [colon_not_digit] at this; exact absurd this (by decide)
    obtain ⟨d, ds, hds⟩ := List.exists_cons_of_ne_nil hd.2.1
    have hvalid : isValid (natDigits r.epoch ++ ':' :: bodyOf r) = true := by
      have ht : (natDigits r.epoch ++ ':' :: bodyOf r).takeWhile Char.isDigit = natDigits r.epoch := by
        rw [List.takeWhile_append_of_pos hd.1]; simp [colon_not_digit]
      have hdw : (natDigits r.epoch ++ ':' :: bodyOf r).dropWhile Char.isDigit = ':' :: bodyOf r := by
        rw [List.dropWhile_append_of_pos hd.1]; simp [colon_not_digit]
      simp only [isValid, ht, hdw]
      rw [hds]
      simp only [hb, Bool.true_or]
    rw [(construct_clean ?_ ⟨d, ds ++ ':' :: bodyOf r, by rw [hds]; rfl, hd.1 d (by rw [hds]; simp)⟩
      hvalid).1 _ _ _ (partition_append _ hdc) (pyInt_natDigits _ hep)]
    · simp only [splitRevision_bodyOf h]
    · intro x hx
      rcases List.mem_append.mp hx with e | e
      · have := allowed_toNat (digit_allowed (hd.1 x e)); omega
      · rcases List.mem_cons.mp e with e | e
        · rw [e]; decide
        · have := allowed_toNat (hball x e); omega

/-- `DebianVersion("1-0-0").value` = `Version(epoch=0, upstream="1-0", revision="0")` -/
def w1_0_0 : Raw := ⟨0, ['1', '-', '0'], ['0']⟩

/-- the former witness of the C11 defect now prints as `1-0-0` and is rebuilt -/
example : construct ['1', '-', '0', '-', '0'] = .ok w1_0_0 ∧
    str w1_0_0 = ['1', '-', '0', '-', '0'] ∧ construct (str w1_0_0) = .ok w1_0_0 :=
  ⟨rfl, rfl, rfl⟩

/-! ### `construct` establishes `WellFormed` -/

theorem hyphen_not_digit : Char.isDigit '-' = false := by decide

theorem wf_splitRevision {body : List Char} (h : matchBody body = true) (e : Nat) :
    WellFormed (splitRevision e body) = true := by
  obtain ⟨c, rest, hb, hc, hrest⟩ := matchBody_iff.mp h
  simp only [splitRevision]
  cases hp : rpartition '-' body with
  | none =>
    simp only [WellFormed, h, Bool.true_and]
    decide
  | some ab =>
    obtain ⟨a, b⟩ := ab
    obtain ⟨hab, hnb⟩ := rpartition_some hp
    have hall := matchBody_all h
    cases a with
    | nil =>
      rw [hb] at hab
      simp only [List.nil_append, List.cons.injEq] at hab
      rw [hab.1, hyphen_not_digit] at hc
      exact absurd hc (by decide)
    | cons a0 a' =>
      rw [hb] at hab
      simp only [List.cons_append, List.cons.injEq] at hab
      obtain ⟨h0, hr⟩ := hab
      subst h0
      simp only [WellFormed, Bool.and_eq_true, List.all_eq_true, bne_iff_ne, ne_eq]
      refine ⟨matchBody_iff.mpr ⟨c, a', rfl, hc, fun x hx => hrest x (by rw [hr]; simp [hx])⟩, ?_⟩
      intro x hx
      exact ⟨hrest x (by rw [hr]; simp [hx]), fun e => hnb (e ▸ hx)⟩

/-- the two ways `isValid` can hold -/
theorem isValid_cases {v : List Char} (hv : isValid v = true) :
    (∃ ds t, v = ds ++ ':' :: t ∧ (∀ c ∈ ds, c.isDigit = true) ∧ matchBody t = true) ∨
    matchBody v = true := by
  simp only [isValid, Bool.or_eq_true] at hv
  rcases hv with hv | hv
  · left
    split at hv
    · rename_i d ds t h1 h2
      refine ⟨d :: ds, t, ?_, ?_, hv⟩
      · rw [← h1, ← h2]; exact (List.takeWhile_append_dropWhile).symm
      · intro c hc; rw [← h1] at hc
        exact List.all_eq_true.mp (List.all_takeWhile (p := Char.isDigit)) c hc
    · simp at hv
  · right; exact hv

/-- FIXED CODE: nothing but `InvalidVersion` escapes the constructor -/
theorem construct_declared (s : List Char) (n : String) : construct s ≠ .error (.other n) := by
  simp only [construct]
  split
  · simp
  · split <;> simp

theorem construct_fromString {s : List Char} {r : Raw} (h : construct s = .ok r) :
    fromString (normalize s) = .ok r := by
  simp only [construct] at h
  split at h
  · simp at h
  · split at h
    · rename_i heq; injection h with h; rw [← h]; exact heq
    · simp at h

theorem construct_wf {s : List Char} {r : Raw} (h : construct s = .ok r) : WellFormed r = true := by
  replace h := construct_fromString h
  · simp only [fromString] at h
    split at h
    · simp at h
    · split at h
      · simp at h
      · rename_i hv
        have hv : isValid (strip (normalize s)) = true := by simpa using hv
        generalize strip (normalize s) = v at h hv
        rcases isValid_cases hv with ⟨ds, t, hvt, hds, ht⟩ | hb
        · have hdc : ':' ∉ ds := fun hm => by
            have := hds _ hm; rw [colon_not_digit] at this; exact absurd this (by decide)
          rw [hvt, partition_append _ hdc] at h
          simp only at h
          split at h
          · injection h with h; rw [← h]; exact wf_splitRevision ht _
          · simp at h
        · have hnc : ':' ∉ v := fun hm => ne_colon_of_allowed (matchBody_all hb _ hm) rfl
          rw [partition_none hnc] at h
          simp only at h
          injection h with h; rw [← h]; exact wf_splitRevision hb _

end Univers.Deb
