/-
Layer A model of the `rpm` scheme: `univers.versions.RpmVersion` over `univers.rpm`
(`RpmVersion` NamedTuple, `from_evr`, `compare_rpm_versions`, `Vercmp.compare`).

The model mirrors the code as it is, branch for branch.  Domain: ASCII text.  The value strings
that `construct` produces never contain whitespace (`Version.normalize` removes it), hence no
`'\n'`: the three regexes of `Vercmp` (`(.*)$`) then always match and are modelled by
`takeWhile`/`dropWhile`.  (On a `bytes` value containing `'\n'` in the middle the real
`R_NONALNUMTILDE_CARET.match` returns `None` and the code dies with `AttributeError`; such values
cannot be built through `RpmVersion(string)`.)
-/
import Univers.Basic.PadLex
import Univers.Vers.Model
import Univers.Py.Attrs

namespace Univers.Rpm

open Univers

/-- `univers.rpm.RpmVersion(epoch, version, release)`: the parsed value (`Version.value`).
`epoch` is a Python `int` (it may be negative: `int("-1")`). -/
structure Raw where
  epoch : Int
  version : List Char
  release : List Char
  deriving DecidableEq, Repr, Inhabited

inductive PErr where
  | invalid
  | other (name : String)
  deriving DecidableEq, Repr

/-! ### `Version.normalize` -/

/-- the ASCII characters on which `str.split()` splits: `\t \n \v \f \r`, `\x1c..\x1f`, space -/
def isWs (c : Char) : Bool :=
  (9 ≤ c.toNat && c.toNat ≤ 13) || (28 ≤ c.toNat && c.toNat ≤ 32)

/-- `remove_spaces(string)` = `"".join(string.split())` -/
def removeSpaces (s : List Char) : List Char := s.filter (fun c => !isWs c)

def isV (c : Char) : Bool := c == 'v' || c == 'V'

/-- `Version.normalize`: `remove_spaces(string).lstrip("vV")` -/
def normalize (s : List Char) : List Char := (removeSpaces s).dropWhile isV

/-! ### `int(e)` on an ASCII string without whitespace -/

/-- after the first digit: digits, each optionally preceded by ONE underscore -/
def validTail : List Char → Bool
  | [] => true
  | [c] => c.isDigit
  | c :: d :: rest =>
    if c.isDigit then validTail (d :: rest)
    else if c == '_' then d.isDigit && validTail rest
    else false

/-- `digit (_? digit)*` -/
def validBody : List Char → Bool
  | [] => false
  | c :: rest => c.isDigit && validTail rest

/-- CPython's `sys.int_max_str_digits` default: `int(str)` with more decimal digits raises
`ValueError` -/
def maxStrDigits : Nat := 4300

/-- the unsigned part of an `int()` literal; `none` = `ValueError` -/
def pyNatLit (body : List Char) : Option Nat :=
  if validBody body then
    let ds := body.filter Char.isDigit
    if ds.length > maxStrDigits then none else some (Nat.ofDigitChars 10 ds 0)
  else none

/-- `int(s)` for ASCII `s` without whitespace; `none` = `ValueError` -/
def pyInt : List Char → Option Int
  | '-' :: body => (pyNatLit body).map (fun (n : Nat) => - (n : Int))
  | '+' :: body => (pyNatLit body).map (fun (n : Nat) => (n : Int))
  | body => (pyNatLit body).map (fun (n : Nat) => (n : Int))

/-! ### `from_evr`, `RpmVersion.from_string` -/

/-- `s.partition(sep)` as (before, after) -/
def partition (sep : Char) (s : List Char) : List Char × List Char :=
  (s.takeWhile (fun c => c != sep), (s.dropWhile (fun c => c != sep)).drop 1)

/-- `from_evr(s)`; `none` = the bare `ValueError` of `int(e)` -/
def fromEvr (s : List Char) : Option Raw :=
  let (e, vr) := if s.contains ':' then partition ':' s else (['0'], s)
  match pyInt e with
  | none => none
  | some ep =>
    let (v, r) := if vr.contains '-' then partition '-' vr else (vr, [])
    some ⟨ep, v, r⟩

/-- `RpmVersion.is_valid(string)` (since 27588a5):
`try: return bool(string) and bool(cls.build_value(string).version) except ValueError: return False` -/
def isValid (n : List Char) : Bool :=
  if n.isEmpty then false
  else match fromEvr n with
    | none => false
    | some r => !r.version.isEmpty

/-- `RpmVersion(string)`: `normalize`, `is_valid` (else `InvalidVersion`), then
`build_value` = `rpm.RpmVersion.from_string` (its `s.strip()` is a discarded no-op) a second time;
the `ValueError` branch of that second call is kept as the code has it (it is dead:
`construct_declared`). -/
def construct (s : List Char) : Except PErr Raw :=
  let n := normalize s
  if !isValid n then .error .invalid
  else match fromEvr n with
    | none => .error (.other "ValueError")
    | some r => .ok r

/-! ### `str` -/

/-- `str(int)` -/
def pyIntStr (e : Int) : List Char :=
  if e < 0 then '-' :: Nat.toDigits 10 e.natAbs else Nat.toDigits 10 e.natAbs

/-- `RpmVersion.to_string` (`str(version)` = `str(self.value)`) -/
def str (r : Raw) : List Char :=
  let vr := if r.release.isEmpty then r.version else r.version ++ '-' :: r.release
  if r.epoch != 0 then pyIntStr r.epoch ++ ':' :: vr else vr

/-! ### `Vercmp.compare` -/

/-- complement of the class `[^a-zA-Z0-9~\^]` -/
def isStop (c : Char) : Bool := c.isAlpha || c.isDigit || c == '~' || c == '^'

/-- group 2 of `R_NONALNUMTILDE_CARET` -/
def dropJunk (s : List Char) : List Char := s.dropWhile (fun c => !isStop c)

def startsWith (c : Char) : List Char → Bool
  | [] => false
  | d :: _ => d == c

def startsDigit : List Char → Bool
  | [] => false
  | d :: _ => d.isDigit

def startsAlpha : List Char → Bool
  | [] => false
  | d :: _ => d.isAlpha

/-- `bytes < bytes`, `bytes > bytes` as a three-way result -/
def bytesCmp : List Char → List Char → Ordering := lexList (fun a b => compare a b)

/-- the numeric branch on the two `R_NUM` heads: `lstrip(b"0")`, more digits wins, then bytes -/
def numCmp (h1 h2 : List Char) : Ordering :=
  let a := h1.dropWhile (fun c => c == '0')
  let b := h2.dropWhile (fun c => c == '0')
  if a.length < b.length then .lt
  else if a.length > b.length then .gt
  else bytesCmp a b

theorem dropJunk_length_le (s : List Char) : (dropJunk s).length ≤ s.length :=
  (List.dropWhile_sublist _).length_le

theorem dropWhile_length_le (p : Char → Bool) (s : List Char) : (s.dropWhile p).length ≤ s.length :=
  (List.dropWhile_sublist _).length_le

theorem dropWhile_length_lt (p : Char → Bool) (s : List Char) (h : (match s with | [] => false | c :: _ => p c) = true) :
    (s.dropWhile p).length < s.length := by
  cases s with
  | nil => simp at h
  | cons c r =>
    simp only at h
    simp only [List.dropWhile_cons, h, ↓reduceIte, List.length_cons]
    have := dropWhile_length_le p r
    omega

theorem drop1_le (x : List Char) : ((dropJunk x).drop 1).length ≤ x.length := by
  have := dropJunk_length_le x
  simp only [List.length_drop]; omega

theorem drop1_lt (c : Char) (x : List Char) (h : startsWith c (dropJunk x) = true) :
    ((dropJunk x).drop 1).length < x.length := by
  have := dropJunk_length_le x
  cases hf : dropJunk x with
  | nil => simp [hf, startsWith] at h
  | cons d r => rw [hf] at this; simp at this ⊢; omega

theorem dw_le (p : Char → Bool) (x : List Char) : ((dropJunk x).dropWhile p).length ≤ x.length := by
  have := dropJunk_length_le x
  have := dropWhile_length_le p (dropJunk x)
  omega

theorem dwDigit_lt (x : List Char) (h : startsDigit (dropJunk x) = true) :
    ((dropJunk x).dropWhile Char.isDigit).length < x.length := by
  have := dropJunk_length_le x
  have := dropWhile_length_lt Char.isDigit (dropJunk x)
    (by cases hf : dropJunk x with
        | nil => simp [hf, startsDigit] at h
        | cons c r => simpa [hf, startsDigit] using h)
  omega

theorem dwAlpha_lt (x : List Char) (h : startsAlpha (dropJunk x) = true) :
    ((dropJunk x).dropWhile Char.isAlpha).length < x.length := by
  have := dropJunk_length_le x
  have := dropWhile_length_lt Char.isAlpha (dropJunk x)
    (by cases hf : dropJunk x with
        | nil => simp [hf, startsAlpha] at h
        | cons c r => simpa [hf, startsAlpha] using h)
  omega

/-- the `while first or second:` loop of `Vercmp.compare` followed by the length test after it.
One call = one pass through the loop body with both heads already known (a pass that only strips
junk and `continue`s is merged with the pass that follows it: the second stripping is a no-op). -/
def cmpLoop (first second : List Char) : Ordering :=
  let f := dropJunk first
  let s := dropJunk second
  if startsWith '~' f then
    if !startsWith '~' s then .lt else cmpLoop (f.drop 1) (s.drop 1)
  else if startsWith '~' s then .gt
  else if startsWith '^' f then
    if s.isEmpty then .gt
    else if !startsWith '^' s then .lt
    else cmpLoop (f.drop 1) (s.drop 1)
  else if startsWith '^' s then (if f.isEmpty then .lt else .gt)
  else if f.isEmpty || s.isEmpty then
    -- `break`, then `m1len == m2len == 0` / `m1len != 0`
    (if f.isEmpty && s.isEmpty then .eq else if !f.isEmpty then .gt else .lt)
  else if startsDigit f then
    if !startsDigit s then .gt
    else
      match numCmp (f.takeWhile Char.isDigit) (s.takeWhile Char.isDigit) with
      | .lt => .lt
      | .gt => .gt
      | .eq => cmpLoop (f.dropWhile Char.isDigit) (s.dropWhile Char.isDigit)
  else
    if !startsAlpha s then .lt
    else
      match bytesCmp (f.takeWhile Char.isAlpha) (s.takeWhile Char.isAlpha) with
      | .lt => .lt
      | .gt => .gt
      | .eq => cmpLoop (f.dropWhile Char.isAlpha) (s.dropWhile Char.isAlpha)
termination_by first.length + second.length
decreasing_by
  · have a := drop1_lt '~' first (by assumption)
    have b := drop1_le second
    omega
  · have a := drop1_lt '^' first (by assumption)
    have b := drop1_le second
    omega
  · have a := dwDigit_lt first (by assumption)
    have b := dw_le Char.isDigit second
    omega
  · have a := dwAlpha_lt second (by simpa using ‹¬(!startsAlpha _) = true›)
    have b := dw_le Char.isAlpha first
    omega

/-- `Vercmp.compare(first, second)` = `vercmp(first, second)` of rpm.py -/
def strCmp (first second : List Char) : Ordering :=
  if first = second then .eq else cmpLoop first second

/-- `compare_rpm_versions(a, b)` on two `RpmVersion` tuples -/
def vercmp (a b : Raw) : Ordering :=
  if a.epoch != b.epoch then
    (if a.epoch > b.epoch then .gt else .lt)
  else if a.version = b.version ∧ a.release = b.release then .eq
  else
    match strCmp a.version b.version with
    | .lt => .lt
    | .gt => .gt
    | .eq => strCmp a.release b.release

/-! ### operators and hash -/

/-- `rpm.RpmVersion`: all six of `__lt__ __gt__ __eq__ __le__ __ge__ __ne__` are hand-written
from `compare_rpm_versions` (`__ne__` since the repair 9738a24; before it the NamedTuple
inherited the textual `tuple.__ne__`). -/
def valOps : VOps Raw where
  lt a b := vercmp a b == .lt
  gt a b := vercmp a b == .gt
  eq a b := vercmp a b == .eq
  le a b := vercmp a b != .gt
  ge a b := vercmp a b != .lt
  ne a b := vercmp a b != .eq

/-- `univers.versions.RpmVersion` defines no dunder: all six come from attrs on `Version`
(1-tuples `(self.value,)`; `__ne__` is attrs' negation of `__eq__`). -/
def verOps : VOps Raw := Univers.Py.attrsOps valOps

/-! ### `__hash__` = `hash((epoch, get_segments(version), get_segments(release)))` -/

/-- `re.findall(r"[0-9]+|[a-zA-Z]+|~|\^", s)`: scan from the left; at each position the first
alternative that matches (greedily) yields a token, otherwise the character is skipped. -/
def findSegs (s : List Char) : List (List Char) :=
  match s with
  | [] => []
  | c :: r =>
    if c.isDigit then (c :: r).takeWhile Char.isDigit :: findSegs (r.dropWhile Char.isDigit)
    else if c.isAlpha then (c :: r).takeWhile Char.isAlpha :: findSegs (r.dropWhile Char.isAlpha)
    else if c == '~' then ['~'] :: findSegs r
    else if c == '^' then ['^'] :: findSegs r
    else findSegs r
termination_by s.length
decreasing_by
  all_goals simp_wf
  all_goals first
    | omega
    | (have := dropWhile_length_le Char.isDigit r; omega)
    | (have := dropWhile_length_le Char.isAlpha r; omega)

/-- `seg.lstrip("0") if seg.isdigit() else seg` (repair 39a75b5: a digits run is kept as text
without its leading zeros, `"000"` becomes `""`; no `int()`) -/
def convSeg (t : List Char) : List Char :=
  if !t.isEmpty && t.all Char.isDigit then t.dropWhile (fun c => c == '0') else t

/-- `get_segments(s)`: a tuple of `str` -/
def getSegments (s : List Char) : List (List Char) := (findSegs s).map convSeg

/-- attrs `__hash__` on `Version` hashes `(value,)`; the value class defines `__hash__`. -/
def hashable : Bool := true

/-- `hash(version)` is a function of the tuple
`(epoch, get_segments(version), get_segments(release))` -/
def hashKey (r : Raw) : Int × List (List Char) × List (List Char) :=
  (r.epoch, getSegments r.version, getSegments r.release)

end Univers.Rpm
