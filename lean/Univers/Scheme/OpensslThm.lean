/-
Theorems for `legacy_openssl` and `openssl`.
No Mathlib.
-/
import Univers.Scheme.OpensslSpec
import Univers.Scheme.SemverThm
import Univers.Vers.Spec

namespace Univers.Openssl

open Std
open Univers.Semver (natCmp charCmp strCmp strCmp_eq_iff lexList_eq_iff charCmp_eq_iff)

namespace Legacy

/-! ### refinement -/

theorem vercmp_of_not_mixed (a b : Raw) (h : mixedPre a b = false) : vercmp a b = tupleCmp a b := by
  simp only [vercmp, verOps, h, valOps, Py.opsOfSign]
  cases tupleCmp a b <;> rfl

theorem beq_eq_compare (a b : Nat) : (a == b) = (compare a b == .eq) := Semver.nat_beq_iff a b

/-- REFINEMENT: the comparison computed by the hand-written `__lt__`/`__gt__` is the order of
the key `(major, minor, fix, release?, patch)`, for all values. -/
theorem vercmp_eq_key (a b : Raw) : vercmp a b = keyCmp (key a) (key b) := by
  by_cases h : mixedPre a b = true
  · have h' := h
    simp only [mixedPre, beq_eq_compare, Bool.and_eq_true, bne_iff_ne, ne_eq, beq_iff_eq] at h'
    obtain ⟨⟨⟨h1, h2⟩, h3⟩, h4⟩ := h'
    simp only [vercmp, verOps, h, if_true, keyCmp, key, lexPair, natCmp, h1, h2, h3, Ordering.eq_then]
    cases ha : isPrerelease a <;> cases hb : isPrerelease b <;> simp_all
    · rfl
    · rfl
  · have h0 : mixedPre a b = false := by simpa using h
    rw [vercmp_of_not_mixed a b h0]
    simp only [mixedPre, beq_eq_compare] at h0
    simp only [tupleCmp, keyCmp, key, lexPair, natCmp]
    cases h1 : compare a.major b.major <;> cases h2 : compare a.minor b.minor <;>
      cases h3 : compare a.build b.build <;> simp only [Ordering.then] <;> try rfl
    simp only [h1, h2, h3, beq_self_eq_true, Bool.and_self, Bool.true_and, bne_eq_false_iff_eq] at h0
    rw [h0]
    simp [Semver.strCmp_def]

instance : TransCmp vercmp := by
  have : vercmp = cmpOn key keyCmp := by funext a b; exact vercmp_eq_key a b
  rw [this]; infer_instance


/-! ### the operators -/

theorem tupleCmp_eq_iff (a b : Raw) : tupleCmp a b = .eq ↔ a = b := by
  cases a; cases b
  simp [tupleCmp, Ordering.then_eq_eq, strCmp_eq_iff]

theorem isPrerelease_congr {a b : Raw} (h : a.patch = b.patch) : isPrerelease a = isPrerelease b := by
  simp [isPrerelease, h]

theorem tupleCmp_ne_eq_of_mixed (a b : Raw) (h : mixedPre a b = true) : tupleCmp a b ≠ .eq := by
  intro e
  rw [tupleCmp_eq_iff] at e
  subst e
  simp [mixedPre] at h

/-- C02 for `<`, `>`, `==`, `!=`, on ALL values -/
theorem verOps_lt_gt_eq_ne_lawful (a b : Raw) :
    verOps.lt a b = (vercmp a b == .lt) ∧ verOps.gt a b = (vercmp a b == .gt) ∧
    verOps.eq a b = (vercmp a b == .eq) ∧ verOps.ne a b = (vercmp a b != .eq) := by
  by_cases h : mixedPre a b = true
  · have hne := tupleCmp_ne_eq_of_mixed a b h
    have h' := h
    simp only [mixedPre, Bool.and_eq_true, bne_iff_ne, ne_eq] at h'
    have h4 := h'.2
    simp only [vercmp, verOps, h, if_true, Py.attrsOps, valOps, Py.opsOfSign]
    cases ha : isPrerelease a <;> cases hb : isPrerelease b <;> simp_all <;>
      (cases hc : tupleCmp a b <;> simp_all)
  · have h0 : mixedPre a b = false := by simpa using h
    rw [vercmp_of_not_mixed a b h0]
    simp only [verOps, h0, valOps, Py.opsOfSign, Py.attrsOps]
    cases tupleCmp a b <;> simp

/-- C02 for `<=`, `>=` outside the pairs "same base, exactly one pre-release" -/
theorem verOps_le_ge_lawful_partial (a b : Raw) (h : mixedPre a b = false) :
    verOps.le a b = (vercmp a b != .gt) ∧ verOps.ge a b = (vercmp a b != .lt) := by
  rw [vercmp_of_not_mixed a b h]
  simp only [verOps, valOps, Py.opsOfSign, Py.attrsOps]
  cases tupleCmp a b <;> simp

/-- C02 on the largest natural sub-domain: all six operators agree with `vercmp` on every pair
that is not "same base, exactly one pre-release". -/
theorem verOps_lawful_partial (a b : Raw) (h : mixedPre a b = false) :
    verOps.lt a b = (vercmp a b == .lt) ∧ verOps.gt a b = (vercmp a b == .gt) ∧
    verOps.eq a b = (vercmp a b == .eq) ∧ verOps.ne a b = (vercmp a b != .eq) ∧
    verOps.le a b = (vercmp a b != .gt) ∧ verOps.ge a b = (vercmp a b != .lt) :=
  let ⟨h1, h2, h3, h4⟩ := verOps_lt_gt_eq_ne_lawful a b
  let ⟨h5, h6⟩ := verOps_le_ge_lawful_partial a b h
  ⟨h1, h2, h3, h4, h5, h6⟩

example : mixedPre ⟨1, 0, 1, ['a']⟩ ⟨1, 0, 1, ['b']⟩ = false := by decide

/-- DEFECT (C02): `LegacyOpensslVersion("1.0.1-beta1") < LegacyOpensslVersion("1.0.1")` is `True`
but `<=` is `False`, and `1.0.1 > 1.0.1-beta1` is `True` but `>=` is `False`: `__le__`/`__ge__`
are the attrs-generated ones and compare the raw tuples without the pre-release rule. -/
theorem verOps_lawful_counterexample :
    let a : Raw := ⟨1, 0, 1, "-beta1".toList⟩
    let b : Raw := ⟨1, 0, 1, []⟩
    verOps.lt a b = true ∧ verOps.le a b = false ∧ verOps.gt b a = true ∧ verOps.ge b a = false ∧
    vercmp a b = .lt := by decide

/-- C12: equal versions have equal hash keys -/
theorem eq_imp_hash (a b : Raw) : verOps.eq a b = true → hashKey a = hashKey b := by
  simp only [verOps, Py.attrsOps, valOps, Py.opsOfSign, beq_iff_eq, tupleCmp_eq_iff]
  intro h; rw [h]

/-! ### distance to the OpenSSL history (observations on the spec, not operator defects) -/

/-- `1.1.0-pre1` (a real pre-release of 1.1.0) is ordered AFTER `1.1.0`: `is_prerelease` only
knows `-alpha` and `-beta`. -/
theorem pre_tag_after_release :
    vercmp ⟨1, 1, 0, "-pre1".toList⟩ ⟨1, 1, 0, []⟩ = .gt := by decide

/-- pre-release numbers are compared as text: `-beta10` before `-beta2` -/
theorem beta_numbers_as_text :
    vercmp ⟨1, 0, 0, "-beta10".toList⟩ ⟨1, 0, 0, "-beta2".toList⟩ = .lt := by decide


/-! ### `parse` never raises (ASCII text) -/

/-- `X.Y.Z` with three single ASCII digits -/
def baseShape : List Char → Bool
  | [x, '.', y, '.', z] => x.isDigit && y.isDigit && z.isDigit
  | _ => false

theorem legacyBases_shape : ∀ b ∈ legacyBases, baseShape b = true := by decide

theorem baseShape_elim {b : List Char} (h : baseShape b = true) :
    ∃ x y z, b = [x, '.', y, '.', z] ∧ x.isDigit = true ∧ y.isDigit = true ∧ z.isDigit = true := by
  unfold baseShape at h
  split at h
  · rename_i x y z
    simp only [Bool.and_eq_true] at h
    exact ⟨x, y, z, rfl, h.1.1, h.1.2, h.2⟩
  · cases h

theorem splitOn_ne_nil (sep : Char) (s : List Char) : Semver.splitOn sep s ≠ [] := by
  induction s with
  | nil => simp [Semver.splitOn]
  | cons c cs ih =>
    simp only [Semver.splitOn]
    split
    · simp
    · split <;> simp

theorem splitOn_cons_sep (sep : Char) (cs : List Char) :
    Semver.splitOn sep (sep :: cs) = [] :: Semver.splitOn sep cs := by
  simp [Semver.splitOn]

theorem splitOn_cons_of_ne {sep c : Char} {cs hd : List Char} {tl : List (List Char)} (h : c ≠ sep)
    (e : Semver.splitOn sep cs = hd :: tl) : Semver.splitOn sep (c :: cs) = (c :: hd) :: tl := by
  simp [Semver.splitOn, e, h]

theorem digit_ne_dot {c : Char} (h : c.isDigit = true) : c ≠ '.' := by
  intro e; subst e; exact absurd h (by decide)

theorem splitOn_base (x y z : Char) (t : List Char) (hx : x.isDigit = true) (hy : y.isDigit = true)
    (hz : z.isDigit = true) :
    ∃ hd tl, Semver.splitOn '.' (x :: '.' :: y :: '.' :: z :: t) = [x] :: [y] :: (z :: hd) :: tl := by
  cases e : Semver.splitOn '.' t with
  | nil => exact absurd e (splitOn_ne_nil '.' t)
  | cons hd tl =>
    refine ⟨hd, tl, ?_⟩
    have e1 := splitOn_cons_of_ne (digit_ne_dot hz) e
    have e2 := splitOn_cons_of_ne (digit_ne_dot hy) ((splitOn_cons_sep '.' _).trans (by rw [e1]))
    exact splitOn_cons_of_ne (digit_ne_dot hx) ((splitOn_cons_sep '.' _).trans (by rw [e2]))

theorem isDigitStr_single {c : Char} (h : c.isDigit = true) : Semver.isDigitStr [c] = true := by
  simp [Semver.isDigitStr, h]

/-- None of the `int(...)`, `build[0]`, `patch[0]` in `LegacyOpensslVersion.parse` can raise on
ASCII text: behind `startswith(all_legacy_base)` and `len(segments) == 3` the first two segments
are single digits and the third starts with a digit. -/
theorem parse_no_raise (s : List Char) : ∃ r, parse s = .ok r := by
  unfold parse
  split
  · exact ⟨none, rfl⟩
  · rename_i h
    have h2 : legacyBases.any (fun b => b.isPrefixOf s) = true := by
      cases e : legacyBases.any (fun b => b.isPrefixOf s) <;> simp_all
    obtain ⟨b, hb, hp⟩ := List.any_eq_true.mp h2
    obtain ⟨x, y, z, rfl, hx, hy, hz⟩ := baseShape_elim (legacyBases_shape b hb)
    · obtain ⟨t, rfl⟩ := List.isPrefixOf_iff_prefix.mp hp
      obtain ⟨hd, tl, e⟩ := splitOn_base x y z t hx hy hz
      simp only [List.cons_append, List.nil_append] at e ⊢
      rw [e]
      cases tl with
      | cons _ _ => exact ⟨none, rfl⟩
      | nil =>
        simp only [pyInt, isDigitStr_single hx, isDigitStr_single hy, isDigitStr_single hz, if_true,
          bind, Except.bind]
        split
        · exact ⟨_, rfl⟩
        · rename_i hnd
          cases hd with
          | nil => exact absurd (isDigitStr_single hz) hnd
          | cons p0 ps =>
            simp only [List.drop_succ_cons, List.drop_zero]
            split <;> exact ⟨_, rfl⟩

/-- `LegacyOpensslVersion(string)` is either a value or `InvalidVersion` -/
theorem construct_ok_or_invalid (s : List Char) :
    (∃ r, construct s = .ok r) ∨ construct s = .error .invalid := by
  unfold construct isValid
  obtain ⟨r, hr⟩ := parse_no_raise (Semver.normalize s)
  simp only [hr, bind, Except.bind]
  cases r with
  | none => right; rfl
  | some v => left; exact ⟨v, rfl⟩

end Legacy

/-! ## `openssl` -/

/-- REFINEMENT: the comparison computed by `OpensslVersion.__lt__/__gt__` is the order of the
two-epoch key (legacy key < SemVer key), for all values. -/
theorem vercmp_eq_key (a b : Raw) : vercmp a b = keyCmp (key a) (key b) := by
  cases a with
  | legacy a =>
    cases b with
    | legacy b => exact Legacy.vercmp_eq_key a b
    | modern b => rfl
  | modern a =>
    cases b with
    | legacy b => rfl
    | modern b =>
      show (if Semver.verOps.lt a b then Ordering.lt else if Semver.verOps.gt a b then .gt else .eq) = _
      obtain ⟨h1, h2, _, _⟩ := Semver.verOps_order_lawful a b
      rw [h1, h2, Semver.vercmp_eq_key]
      show _ = Semver.keyCmp (Semver.key a) (Semver.key b)
      cases Semver.keyCmp (Semver.key a) (Semver.key b) <;> rfl

instance : TransCmp vercmp := by
  have : vercmp = cmpOn key keyCmp := by funext a b; exact vercmp_eq_key a b
  rw [this]; infer_instance

theorem vercmp_modern (a b : Semver.Raw) : vercmp (.modern a) (.modern b) = Semver.vercmp a b := by
  rw [vercmp_eq_key, Semver.vercmp_eq_key]; rfl

/-- the pairs on which all six operators are lawful: two legacy versions that are not
"same base, exactly one pre-release"; two 3.x versions with canonical pre-release identifiers
(always the case for constructed values, `Semver.construct_preCanon`); one of each. -/
def Compatible : Raw → Raw → Prop
  | .legacy a, .legacy b => Legacy.mixedPre a b = false
  | .modern a, .modern b => Semver.PreCanon a ∧ Semver.PreCanon b
  | _, _ => True

instance (a b : Raw) : Decidable (Compatible a b) := by
  cases a <;> cases b <;> unfold Compatible <;> infer_instance

/-- C02 on the largest natural sub-domain -/
theorem verOps_lawful_partial (a b : Raw) (h : Compatible a b) :
    verOps.lt a b = (vercmp a b == .lt) ∧ verOps.gt a b = (vercmp a b == .gt) ∧
    verOps.eq a b = (vercmp a b == .eq) ∧ verOps.ne a b = (vercmp a b != .eq) ∧
    verOps.le a b = (vercmp a b != .gt) ∧ verOps.ge a b = (vercmp a b != .lt) := by
  cases a with
  | legacy a =>
    cases b with
    | legacy b => exact Legacy.verOps_lawful_partial a b h
    | modern b => exact ⟨rfl, rfl, rfl, rfl, rfl, rfl⟩
  | modern a =>
    cases b with
    | legacy b => exact ⟨rfl, rfl, rfl, rfl, rfl, rfl⟩
    | modern b =>
      rw [vercmp_modern]
      obtain ⟨h1, h2, h3, h4⟩ := Semver.verOps_order_lawful a b
      obtain ⟨h5, h6⟩ := Semver.verOps_eq_lawful a b h.1 h.2
      exact ⟨h1, h2, h5, h6, h3, h4⟩

example : Compatible (.legacy ⟨1, 0, 1, ['a']⟩) (.modern ⟨3, 0, 0, [], []⟩) := by decide

/-- DEFECT (C02), inherited from `LegacyOpensslVersion`: `OpensslVersion("1.0.1-beta1") <
OpensslVersion("1.0.1")` is `True` but `<=` is `False` (and `>` / `>=` the other way round). -/
theorem verOps_lawful_counterexample :
    let a : Raw := .legacy ⟨1, 0, 1, "-beta1".toList⟩
    let b : Raw := .legacy ⟨1, 0, 1, []⟩
    verOps.lt a b = true ∧ verOps.le a b = false ∧ verOps.gt b a = true ∧ verOps.ge b a = false ∧
    vercmp a b = .lt := by decide

/-- DEFECT (C12): `hash(OpensslVersion(...))` raises `TypeError` (`__eq__` without `__hash__`) -/
theorem unhashable : hashable = false := rfl

/-- what C12 would need once a `__hash__` is added: equal versions have equal values -/
theorem eq_imp_hash (a b : Raw) : verOps.eq a b = true → hashKey a = hashKey b := by
  cases a with
  | legacy a =>
    cases b with
    | legacy b =>
      intro h
      have := Legacy.eq_imp_hash a b h
      simp only [Legacy.hashKey, Prod.mk.injEq] at this
      cases a; cases b; simp_all [hashKey]
    | modern b => intro h; cases h
  | modern a =>
    cases b with
    | legacy b => intro h; cases h
    | modern b =>
      intro h
      have : a = b := by
        have h' : Semver.verOps.eq a b = true := h
        simpa [Semver.verOps, Py.attrsOps, Semver.valOps_eq_iff] using h'
      rw [this]

end Univers.Openssl
