/-
Theorems for `legacy_openssl` and `openssl`.
No Mathlib.
-/
import Univers.Scheme.OpensslSpec
import Univers.Scheme.SemverThm
import Univers.Vers.Spec

namespace Univers.Openssl

open Std
open Univers.Semver (natCmp charCmp strCmp strCmp_eq_iff lexList_eq_iff charCmp_eq_iff
  natStr parseNat isDigitStr splitOn isPySpace natStr_digits natStr_ne_nil
  parseNat_natStr isDigitStr_natStr splitOn_append_sep splitOn_no_sep)

namespace Legacy

/-! ### refinement -/

theorem vercmp_of_not_mixed (a b : Raw) (h : mixedPre a b = false) : vercmp a b = tupleCmp a b := by
  simp only [vercmp, verOps, h, valOps, Py.opsOfSign]
  cases tupleCmp a b <;> rfl

theorem beq_eq_compare (a b : Nat) : (a == b) = (compare a b == .eq) := Semver.nat_beq_iff a b

/-- REFINEMENT: the comparison computed by the hand-written `__lt__`/`__gt__` is the order of
the key `(major, minor, fix, release?, patch)`, for all values. -/
theorem vercmp_eq_key (a b : Raw) : vercmp a b = keyCmp (key a) (key b) := by
  by_cases h : mixedPre a b = true
  · have h' := h
    simp only [mixedPre, beq_eq_compare, Bool.and_eq_true, bne_iff_ne, ne_eq, beq_iff_eq] at h'
    obtain ⟨⟨⟨h1, h2⟩, h3⟩, h4⟩ := h'
    simp only [vercmp, verOps, h, if_true, keyCmp, key, lexPair, natCmp, h1, h2, h3, Ordering.eq_then]
    cases ha : isPrerelease a <;> cases hb : isPrerelease b <;> simp_all
    · rfl
    · rfl
  · have h0 : mixedPre a b = false := by simpa using h
    rw [vercmp_of_not_mixed a b h0]
    simp only [mixedPre, beq_eq_compare] at h0
    simp only [tupleCmp, keyCmp, key, lexPair, natCmp]
    cases h1 : compare a.major b.major <;> cases h2 : compare a.minor b.minor <;>
      cases h3 : compare a.build b.build <;> simp only [Ordering.then] <;> try rfl
    simp only [h1, h2, h3, beq_self_eq_true, Bool.and_self, Bool.true_and, bne_eq_false_iff_eq] at h0
    rw [h0]
    simp [Semver.strCmp_def]

instance : TransCmp vercmp := by
  have : vercmp = cmpOn key keyCmp := by funext a b; exact vercmp_eq_key a b
  rw [this]; infer_instance


/-! ### the operators -/

theorem tupleCmp_eq_iff (a b : Raw) : tupleCmp a b = .eq ↔ a = b := by
  cases a; cases b
  simp [tupleCmp, Ordering.then_eq_eq, strCmp_eq_iff]

theorem isPrerelease_congr {a b : Raw} (h : a.patch = b.patch) : isPrerelease a = isPrerelease b := by
  simp [isPrerelease, h]

theorem tupleCmp_ne_eq_of_mixed (a b : Raw) (h : mixedPre a b = true) : tupleCmp a b ≠ .eq := by
  intro e
  rw [tupleCmp_eq_iff] at e
  subst e
  simp [mixedPre] at h

/-- C02 for `<`, `>`, `==`, `!=`, on ALL values -/
theorem verOps_lt_gt_eq_ne_lawful (a b : Raw) :
    verOps.lt a b = (vercmp a b == .lt) ∧ verOps.gt a b = (vercmp a b == .gt) ∧
    verOps.eq a b = (vercmp a b == .eq) ∧ verOps.ne a b = (vercmp a b != .eq) := by
  by_cases h : mixedPre a b = true
  · have hne := tupleCmp_ne_eq_of_mixed a b h
    have h' := h
    simp only [mixedPre, Bool.and_eq_true, bne_iff_ne, ne_eq] at h'
    have h4 := h'.2
    simp only [vercmp, verOps, h, if_true, Py.attrsOps, valOps, Py.opsOfSign]
    cases ha : isPrerelease a <;> cases hb : isPrerelease b <;> simp_all <;>
      (cases hc : tupleCmp a b <;> simp_all)
  · have h0 : mixedPre a b = false := by simpa using h
    rw [vercmp_of_not_mixed a b h0]
    simp only [verOps, h0, valOps, Py.opsOfSign, Py.attrsOps]
    cases tupleCmp a b <;> simp

theorem verOps_le_def (a b : Raw) : verOps.le a b = (verOps.lt a b || verOps.eq a b) := rfl
theorem verOps_ge_def (a b : Raw) : verOps.ge a b = (verOps.gt a b || verOps.eq a b) := rfl

/-- C02: the six operators of `LegacyOpensslVersion` are the ones induced by `vercmp`, on ALL
values (`__le__`/`__ge__` are `lt or ==` / `gt or ==` since the repair). -/
theorem verOps_lawful : Lawful verOps vercmp where
  lt a b := (verOps_lt_gt_eq_ne_lawful a b).1
  gt a b := (verOps_lt_gt_eq_ne_lawful a b).2.1
  eq a b := (verOps_lt_gt_eq_ne_lawful a b).2.2.1
  ne a b := (verOps_lt_gt_eq_ne_lawful a b).2.2.2
  le a b := by
    obtain ⟨h1, _, h3, _⟩ := verOps_lt_gt_eq_ne_lawful a b
    rw [verOps_le_def, h1, h3]; cases vercmp a b <;> rfl
  ge a b := by
    obtain ⟨_, h2, h3, _⟩ := verOps_lt_gt_eq_ne_lawful a b
    rw [verOps_ge_def, h2, h3]; cases vercmp a b <;> rfl

/-- the formerly failing pair: `1.0.1-beta1 <= 1.0.1` and `1.0.1 >= 1.0.1-beta1` now hold -/
example :
    let a : Raw := ⟨1, 0, 1, "-beta1".toList⟩
    let b : Raw := ⟨1, 0, 1, []⟩
    verOps.lt a b = true ∧ verOps.le a b = true ∧ verOps.gt b a = true ∧ verOps.ge b a = true := by
  decide

/-- C12: equal versions have equal hash keys -/
theorem eq_imp_hash (a b : Raw) : verOps.eq a b = true → hashKey a = hashKey b := by
  simp only [verOps, Py.attrsOps, valOps, Py.opsOfSign, beq_iff_eq, tupleCmp_eq_iff]
  intro h; rw [h]

/-! ### distance to the OpenSSL history (observations on the spec, not operator defects) -/

/-- `1.1.0-pre1` (a real pre-release of 1.1.0) is ordered AFTER `1.1.0`: `is_prerelease` only
knows `-alpha` and `-beta`. -/
theorem pre_tag_after_release :
    vercmp ⟨1, 1, 0, "-pre1".toList⟩ ⟨1, 1, 0, []⟩ = .gt := by decide

/-- pre-release numbers are compared as text: `-beta10` before `-beta2` -/
theorem beta_numbers_as_text :
    vercmp ⟨1, 0, 0, "-beta10".toList⟩ ⟨1, 0, 0, "-beta2".toList⟩ = .lt := by decide


/-! ### `parse` never raises (ASCII text) -/

/-- `X.Y.Z` with three single ASCII digits -/
def baseShape : List Char → Bool
  | [x, '.', y, '.', z] => x.isDigit && y.isDigit && z.isDigit
  | _ => false

theorem legacyBases_shape : ∀ b ∈ legacyBases, baseShape b = true := by decide

theorem baseShape_elim {b : List Char} (h : baseShape b = true) :
    ∃ x y z, b = [x, '.', y, '.', z] ∧ x.isDigit = true ∧ y.isDigit = true ∧ z.isDigit = true := by
  unfold baseShape at h
  split at h
  · rename_i x y z
    simp only [Bool.and_eq_true] at h
    exact ⟨x, y, z, rfl, h.1.1, h.1.2, h.2⟩
  · cases h

theorem splitOn_ne_nil (sep : Char) (s : List Char) : Semver.splitOn sep s ≠ [] := by
  induction s with
  | nil => simp [Semver.splitOn]
  | cons c cs ih =>
    simp only [Semver.splitOn]
    split
    · simp
    · split <;> simp

theorem splitOn_cons_sep (sep : Char) (cs : List Char) :
    Semver.splitOn sep (sep :: cs) = [] :: Semver.splitOn sep cs := by
  simp [Semver.splitOn]

theorem splitOn_cons_of_ne {sep c : Char} {cs hd : List Char} {tl : List (List Char)} (h : c ≠ sep)
    (e : Semver.splitOn sep cs = hd :: tl) : Semver.splitOn sep (c :: cs) = (c :: hd) :: tl := by
  simp [Semver.splitOn, e, h]

theorem digit_ne_dot {c : Char} (h : c.isDigit = true) : c ≠ '.' := by
  intro e; subst e; exact absurd h (by decide)

theorem splitOn_base (x y z : Char) (t : List Char) (hx : x.isDigit = true) (hy : y.isDigit = true)
    (hz : z.isDigit = true) :
    ∃ hd tl, Semver.splitOn '.' (x :: '.' :: y :: '.' :: z :: t) = [x] :: [y] :: (z :: hd) :: tl := by
  cases e : Semver.splitOn '.' t with
  | nil => exact absurd e (splitOn_ne_nil '.' t)
  | cons hd tl =>
    refine ⟨hd, tl, ?_⟩
    have e1 := splitOn_cons_of_ne (digit_ne_dot hz) e
    have e2 := splitOn_cons_of_ne (digit_ne_dot hy) ((splitOn_cons_sep '.' _).trans (by rw [e1]))
    exact splitOn_cons_of_ne (digit_ne_dot hx) ((splitOn_cons_sep '.' _).trans (by rw [e2]))

theorem isDigitStr_single {c : Char} (h : c.isDigit = true) : Semver.isDigitStr [c] = true := by
  simp [Semver.isDigitStr, h]

/-- None of the `int(...)`, `build[0]`, `patch[0]` in `LegacyOpensslVersion.parse` can raise on
ASCII text: behind `startswith(all_legacy_base)` and `len(segments) == 3` the first two segments
are single digits and the third starts with a digit. -/
theorem parse_no_raise (s : List Char) : ∃ r, parse s = .ok r := by
  unfold parse
  split
  · exact ⟨none, rfl⟩
  · rename_i h
    have h2 : legacyBases.any (fun b => b.isPrefixOf s) = true := by
      cases e : legacyBases.any (fun b => b.isPrefixOf s) <;> simp_all
    obtain ⟨b, hb, hp⟩ := List.any_eq_true.mp h2
    obtain ⟨x, y, z, rfl, hx, hy, hz⟩ := baseShape_elim (legacyBases_shape b hb)
    · obtain ⟨t, rfl⟩ := List.isPrefixOf_iff_prefix.mp hp
      obtain ⟨hd, tl, e⟩ := splitOn_base x y z t hx hy hz
      simp only [List.cons_append, List.nil_append] at e ⊢
      rw [e]
      cases tl with
      | cons _ _ => exact ⟨none, rfl⟩
      | nil =>
        simp only [pyInt, isDigitStr_single hx, isDigitStr_single hy, isDigitStr_single hz, if_true,
          bind, Except.bind]
        split
        · split <;> exact ⟨_, rfl⟩
        · rename_i hnd
          cases hd with
          | nil => exact absurd (isDigitStr_single hz) hnd
          | cons p0 ps =>
            simp only [List.drop_succ_cons, List.drop_zero]
            split <;> exact ⟨_, rfl⟩

/-- `LegacyOpensslVersion(string)` is either a value or `InvalidVersion` -/
theorem construct_ok_or_invalid (s : List Char) :
    (∃ r, construct s = .ok r) ∨ construct s = .error .invalid := by
  unfold construct isValid
  obtain ⟨r, hr⟩ := parse_no_raise (Semver.normalize s)
  simp only [hr, bind, Except.bind]
  cases r with
  | none => right; rfl
  | some v => left; exact ⟨v, rfl⟩

/-! ### C11: printing round-trips -/

def coreStr (r : Raw) : List Char := natStr r.major ++ '.' :: (natStr r.minor ++ '.' :: natStr r.build)

/-- the values `parse` can return -/
def WellFormed (r : Raw) : Prop :=
  (legacyBases.any fun b => b.isPrefixOf (coreStr r)) = true ∧
  (∀ c ∈ r.patch, isPySpace c = false ∧ c ≠ '.') ∧
  (r.patch ≠ [] → r.build < 10 ∧ ∀ c ∈ r.patch.head?, c.isDigit = false)

instance (r : Raw) : Decidable (WellFormed r) := by unfold WellFormed; infer_instance

theorem str_eq (r : Raw) :
    str r = natStr r.major ++ '.' :: (natStr r.minor ++ '.' :: (natStr r.build ++ r.patch)) := by
  simp [str, List.append_assoc]

theorem dot_notin_natStr (n : Nat) : '.' ∉ natStr n := by
  intro h; exact absurd (natStr_digits n '.' h) (by decide)

theorem splitOn_str (r : Raw) (h : ∀ c ∈ r.patch, c ≠ '.') :
    splitOn '.' (str r) = [natStr r.major, natStr r.minor, natStr r.build ++ r.patch] := by
  rw [str_eq, splitOn_append_sep '.' _ _ (dot_notin_natStr _),
    splitOn_append_sep '.' _ _ (dot_notin_natStr _), splitOn_no_sep]
  intro hm
  rw [List.mem_append] at hm
  rcases hm with hm | hm
  · exact dot_notin_natStr _ hm
  · exact h '.' hm rfl

theorem prefix_str (r : Raw) (h : WellFormed r) :
    (legacyBases.any fun b => b.isPrefixOf (str r)) = true := by
  obtain ⟨b, hb, hp⟩ := List.any_eq_true.mp h.1
  refine List.any_eq_true.mpr ⟨b, hb, ?_⟩
  rw [List.isPrefixOf_iff_prefix] at hp ⊢
  have : str r = coreStr r ++ r.patch := by simp [str_eq, coreStr, List.append_assoc]
  rw [this]
  exact hp.trans (List.prefix_append _ _)

theorem parse_str (r : Raw) (h : WellFormed r) : parse (str r) = .ok (some r) := by
  have hdot : ∀ c ∈ r.patch, c ≠ '.' := fun c hc => (h.2.1 c hc).2
  unfold parse
  rw [prefix_str r h, splitOn_str r hdot]
  simp only [Bool.not_true, Bool.false_eq_true, if_false, pyInt, isDigitStr_natStr, if_true,
    bind, Except.bind, parseNat_natStr]
  cases hp : r.patch with
  | nil =>
    simp only [List.append_nil, isDigitStr_natStr, if_true, parseNat_natStr, bne_self_eq_false,
      Bool.false_eq_true, if_false]
    cases r; simp_all
  | cons p0 ps =>
    have h3 := h.2.2 (by rw [hp]; simp)
    have hb : natStr r.build = [r.build.digitChar] := Semver.natStr_lt_ten h3.1
    have hp0 : p0.isDigit = false := h3.2 p0 (by rw [hp]; simp)
    have hnd : isDigitStr ([r.build.digitChar] ++ p0 :: ps) = false := by
      simp [isDigitStr, hp0]
    rw [hb, hnd]
    have hd : isDigitStr [r.build.digitChar] = true := by rw [← hb]; exact isDigitStr_natStr _
    have hv : parseNat [r.build.digitChar] = r.build := by rw [← hb]; exact parseNat_natStr _
    simp only [Bool.false_eq_true, if_false, List.cons_append, List.nil_append, List.drop_succ_cons,
      List.drop_zero, hd, if_true, hv, hp0]
    cases r; simp_all


theorem normalize_of (s : List Char) (h1 : ∀ c ∈ s, isPySpace c = false)
    (h2 : ∀ c ∈ s.head?, c.isDigit = true) : Semver.normalize s = s := by
  have hf : Semver.removeSpaces s = s := by
    unfold Semver.removeSpaces
    rw [List.filter_eq_self]
    intro c hc; simp [h1 c hc]
  unfold Semver.normalize
  rw [hf]
  cases s with
  | nil => rfl
  | cons c cs =>
    have hc : c.isDigit = true := h2 c (by simp)
    have h' := Char.isDigit_iff_toNat.mp hc
    simp only [Char.reduceToNat] at h'
    have hv : (c == 'v' || c == 'V') = false := by
      simp only [Bool.or_eq_false_iff, beq_eq_false_iff_ne, ne_eq]
      constructor <;> (intro e'; subst e'; simp at h')
    simp [Semver.lstripV, hv]

theorem digit_not_space {c : Char} (h : c.isDigit = true) : isPySpace c = false :=
  Semver.identChar_not_space (Semver.digit_identChar h)

theorem normalize_str (r : Raw) (h : WellFormed r) : Semver.normalize (str r) = str r := by
  apply normalize_of
  · intro c hc
    rw [str_eq] at hc
    simp only [List.mem_append, List.mem_cons] at hc
    rcases hc with hc | hc | hc | hc | hc | hc
    · exact digit_not_space (natStr_digits _ c hc)
    · subst hc; decide
    · exact digit_not_space (natStr_digits _ c hc)
    · subst hc; decide
    · exact digit_not_space (natStr_digits _ c hc)
    · exact (h.2.1 c hc).1
  · intro c hc
    rw [str_eq] at hc
    cases e : natStr r.major with
    | nil => exact absurd e (natStr_ne_nil _)
    | cons x xs =>
      rw [e] at hc
      simp only [List.cons_append, List.head?_cons, Option.mem_def, Option.some.injEq] at hc
      subst hc
      exact natStr_digits r.major x (by simp [e])

/-- C11 on the well-formed values: `LegacyOpensslVersion(str(v)).value == v.value` -/
theorem str_roundtrip (r : Raw) (h : WellFormed r) : construct (str r) = .ok r := by
  simp [construct, isValid, normalize_str r h, parse_str r h, bind, Except.bind]

example : WellFormed ⟨1, 0, 1, ['a']⟩ := by decide
example : WellFormed ⟨1, 0, 10, []⟩ := by decide

/-! ### every constructed value is well-formed -/

theorem natStr_single {x : Char} (hx : x.isDigit = true) : natStr (parseNat [x]) = [x] := by
  apply Semver.natStr_parseNat [x] (isDigitStr_single hx)
  by_cases h0 : x = '0'
  · subst h0; rfl
  · simp [Semver.hasLeadingZero, h0]

theorem parseNat_single_lt {x : Char} (hx : x.isDigit = true) : parseNat [x] < 10 := by
  have h' := Char.isDigit_iff_toNat.mp hx
  simp only [Char.reduceToNat] at h'
  show Nat.ofDigitChars 10 [x] 0 < 10
  rw [Nat.ofDigitChars_cons]
  show 10 * 0 + (x.toNat - 48) < 10
  omega

theorem normalize_no_space (s : List Char) : ∀ c ∈ Semver.normalize s, isPySpace c = false := by
  intro c hc
  have h1 : c ∈ Semver.removeSpaces s := (List.dropWhile_sublist _).subset hc
  have := (List.mem_filter.mp h1).2
  simpa using this

/-- what `parse` returns on a string without blanks is well-formed -/
theorem parse_wf (n : List Char) (r : Raw) (hsp : ∀ c ∈ n, isPySpace c = false)
    (h : parse n = .ok (some r)) : WellFormed r := by
  unfold parse at h
  split at h
  · cases h
  · rename_i hpre
    have h2 : legacyBases.any (fun b => b.isPrefixOf n) = true := by
      cases e : legacyBases.any (fun b => b.isPrefixOf n) <;> simp_all
    obtain ⟨b, hb, hp⟩ := List.any_eq_true.mp h2
    obtain ⟨x, y, z, rfl, hx, hy, hz⟩ := baseShape_elim (legacyBases_shape b hb)
    obtain ⟨t, rfl⟩ := List.isPrefixOf_iff_prefix.mp hp
    obtain ⟨hd, tl, e⟩ := splitOn_base x y z t hx hy hz
    simp only [List.cons_append, List.nil_append] at e h hsp
    have hseg : ∀ c ∈ z :: hd, c ∈ x :: '.' :: y :: '.' :: z :: t ∧ c ≠ '.' :=
      Semver.mem_splitOn '.' _ (z :: hd) (by rw [e]; simp)
    rw [e] at h
    cases tl with
    | cons _ _ => cases h
    | nil =>
      simp only [pyInt, isDigitStr_single hx, isDigitStr_single hy, isDigitStr_single hz, if_true,
        bind, Except.bind] at h
      split at h
      · split at h
        · cases h
        · rename_i hdig hcan
          have hcan' : natStr (parseNat (z :: hd)) = z :: hd := by simpa using hcan
          simp only [Except.ok.injEq, Option.some.injEq] at h
          subst h
          refine ⟨?_, ?_, ?_⟩
          · refine List.any_eq_true.mpr ⟨_, hb, ?_⟩
            simp only [coreStr, natStr_single hx, natStr_single hy, hcan']
            exact List.isPrefixOf_iff_prefix.mpr ⟨hd, rfl⟩
          · intro c hc; cases hc
          · intro hne; exact absurd rfl hne
      · cases hd with
        | nil => cases h
        | cons p0 ps =>
          simp only [List.drop_succ_cons, List.drop_zero] at h
          split at h
          · cases h
          · rename_i hp0
            simp only [Except.ok.injEq, Option.some.injEq] at h
            subst h
            refine ⟨?_, ?_, ?_⟩
            · refine List.any_eq_true.mpr ⟨_, hb, ?_⟩
              simp only [coreStr, natStr_single hx, natStr_single hy, natStr_single hz]
              exact List.isPrefixOf_iff_prefix.mpr ⟨[], rfl⟩
            · intro c hc
              have := hseg c (by simp only [List.mem_cons] at hc ⊢; exact Or.inr hc)
              exact ⟨hsp c this.1, this.2⟩
            · intro _
              refine ⟨parseNat_single_lt hz, ?_⟩
              intro c hc
              simp only [List.head?_cons, Option.mem_def, Option.some.injEq] at hc
              subst hc; simpa using hp0

/-- C11: every `LegacyOpensslVersion(string)` value is well-formed … -/
theorem construct_wf (s : List Char) (r : Raw) (h : construct s = .ok r) : WellFormed r := by
  unfold construct at h
  simp only [bind, Except.bind] at h
  split at h
  · cases h
  · split at h
    · cases h
    · split at h
      · cases h
      · rename_i o ho
        cases o with
        | none => cases h
        | some v =>
          simp only [Except.ok.injEq] at h
          subst h
          exact parse_wf _ _ (normalize_no_space s) ho

/-- … hence prints to a string that constructs the same value -/
theorem construct_roundtrip (s : List Char) (r : Raw) (h : construct s = .ok r) :
    construct (str r) = .ok r :=
  str_roundtrip r (construct_wf s r h)

/-- the formerly accepted `1.0.05` (it printed as the invalid `1.0.5`) is now rejected -/
example : construct "1.0.05".toList = .error .invalid := by rfl

end Legacy

/-! ## `openssl` -/

/-- REFINEMENT: the comparison computed by `OpensslVersion.__lt__/__gt__` is the order of the
two-epoch key (legacy key < SemVer key), for all values. -/
theorem vercmp_eq_key (a b : Raw) : vercmp a b = keyCmp (key a) (key b) := by
  cases a with
  | legacy a =>
    cases b with
    | legacy b => exact Legacy.vercmp_eq_key a b
    | modern b => rfl
  | modern a =>
    cases b with
    | legacy b => rfl
    | modern b =>
      show (if Semver.verOps.lt a b then Ordering.lt else if Semver.verOps.gt a b then .gt else .eq) = _
      obtain ⟨h1, h2, _, _⟩ := Semver.verOps_order_lawful a b
      rw [h1, h2, Semver.vercmp_eq_key]
      show _ = Semver.keyCmp (Semver.key a) (Semver.key b)
      cases Semver.keyCmp (Semver.key a) (Semver.key b) <;> rfl

instance : TransCmp vercmp := by
  have : vercmp = cmpOn key keyCmp := by funext a b; exact vercmp_eq_key a b
  rw [this]; infer_instance

theorem vercmp_modern (a b : Semver.Raw) : vercmp (.modern a) (.modern b) = Semver.vercmp a b := by
  rw [vercmp_eq_key, Semver.vercmp_eq_key]; rfl

/-- the pairs on which all six operators are lawful: anything involving a legacy version;
two 3.x versions need canonical pre-release identifiers (for `==`/`!=` only), which every
constructed value has (`construct_canon`). -/
def Compatible : Raw → Raw → Prop
  | .modern a, .modern b => Semver.PreCanon a ∧ Semver.PreCanon b
  | _, _ => True

instance (a b : Raw) : Decidable (Compatible a b) := by
  cases a <;> cases b <;> unfold Compatible <;> infer_instance

/-- C02 for the four order operators, on ALL values -/
theorem verOps_order_lawful (a b : Raw) :
    verOps.lt a b = (vercmp a b == .lt) ∧ verOps.gt a b = (vercmp a b == .gt) ∧
    verOps.le a b = (vercmp a b != .gt) ∧ verOps.ge a b = (vercmp a b != .lt) := by
  cases a with
  | legacy a =>
    cases b with
    | legacy b =>
      exact ⟨Legacy.verOps_lawful.lt a b, Legacy.verOps_lawful.gt a b,
        Legacy.verOps_lawful.le a b, Legacy.verOps_lawful.ge a b⟩
    | modern b => exact ⟨rfl, rfl, rfl, rfl⟩
  | modern a =>
    cases b with
    | legacy b => exact ⟨rfl, rfl, rfl, rfl⟩
    | modern b => rw [vercmp_modern]; exact Semver.verOps_order_lawful a b

/-- C02 with the weakest hypothesis needed: only `==`/`!=` between two 3.x values ask for
canonical pre-release identifiers. -/
theorem verOps_lawful_partial (a b : Raw) (h : Compatible a b) :
    verOps.lt a b = (vercmp a b == .lt) ∧ verOps.gt a b = (vercmp a b == .gt) ∧
    verOps.eq a b = (vercmp a b == .eq) ∧ verOps.ne a b = (vercmp a b != .eq) ∧
    verOps.le a b = (vercmp a b != .gt) ∧ verOps.ge a b = (vercmp a b != .lt) := by
  obtain ⟨h1, h2, h3, h4⟩ := verOps_order_lawful a b
  refine ⟨h1, h2, ?_, ?_, h3, h4⟩
  · cases a with
    | legacy a =>
      cases b with
      | legacy b => exact Legacy.verOps_lawful.eq a b
      | modern b => rfl
    | modern a =>
      cases b with
      | legacy b => rfl
      | modern b => rw [vercmp_modern]; exact (Semver.verOps_eq_lawful a b h.1 h.2).1
  · cases a with
    | legacy a =>
      cases b with
      | legacy b => exact Legacy.verOps_lawful.ne a b
      | modern b => rfl
    | modern a =>
      cases b with
      | legacy b => rfl
      | modern b => rw [vercmp_modern]; exact (Semver.verOps_eq_lawful a b h.1 h.2).2

example : Compatible (.legacy ⟨1, 0, 1, "-beta1".toList⟩) (.legacy ⟨1, 0, 1, []⟩) := by decide

/-- canonical values: no numeric pre-release identifier of a 3.x value has a leading zero -/
def Canon : Raw → Prop
  | .legacy _ => True
  | .modern v => Semver.PreCanon v

instance (r : Raw) : Decidable (Canon r) := by cases r <;> unfold Canon <;> infer_instance

theorem compatible_of_canon {a b : Raw} (ha : Canon a) (hb : Canon b) : Compatible a b := by
  cases a <;> cases b <;> simp_all [Compatible, Canon]

theorem liftSemver_ok {x : Except PErr Semver.Raw} {r : Raw} (h : liftSemver x = .ok r) :
    ∃ v, x = .ok v ∧ r = .modern v := by
  cases x with
  | error e => cases h
  | ok v => exact ⟨v, rfl, by cases h; rfl⟩

theorem buildValue_modern (n : List Char) (v : Semver.Raw)
    (h : buildValue n = .ok (some (.modern v))) : Semver.construct n = .ok v := by
  unfold buildValue at h
  simp only [bind, Except.bind] at h
  split at h
  · cases h
  · split at h
    · split at h
      · cases h
      · cases h
    · split at h
      · split at h
        · cases h
        · rename_i w hw
          obtain ⟨v', hv', e⟩ := liftSemver_ok hw
          simp only [Except.ok.injEq, Option.some.injEq] at h
          subst h
          cases e
          exact hv'
      · cases h

theorem construct_buildValue (s : List Char) (r : Raw) (h : construct s = .ok r) :
    buildValue (Semver.normalize s) = .ok (some r) := by
  unfold construct at h
  simp only [bind, Except.bind] at h
  split at h
  · cases h
  · split at h
    · cases h
    · split at h
      · cases h
      · rename_i o ho
        cases o with
        | none => cases h
        | some w => cases h; exact ho

/-- every `OpensslVersion(string)` value is canonical -/
theorem construct_canon (s : List Char) (r : Raw) (h : construct s = .ok r) : Canon r := by
  cases r with
  | legacy v => trivial
  | modern v =>
    exact Semver.construct_preCanon _ _ (buildValue_modern _ v (construct_buildValue s _ h))

/-- the constructible values -/
def CanonRaw : Type := { r : Raw // Canon r }

def verOpsCanon : VOps CanonRaw where
  lt a b := verOps.lt a.1 b.1
  le a b := verOps.le a.1 b.1
  gt a b := verOps.gt a.1 b.1
  ge a b := verOps.ge a.1 b.1
  eq a b := verOps.eq a.1 b.1
  ne a b := verOps.ne a.1 b.1

/-- C02 on the values the constructor can produce (`construct_canon`): the six operators of
`OpensslVersion` are the ones induced by `vercmp`. -/
theorem verOps_lawful : Lawful verOpsCanon (fun a b => vercmp a.1 b.1) where
  lt a b := (verOps_lawful_partial a.1 b.1 (compatible_of_canon a.2 b.2)).1
  gt a b := (verOps_lawful_partial a.1 b.1 (compatible_of_canon a.2 b.2)).2.1
  eq a b := (verOps_lawful_partial a.1 b.1 (compatible_of_canon a.2 b.2)).2.2.1
  ne a b := (verOps_lawful_partial a.1 b.1 (compatible_of_canon a.2 b.2)).2.2.2.1
  le a b := (verOps_lawful_partial a.1 b.1 (compatible_of_canon a.2 b.2)).2.2.2.2.1
  ge a b := (verOps_lawful_partial a.1 b.1 (compatible_of_canon a.2 b.2)).2.2.2.2.2

/-- NOT a defect of the code: two 3.x `Raw`s that no constructor produces (`-01` is rejected)
show why `==` needs `PreCanon` (see `Semver.verOps_lawful_counterexample`). -/
theorem verOps_lawful_counterexample :
    vercmp (.modern ⟨3, 0, 0, [['0', '1']], []⟩) (.modern ⟨3, 0, 0, [['1']], []⟩) = .eq ∧
    verOps.eq (.modern ⟨3, 0, 0, [['0', '1']], []⟩) (.modern ⟨3, 0, 0, [['1']], []⟩) = false := by
  decide

/-- `OpensslVersion.__hash__` exists (`hash(self.value)`) -/
theorem hashable_true : hashable = true := rfl

/-- C12: equal versions have equal hash keys (all values) -/
theorem eq_imp_hash (a b : Raw) : verOps.eq a b = true → hashKey a = hashKey b := by
  cases a with
  | legacy a =>
    cases b with
    | legacy b =>
      intro h
      have := Legacy.eq_imp_hash a b h
      simp only [Legacy.hashKey, Prod.mk.injEq] at this
      cases a; cases b; simp_all [hashKey]
    | modern b => intro h; cases h
  | modern a =>
    cases b with
    | legacy b => intro h; cases h
    | modern b =>
      intro h
      have : a = b := by
        have h' : Semver.verOps.eq a b = true := h
        simpa [Semver.verOps, Py.attrsOps, Semver.valOps_eq_iff] using h'
      rw [this]

/-! ### C11 for `OpensslVersion` -/

/-- well-formed values: a well-formed legacy value, or a SemVer-valid value with major ≥ 3 -/
def WellFormed : Raw → Prop
  | .legacy v => Legacy.WellFormed v
  | .modern v => Semver.WellFormed v ∧ 3 ≤ v.major

instance (r : Raw) : Decidable (WellFormed r) := by
  cases r <;> unfold WellFormed <;> infer_instance

/-- `0.Y.Z` / `1.Y.Z` -/
def baseLead : List Char → Bool
  | x :: '.' :: _ => x == '0' || x == '1'
  | _ => false

theorem legacyBases_lead : ∀ b ∈ Legacy.legacyBases, baseLead b = true := by decide

/-- a string that starts with the decimal numeral of a number ≥ 2 followed by a dot does not
start with any legacy base version -/
theorem no_base_prefix (m : Nat) (hm : 2 ≤ m) (rest : List Char) :
    (Legacy.legacyBases.any fun b => b.isPrefixOf (natStr m ++ '.' :: rest)) = false := by
  cases e : Legacy.legacyBases.any fun b => b.isPrefixOf (natStr m ++ '.' :: rest)
  · rfl
  · exfalso
    obtain ⟨b, hb, hp⟩ := List.any_eq_true.mp e
    have hl := legacyBases_lead b hb
    unfold baseLead at hl
    split at hl
    · rename_i x t
      obtain ⟨u, hu⟩ := List.isPrefixOf_iff_prefix.mp hp
      cases en : natStr m with
      | nil => exact absurd en (natStr_ne_nil m)
      | cons c cs =>
        rw [en] at hu
        simp only [List.cons_append, List.cons.injEq] at hu
        obtain ⟨hxc, hrest⟩ := hu
        cases cs with
        | nil =>
          have hm' : m = parseNat [c] := by rw [← en, parseNat_natStr]
          simp only [Bool.or_eq_true, beq_iff_eq] at hl
          rcases hl with hl | hl
          · subst hl; subst hxc
            have : parseNat ['0'] = 0 := by decide
            omega
          · subst hl; subst hxc
            have : parseNat ['1'] = 1 := by decide
            omega
        | cons c2 cs2 =>
          simp only [List.cons_append, List.cons.injEq] at hrest
          have hd : c2.isDigit = true := natStr_digits m c2 (by simp [en])
          rw [← hrest.1] at hd
          exact absurd hd (by decide)
    · cases hl

theorem legacy_isValid_str (v : Legacy.Raw) (h : Legacy.WellFormed v) :
    Legacy.isValid (Legacy.str v) = .ok true := by
  simp [Legacy.isValid, Legacy.parse_str v h, bind, Except.bind]

/-- C11 on the well-formed values: `OpensslVersion(str(v)).value == v.value` -/
theorem str_roundtrip (r : Raw) (h : WellFormed r) : construct (str r) = .ok r := by
  cases r with
  | legacy v =>
    have hn := Legacy.normalize_str v h
    have hv := legacy_isValid_str v h
    have hc := Legacy.str_roundtrip v h
    simp only [construct, str, hn, isValid, isValidLegacy, hv, buildValue, hc, bind, Except.bind]
    cases isValidNew (Legacy.str v) <;> rfl
  | modern v =>
    obtain ⟨hw, h3⟩ := h
    have hn := Semver.normalize_str v hw
    have hc := Semver.coerce_str v hw
    have hs := Semver.str_roundtrip v hw
    have hnew : isValidNew (Semver.str v) = true := by
      simp [isValidNew, Semver.isValid, Semver.buildValue, hc, h3]
    have hleg : Legacy.isValid (Semver.str v) = .ok false := by
      have hp := no_base_prefix v.major (by omega)
        (natStr v.minor ++ '.' :: (natStr v.patch ++ (Semver.preTail v ++ Semver.buildTail v)))
      rw [← Semver.str_eq] at hp
      simp [Legacy.isValid, Legacy.parse, hp, bind, Except.bind]
    simp only [construct, str, hn, isValid, hnew, if_true, buildValue, isValidLegacy, hleg, hs,
      liftSemver, bind, Except.bind]
    rfl

example : WellFormed (.modern ⟨3, 0, 7, ["beta".toList, "1".toList], []⟩) := by decide

/-- every 3.x value the constructor returns prints to a string that constructs it again
(see `construct_wf` for both branches) -/
theorem modern_wellFormed_of_semver (s : List Char) (v : Semver.Raw)
    (h : Semver.construct s = .ok v) (h3 : 3 ≤ v.major) : WellFormed (.modern v) :=
  ⟨Semver.constructWith_wellFormed false s v h, h3⟩

/-! ### every constructed `OpensslVersion` value is well-formed -/

theorem normalize_idem (s : List Char) : Semver.normalize (Semver.normalize s) = Semver.normalize s := by
  have hf : Semver.removeSpaces (Semver.normalize s) = Semver.normalize s := by
    unfold Semver.removeSpaces
    rw [List.filter_eq_self]
    intro c hc; simp [Legacy.normalize_no_space s c hc]
  show Semver.lstripV (Semver.removeSpaces (Semver.normalize s)) = _
  rw [hf]
  exact Semver.dropWhile_idem _ _

theorem buildValue_cases (n : List Char) (r : Raw) (h : buildValue n = .ok (some r)) :
    (∃ v, r = .legacy v ∧ Legacy.construct n = .ok v) ∨
    (∃ v, r = .modern v ∧ isValidNew n = true ∧ Semver.construct n = .ok v) := by
  unfold buildValue at h
  simp only [bind, Except.bind] at h
  split at h
  · cases h
  · split at h
    · split at h
      · cases h
      · rename_i v hv
        simp only [Except.ok.injEq, Option.some.injEq] at h
        exact Or.inl ⟨v, h.symm, hv⟩
    · split at h
      · rename_i hnew
        split at h
        · cases h
        · rename_i w hw
          obtain ⟨v', hv', e⟩ := liftSemver_ok hw
          simp only [Except.ok.injEq, Option.some.injEq] at h
          subst h
          exact Or.inr ⟨v', e, hnew, hv'⟩
      · cases h

theorem semver_construct_coerce (n : List Char) (v : Semver.Raw) (hn : Semver.normalize n = n)
    (h : Semver.construct n = .ok v) : Semver.coerce n = some v := by
  unfold Semver.construct Semver.constructWith at h
  simp only [hn, Semver.isValid, Semver.buildValue, Bool.false_eq_true, if_false] at h
  split at h
  · cases h
  · split at h
    · rename_i w hw; cases h; exact hw
    · cases h

/-- C11: every `OpensslVersion(string)` value is well-formed … -/
theorem construct_wf (s : List Char) (r : Raw) (h : construct s = .ok r) : WellFormed r := by
  have hb := construct_buildValue s r h
  rcases buildValue_cases _ r hb with ⟨v, rfl, hv⟩ | ⟨v, rfl, hnew, hv⟩
  · rw [Legacy.construct, normalize_idem] at hv
    exact Legacy.construct_wf s v hv
  · refine ⟨Semver.constructWith_wellFormed false _ v hv, ?_⟩
    have hc := semver_construct_coerce _ v (normalize_idem s) hv
    unfold isValidNew at hnew
    rw [hc] at hnew
    split at hnew
    · simpa using hnew
    · cases hnew

/-- … hence prints to a string that constructs the same value -/
theorem construct_roundtrip (s : List Char) (r : Raw) (h : construct s = .ok r) :
    construct (str r) = .ok r :=
  str_roundtrip r (construct_wf s r h)

end Univers.Openssl
