/-
Layer A model of `univers.versions.ArchLinuxVersion` (scheme `alpm`) and of
`univers.arch.vercmp` (`split`, `get_type`, `parse`, `rpmvercmp`), branch for branch.

`ArchLinuxVersion` does not override `normalize`, `is_valid` or `build_value`: the value is the
normalized string (all whitespace removed, then `lstrip("vV")`), valid iff non-empty.  It
hand-writes `__eq__ __lt__ __gt__ __le__ __ge__` through `arch.vercmp`; `__ne__` is the attrs
one of `Version` (`not self.__eq__(other)`); `__hash__` is hand-written too: it hashes the numbers of
the epoch and of the version.

Domain: ASCII text (`str.isdigit` / `str.isalpha` / `str.split` are modelled on ASCII only).
-/
import Univers.Basic.PadLex
import Univers.Vers.Model
import Univers.Py.Attrs

namespace Univers.Alpm

open Univers

/-- `Version.value`: the normalized string -/
abbrev Raw := List Char

inductive PErr | invalid | other (name : String)
  deriving DecidableEq, Repr

/-! ### `Version.normalize`, `Version.is_valid`, `Version.build_value` -/

/-- ASCII characters on which `str.split()` splits: TAB LF VT FF CR, FS GS RS US, SPACE -/
def isWs (c : Char) : Bool :=
  c == ' ' || (9 ≤ c.toNat && c.toNat ≤ 13) || (28 ≤ c.toNat && c.toNat ≤ 31)

/-- `utils.remove_spaces`: `"".join(string.split())` -/
def removeSpaces (s : List Char) : List Char := s.filter (fun c => !isWs c)

def isV (c : Char) : Bool := c == 'v' || c == 'V'

/-- `Version.normalize`: `remove_spaces(string).lstrip("vV")` -/
def normalize (s : List Char) : List Char := (removeSpaces s).dropWhile isV

/-- `ArchLinuxVersion(string)`: `is_valid` is `bool(normalized)`; `build_value` is the identity -/
def construct (s : List Char) : Except PErr Raw :=
  let n := normalize s
  if n.isEmpty then .error .invalid else .ok n

/-- `str(version)` = `str(self.value)` -/
def str (r : Raw) : List Char := r

/-! ### `arch.vercmp` -/

/-- `s.split(sep, 1)` when `sep in s` (first occurrence); `none` when `sep not in s` -/
def split1 (sep : Char) : List Char → Option (List Char × List Char)
  | [] => none
  | c :: cs =>
    if c == sep then some ([], cs)
    else match split1 sep cs with
      | some (a, b) => some (c :: a, b)
      | none => none

/-- `s.rsplit(sep, 1)` when `sep in s` (last occurrence); `none` when `sep not in s` -/
def rsplit1 (sep : Char) : List Char → Option (List Char × List Char)
  | [] => none
  | c :: cs =>
    match rsplit1 sep cs with
    | some (a, b) => some (c :: a, b)
    | none => if c == sep then some ([], cs) else none

/-- the inner `split(v)`: `(epoch, version, pkgrel)`; the epoch defaults to `"0"`, the pkgrel
to `None` -/
def split (v : List Char) : List Char × List Char × Option (List Char) :=
  let ev := match split1 ':' v with
    | some (e, v) => (e, v)
    | none => (['0'], v)
  match rsplit1 '-' ev.2 with
  | some (v, r) => (ev.1, v, some r)
  | none => (ev.1, ev.2, none)

/-- `digit, alpha, other = range(3)` -/
inductive Ty | digit | alpha | other
  deriving DecidableEq, Repr

/-- `get_type(c)`: `c.isdigit()` / `c.isalpha()` on a whole (possibly multi-character) string;
both are `False` on the empty string.  (`assert c` raises on the empty string; `get_type` is
only ever called on non-empty strings, see `AlpmThm.parse_ne_nil`; here `[] ↦ other`.) -/
def getType (s : List Char) : Ty :=
  if !s.isEmpty && s.all Char.isDigit then .digit
  else if !s.isEmpty && s.all Char.isAlpha then .alpha
  else .other

/-- the `for c in v` loop of `parse` with its two variables `parts`, `current` -/
def parseLoop (parts : List (List Char)) (current : List Char) : List Char → List (List Char)
  | [] => if current.isEmpty then parts else parts ++ [current]
  | c :: cs =>
    if current.isEmpty then parseLoop parts (current ++ [c]) cs
    else if getType [c] == getType current then parseLoop parts (current ++ [c]) cs
    else parseLoop (parts ++ [current]) [c] cs

def parse (v : List Char) : List (List Char) := parseLoop [] [] v

/-- `int(p)` on a string of ASCII digits -/
def natOfDigits (s : List Char) : Nat := s.foldl (fun n c => 10 * n + (c.toNat - '0'.toNat)) 0

/-- code-point order of characters -/
def charCmp (a b : Char) : Ordering := compare a.toNat b.toNat

/-- `cmp(x, y)` of `univers.utils` on two strings: code-point lexicographic order -/
def strCmp : List Char → List Char → Ordering := lexList charCmp

/-- the `zip_longest` loop of `rpmvercmp` over the two lists of parts -/
def rpmLoop : List (List Char) → List (List Char) → Ordering
  | [], [] => .eq
  | [], p2 :: _ => if getType p2 == .alpha then .gt else .lt
  | p1 :: _, [] => if getType p1 == .alpha then .lt else .gt
  | p1 :: r1, p2 :: r2 =>
    let t1 := getType p1
    let t2 := getType p2
    if t1 != t2 then
      if t1 == .digit then .gt
      else if t2 == .digit then .lt
      else if t1 == .other then .gt
      else if t2 == .other then .lt
      else rpmLoop r1 r2
    else if t1 == .other then
      let ret := compare p1.length p2.length
      if ret != .eq then ret else rpmLoop r1 r2
    else if t1 == .digit then
      let ret := compare (natOfDigits p1) (natOfDigits p2)
      if ret != .eq then ret else rpmLoop r1 r2
    else if t1 == .alpha then
      let ret := strCmp p1 p2
      if ret != .eq then ret else rpmLoop r1 r2
    else rpmLoop r1 r2

def rpmvercmp (v1 v2 : List Char) : Ordering := rpmLoop (parse v1) (parse v2)

/-- `arch.vercmp(v1, v2)` (`-1, 0, 1` as `lt, eq, gt`) -/
def vercmp (a b : Raw) : Ordering :=
  let s1 := split a
  let s2 := split b
  let ret := rpmvercmp s1.1 s2.1
  if ret == .eq then
    let ret := rpmvercmp s1.2.1 s2.2.1
    if ret == .eq then
      match s1.2.2, s2.2.2 with
      | some r1, some r2 => rpmvercmp r1 r2
      | _, _ => ret
    else ret
  else ret

/-! ### operators and hashing -/

/-- the value is a `str`: its six operators are code-point lexicographic -/
def valOps : VOps Raw := Univers.Py.opsOfSign strCmp

/-- `ArchLinuxVersion`: `__eq__ __lt__ __gt__ __le__ __ge__` hand-written on `arch.vercmp`;
`__ne__` from attrs (`Version.__ne__`): the negation of `self.__eq__(other)` -/
def verOps : VOps Raw where
  eq a b := vercmp a b == .eq
  lt a b := vercmp a b == .lt
  gt a b := vercmp a b == .gt
  le a b := vercmp a b != .gt
  ge a b := vercmp a b != .lt
  ne a b := !(vercmp a b == .eq)

/-- `re.findall(r"[0-9]+", s)`: the maximal runs of ASCII digits of `s` -/
def digitRuns : List Char → List (List Char)
  | [] => []
  | c :: cs =>
    if c.isDigit then
      if cs.head?.any Char.isDigit then
        match digitRuns cs with
        | r :: rest => (c :: r) :: rest
        | [] => [[c]]
      else [c] :: digitRuns cs
    else digitRuns cs

/-- `tuple(int(d) for d in re.findall(r"[0-9]+", s))` -/
def numbers (s : List Char) : List Nat := (digitRuns s).map natOfDigits

/-- `ArchLinuxVersion.__hash__` is defined -/
def hashable : Bool := true

/-- `ArchLinuxVersion.__hash__`: `hash((numbers(epoch), numbers(version)))` with
`epoch, version = value.split(":", 1) if ":" in value else ("0", value)` and
`version = version.rsplit("-", 1)[0]` (the pkgrel is left out) -/
def hashKey (r : Raw) : List Nat × List Nat :=
  let s := split r
  (numbers s.1, numbers s.2.1)

end Univers.Alpm
