/-
Theorems for the `gem` scheme: the refinement `vercmp = keyCmp ∘ key`, the comparator laws,
operator lawfulness (C02), eq/hash agreement (C12), `str` round trip (C11), and the
`bump` / `release` facts needed by C18.
-/
import Univers.Scheme.Gem
import Univers.Scheme.GemSpec
import Univers.Vers.Spec

namespace Univers.Gem

open Std Univers

/-! ### `split_segments` = (numeric prefix, rest) -/

theorem splitLoop_nonempty (l ns ss : List Seg) (h : ss ≠ []) :
    splitLoop l ns ss = (ns, ss ++ l) := by
  induction l generalizing ss with
  | nil => simp [splitLoop]
  | cons x xs ih =>
    cases x with
    | num n =>
      have : ss.isEmpty = false := by cases ss <;> simp_all
      simp [splitLoop, this, ih (ss ++ [.num n]) (by simp)]
    | str s => simp [splitLoop, ih (ss ++ [.str s]) (by simp)]

theorem splitLoop_empty (l ns : List Seg) :
    splitLoop l ns [] = (ns ++ l.takeWhile Seg.isNum, l.dropWhile Seg.isNum) := by
  induction l generalizing ns with
  | nil => simp [splitLoop]
  | cons x xs ih =>
    cases x with
    | num n => simp [splitLoop, ih, Seg.isNum, List.takeWhile_cons, List.dropWhile_cons]
    | str s =>
      simp [splitLoop, splitLoop_nonempty, Seg.isNum]

theorem splitSegments_eq (l : List Seg) :
    splitSegments l = (l.takeWhile Seg.isNum, l.dropWhile Seg.isNum) := by
  simp [splitSegments, splitLoop_empty]

/-! ### dropping trailing zeros -/

theorem dropTrailingZeros_eq (l : List Seg) : dropTrailingZeros l = stripZeros l := by
  induction l with
  | nil => rfl
  | cons x xs ih =>
    have ih' : (xs.reverse.dropWhile (fun s => s == Seg.num 0)) = (stripZeros xs).reverse := by
      rw [← ih]; simp [dropTrailingZeros]
    simp only [dropTrailingZeros, List.reverse_cons, List.dropWhile_append, ih', stripZeros]
    cases h : stripZeros xs with
    | nil =>
      by_cases hx : x = .num 0 <;> simp [hx]
    | cons y ys => simp

theorem canon_eq_key (r : Raw) : r.canon = key r := by
  simp [Raw.canon, canonicalOf, splitSegments_eq, dropTrailingZeros_eq, key]

/-! ### the loop of `__cmp__` is the padded position-wise comparison -/

theorem cmpSeg_eq_segOrd (a b : Seg) : cmpSeg a b = segOrd a b := by
  cases a <;> cases b <;> rfl

theorem lexList_eq_imp {α} (cmp : α → α → Ordering) [LawfulEqCmp cmp] :
    ∀ a b : List α, lexList cmp a b = .eq → a = b
  | [], [], _ => rfl
  | [], _ :: _, h => by simp [lexList] at h
  | _ :: _, [], h => by simp [lexList] at h
  | x :: xs, y :: ys, h => by
    simp only [lexList, Ordering.then_eq_eq] at h
    rw [LawfulEqCmp.eq_of_compare h.1, lexList_eq_imp cmp xs ys h.2]

theorem segOrd_eq_imp (a b : Seg) (h : segOrd a b = .eq) : a = b := by
  cases a <;> cases b <;> simp only [segOrd] at h
  · rw [LawfulEqCmp.eq_of_compare h]
  · exact absurd h (by decide)
  · exact absurd h (by decide)
  · rw [lexList_eq_imp _ _ _ h]

theorem segOrd_self (a : Seg) : segOrd a a = .eq := ReflCmp.compare_self

theorem padLex_drop {α} (c : α → α → Ordering) (d : α) (hd : c d d = .eq) (i : Nat) :
    ∀ l r : List α, padLex c d (l.drop i) (r.drop i) =
      (c (l.getD i d) (r.getD i d)).then (padLex c d (l.drop (i + 1)) (r.drop (i + 1))) := by
  induction i with
  | zero =>
    intro l r
    cases l <;> cases r <;> simp [padLex, hd]
  | succ i ih =>
    intro l r
    cases l with
    | nil =>
      cases r with
      | nil => simp [padLex, hd]
      | cons y ys => simpa using ih [] ys
    | cons x xs =>
      cases r with
      | nil => simpa using ih xs []
      | cons y ys => simpa using ih xs ys

theorem cmpLoop_eq_padLex (l r : List Seg) (n i : Nat) (hn : max l.length r.length ≤ n) :
    cmpLoop l r n i = padLex segOrd (.num 0) (l.drop i) (r.drop i) := by
  fun_induction cmpLoop l r n i with
  | case1 i hi lhs rhs heq ih =>
    rw [padLex_drop segOrd (.num 0) (segOrd_self _) i l r, ih]
    have : lhs = rhs := by simpa using heq
    simp only [lhs, rhs] at this
    rw [this, segOrd_self]; rfl
  | case2 i hi lhs rhs hne =>
    rw [padLex_drop segOrd (.num 0) (segOrd_self _) i l r, cmpSeg_eq_segOrd]
    have hne' : segOrd lhs rhs ≠ .eq := fun h => by
      have := segOrd_eq_imp _ _ h
      simp [this] at hne
    simp only [lhs, rhs] at hne' ⊢
    generalize segOrd (l.getD i (.num 0)) (r.getD i (.num 0)) = o at hne' ⊢
    cases o <;> simp_all [Ordering.then]
  | case3 i hi =>
    have h1 : l.drop i = [] := List.drop_eq_nil_of_le (by omega)
    have h2 : r.drop i = [] := List.drop_eq_nil_of_le (by omega)
    rw [h1, h2]; simp [padLex]

/-! ### REFINEMENT -/

theorem vercmp_eq_key (a b : Raw) : vercmp a b = keyCmp (key a) (key b) := by
  unfold vercmp
  by_cases hv : a.version = b.version
  · have : key a = key b := by unfold key Raw.segs; rw [hv]
    simp only [hv, BEq.rfl, ↓reduceIte, this, keyCmp]
    exact (ReflCmp.compare_self (cmp := padLex segOrd (.num 0))).symm
  · by_cases hc : a.canon = b.canon
    · have : key a = key b := by rw [← canon_eq_key, ← canon_eq_key, hc]
      simp only [hc, BEq.rfl, ↓reduceIte, this, keyCmp, ite_self]
      exact (ReflCmp.compare_self (cmp := padLex segOrd (.num 0))).symm
    · simp only [beq_iff_eq, hv, hc, ↓reduceIte]
      rw [cmpLoop_eq_padLex _ _ _ _ (Nat.le_refl _)]
      simp only [canon_eq_key, keyCmp]; rfl

instance : OrientedCmp vercmp where
  eq_swap := by
    intro a b
    simp only [vercmp_eq_key]
    exact OrientedCmp.eq_swap

instance : TransCmp vercmp where
  isLE_trans := by
    intro a b c
    simp only [vercmp_eq_key]
    exact TransCmp.isLE_trans

/-! ### `__cmp__ == 0` exactly when the canonical segments are equal -/

/-- the last element is not the integer `0` -/
def noTrail : List Seg → Bool
  | [] => true
  | [x] => x != .num 0
  | _ :: y :: ys => noTrail (y :: ys)

theorem noTrail_tail (x : Seg) (xs : List Seg) (h : noTrail (x :: xs) = true) : noTrail xs = true := by
  cases xs with
  | nil => rfl
  | cons y ys => simpa [noTrail] using h

theorem noTrail_stripZeros (l : List Seg) : noTrail (stripZeros l) = true := by
  induction l with
  | nil => rfl
  | cons x xs ih =>
    simp only [stripZeros]
    cases h : stripZeros xs with
    | nil => by_cases hx : x = .num 0 <;> simp [hx, noTrail]
    | cons y ys => simpa [noTrail, h] using ih

theorem noTrail_append (a b : List Seg) (ha : noTrail a = true) (hb : noTrail b = true) :
    noTrail (a ++ b) = true := by
  induction a with
  | nil => simpa using hb
  | cons x xs ih =>
    cases xs with
    | nil =>
      cases b with
      | nil => simpa using ha
      | cons y ys => simpa [noTrail] using hb
    | cons y ys =>
      have := ih (by simpa [noTrail] using ha)
      simpa [noTrail] using this

theorem noTrail_key (r : Raw) : noTrail (key r) = true :=
  noTrail_append _ _ (noTrail_stripZeros _) (noTrail_stripZeros _)

theorem padLex_nil_left (r : List Seg) (hr : noTrail r = true)
    (h : padLex segOrd (.num 0) [] r = .eq) : r = [] := by
  induction r with
  | nil => rfl
  | cons b bs ih =>
    simp only [padLex, Ordering.then_eq_eq] at h
    have hb := segOrd_eq_imp _ _ h.1
    have := ih (noTrail_tail _ _ hr) h.2
    subst this; subst hb
    simp [noTrail] at hr

theorem padLex_nil_right (l : List Seg) (hl : noTrail l = true)
    (h : padLex segOrd (.num 0) l [] = .eq) : l = [] := by
  induction l with
  | nil => rfl
  | cons b bs ih =>
    simp only [padLex, Ordering.then_eq_eq] at h
    have hb := segOrd_eq_imp _ _ h.1
    have := ih (noTrail_tail _ _ hl) h.2
    subst this; subst hb
    simp [noTrail] at hl

theorem padLex_eq_imp (l r : List Seg) (hl : noTrail l = true) (hr : noTrail r = true)
    (h : padLex segOrd (.num 0) l r = .eq) : l = r := by
  induction l generalizing r with
  | nil => exact (padLex_nil_left r hr h).symm
  | cons x xs ih =>
    cases r with
    | nil => exact padLex_nil_right _ hl h
    | cons y ys =>
      simp only [padLex, Ordering.then_eq_eq] at h
      rw [segOrd_eq_imp _ _ h.1, ih ys (noTrail_tail _ _ hl) (noTrail_tail _ _ hr) h.2]

/-- the key is canonical: two versions compare equal iff their keys are the same -/
theorem keyCmp_eq_iff (a b : Raw) : keyCmp (key a) (key b) = .eq ↔ key a = key b := by
  constructor
  · exact padLex_eq_imp _ _ (noTrail_key a) (noTrail_key b)
  · intro h; rw [h]; exact ReflCmp.compare_self (cmp := padLex segOrd (.num 0))

theorem vercmp_eq_iff (a b : Raw) : vercmp a b = .eq ↔ a.canon = b.canon := by
  rw [vercmp_eq_key, keyCmp_eq_iff, canon_eq_key, canon_eq_key]

/-! ### C02, C12 -/

theorem canon_beq (a b : Raw) : (a.canon == b.canon) = (vercmp a b == .eq) := by
  have := vercmp_eq_iff a b
  cases h : vercmp a b <;> simp_all

theorem valOps_lawful : Lawful valOps vercmp := by
  constructor <;> intro a b <;> simp only [valOps, canon_beq] <;> rfl

theorem verOps_lawful : Lawful verOps vercmp := by
  constructor <;> intro a b <;> simp only [verOps, Univers.Py.attrsOps, valOps, canon_beq] <;>
    cases vercmp a b <;> rfl

theorem eq_imp_hash (a b : Raw) : verOps.eq a b = true → hashKey a = hashKey b := by
  intro h
  simpa [verOps, Univers.Py.attrsOps, valOps, hashKey] using h

/-- and conversely: the hash key separates exactly the `==` classes -/
theorem hash_imp_eq (a b : Raw) : hashKey a = hashKey b → verOps.eq a b = true := by
  intro h
  simpa [verOps, Univers.Py.attrsOps, valOps, hashKey] using h

example : verOps.eq ⟨"1.0".toList⟩ ⟨"1".toList⟩ = true ∧ verOps.eq ⟨"1.0.0".toList⟩ ⟨"1".toList⟩ = true
    ∧ verOps.eq ⟨"1.0.a".toList⟩ ⟨"1.a".toList⟩ = true ∧ verOps.eq ⟨"1.a.0".toList⟩ ⟨"1.a".toList⟩ = true
    ∧ verOps.eq ⟨"1-a".toList⟩ ⟨"1.pre.a".toList⟩ = true ∧ verOps.eq ⟨"1.a1".toList⟩ ⟨"1.a.1".toList⟩ = true
    ∧ verOps.eq ⟨"1.a.0.1".toList⟩ ⟨"1.a.1".toList⟩ = false := by decide

/-! ### C11: `str` round trip -/

def noSpace (s : List Char) : Bool := s.all (fun c => !isPySpace c)

/-- what `construct` establishes: the text has no white space and is accepted by `is_correct` -/
def wellFormed (r : Raw) : Bool := noSpace r.original && isCorrect r.original

def WellFormed (r : Raw) : Prop := wellFormed r = true

instance (r : Raw) : Decidable (WellFormed r) := inferInstanceAs (Decidable (_ = true))

example : WellFormed ⟨"1.0.a-b".toList⟩ := by decide

theorem dropWhile_eq_self {α} (p : α → Bool) (l : List α) (h : ∀ c ∈ l, p c = false) :
    l.dropWhile p = l := by
  cases l with
  | nil => rfl
  | cons x xs => simp [h x (by simp)]

theorem strip_of_noSpace (s : List Char) (h : noSpace s = true) : strip s = s := by
  have h' : ∀ c ∈ s, isPySpace c = false := by simpa [noSpace] using h
  unfold strip
  rw [dropWhile_eq_self _ _ h', dropWhile_eq_self _ _ (by simpa using h'), List.reverse_reverse]

theorem noSpace_normalize (s : List Char) : noSpace (normalize s) = true := by
  simp only [noSpace, normalize, List.all_eq_true]
  intro c hc
  have := (List.dropWhile_sublist _).subset hc
  simpa using (List.mem_filter.mp this).2

theorem construct_wf (s : List Char) (r : Raw) (h : construct s = .ok r) : WellFormed r := by
  simp only [construct, gemVersion] at h
  by_cases hc : isCorrect (normalize s) = true
  · simp only [hc, Bool.not_true, Bool.false_eq_true, ↓reduceIte, Except.ok.injEq] at h
    subst h
    simp [WellFormed, wellFormed, strip_of_noSpace _ (noSpace_normalize s), noSpace_normalize, hc]
  · simp [hc] at h

theorem head_of_isCorrect (c : Char) (cs : List Char) (hs : noSpace (c :: cs) = true)
    (h : isCorrect (c :: cs) = true) : (c == 'v' || c == 'V') = false := by
  rw [isCorrect, strip_of_noSpace _ hs] at h
  simp only [List.isEmpty_cons, Bool.false_or, run, step] at h
  by_cases hd : isDig c = true
  · by_cases hv : c = 'v'
    · subst hv; exact absurd hd (by decide)
    · by_cases hV : c = 'V'
      · subst hV; exact absurd hd (by decide)
      · simp [hv, hV]
  · simp [hd] at h

theorem normalize_of_wf (r : Raw) (h : WellFormed r) : normalize r.original = r.original := by
  simp only [WellFormed, wellFormed, Bool.and_eq_true] at h
  have h' : ∀ c ∈ r.original, isPySpace c = false := by simpa [noSpace] using h.1
  have hf : r.original.filter (fun c => !isPySpace c) = r.original :=
    List.filter_eq_self.mpr (by simpa using h')
  unfold normalize
  rw [hf]
  cases ho : r.original with
  | nil => rfl
  | cons c cs =>
    rw [ho] at h
    simp [head_of_isCorrect c cs h.1 h.2]

/-- C11: `construct (str r)` gives back `r`, for every value that `construct` can produce
(`construct_wf`) -/
theorem str_roundtrip (r : Raw) (h : WellFormed r) : construct (str r) = .ok r := by
  have hn := normalize_of_wf r h
  simp only [WellFormed, wellFormed, Bool.and_eq_true] at h
  simp only [construct, str, hn, h.2, gemVersion, strip_of_noSpace _ h.1]
  rfl

/-! ### C18: `bump`, `release` -/

theorem isDig_natStr (n : Nat) : ∀ c ∈ natStr n, isDig c = true :=
  fun _ hc => Nat.isDigit_of_mem_toDigits (by decide) (by decide) hc

theorem natStr_ne_nil (n : Nat) : natStr n ≠ [] := Nat.toDigits_ne_nil

theorem natOfDigits_natStr (n : Nat) : natOfDigits (natStr n) = n := Nat.ofDigitChars_ten_toDigits

/-! scanning a dotted list of numbers -/

theorem scanFrom_digits_dot (ds : List Char) (hd : ∀ c ∈ ds, isDig c = true) (acc t : List Char) :
    scanFrom (.digits acc) (ds ++ '.' :: t) = .num (natOfDigits (acc ++ ds)) :: scanFrom .idle t := by
  induction ds generalizing acc with
  | nil =>
    have h1 : isDig '.' = false := by decide
    have h2 : isAlpha '.' = false := by decide
    simp [scanFrom, h1, h2, Run.emit]
  | cons c cs ih =>
    have hc := hd c (by simp)
    simp only [List.cons_append, scanFrom, hc, ↓reduceIte]
    rw [ih (fun x hx => hd x (by simp [hx]))]
    simp

theorem scanFrom_digits_end (ds : List Char) (hd : ∀ c ∈ ds, isDig c = true) (acc : List Char) :
    scanFrom (.digits acc) ds = [.num (natOfDigits (acc ++ ds))] := by
  induction ds generalizing acc with
  | nil => simp [scanFrom, Run.emit]
  | cons c cs ih =>
    have hc := hd c (by simp)
    simp only [scanFrom, hc, ↓reduceIte]
    rw [ih (fun x hx => hd x (by simp [hx]))]
    simp

theorem scan_natStr_dot (n : Nat) (t : List Char) :
    scanFrom .idle (natStr n ++ '.' :: t) = .num n :: scanFrom .idle t := by
  have hd := isDig_natStr n
  have hn := natOfDigits_natStr n
  cases h : natStr n with
  | nil => exact absurd h (natStr_ne_nil n)
  | cons c cs =>
    rw [h] at hd hn
    have hc := hd c (by simp)
    simp only [List.cons_append, scanFrom, hc, ↓reduceIte, Run.emit, List.nil_append]
    rw [scanFrom_digits_dot cs (fun x hx => hd x (by simp [hx]))]
    simpa using hn

theorem scan_natStr_end (n : Nat) : scanFrom .idle (natStr n) = [.num n] := by
  have hd := isDig_natStr n
  have hn := natOfDigits_natStr n
  cases h : natStr n with
  | nil => exact absurd h (natStr_ne_nil n)
  | cons c cs =>
    rw [h] at hd hn
    have hc := hd c (by simp)
    simp only [scanFrom, hc, ↓reduceIte, Run.emit, List.nil_append]
    rw [scanFrom_digits_end cs (fun x hx => hd x (by simp [hx]))]
    simpa using hn

theorem scan_join : ∀ ns : List Nat, ns ≠ [] → scan (joinDots (ns.map natStr)) = ns.map Seg.num
  | [], h => absurd rfl h
  | [n], _ => by simp [scan, joinDots, scan_natStr_end]
  | n :: m :: rest, _ => by
    have ih := scan_join (m :: rest) (by simp)
    simp only [scan, List.map_cons, joinDots] at ih ⊢
    rw [scan_natStr_dot, ih]

/-! the joined text has only digits and dots -/

def isDigDot (c : Char) : Bool := isDig c || c == '.'

theorem join_chars : ∀ ns : List Nat, ∀ c ∈ joinDots (ns.map natStr), isDigDot c = true
  | [], c, h => by simp [joinDots] at h
  | [n], c, h => by
    simp only [List.map_cons, List.map_nil, joinDots] at h
    simp [isDigDot, isDig_natStr n c h]
  | n :: m :: rest, c, h => by
    simp only [List.map_cons, joinDots, List.mem_append, List.mem_cons] at h
    rcases h with h | h | h
    · simp [isDigDot, isDig_natStr n c h]
    · simp [isDigDot, h]
    · exact join_chars (m :: rest) c (by simpa [joinDots] using h)

theorem isDigDot_ne_dash (c : Char) (h : isDigDot c = true) : (c == '-') = false := by
  by_cases hc : c = '-'
  · subst hc; exact absurd h (by decide)
  · simpa using hc

theorem isDigDot_not_space (c : Char) (h : isDigDot c = true) : isPySpace c = false := by
  by_cases hd : c = '.'
  · subst hd; decide
  · have h' : c.isDigit = true := by simpa [isDigDot, isDig, hd] using h
    have h48 : 48 ≤ c.toNat := by
      have := h'; simp only [Char.isDigit, Bool.and_eq_true, decide_eq_true_eq] at this
      exact this.1
    simp only [isPySpace, Bool.or_eq_false_iff, Bool.and_eq_false_iff, decide_eq_false_iff_not]
    omega

theorem replaceDash_id (s : List Char) (h : ∀ c ∈ s, (c == '-') = false) : replaceDash s = s := by
  induction s with
  | nil => rfl
  | cons c cs ih =>
    simp only [replaceDash, h c (by simp), Bool.false_eq_true, ↓reduceIte]
    rw [ih (fun x hx => h x (by simp [hx]))]

/-! `is_correct` accepts the joined text -/

theorem run_digits (s : St) (hs : s = .d ∨ s = .a) (ds : List Char) (hd : ∀ c ∈ ds, isDig c = true)
    (rest : List Char) : run s (ds ++ rest) = run s rest := by
  induction ds with
  | nil => rfl
  | cons c cs ih =>
    have hc := hd c (by simp)
    have ih := ih (fun x hx => hd x (by simp [hx]))
    rcases hs with hs | hs <;> subst hs <;> simp [run, step, hc, isAlnum, ih]

theorem run_natStr (s0 s1 : St) (hs : (s0 = .d0 ∧ s1 = .d) ∨ (s0 = .a0 ∧ s1 = .a)) (n : Nat)
    (rest : List Char) : run s0 (natStr n ++ rest) = run s1 rest := by
  have hd := isDig_natStr n
  cases h : natStr n with
  | nil => exact absurd h (natStr_ne_nil n)
  | cons c cs =>
    rw [h] at hd
    have hc := hd c (by simp)
    have hr := fun s hs => run_digits s hs cs (fun x hx => hd x (by simp [hx])) rest
    rcases hs with ⟨h0, h1⟩ | ⟨h0, h1⟩ <;> subst h0 <;> subst h1
    · simp [run, step, hc, hr .d (Or.inl rfl)]
    · simp [run, step, hc, isAlnum, hr .a (Or.inr rfl)]

theorem run_join (s0 s1 : St) (hs : (s0 = .d0 ∧ s1 = .d) ∨ (s0 = .a0 ∧ s1 = .a)) :
    ∀ ns : List Nat, ns ≠ [] → run s0 (joinDots (ns.map natStr)) = true
  | [], h => absurd rfl h
  | [n], _ => by
    have := run_natStr s0 s1 hs n []
    simp only [List.append_nil] at this
    simp only [List.map_cons, List.map_nil, joinDots, this]
    rcases hs with ⟨_, h1⟩ | ⟨_, h1⟩ <;> subst h1 <;> rfl
  | n :: m :: rest, _ => by
    have ih := run_join .a0 .a (Or.inr ⟨rfl, rfl⟩) (m :: rest) (by simp)
    simp only [List.map_cons, joinDots] at ih ⊢
    rw [run_natStr s0 s1 hs]
    have h1 : isDig '.' = false := by decide
    have h2 : isAlnum '.' = false := by decide
    rcases hs with ⟨_, hs1⟩ | ⟨_, hs1⟩ <;> subst hs1 <;> simp [run, step, h1, h2, ih]

/-- `GemVersion(".".join(str(n) for n in ns))` succeeds and keeps the text -/
theorem gemVersion_join (ns : List Nat) :
    gemVersion (joinDots (ns.map natStr)) = .ok ⟨joinDots (ns.map natStr)⟩ := by
  have hsp : noSpace (joinDots (ns.map natStr)) = true := by
    simp only [noSpace, List.all_eq_true]
    intro c hc
    simp [isDigDot_not_space c (join_chars ns c hc)]
  have hst := strip_of_noSpace _ hsp
  have hcor : isCorrect (joinDots (ns.map natStr)) = true := by
    rw [isCorrect, hst]
    cases ns with
    | nil => rfl
    | cons n rest =>
      rw [run_join .d0 .d (Or.inl ⟨rfl, rfl⟩) (n :: rest) (by simp)]
      simp
  simp [gemVersion, hcor, hst]

/-- the segments of such a version are the numbers (`""` counts as `"0"`) -/
theorem segs_join (ns : List Nat) :
    (⟨joinDots (ns.map natStr)⟩ : Raw).segs = if ns = [] then [.num 0] else ns.map Seg.num := by
  cases ns with
  | nil => decide
  | cons n rest =>
    have hne : (joinDots ((n :: rest).map natStr)).isEmpty = false := by
      cases rest with
      | nil =>
        simp only [List.map_cons, List.map_nil, joinDots]
        cases h : natStr n with
        | nil => exact absurd h (natStr_ne_nil n)
        | cons _ _ => rfl
      | cons m r =>
        simp only [List.map_cons, joinDots]
        cases h : natStr n <;> rfl
    simp only [Raw.segs, Raw.version, hne, Bool.false_eq_true, ↓reduceIte]
    rw [replaceDash_id _ (fun c hc => isDigDot_ne_dash c (join_chars _ c hc)), scan_join _ (by simp)]
    simp

/-! the numeric head of the segments -/

theorem takeWhile_isNum (segs : List Seg) :
    segs.takeWhile Seg.isNum = (leadingNums segs).map Seg.num := by
  induction segs with
  | nil => rfl
  | cons x xs ih => cases x <;> simp [leadingNums, Seg.isNum, List.takeWhile_cons, ih]

theorem takeWhile_map_num (ns : List Nat) : (ns.map Seg.num).takeWhile Seg.isNum = ns.map Seg.num := by
  induction ns with
  | nil => rfl
  | cons n rest ih => simp [List.takeWhile_cons, Seg.isNum, ih]

theorem dropWhile_map_num (ns : List Nat) : (ns.map Seg.num).dropWhile Seg.isNum = [] := by
  induction ns with
  | nil => rfl
  | cons n rest ih => simp [List.dropWhile_cons, Seg.isNum, ih]

/-- the rest starts with a string segment, if there is a rest -/
theorem dropWhile_isNum_shape (segs : List Seg) :
    segs.dropWhile Seg.isNum = [] ∨ ∃ s t, segs.dropWhile Seg.isNum = .str s :: t := by
  induction segs with
  | nil => exact Or.inl rfl
  | cons x xs ih =>
    cases x with
    | num n => simpa [List.dropWhile_cons, Seg.isNum] using ih
    | str s => exact Or.inr ⟨s, xs, by simp [Seg.isNum]⟩

theorem dropWhile_isNum_of_any (segs : List Seg) (h : segs.any (fun s => !s.isNum) = true) :
    ∃ s t, segs.dropWhile Seg.isNum = .str s :: t := by
  induction segs with
  | nil => simp at h
  | cons x xs ih =>
    cases x with
    | num n => simpa [List.dropWhile_cons, Seg.isNum] using ih (by simpa [Seg.isNum] using h)
    | str s => exact ⟨s, xs, by simp [Seg.isNum]⟩

theorem stripZeros_str (s : List Char) (t : List Seg) : ∃ u, stripZeros (.str s :: t) = .str s :: u := by
  simp only [stripZeros]
  cases stripZeros t with
  | nil => exact ⟨[], by simp⟩
  | cons y ys => exact ⟨y :: ys, rfl⟩

theorem stripZeros_shape (segs : List Seg) :
    stripZeros (segs.dropWhile Seg.isNum) = [] ∨
      ∃ s u, stripZeros (segs.dropWhile Seg.isNum) = .str s :: u := by
  rcases dropWhile_isNum_shape segs with h | ⟨s, t, h⟩
  · rw [h]; exact Or.inl rfl
  · rw [h]; obtain ⟨u, hu⟩ := stripZeros_str s t; exact Or.inr ⟨s, u, hu⟩

theorem stripZeros_of_noTrail (l : List Seg) (h : noTrail l = true) : stripZeros l = l := by
  induction l with
  | nil => rfl
  | cons x xs ih =>
    cases xs with
    | nil =>
      have : x ≠ .num 0 := by simpa [noTrail] using h
      simp [stripZeros, this]
    | cons y ys =>
      have := ih (by simpa [noTrail] using h)
      rw [stripZeros, this]

theorem noTrail_succ (p : List Nat) (x : Nat) : noTrail ((p ++ [x + 1]).map Seg.num) = true := by
  induction p with
  | nil => simp [noTrail]
  | cons a p ih =>
    cases p with
    | nil => simp [noTrail]
    | cons b p => simpa [noTrail] using ih

theorem key_join (ns : List Nat) :
    key ⟨joinDots (ns.map natStr)⟩ = stripZeros (ns.map Seg.num) := by
  unfold key
  rw [segs_join]
  by_cases h : ns = []
  · subst h; rfl
  · simp [h, takeWhile_map_num, dropWhile_map_num, stripZeros]

theorem key_split (v : Raw) :
    key v = stripZeros ((leadingNums v.segs).map Seg.num) ++ stripZeros (v.segs.dropWhile Seg.isNum) := by
  unfold key; rw [takeWhile_isNum]

theorem padLex_append_left {α} (c : α → α → Ordering) (d : α) (hc : ∀ a, c a a = .eq)
    (A X Y : List α) : padLex c d (A ++ X) (A ++ Y) = padLex c d X Y := by
  induction A with
  | nil => rfl
  | cons a A ih => simp [padLex, hc, ih]

/-! #### `release` -/

theorem takeWhile_dropLast_of_any {α} (p : α → Bool) (l : List α) (h : l.any (fun a => !p a) = true) :
    l.dropLast.takeWhile p = l.takeWhile p := by
  induction l with
  | nil => simp at h
  | cons x xs ih =>
    by_cases hx : p x = true
    · have hxs : xs.any (fun a => !p a) = true := by simpa [hx] using h
      cases xs with
      | nil => simp at hxs
      | cons y ys =>
        rw [List.dropLast_cons_cons, List.takeWhile_cons_of_pos hx, List.takeWhile_cons_of_pos hx,
          ih hxs]
    · cases xs <;> simp [hx]

theorem takeWhile_eq_self {α} (p : α → Bool) (l : List α) (h : ∀ a ∈ l, p a = true) :
    l.takeWhile p = l := by
  induction l with
  | nil => rfl
  | cons x xs ih => simp [h x (by simp), ih (fun a ha => h a (by simp [ha]))]

theorem popLoop_eq (fuel : Nat) (segs : List Seg) (h : segs.length ≤ fuel) :
    popLoop fuel segs = segs.takeWhile Seg.isNum := by
  induction fuel generalizing segs with
  | zero =>
    have : segs = [] := List.eq_nil_of_length_eq_zero (by omega)
    subst this; rfl
  | succ k ih =>
    simp only [popLoop]
    by_cases ha : segs.any (fun s => !s.isNum) = true
    · simp only [ha, ↓reduceIte]
      rw [ih _ (by simp [List.length_dropLast]; omega), takeWhile_dropLast_of_any _ _ ha]
    · simp only [ha, Bool.false_eq_true, ↓reduceIte]
      have : ∀ s ∈ segs, s.isNum = true := by simpa using ha
      exact (takeWhile_eq_self _ _ this).symm

theorem popWhileStr_eq (segs : List Seg) : popWhileStr segs = (leadingNums segs).map Seg.num := by
  rw [popWhileStr, popLoop_eq _ _ (Nat.le_refl _), takeWhile_isNum]

/-- what `release` returns -/
theorem release_eq (v : Raw) :
    release v = .ok (if isPrerelease v then ⟨joinDots ((leadingNums v.segs).map natStr)⟩ else v) := by
  unfold release
  by_cases h : isPrerelease v = true
  · have : (popWhileStr v.segs).map Seg.text = (leadingNums v.segs).map natStr := by
      rw [popWhileStr_eq, List.map_map]; rfl
    simp only [h, ↓reduceIte, this, gemVersion_join]
  · simp [h]

/-- C18: the release has no pre-release part -/
theorem isPrerelease_release (v r : Raw) (h : release v = .ok r) : isPrerelease r = false := by
  rw [release_eq] at h
  by_cases hp : isPrerelease v = true
  · simp only [hp, ↓reduceIte, Except.ok.injEq] at h
    subst h
    simp only [isPrerelease, segs_join]
    split
    · decide
    · simp [Seg.isNum]
  · simp only [hp, Bool.false_eq_true, ↓reduceIte, Except.ok.injEq] at h
    subst h; simpa using hp

/-- a pre-release version is strictly below its release -/
theorem vercmp_release_of_prerelease (v r : Raw) (hp : isPrerelease v = true)
    (h : release v = .ok r) : vercmp v r = .lt := by
  rw [release_eq] at h
  simp only [hp, ↓reduceIte, Except.ok.injEq] at h
  subst h
  rw [vercmp_eq_key, key_join, key_split, keyCmp]
  obtain ⟨s, t, hd⟩ := dropWhile_isNum_of_any v.segs hp
  obtain ⟨u, hu⟩ := stripZeros_str s t
  rw [hd, hu]
  have := padLex_append_left segOrd (.num 0) segOrd_self
    (stripZeros ((leadingNums v.segs).map Seg.num)) (.str s :: u) []
  rw [List.append_nil] at this
  rw [this]
  simp [padLex, segOrd]

/-- C18: a version is not above its release -/
theorem vercmp_release (v r : Raw) (h : release v = .ok r) : vercmp v r ≠ .gt := by
  by_cases hp : isPrerelease v = true
  · rw [vercmp_release_of_prerelease v r hp h]; decide
  · rw [release_eq] at h
    simp only [hp, Bool.false_eq_true, ↓reduceIte, Except.ok.injEq] at h
    subst h
    rw [ReflCmp.compare_self (cmp := vercmp)]; decide

/-! #### `bump` -/

theorem incrLast_some (l ms : List Nat) (h : incrLast l = some ms) :
    ∃ p x, l = p ++ [x] ∧ ms = p ++ [x + 1] := by
  induction l generalizing ms with
  | nil => simp [incrLast] at h
  | cons n rest ih =>
    cases rest with
    | nil =>
      simp only [incrLast, Option.some.injEq] at h
      exact ⟨[], n, rfl, h.symm⟩
    | cons m rest =>
      simp only [incrLast, Option.map_eq_some_iff] at h
      obtain ⟨ms', h1, h2⟩ := h
      obtain ⟨p, x, hp, hm⟩ := ih ms' h1
      exact ⟨n :: p, x, by simp [hp], by simp [← h2, hm]⟩

theorem incrLast_ne_none (l : List Nat) (h : l ≠ []) : ∃ ms, incrLast l = some ms := by
  induction l with
  | nil => exact absurd rfl h
  | cons n rest ih =>
    cases rest with
    | nil => exact ⟨[n + 1], rfl⟩
    | cons m rest =>
      obtain ⟨ms, hms⟩ := ih (by simp)
      exact ⟨n :: ms, by simp [incrLast, hms]⟩

/-- what `bump` returns: the numeric head `p ++ x :: q` (with `q` of length ≤ 1) becomes `p ++ [x+1]` -/
theorem bump_eq (v b : Raw) (h : bump v = .ok b) :
    ∃ p x q, leadingNums v.segs = p ++ x :: q ∧ b = ⟨joinDots ((p ++ [x + 1]).map natStr)⟩ := by
  unfold bump at h
  simp only at h
  split at h
  · simp at h
  · rename_i ms hms
    rw [gemVersion_join] at h
    simp only [Except.ok.injEq] at h
    obtain ⟨p, x, hp, hm⟩ := incrLast_some _ _ hms
    by_cases hl : (leadingNums v.segs).length > 1
    · simp only [hl, ↓reduceIte] at hp
      have hne : leadingNums v.segs ≠ [] := by intro h0; rw [h0] at hl; simp at hl
      refine ⟨p, x, [(leadingNums v.segs).getLast hne], ?_, by rw [← h, hm]⟩
      have := List.dropLast_concat_getLast hne
      rw [hp] at this
      simpa using this.symm
    · simp only [hl, ↓reduceIte] at hp
      exact ⟨p, x, [], by simpa using hp, by rw [← h, hm]⟩

theorem bump_lt_aux (x : Nat) (q : List Nat) (S : List Seg)
    (hS : S = [] ∨ ∃ s u, S = .str s :: u) :
    ∀ p : List Nat, padLex segOrd (.num 0) (stripZeros ((p ++ x :: q).map Seg.num) ++ S)
      ((p ++ [x + 1]).map Seg.num) = .lt
  | [] => by
    simp only [List.nil_append, List.map_cons, List.map_nil, stripZeros]
    have hlt : compare x (x + 1) = .lt := by simp [Nat.compare_eq_lt]
    cases hq : stripZeros (q.map Seg.num) with
    | nil =>
      by_cases hx : x = 0
      · subst hx
        rcases hS with hS | ⟨s, u, hS⟩ <;> subst hS <;> simp [padLex, segOrd] <;> decide
      · have : Seg.num x ≠ .num 0 := by simpa using hx
        simp [this, padLex, segOrd, hlt]
    | cons y ys => simp [padLex, segOrd, hlt]
  | a :: p => by
    have ih := bump_lt_aux x q S hS p
    simp only [List.cons_append, List.map_cons, stripZeros]
    cases hT : stripZeros ((p ++ x :: q).map Seg.num) with
    | nil =>
      rw [hT] at ih
      by_cases ha : a = 0
      · subst ha
        simp only [↓reduceIte, List.nil_append] at ih ⊢
        rcases hS with hS | ⟨s, u, hS⟩
        · subst hS; simpa [padLex, segOrd] using ih
        · subst hS; simp [padLex, segOrd]
      · have : Seg.num a ≠ .num 0 := by simpa using ha
        simp only [this, ↓reduceIte, List.cons_append, padLex, segOrd_self, Ordering.then]
        simpa using ih
    | cons y ys =>
      rw [hT] at ih
      simp only [List.cons_append, padLex, segOrd_self, Ordering.then]
      simpa using ih

/-- C18: a version is strictly below its bump -/
theorem vercmp_bump (v b : Raw) (h : bump v = .ok b) : vercmp v b = .lt := by
  obtain ⟨p, x, q, hn, hb⟩ := bump_eq v b h
  subst hb
  rw [vercmp_eq_key, key_join, key_split, keyCmp, hn,
    stripZeros_of_noTrail _ (noTrail_succ p x)]
  refine bump_lt_aux x q _ ?_ p
  rcases stripZeros_shape v.segs with h | ⟨s, u, h⟩
  · exact Or.inl h
  · exact Or.inr ⟨s, u, h⟩

/-! `bump` and `release` succeed on everything `construct` produces -/

theorem scanFrom_digits_head (x acc : List Char) : ∃ n t, scanFrom (.digits acc) x = .num n :: t := by
  induction x generalizing acc with
  | nil => exact ⟨_, [], rfl⟩
  | cons c cs ih =>
    simp only [scanFrom]
    by_cases hd : isDig c = true
    · simpa [hd] using ih (acc ++ [c])
    · by_cases ha : isAlpha c = true
      · exact ⟨_, _, by simp [hd, ha, Run.emit]; exact ⟨rfl, rfl⟩⟩
      · exact ⟨_, _, by simp [hd, ha, Run.emit]; exact ⟨rfl, rfl⟩⟩

theorem leadingNums_ne_nil (v : Raw) (h : WellFormed v) : leadingNums v.segs ≠ [] := by
  simp only [WellFormed, wellFormed, Bool.and_eq_true] at h
  cases ho : v.original with
  | nil =>
    have : v = ⟨[]⟩ := by cases v; simp_all
    subst this; decide
  | cons c cs =>
    rw [ho] at h
    have hc := h.2
    rw [isCorrect, strip_of_noSpace _ h.1] at hc
    simp only [List.isEmpty_cons, Bool.false_or, run, step] at hc
    have hd : isDig c = true := by
      by_cases hd : isDig c = true
      · exact hd
      · simp [hd] at hc
    have hdash : (c == '-') = false := by
      by_cases hx : c = '-'
      · subst hx; exact absurd hd (by decide)
      · simpa using hx
    obtain ⟨n, t, hs⟩ := scanFrom_digits_head (replaceDash cs) [c]
    simp [Raw.segs, Raw.version, ho, replaceDash, hdash, scan, scanFrom, hd, Run.emit, hs, leadingNums]

theorem bump_ok (v : Raw) (h : WellFormed v) : ∃ b, bump v = .ok b := by
  have hne := leadingNums_ne_nil v h
  have hne' : (if (leadingNums v.segs).length > 1 then (leadingNums v.segs).dropLast
      else leadingNums v.segs) ≠ [] := by
    split
    · rename_i hl
      intro h0
      have := congrArg List.length h0
      simp [List.length_dropLast] at this
      omega
    · exact hne
  obtain ⟨ms, hms⟩ := incrLast_ne_none _ hne'
  exact ⟨_, by unfold bump; simp only [hms]; exact gemVersion_join ms⟩

theorem release_ok (v : Raw) : ∃ r, release v = .ok r := ⟨_, release_eq v⟩

example : bump ⟨"5.3.1.4-2".toList⟩ = .ok ⟨"5.3.2".toList⟩ ∧ release ⟨"1.2.0.a".toList⟩ = .ok ⟨"1.2.0".toList⟩
    ∧ bump ⟨"1.0.a".toList⟩ = .ok ⟨"2".toList⟩ := ⟨rfl, rfl, rfl⟩

end Univers.Gem
