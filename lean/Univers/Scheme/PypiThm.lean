/-
Theorems about the Layer-A model of `PypiVersion` (`packaging.version.Version`):

* `keyOp_eq_ordOp`   — the six tuple rich comparisons of the keys are the six views of one
                       three-way comparison `ckeyCmp`;
* `vercmp_eq_key`    — REFINEMENT: the order computed through `_cmpkey` (trimmed release,
                       flat 6-int suffix with ranks −1…3, `(n, "")`/`(−1, s)` local pairs,
                       3- vs 4-tuples) is the PEP 440 order of `PypiSpec`;
* `TransCmp vercmp`, `verOps_lawful` (C02), `eq_imp_hash` (C12), `str_roundtrip` (C11).
-/
import Univers.Scheme.Pypi
import Univers.Scheme.PypiSpec
import Univers.Vers.Spec

namespace Univers.Pypi

open Univers Std

/-! ### Python tuple comparison = lexicographic three-way comparison -/

theorem tupOp_eq_ordOp {α : Type} (cmp : α → α → Ordering) (eq : α → α → Bool)
    (op : Cmpr → α → α → Bool)
    (heq : ∀ x y, eq x y = (cmp x y == .eq)) (hop : ∀ c x y, op c x y = ordOp c (cmp x y))
    (c : Cmpr) (xs ys : List α) :
    tupOp eq op c xs ys = ordOp c (lexList cmp xs ys) := by
  induction xs generalizing ys with
  | nil => cases ys <;> rfl
  | cons x xs ih =>
    cases ys with
    | nil => rfl
    | cons y ys =>
      simp only [tupOp, lexList, heq, hop, ih]
      cases h : cmp x y <;> simp

theorem lexList_eq_imp {α : Type} (cmp : α → α → Ordering)
    (h : ∀ x y, cmp x y = .eq → x = y) :
    ∀ xs ys, lexList cmp xs ys = .eq → xs = ys := by
  intro xs
  induction xs with
  | nil => intro ys; cases ys <;> simp [lexList]
  | cons x xs ih =>
    intro ys
    cases ys with
    | nil => simp [lexList]
    | cons y ys =>
      simp only [lexList, Ordering.then_eq_eq]
      intro ⟨h1, h2⟩
      rw [h x y h1, ih ys h2]

theorem lexList_refl {α : Type} (cmp : α → α → Ordering) (h : ∀ x, cmp x x = .eq) :
    ∀ xs, lexList cmp xs xs = .eq := by
  intro xs
  induction xs with
  | nil => rfl
  | cons x xs ih => simp [lexList, h, ih]

theorem strCmp_eq_iff (s t : List Char) : strCmp s t = .eq ↔ s = t := by
  constructor
  · exact lexList_eq_imp compare (fun x y h => LawfulEqOrd.compare_eq_iff_eq.1 h) s t
  · intro h; subst h
    exact lexList_refl compare (fun x => ReflOrd.compare_self) s

theorem natBeq_eq (a b : Nat) : (a == b) = (compare a b == .eq) := by
  by_cases h : a = b
  · subst h; simp
  · have : compare a b ≠ .eq := fun h' => h (Nat.compare_eq_eq.1 h')
    rw [beq_eq_false_iff_ne.2 h, beq_eq_false_iff_ne.2 this]

theorem intBeq_eq (a b : Int) : (a == b) = (compare a b == .eq) := by
  by_cases h : a = b
  · subst h; simp
  · have : compare a b ≠ .eq := fun h' => h (Int.compare_eq_eq.1 h')
    rw [beq_eq_false_iff_ne.2 h, beq_eq_false_iff_ne.2 this]

theorem natTupOp (c : Cmpr) (xs ys : List Nat) :
    tupOp (· == ·) natOp c xs ys = ordOp c (lexList compare xs ys) :=
  tupOp_eq_ordOp compare _ _ natBeq_eq (fun _ _ _ => rfl) c xs ys

theorem intTupOp (c : Cmpr) (xs ys : List Int) :
    tupOp (· == ·) intOp c xs ys = ordOp c (lexList compare xs ys) :=
  tupOp_eq_ordOp compare _ _ intBeq_eq (fun _ _ _ => rfl) c xs ys

theorem pairOp_eq (c : Cmpr) (a b : Int × List Char) :
    pairOp c a b = ordOp c (lexPair compare strCmp a b) := by
  obtain ⟨a1, a2⟩ := a
  obtain ⟨b1, b2⟩ := b
  simp only [pairOp, lexPair, intOp, strOp]
  by_cases h1 : a1 = b1
  · subst h1
    by_cases h2 : a2 = b2
    · subst h2
      have : strCmp a2 a2 = .eq := (strCmp_eq_iff _ _).2 rfl
      simp [this]
    · simp [h2]
  · have : compare a1 b1 ≠ .eq := fun h' => h1 (Int.compare_eq_eq.1 h')
    simp only [bne_iff_ne, ne_eq, h1, not_false_eq_true, ↓reduceIte]
    cases h : compare a1 b1 <;> simp_all

theorem pairTupOp (c : Cmpr) (xs ys : List (Int × List Char)) :
    tupOp (pairOp .eq) pairOp c xs ys = ordOp c (lexList (lexPair compare strCmp) xs ys) :=
  tupOp_eq_ordOp (lexPair compare strCmp) _ _ (fun x y => by rw [pairOp_eq]; rfl)
    (fun c x y => pairOp_eq c x y) c xs ys

/-- the six operators on key tuples are the six views of `ckeyCmp` -/
theorem keyOp_eq_ordOp (c : Cmpr) (a b : CKey) : keyOp c a b = ordOp c (ckeyCmp a b) := by
  simp only [keyOp, ckeyCmp, natTupOp, intTupOp, pairTupOp, natOp]
  simp only [bne, natBeq_eq]
  generalize compare a.epoch b.epoch = e
  generalize lexList compare a.release b.release = r
  generalize lexList compare a.suffix b.suffix = s
  cases a.loc <;> cases b.loc
  · cases c <;> cases e <;> cases r <;> cases s <;> rfl
  · cases c <;> cases e <;> cases r <;> cases s <;> rfl
  · cases c <;> cases e <;> cases r <;> cases s <;> rfl
  · rename_i x y
    dsimp only
    generalize lexList (lexPair compare strCmp) x y = l
    cases c <;> cases e <;> cases r <;> cases s <;> cases l <;> rfl

/-! ### C02 -/

theorem valOps_lawful : Lawful valOps vercmp where
  lt a b := by simp only [valOps, keyOp_eq_ordOp]; rfl
  gt a b := by simp only [valOps, keyOp_eq_ordOp]; rfl
  eq a b := by simp only [valOps, keyOp_eq_ordOp]; rfl
  le a b := by simp only [valOps, keyOp_eq_ordOp]; rfl
  ge a b := by simp only [valOps, keyOp_eq_ordOp]; rfl
  ne a b := by simp only [valOps, keyOp_eq_ordOp]; rfl

/-- C02: the six operators of `PypiVersion` (attrs on top of packaging) are the ones induced
by the three-way order. -/
theorem verOps_lawful : Lawful verOps vercmp := by
  have h := valOps_lawful
  constructor <;> intro a b <;>
    simp only [verOps, Py.attrsOps, h.lt, h.gt, h.eq, h.le, h.ge] <;>
    cases vercmp a b <;> rfl

/-! ### REFINEMENT, part 1: the trimmed release against zero padding -/

/-- trailing zeros removed (structural twin of the index loop `trimIdx`) -/
def stripZ : List Nat → List Nat
  | [] => []
  | x :: xs =>
    match stripZ xs with
    | [] => if x = 0 then [] else [x]
    | y :: ys => x :: y :: ys

theorem stripZ_cons (x : Nat) (xs : List Nat) :
    stripZ (x :: xs) = if stripZ xs = [] then (if x = 0 then [] else [x]) else x :: stripZ xs := by
  rw [stripZ]
  cases stripZ xs <;> simp

theorem stripZ_append_singleton (l : List Nat) (x : Nat) :
    stripZ (l ++ [x]) = if x = 0 then stripZ l else l ++ [x] := by
  induction l with
  | nil => simp [stripZ]
  | cons a l ih =>
    rw [List.cons_append, stripZ_cons, ih, stripZ_cons]
    by_cases hx : x = 0
    · simp [hx]
    · simp [hx]

theorem take_trimIdx (rel : List Nat) :
    ∀ i, i ≤ rel.length → rel.take (trimIdx rel i) = stripZ (rel.take i) := by
  intro i
  induction i with
  | zero => intro _; simp [trimIdx, stripZ]
  | succ i ih =>
    intro hi
    have hlt : i < rel.length := hi
    have htake : rel.take (i + 1) = rel.take i ++ [rel[i]] := by
      rw [List.take_succ_eq_append_getElem hlt]
    have hget : rel.getD i 1 = rel[i] := by simp [List.getD, hlt]
    rw [trimIdx, hget, htake, stripZ_append_singleton]
    by_cases h0 : rel[i] = 0
    · simp only [h0, beq_self_eq_true, ↓reduceIte]
      exact ih (Nat.le_of_lt hlt)
    · have : (rel[i] == 0) = false := beq_eq_false_iff_ne.2 h0
      simp only [this, Bool.false_eq_true, ↓reduceIte, h0]
      exact htake

theorem trimmed_eq_stripZ (rel : List Nat) : trimmed rel = stripZ rel := by
  rw [trimmed, take_trimIdx rel rel.length (Nat.le_refl _), List.take_length]

theorem cmp_zero (y : Nat) : compare 0 y = if y = 0 then .eq else .lt := by
  cases y <;> simp [Nat.compare_eq_lt]

theorem cmp_zero' (x : Nat) : compare x 0 = if x = 0 then .eq else .gt := by
  cases x <;> simp [Nat.compare_eq_gt]

theorem lexList_nil_stripZ (b : List Nat) :
    lexList compare [] (stripZ b) = padLex compare 0 [] b := by
  induction b with
  | nil => simp [stripZ, lexList, padLex]
  | cons y ys ih =>
    rw [padLex, ← ih, stripZ_cons, cmp_zero]
    cases h : stripZ ys <;> by_cases hy : y = 0 <;> simp [hy, lexList]

theorem lexList_stripZ_nil (a : List Nat) :
    lexList compare (stripZ a) [] = padLex compare 0 a [] := by
  induction a with
  | nil => simp [stripZ, lexList, padLex]
  | cons x xs ih =>
    rw [padLex, ← ih, stripZ_cons, cmp_zero']
    cases h : stripZ xs <;> by_cases hx : x = 0 <;> simp [hx, lexList]

/-- comparing the trimmed releases as tuples = comparing the releases padded with zeros -/
theorem lexList_stripZ (a b : List Nat) :
    lexList compare (stripZ a) (stripZ b) = padLex compare 0 a b := by
  induction a generalizing b with
  | nil => exact lexList_nil_stripZ b
  | cons x xs ih =>
    cases b with
    | nil => exact lexList_stripZ_nil (x :: xs)
    | cons y ys =>
      rw [padLex, ← ih ys, stripZ_cons, stripZ_cons]
      cases hx : stripZ xs <;> cases hy : stripZ ys <;>
        by_cases hx0 : x = 0 <;> by_cases hy0 : y = 0 <;>
        simp [hx0, hy0, lexList, cmp_zero, cmp_zero']

/-! ### REFINEMENT, part 2: the flat 6-int suffix against phase / post / dev -/

theorem cmpCast (m n : Nat) : compare (m : Int) (n : Int) = compare m n := by
  rw [Int.compare_eq_ite_lt, Nat.compare_eq_ite_lt]
  simp only [Int.ofNat_lt]

def preRank (r : Raw) : Int :=
  if r.pre.isNone && r.post.isNone && r.dev.isSome then -1
  else match r.pre with
    | none => 3
    | some (l, _) => l.rank

def preN (r : Raw) : Int :=
  if r.pre.isNone && r.post.isNone && r.dev.isSome then 0
  else match r.pre with
    | none => 0
    | some (_, n) => n

def postRank (r : Raw) : Int := if r.post.isNone then 0 else 1
def postN (r : Raw) : Int := match r.post with | none => 0 | some n => n
def devRank (r : Raw) : Int := if r.dev.isNone then 1 else 0
def devN (r : Raw) : Int := match r.dev with | none => 0 | some n => n

/-- `_cmpkey` without its fast path -/
theorem cmpkey_eq (r : Raw) :
    cmpkey r = { epoch := r.epoch, release := trimmed r.release,
                 suffix := [preRank r, preN r, postRank r, postN r, devRank r, devN r],
                 loc := r.loc.map (fun l => l.map cmpLocalSeg) } := by
  obtain ⟨e, rel, pre, post, dev, loc⟩ := r
  cases pre <;> cases post <;> cases dev <;> cases loc <;> rfl

theorem rank_cmp (l l' : PreL) : compare l.rank l'.rank = compare l.ord l'.ord := by
  cases l <;> cases l' <;> rfl

theorem cmp_3_rank (l : PreL) : compare (3 : Int) l.rank = .gt := by cases l <;> rfl
theorem cmp_rank_3 (l : PreL) : compare l.rank (3 : Int) = .lt := by cases l <;> rfl
theorem cmp_m1_rank (l : PreL) : compare (-1 : Int) l.rank = .lt := by cases l <;> rfl
theorem cmp_rank_m1 (l : PreL) : compare l.rank (-1 : Int) = .gt := by cases l <;> rfl
theorem cmp_3_m1 : compare (3 : Int) (-1) = .gt := by decide
theorem cmp_m1_3 : compare (-1 : Int) 3 = .lt := by decide

theorem pre_pair (a b : Raw) :
    (compare (preRank a) (preRank b)).then (compare (preN a) (preN b)) =
      Phase.cmp (phase a) (phase b) := by
  obtain ⟨ea, ra, pa, poa, da, la⟩ := a
  obtain ⟨eb, rb, pb, pob, db, lb⟩ := b
  cases pa <;> cases poa <;> cases da <;> cases pb <;> cases pob <;> cases db <;>
    simp [preRank, preN, phase, Phase.cmp, cmpCast, rank_cmp, cmp_3_rank, cmp_rank_3, cmp_m1_rank,
      cmp_rank_m1, cmp_3_m1, cmp_m1_3]

theorem post_pair (a b : Raw) :
    (compare (postRank a) (postRank b)).then (compare (postN a) (postN b)) =
      optFirst compare a.post b.post := by
  obtain ⟨ea, ra, pa, poa, da, la⟩ := a
  obtain ⟨eb, rb, pb, pob, db, lb⟩ := b
  cases poa <;> cases pob <;> simp [postRank, postN, optFirst, cmpCast] <;> rfl

theorem dev_pair (a b : Raw) :
    (compare (devRank a) (devRank b)).then (compare (devN a) (devN b)) =
      optLast compare a.dev b.dev := by
  obtain ⟨ea, ra, pa, poa, da, la⟩ := a
  obtain ⟨eb, rb, pb, pob, db, lb⟩ := b
  cases da <;> cases db <;> simp [devRank, devN, optLast, cmpCast] <;> rfl

/-! ### REFINEMENT, part 3: local segments -/

theorem localSeg_cmp (s t : LSeg) :
    lexPair compare strCmp (cmpLocalSeg s) (cmpLocalSeg t) = LSeg.cmp s t := by
  cases s with
  | num m =>
    cases t with
    | num n => simp [lexPair, cmpLocalSeg, LSeg.cmp, cmpCast, strCmp, lexList]
    | str t =>
      have : compare (m : Int) (-1) = .gt := Int.compare_eq_gt.2 (by omega)
      simp [lexPair, cmpLocalSeg, LSeg.cmp, this]
  | str s =>
    cases t with
    | num n =>
      have : compare (-1 : Int) (n : Int) = .lt := Int.compare_eq_lt.2 (by omega)
      simp [lexPair, cmpLocalSeg, LSeg.cmp, this]
    | str t => simp [lexPair, cmpLocalSeg, LSeg.cmp, strCmp]

theorem local_cmp (x y : List LSeg) :
    lexList (lexPair compare strCmp) (x.map cmpLocalSeg) (y.map cmpLocalSeg) =
      lexList LSeg.cmp x y := by
  induction x generalizing y with
  | nil => cases y <;> rfl
  | cons a x ih =>
    cases y with
    | nil => rfl
    | cons b y => simp only [List.map_cons, lexList, localSeg_cmp, ih]

/-! ### REFINEMENT -/

/-- The order that `packaging` computes through `_cmpkey` and tuple comparison is the
PEP 440 order of `PypiSpec`. -/
theorem vercmp_eq_key (a b : Raw) : vercmp a b = keyCmp (key a) (key b) := by
  simp only [vercmp, ckeyCmp, cmpkey_eq, keyCmp, keyCmp', key, lexPair, trimmed_eq_stripZ,
    lexList_stripZ, lexList, Ordering.then_eq]
  rw [← pre_pair, ← post_pair, ← dev_pair]
  simp only [Ordering.then_assoc]
  congr 6
  cases a.loc <;> cases b.loc <;> simp [optFirst, local_cmp]

instance : TransCmp vercmp := by
  have h : vercmp = cmpOn key keyCmp := by
    funext a b; exact vercmp_eq_key a b
  rw [h]; infer_instance

/-! ### C12 -/

theorem ckeyCmp_eq_imp (a b : CKey) (h : ckeyCmp a b = .eq) : a = b := by
  obtain ⟨ea, ra, sa, la⟩ := a
  obtain ⟨eb, rb, sb, lb⟩ := b
  simp only [ckeyCmp, Ordering.then_eq_eq] at h
  obtain ⟨h1, h2, h3, h4⟩ := h
  have e1 : ea = eb := Nat.compare_eq_eq.1 h1
  have e2 : ra = rb := lexList_eq_imp compare (fun x y h => Nat.compare_eq_eq.1 h) _ _ h2
  have e3 : sa = sb := lexList_eq_imp compare (fun x y h => Int.compare_eq_eq.1 h) _ _ h3
  have e4 : la = lb := by
    cases la <;> cases lb <;> simp at h4 ⊢
    refine lexList_eq_imp (lexPair compare strCmp) ?_ _ _ h4
    intro x y hxy
    simp only [lexPair, Ordering.then_eq_eq] at hxy
    exact Prod.ext (Int.compare_eq_eq.1 hxy.1) ((strCmp_eq_iff _ _).1 hxy.2)
  subst e1 e2 e3 e4; rfl

/-- C12: versions that are `==` have the same hash key (`hash(v) = hash(v._key)`). -/
theorem eq_imp_hash (a b : Raw) : verOps.eq a b = true → hashKey a = hashKey b := by
  intro h
  have h' : keyOp .eq (cmpkey a) (cmpkey b) = true := h
  rw [keyOp_eq_ordOp] at h'
  exact ckeyCmp_eq_imp (cmpkey a) (cmpkey b) (by simpa [ordOp] using h')

/-! ### C11: `PypiVersion(str(v)) == v`, structurally -/

/-! #### characters -/

theorem char_range (P : Char → Bool) (lo hi : Nat)
    (hP : ∀ n, n < hi + 1 → lo ≤ n → P (Char.ofNat n) = true)
    (c : Char) (h1 : lo ≤ c.toNat) (h2 : c.toNat ≤ hi) : P c = true := by
  have := hP c.toNat (by omega) h1
  rwa [Char.ofNat_toNat] at this

theorem isDigit_range (c : Char) (h : c.isDigit = true) : 48 ≤ c.toNat ∧ c.toNat ≤ 57 := by
  simp only [Char.isDigit, Bool.and_eq_true, decide_eq_true_eq] at h
  exact ⟨h.1, h.2⟩

theorem isLower_range (c : Char) (h : c.isLower = true) : 97 ≤ c.toNat ∧ c.toNat ≤ 122 := by
  simp only [Char.isLower, Bool.and_eq_true, decide_eq_true_eq] at h
  exact ⟨h.1, h.2⟩

/-- a property checked on `'0'..'9'` holds for every digit -/
theorem digit_all (P : Char → Bool)
    (hP : ∀ n, n < 58 → 48 ≤ n → P (Char.ofNat n) = true) (c : Char) (h : c.isDigit = true) :
    P c = true :=
  char_range P 48 57 hP c (isDigit_range c h).1 (isDigit_range c h).2

/-- a property checked on `'a'..'z'` holds for every lower-case letter -/
theorem lower_all (P : Char → Bool)
    (hP : ∀ n, n < 123 → 97 ≤ n → P (Char.ofNat n) = true) (c : Char) (h : c.isLower = true) :
    P c = true :=
  char_range P 97 122 hP c (isLower_range c h).1 (isLower_range c h).2

/-- `[0-9a-z]` -/
def lowerAlnum (c : Char) : Bool := c.isDigit || c.isLower

theorem lowerAlnum_all (P : Char → Bool)
    (h1 : ∀ n, n < 58 → 48 ≤ n → P (Char.ofNat n) = true)
    (h2 : ∀ n, n < 123 → 97 ≤ n → P (Char.ofNat n) = true) (c : Char)
    (h : lowerAlnum c = true) : P c = true := by
  simp only [lowerAlnum, Bool.or_eq_true] at h
  cases h with
  | inl h => exact digit_all P h1 c h
  | inr h => exact lower_all P h2 c h

/-! #### numbers -/

theorem natStr_digit (n : Nat) : ∀ c ∈ natStr n, c.isDigit = true :=
  fun _ hc => Nat.isDigit_of_mem_toDigits (by decide) (by decide) hc

theorem natStr_ne_nil (n : Nat) : natStr n ≠ [] := Nat.toDigits_ne_nil

theorem pyInt_natStr (n : Nat) : pyInt (natStr n) = n := Nat.ofDigitChars_ten_toDigits

theorem natStr_cons (n : Nat) : ∃ d ds, natStr n = d :: ds ∧ d.isDigit = true := by
  cases h : natStr n with
  | nil => exact absurd h (natStr_ne_nil n)
  | cons d ds => exact ⟨d, ds, rfl, natStr_digit n d (by simp [h])⟩

/-! #### the generic pieces of the recogniser on concatenations -/

/-- the text is empty or starts with a character that fails `p` -/
def headNot (p : Char → Bool) : List Char → Bool
  | [] => true
  | c :: _ => !p c

theorem takeWhile_append_headNot (p : Char → Bool) (xs t : List Char)
    (hx : ∀ c ∈ xs, p c = true) (ht : headNot p t = true) :
    (xs ++ t).takeWhile p = xs ∧ (xs ++ t).dropWhile p = t := by
  rw [List.takeWhile_append_of_pos hx, List.dropWhile_append_of_pos hx]
  cases t with
  | nil => simp
  | cons c r =>
    have : p c = false := by simpa [headNot] using ht
    simp [this]

theorem digits_append (ds t : List Char) (hd : ∀ c ∈ ds, c.isDigit = true)
    (ht : headNot Char.isDigit t = true) : digits (ds ++ t) = (ds, t) := by
  have := takeWhile_append_headNot Char.isDigit ds t hd ht
  simp [digits, this.1, this.2]

/-- where `(?: SEP BODY+ )*+` stops: at the end, at a non-separator, or at a separator that
is not followed by a BODY character -/
def stops (sep body : Char → Bool) : List Char → Bool
  | [] => true
  | c :: r => !sep c || headNot body r

theorem sepRuns_stop (sep body : Char → Bool) (t : List Char) (ht : stops sep body t = true) :
    sepRuns sep body t = ([], t) := by
  cases t with
  | nil => simp [sepRuns]
  | cons c r =>
    rw [sepRuns]
    by_cases hs : sep c = true
    · have hr : headNot body r = true := by simpa [stops, hs] using ht
      have : r.takeWhile body = [] := by
        cases r with
        | nil => rfl
        | cons d r' =>
          have : body d = false := by simpa [headNot] using hr
          simp [this]
      simp [hs, this]
    · simp [hs]

theorem sepRuns_parts (sep body : Char → Bool) (sc : Char) (hs : sep sc = true)
    (hb : body sc = false) (parts : List (List Char))
    (hp : ∀ p ∈ parts, p ≠ [] ∧ ∀ c ∈ p, body c = true) (t : List Char)
    (ht1 : headNot body t = true) (ht2 : stops sep body t = true) :
    sepRuns sep body ((parts.map (sc :: ·)).flatten ++ t) = (parts, t) := by
  induction parts with
  | nil => simpa using sepRuns_stop sep body t ht2
  | cons p ps ih =>
    have hp' := hp p (by simp)
    have ih' := ih (fun q hq => hp q (by simp [hq]))
    have hrest : headNot body ((ps.map (sc :: ·)).flatten ++ t) = true := by
      cases ps with
      | nil => simpa using ht1
      | cons q qs => simp [headNot, hb]
    have htd := takeWhile_append_headNot body p _ hp'.2 hrest
    simp only [List.map_cons, List.flatten_cons, List.cons_append, List.append_assoc]
    rw [sepRuns]
    simp only [hs, ↓reduceIte, htd.1, htd.2, ih']
    cases p with
    | nil => exact absurd rfl hp'.1
    | cons x xs => rfl

theorem join_cons (x : List Char) (xs : List (List Char)) :
    join ['.'] (x :: xs) = x ++ (xs.map ('.' :: ·)).flatten := by
  induction xs generalizing x with
  | nil => simp [join]
  | cons y ys ih => rw [join, ih]; simp

/-! #### the pieces of `str` -/

def preStr : Option (PreL × Nat) → List Char
  | some (l, n) => l.text ++ natStr n
  | none => []

def postStr : Option Nat → List Char
  | some n => ".post".toList ++ natStr n
  | none => []

def devStr : Option Nat → List Char
  | some n => ".dev".toList ++ natStr n
  | none => []

def locStr : Option (List LSeg) → List Char
  | some (x :: xs) => '+' :: join ['.'] ((x :: xs).map LSeg.text)
  | _ => []

def epochStr (e : Nat) : List Char := if e != 0 then natStr e ++ ['!'] else []

theorem str_eq (r : Raw) :
    str r = epochStr r.epoch ++ (join ['.'] (r.release.map natStr) ++
      (preStr r.pre ++ (postStr r.post ++ (devStr r.dev ++ locStr r.loc)))) := by
  obtain ⟨e, rel, pre, post, dev, loc⟩ := r
  simp only [str, epochStr]
  cases pre <;> cases post <;> cases dev <;>
    (rcases loc with _ | _ | ⟨x, xs⟩) <;>
    (by_cases he : e = 0) <;>
    simp [he, preStr, postStr, devStr, locStr]

theorem digit_isSep (d : Char) (h : d.isDigit = true) : isSep d = false := by
  simpa using digit_all (fun c => !isSep c) (by decide) d h

theorem digit_toLower (d : Char) (h : d.isDigit = true) : d.toLower = d := by
  simpa using digit_all (fun c => c.toLower == c) (by decide) d h

theorem optSep_cons (c : Char) (r : List Char) :
    optSep (c :: r) = if isSep c then r else c :: r := rfl

theorem optSep_digit (d : Char) (r : List Char) (h : d.isDigit = true) :
    optSep (d :: r) = d :: r := by
  simp [optSep, digit_isSep d h]

/-- a digit does not match a letter of the pattern -/
theorem litCI_digit (p : Char) (ps : List Char) (d : Char) (r : List Char)
    (h : d.isDigit = true) (hp : p.isDigit = false) : litCI (p :: ps) (d :: r) = none := by
  have : (d == p) = false := by
    apply beq_eq_false_iff_ne.2
    intro e; subst e; simp [h] at hp
  simp [litCI, digit_toLower d h, this]

theorem headNot_postStr (post : Option Nat) (dev : Option Nat) (loc : Option (List LSeg)) :
    headNot Char.isDigit (postStr post ++ (devStr dev ++ locStr loc)) = true := by
  cases post <;> cases dev <;> (rcases loc with _ | _ | ⟨x, xs⟩) <;>
    simp [postStr, devStr, locStr, headNot]

theorem headNot_devStr (dev : Option Nat) (loc : Option (List LSeg)) :
    headNot Char.isDigit (devStr dev ++ locStr loc) = true := by
  have := headNot_postStr none dev loc
  simpa [postStr] using this

theorem headNot_locStr (loc : Option (List LSeg)) :
    headNot Char.isDigit (locStr loc) = true := by
  have := headNot_postStr none none loc
  simpa [postStr, devStr] using this

/-! #### the groups on the pieces -/

theorem pre_some (l : PreL) (n : Nat) (t : List Char) (ht : headNot Char.isDigit t = true) :
    ∃ lit, letterGroup preLits (preStr (some (l, n)) ++ t) = (some (lit, natStr n), t) ∧
      preOfLit lit = l := by
  obtain ⟨d, ds, hn, hd⟩ := natStr_cons n
  have hdig : digits (optSep (natStr n ++ t)) = (natStr n, t) := by
    rw [hn, List.cons_append, optSep_digit d _ hd, ← List.cons_append, ← hn]
    exact digits_append _ _ (natStr_digit n) ht
  have hf : ∀ (p : Char) (ps : List Char), p.isDigit = false →
      litCI (p :: ps) (natStr n ++ t) = none := by
    intro p ps hp; rw [hn, List.cons_append]; exact litCI_digit p ps d _ hd hp
  cases l
  · refine ⟨"a".toList, ?_, by decide⟩
    simp [letterGroup, preStr, PreL.text, optSep_cons, isSep, preLits, firstAlt, litCI, hf, hdig]
  · refine ⟨"b".toList, ?_, by decide⟩
    simp [letterGroup, preStr, PreL.text, optSep_cons, isSep, preLits, firstAlt, litCI, hf, hdig]
  · refine ⟨"rc".toList, ?_, by decide⟩
    simp [letterGroup, preStr, PreL.text, optSep_cons, isSep, preLits, firstAlt, litCI, hdig]

theorem pre_none (post dev : Option Nat) (loc : Option (List LSeg)) :
    letterGroup preLits (postStr post ++ (devStr dev ++ locStr loc)) =
      (none, postStr post ++ (devStr dev ++ locStr loc)) := by
  cases post <;> cases dev <;> (rcases loc with _ | _ | ⟨x, xs⟩) <;>
    simp [letterGroup, postStr, devStr, locStr, optSep, isSep, preLits, firstAlt, litCI]

theorem digits_natStr (n : Nat) (t : List Char) (ht : headNot Char.isDigit t = true) :
    digits (optSep (natStr n ++ t)) = (natStr n, t) := by
  obtain ⟨d, ds, hn, hd⟩ := natStr_cons n
  rw [hn, List.cons_append, optSep_digit d _ hd, ← List.cons_append, ← hn]
  exact digits_append _ _ (natStr_digit n) ht

theorem post_some (n : Nat) (t : List Char) (ht : headNot Char.isDigit t = true) :
    postGroup (postStr (some n) ++ t) = (some n, t) := by
  simp [postGroup, postStr, letterGroup, optSep_cons, isSep, postLits, firstAlt, litCI,
    digits_natStr n t ht, pyInt_natStr]

theorem post_none (dev : Option Nat) (loc : Option (List LSeg)) :
    postGroup (devStr dev ++ locStr loc) = (none, devStr dev ++ locStr loc) := by
  cases dev <;> (rcases loc with _ | _ | ⟨x, xs⟩) <;>
    simp [postGroup, letterGroup, devStr, locStr, optSep, isSep, postLits, firstAlt, litCI]

theorem dev_some (n : Nat) (t : List Char) (ht : headNot Char.isDigit t = true) :
    letterGroup devLits (devStr (some n) ++ t) = (some ("dev".toList, natStr n), t) := by
  simp [devStr, letterGroup, optSep_cons, isSep, devLits, firstAlt, litCI, digits_natStr n t ht]

theorem dev_none (loc : Option (List LSeg)) :
    letterGroup devLits (locStr loc) = (none, locStr loc) := by
  rcases loc with _ | _ | ⟨x, xs⟩ <;>
    simp [letterGroup, locStr, optSep, isSep, devLits, firstAlt, litCI]

/-! #### well-formed values: what `construct` produces -/

/-- a local segment as `_parse_local_version` produces it: an `int`, or a non-empty lower-case
alphanumeric string that is not all digits -/
def LSeg.wf : LSeg → Bool
  | .num _ => true
  | .str s => !s.isEmpty && s.all lowerAlnum && !s.all Char.isDigit

/-- the release has at least one component; a local version, when present, has at least one
segment and its segments are well formed -/
def wellFormed (r : Raw) : Bool :=
  !r.release.isEmpty &&
  match r.loc with
  | none => true
  | some l => !l.isEmpty && l.all LSeg.wf

theorem seg_text (seg : LSeg) (h : seg.wf = true) :
    seg.text ≠ [] ∧ (∀ c ∈ seg.text, isAlnum c = true) ∧ localSeg seg.text = seg := by
  cases seg with
  | num n =>
    refine ⟨natStr_ne_nil n, ?_, ?_⟩
    · intro c hc
      exact digit_all isAlnum (by decide) c (natStr_digit n c hc)
    · have : (natStr n).all Char.isDigit = true := List.all_eq_true.2 (natStr_digit n)
      simp [localSeg, LSeg.text, this, pyInt_natStr]
  | str s =>
    simp only [LSeg.wf, Bool.and_eq_true, Bool.not_eq_true', List.all_eq_true] at h
    obtain ⟨⟨h1, h2⟩, h3⟩ := h
    refine ⟨by simpa [LSeg.text] using h1, ?_, ?_⟩
    · intro c hc
      exact lowerAlnum_all isAlnum (by decide) (by decide) c (h2 c hc)
    · have hm : s.map Char.toLower = s := by
        have : ∀ c ∈ s, Char.toLower c = id c := by
          intro c hc
          simpa using lowerAlnum_all (fun c => c.toLower == c) (by decide) (by decide) c (h2 c hc)
        rw [List.map_congr_left this, List.map_id]
      simp [localSeg, LSeg.text, h3, hm]

theorem loc_group (loc : Option (List LSeg))
    (h : ∀ l, loc = some l → l ≠ [] ∧ ∀ seg ∈ l, seg.wf = true) :
    localGroup (locStr loc) = (loc, []) := by
  rcases loc with _ | _ | ⟨x, xs⟩
  · rfl
  · exact absurd rfl (h [] rfl).1
  · have hw := (h (x :: xs) rfl).2
    have hx := seg_text x (hw x (by simp))
    have hparts : ∀ p ∈ xs.map LSeg.text, p ≠ [] ∧ ∀ c ∈ p, isAlnum c = true := by
      intro p hp
      obtain ⟨seg, hs, rfl⟩ := List.mem_map.1 hp
      have := seg_text seg (hw seg (by simp [hs]))
      exact ⟨this.1, this.2.1⟩
    have hrest : headNot isAlnum (((xs.map LSeg.text).map ('.' :: ·)).flatten ++ []) = true := by
      cases xs <;> simp [headNot, isAlnum]
    have htd := takeWhile_append_headNot isAlnum x.text _ hx.2.1 hrest
    have hruns := sepRuns_parts isSep isAlnum '.' (by decide) (by decide) (xs.map LSeg.text) hparts []
      rfl rfl
    simp only [List.append_nil] at htd hruns
    simp only [locStr, List.map_cons, join_cons, localGroup, htd.1, htd.2, hruns]
    cases hxt : x.text with
    | nil => exact absurd hxt hx.1
    | cons c cs =>
      have hmap : xs.map (localSeg ∘ LSeg.text) = xs := by
        have : ∀ s ∈ xs, (localSeg ∘ LSeg.text) s = id s := fun s hs => (seg_text s (hw s (by simp [hs]))).2.2
        rw [List.map_congr_left this, List.map_id]
      simp [← hxt, hx.2.2, hmap]

/-! #### the stages in one form -/

theorem pre_stage (pre : Option (PreL × Nat)) (post dev : Option Nat) (loc : Option (List LSeg)) :
    ∃ g, letterGroup preLits (preStr pre ++ (postStr post ++ (devStr dev ++ locStr loc))) =
        (g, postStr post ++ (devStr dev ++ locStr loc)) ∧
      g.map (fun p => (preOfLit p.1, pyInt p.2)) = pre := by
  cases pre with
  | none => exact ⟨none, by simpa [preStr] using pre_none post dev loc, rfl⟩
  | some p =>
    obtain ⟨l, n⟩ := p
    obtain ⟨lit, h1, h2⟩ := pre_some l n _ (headNot_postStr post dev loc)
    exact ⟨_, h1, by simp [h2, pyInt_natStr]⟩

theorem post_stage (post dev : Option Nat) (loc : Option (List LSeg)) :
    postGroup (postStr post ++ (devStr dev ++ locStr loc)) = (post, devStr dev ++ locStr loc) := by
  cases post with
  | none => simpa [postStr] using post_none dev loc
  | some n => exact post_some n _ (headNot_devStr dev loc)

theorem dev_stage (dev : Option Nat) (loc : Option (List LSeg)) :
    ∃ g, letterGroup devLits (devStr dev ++ locStr loc) = (g, locStr loc) ∧
      g.map (fun p => pyInt p.2) = dev := by
  cases dev with
  | none => exact ⟨none, by simpa [devStr] using dev_none loc, rfl⟩
  | some n => exact ⟨_, dev_some n _ (headNot_locStr loc), by simp [pyInt_natStr]⟩

/-- the text after the release: where the release loop stops -/
theorem tail_facts (pre : Option (PreL × Nat)) (post dev : Option Nat) (loc : Option (List LSeg)) :
    headNot Char.isDigit (preStr pre ++ (postStr post ++ (devStr dev ++ locStr loc))) = true ∧
    stops (· == '.') Char.isDigit (preStr pre ++ (postStr post ++ (devStr dev ++ locStr loc))) = true ∧
    headNot (· == '!') (preStr pre ++ (postStr post ++ (devStr dev ++ locStr loc))) = true := by
  cases pre with
  | some p =>
    obtain ⟨l, n⟩ := p
    cases l <;> simp [preStr, PreL.text, headNot, stops]
  | none =>
    cases post <;> cases dev <;> (rcases loc with _ | _ | ⟨x, xs⟩) <;>
      simp [preStr, postStr, devStr, locStr, headNot, stops]

/-! #### the regex path on `str r` -/

/-- release and suffixes of `str r` -/
def relStr (r : Raw) : List Char :=
  join ['.'] (r.release.map natStr) ++
    (preStr r.pre ++ (postStr r.post ++ (devStr r.dev ++ locStr r.loc)))

theorem wf_loc (r : Raw) (h : wellFormed r = true) :
    ∀ l, r.loc = some l → l ≠ [] ∧ ∀ seg ∈ l, seg.wf = true := by
  intro l hl
  simp only [wellFormed, hl, Bool.and_eq_true, Bool.not_eq_true', List.all_eq_true] at h
  exact ⟨by simpa using h.2.1, h.2.2⟩

theorem wf_release (r : Raw) (h : wellFormed r = true) : ∃ x xs, r.release = x :: xs := by
  simp only [wellFormed, Bool.and_eq_true, Bool.not_eq_true'] at h
  cases hr : r.release with
  | nil => simp [hr] at h
  | cons x xs => exact ⟨x, xs, rfl⟩

theorem regexRest_relStr (ep : Nat) (r : Raw) (h : wellFormed r = true) :
    regexRest ep (relStr r) = some { r with epoch := ep } := by
  obtain ⟨x, xs, hrel⟩ := wf_release r h
  have hloc := loc_group r.loc (wf_loc r h)
  obtain ⟨e, rel, pre, post, dev, loc⟩ := r
  simp only at hrel hloc
  subst hrel
  obtain ⟨tf1, tf2, _⟩ := tail_facts pre post dev loc
  obtain ⟨g1, hp1, hp2⟩ := pre_stage pre post dev loc
  obtain ⟨g3, hd1, hd2⟩ := dev_stage dev loc
  have hparts : ∀ p ∈ xs.map natStr, p ≠ [] ∧ ∀ c ∈ p, Char.isDigit c = true := by
    intro p hp
    obtain ⟨n, _, rfl⟩ := List.mem_map.1 hp
    exact ⟨natStr_ne_nil n, natStr_digit n⟩
  have hruns := sepRuns_parts (· == '.') Char.isDigit '.' (by decide) (by decide)
    (xs.map natStr) hparts _ tf1 tf2
  have hflat : headNot Char.isDigit (((xs.map natStr).map ('.' :: ·)).flatten ++
      (preStr pre ++ (postStr post ++ (devStr dev ++ locStr loc)))) = true := by
    cases xs with
    | nil => simpa using tf1
    | cons y ys => simp [headNot]
  have hdig := digits_append (natStr x) _ (natStr_digit x) hflat
  have hne : (natStr x).isEmpty = false := by
    cases hx : natStr x with
    | nil => exact absurd hx (natStr_ne_nil x)
    | cons _ _ => rfl
  have hmap : (xs.map natStr).map pyInt = xs := by
    rw [List.map_map]
    have : ∀ n ∈ xs, (pyInt ∘ natStr) n = id n := fun n _ => pyInt_natStr n
    rw [List.map_congr_left this, List.map_id]
  simp only [relStr, List.map_cons, join_cons, List.append_assoc, regexRest, hdig, hne,
    Bool.false_eq_true, ↓reduceIte, hruns, hp1, post_stage, hd1, hloc, List.dropWhile_nil,
    List.isEmpty_nil, hp2, hd2, pyInt_natStr, hmap]

theorem str_eq' (r : Raw) : str r = epochStr r.epoch ++ relStr r := str_eq r

theorem relStr_head (r : Raw) (h : wellFormed r = true) :
    ∃ ds t, ds ≠ [] ∧ (∀ c ∈ ds, c.isDigit = true) ∧ relStr r = ds ++ t ∧
      headNot Char.isDigit t = true ∧ headNot (· == '!') t = true := by
  obtain ⟨x, xs, hrel⟩ := wf_release r h
  obtain ⟨tf1, _, tf3⟩ := tail_facts r.pre r.post r.dev r.loc
  refine ⟨natStr x, ((xs.map natStr).map ('.' :: ·)).flatten ++
    (preStr r.pre ++ (postStr r.post ++ (devStr r.dev ++ locStr r.loc))),
    natStr_ne_nil x, natStr_digit x, ?_, ?_, ?_⟩
  · simp only [relStr, hrel, List.map_cons, join_cons, List.append_assoc]
  · cases xs with
    | nil => simpa using tf1
    | cons y ys => simp [headNot]
  · cases xs with
    | nil => simpa using tf3
    | cons y ys => simp [headNot]

theorem head?_ne_bang (t : List Char) (h : headNot (· == '!') t = true) :
    (t.head? == some '!') = false := by
  cases t with
  | nil => rfl
  | cons c r =>
    have : c ≠ '!' := by simpa [headNot] using h
    simp [this]

theorem isEmpty_false_of_ne_nil {α} (l : List α) (h : l ≠ []) : l.isEmpty = false := by
  cases l with
  | nil => exact absurd rfl h
  | cons _ _ => rfl

theorem regexBody_str (r : Raw) (h : wellFormed r = true) : regexBody (str r) = some r := by
  obtain ⟨ds, t, hds, hdig, hrs, ht1, ht2⟩ := relStr_head r h
  rw [str_eq', epochStr]
  by_cases he : r.epoch = 0
  · have hd := digits_append ds t hdig ht1
    simp only [he, bne_self_eq_false, Bool.false_eq_true, ↓reduceIte, List.nil_append, regexBody]
    rw [hrs, hd]
    simp only [head?_ne_bang t ht2, Bool.and_false, Bool.false_eq_true, ↓reduceIte]
    rw [← hrs, regexRest_relStr 0 r h, ← he]
  · have hne : (r.epoch != 0) = true := by simpa using he
    have hd := digits_append (natStr r.epoch) ('!' :: relStr r) (natStr_digit _) (by simp [headNot])
    simp only [hne, ↓reduceIte, List.append_assoc, List.cons_append, List.nil_append, regexBody, hd,
      isEmpty_false_of_ne_nil _ (natStr_ne_nil r.epoch), List.head?_cons, beq_self_eq_true,
      Bool.not_false, Bool.and_self, List.tail_cons, pyInt_natStr]
    rw [regexRest_relStr r.epoch r h]

theorem str_head (r : Raw) (h : wellFormed r = true) :
    ∃ d rest, str r = d :: rest ∧ d.isDigit = true := by
  obtain ⟨ds, t, hds, hdig, hrs, _, _⟩ := relStr_head r h
  rw [str_eq', epochStr]
  by_cases he : r.epoch = 0
  · cases ds with
    | nil => exact absurd rfl hds
    | cons d ds' =>
      exact ⟨d, ds' ++ t, by simp [he, hrs], hdig d (by simp)⟩
  · obtain ⟨d, ds', hn, hd⟩ := natStr_cons r.epoch
    have hne : (r.epoch != 0) = true := by simpa using he
    exact ⟨d, _, by simp only [hne, ↓reduceIte, hn, List.cons_append]; rfl, hd⟩

theorem regexParse_str (r : Raw) (h : wellFormed r = true) : regexParse (str r) = some r := by
  obtain ⟨d, rest, hs, hd⟩ := str_head r h
  have h1 : isSpace d = false := by simpa using digit_all (fun c => !isSpace c) (by decide) d hd
  have h2 : (d.toLower == 'v') = false := by
    simpa using digit_all (fun c => !(c.toLower == 'v')) (by decide) d hd
  rw [regexParse, hs, List.dropWhile_cons_of_neg (by simp [h1]), optV]
  simp only [h2, Bool.false_eq_true, ↓reduceIte]
  rw [← hs]; exact regexBody_str r h

/-! #### `normalize` leaves `str r` alone -/

theorem mem_join (c : Char) (ps : List (List Char)) (h : c ∈ join ['.'] ps) :
    c = '.' ∨ ∃ p ∈ ps, c ∈ p := by
  cases ps with
  | nil => simp [join] at h
  | cons x xs =>
    rw [join_cons] at h
    simp only [List.mem_append, List.mem_flatten, List.mem_map] at h
    rcases h with h | ⟨l, ⟨q, hq, rfl⟩, hc⟩
    · exact .inr ⟨x, by simp, h⟩
    · simp only [List.mem_cons] at hc
      rcases hc with rfl | hc
      · exact .inl rfl
      · exact .inr ⟨q, by simp [hq], hc⟩

theorem seg_noSpace (seg : LSeg) (h : seg.wf = true) : ∀ c ∈ seg.text, isSpace c = false := by
  intro c hc
  cases seg with
  | num n => simpa using digit_all (fun c => !isSpace c) (by decide) c (natStr_digit n c hc)
  | str s =>
    simp only [LSeg.wf, Bool.and_eq_true, List.all_eq_true] at h
    simpa using lowerAlnum_all (fun c => !isSpace c) (by decide) (by decide) c (h.1.2 c hc)

theorem natStr_noSpace (n : Nat) : ∀ c ∈ natStr n, isSpace c = false := fun c hc => by
  simpa using digit_all (fun c => !isSpace c) (by decide) c (natStr_digit n c hc)

theorem str_noSpace (r : Raw) (h : wellFormed r = true) : ∀ c ∈ str r, isSpace c = false := by
  have hloc := wf_loc r h
  obtain ⟨e, rel, pre, post, dev, loc⟩ := r
  intro c hc
  rw [str_eq] at hc
  simp only [List.mem_append] at hc
  rcases hc with hc | hc | hc | hc | hc | hc
  · simp only [epochStr] at hc
    split at hc
    · simp only [List.mem_append, List.mem_singleton] at hc
      rcases hc with hc | rfl
      · exact natStr_noSpace _ c hc
      · decide
    · simp at hc
  · rcases mem_join c _ hc with rfl | ⟨p, hp, hcp⟩
    · decide
    · obtain ⟨n, _, rfl⟩ := List.mem_map.1 hp
      exact natStr_noSpace _ c hcp
  · cases pre with
    | none => simp [preStr] at hc
    | some p =>
      obtain ⟨l, n⟩ := p
      simp only [preStr, List.mem_append] at hc
      rcases hc with hc | hc
      · cases l <;> simp [PreL.text] at hc <;> (try rcases hc with rfl | rfl) <;> (try subst hc) <;> decide
      · exact natStr_noSpace _ c hc
  · cases post with
    | none => simp [postStr] at hc
    | some n =>
      simp only [postStr, List.mem_append] at hc
      rcases hc with hc | hc
      · simp at hc; rcases hc with rfl | rfl | rfl | rfl | rfl <;> decide
      · exact natStr_noSpace _ c hc
  · cases dev with
    | none => simp [devStr] at hc
    | some n =>
      simp only [devStr, List.mem_append] at hc
      rcases hc with hc | hc
      · simp at hc; rcases hc with rfl | rfl | rfl | rfl <;> decide
      · exact natStr_noSpace _ c hc
  · rcases loc with _ | _ | ⟨x, xs⟩
    · simp [locStr] at hc
    · simp [locStr] at hc
    · simp only [locStr, List.mem_cons] at hc
      rcases hc with rfl | hc
      · decide
      · rcases mem_join c _ hc with rfl | ⟨p, hp, hcp⟩
        · decide
        · obtain ⟨seg, hseg, rfl⟩ := List.mem_map.1 hp
          exact seg_noSpace seg ((hloc _ rfl).2 seg hseg) c hcp

theorem normalize_str (r : Raw) (h : wellFormed r = true) : normalize (str r) = str r := by
  have h1 : removeSpaces (str r) = str r := by
    rw [removeSpaces, List.filter_eq_self]
    intro c hc; simp [str_noSpace r h c hc]
  obtain ⟨d, rest, hs, hd⟩ := str_head r h
  have h2 : (d == 'v' || d == 'V') = false := by
    simpa using digit_all (fun c => !(c == 'v' || c == 'V')) (by decide) d hd
  rw [normalize, h1, hs, lstripV, List.dropWhile_cons_of_neg (by simp [h2])]

/-! #### the fast path -/

theorem splitOnChar_ne_nil (d : Char) (s : List Char) : splitOnChar d s ≠ [] := by
  induction s with
  | nil => simp [splitOnChar]
  | cons c cs ih =>
    rw [splitOnChar]
    split
    · simp
    · split <;> simp

theorem split_append (p t : List Char) (hp : ∀ c ∈ p, c ≠ '.') :
    ∃ q qs, splitOnChar '.' t = q :: qs ∧ splitOnChar '.' (p ++ t) = (p ++ q) :: qs := by
  induction p with
  | nil =>
    cases h : splitOnChar '.' t with
    | nil => exact absurd h (splitOnChar_ne_nil _ _)
    | cons q qs => exact ⟨q, qs, rfl, by simp [h]⟩
  | cons c cs ih =>
    obtain ⟨q, qs, h1, h2⟩ := ih (fun x hx => hp x (by simp [hx]))
    have hc : (c == '.') = false := beq_eq_false_iff_ne.2 (hp c (by simp))
    refine ⟨q, qs, h1, ?_⟩
    rw [List.cons_append, splitOnChar]
    simp [hc, h2]

theorem split_join (p : List Char) (ps : List (List Char))
    (h : ∀ q ∈ p :: ps, ∀ c ∈ q, c ≠ '.') :
    splitOnChar '.' (join ['.'] (p :: ps)) = p :: ps := by
  induction ps generalizing p with
  | nil =>
    obtain ⟨q, qs, h1, h2⟩ := split_append p [] (h p (by simp))
    simp only [splitOnChar, List.cons.injEq] at h1
    obtain ⟨rfl, rfl⟩ := h1
    simpa [join] using h2
  | cons p' ps ih =>
    have ih' := ih p' (fun q hq => h q (by simp only [List.mem_cons] at hq ⊢; exact .inr hq))
    obtain ⟨q, qs, h1, h2⟩ := split_append p ('.' :: join ['.'] (p' :: ps)) (h p (by simp))
    rw [splitOnChar] at h1
    simp only [beq_self_eq_true, ↓reduceIte, ih', List.cons.injEq] at h1
    rw [join]
    simp only [List.append_assoc, List.singleton_append]
    rw [h2, ← h1.1, ← h1.2]; simp

theorem natStr_simple (n : Nat) : ∀ c ∈ natStr n, (c == '.' || c.isDigit) = true ∧ c ≠ '.' := by
  intro c hc
  have hd := natStr_digit n c hc
  refine ⟨by simp [hd], ?_⟩
  intro e; subst e; simp at hd

/-- no epoch, no suffix, no local version: `str` is digits and dots -/
def plain (r : Raw) : Bool :=
  r.epoch == 0 && r.pre.isNone && r.post.isNone && r.dev.isNone && r.loc.isNone

theorem pkgVersion_plain (r : Raw) (h : wellFormed r = true) (hp : plain r = true) :
    pkgVersion (str r) = some r := by
  obtain ⟨x, xs, hrel⟩ := wf_release r h
  obtain ⟨e, rel, pre, post, dev, loc⟩ := r
  simp only [plain, Bool.and_eq_true, beq_iff_eq, Option.isNone_iff_eq_none] at hp
  obtain ⟨⟨⟨⟨rfl, rfl⟩, rfl⟩, rfl⟩, rfl⟩ := hp
  simp only at hrel; subst hrel
  have hs : str ⟨0, x :: xs, none, none, none, none⟩ = join ['.'] ((x :: xs).map natStr) := by
    simp [str]
  have hall : (join ['.'] ((x :: xs).map natStr)).all (fun c => c == '.' || c.isDigit) = true := by
    rw [List.all_eq_true]
    intro c hc
    rcases mem_join c _ hc with rfl | ⟨p, hp, hcp⟩
    · rfl
    · obtain ⟨n, _, rfl⟩ := List.mem_map.1 hp
      exact (natStr_simple n c hcp).1
  have hsplit : splitOnChar '.' (join ['.'] ((x :: xs).map natStr)) = (x :: xs).map natStr := by
    rw [List.map_cons]
    apply split_join
    intro q hq c hc
    rw [← List.map_cons] at hq
    obtain ⟨n, _, rfl⟩ := List.mem_map.1 hq
    exact (natStr_simple n c hc).2
  have hany : ((x :: xs).map natStr).any List.isEmpty = false := by
    rw [List.any_eq_false]
    intro p hp
    obtain ⟨n, _, rfl⟩ := List.mem_map.1 hp
    simp [isEmpty_false_of_ne_nil _ (natStr_ne_nil n)]
  have hmap : ((x :: xs).map natStr).map pyInt = x :: xs := by
    rw [List.map_map]
    have : ∀ n ∈ x :: xs, (pyInt ∘ natStr) n = id n := fun n _ => pyInt_natStr n
    rw [List.map_congr_left this, List.map_id]
  rw [hs, pkgVersion]
  simp only [hall, ↓reduceIte, hsplit, hany, Bool.false_eq_true, hmap]

theorem not_simple (r : Raw) (h : wellFormed r = true) (hp : plain r = false) :
    (str r).all (fun c => c == '.' || c.isDigit) = false := by
  have hloc := wf_loc r h
  obtain ⟨e, rel, pre, post, dev, loc⟩ := r
  rw [str_eq]
  simp only [List.all_append]
  by_cases he : e = 0
  · cases pre with
    | some p => obtain ⟨l, n⟩ := p; cases l <;> simp [preStr, PreL.text]
    | none =>
      cases post with
      | some n => simp [postStr]
      | none =>
        cases dev with
        | some n => simp [devStr]
        | none =>
          rcases loc with _ | _ | ⟨y, ys⟩
          · simp [plain, he] at hp
          · exact absurd rfl (hloc [] rfl).1
          · simp [locStr]
  · have hne : (e != 0) = true := by simpa using he
    simp [epochStr, hne]

/-- C11: `str` is parsed back to the same value — `PypiVersion(str(v)).value` has exactly the
fields of `v.value` — for every well-formed value. -/
theorem str_roundtrip (r : Raw) (h : wellFormed r = true) : construct (str r) = .ok r := by
  rw [construct, normalize_str r h]
  by_cases hp : plain r = true
  · rw [pkgVersion_plain r h hp]
  · have hp' : plain r = false := by simpa using hp
    rw [pkgVersion, not_simple r h hp']
    simp only [Bool.false_eq_true, ↓reduceIte, regexParse_str r h]

example : wellFormed ⟨1, [1, 0], some (.rc, 2), some 3, some 4, some [.str "ubuntu".toList, .num 1]⟩ = true := by
  decide

/-! #### `construct` only produces well-formed values -/

theorem mem_takeWhile (p : Char → Bool) (l : List Char) : ∀ c ∈ l.takeWhile p, p c = true := by
  have := List.all_takeWhile (p := p) (l := l)
  exact List.all_eq_true.1 this

theorem sepRuns_wf (sep body : Char → Bool) (s : List Char) :
    ∀ p ∈ (sepRuns sep body s).1, p ≠ [] ∧ ∀ c ∈ p, body c = true := by
  fun_induction sepRuns sep body s with
  | case1 => simp
  | case2 c r hs ht => simp
  | case3 c r hs x xs ht res ih =>
    intro p hp
    simp only [List.mem_cons] at hp
    rcases hp with rfl | hp
    · exact ⟨by simp, by rw [← ht]; exact mem_takeWhile body r⟩
    · exact ih p hp
  | case4 c r hs => simp

theorem alnum_lower (c : Char) (h : isAlnum c = true) :
    lowerAlnum c.toLower = true ∧ c.toLower.isDigit = c.isDigit := by
  simp only [isAlnum, Char.isAlphanum, Char.isAlpha, Bool.or_eq_true] at h
  rcases h with (h | h) | h
  · have hr : 65 ≤ c.toNat ∧ c.toNat ≤ 90 := by
      simp only [Char.isUpper, decide_eq_true_eq] at h
      exact ⟨h.1, h.2⟩
    have := char_range (fun c => lowerAlnum c.toLower && (c.toLower.isDigit == c.isDigit)) 65 90
      (by decide) c hr.1 hr.2
    simpa using this
  · have := lower_all (fun c => lowerAlnum c.toLower && (c.toLower.isDigit == c.isDigit))
      (by decide) c h
    simpa using this
  · have := digit_all (fun c => lowerAlnum c.toLower && (c.toLower.isDigit == c.isDigit))
      (by decide) c h
    simpa using this

theorem localSeg_wf (part : List Char) (h1 : part ≠ []) (h2 : ∀ c ∈ part, isAlnum c = true) :
    (localSeg part).wf = true := by
  rw [localSeg]
  split
  · rfl
  · rename_i hnd
    simp only [LSeg.wf, Bool.and_eq_true, Bool.not_eq_true', List.all_eq_true, List.mem_map]
    refine ⟨⟨by simpa using h1, ?_⟩, ?_⟩
    · rintro c ⟨d, hd, rfl⟩
      exact (alnum_lower d (h2 d hd)).1
    · cases hm : (part.map Char.toLower).all Char.isDigit with
      | false => rfl
      | true =>
        exfalso; apply hnd
        rw [List.all_eq_true] at hm ⊢
        intro d hd
        rw [← (alnum_lower d (h2 d hd)).2]
        exact hm _ (List.mem_map.2 ⟨d, hd, rfl⟩)

theorem localGroup_wf (s : List Char) :
    ∀ l, (localGroup s).1 = some l → l ≠ [] ∧ ∀ seg ∈ l, seg.wf = true := by
  intro l hl
  unfold localGroup at hl
  split at hl
  · rename_i r
    split at hl
    · simp at hl
    · rename_i x xs ht
      simp only [Option.some.injEq] at hl
      subst hl
      refine ⟨by simp, ?_⟩
      intro seg hseg
      obtain ⟨p, hp, rfl⟩ := List.mem_map.1 hseg
      simp only [List.mem_cons] at hp
      rcases hp with rfl | hp
      · exact localSeg_wf _ (by simp) (by rw [← ht]; exact mem_takeWhile isAlnum r)
      · have := sepRuns_wf isSep isAlnum _ p hp
        exact localSeg_wf p this.1 this.2
  · simp at hl

theorem construct_wellFormed (s : List Char) (r : Raw) (h : construct s = .ok r) :
    wellFormed r = true := by
  simp only [construct] at h
  split at h
  · rename_i r' hr
    simp only [Except.ok.injEq] at h
    subst h
    simp only [pkgVersion] at hr
    split at hr
    · split at hr
      · simp at hr
      · simp only [Option.some.injEq] at hr
        subst hr
        have := splitOnChar_ne_nil '.' (normalize s)
        cases hsp : splitOnChar '.' (normalize s) with
        | nil => exact absurd hsp this
        | cons _ _ => simp [wellFormed]
    · simp only [regexParse, regexBody] at hr
      have key : ∀ ep t, regexRest ep t = some r' → wellFormed r' = true := by
        intro ep t ht
        simp only [regexRest] at ht
        split at ht
        · simp at ht
        · split at ht
          · simp only [Option.some.injEq] at ht
            subst ht
            simp only [wellFormed, List.map_cons, List.isEmpty_cons, Bool.not_false, Bool.true_and]
            split
            · rfl
            · rename_i l hl
              have := localGroup_wf _ l hl
              simp only [Bool.and_eq_true, Bool.not_eq_true', List.all_eq_true]
              exact ⟨isEmpty_false_of_ne_nil _ this.1, this.2⟩
          · simp at ht
      split at hr
      · exact key _ _ hr
      · exact key _ _ hr
  · simp at h

/-! ### the converse of C12, and the findings that are not law violations -/

theorem ckeyCmp_refl (a : CKey) : ckeyCmp a a = .eq := by
  obtain ⟨e, r, s, l⟩ := a
  have h1 : lexList compare r r = .eq := lexList_refl compare (fun x => Nat.compare_eq_eq.2 rfl) r
  have h2 : lexList compare s s = .eq := lexList_refl compare (fun x => Int.compare_eq_eq.2 rfl) s
  simp only [ckeyCmp, Nat.compare_eq_eq.2 rfl, h1, h2]
  cases l with
  | none => rfl
  | some l =>
    refine lexList_refl _ (fun x => ?_) l
    simp [lexPair, (strCmp_eq_iff x.2 x.2).2 rfl]

/-- `==` is exactly equality of the hash keys -/
theorem hash_imp_eq (a b : Raw) (h : hashKey a = hashKey b) : verOps.eq a b = true := by
  show keyOp .eq (cmpkey a) (cmpkey b) = true
  have h' : cmpkey a = cmpkey b := h
  rw [keyOp_eq_ordOp, h', ckeyCmp_refl]; rfl

/-- the same order under every spelling PEP 440 calls equal, e.g. `1.0 == 1.0.0`,
`1.0-1 == 1.0.post1`; distinct `Raw` values can be `==` (trailing zeros only) -/
example : vercmp ⟨0, [1, 0], none, none, none, none⟩ ⟨0, [1, 0, 0], none, none, none, none⟩ = .eq := by
  decide

/-! ### findings (not law violations)

`Version.normalize` removes ALL white space and every leading `v`/`V` before `packaging` sees
the text, so `PypiVersion` accepts spellings that `packaging.version.Version` itself rejects. -/

/-- `PypiVersion("vV 1 . 0 rc")` is the version `1.0rc0` … -/
theorem lenient_normalize :
    pkgVersion (normalize "vV 1 . 0 rc".toList) =
      some ⟨0, [1, 0], some (.rc, 0), none, none, none⟩ := by decide +kernel

/-- … although `packaging.version.Version("1 . 0")` and `Version("vV1")` are `InvalidVersion` -/
theorem packaging_rejects : pkgVersion "1 . 0".toList = none ∧ pkgVersion "vV1".toList = none := by
  decide +kernel

/-- the pattern itself accepts a dangling separator after a pre/post/dev letter:
`Version("1.0a.") == Version("1.0a0")`, `Version("1.0post-") == Version("1.0.post0")` -/
theorem dangling_separator :
    pkgVersion "1.0a.".toList = some ⟨0, [1, 0], some (.a, 0), none, none, none⟩ ∧
    pkgVersion "1.0post-".toList = some ⟨0, [1, 0], none, some 0, none, none⟩ := by
  decide +kernel

end Univers.Pypi
