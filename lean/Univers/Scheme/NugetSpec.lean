/-
Spec of the NuGet order (NuGet.Versioning `VersionComparer`, SemVer 2.0 §11 with a fourth
`revision` number):

* `(major, minor, patch, revision)` compare numerically, left to right;
* then a release (no pre-release labels) is above every pre-release;
* two pre-releases compare label by label: numeric labels numerically, a numeric label below an
  alphanumeric one, alphanumeric labels as case-folded strings; when one list of labels is a
  prefix of the other the shorter one is lower;
* build metadata is ignored.

NuGet folds case with `StringComparer.OrdinalIgnoreCase` (upper-casing); on the label alphabet
`[0-9A-Za-z-]` this orders exactly as lower-casing does (`foldLower_eq_foldUpper` in NugetThm),
which is the folding used in the key.
-/
import Univers.Scheme.Nuget

namespace Univers.Nuget

open Std Univers

/-! ### comparators with an extra element -/

/-- `none` is the greatest element -/
def optTop {α : Type} (cmp : α → α → Ordering) : Option α → Option α → Ordering
  | none, none => .eq
  | none, some _ => .gt
  | some _, none => .lt
  | some a, some b => cmp a b

/-- `none` is the least element -/
def optBot {α : Type} (cmp : α → α → Ordering) : Option α → Option α → Ordering
  | none, none => .eq
  | none, some _ => .lt
  | some _, none => .gt
  | some a, some b => cmp a b

instance optTop.instOriented {α} (cmp : α → α → Ordering) [OrientedCmp cmp] :
    OrientedCmp (optTop cmp) where
  eq_swap := by
    intro a b
    cases a <;> cases b <;> simp [optTop]
    exact OrientedCmp.eq_swap

instance optTop.instTrans {α} (cmp : α → α → Ordering) [TransCmp cmp] : TransCmp (optTop cmp) where
  isLE_trans := by
    intro a b c
    cases a <;> cases b <;> cases c <;> simp [optTop, Ordering.isLE]
    exact TransCmp.isLE_trans

instance optBot.instOriented {α} (cmp : α → α → Ordering) [OrientedCmp cmp] :
    OrientedCmp (optBot cmp) where
  eq_swap := by
    intro a b
    cases a <;> cases b <;> simp [optBot]
    exact OrientedCmp.eq_swap

instance optBot.instTrans {α} (cmp : α → α → Ordering) [TransCmp cmp] : TransCmp (optBot cmp) where
  isLE_trans := by
    intro a b c
    cases a <;> cases b <;> cases c <;> simp [optBot, Ordering.isLE]
    exact TransCmp.isLE_trans

/-! ### labels -/

/-- a pre-release label -/
inductive Ident where
  | num (n : Nat)
  | alnum (s : List Char)
  deriving DecidableEq, Repr

def natCmp' : Nat → Nat → Ordering := fun a b => compare a b

def charsCmp : List Char → List Char → Ordering := lexList (fun (a b : Char) => compare a b)

/-- numeric labels numerically and below alphanumeric ones; alphanumeric labels as strings -/
def identCmp : Ident → Ident → Ordering
  | .num a, .num b => compare a b
  | .num _, .alnum _ => .lt
  | .alnum _, .num _ => .gt
  | .alnum a, .alnum b => charsCmp a b

instance : OrientedCmp identCmp where
  eq_swap := by
    intro a b
    cases a <;> cases b <;> simp [identCmp, charsCmp]
    · exact OrientedCmp.eq_swap
    · exact OrientedCmp.eq_swap

instance : TransCmp identCmp where
  isLE_trans := by
    intro a b c
    cases a <;> cases b <;> cases c <;> simp [identCmp, charsCmp, Ordering.isLE]
    · exact TransCmp.isLE_trans
    · exact TransCmp.isLE_trans

/-! ### the key -/

/-- `(major, minor, patch, revision)` and the labels (`none` for a release) -/
abbrev KeyV : Type := (Nat × Nat × Nat × Nat) × Option (List Ident)

/-- the key of a `NugetVersion` value; `none` for the (unconstructible) value `None` -/
abbrev Key : Type := Option KeyV

def numsCmp : Nat × Nat × Nat × Nat → Nat × Nat × Nat × Nat → Ordering :=
  lexPair natCmp' (lexPair natCmp' (lexPair natCmp' natCmp'))

def keyCmpV : KeyV → KeyV → Ordering := lexPair numsCmp (optTop (lexList identCmp))

def keyCmp : Key → Key → Ordering := optBot keyCmpV

instance : TransCmp natCmp' := inferInstanceAs (TransCmp (fun (a b : Nat) => compare a b))
instance : TransCmp numsCmp := by unfold numsCmp; infer_instance
instance : TransCmp keyCmpV := by unfold keyCmpV; infer_instance
instance : TransCmp keyCmp := by unfold keyCmp; infer_instance

/-- a label of only digits is numeric; other labels are folded to lower case -/
def identOf (s : List Char) : Ident :=
  if !s.isEmpty && s.all isDigit then .num (natVal s) else .alnum (lower s)

/-- the labels of a pre-release string; a missing or empty pre-release is a release -/
def preKey (p : Option (List Char)) : Option (List Ident) :=
  match p with
  | none => none
  | some [] => none
  | some (c :: cs) => some ((splitOn '.' (c :: cs)).map identOf)

def keyV (v : Ver) : KeyV := ((v.major, v.minor, v.patch, v.revision), preKey v.pre)

def key : Raw → Key
  | none => none
  | some v => some (keyV v)

end Univers.Nuget
