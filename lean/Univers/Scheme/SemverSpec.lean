/-
Spec of the semver family: the precedence of SemVer 2.0.0 §11 as a sort key, with the build
identifiers as the tie-break that `EnhancedSemanticVersion` adds.

§11.2  major, minor, patch are compared numerically, in this order.
§11.3  a pre-release version has lower precedence than the associated normal version.
§11.4  pre-release identifiers are compared from left to right:
       .1 identifiers consisting of only digits are compared numerically,
       .2 identifiers with letters or hyphens are compared lexically in ASCII order,
       .3 numeric identifiers have lower precedence than non-numeric ones,
       .4 a larger set of fields has higher precedence when all preceding ones are equal.
§10    build metadata is ignored by SemVer; univers orders versions of equal precedence by
       their build identifiers, compared as strings, left to right, fewer fields first.
No Mathlib.
-/
import Univers.Scheme.Semver

namespace Univers.Semver

open Std

/-- a pre-release identifier as SemVer reads it -/
inductive SId where
  | num (n : Nat)
  | alnum (s : List Char)
  deriving DecidableEq, Repr

abbrev natCmp : Nat → Nat → Ordering := fun a b => compare a b

/-- ASCII order of characters -/
def charCmp : Char → Char → Ordering := fun a b => compare a.toNat b.toNat

/-- §11.4.1–3 -/
def idCmp : SId → SId → Ordering
  | .num a, .num b => compare a b
  | .num _, .alnum _ => .lt
  | .alnum _, .num _ => .gt
  | .alnum a, .alnum b => lexList charCmp a b

/-- `(major, minor, patch, (0, pre-release identifiers) | (1, []), build identifiers)` -/
def Key : Type := Nat × Nat × Nat × (Nat × List SId) × List (List Char)

/-- how SemVer reads an identifier: only digits ⇒ numeric -/
def sid (p : List Char) : SId :=
  if isDigitStr p then .num (parseNat p) else .alnum p

def key (r : Raw) : Key :=
  (r.major, r.minor, r.patch,
   (if r.pre.isEmpty then (1, []) else (0, r.pre.map sid)),
   r.build)

/-- §11.3 + §11.4 on the pre-release field -/
def preCmp : Nat × List SId → Nat × List SId → Ordering := lexPair natCmp (lexList idCmp)

/-- tie-break on the build identifiers -/
def buildCmp : List (List Char) → List (List Char) → Ordering := lexList (lexList charCmp)

def keyCmp : Key → Key → Ordering :=
  lexPair natCmp (lexPair natCmp (lexPair natCmp (lexPair preCmp buildCmp)))

instance : TransCmp charCmp := cmpOn.instTrans Char.toNat (compare : Nat → Nat → Ordering)

instance : OrientedCmp idCmp where
  eq_swap := by
    intro a b
    cases a <;> cases b <;> simp only [idCmp, Ordering.swap]
    · exact OrientedCmp.eq_swap
    · exact OrientedCmp.eq_swap

instance : TransCmp idCmp where
  isLE_trans := by
    intro a b c
    cases a <;> cases b <;> cases c <;> simp only [idCmp]
    · exact TransCmp.isLE_trans
    · intros; rfl
    · intro _ h; cases h
    · intros; rfl
    · intro h; cases h
    · intro h; cases h
    · intro _ h; cases h
    · exact TransCmp.isLE_trans

instance : TransCmp preCmp := lexPair.instTrans natCmp (lexList idCmp)
instance : TransCmp buildCmp := lexList.instTrans (lexList charCmp)

instance : TransCmp keyCmp :=
  lexPair.instTrans natCmp (lexPair natCmp (lexPair natCmp (lexPair preCmp buildCmp)))

end Univers.Semver
