/-
Theorems about the Conan model: refinement of the spec key on position-wise homogeneous
versions, the order cycle outside that domain, operator laws, eq/hash, str round trip,
`bump` / `upper_bound` (C18).
-/
import Univers.Scheme.ConanSpec
import Univers.Vers.Spec

namespace Univers.Conan

open Std Univers

/-! ### the homogeneous sub-domain -/

/-- both numbers or both words -/
def sameKind : Item → Item → Bool
  | .int _, .int _ => true
  | .str _, .str _ => true
  | _, _ => false

/-- at every position that both lists have, the items are of the same kind -/
def itemsCompat : List Item → List Item → Bool
  | a :: as, b :: bs => sameKind a b && itemsCompat as bs
  | _, _ => true

/-- two versions are position-wise homogeneous: their main items (without trailing zeros) are
position-wise of the same kind, and so are their pre-releases and their builds (when both have one) -/
def Compat : OV → OV → Bool
  | .ver _ i1 p1 b1, .ver _ i2 p2 b2 =>
    itemsCompat (stripZeros i1) (stripZeros i2) && Compat p1 p2 && Compat b1 b2
  | _, _ => true

example : Compat (parse "1.2.a-rc.1+b1".toList) (parse "1.10.b-beta".toList) = true := by decide

/-! ### items -/

theorem lexList_eq_iff {α : Type} (cmp : α → α → Ordering) [LawfulEqCmp cmp] [ReflCmp cmp] :
    ∀ (a b : List α), lexList cmp a b = .eq ↔ a = b
  | [], [] => by simp [lexList]
  | [], _ :: _ => by simp [lexList]
  | _ :: _, [] => by simp [lexList]
  | a :: as, b :: bs => by
    simp only [lexList, Ordering.then_eq_eq, List.cons.injEq, lexList_eq_iff cmp as bs]
    constructor
    · intro h; exact ⟨LawfulEqCmp.eq_of_compare h.1, h.2⟩
    · intro h; rw [h.1]; exact ⟨ReflCmp.compare_self, h.2⟩

theorem itemEq_eq (a b : Item) : itemEq a b = (itemCmp a b == .eq) := by
  cases a <;> cases b <;> simp only [itemEq, itemCmp]
  · rw [Bool.eq_iff_iff]; simp only [beq_iff_eq, compare_eq_iff_eq]
  · rfl
  · rfl
  · rw [Bool.eq_iff_iff]; simp only [beq_iff_eq, charsCmp, lexList_eq_iff]

theorem itemLt_eq (a b : Item) (h : sameKind a b = true) : itemLt a b = (itemCmp a b == .lt) := by
  cases a <;> cases b <;> simp only [sameKind] at h
  · simp only [itemLt, itemCmp]
    rw [Bool.eq_iff_iff]; simp only [beq_iff_eq, decide_eq_true_eq, Int.compare_eq_lt]
  · cases h
  · cases h
  · rfl

theorem itemsEq_eq : ∀ (a b : List Item), itemsEq a b = (lexList itemCmp a b == .eq)
  | [], [] => rfl
  | [], _ :: _ => rfl
  | _ :: _, [] => rfl
  | a :: as, b :: bs => by
    simp only [itemsEq, lexList, itemEq_eq, itemsEq_eq as bs]
    cases itemCmp a b <;> cases lexList itemCmp as bs <;> rfl

theorem itemsLt_eq : ∀ (a b : List Item), itemsCompat a b = true →
    itemsLt a b = (lexList itemCmp a b == .lt)
  | [], [], _ => rfl
  | [], _ :: _, _ => rfl
  | _ :: _, [], _ => rfl
  | a :: as, b :: bs, h => by
    simp only [itemsCompat, Bool.and_eq_true] at h
    simp only [itemsLt, lexList, itemEq_eq, itemLt_eq a b h.1, itemsLt_eq as bs h.2]
    cases itemCmp a b <;> cases lexList itemCmp as bs <;> rfl

/-! ### refinement -/

theorem eqO_eq (hi : Bool) (a b : OV) : eqO a b = (keyCmpAux hi (key a) (key b) == .eq) := by
  induction a generalizing b hi with
  | none => cases b <;> cases hi <;> rfl
  | ver v i p bl ihp ihb =>
    cases b with
    | none => cases hi <;> rfl
    | ver v2 i2 p2 bl2 =>
      simp only [eqO, key, keyCmpAux, itemsEq_eq, ihp true p2, ihb false bl2]
      cases lexList itemCmp (stripZeros i) (stripZeros i2) <;>
        cases keyCmpAux true (key p) (key p2) <;>
        cases keyCmpAux false (key bl) (key bl2) <;> rfl

theorem keyCmpAux_ver (hi : Bool) (v1 v2 : List Char) (i1 i2 : List Item) (p1 p2 b1 b2 : OV) :
    keyCmpAux hi (key (.ver v1 i1 p1 b1)) (key (.ver v2 i2 p2 b2)) =
      keyCmpAux false (key (.ver v1 i1 p1 b1)) (key (.ver v2 i2 p2 b2)) := rfl

theorem ltO_eq (a b : OV) (h : Compat a b = true) :
    ltO a b = (keyCmpAux false (key a) (key b) == .lt) := by
  induction a generalizing b with
  | none => cases b <;> rfl
  | ver v i p bl ihp ihb =>
    cases b with
    | none => rfl
    | ver v2 i2 p2 bl2 =>
      simp only [Compat, Bool.and_eq_true] at h
      obtain ⟨⟨hi, hp⟩, hb⟩ := h
      have ihp' := ihp p2 hp
      have ihb' := ihb bl2 hb
      simp only [ltO, itemsEq_eq, itemsLt_eq _ _ hi, eqO_eq true p p2, eqO_eq false bl bl2, ihb']
      cases p with
      | none =>
        cases p2 with
        | none =>
          simp only [OV.isNone, key, keyCmpAux]
          cases lexList itemCmp (stripZeros i) (stripZeros i2) <;>
            cases keyCmpAux false (key bl) (key bl2) <;> rfl
        | ver v4 i4 p4 b4 =>
          simp only [OV.isNone, key, keyCmpAux]
          cases lexList itemCmp (stripZeros i) (stripZeros i2) <;> rfl
      | ver v3 i3 p3 b3 =>
        cases p2 with
        | none =>
          simp only [OV.isNone, key, keyCmpAux]
          cases lexList itemCmp (stripZeros i) (stripZeros i2) <;> rfl
        | ver v4 i4 p4 b4 =>
          rw [ihp']
          simp only [OV.isNone, keyCmpAux_ver true]
          simp only [key, keyCmpAux.eq_4]
          cases lexList itemCmp (stripZeros i) (stripZeros i2) <;>
            cases (lexList itemCmp (stripZeros i3) (stripZeros i4)).then
              ((keyCmpAux true (key p3) (key p4)).then (keyCmpAux false (key b3) (key b4))) <;>
            cases keyCmpAux false (key bl) (key bl2) <;> rfl

/-- REFINEMENT on position-wise homogeneous versions -/
theorem vercmp_eq_key_partial (a b : Raw) (h : Compat a b = true) :
    vercmp a b = keyCmp (key a) (key b) := by
  simp only [vercmp, keyCmp, ltO_eq a b h, eqO_eq false a b]
  cases keyCmpAux false (key a) (key b) <;> rfl

/-! ### order laws on the homogeneous sub-domain, and the cycle outside it -/

theorem vercmp_oriented_partial (a b : Raw) (h : Compat a b = true) (h' : Compat b a = true) :
    vercmp a b = (vercmp b a).swap := by
  rw [vercmp_eq_key_partial a b h, vercmp_eq_key_partial b a h']; exact OrientedCmp.eq_swap

theorem itemsCompat_symm : ∀ (a b : List Item), itemsCompat a b = itemsCompat b a
  | [], [] => rfl
  | [], _ :: _ => rfl
  | _ :: _, [] => rfl
  | a :: as, b :: bs => by
    simp only [itemsCompat, itemsCompat_symm as bs]
    cases a <;> cases b <;> rfl

theorem Compat_symm (a b : OV) : Compat a b = Compat b a := by
  induction a generalizing b with
  | none => cases b <;> rfl
  | ver v i p bl ihp ihb =>
    cases b with
    | none => rfl
    | ver v2 i2 p2 bl2 => simp only [Compat, itemsCompat_symm (stripZeros i), ihp p2, ihb bl2]

/-- transitivity (in the `isLE` form of `Std.TransCmp`) for three pairwise homogeneous versions -/
theorem vercmp_isLE_trans_partial (a b c : Raw) (hab : Compat a b = true) (hbc : Compat b c = true)
    (hac : Compat a c = true) :
    (vercmp a b).isLE → (vercmp b c).isLE → (vercmp a c).isLE := by
  rw [vercmp_eq_key_partial a b hab, vercmp_eq_key_partial b c hbc, vercmp_eq_key_partial a c hac]
  exact TransCmp.isLE_trans

theorem vercmp_lt_trans_partial (a b c : Raw) (hab : Compat a b = true) (hbc : Compat b c = true)
    (hac : Compat a c = true) :
    vercmp a b = .lt → vercmp b c = .lt → vercmp a c = .lt := by
  rw [vercmp_eq_key_partial a b hab, vercmp_eq_key_partial b c hbc, vercmp_eq_key_partial a c hac]
  exact TransCmp.lt_trans

/-- a number and a word in the same position: `10 < 1a < 2 < 10` -/
theorem vercmp_trans_counterexample :
    vercmp (parse "10".toList) (parse "1a".toList) = .lt ∧
    vercmp (parse "1a".toList) (parse "2".toList) = .lt ∧
    vercmp (parse "2".toList) (parse "10".toList) = .lt ∧
    verOps.lt (parse "10".toList) (parse "1a".toList) = true ∧
    verOps.lt (parse "1a".toList) (parse "2".toList) = true ∧
    verOps.lt (parse "2".toList) (parse "10".toList) = true ∧
    Compat (parse "10".toList) (parse "1a".toList) = false := by
  decide

/-! ### homogeneous domains as types: all versions that fit one assignment of kinds -/

def Item.isInt : Item → Bool
  | .int _ => true
  | .str _ => false

/-- the items from position `j` on are numbers exactly where `k` says so -/
def fitsItems (k : Nat → Bool) : Nat → List Item → Bool
  | _, [] => true
  | j, x :: xs => (x.isInt == k j) && fitsItems k (j + 1) xs

/-- `σ path j` tells whether position `j` holds a number, in the main items (`path = []`), in the
pre-release (`path` extended by `false`) or in the build (`path` extended by `true`), nested -/
def Fits (σ : List Bool → Nat → Bool) : List Bool → OV → Bool
  | _, .none => true
  | path, .ver _ i p b =>
    fitsItems (σ path) 0 (stripZeros i) && Fits σ (path ++ [false]) p && Fits σ (path ++ [true]) b

theorem itemsCompat_of_fits (k : Nat → Bool) : ∀ (j : Nat) (a b : List Item),
    fitsItems k j a = true → fitsItems k j b = true → itemsCompat a b = true
  | _, [], _, _, _ => by cases ‹List Item› <;> rfl
  | _, _ :: _, [], _, _ => rfl
  | j, x :: xs, y :: ys, ha, hb => by
    simp only [fitsItems, Bool.and_eq_true, beq_iff_eq] at ha hb
    simp only [itemsCompat, Bool.and_eq_true]
    refine ⟨?_, itemsCompat_of_fits k (j + 1) xs ys ha.2 hb.2⟩
    cases x <;> cases y <;> simp_all [Item.isInt, sameKind]

theorem compat_of_fits (σ : List Bool → Nat → Bool) (path : List Bool) (a b : OV)
    (ha : Fits σ path a = true) (hb : Fits σ path b = true) : Compat a b = true := by
  induction a generalizing b path with
  | none => cases b <;> rfl
  | ver v i p bl ihp ihb =>
    cases b with
    | none => rfl
    | ver v2 i2 p2 bl2 =>
      simp only [Fits, Bool.and_eq_true] at ha hb
      simp only [Compat, Bool.and_eq_true]
      exact ⟨⟨itemsCompat_of_fits _ 0 _ _ ha.1.1 hb.1.1, ihp _ p2 ha.1.2 hb.1.2⟩,
        ihb _ bl2 ha.2 hb.2⟩

/-- the versions that fit the assignment `σ` -/
abbrev Dom (σ : List Bool → Nat → Bool) : Type := { v : Raw // Fits σ [] v = true }

def vercmpOn (σ : List Bool → Nat → Bool) (a b : Dom σ) : Ordering := vercmp a.1 b.1

theorem vercmpOn_eq_key (σ : List Bool → Nat → Bool) (a b : Dom σ) :
    vercmpOn σ a b = cmpOn (fun (v : Dom σ) => key v.1) keyCmp a b :=
  vercmp_eq_key_partial a.1 b.1 (compat_of_fits σ [] a.1 b.1 a.2 b.2)

/-- on every homogeneous domain the code's comparison is a lawful total preorder -/
instance (σ : List Bool → Nat → Bool) : TransCmp (vercmpOn σ) := by
  have : vercmpOn σ = cmpOn (fun (v : Dom σ) => key v.1) keyCmp := by
    funext a b; exact vercmpOn_eq_key σ a b
  rw [this]; infer_instance

/-- all positions numeric, e.g. `1.2.3`, `1.2.3-4+5` -/
def numericShape : List Bool → Nat → Bool := fun _ _ => true

/-- semver-like: numeric main items; pre-release a word followed by numbers (`rc.1`); build a word -/
def semverShape : List Bool → Nat → Bool
  | [], _ => true
  | [false], j => j != 0
  | _, _ => false

example : Fits numericShape [] (parse "1.2.0-4+5".toList) = true := by decide
example : Fits semverShape [] (parse "1.2.3-rc.1+build".toList) = true := by decide

/-! ### C02: the six operators (all values) -/

theorem itemsEq_imp_not_lt : ∀ (a b : List Item), itemsEq a b = true → itemsLt a b = false
  | [], [], _ => rfl
  | [], _ :: _, h => by simp [itemsEq] at h
  | _ :: _, [], _ => rfl
  | a :: as, b :: bs, h => by
    simp only [itemsEq, Bool.and_eq_true] at h
    simp only [itemsLt, h.1, if_true, itemsEq_imp_not_lt as bs h.2]

theorem eqO_imp_not_ltO (a b : OV) (h : eqO a b = true) : ltO a b = false := by
  cases a with
  | none => cases b <;> simp_all [eqO, ltO]
  | ver v i p bl =>
    cases b with
    | none => simp [eqO] at h
    | ver v2 i2 p2 bl2 =>
      simp only [eqO, Bool.and_eq_true] at h
      obtain ⟨⟨hi, hp⟩, hb⟩ := h
      cases p <;> cases p2 <;> simp_all [ltO, OV.isNone, eqO]

theorem verOps_lawful : Lawful verOps vercmp := by
  have key : ∀ l e : Bool, (e = true → l = false) →
      ((!e && l) = ((if l then Ordering.lt else if e then .eq else .gt) == .lt)) ∧
      ((!e && (!l && !e)) = ((if l then Ordering.lt else if e then .eq else .gt) == .gt)) ∧
      (e = ((if l then Ordering.lt else if e then .eq else .gt) == .eq)) ∧
      ((e || (l || e)) = ((if l then Ordering.lt else if e then .eq else .gt) != .gt)) ∧
      ((e || !l) = ((if l then Ordering.lt else if e then .eq else .gt) != .lt)) ∧
      ((!e) = ((if l then Ordering.lt else if e then .eq else .gt) != .eq)) := by
    intro l e h
    cases l <;> cases e <;> simp at h ⊢
  constructor <;> intro a b <;>
    simp only [verOps, Py.attrsOps, valOps, Py.totalOrderingFromLt, vercmp] <;>
    have h := key (ltO a b) (eqO a b) (eqO_imp_not_ltO a b)
  · exact h.1
  · exact h.2.1
  · exact h.2.2.1
  · exact h.2.2.2.1
  · exact h.2.2.2.2.1
  · exact h.2.2.2.2.2

/-! ### C12: eq and hash (all values) -/

theorem itemsEq_imp_eq : ∀ (a b : List Item), itemsEq a b = true → a = b
  | [], [], _ => rfl
  | [], _ :: _, h => by simp [itemsEq] at h
  | _ :: _, [], h => by simp [itemsEq] at h
  | a :: as, b :: bs, h => by
    simp only [itemsEq, Bool.and_eq_true] at h
    rw [itemsEq_imp_eq as bs h.2]
    have : a = b := by
      cases a <;> cases b <;> simp_all [itemEq]
    rw [this]

theorem eqO_imp_hash (a b : OV) (h : eqO a b = true) : hashKey a = hashKey b := by
  induction a generalizing b with
  | none => cases b <;> simp_all [eqO]
  | ver v i p bl ihp ihb =>
    cases b with
    | none => simp [eqO] at h
    | ver v2 i2 p2 bl2 =>
      simp only [eqO, Bool.and_eq_true] at h
      obtain ⟨⟨hi, hp⟩, hb⟩ := h
      simp only [hashKey, itemsEq_imp_eq _ _ hi, ihp p2 hp, ihb bl2 hb]

theorem eq_imp_hash (a b : Raw) : verOps.eq a b = true → hashKey a = hashKey b :=
  eqO_imp_hash a b

/-! ### the fuel of `parse` never runs out -/

theorem parseFuel_stable : ∀ (n m : Nat) (s : List Char), s.length < n → s.length < m →
    parseFuel n s = parseFuel m s
  | 0, _, _, h, _ => by omega
  | _ + 1, 0, _, _, h => by omega
  | n + 1, m + 1, s, hn, hm => by
    simp only [parseFuel]
    cases h1 : rsplit1 '+' s with
    | some vb =>
      obtain ⟨v, b⟩ := vb
      have l1 := rsplit1_length h1
      simp only []
      cases h2 : rsplit1 '-' v with
      | some vp =>
        obtain ⟨v', p⟩ := vp
        have l2 := rsplit1_length h2
        simp only []
        rw [parseFuel_stable n m p (by omega) (by omega), parseFuel_stable n m b (by omega) (by omega)]
      | none =>
        simp only []
        rw [parseFuel_stable n m b (by omega) (by omega)]
    | none =>
      simp only []
      cases h2 : rsplit1 '-' s with
      | some vp =>
        obtain ⟨v', p⟩ := vp
        have l2 := rsplit1_length h2
        simp only []
        rw [parseFuel_stable n m p (by omega) (by omega)]
      | none => rfl

/-- the recursive equation of `Version.__init__` -/
theorem parse_eq (s : List Char) :
    parse s =
      match rsplit1 '+' s with
      | some (v, b) =>
        (match rsplit1 '-' v with
         | some (v', p) => .ver s ((splitOn '.' v').map mkItem) (parse p) (parse b)
         | none => .ver s ((splitOn '.' v).map mkItem) .none (parse b))
      | none =>
        (match rsplit1 '-' s with
         | some (v', p) => .ver s ((splitOn '.' v').map mkItem) (parse p) .none
         | none => .ver s ((splitOn '.' s).map mkItem) .none .none) := by
  have hp : ∀ t, parse t = parseFuel (t.length + 1) t := fun _ => rfl
  rw [hp s, parseFuel]
  cases h1 : rsplit1 '+' s with
  | some vb =>
    obtain ⟨v, b⟩ := vb
    have l1 := rsplit1_length h1
    simp only []
    cases h2 : rsplit1 '-' v with
    | some vp =>
      obtain ⟨v', p⟩ := vp
      have l2 := rsplit1_length h2
      simp only []
      rw [hp p, hp b, parseFuel_stable s.length (p.length + 1) p (by omega) (by omega),
        parseFuel_stable s.length (b.length + 1) b (by omega) (by omega)]
    | none =>
      simp only []
      rw [hp b, parseFuel_stable s.length (b.length + 1) b (by omega) (by omega)]
  | none =>
    simp only []
    cases h2 : rsplit1 '-' s with
    | some vp =>
      obtain ⟨v', p⟩ := vp
      have l2 := rsplit1_length h2
      simp only []
      rw [hp p, parseFuel_stable s.length (p.length + 1) p (by omega) (by omega)]
    | none => rfl

/-! ### C11: `str` round trip -/

theorem str_parse (s : List Char) : str (parse s) = s := by
  rw [parse_eq]
  split <;> split <;> rfl

theorem dropWhile_idem {α : Type} (p : α → Bool) (l : List α) :
    (l.dropWhile p).dropWhile p = l.dropWhile p := by
  induction l with
  | nil => rfl
  | cons c cs ih =>
    by_cases hc : p c = true
    · rw [List.dropWhile_cons_of_pos hc, ih]
    · rw [List.dropWhile_cons_of_neg hc, List.dropWhile_cons_of_neg hc]

theorem normalize_idem (s : List Char) : normalize (normalize s) = normalize s := by
  unfold normalize
  have h : ∀ x ∈ List.dropWhile (fun c => c == 'v' || c == 'V') (List.filter (fun c => !isPySpace c) s),
      (!isPySpace x) = true := by
    intro x hx
    have := (List.dropWhile_sublist _).subset hx
    exact (List.mem_filter.1 this).2
  rw [List.filter_eq_self.2 h]
  exact dropWhile_idem _ _

/-- every value built by `ConanVersion(string)` is rebuilt from its `str` -/
theorem str_roundtrip (s : List Char) (r : Raw) (h : construct s = .ok r) :
    construct (str r) = .ok r := by
  simp only [construct, Except.ok.injEq] at h
  subst h
  simp only [construct, str_parse, normalize_idem]

/-! ### C18: `v < v.upper_bound(i) < v.bump(i)` when the items up to `i` are natural numbers -/

theorem itemEq_refl (a : Item) : itemEq a a = true := by
  cases a <;> simp [itemEq]

theorem itemsEq_refl : ∀ (a : List Item), itemsEq a a = true
  | [] => rfl
  | a :: as => by simp [itemsEq, itemEq_refl, itemsEq_refl as]

/-- the bumped prefix is above the version's own items, wherever the trailing zeros end -/
theorem items_lt_bumped (n : Int) (rest : List Item) : ∀ (A : List Item),
    itemsLt (stripZeros (A ++ .int n :: rest)) (A ++ [.int (n + 1)]) = true ∧
    itemsEq (stripZeros (A ++ .int n :: rest)) (A ++ [.int (n + 1)]) = false
  | [] => by
    have hne : ((n == n + 1) = false) := by simp; omega
    have hlt : n < n + 1 := by omega
    simp only [List.nil_append, stripZeros]
    split
    · split <;> simp [itemsLt, itemsEq, itemEq, itemLt, hne, hlt]
    · simp [itemsLt, itemsEq, itemEq, itemLt, hne, hlt]
  | a :: A => by
    have ih := items_lt_bumped n rest A
    simp only [List.cons_append, stripZeros]
    split
    · split
      · simp [itemsLt, itemsEq]
      · cases hA : A ++ [Item.int (n + 1)] with
        | nil => simp at hA
        | cons z zs => simp [itemsLt, itemsEq, itemEq_refl]
    · rename_i ys hys
      cases hs : stripZeros (A ++ Item.int n :: rest) with
      | nil => exact absurd hs (by simpa using hys)
      | cons y ys' =>
        rw [hs] at ih
        simp only [itemsLt, itemsEq, itemEq_refl, if_true, Bool.true_and]
        exact ih

theorem stripZeros_append_nonzero (x : Item) (hx : x ≠ .int 0) : ∀ (A : List Item),
    stripZeros (A ++ [x]) = A ++ [x]
  | [] => by simp [stripZeros, hx]
  | a :: A => by
    have ih := stripZeros_append_nonzero x hx A
    simp only [List.cons_append, stripZeros, ih]
    cases hA : A ++ [x] with
    | nil => simp at hA
    | cons z zs => rfl

/-- comparison of a version with its bumped forms, given how these parse -/
theorem lt_ub_lt_bump_items (val vu vw : List Char) (A : List Item) (n : Nat) (rest : List Item)
    (p b : OV) (vq : List Char) (iq : List Item) (pq bq : OV) :
    ltO (.ver val (A ++ .int n :: rest) p b)
        (.ver vu (A ++ [.int ((n : Int) + 1)]) (.ver vq iq pq bq) .none) = true ∧
    ltO (.ver vu (A ++ [.int ((n : Int) + 1)]) (.ver vq iq pq bq) .none)
        (.ver vw (A ++ [.int ((n : Int) + 1)]) .none .none) = true := by
  have hnz : Item.int ((n : Int) + 1) ≠ .int 0 := by
    intro h; injection h with h; omega
  have ⟨h1, h2⟩ := items_lt_bumped n rest A
  constructor
  · cases p <;>
      simp [ltO, OV.isNone, stripZeros_append_nonzero _ hnz, h1, h2]
  · simp [ltO, OV.isNone, itemsEq_refl]

/-! #### the bumped strings parse back to the bumped items -/

theorem rsplit1_none (sep : Char) : ∀ (s : List Char), sep ∉ s → rsplit1 sep s = none
  | [], _ => rfl
  | x :: xs, h => by
    simp only [List.mem_cons, not_or] at h
    have hx : (x == sep) = false := by simpa using fun e => h.1 e.symm
    simp [rsplit1, rsplit1_none sep xs h.2, hx]

theorem rsplit1_append_sep (sep : Char) : ∀ (s : List Char), sep ∉ s →
    rsplit1 sep (s ++ [sep]) = some (s, [])
  | [], _ => by simp [rsplit1]
  | x :: xs, h => by
    simp only [List.mem_cons, not_or] at h
    simp [rsplit1, rsplit1_append_sep sep xs h.2]

theorem splitOn_no_sep (sep : Char) : ∀ (s : List Char), sep ∉ s → splitOn sep s = [s]
  | [], _ => rfl
  | x :: xs, h => by
    simp only [List.mem_cons, not_or] at h
    have hx : (x == sep) = false := by simpa using fun e => h.1 e.symm
    simp [splitOn, splitOn_no_sep sep xs h.2, hx]

theorem splitOn_append_sep (sep : Char) (t : List Char) : ∀ (s : List Char), sep ∉ s →
    splitOn sep (s ++ sep :: t) = s :: splitOn sep t
  | [], _ => by simp [splitOn]
  | x :: xs, h => by
    simp only [List.mem_cons, not_or] at h
    have hx : (x == sep) = false := by simpa using fun e => h.1 e.symm
    simp [splitOn, splitOn_append_sep sep t xs h.2, hx]

theorem splitOn_joinDots : ∀ (parts : List (List Char)), parts ≠ [] →
    (∀ p ∈ parts, '.' ∉ p) → splitOn '.' (joinDots parts) = parts
  | [], h, _ => absurd rfl h
  | [x], _, h => by
    simp only [joinDots]
    exact splitOn_no_sep '.' x (h x (by simp))
  | x :: y :: r, _, h => by
    simp only [joinDots]
    rw [splitOn_append_sep '.' _ x (h x (by simp)),
      splitOn_joinDots (y :: r) (by simp) (fun p hp => h p (List.mem_cons_of_mem _ hp))]

theorem mem_joinDots (c : Char) : ∀ (parts : List (List Char)), c ∈ joinDots parts →
    c = '.' ∨ ∃ p ∈ parts, c ∈ p
  | [], h => by simp [joinDots] at h
  | [x], h => by
    simp only [joinDots] at h
    exact .inr ⟨x, by simp, h⟩
  | x :: y :: r, h => by
    simp only [joinDots, List.mem_append, List.mem_cons] at h
    rcases h with h | h | h
    · exact .inr ⟨x, by simp, h⟩
    · exact .inl h
    · rcases mem_joinDots c (y :: r) h with h' | ⟨p, hp, hc⟩
      · exact .inl h'
      · exact .inr ⟨p, List.mem_cons_of_mem _ hp, hc⟩

theorem isDigit_eq (c : Char) : isDigit c = c.isDigit := by
  simp only [isDigit, Char.isDigit, Char.le_def, ge_iff_le]

theorem natStr_digits (k : Nat) : ∀ c ∈ natStr k, isDigit c = true := by
  intro c hc
  rw [isDigit_eq]
  exact Nat.isDigit_of_mem_toDigits (by decide) (by decide) hc

theorem natStr_ne_nil (k : Nat) : natStr k ≠ [] := Nat.toDigits_ne_nil

theorem intDigits_digits : ∀ (s : List Char), s ≠ [] → (∀ c ∈ s, isDigit c = true) →
    intDigits s = some s
  | [], h, _ => absurd rfl h
  | [c], _, h => by simp [intDigits, h c (by simp)]
  | c :: d :: r, _, h => by
    have hc := h c (by simp)
    have hd := h d (by simp)
    have ih := intDigits_digits (d :: r) (by simp) (fun x hx => h x (List.mem_cons_of_mem _ hx))
    have hdu : d ≠ '_' := by intro e; subst e; exact absurd hd (by decide)
    simp [intDigits, hc, ih, hdu]

theorem mkItem_natStr (k : Nat) : mkItem (natStr k) = .int (Int.ofNat k) := by
  have hd := natStr_digits k
  have hne := natStr_ne_nil k
  have hid := intDigits_digits (natStr k) hne hd
  have hval : natVal (natStr k) = k := Nat.ofDigitChars_ten_toDigits
  have hp : pyInt (natStr k) = some (Int.ofNat k) := by
    unfold pyInt
    split
    · rename_i r heq
      exact absurd (hd '+' (by rw [heq]; simp)) (by decide)
    · rename_i r heq
      exact absurd (hd '-' (by rw [heq]; simp)) (by decide)
    · simp [hid, hval]
  simp [mkItem, hp]

/-- main items that are natural numbers -/
def natItems (ns : List Nat) : List Item := ns.map (fun k => .int (Int.ofNat k))

theorem natDots_chars (ns : List Nat) : ∀ c ∈ joinDots (ns.map natStr), c = '.' ∨ isDigit c = true := by
  intro c hc
  rcases mem_joinDots c _ hc with h | ⟨p, hp, hcp⟩
  · exact .inl h
  · obtain ⟨k, _, rfl⟩ := List.mem_map.1 hp
    exact .inr (natStr_digits k c hcp)

theorem natDots_not_mem (ns : List Nat) (x : Char) (hx : x ≠ '.') (hd : isDigit x = false) :
    x ∉ joinDots (ns.map natStr) := by
  intro h
  rcases natDots_chars ns x h with h' | h'
  · exact hx h'
  · rw [hd] at h'; cases h'

theorem items_natDots (ns : List Nat) (hne : ns ≠ []) :
    (splitOn '.' (joinDots (ns.map natStr))).map mkItem = natItems ns := by
  rw [splitOn_joinDots _ (by simpa using hne)]
  · simp only [List.map_map, natItems]
    apply List.map_congr_left
    intro k _
    exact mkItem_natStr k
  · intro p hp
    obtain ⟨k, _, rfl⟩ := List.mem_map.1 hp
    intro hdot
    exact absurd (natStr_digits k '.' hdot) (by decide)

theorem parse_natDots (ns : List Nat) (hne : ns ≠ []) :
    parse (joinDots (ns.map natStr)) =
      .ver (joinDots (ns.map natStr)) (natItems ns) .none .none := by
  rw [parse_eq, rsplit1_none '+' _ (natDots_not_mem ns '+' (by decide) (by decide)),
    rsplit1_none '-' _ (natDots_not_mem ns '-' (by decide) (by decide))]
  simp only [items_natDots ns hne]

theorem parse_natDots_dash (ns : List Nat) (hne : ns ≠ []) :
    parse (joinDots (ns.map natStr) ++ ['-']) =
      .ver (joinDots (ns.map natStr) ++ ['-']) (natItems ns) (.ver [] [.str []] .none .none) .none := by
  have hplus : '+' ∉ joinDots (ns.map natStr) ++ ['-'] := by
    simp only [List.mem_append, List.mem_singleton, not_or]
    exact ⟨natDots_not_mem ns '+' (by decide) (by decide), by decide⟩
  rw [parse_eq, rsplit1_none '+' _ hplus,
    rsplit1_append_sep '-' _ (natDots_not_mem ns '-' (by decide) (by decide))]
  simp only [items_natDots ns hne]
  rfl

theorem bumpStr_nat (val : List Char) (ms : List Nat) (n : Nat) (rest : List Item) (p b : OV) :
    bumpStr (.ver val (natItems ms ++ .int n :: rest) p b) ms.length =
      .ok (joinDots ((ms ++ [n + 1]).map natStr)) := by
  have hlen : (natItems ms).length = ms.length := by simp [natItems]
  have hget : (natItems ms ++ Item.int ↑n :: rest)[ms.length]? = some (.int n) := by
    rw [List.getElem?_append_right (by omega), hlen]; simp
  have htake : (natItems ms ++ Item.int ↑n :: rest).take ms.length = natItems ms := by
    rw [← hlen]; simp
  simp only [bumpStr, OV.items, hget, Item.succ?, htake]
  have h1 : (natItems ms).map Item.toStr = ms.map natStr := by
    simp only [natItems, List.map_map]
    apply List.map_congr_left
    intro k _
    rfl
  have h2 : intStr ((n : Int) + 1) = natStr (n + 1) := rfl
  rw [h1, h2]
  simp

/-- C18 for a version whose items up to the index are natural numbers (`ms`, then `n` at the
index): `upper_bound` and `bump` succeed, and `v < v.upper_bound(i) < v.bump(i)` -/
theorem lt_upperBound_lt_bump (val : List Char) (ms : List Nat) (n : Nat) (rest : List Item)
    (p b : OV) :
    ∃ u w, upperBound (.ver val (natItems ms ++ .int n :: rest) p b) ms.length = .ok u ∧
      bump (.ver val (natItems ms ++ .int n :: rest) p b) ms.length = .ok w ∧
      ltO (.ver val (natItems ms ++ .int n :: rest) p b) u = true ∧ ltO u w = true ∧
      verOps.lt (.ver val (natItems ms ++ .int n :: rest) p b) u = true ∧ verOps.lt u w = true := by
  have hne : ms ++ [n + 1] ≠ [] := by simp
  have hitems : natItems (ms ++ [n + 1]) = natItems ms ++ [.int ((n : Int) + 1)] := by
    simp [natItems]
  refine ⟨.ver (joinDots ((ms ++ [n + 1]).map natStr) ++ ['-']) (natItems ms ++ [.int ((n : Int) + 1)])
      (.ver [] [.str []] .none .none) .none,
    .ver (joinDots ((ms ++ [n + 1]).map natStr)) (natItems ms ++ [.int ((n : Int) + 1)]) .none .none,
    ?_, ?_, ?_⟩
  · simp only [upperBound, bumpStr_nat, Except.map]
    rw [parse_natDots_dash _ hne, hitems]
  · simp only [bump, bumpStr_nat, Except.map]
    rw [parse_natDots _ hne, hitems]
  · have h := lt_ub_lt_bump_items val (joinDots ((ms ++ [n + 1]).map natStr) ++ ['-'])
      (joinDots ((ms ++ [n + 1]).map natStr)) (natItems ms) n rest p b [] [.str []] .none .none
    refine ⟨h.1, h.2, ?_, ?_⟩
    · simp only [verOps, Py.attrsOps, valOps, Py.totalOrderingFromLt, h.1, Bool.and_true,
        Bool.not_eq_true']
      cases he : eqO _ _ with
      | false => rfl
      | true => have := eqO_imp_not_ltO _ _ he; rw [h.1] at this; cases this
    · simp only [verOps, Py.attrsOps, valOps, Py.totalOrderingFromLt, h.2, Bool.and_true,
        Bool.not_eq_true']
      cases he : eqO _ _ with
      | false => rfl
      | true => have := eqO_imp_not_ltO _ _ he; rw [h.2] at this; cases this

def Item.isNat : Item → Bool
  | .int n => decide (0 ≤ n)
  | .str _ => false

/-- the items at positions `0 … i` exist and are natural numbers (decidable domain of C18) -/
def natUpTo (v : OV) (i : Nat) : Bool :=
  decide (i < v.items.length) && (v.items.take (i + 1)).all Item.isNat

example : natUpTo (parse "1.2.x-rc+b".toList) 1 = true := by decide

theorem all_isNat_eq : ∀ (l : List Item), l.all Item.isNat = true →
    ∃ ns : List Nat, l = natItems ns ∧ ns.length = l.length
  | [], _ => ⟨[], rfl, rfl⟩
  | x :: xs, h => by
    simp only [List.all_cons, Bool.and_eq_true] at h
    obtain ⟨ns, hns, hl⟩ := all_isNat_eq xs h.2
    cases x with
    | str s => simp [Item.isNat] at h
    | int k =>
      have hk : 0 ≤ k := by simpa [Item.isNat] using h.1
      refine ⟨k.toNat :: ns, ?_, by simp [hl]⟩
      simp only [natItems, List.map_cons, List.cons.injEq, Item.int.injEq] at hns ⊢
      exact ⟨by simp [Int.toNat_of_nonneg hk], hns⟩

/-- C18 with the decidable hypothesis `natUpTo v i` -/
theorem lt_upperBound_lt_bump_of_natUpTo (v : OV) (i : Nat) (h : natUpTo v i = true) :
    ∃ u w, upperBound v i = .ok u ∧ bump v i = .ok w ∧
      verOps.lt v u = true ∧ verOps.lt u w = true := by
  cases v with
  | none => simp [natUpTo, OV.items] at h
  | ver val items p b =>
    simp only [natUpTo, OV.items, Bool.and_eq_true] at h
    obtain ⟨hlen, hall⟩ := h
    have hlen : i < items.length := of_decide_eq_true hlen
    obtain ⟨ns, hns, hnl⟩ := all_isNat_eq _ hall
    have hnl' : ns.length = i + 1 := by rw [hnl, List.length_take]; omega
    have hne : ns ≠ [] := by intro e; rw [e] at hnl'; simp at hnl'
    have hsplit : ns = ns.dropLast ++ [ns.getLast hne] := (List.dropLast_concat_getLast hne).symm
    have hdl : ns.dropLast.length = i := by rw [List.length_dropLast]; omega
    have hitems : items = natItems ns.dropLast ++ .int (ns.getLast hne) :: items.drop (i + 1) := by
      have := (List.take_append_drop (i + 1) items).symm
      rw [hns] at this
      rw (occs := [1]) [hsplit] at this
      simpa [natItems] using this
    obtain ⟨u, w, h1, h2, _, _, h5, h6⟩ :=
      lt_upperBound_lt_bump val ns.dropLast (ns.getLast hne) (items.drop (i + 1)) p b
    rw [hdl, ← hitems] at h1 h2
    rw [← hitems] at h5
    exact ⟨u, w, h1, h2, h5, h6⟩

/-- outside that domain C18 fails: the item `-1` bumps to `0`, which is dropped -/
theorem lt_upperBound_counterexample :
    upperBound (parse "1.-1-x".toList) 1 = .ok (parse "1.0-".toList) ∧
    ltO (parse "1.-1-x".toList) (parse "1.0-".toList) = false :=
  ⟨by rfl, by decide⟩

end Univers.Conan
