/-
The regular expressions of the library are the ones the recognisers of the scheme models were written for:
the text (and flags) of every `re.<f>(pattern, ...)` call site and of every compiled pattern of /repo, regenerated
on every run (`Univers.Gen.SchemeTables`), equals the text the hand-translated recognisers were cut from.

This is a TEXTUAL tie: a regular expression rewritten into an equivalent one breaks it.  It is therefore a proof
obligation of the thorough tier only; in the quick tier (the check run on every change) a mismatch makes the
correspondence and the wide-alphabet search of the property deeper, and only what they find is reported
(runner step 3a).
-/
import Univers.Gen.SchemeTables

namespace Univers.Tables

open Univers

/-- the regular-expression call sites of the library, as the recognisers of the models read them -/
theorem regex_sites_pinned : Gen.regexSites = [
  ("arch.py", "split_depends", "split", "'([<>=]+)'"),
  ("debian.py", "<module>", "compile", "'^(\\\\d+:)?\\\\d([A-Za-z0-9\\\\.\\\\+\\\\~\\\\-]+|[A-Za-z0-9\\\\.\\\\+\\\\~]+-[A-Za-z0-9\\\\+\\\\.\\\\~]+)?$'"),
  ("debian.py", "get_significant_numbers", "findall", "'\\\\d+'"),
  ("gem.py", "GemVersion", "compile", "f'^\\\\s*({VERSION_PATTERN})?\\\\s*$'"),
  ("gem.py", "GemVersion.segments", "compile", "'[0-9]+|[a-z]+'"),
  ("gem.py", "GemRequirement", "escape", "op"),
  ("gem.py", "GemRequirement", "compile", "f'^{PATTERN_RAW}$'"),
  ("gentoo.py", "<module>", "compile", "'^(?:\\\\d+)(?:\\\\.\\\\d+)*[a-zA-Z]?(?:_(p(?:re)?|beta|alpha|rc)\\\\d*)*$'"),
  ("gentoo.py", "<module>", "compile", "'^(alpha|beta|rc|pre|p)(\\\\d*)$'"),
  ("gentoo.py", "<module>", "compile", "'.*(-r\\\\d+)'"),
  ("nuget.py", "coerce", "compile", "'^(\\\\d+)(\\\\.\\\\d+)?(\\\\.\\\\d+)?(.*)$'"),
  ("nuget.py", "_extract_revision", "compile", "'^(\\\\d+)(\\\\.\\\\d+)(\\\\.\\\\d+)(\\\\.\\\\d+)(.*)'"),
  ("rpm.py", "get_segments", "findall", "'[0-9]+|[a-zA-Z]+|~|\\\\^'"),
  ("rpm.py", "Vercmp", "compile", "b'^([^a-zA-Z0-9~\\\\^]*)(.*)$'"),
  ("rpm.py", "Vercmp", "compile", "b'^([\\\\d]+)(.*)$'"),
  ("rpm.py", "Vercmp", "compile", "b'^([a-zA-Z]+)(.*)$'"),
  ("versions.py", "ArchLinuxVersion.__hash__", "findall", "'\\\\d+'")] := by decide

/-- the compiled patterns (final text after f-string substitution, and flags) -/
theorem compiled_patterns_pinned : Gen.compiledPatterns = [
  ("univers.debian", "is_valid_debian_version", "^(\\d+:)?\\d([A-Za-z0-9\\.\\+\\~\\-]+|[A-Za-z0-9\\.\\+\\~]+-[A-Za-z0-9\\+\\.\\~]+)?$", 32),
  ("univers.gem", "GemRequirement.PATTERN", "^\\s*(=|!=|>|<|>=|<=|\\~>)?\\s*([0-9]+(?:\\.[0-9a-zA-Z]+)*(-[0-9A-Za-z-]+(\\.[0-9A-Za-z-]+)*)?)\\s*$", 32),
  ("univers.gem", "GemVersion.is_correct", "^\\s*([0-9]+(?:\\.[0-9a-zA-Z]+)*(-[0-9A-Za-z-]+(\\.[0-9A-Za-z-]+)*)?)?\\s*$", 32),
  ("univers.gentoo", "_is_gentoo_version", "^(?:\\d+)(?:\\.\\d+)*[a-zA-Z]?(?:_(p(?:re)?|beta|alpha|rc)\\d*)*$", 32),
  ("univers.gentoo", "revision_regexp", ".*(-r\\d+)", 32),
  ("univers.gentoo", "suffix_regexp", "^(alpha|beta|rc|pre|p)(\\d*)$", 32),
  ("univers.rpm", "Vercmp.R_ALPHA", "^([a-zA-Z]+)(.*)$", 0),
  ("univers.rpm", "Vercmp.R_NONALNUMTILDE_CARET", "^([^a-zA-Z0-9~\\^]*)(.*)$", 0),
  ("univers.rpm", "Vercmp.R_NUM", "^([\\d]+)(.*)$", 0)] := by decide

end Univers.Tables
