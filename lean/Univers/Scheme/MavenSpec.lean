/-
Spec for the maven scheme: the order of Apache Maven `ComparableVersion` on versions of the
documented shape

    N(.N)* ( -qualifier | -N(.N)* )*            e.g.  1.2.3   1.0-rc-1   1.0-SNAPSHOT   2.1-4

read the way `ComparableVersion` reads them: a version is a sequence of COMPONENTS, the first
a dotted number, every further one (opened by `-` or by a letter/digit transition) a qualifier
or a dotted number.  Components are compared position by position, the shorter version is
padded with the null component; the order of components is

    alpha < beta < milestone < rc (= cr) < snapshot < "" (= ga = final = null) < sp
          < any other qualifier (by code points) < any dotted number,

dotted numbers are compared number by number, padded with 0.
(`StringItem.comparableQualifier`, `IntItem/StringItem/ListItem.compareTo` of
maven-artifact 3.x.)

The key is defined on every `Raw`; it is the meaning of the version only on `InDomain`
(see `MavenThm.lean`): outside, Maven's item comparison itself is not an order.
-/
import Univers.Scheme.Maven

namespace Univers.Maven

open Univers Std

/-- `int` or `str` element of a parsed list -/
inductive Atom where
  | int (n : Nat)
  | str (s : List Char)
  deriving Repr, DecidableEq, Inhabited

def Atom.item : Atom → Item
  | .int n => .int n
  | .str s => .str s

mutual
/-- the chain inside an inner list -/
def chainIn : Item → Option (List Atom × List (List Atom))
  | .list l => chain l
  | .int _ => none
  | .str _ => none
termination_by structural x => x
/-- the parsed structure seen as a chain of atom lists: `l = s₀ ++ [s₁ ++ [s₂ ++ …]]`;
`none` when some list has an inner list elsewhere than at its end -/
def chain : List Item → Option (List Atom × List (List Atom))
  | [] => some ([], [])
  | .int n :: r => (chain r).map fun c => (.int n :: c.1, c.2)
  | .str q :: r => (chain r).map fun c => (.str q :: c.1, c.2)
  | .list l :: [] => (chainIn (.list l)).map fun c => ([], c.1 :: c.2)
  | .list _ :: _ :: _ => none
termination_by structural l => l
end

/-- a list of atoms that are all numbers -/
def ints? : List Atom → Option (List Nat)
  | [] => some []
  | .int n :: r => (ints? r).map (n :: ·)
  | .str _ :: _ => none

/-- one component of the key: (class, qualifier text, numbers).  Classes 0–6 are the known
qualifiers in Maven's order (5 is the release / null), 7 an unknown qualifier, 8 a dotted
number. -/
abbrev Tok := Nat × (List Char × List Nat)

/-- the null component: the same as the qualifiers `""`, `ga`, `final` -/
def Tok.null : Tok := (5, [], [])

/-- Maven's `QUALIFIERS` order, aliases already resolved (`cr` → `rc`, `ga`/`final` → `""`) -/
def qualTok (s : List Char) : Tok :=
  if s = "alpha".toList then (0, [], [])
  else if s = "beta".toList then (1, [], [])
  else if s = "milestone".toList then (2, [], [])
  else if s = "rc".toList then (3, [], [])
  else if s = "snapshot".toList then (4, [], [])
  else if s = [] then (5, [], [])
  else if s = "sp".toList then (6, [], [])
  else (7, s, [])

def numsTok (I : List Nat) : Tok := (8, [], I)

/-- the component of one atom list; 9 marks a list that is neither a qualifier nor a dotted
number (outside the domain) -/
def segTok : List Atom → Tok
  | [.str q] => qualTok q
  | seg => match ints? seg with
    | some I => numsTok I
    | none => (9, [], [])

def tokCmp : Tok → Tok → Ordering :=
  lexPair (fun (a b : Nat) => compare a b)
    (lexPair (lexList (fun (a b : Char) => compare a b)) (padLex (fun (a b : Nat) => compare a b) 0))

def Key : Type := List Tok

def keyCmp : Key → Key → Ordering := padLex tokCmp Tok.null

def key (r : Raw) : Key :=
  match chain r.parsed with
  | some c => (c.1 :: c.2).map segTok
  | none => []

instance : TransCmp tokCmp := by unfold tokCmp; infer_instance

instance : TransCmp keyCmp :=
  inferInstanceAs (TransCmp (α := List Tok) (padLex tokCmp Tok.null))

/-! ### the domain -/

/-- a dotted number as `_normalize` leaves it: no trailing `0` -/
def normNums (I : List Nat) : Bool := I.getLast? != some 0

/-- a component after a `-`: a non-null qualifier alone, or a non-empty dotted number that
neither starts nor ends with `0` -/
def goodSeg : List Atom → Bool
  | [.str q] => q != []
  | seg => match ints? seg with
    | some (i :: I) => i != 0 && normNums (i :: I)
    | _ => false

/-- the leading component: a dotted number (possibly empty) without trailing `0` -/
def goodHead (seg : List Atom) : Bool :=
  match ints? seg with
  | some I => normNums I
  | none => false

/-- versions of the shape `N(.N)*(-qualifier | -N(.N)*)*` in which no `-` component is null
or starts with `0`: decidable, on the parsed value. -/
def InDomain (r : Raw) : Bool :=
  match chain r.parsed with
  | some c => goodHead c.1 && c.2.all goodSeg
  | none => false

end Univers.Maven
