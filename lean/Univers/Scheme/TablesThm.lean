/-
The hand-written tables of the scheme models agree with the tables regenerated from /repo
(`Univers.Gen.SchemeTables`, written by harness/translate_schemes.py on every run).  (The regular
expressions of the library are pinned in `Scheme/RegexPins.lean`.)

These are proof obligations over GENERATED data: editing `suffix_value`, `QUALIFIERS`, `ALIASES`,
`characters_order`, `all_legacy_base` or the bracket dicts in /repo makes this
module fail to check, whether or not a sampled input shows a difference.  (A failure here is not a
violation by itself: the property checks then search for a concrete failing input.)
-/
import Univers.Gen.SchemeTables
import Univers.Scheme.Gentoo
import Univers.Scheme.Maven
import Univers.Scheme.Deb
import Univers.Scheme.Openssl
import Univers.Text.Advisory

namespace Univers.Tables

open Univers

/-- `suffix_value` of gentoo: same names, same values (the model lists them in the order of the
alternatives of `suffix_regexp`, the dict order is irrelevant to a lookup) -/
theorem gentoo_suffix_value :
    (∀ p ∈ Gen.gentooSuffixValue, Gentoo.sufNames.lookup p.1.toList = some p.2) ∧
    Gen.gentooSuffixValue.length = Gentoo.sufNames.length := by decide

/-- `QUALIFIERS.index` -/
theorem maven_qualifiers :
    (∀ i, (h : i < Gen.mavenQualifiers.length) → Maven.qIndex (Gen.mavenQualifiers[i]).toList = some i) ∧
    Gen.mavenQualifiers.length = 7 := by decide

/-- `ALIASES.get(buf, buf)` on the keys; the keys are the only strings the model rewrites -/
theorem maven_aliases :
    (∀ p ∈ Gen.mavenAliases, Maven.alias p.1.toList = p.2.toList) ∧
    Gen.mavenAliases.map (·.1) = ["cr", "final", "ga"] := by decide

/-- `characters_order` of debian: every character has the same rank; `""` is the end-of-string rank -/
theorem deb_characters_order :
    (∀ p ∈ Gen.debCharactersOrder,
      if p.1 = "" then Deb.emptyOrder = p.2 else Deb.charactersOrder (p.1.toList.headD ' ') = some p.2) ∧
    (∀ p ∈ Gen.debCharactersOrder, p.1.length ≤ 1) ∧
    Gen.debCharactersOrder.length = 57 := by decide

/-- the relation texts that `debian.eval_constraint` evaluates (sorted; read by behaviour) -/
theorem deb_operators : Gen.debOperators = [
  "<", "<<", "<=", "=",
  ">", ">=", ">>"] := by decide

/-- `all_legacy_base` -/
theorem openssl_legacy_bases : Gen.legacyOpensslBases.map String.toList = Openssl.Legacy.legacyBases := by decide

end Univers.Tables
