/-
The hand-written tables of the scheme models agree with the tables regenerated from /repo
(`Univers.Gen.SchemeTables`, written by harness/translate_schemes.py on every run), and the regular
expressions of the library are the ones the recognisers of the models were written for.

These are proof obligations over GENERATED data: editing `suffix_value`, `QUALIFIERS`, `ALIASES`,
`characters_order`, `all_legacy_base`, the bracket dicts or any regular expression in /repo makes this
module fail to check, whether or not a sampled input shows a difference.  (A failure here is not a
violation by itself: the property checks then search for a concrete failing input.)
-/
import Univers.Gen.SchemeTables
import Univers.Scheme.Gentoo
import Univers.Scheme.Maven
import Univers.Scheme.Deb
import Univers.Scheme.Openssl
import Univers.Text.Advisory

namespace Univers.Tables

open Univers

/-- `suffix_value` of gentoo: same names, same values (the model lists them in the order of the
alternatives of `suffix_regexp`, the dict order is irrelevant to a lookup) -/
theorem gentoo_suffix_value :
    (∀ p ∈ Gen.gentooSuffixValue, Gentoo.sufNames.lookup p.1.toList = some p.2) ∧
    Gen.gentooSuffixValue.length = Gentoo.sufNames.length := by decide

/-- `QUALIFIERS.index` -/
theorem maven_qualifiers :
    (∀ i, (h : i < Gen.mavenQualifiers.length) → Maven.qIndex (Gen.mavenQualifiers[i]).toList = some i) ∧
    Gen.mavenQualifiers.length = 7 := by decide

/-- `ALIASES.get(buf, buf)` on the keys; the keys are the only strings the model rewrites -/
theorem maven_aliases :
    (∀ p ∈ Gen.mavenAliases, Maven.alias p.1.toList = p.2.toList) ∧
    Gen.mavenAliases.map (·.1) = ["ga", "final", "cr"] := by decide

/-- `characters_order` of debian: every character has the same rank; `""` is the end-of-string rank -/
theorem deb_characters_order :
    (∀ p ∈ Gen.debCharactersOrder,
      if p.1 = "" then Deb.emptyOrder = p.2 else Deb.charactersOrder (p.1.toList.headD ' ') = some p.2) ∧
    (∀ p ∈ Gen.debCharactersOrder, p.1.length ≤ 1) ∧
    Gen.debCharactersOrder.length = 57 := by decide

/-- the operator table of `debian.Version.compare` -/
theorem deb_operators : Gen.debOperators = [
  "<<", "<=", "=", ">=",
  ">>", "<", ">"] := by decide

/-- `all_legacy_base` -/
theorem openssl_legacy_bases : Gen.legacyOpensslBases.map String.toList = Openssl.Legacy.legacyBases := by decide

/-- the dicts of `split_req_bracket_notation` -/
theorem snyk_brackets :
    Gen.snykBracketFront = [("(", ">"), ("[", ">=")] ∧ Gen.snykBracketRear = [(")", "<"), ("]", "<=")] := by decide

/-- the regular-expression call sites of the library, as the recognisers of the models read them -/
theorem regex_sites_pinned : Gen.regexSites = [
  ("arch.py", "split_depends", "split", "'([<>=]+)'"),
  ("debian.py", "<module>", "compile", "'^(\\\\d+:)?\\\\d([A-Za-z0-9\\\\.\\\\+\\\\~\\\\-]+|[A-Za-z0-9\\\\.\\\\+\\\\~]+-[A-Za-z0-9\\\\+\\\\.\\\\~]+)?$'"),
  ("debian.py", "get_significant_numbers", "findall", "'\\\\d+'"),
  ("gem.py", "GemVersion", "compile", "f'^\\\\s*({VERSION_PATTERN})?\\\\s*$'"),
  ("gem.py", "GemVersion.segments", "compile", "'[0-9]+|[a-z]+'"),
  ("gem.py", "GemRequirement", "escape", "op"),
  ("gem.py", "GemRequirement", "compile", "f'^{PATTERN_RAW}$'"),
  ("gentoo.py", "<module>", "compile", "'^(?:\\\\d+)(?:\\\\.\\\\d+)*[a-zA-Z]?(?:_(p(?:re)?|beta|alpha|rc)\\\\d*)*$'"),
  ("gentoo.py", "<module>", "compile", "'^(alpha|beta|rc|pre|p)(\\\\d*)$'"),
  ("gentoo.py", "<module>", "compile", "'.*(-r\\\\d+)'"),
  ("nuget.py", "coerce", "compile", "'^(\\\\d+)(\\\\.\\\\d+)?(\\\\.\\\\d+)?(.*)$'"),
  ("nuget.py", "_extract_revision", "compile", "'^(\\\\d+)(\\\\.\\\\d+)(\\\\.\\\\d+)(\\\\.\\\\d+)(.*)'"),
  ("rpm.py", "get_segments", "findall", "'[0-9]+|[a-zA-Z]+|~|\\\\^'"),
  ("rpm.py", "Vercmp", "compile", "b'^([^a-zA-Z0-9~\\\\^]*)(.*)$'"),
  ("rpm.py", "Vercmp", "compile", "b'^([\\\\d]+)(.*)$'"),
  ("rpm.py", "Vercmp", "compile", "b'^([a-zA-Z]+)(.*)$'"),
  ("versions.py", "ArchLinuxVersion.__hash__", "findall", "'\\\\d+'")] := by decide

/-- the compiled patterns (final text after f-string substitution, and flags) -/
theorem compiled_patterns_pinned : Gen.compiledPatterns = [
  ("univers.debian", "is_valid_debian_version", "^(\\d+:)?\\d([A-Za-z0-9\\.\\+\\~\\-]+|[A-Za-z0-9\\.\\+\\~]+-[A-Za-z0-9\\+\\.\\~]+)?$", 32),
  ("univers.gem", "GemRequirement.PATTERN", "^\\s*(=|!=|>|<|>=|<=|\\~>)?\\s*([0-9]+(?:\\.[0-9a-zA-Z]+)*(-[0-9A-Za-z-]+(\\.[0-9A-Za-z-]+)*)?)\\s*$", 32),
  ("univers.gem", "GemVersion.is_correct", "^\\s*([0-9]+(?:\\.[0-9a-zA-Z]+)*(-[0-9A-Za-z-]+(\\.[0-9A-Za-z-]+)*)?)?\\s*$", 32),
  ("univers.gentoo", "_is_gentoo_version", "^(?:\\d+)(?:\\.\\d+)*[a-zA-Z]?(?:_(p(?:re)?|beta|alpha|rc)\\d*)*$", 32),
  ("univers.gentoo", "revision_regexp", ".*(-r\\d+)", 32),
  ("univers.gentoo", "suffix_regexp", "^(alpha|beta|rc|pre|p)(\\d*)$", 32),
  ("univers.rpm", "Vercmp.R_ALPHA", "^([a-zA-Z]+)(.*)$", 0),
  ("univers.rpm", "Vercmp.R_NONALNUMTILDE_CARET", "^([^a-zA-Z0-9~\\^]*)(.*)$", 0),
  ("univers.rpm", "Vercmp.R_NUM", "^([\\d]+)(.*)$", 0)] := by decide

end Univers.Tables
