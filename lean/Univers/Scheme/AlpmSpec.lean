/-
Spec for scheme `alpm`: the order of pacman's `vercmp(8)` written as a sort key.

`[epoch:]version[-pkgrel]`; each of the three fields is cut into maximal runs of digits, of
letters and of other characters ("separators"), and two fields are compared run by run:

* a numeric run is newer than a separator run, which is newer than an alphabetic run;
  numeric runs compare as integers, alphabetic runs as strings, separator runs by length;
* when one field is exhausted, the other one is OLDER if it continues with an alphabetic run
  (`1.0a < 1.0`, `1.0rc < 1.0`) and NEWER otherwise (`1.0 < 1.0.1`, `1.0 < 1.0.a`): the end of a
  field sits between the alphabetic runs and the separators.

So a field is the list of its runs, padded with the `pad` token, compared lexicographically
(`padLex`).  The epoch defaults to `0`.  pacman compares the pkgrel ONLY when both sides have
one (`vercmp 1-2 1` is 0): `keyCmp` says that, and it is not transitive across the two kinds;
`keyCmpStrict` orders "no pkgrel" before every pkgrel and coincides with `keyCmp` whenever both
sides are of the same kind.

The key reads vercmp(8) with separator runs as tokens of their own.  libalpm's C routine does
not tokenise separators (it compares the lengths of the separator runs in front of two segments
and drops trailing separators); the two readings agree on the examples of vercmp(8) but not
everywhere: see `libalpmRpmvercmp` at the end of this file.
-/
import Univers.Scheme.Alpm

namespace Univers.Alpm

open Univers Std

/-- class of one character -/
def cls (c : Char) : Ty :=
  if c.isDigit then .digit else if c.isAlpha then .alpha else .other

/-- maximal runs of characters of one class, each as (first character, rest) -/
def runs : List Char → List (Char × List Char)
  | [] => []
  | c :: cs =>
    match runs cs with
    | [] => [(c, [])]
    | (d, ds) :: rest =>
      if cls c == cls d then (c, d :: ds) :: rest else (c, []) :: (d, ds) :: rest

/-- a token: (rank, letters, number).  alphabetic run `(0, s, 0)` < end of field `(1, [], 0)`
< separator run of length n `(2, [], n)` < numeric run of value n `(3, [], n)` -/
abbrev Tok := Nat × List Char × Nat

def Tok.pad : Tok := (1, [], 0)

def tokOf (r : Char × List Char) : Tok :=
  match cls r.1 with
  | .alpha => (0, r.1 :: r.2, 0)
  | .other => (2, [], (r.1 :: r.2).length)
  | .digit => (3, [], natOfDigits (r.1 :: r.2))

def natCmp (a b : Nat) : Ordering := compare a b

def tokCmp : Tok → Tok → Ordering := lexPair natCmp (lexPair strCmp natCmp)

def toks (s : List Char) : List Tok := (runs s).map tokOf

/-- comparison of two fields -/
def segCmp : List Tok → List Tok → Ordering := padLex tokCmp Tok.pad

/-- (epoch, version, pkgrel) -/
abbrev Key := List Tok × List Tok × Option (List Tok)

def key (r : Raw) : Key :=
  let s := split r
  (toks s.1, toks s.2.1, s.2.2.map toks)

def hasRel (r : Raw) : Bool := (split r).2.2.isSome

/-- pacman: the pkgrel counts only when both sides have one -/
def relCmp : Option (List Tok) → Option (List Tok) → Ordering
  | some a, some b => segCmp a b
  | _, _ => .eq

/-- total variant: no pkgrel sorts before any pkgrel -/
def relCmpStrict : Option (List Tok) → Option (List Tok) → Ordering
  | none, none => .eq
  | none, some _ => .lt
  | some _, none => .gt
  | some a, some b => segCmp a b

def keyCmp : Key → Key → Ordering := lexPair segCmp (lexPair segCmp relCmp)

def keyCmpStrict : Key → Key → Ordering := lexPair segCmp (lexPair segCmp relCmpStrict)

/-! ### lawfulness of the key order -/

instance : TransCmp natCmp := inferInstanceAs (TransCmp (compare : Nat → Nat → Ordering))

instance : TransCmp charCmp :=
  inferInstanceAs (TransCmp (cmpOn Char.toNat natCmp))

instance : TransCmp strCmp := inferInstanceAs (TransCmp (lexList charCmp))

instance : TransCmp tokCmp := inferInstanceAs (TransCmp (lexPair natCmp (lexPair strCmp natCmp)))

instance : TransCmp segCmp := inferInstanceAs (TransCmp (padLex tokCmp Tok.pad))

instance : OrientedCmp relCmp where
  eq_swap := by
    intro a b
    cases a <;> cases b <;> simp [relCmp]
    exact OrientedCmp.eq_swap

instance : TransCmp relCmpStrict where
  eq_swap := by
    intro a b
    cases a <;> cases b <;> simp [relCmpStrict]
    exact OrientedCmp.eq_swap
  isLE_trans := by
    intro a b c
    cases a <;> cases b <;> cases c <;> simp [relCmpStrict, Ordering.isLE]
    exact TransCmp.isLE_trans

instance : OrientedCmp keyCmp :=
  inferInstanceAs (OrientedCmp (lexPair segCmp (lexPair segCmp relCmp)))

instance : TransCmp keyCmpStrict :=
  inferInstanceAs (TransCmp (lexPair segCmp (lexPair segCmp relCmpStrict)))

/-! ### the examples of vercmp(8) -/


/-! ### second reference: the C routine of libalpm

`rpmvercmp` of pacman's `lib/libalpm/version.c`, transcribed from the published source (there is
no pacman binary on the verification image: this transcription is NOT tied to pacman by testing).
It is not used by the key; it documents two classes of inputs on which the Python port
(`arch.vercmp`, which compares separator runs as tokens) and the C routine (which compares the
LENGTHS of the separator runs in front of two segments, and drops trailing separators) part:
see `AlpmThm.rpmvercmp_libalpm_counterexample_*`. -/

def isAlnum (c : Char) : Bool := c.isDigit || c.isAlpha

/-- the code after the `while` loop: `one`, `two` are what is left of the two strings -/
def libalpmFinish (one two : List Char) : Ordering :=
  if one.isEmpty && two.isEmpty then .eq
  else if (one.isEmpty && !(two.head?.any Char.isAlpha)) || one.head?.any Char.isAlpha then .lt
  else .gt

/-- `while (*one && *two) { … }` with `fuel` ≥ number of iterations -/
def libalpmLoop : Nat → List Char → List Char → Ordering
  | 0, _, _ => .eq
  | fuel + 1, one, two =>
    if one.isEmpty || two.isEmpty then libalpmFinish one two
    else
      -- skip non-alphanumeric
      let one' := one.dropWhile (fun c => !isAlnum c)
      let two' := two.dropWhile (fun c => !isAlnum c)
      -- if we ran to the end of either, we are finished with the loop
      if one'.isEmpty || two'.isEmpty then libalpmFinish one' two'
      else
        -- if the separator lengths were different, we are also finished
        let l1 := one.length - one'.length
        let l2 := two.length - two'.length
        if l1 != l2 then (if l1 < l2 then .lt else .gt)
        else
          -- grab the first completely alpha or completely numeric segment
          let isnum := one'.head?.any Char.isDigit
          let p : Char → Bool := if isnum then Char.isDigit else Char.isAlpha
          let s1 := one'.takeWhile p
          let s2 := two'.takeWhile p
          if s1.isEmpty then .lt                         -- "this cannot happen"
          else if s2.isEmpty then (if isnum then .gt else .lt)   -- different types
          else
            let c :=
              if isnum then
                -- throw away leading zeros; whichever number has more digits wins; then strcmp
                let n1 := s1.dropWhile (· == '0')
                let n2 := s2.dropWhile (· == '0')
                (compare n1.length n2.length).then (strCmp n1 n2)
              else strCmp s1 s2
            if c != .eq then c else libalpmLoop fuel (one'.dropWhile p) (two'.dropWhile p)

def libalpmRpmvercmp (a b : List Char) : Ordering :=
  if a == b then .eq else libalpmLoop (a.length + b.length + 1) a b

end Univers.Alpm
