/-
Spec of the OpenSSL version order.

Pre-3.0 ("legacy") versions, OpenSSL release strategy before 3.0: `MAJOR.MINOR.FIX[PATCH]` where
PATCH is a letter (`a` … `z`, then `za` … `zz`) that counts the patch releases of `MAJOR.MINOR.FIX`
— `1.0.1 < 1.0.1a < 1.0.1b < … < 1.0.1z < 1.0.1za` — or a pre-release tag `-alphaN`/`-betaN`,
which comes BEFORE the release `MAJOR.MINOR.FIX` and all its lettered patch releases.
Key: `(major, minor, fix, 0 for a pre-release | 1 otherwise, patch text in ASCII order)`.

From 3.0.0 on OpenSSL follows Semantic Versioning: the SemVer §11 key of `SemverSpec.lean`.
Every legacy version precedes every 3.x version: the key is the ordered sum of the two.

Known gaps between this key (which the code refines, `vercmp_eq_key`) and the OpenSSL history,
recorded in `OpensslThm.lean`: the tags `-preN` (1.1.0-pre1 … pre6) and `-dev` are not
recognised as pre-releases, and `-beta10` sorts before `-beta2` (text order).
No Mathlib.
-/
import Univers.Scheme.Openssl
import Univers.Scheme.SemverSpec

namespace Univers.Openssl

open Std
open Univers.Semver (natCmp charCmp)

namespace Legacy

def Key : Type := Nat × Nat × Nat × Nat × List Char

def key (r : Raw) : Key :=
  (r.major, r.minor, r.build, (if isPrerelease r then 0 else 1), r.patch)

def keyCmp : Key → Key → Ordering :=
  lexPair natCmp (lexPair natCmp (lexPair natCmp (lexPair natCmp (lexList charCmp))))

instance : TransCmp keyCmp :=
  lexPair.instTrans natCmp (lexPair natCmp (lexPair natCmp (lexPair natCmp (lexList charCmp))))

end Legacy

/-- ordered sum of two comparators: everything on the left precedes everything on the right -/
def sumCmp {α β : Type} (c1 : α → α → Ordering) (c2 : β → β → Ordering) :
    α ⊕ β → α ⊕ β → Ordering
  | .inl a, .inl b => c1 a b
  | .inl _, .inr _ => .lt
  | .inr _, .inl _ => .gt
  | .inr a, .inr b => c2 a b

instance sumCmp.instOriented {α β : Type} (c1 : α → α → Ordering) (c2 : β → β → Ordering)
    [OrientedCmp c1] [OrientedCmp c2] : OrientedCmp (sumCmp c1 c2) where
  eq_swap := by
    intro a b
    cases a <;> cases b <;> simp only [sumCmp, Ordering.swap]
    · exact OrientedCmp.eq_swap
    · exact OrientedCmp.eq_swap

instance sumCmp.instTrans {α β : Type} (c1 : α → α → Ordering) (c2 : β → β → Ordering)
    [TransCmp c1] [TransCmp c2] : TransCmp (sumCmp c1 c2) where
  isLE_trans := by
    intro a b c
    cases a <;> cases b <;> cases c <;> simp only [sumCmp]
    · exact TransCmp.isLE_trans
    · intros; rfl
    · intro _ h; cases h
    · intros; rfl
    · intro h; cases h
    · intro h; cases h
    · intro _ h; cases h
    · exact TransCmp.isLE_trans

def Key : Type := Legacy.Key ⊕ Semver.Key

def key : Raw → Key
  | .legacy v => .inl (Legacy.key v)
  | .modern v => .inr (Semver.key v)

def keyCmp : Key → Key → Ordering := sumCmp Legacy.keyCmp Semver.keyCmp

instance : TransCmp keyCmp := sumCmp.instTrans Legacy.keyCmp Semver.keyCmp

end Univers.Openssl
