/-
Theorems for scheme `alpm`: `arch.vercmp` computes the vercmp(8) key order (refinement, C03),
it is a lawful comparator on versions that all have or all lack a pkgrel and NOT across the two
kinds (C01, partial + counterexample), the six operators of `ArchLinuxVersion` agree with it
(C02), `==` implies equal hash keys (C12), `str` round-trips (C11).
-/
import Univers.Scheme.AlpmSpec
import Univers.Vers.Spec

set_option linter.unusedSimpArgs false

namespace Univers.Alpm

open Univers Std

/-! ### `get_type` on runs -/

theorem getType_single (c : Char) : getType [c] = cls c := by
  simp only [getType, cls, List.isEmpty_cons, Bool.not_false, List.all_cons, List.all_nil,
    Bool.and_true, Bool.true_and]

theorem cls_digit {c : Char} : cls c = .digit ↔ c.isDigit = true := by
  simp only [cls]; by_cases h1 : c.isDigit = true <;> by_cases h2 : c.isAlpha = true <;> simp [h1, h2]

theorem not_digit_and_alpha (c : Char) : ¬ (c.isDigit = true ∧ c.isAlpha = true) := by
  simp only [Char.isDigit, Char.isAlpha, Char.isUpper, Char.isLower, Bool.or_eq_true,
    Bool.and_eq_true, decide_eq_true_eq]
  intro h
  have h1 := h.1
  have h2 := h.2
  simp only [UInt32.le_iff_toNat_le] at h1 h2
  simp at h1 h2
  omega

theorem cls_alpha {c : Char} : cls c = .alpha ↔ c.isAlpha = true := by
  have := not_digit_and_alpha c
  simp only [cls]; by_cases h1 : c.isDigit = true <;> by_cases h2 : c.isAlpha = true <;> simp_all

theorem cls_other {c : Char} : cls c = .other ↔ (c.isDigit = false ∧ c.isAlpha = false) := by
  simp only [cls]; by_cases h1 : c.isDigit = true <;> by_cases h2 : c.isAlpha = true <;> simp_all

/-- a run: all characters of the class of the first one -/
def Homog (r : Char × List Char) : Prop := ∀ x ∈ r.2, cls x = cls r.1

theorem getType_homog (d : Char) (ds : List Char) (h : ∀ x ∈ ds, cls x = cls d) :
    getType (d :: ds) = cls d := by
  cases hd : cls d with
  | digit =>
    have h1 : ∀ x ∈ ds, x.isDigit = true := fun x hx => cls_digit.1 ((h x hx).trans hd)
    have h0 := cls_digit.1 hd
    simp only [getType, List.isEmpty_cons, Bool.not_false, Bool.true_and, List.all_cons]
    rw [List.all_eq_true.2 (fun x hx => h1 x hx)]
    simp [h0]
  | alpha =>
    have h1 : ∀ x ∈ ds, x.isAlpha = true := fun x hx => cls_alpha.1 ((h x hx).trans hd)
    have h0 := cls_alpha.1 hd
    have hnd : d.isDigit = false := by
      have := not_digit_and_alpha d
      cases hdd : d.isDigit <;> simp_all
    simp only [getType, List.isEmpty_cons, Bool.not_false, Bool.true_and, List.all_cons]
    rw [List.all_eq_true.2 (fun x hx => h1 x hx)]
    simp [h0, hnd]
  | other =>
    have h0 := cls_other.1 hd
    simp only [getType, List.isEmpty_cons, Bool.not_false, Bool.true_and, List.all_cons]
    simp [h0.1, h0.2]

/-! ### `parse` computes the maximal runs -/

def flat (r : Char × List Char) : List Char := r.1 :: r.2

theorem runs_homog (v : List Char) : ∀ r ∈ runs v, Homog r := by
  induction v with
  | nil => simp [runs]
  | cons c cs ih =>
    simp only [runs]
    cases hr : runs cs with
    | nil => simp [Homog]
    | cons r rest =>
      obtain ⟨d, ds⟩ := r
      rw [hr] at ih
      have hd : Homog (d, ds) := ih _ (by simp)
      by_cases hc : cls c = cls d
      · simp only [hc, beq_self_eq_true, if_true]
        intro r hr'
        simp only [List.mem_cons] at hr'
        cases hr' with
        | inl h =>
          subst h
          intro x hx
          simp only [List.mem_cons] at hx
          cases hx with
          | inl h => subst h; exact hc.symm
          | inr h => exact (hd x h).trans hc.symm
        | inr h => exact ih _ (by simp [h])
      · have hc' : (cls c == cls d) = false := by simp [hc]
        simp only [hc', Bool.false_eq_true, if_false]
        intro r hr'
        simp only [List.mem_cons] at hr'
        cases hr' with
        | inl h => subst h; simp [Homog]
        | inr h => exact ih _ (by simpa using h)

/-- what the loop of `parse` returns when it holds the run `cur` (of class `k`) in `current`
and the rest of the input splits into the runs `rs` -/
def attach (cur : List Char) (k : Ty) : List (Char × List Char) → List (List Char)
  | [] => [cur]
  | (d, ds) :: rest =>
    if cls d == k then (cur ++ d :: ds) :: rest.map flat else cur :: (d :: ds) :: rest.map flat

theorem getType_append_single (cur : List Char) (c : Char) (k : Ty) (hne : cur ≠ [])
    (hk : getType cur = k) (hc : cls c = k) (hall : ∀ x ∈ cur, cls x = k) :
    getType (cur ++ [c]) = k ∧ ∀ x ∈ cur ++ [c], cls x = k := by
  have hall' : ∀ x ∈ cur ++ [c], cls x = k := by
    intro x hx
    simp only [List.mem_append, List.mem_singleton] at hx
    cases hx with
    | inl h => exact hall x h
    | inr h => subst h; exact hc
  refine ⟨?_, hall'⟩
  cases cur with
  | nil => exact absurd rfl hne
  | cons d ds =>
    have hd : cls d = k := hall d (by simp)
    have := getType_homog d (ds ++ [c]) (by
      intro x hx
      rw [hd]
      exact hall' x (by simp only [List.cons_append, List.mem_cons]; exact Or.inr hx))
    simpa [hd] using this

theorem parseLoop_eq (v : List Char) : ∀ (parts : List (List Char)) (cur : List Char) (k : Ty),
    cur ≠ [] → getType cur = k → (∀ x ∈ cur, cls x = k) →
    parseLoop parts cur v = parts ++ attach cur k (runs v) := by
  induction v with
  | nil =>
    intro parts cur k hne _ _
    cases cur with
    | nil => exact absurd rfl hne
    | cons d ds => simp [parseLoop, runs, attach]
  | cons c cs ih =>
    intro parts cur k hne hk hall
    have hemp : cur.isEmpty = false := by cases cur <;> simp_all
    simp only [parseLoop, hemp, Bool.false_eq_true, if_false, getType_single, hk]
    by_cases hc : cls c = k
    · simp only [hc, beq_self_eq_true, if_true]
      obtain ⟨h1, h2⟩ := getType_append_single cur c k hne hk hc hall
      rw [ih parts (cur ++ [c]) k (by simp) h1 h2]
      subst hc
      congr 1
      simp only [runs]
      cases hr : runs cs with
      | nil => simp [attach]
      | cons r rest =>
        obtain ⟨d, ds⟩ := r
        by_cases hd : cls d = cls c
        · simp [attach, hd]
        · have h3 : (cls c == cls d) = false := by
            simp only [beq_eq_false_iff_ne, ne_eq]; exact fun h => hd h.symm
          simp [attach, hd, h3, flat]
    · have h3 : (cls c == k) = false := by simp [hc]
      simp only [h3, Bool.false_eq_true, if_false]
      rw [ih (parts ++ [cur]) [c] (cls c) (by simp) (getType_single c) (by simp)]
      simp only [List.append_assoc, List.cons_append, List.nil_append]
      congr 1
      simp only [runs]
      cases hr : runs cs with
      | nil => simp [attach, hc, flat]
      | cons r rest =>
        obtain ⟨d, ds⟩ := r
        by_cases hd : cls c = cls d
        · have hdk : ¬ cls d = k := hd ▸ hc
          simp [attach, hc, hd, hdk, flat]
        · have h4 : (cls c == cls d) = false := by simp [hd]
          have h5 : (cls d == cls c) = false := by
            simp only [beq_eq_false_iff_ne, ne_eq]; exact fun h => hd h.symm
          simp [attach, hc, h4, h5, flat]

/-- `parse` cuts a string into its maximal runs of one character class -/
theorem parse_eq_runs (v : List Char) : parse v = (runs v).map flat := by
  cases v with
  | nil => simp [parse, parseLoop, runs]
  | cons c cs =>
    simp only [parse, parseLoop, List.isEmpty_nil, if_true, List.nil_append]
    rw [parseLoop_eq cs [] [c] (cls c) (by simp) (getType_single c) (by simp)]
    simp only [List.nil_append, runs]
    cases hr : runs cs with
    | nil => simp [attach, flat]
    | cons r rest =>
      obtain ⟨d, ds⟩ := r
      by_cases hd : cls c = cls d
      · simp [attach, hd, flat]
      · have h4 : (cls c == cls d) = false := by simp [hd]
        have h5 : (cls d == cls c) = false := by
          simp only [beq_eq_false_iff_ne, ne_eq]; exact fun h => hd h.symm
        simp [attach, h4, h5, flat]

/-- `get_type` never meets the empty string (its `assert c` cannot fire) -/
theorem parse_ne_nil (v : List Char) : ∀ p ∈ parse v, p ≠ [] := by
  rw [parse_eq_runs]
  intro p hp
  simp only [List.mem_map] at hp
  obtain ⟨r, _, rfl⟩ := hp
  simp [flat]

/-! ### `rpmvercmp` is the padded lexicographic comparison of the tokens -/

theorem ite_ne_eq_then (r x : Ordering) : (if (r != .eq) = true then r else x) = r.then x := by
  cases r <;> rfl

theorem then_eq_right (r : Ordering) : r.then .eq = r := by cases r <;> rfl

theorem rk01 : compare (0 : Nat) 1 = .lt := by decide
theorem rk02 : compare (0 : Nat) 2 = .lt := by decide
theorem rk03 : compare (0 : Nat) 3 = .lt := by decide
theorem rk10 : compare (1 : Nat) 0 = .gt := by decide
theorem rk12 : compare (1 : Nat) 2 = .lt := by decide
theorem rk13 : compare (1 : Nat) 3 = .lt := by decide
theorem rk20 : compare (2 : Nat) 0 = .gt := by decide
theorem rk21 : compare (2 : Nat) 1 = .gt := by decide
theorem rk23 : compare (2 : Nat) 3 = .lt := by decide
theorem rk30 : compare (3 : Nat) 0 = .gt := by decide
theorem rk31 : compare (3 : Nat) 1 = .gt := by decide
theorem rk32 : compare (3 : Nat) 2 = .gt := by decide

theorem rpmLoop_eq (ps : List (Char × List Char)) : ∀ (qs : List (Char × List Char)),
    (∀ r ∈ ps, Homog r) → (∀ r ∈ qs, Homog r) →
    rpmLoop (ps.map flat) (qs.map flat) = segCmp (ps.map tokOf) (qs.map tokOf) := by
  induction ps with
  | nil =>
    intro qs _ hq
    cases qs with
    | nil => simp [rpmLoop, segCmp, padLex]
    | cons q qs =>
      obtain ⟨d, ds⟩ := q
      have hg := getType_homog d ds (hq (d, ds) (by simp))
      simp only [List.map_nil, List.map_cons, rpmLoop, flat, hg, segCmp, padLex]
      cases h : cls d <;> simp [tokOf, h, tokCmp, lexPair, natCmp, Tok.pad, rk01, rk02, rk03, rk10, rk12, rk13, rk20, rk21, rk23, rk30, rk31, rk32]
  | cons p ps ih =>
    intro qs hp hq
    obtain ⟨c, cs⟩ := p
    have hgp := getType_homog c cs (hp (c, cs) (by simp))
    cases qs with
    | nil =>
      simp only [List.map_nil, List.map_cons, rpmLoop, flat, hgp, segCmp, padLex]
      cases h : cls c <;> simp [tokOf, h, tokCmp, lexPair, natCmp, Tok.pad, rk01, rk02, rk03, rk10, rk12, rk13, rk20, rk21, rk23, rk30, rk31, rk32]
    | cons q qs =>
      obtain ⟨d, ds⟩ := q
      have hgq := getType_homog d ds (hq (d, ds) (by simp))
      have ih' := ih qs (fun r hr => hp r (by simp [hr])) (fun r hr => hq r (by simp [hr]))
      simp only [segCmp] at ih'
      simp only [List.map_cons, rpmLoop, flat, hgp, hgq, segCmp, padLex, ih', ite_ne_eq_then]
      cases h1 : cls c <;> cases h2 : cls d <;>
        simp [tokOf, h1, h2, tokCmp, lexPair, natCmp, strCmp, lexList, then_eq_right, rk01, rk02, rk03, rk10, rk12, rk13, rk20, rk21, rk23, rk30, rk31, rk32]

theorem rpmvercmp_eq (v1 v2 : List Char) : rpmvercmp v1 v2 = segCmp (toks v1) (toks v2) := by
  simp only [rpmvercmp, parse_eq_runs, toks]
  exact rpmLoop_eq _ _ (runs_homog v1) (runs_homog v2)

/-! ### refinement (C03) -/

theorem ite_eq_then (r x : Ordering) : (if (r == .eq) = true then x else r) = r.then x := by
  cases r <;> rfl

/-- REFINEMENT: `arch.vercmp` orders by the vercmp(8) key -/
theorem vercmp_eq_key (a b : Raw) : vercmp a b = keyCmp (key a) (key b) := by
  simp only [vercmp, keyCmp, key, lexPair, ← rpmvercmp_eq]
  generalize rpmvercmp (split a).1 (split b).1 = r0
  generalize rpmvercmp (split a).2.1 (split b).2.1 = r1
  cases (split a).2.2 <;> cases (split b).2.2 <;> cases r0 <;> cases r1 <;>
    simp [relCmp, rpmvercmp_eq]

/-- on two versions of the same kind (both with, or both without a pkgrel) the order is the
strict key order -/
theorem keyCmp_eq_strict (a b : Raw) (h : hasRel a = hasRel b) :
    keyCmp (key a) (key b) = keyCmpStrict (key a) (key b) := by
  simp only [keyCmp, keyCmpStrict, key, lexPair, hasRel] at *
  congr 2
  cases h1 : (split a).2.2 <;> cases h2 : (split b).2.2 <;> simp_all [relCmp, relCmpStrict]

theorem vercmp_eq_strict (a b : Raw) (h : hasRel a = hasRel b) :
    vercmp a b = keyCmpStrict (key a) (key b) := by
  rw [vercmp_eq_key, keyCmp_eq_strict a b h]

/-! ### comparator laws (C01) -/

instance : OrientedCmp vercmp where
  eq_swap := by
    intro a b
    rw [vercmp_eq_key, vercmp_eq_key]
    exact OrientedCmp.eq_swap

/-- transitivity on versions of one kind: all with a pkgrel, or all without -/
theorem vercmp_isLE_trans_partial (a b c : Raw) (hab : hasRel a = hasRel b) (hbc : hasRel b = hasRel c) :
    (vercmp a b).isLE → (vercmp b c).isLE → (vercmp a c).isLE := by
  rw [vercmp_eq_strict a b hab, vercmp_eq_strict b c hbc, vercmp_eq_strict a c (hab.trans hbc)]
  exact TransCmp.isLE_trans

example : hasRel "1.0-1".toList = hasRel "1.0-2".toList ∧ hasRel "1.0-2".toList = hasRel "2-1".toList := by decide

/-- versions with a pkgrel -/
abbrev WithRel := { r : Raw // hasRel r = true }
/-- versions without a pkgrel -/
abbrev NoRel := { r : Raw // hasRel r = false }

instance : TransCmp (cmpOn (Subtype.val : WithRel → Raw) vercmp) where
  eq_swap := by intro a b; exact OrientedCmp.eq_swap (cmp := vercmp)
  isLE_trans := by
    intro a b c
    exact vercmp_isLE_trans_partial a.1 b.1 c.1 (a.2.trans b.2.symm) (b.2.trans c.2.symm)

instance : TransCmp (cmpOn (Subtype.val : NoRel → Raw) vercmp) where
  eq_swap := by intro a b; exact OrientedCmp.eq_swap (cmp := vercmp)
  isLE_trans := by
    intro a b c
    exact vercmp_isLE_trans_partial a.1 b.1 c.1 (a.2.trans b.2.symm) (b.2.trans c.2.symm)

/-- pacman's rule "the pkgrel counts only when both sides have one" is not transitive:
`1-2 == 1 == 1-1` but `1-2 > 1-1` -/
theorem vercmp_trans_counterexample :
    (vercmp "1-2".toList "1".toList).isLE = true ∧ (vercmp "1".toList "1-1".toList).isLE = true
    ∧ (vercmp "1-2".toList "1-1".toList).isLE = false := by decide

theorem not_transCmp_vercmp : ¬ TransCmp vercmp := by
  intro h
  have := h.isLE_trans (a := "1-2".toList) (b := "1".toList) (c := "1-1".toList) (by decide) (by decide)
  exact absurd this (by decide)

/-- equality of versions is not transitive either: `1-1 == 1`, `1 == 1-2`, `1-1 != 1-2` -/
theorem verOps_eq_trans_counterexample :
    verOps.eq "1-1".toList "1".toList = true ∧ verOps.eq "1".toList "1-2".toList = true
    ∧ verOps.eq "1-1".toList "1-2".toList = false := by decide

/-! ### operators (C02), hash (C12), str (C11) -/

/-- C02: the six operators of `ArchLinuxVersion` are the ones induced by `arch.vercmp` -/
theorem verOps_lawful : Lawful verOps vercmp := by
  refine ⟨fun _ _ => rfl, fun _ _ => rfl, fun _ _ => rfl, fun _ _ => rfl, fun _ _ => rfl, ?_⟩
  intro a b
  simp only [verOps]
  cases vercmp a b <;> rfl

/-! #### C12: equal versions have equal hash keys -/

theorem lexList_eq_eq {α} (cmp : α → α → Ordering) (hc : ∀ a b, cmp a b = .eq → a = b) :
    ∀ l1 l2 : List α, lexList cmp l1 l2 = .eq → l1 = l2 := by
  intro l1
  induction l1 with
  | nil => intro l2 h; cases l2 <;> simp_all [lexList]
  | cons x xs ih =>
    intro l2 h
    cases l2 with
    | nil => simp [lexList] at h
    | cons y ys =>
      simp only [lexList, Ordering.then_eq_eq] at h
      rw [hc x y h.1, ih ys h.2]

theorem padLex_eq_eq {α} (cmp : α → α → Ordering) (d : α) (hc : ∀ a b, cmp a b = .eq → a = b) :
    ∀ l1 l2 : List α, (∀ x ∈ l1, cmp x d ≠ .eq) → (∀ x ∈ l2, cmp d x ≠ .eq) →
    padLex cmp d l1 l2 = .eq → l1 = l2 := by
  intro l1
  induction l1 with
  | nil =>
    intro l2 _ h2 h
    cases l2 with
    | nil => rfl
    | cons y ys =>
      simp only [padLex, Ordering.then_eq_eq] at h
      exact absurd h.1 (h2 y (by simp))
  | cons x xs ih =>
    intro l2 h1 h2 h
    cases l2 with
    | nil =>
      simp only [padLex, Ordering.then_eq_eq] at h
      exact absurd h.1 (h1 x (by simp))
    | cons y ys =>
      simp only [padLex, Ordering.then_eq_eq] at h
      rw [hc x y h.1, ih ys (fun z hz => h1 z (by simp [hz])) (fun z hz => h2 z (by simp [hz])) h.2]

theorem charCmp_eq_eq (a b : Char) (h : charCmp a b = .eq) : a = b := by
  simp only [charCmp, Nat.compare_eq_eq] at h
  exact Char.toNat_inj.1 h

theorem strCmp_eq_eq (a b : List Char) (h : strCmp a b = .eq) : a = b :=
  lexList_eq_eq charCmp charCmp_eq_eq a b h

theorem tokCmp_eq_eq (a b : Tok) (h : tokCmp a b = .eq) : a = b := by
  obtain ⟨a1, a2, a3⟩ := a
  obtain ⟨b1, b2, b3⟩ := b
  simp only [tokCmp, lexPair, Ordering.then_eq_eq, natCmp, Nat.compare_eq_eq] at h
  rw [h.1, strCmp_eq_eq _ _ h.2.1, h.2.2]

theorem tokOf_rank_ne_pad (r : Char × List Char) : (tokOf r).1 ≠ 1 := by
  simp only [tokOf]
  cases cls r.1 <;> simp

theorem toks_ne_pad (s : List Char) :
    (∀ t ∈ toks s, tokCmp t Tok.pad ≠ .eq) ∧ (∀ t ∈ toks s, tokCmp Tok.pad t ≠ .eq) := by
  constructor <;>
  · intro t ht h
    simp only [toks, List.mem_map] at ht
    obtain ⟨r, _, rfl⟩ := ht
    have := tokCmp_eq_eq _ _ h
    have hr := tokOf_rank_ne_pad r
    simp only [Tok.pad] at this
    first
      | exact hr (by rw [this])
      | exact hr (by rw [← this])

theorem segCmp_toks_eq (s1 s2 : List Char) (h : segCmp (toks s1) (toks s2) = .eq) :
    toks s1 = toks s2 :=
  padLex_eq_eq tokCmp Tok.pad tokCmp_eq_eq _ _ (toks_ne_pad s1).1 (toks_ne_pad s2).2 h

/-- the numbers among the tokens -/
def tokNum (t : Tok) : Option Nat := if t.1 == 3 then some t.2.2 else none

theorem runs_head (c : Char) (cs : List Char) : ∃ ds rest, runs (c :: cs) = (c, ds) :: rest := by
  simp only [runs]
  cases runs cs with
  | nil => exact ⟨[], [], rfl⟩
  | cons r rest =>
    obtain ⟨d, ds⟩ := r
    by_cases h : (cls c == cls d) = true
    · exact ⟨d :: ds, rest, by simp [h]⟩
    · exact ⟨[], (d, ds) :: rest, by simp [h]⟩

/-- `re.findall("[0-9]+", s)` returns the numeric runs -/
theorem digitRuns_eq (s : List Char) :
    digitRuns s = ((runs s).filter (fun r => cls r.1 == .digit)).map flat := by
  induction s with
  | nil => simp [digitRuns, runs]
  | cons c cs ih =>
    simp only [digitRuns, runs]
    cases cs with
    | nil =>
      by_cases hc : c.isDigit = true
      · simp [hc, digitRuns, runs, cls_digit.2 hc, flat]
      · have : cls c ≠ .digit := fun h => hc (cls_digit.1 h)
        simp [hc, digitRuns, runs, this]
    | cons d ds =>
      obtain ⟨es, rest, hr⟩ := runs_head d ds
      rw [hr] at ih ⊢
      simp only [List.head?_cons, Option.any_some]
      by_cases hc : c.isDigit = true
      · have hcc := cls_digit.2 hc
        by_cases hd : d.isDigit = true
        · have hdd := cls_digit.2 hd
          simp only [hc, hd, if_true, ih, hcc, hdd, beq_self_eq_true, List.filter_cons_of_pos,
            List.map_cons, flat]
        · have hdd : cls d ≠ .digit := fun h => hd (cls_digit.1 h)
          have hne : (Ty.digit == cls d) = false := by
            simp only [beq_eq_false_iff_ne, ne_eq]; exact fun h => hdd h.symm
          simp [hc, hd, ih, hcc, hne, flat]
      · have hcc : cls c ≠ .digit := fun h => hc (cls_digit.1 h)
        have hcb : (cls c == Ty.digit) = false := by simp [hcc]
        simp only [hc, Bool.false_eq_true, if_false, ih]
        by_cases he : (cls c == cls d) = true
        · have hdd : (cls d == Ty.digit) = false := by
            rw [← beq_iff_eq.1 he]; exact hcb
          simp [he, hcb, hdd]
        · simp [he, hcb]

theorem numbers_eq_toks (s : List Char) : numbers s = (toks s).filterMap tokNum := by
  simp only [numbers, digitRuns_eq, toks]
  induction runs s with
  | nil => rfl
  | cons r rest ih =>
    cases h : cls r.1 <;> simp [h, tokOf, tokNum, flat, ih]

/-- C12: `==` implies equal hash keys: equal versions have the same epoch and version tokens,
and the hash key is made of the numeric ones -/
theorem eq_imp_hash (a b : Raw) : verOps.eq a b = true → hashKey a = hashKey b := by
  intro h
  have hv : vercmp a b = .eq := by simpa [verOps] using h
  rw [vercmp_eq_key] at hv
  simp only [keyCmp, key, lexPair, Ordering.then_eq_eq] at hv
  simp only [hashKey, numbers_eq_toks, segCmp_toks_eq _ _ hv.1, segCmp_toks_eq _ _ hv.2.1]

theorem hashable_true : hashable = true := rfl

/-- the hash is coarser than `==`: the pkgrel, letters and separators are not hashed -/
example : hashKey "1.0-1".toList = hashKey "1.0-2".toList ∧ verOps.eq "1.0-1".toList "1.0-2".toList = false := by
  decide

/-- what the constructor establishes -/
def WellFormed (r : Raw) : Prop := r ≠ [] ∧ (∀ c ∈ r, isWs c = false) ∧ (∀ c, r.head? = some c → isV c = false)

instance (r : Raw) : Decidable (WellFormed r) := by unfold WellFormed; cases r <;> infer_instance

theorem construct_wf (s : List Char) (r : Raw) (h : construct s = .ok r) : WellFormed r := by
  simp only [construct] at h
  by_cases he : (normalize s).isEmpty = true
  · simp [he] at h
  · simp only [he, Bool.false_eq_true, if_false, Except.ok.injEq] at h
    subst h
    refine ⟨by simpa using he, ?_, ?_⟩
    · intro c hc
      have := (List.dropWhile_sublist isV).subset hc
      simp only [removeSpaces, List.mem_filter] at this
      simpa using this.2
    · intro c hc
      simp only [normalize] at hc
      cases hd : List.dropWhile isV (removeSpaces s) with
      | nil => simp [hd] at hc
      | cons x xs =>
        simp only [hd, List.head?_cons, Option.some.injEq] at hc
        subst hc
        have := List.head?_dropWhile_not isV (removeSpaces s)
        simpa [hd] using this

/-- C11: `ArchLinuxVersion(str(v))` rebuilds the same value -/
theorem str_roundtrip (r : Raw) (h : WellFormed r) : construct (str r) = .ok r := by
  obtain ⟨hne, hws, hv⟩ := h
  have h1 : removeSpaces r = r := by
    simp only [removeSpaces]
    exact List.filter_eq_self.2 (fun c hc => by simp [hws c hc])
  have h2 : normalize r = r := by
    simp only [normalize, h1]
    cases r with
    | nil => rfl
    | cons c cs => simp [List.dropWhile, hv c rfl]
  simp only [construct, str, h2]
  cases r with
  | nil => exact absurd rfl hne
  | cons c cs => simp

/-! ### the examples of vercmp(8), read on the key order -/

section
private def kc (a b : String) : Ordering := keyCmp (key a.toList) (key b.toList)
private theorem kc_eq (a b : String) : kc a b = vercmp a.toList b.toList := (vercmp_eq_key _ _).symm

example : [kc "1.0a" "1.0b", kc "1.0b" "1.0beta", kc "1.0beta" "1.0p", kc "1.0p" "1.0pre",
    kc "1.0pre" "1.0rc", kc "1.0rc" "1.0", kc "1.0" "1.0.a", kc "1.0.a" "1.0.1"]
    = List.replicate 8 .lt := by simp only [kc_eq]; decide
example : [kc "1" "1.0", kc "1.0" "1.1", kc "1.1" "1.1.1", kc "1.1.1" "1.2", kc "1.2" "2.0",
    kc "2.0" "3.0.0"] = List.replicate 6 .lt := by simp only [kc_eq]; decide
example : kc "1.5-1" "1.5" = .eq ∧ kc "1.5-1" "1.5-2" = .lt ∧ kc "1:1.0" "2.0" = .gt
    ∧ kc "0:1.0" "1.0" = .eq := by simp only [kc_eq]; decide
end

/-! ### the Python port against the C routine of libalpm (see `AlpmSpec`) -/

section
private def lc (a b : String) : Ordering := libalpmRpmvercmp a.toList b.toList

/-- the transcription of the C routine gives the order of the examples of vercmp(8) -/
example : [lc "1.0a" "1.0b", lc "1.0b" "1.0beta", lc "1.0beta" "1.0p", lc "1.0p" "1.0pre",
    lc "1.0pre" "1.0rc", lc "1.0rc" "1.0", lc "1.0" "1.0.a", lc "1.0.a" "1.0.1",
    lc "1" "1.0", lc "1.0" "1.1", lc "1.1" "1.1.1", lc "1.1.1" "1.2", lc "1.2" "2.0", lc "2.0" "3.0.0"]
    = List.replicate 14 .lt := by decide
end

/-- a separator run against a numeric run: libalpm compares the lengths of the separator runs in
front of the two segments (`a.1` is newer than `a1`), the port makes the numeric token win -/
theorem rpmvercmp_libalpm_counterexample_sep :
    rpmvercmp "a.1".toList "a1".toList = .lt ∧ libalpmRpmvercmp "a.1".toList "a1".toList = .gt := by
  decide

/-- trailing separators: libalpm drops them (`1.` and `1..` are equal), the port compares their
lengths -/
theorem rpmvercmp_libalpm_counterexample_trailing :
    rpmvercmp "1.".toList "1..".toList = .lt ∧ libalpmRpmvercmp "1.".toList "1..".toList = .eq := by
  decide

end Univers.Alpm

section AxiomAudit
open Univers.Alpm
#print axioms vercmp_eq_key
#print axioms vercmp_isLE_trans_partial
#print axioms not_transCmp_vercmp
#print axioms verOps_lawful
#print axioms eq_imp_hash
#print axioms str_roundtrip
#print axioms construct_wf
#print axioms parse_ne_nil
#print axioms rpmvercmp_libalpm_counterexample_sep
end AxiomAudit
