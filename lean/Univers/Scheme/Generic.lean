/-
Layer A — `GenericVersion`: the value is the normalized string itself; the six operators are
the attrs-generated ones on the 1-tuple `(value,)`, i.e. Python `str` comparison
(code-point lexicographic).  `is_valid` is `bool(string)`.
-/
import Univers.Basic.PadLex
import Univers.Py.Attrs
import Univers.Vers.Spec

namespace Univers.Generic

open Univers Std

abbrev Raw := List Char

inductive PErr | invalid | other (name : String)

/-- ASCII whitespace removed by `"".join(s.split())` -/
def isWs (c : Char) : Bool :=
  c.toNat == 32 || (9 ≤ c.toNat && c.toNat ≤ 13) || (28 ≤ c.toNat && c.toNat ≤ 31)

/-- `Version.normalize`: remove all whitespace, then `lstrip("vV")` -/
def normalize (s : List Char) : List Char :=
  (s.filter (fun c => !isWs c)).dropWhile (fun c => c == 'v' || c == 'V')

def construct (s : List Char) : Except PErr Raw :=
  let n := normalize s
  if n.isEmpty then .error .invalid else .ok n

def str (r : Raw) : List Char := r

def charCmp : Char → Char → Ordering := cmpOn Char.toNat (fun a b : Nat => compare a b)

instance : TransCmp charCmp :=
  have : TransCmp (fun a b : Nat => compare a b) := inferInstance
  inferInstanceAs (TransCmp (cmpOn Char.toNat (fun a b : Nat => compare a b)))

/-- Python `str` three-way comparison: code points, shorter prefix first -/
def vercmp : Raw → Raw → Ordering := lexList charCmp

instance : TransCmp vercmp := inferInstanceAs (TransCmp (lexList charCmp))

/-- `str.__lt__` etc. -/
def valOps : VOps Raw := Py.opsOfSign vercmp

def verOps : VOps Raw := Py.attrsOps valOps

def hashable : Bool := true
def hashKey (r : Raw) : List Char := r

theorem verOps_lawful : Lawful verOps vercmp := by
  refine ⟨?_, ?_, ?_, ?_, ?_, ?_⟩ <;> intro a b <;>
    simp only [verOps, Py.attrsOps, valOps, Py.opsOfSign] <;> cases vercmp a b <;> rfl

theorem charCmp_eq {a b : Char} (h : charCmp a b = .eq) : a = b := by
  simp only [charCmp, cmpOn] at h
  have : a.toNat = b.toNat := Nat.compare_eq_eq.mp h
  exact Char.toNat_inj.mp this

theorem vercmp_eq : ∀ (a b : Raw), vercmp a b = .eq → a = b
  | [], [], _ => rfl
  | [], _ :: _, h => by simp [vercmp, lexList] at h
  | _ :: _, [], h => by simp [vercmp, lexList] at h
  | x :: xs, y :: ys, h => by
    simp only [vercmp, lexList] at h
    cases hc : charCmp x y with
    | lt => simp [hc, Ordering.then] at h
    | gt => simp [hc, Ordering.then] at h
    | eq =>
      simp only [hc, Ordering.then] at h
      rw [charCmp_eq hc, vercmp_eq xs ys h]

theorem eq_imp_hash (a b : Raw) : verOps.eq a b = true → hashKey a = hashKey b := by
  intro h
  have : vercmp a b = .eq := by
    simp only [verOps, Py.attrsOps, valOps, Py.opsOfSign, beq_iff_eq] at h; exact h
  exact vercmp_eq a b this

end Univers.Generic
