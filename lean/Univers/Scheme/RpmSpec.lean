/-
Spec of the `rpm` scheme: the order of rpm's `rpmvercmp()` (rpmio/rpmvercmp.c, since rpm 4.15
with the caret) on epoch, version, release, written as a sort key.

rpm's published procedure.  A label is `[epoch:]version[-release]`; the epoch is an integer
(absent = 0) and is compared first, as a number; then the versions, then the releases, each with
`rpmvercmp`:

* the string is cut into segments: a maximal run of ASCII digits, a maximal run of ASCII letters,
  a `~`, a `^`; every other character only separates segments and is otherwise ignored;
* segments are compared pairwise from the left;
* `~` sorts before everything, even before the end of the string (`1.0~rc1 < 1.0`);
* `^` sorts after the end of the string but before any other segment (`1.0 < 1.0^git1 < 1.0.1`);
* a numeric segment is newer than an alphabetic one; two numeric segments compare as integers
  (leading zeros do not count); two alphabetic segments compare like `strcmp`;
* when all common segments are equal, the string with segments left is the newer one
  (modulo the two rules for `~` and `^`).

Hence the key: the list of segments, compared lexicographically after padding the shorter list
with the marker `fin`, where `tilde < fin < caret < alpha _ < num _`.

univers has no "absent release": `from_evr` gives the empty string, and the empty string has no
segments.
-/
import Univers.Basic.PadLex
import Univers.Scheme.Rpm

namespace Univers.Rpm

open Univers Std

/-- one segment of a version or release string; `fin` is the end-of-string marker used as padding -/
inductive Seg where
  | tilde
  | fin
  | caret
  | alpha (s : List Char)
  | num (n : Nat)
  deriving DecidableEq, Repr

/-- `tilde < fin < caret < alpha < num`; letters like `strcmp`; numbers by value -/
def Seg.key : Seg → Nat × (List Char × Nat)
  | .tilde => (0, [], 0)
  | .fin => (1, [], 0)
  | .caret => (2, [], 0)
  | .alpha s => (3, s, 0)
  | .num n => (4, [], n)

def charCmp : Char → Char → Ordering := fun a b => compare a b
def natCmp : Nat → Nat → Ordering := fun a b => compare a b
def intCmp : Int → Int → Ordering := fun a b => compare a b

def segCmp : Seg → Seg → Ordering :=
  cmpOn Seg.key (lexPair natCmp (lexPair (lexList charCmp) natCmp))

/-- the segments of a version or release string -/
def segs (s : List Char) : List Seg :=
  match s with
  | [] => []
  | c :: r =>
    if c == '~' then .tilde :: segs r
    else if c == '^' then .caret :: segs r
    else if c.isDigit then
      .num (Nat.ofDigitChars 10 ((c :: r).takeWhile Char.isDigit) 0) :: segs (r.dropWhile Char.isDigit)
    else if c.isAlpha then
      .alpha ((c :: r).takeWhile Char.isAlpha) :: segs (r.dropWhile Char.isAlpha)
    else segs r
termination_by s.length
decreasing_by
  all_goals simp_wf
  all_goals first
    | omega
    | (have := (List.dropWhile_sublist (l := r) Char.isDigit).length_le; omega)
    | (have := (List.dropWhile_sublist (l := r) Char.isAlpha).length_le; omega)

/-- (epoch, segments of the version, segments of the release) -/
def Key : Type := Int × (List Seg × List Seg)

def key (r : Raw) : Key := (r.epoch, segs r.version, segs r.release)

def segsCmp : List Seg → List Seg → Ordering := padLex segCmp .fin

def keyCmp : Key → Key → Ordering := lexPair intCmp (lexPair segsCmp segsCmp)

instance : TransCmp charCmp := inferInstanceAs (TransCmp (fun (a b : Char) => compare a b))
instance : TransCmp natCmp := inferInstanceAs (TransCmp (fun (a b : Nat) => compare a b))
instance : TransCmp intCmp := inferInstanceAs (TransCmp (fun (a b : Int) => compare a b))
instance : TransCmp segCmp := inferInstanceAs (TransCmp (cmpOn _ _))
instance : TransCmp segsCmp := inferInstanceAs (TransCmp (padLex _ _))
instance : TransCmp keyCmp := inferInstanceAs (TransCmp (lexPair _ _))

end Univers.Rpm
