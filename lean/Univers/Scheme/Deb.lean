/-
Layer A — MODEL of the Debian scheme: `univers.versions.DebianVersion` and the parts of
`univers/debian.py` it runs through (`Version.from_string`, `is_valid_debian_version`,
`Version.__str__`, the hand-written dunders of `debian.Version`, `compare_versions`,
`compare_version_objects`, `compare_strings`, `get_digit_prefix`, `get_non_digit_prefix`,
`characters_order`).

The model mirrors the Python as it is, including its defects; what the order *should* be is in
`DebSpec.lean`.  Strings are `List Char`; the domain of the theorems is ASCII text.
-/
import Univers.Basic.PadLex
import Univers.Vers.Model
import Univers.Py.Attrs

namespace Univers.Deb

open Univers

/-- `debian.Version`: the attrs fields `epoch` (an `int`), `upstream`, `revision` (two `str`;
`from_string` never leaves `revision` at `None`). -/
structure Raw where
  epoch : Nat
  upstream : List Char
  revision : List Char
  deriving DecidableEq, Repr, Inhabited

inductive PErr where
  | invalid
  | other (name : String)
  deriving DecidableEq, Repr

/-! ### `Version.normalize` (not overridden by `DebianVersion`) -/

/-- ASCII characters on which `str.split()` splits: TAB LF VT FF CR, FS GS RS US, SPACE. -/
def isPySpace (c : Char) : Bool :=
  (9 ≤ c.toNat && c.toNat ≤ 13) || (28 ≤ c.toNat && c.toNat ≤ 32)

/-- `utils.remove_spaces`: `"".join(string.split())` -/
def removeSpaces (s : List Char) : List Char := s.filter (fun c => !isPySpace c)

/-- `.lstrip("vV")` -/
def lstripV (s : List Char) : List Char := s.dropWhile (fun c => c == 'v' || c == 'V')

/-- `Version.normalize`: `remove_spaces(string).lstrip("vV")` -/
def normalize (s : List Char) : List Char := lstripV (removeSpaces s)

/-! ### `is_valid_debian_version` -/

/-- the class `[A-Za-z0-9\.\+\~\-]` -/
def allowedChar (c : Char) : Bool :=
  c.isAlpha || c.isDigit || c == '.' || c == '+' || c == '~' || c == '-'

/-- `\d([A-Za-z0-9.+~-]+|[A-Za-z0-9.+~]+-[A-Za-z0-9+.~]+)?$` on the rest of the string: the
language of the second alternative is included in that of the first, so the group is
"any number of allowed characters". -/
def matchBody : List Char → Bool
  | c :: rest => c.isDigit && rest.all allowedChar
  | [] => false

/-- the whole regular expression `^(\d+:)?\d(…)?$`, matched against a string without
whitespace (so that `$` means the end of the string).  `\d+` of the optional group must be
followed by `:`, hence it is the maximal run of digits; when the group is skipped the body
must match from the start. -/
def isValid (s : List Char) : Bool :=
  (match s.takeWhile Char.isDigit, s.dropWhile Char.isDigit with
   | _ :: _, ':' :: t => matchBody t
   | _, _ => false) || matchBody s

/-! ### `debian.Version.from_string` -/

/-- `str.strip()` (the same whitespace as `str.split()`) -/
def strip (s : List Char) : List Char :=
  ((s.dropWhile isPySpace).reverse.dropWhile isPySpace).reverse

/-- `version.partition(":")` when `":" in version`: text before and after the FIRST `sep`;
`none` when there is no `sep`. -/
def partition (sep : Char) : List Char → Option (List Char × List Char)
  | [] => none
  | x :: xs =>
    if x == sep then some ([], xs)
    else match partition sep xs with
      | some (a, b) => some (x :: a, b)
      | none => none

/-- `version.rpartition("-")` when `"-" in version`: text before and after the LAST `sep`;
`none` when there is no `sep`. -/
def rpartition (sep : Char) : List Char → Option (List Char × List Char)
  | [] => none
  | x :: xs =>
    match rpartition sep xs with
    | some (a, b) => some (x :: a, b)
    | none => if x == sep then some ([], xs) else none

/-- value of a string of ASCII digits, most significant first -/
def digitsVal (acc : Nat) (ds : List Char) : Nat :=
  ds.foldl (fun a c => a * 10 + (c.toNat - 48)) acc

/-- `int(epoch)` on the text before the colon.  CPython ≥ 3.11 refuses to convert more than
`sys.int_max_str_digits` = 4300 digits and raises `ValueError` (leading zeros count).
Anything that is not a non-empty string of digits also raises `ValueError` here (after
`is_valid` the text is always a non-empty string of digits). -/
def pyInt (ds : List Char) : Except PErr Nat :=
  if ds.isEmpty || !ds.all Char.isDigit then .error (.other "ValueError")
  else if ds.length > 4300 then .error (.other "ValueError")
  else .ok (digitsVal 0 ds)

/-- the part of `from_string` after the epoch has been removed -/
def splitRevision (epoch : Nat) (v : List Char) : Raw :=
  match rpartition '-' v with
  | some (upstream, revision) => ⟨epoch, upstream, revision⟩
  | none => ⟨epoch, v, ['0']⟩

/-- `debian.Version.from_string` on a `str` -/
def fromString (version : List Char) : Except PErr Raw :=
  let version := strip version
  if version.isEmpty then .error (.other "ValueError")
  else if !isValid version then .error (.other "ValueError")
  else match partition ':' version with
    | some (epoch, rest) =>
      match pyInt epoch with
      | .ok e => .ok (splitRevision e rest)
      | .error e => .error e
    | none => .ok (splitRevision 0 version)

/-- `DebianVersion(string)`: `__attrs_post_init__` = `normalize`, `is_valid`
(`debian.Version.is_valid`), `build_value` (`debian.Version.from_string`). -/
def construct (s : List Char) : Except PErr Raw :=
  let n := normalize s
  if !isValid n then .error .invalid
  else
    -- FIXED CODE: `DebianVersion.is_valid` also builds the value and answers False when that
    -- raises ValueError (an epoch with more than 4300 digits)
    match fromString n with
    | .ok r => .ok r
    | .error _ => .error .invalid

/-! ### `debian.Version.__str__` -/

/-- the character of one decimal digit -/
def digitChar : Nat → Char
  | 0 => '0' | 1 => '1' | 2 => '2' | 3 => '3' | 4 => '4'
  | 5 => '5' | 6 => '6' | 7 => '7' | 8 => '8' | _ => '9'

/-- decimal digits of `n`, most significant first, in front of `acc` (`fuel` > number of digits) -/
def natDigitsAux : Nat → Nat → List Char → List Char
  | 0, _, acc => acc
  | fuel + 1, n, acc =>
    if n / 10 = 0 then digitChar (n % 10) :: acc
    else natDigitsAux fuel (n / 10) (digitChar (n % 10) :: acc)

/-- `f"{n}"` for a non-negative `int` -/
def natDigits (n : Nat) : List Char := natDigitsAux (n + 1) n []

/-- `debian.Version.__str__` (`Version.__str__` is `str(self.value)`).
`if self.epoch` is "epoch ≠ 0";
`if self.revision not in (None, "0") or "-" in (self.upstream or "")`: a `0` revision is
printed when the upstream contains a hyphen. -/
def str (r : Raw) : List Char :=
  let version := if r.epoch != 0 then natDigits r.epoch ++ ':' :: r.upstream else r.upstream
  if r.revision != ['0'] || r.upstream.contains '-' then version ++ '-' :: r.revision else version

/-! ### `characters_order`, `get_non_digit_prefix`, `get_digit_prefix`, `compare_strings` -/

/-- the `characters_order` dict on one-character keys (`""` is `emptyOrder`) -/
def charactersOrder : Char → Option Nat
  | '~' => some 0
  | 'A' => some 2 | 'B' => some 3 | 'C' => some 4 | 'D' => some 5 | 'E' => some 6
  | 'F' => some 7 | 'G' => some 8 | 'H' => some 9 | 'I' => some 10 | 'J' => some 11
  | 'K' => some 12 | 'L' => some 13 | 'M' => some 14 | 'N' => some 15 | 'O' => some 16
  | 'P' => some 17 | 'Q' => some 18 | 'R' => some 19 | 'S' => some 20 | 'T' => some 21
  | 'U' => some 22 | 'V' => some 23 | 'W' => some 24 | 'X' => some 25 | 'Y' => some 26
  | 'Z' => some 27
  | 'a' => some 28 | 'b' => some 29 | 'c' => some 30 | 'd' => some 31 | 'e' => some 32
  | 'f' => some 33 | 'g' => some 34 | 'h' => some 35 | 'i' => some 36 | 'j' => some 37
  | 'k' => some 38 | 'l' => some 39 | 'm' => some 40 | 'n' => some 41 | 'o' => some 42
  | 'p' => some 43 | 'q' => some 44 | 'r' => some 45 | 's' => some 46 | 't' => some 47
  | 'u' => some 48 | 'v' => some 49 | 'w' => some 50 | 'x' => some 51 | 'y' => some 52
  | 'z' => some 53
  | '+' => some 54
  | '-' => some 55
  | '.' => some 56
  | _ => none

/-- `characters_order[""]`, the `fillvalue` of `zip_longest` -/
def emptyOrder : Nat := 1

/-- `mapping.get(c)` for `c` a character or the fill value `""` (= `none`).

For a character that is not a key the Python gets `None` and the comparison `o1 < o2` raises
`TypeError`.  This cannot happen for values built by `construct` (`construct_wf` in
`DebThm.lean`: only letters, digits and `. + - ~` occur, and digits never reach this function).
To keep `vercmp` total the model places such a character after every key, in code point
order; nothing about the real code is claimed there. -/
def orderOf : Option Char → Nat
  | none => emptyOrder
  | some c => match charactersOrder c with
    | some n => n
    | none => 57 + c.toNat

/-- `get_non_digit_prefix`: `(prefix, what is left in the list)` -/
def getNonDigitPrefix : List Char → List Char × List Char
  | [] => ([], [])
  | c :: cs =>
    if c.isDigit then ([], c :: cs)
    else ((c :: (getNonDigitPrefix cs).1), (getNonDigitPrefix cs).2)

/-- the `while` loop of `get_digit_prefix` with the running `value` -/
def digitLoop (value : Nat) : List Char → Nat × List Char
  | [] => (value, [])
  | c :: cs =>
    if c.isDigit then digitLoop (value * 10 + (c.toNat - 48)) cs
    else (value, c :: cs)

/-- `get_digit_prefix`: `(value, what is left in the list)` -/
def getDigitPrefix (cs : List Char) : Nat × List Char := digitLoop 0 cs

/-- the `for c1, c2 in zip_longest(p1, p2, fillvalue="")` loop: `some r` when it returns `r`,
`none` when it runs to the end without returning -/
def prefixLoop : List Char → List Char → Option Ordering
  | [], [] => none
  | [], c2 :: p2 =>
    if orderOf none < orderOf (some c2) then some .lt
    else if orderOf none > orderOf (some c2) then some .gt
    else prefixLoop [] p2
  | c1 :: p1, [] =>
    if orderOf (some c1) < orderOf none then some .lt
    else if orderOf (some c1) > orderOf none then some .gt
    else prefixLoop p1 []
  | c1 :: p1, c2 :: p2 =>
    if orderOf (some c1) < orderOf (some c2) then some .lt
    else if orderOf (some c1) > orderOf (some c2) then some .gt
    else prefixLoop p1 p2

/-- what one round of the `while v1 or v2` loop leaves of a list -/
def afterRound (v : List Char) : List Char := (getDigitPrefix (getNonDigitPrefix v).2).2

theorem getNonDigitPrefix_length (v : List Char) : (getNonDigitPrefix v).2.length ≤ v.length := by
  induction v with
  | nil => simp [getNonDigitPrefix]
  | cons c cs ih =>
    simp only [getNonDigitPrefix]
    split
    · simp
    · simp only [List.length_cons]; omega

theorem digitLoop_length (n : Nat) (v : List Char) : (digitLoop n v).2.length ≤ v.length := by
  induction v generalizing n with
  | nil => simp [digitLoop]
  | cons c cs ih =>
    simp only [digitLoop]
    split
    · have := ih (n * 10 + (c.toNat - 48)); simp only [List.length_cons]; omega
    · simp

theorem afterRound_length_le (v : List Char) : (afterRound v).length ≤ v.length := by
  have h1 := getNonDigitPrefix_length v
  have h2 := digitLoop_length 0 (getNonDigitPrefix v).2
  simp only [afterRound, getDigitPrefix]; omega

theorem afterRound_length_lt (c : Char) (cs : List Char) :
    (afterRound (c :: cs)).length < (c :: cs).length := by
  simp only [afterRound, getDigitPrefix, getNonDigitPrefix]
  split
  · rename_i h
    simp only [digitLoop, h, if_true]
    have := digitLoop_length (0 * 10 + (c.toNat - 48)) cs
    simp only [List.length_cons]; omega
  · have h1 := getNonDigitPrefix_length cs
    have h2 := digitLoop_length 0 (getNonDigitPrefix cs).2
    simp only [List.length_cons]; omega

/-- `compare_strings(version1, version2)` on the two lists `v1`, `v2` -/
def compareStrings (v1 v2 : List Char) : Ordering :=
  if _h : v1 = [] ∧ v2 = [] then .eq
  else
    let p1 := (getNonDigitPrefix v1).1
    let p2 := (getNonDigitPrefix v2).1
    match (if p1 != p2 then prefixLoop p1 p2 else none) with
    | some r => r
    | none =>
      let d1 := (getDigitPrefix (getNonDigitPrefix v1).2).1
      let d2 := (getDigitPrefix (getNonDigitPrefix v2).2).1
      if d1 < d2 then .lt
      else if d1 > d2 then .gt
      else compareStrings (afterRound v1) (afterRound v2)
termination_by v1.length + v2.length
decreasing_by
  cases v1 with
  | nil =>
    cases v2 with
    | nil => simp_all
    | cons c cs =>
      have := afterRound_length_lt c cs
      have := afterRound_length_le ([] : List Char)
      omega
  | cons c cs =>
    have := afterRound_length_lt c cs
    have := afterRound_length_le v2
    omega

/-- `compare_version_objects` (`compare_versions` only coerces strings first) -/
def vercmp (a b : Raw) : Ordering :=
  if a.epoch < b.epoch then .lt
  else if a.epoch > b.epoch then .gt
  else match compareStrings a.upstream b.upstream with
    | .lt => .lt
    | .gt => .gt
    | .eq =>
      if !a.revision.isEmpty || !b.revision.isEmpty then compareStrings a.revision b.revision
      else .eq

/-! ### the operators -/

/-- `debian.Version.tuple()` -/
def tuple (r : Raw) : Nat × List Char × List Char := (r.epoch, r.upstream, r.revision)

/-- The hand-written dunders of `debian.Version` (attrs is told `eq=False, order=False`):
`__eq__` is `compare_version_objects(self, other) == 0`, `__ne__` negates it, the four others
are `eval_constraint(self, op, other)` = `operator(compare_versions(self, other), 0)`. -/
def valOps : VOps Raw where
  eq a b := vercmp a b == .eq
  ne a b := !(vercmp a b == .eq)
  lt a b := vercmp a b == .lt
  le a b := vercmp a b != .gt
  gt a b := vercmp a b == .gt
  ge a b := vercmp a b != .lt

/-- `DebianVersion` defines no dunder: all six come from `attr.s(eq=True, order=True)` on
`Version` and compare the 1-tuples `(self.value,)`. -/
def verOps : VOps Raw := Univers.Py.attrsOps valOps

/-- attrs generates `__hash__` from `(value,)`; `debian.Version.__hash__` exists -/
def hashable : Bool := true

theorem getNonDigitPrefix_head {s : List Char} {c : Char} {cs : List Char}
    (h : (getNonDigitPrefix s).2 = c :: cs) : c.isDigit = true := by
  induction s with
  | nil => simp [getNonDigitPrefix] at h
  | cons x xs ih =>
    simp only [getNonDigitPrefix] at h
    split at h
    · simp only [List.cons.injEq] at h; rw [← h.1]; assumption
    · exact ih h

/-- `[digits.lstrip("0") for digits in re.findall(r"[0-9]+", string)]`: skip the non-digits,
read the maximal run of digits, go on with what follows.  The Python keeps each run as TEXT
without its leading zeros (no `int()`, so nothing can raise); the model keeps the NUMBER the
run denotes.  Texts of digits without leading zeros and natural numbers correspond one to
one (`""` ↔ 0), so two lists of such texts are equal iff the lists of numbers are, and
"drop the trailing empty texts" is "drop the trailing zeros": equal `hashKey`s ⇔ equal
Python hash keys. -/
def findNumbers (s : List Char) : List Nat :=
  match _hs : (getNonDigitPrefix s).2 with
  | [] => []
  | c :: cs => (getDigitPrefix (c :: cs)).1 :: findNumbers (getDigitPrefix (c :: cs)).2
termination_by s.length
decreasing_by
  have hd := getNonDigitPrefix_head _hs
  have h1 := getNonDigitPrefix_length s
  have h2 := digitLoop_length (0 * 10 + (c.toNat - 48)) cs
  rw [_hs] at h1
  simp only [getDigitPrefix, digitLoop, hd, if_true]
  simp only [List.length_cons] at h1
  omega

/-- `while numbers and not numbers[-1]: numbers.pop()` (an empty text is falsy, like 0) -/
def dropTrailingZeros : List Nat → List Nat
  | [] => []
  | x :: xs => if dropTrailingZeros xs = [] ∧ x = 0 then [] else x :: dropTrailingZeros xs

/-- `get_significant_numbers(string)` -/
def getSignificantNumbers (s : List Char) : List Nat := dropTrailingZeros (findNumbers s)

/-- `hash(version)` is a function of `hash(self.value)` =
`hash((epoch, get_significant_numbers(upstream), get_significant_numbers(revision)))` -/
def hashKey (r : Raw) : Nat × List Nat × List Nat :=
  (r.epoch, getSignificantNumbers r.upstream, getSignificantNumbers r.revision)

/-! ### what `construct` establishes -/

/-- `upstream` starts with a digit and consists of letters, digits and `. + ~ -`; `revision`
consists of letters, digits and `. + ~` (it is what follows the last hyphen, or `"0"`).
`construct_wf` in `DebThm.lean`. -/
def WellFormed (r : Raw) : Bool :=
  matchBody r.upstream && r.revision.all (fun c => allowedChar c && c != '-')

end Univers.Deb
