/-
Layer A model of `univers.versions.ConanVersion`:
`/repo/src/univers/versions.py` (`Version.normalize`, `__attrs_post_init__`, `ConanVersion.is_valid`,
`build_value`) and `/repo/src/univers/conan/version.py` (`_VersionItem`, `Version.__init__`, `__eq__`,
`__lt__`, `__hash__`, `functools.total_ordering`, `__str__`, `bump`, `upper_bound`, `major` … `micro`).
Strings are `List Char`; the domain is ASCII.
-/
import Univers.Basic.PadLex
import Univers.Vers.Model
import Univers.Py.Attrs

namespace Univers.Conan

open Univers

inductive PErr where
  | invalid
  | other (name : String)
  deriving DecidableEq, Repr

/-! ### string helpers -/

/-- ASCII characters on which `str.split()` (no argument) splits -/
def isPySpace (c : Char) : Bool :=
  c == ' ' || (9 ≤ c.toNat && c.toNat ≤ 13) || (28 ≤ c.toNat && c.toNat ≤ 31)

def isDigit (c : Char) : Bool := '0' ≤ c && c ≤ '9'

/-- value of a string of ASCII digits -/
def natVal (s : List Char) : Nat := s.foldl (fun n c => 10 * n + (c.toNat - '0'.toNat)) 0

/-- `str(n)` for a non-negative int -/
def natStr (n : Nat) : List Char := Nat.toDigits 10 n

/-- `str(i)` for an int -/
def intStr : Int → List Char
  | .ofNat n => natStr n
  | .negSucc n => '-' :: natStr (n + 1)

/-- `s.split(sep)` for a one-character separator: always at least one part -/
def splitOn (sep : Char) : List Char → List (List Char)
  | [] => [[]]
  | c :: cs =>
    if c == sep then [] :: splitOn sep cs
    else match splitOn sep cs with
      | [] => [[c]]
      | p :: ps => (c :: p) :: ps

/-- `s.rsplit(sep, 1)`: `none` when `sep` does not occur, else (before the last `sep`, after it) -/
def rsplit1 (sep : Char) : List Char → Option (List Char × List Char)
  | [] => none
  | x :: xs =>
    match rsplit1 sep xs with
    | some (a, b) => some (x :: a, b)
    | none => if x == sep then some ([], xs) else none

theorem rsplit1_length {sep : Char} {s a b : List Char} (h : rsplit1 sep s = some (a, b)) :
    a.length + b.length + 1 = s.length := by
  induction s generalizing a b with
  | nil => simp [rsplit1] at h
  | cons x xs ih =>
    simp only [rsplit1] at h
    cases hr : rsplit1 sep xs with
    | some p =>
      obtain ⟨a', b'⟩ := p
      rw [hr] at h
      simp only [Option.some.injEq, Prod.mk.injEq] at h
      have := ih hr
      obtain ⟨rfl, rfl⟩ := h
      simp only [List.length_cons]; omega
    | none =>
      rw [hr] at h
      by_cases hx : (x == sep) = true
      · simp only [hx, if_true, Option.some.injEq, Prod.mk.injEq] at h
        obtain ⟨rfl, rfl⟩ := h
        simp
      · simp [hx] at h

/-- `Version.normalize`: `remove_spaces(string).lstrip("vV")` -/
def normalize (s : List Char) : List Char :=
  (s.filter (fun c => !isPySpace c)).dropWhile (fun c => c == 'v' || c == 'V')

/-! ### `_VersionItem` -/

/-- `_VersionItem._v`: an int or the string itself -/
inductive Item where
  | int (n : Int)
  | str (s : List Char)
  deriving DecidableEq, Repr

/-- the digits part of Python's `int()` literal grammar: `digit (_? digit)*`; returns the digits
without the underscores -/
def intDigits : List Char → Option (List Char)
  | [] => none
  | [c] => if isDigit c then some [c] else none
  | c :: '_' :: rest =>
    if isDigit c then (intDigits rest).map (c :: ·) else none
  | c :: rest =>
    if isDigit c then (intDigits rest).map (c :: ·) else none

/-- `int(item)` on an ASCII string without whitespace: optional sign, digits with single
underscores between digits.  `none` = `ValueError`. -/
def pyInt : List Char → Option Int
  | '+' :: r => (intDigits r).map (fun d => Int.ofNat (natVal d))
  | '-' :: r => (intDigits r).map (fun d => - Int.ofNat (natVal d))
  | r => (intDigits r).map (fun d => Int.ofNat (natVal d))

/-- `_VersionItem(item)` -/
def mkItem (s : List Char) : Item :=
  match pyInt s with
  | some n => .int n
  | none => .str s

/-- `str(item)` -/
def Item.toStr : Item → List Char
  | .int n => intStr n
  | .str s => s

/-- `_VersionItem.__eq__` -/
def itemEq : Item → Item → Bool
  | .int a, .int b => a == b
  | .str a, .str b => a == b
  | _, _ => false

/-- Python `<` on `str` (code points) -/
def strLt (a b : List Char) : Bool := lexList (fun (x y : Char) => compare x y) a b == .lt

/-- `_VersionItem.__lt__`: int with int, str with str; mixed raises `TypeError` inside and falls
back to comparing `str(self._v) < str(other._v)` -/
def itemLt : Item → Item → Bool
  | .int a, .int b => decide (a < b)
  | .str a, .str b => strLt a b
  | a, b => strLt a.toStr b.toStr

/-! ### `Version` -/

/-- a conan `Version` object or `None` (the type of `_pre` and `_build`) -/
inductive OV where
  | none
  | ver (value : List Char) (items : List Item) (pre : OV) (build : OV)
  deriving DecidableEq, Repr

/-- the `while items and items[-1].value == 0: del items[-1]` loop -/
def stripZeros : List Item → List Item
  | [] => []
  | x :: xs =>
    match stripZeros xs with
    | [] => if x == .int 0 then [] else [x]
    | ys => x :: ys

/-- `Version(value)`: split off the build at the last `+`, then the pre-release at the last `-`,
both nested `Version`s; the rest is split at the dots.  The nested calls are on strictly shorter
strings; the recursion is structural on a fuel argument that `parse` sets to the length of the
string plus one (`parse_eq` in ConanThm: the fuel never runs out). -/
def parseFuel : Nat → List Char → OV
  | 0, s => .ver s ((splitOn '.' s).map mkItem) .none .none
  | n + 1, s =>
    match rsplit1 '+' s with
    | some (v, b) =>
      (match rsplit1 '-' v with
       | some (v', p) => .ver s ((splitOn '.' v').map mkItem) (parseFuel n p) (parseFuel n b)
       | none => .ver s ((splitOn '.' v).map mkItem) .none (parseFuel n b))
    | none =>
      (match rsplit1 '-' s with
       | some (v', p) => .ver s ((splitOn '.' v').map mkItem) (parseFuel n p) .none
       | none => .ver s ((splitOn '.' s).map mkItem) .none .none)

/-- `Version(value)` -/
def parse (s : List Char) : OV := parseFuel (s.length + 1) s

/-- the parsed `value` of a `ConanVersion` (always a `.ver`; `.none` is Python's `None`) -/
abbrev Raw := OV

def OV.items : OV → List Item
  | .none => []
  | .ver _ i _ _ => i

/-- `_nonzero_items` -/
def OV.nz (v : OV) : List Item := stripZeros v.items

def OV.pre : OV → OV
  | .none => .none
  | .ver _ _ p _ => p

def OV.build : OV → OV
  | .none => .none
  | .ver _ _ _ b => b

def OV.isNone : OV → Bool
  | .none => true
  | _ => false

/-- `ConanVersion(string)`: `is_valid` only catches `ValueError` and the conan `Version`
constructor raises nothing, so every string (even the empty one) is accepted -/
def construct (s : List Char) : Except PErr Raw := .ok (parse (normalize s))

/-- `str(version)` = `self._value` -/
def str : Raw → List Char
  | .none => "None".toList
  | .ver v _ _ _ => v

/-! ### comparison -/

/-- `==` on tuples of `_VersionItem` -/
def itemsEq : List Item → List Item → Bool
  | [], [] => true
  | a :: as, b :: bs => itemEq a b && itemsEq as bs
  | _, _ => false

/-- `<` on tuples of `_VersionItem`: the first position where the items are not `==` decides with
`<`; otherwise the shorter tuple is smaller -/
def itemsLt : List Item → List Item → Bool
  | [], [] => false
  | [], _ :: _ => true
  | _ :: _, [] => false
  | a :: as, b :: bs => if itemEq a b then itemsLt as bs else itemLt a b

/-- `Version.__eq__` (and `None == None`, `None == Version(..)`) -/
def eqO : OV → OV → Bool
  | .none, .none => true
  | .ver _ i1 p1 b1, .ver _ i2 p2 b2 =>
    itemsEq (stripZeros i1) (stripZeros i2) && eqO p1 p2 && eqO b1 b2
  | _, _ => false

/-- `Version.__lt__`, and `<` between `None` and a `Version` as Python dispatches it:
`None < v` → reflected `v.__gt__(None)` (total_ordering: `not v.__lt__(None) and v != None`) = True;
`v < None` = `v.__lt__(None)` = False.  `None < None` is never evaluated (tuple comparison skips
identical items). -/
def ltO : OV → OV → Bool
  | .none, .none => false
  | .none, .ver _ _ _ _ => true
  | .ver _ _ _ _, .none => false
  | .ver _ i1 p1 b1, .ver _ i2 p2 b2 =>
    let n1 := stripZeros i1
    let n2 := stripZeros i2
    if !p1.isNone then
      if !p2.isNone then
        -- both are pre-releases: (nz, pre, build) < (nz, pre, build)
        if !itemsEq n1 n2 then itemsLt n1 n2
        else if !eqO p1 p2 then ltO p1 p2
        else if !eqO b1 b2 then ltO b1 b2
        else false
      else if itemsEq n1 n2 then true else itemsLt n1 n2
    else
      if !p2.isNone then
        if itemsEq n1 n2 then false else itemsLt n1 n2
      else
        -- (nz, build) < (nz, build)
        if !itemsEq n1 n2 then itemsLt n1 n2
        else if !eqO b1 b2 then ltO b1 b2
        else false

/-- three-way summary of `__lt__` / `__eq__` -/
def vercmp (a b : Raw) : Ordering :=
  if ltO a b then .lt else if eqO a b then .eq else .gt

/-- `functools.total_ordering` over `__lt__`, `__eq__` -/
def valOps : VOps Raw := Py.totalOrderingFromLt ltO eqO

/-- `ConanVersion` defines no comparison dunders: attrs compares the 1-tuples `(self.value,)` -/
def verOps : VOps Raw := Py.attrsOps valOps

def hashable : Bool := true

/-- what `hash((self._nonzero_items, self._pre, self._build))` depends on -/
inductive HK where
  | none
  | mk (items : List Item) (pre build : HK)
  deriving DecidableEq, Repr

def hashKey : Raw → HK
  | .none => .none
  | .ver _ i p b => .mk (stripZeros i) (hashKey p) (hashKey b)

/-! ### `bump`, `upper_bound`, `major` … -/

inductive BErr where
  | indexError       -- `self._items[index]` out of range: escapes
  | conanException   -- the item at `index` is not an int
  deriving DecidableEq, Repr

/-- `_VersionItem.__add__(1)`: `TypeError` for a str item -/
def Item.succ? : Item → Option Int
  | .int n => some (n + 1)
  | .str _ => none

/-- `".".join(str(i) for i in items)` -/
def joinDots : List (List Char) → List Char
  | [] => []
  | [x] => x
  | x :: xs => x ++ '.' :: joinDots xs

/-- the string `v` built by `bump` / `upper_bound`: the first `index` items and the item at `index`
plus one.  `items.extend([0] * (len(items) - index - 1))` adds nothing: `len(items)` is `index + 1`
at that point. -/
def bumpStr (v : OV) (index : Nat) : Except BErr (List Char) :=
  match v.items[index]? with
  | none => .error .indexError
  | some it =>
    match it.succ? with
    | none => .error .conanException
    | some n => .ok (joinDots (((v.items.take index).map Item.toStr) ++ [intStr n]))

/-- `Version.bump(index)` -/
def bump (v : OV) (index : Nat) : Except BErr OV := (bumpStr v index).map parse

/-- `Version.upper_bound(index)`: the bumped string with `-` appended -/
def upperBound (v : OV) (index : Nat) : Except BErr OV :=
  (bumpStr v index).map (fun s => parse (s ++ ['-']))

/-- `major`, `minor`, `patch`, `micro`: `self._items[k]` or `None` -/
def OV.major (v : OV) : Option Item := v.items[0]?
def OV.minor (v : OV) : Option Item := v.items[1]?
def OV.patch (v : OV) : Option Item := v.items[2]?
def OV.micro (v : OV) : Option Item := v.items[3]?

end Univers.Conan
