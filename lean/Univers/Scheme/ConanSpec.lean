/-
Spec of the Conan version order (Conan 2 `conan/internal/model/version.py`, documented in the
Conan reference under "Version ranges" / "versions"):

* a version is `main[-pre][+build]`; `main` is a dotted list of items; an item that reads as an
  integer is a number, otherwise a word; trailing zero items do not count (`1.0` = `1`);
* main items compare left to right, numbers numerically and words as strings; when one list is a
  prefix of the other the shorter is lower;
* with equal main items, a version with a pre-release is below the one without; two pre-releases
  compare as versions;
* then a version without build metadata is below one with build metadata; two builds compare as
  versions.

Conan gives no consistent rule for a number against a word in the same position (the code falls
back to comparing the decimal spelling of the number with the word as strings, which does not
fit with the numeric comparison of numbers).  The key below places numbers before words; the
refinement theorem is stated for versions that are position-wise of the same kind (`Compat`).
-/
import Univers.Scheme.Conan

namespace Univers.Conan

open Std Univers

def charsCmp : List Char → List Char → Ordering := lexList (fun (a b : Char) => compare a b)

/-- numbers numerically, words as strings, numbers before words -/
def itemCmp : Item → Item → Ordering
  | .int a, .int b => compare a b
  | .int _, .str _ => .lt
  | .str _, .int _ => .gt
  | .str a, .str b => charsCmp a b

instance : OrientedCmp itemCmp where
  eq_swap := by
    intro a b
    cases a <;> cases b <;> simp [itemCmp, charsCmp]
    · exact OrientedCmp.eq_swap
    · exact OrientedCmp.eq_swap

instance : TransCmp itemCmp where
  isLE_trans := by
    intro a b c
    cases a <;> cases b <;> cases c <;> simp [itemCmp, charsCmp, Ordering.isLE]
    · exact TransCmp.isLE_trans
    · exact TransCmp.isLE_trans

/-- the key of a version (or of an absent pre-release / build: `none`): the main items without
trailing zeros, the key of the pre-release, the key of the build -/
inductive Key where
  | none
  | mk (items : List Item) (pre build : Key)
  deriving DecidableEq, Repr

/-- `noneHigh = true`: an absent part is above every present one (pre-release position);
`noneHigh = false`: an absent part is below every present one (build position, and the top level) -/
def keyCmpAux : Bool → Key → Key → Ordering
  | _, .none, .none => .eq
  | hi, .none, .mk _ _ _ => if hi then .gt else .lt
  | hi, .mk _ _ _, .none => if hi then .lt else .gt
  | _, .mk i1 p1 b1, .mk i2 p2 b2 =>
    (lexList itemCmp i1 i2).then ((keyCmpAux true p1 p2).then (keyCmpAux false b1 b2))

def keyCmp : Key → Key → Ordering := keyCmpAux false

theorem keyCmpAux_swap : ∀ (hi : Bool) (a b : Key), keyCmpAux hi a b = (keyCmpAux hi b a).swap
  | _, .none, .none => rfl
  | hi, .none, .mk _ _ _ => by cases hi <;> rfl
  | hi, .mk _ _ _, .none => by cases hi <;> rfl
  | _, .mk i1 p1 b1, .mk i2 p2 b2 => by
    simp only [keyCmpAux, Ordering.swap_then']
    rw [← keyCmpAux_swap true p1 p2, ← keyCmpAux_swap false b1 b2,
      ← OrientedCmp.eq_swap (cmp := lexList itemCmp)]

theorem lt_of_lt_of_isLE_aux {α : Type} {cmp : α → α → Ordering}
    (sw : ∀ a b, cmp a b = (cmp b a).swap) {a b c : α}
    (t1 : (cmp a b).isLE → (cmp b c).isLE → (cmp a c).isLE)
    (t2 : (cmp b c).isLE → (cmp c a).isLE → (cmp b a).isLE) :
    cmp a b = .lt → (cmp b c).isLE → cmp a c = .lt := by
  intro h1 h2
  have h3 := t1 (by simp [h1, Ordering.isLE]) h2
  have hba : cmp b a = .gt := by rw [sw b a, h1]; rfl
  cases hac : cmp a c with
  | lt => rfl
  | gt => rw [hac] at h3; simp [Ordering.isLE] at h3
  | eq =>
    have hca : cmp c a = .eq := by rw [sw c a, hac]; rfl
    have := t2 h2 (by simp [hca, Ordering.isLE])
    rw [hba] at this; simp [Ordering.isLE] at this

theorem lt_of_isLE_of_lt_aux {α : Type} {cmp : α → α → Ordering}
    (sw : ∀ a b, cmp a b = (cmp b a).swap) {a b c : α}
    (t1 : (cmp a b).isLE → (cmp b c).isLE → (cmp a c).isLE)
    (t3 : (cmp c a).isLE → (cmp a b).isLE → (cmp c b).isLE) :
    (cmp a b).isLE → cmp b c = .lt → cmp a c = .lt := by
  intro h1 h2
  have h3 := t1 h1 (by simp [h2, Ordering.isLE])
  have hcb : cmp c b = .gt := by rw [sw c b, h2]; rfl
  cases hac : cmp a c with
  | lt => rfl
  | gt => rw [hac] at h3; simp [Ordering.isLE] at h3
  | eq =>
    have hca : cmp c a = .eq := by rw [sw c a, hac]; rfl
    have := t3 (by simp [hca, Ordering.isLE]) h1
    rw [hcb] at this; simp [Ordering.isLE] at this

theorem keyCmpAux_trans (hi : Bool) (a b c : Key) :
    (keyCmpAux hi a b).isLE → (keyCmpAux hi b c).isLE → (keyCmpAux hi a c).isLE := by
  match a, b, c with
  | .none, .none, _ => exact fun _ h => h
  | .none, .mk _ _ _, .none => intro _ _; simp [keyCmpAux]
  | .none, .mk _ _ _, .mk _ _ _ => intro h _; cases hi <;> simp_all [keyCmpAux]
  | .mk _ _ _, .none, .none => exact fun h _ => h
  | .mk _ _ _, .none, .mk _ _ _ => intro h1 h2; cases hi <;> simp_all [keyCmpAux]
  | .mk _ _ _, .mk _ _ _, .none => intro _ h; cases hi <;> simp_all [keyCmpAux]
  | .mk i1 p1 b1, .mk i2 p2 b2, .mk i3 p3 b3 =>
    intro h1 h2
    simp only [keyCmpAux] at h1 h2 ⊢
    have p123 := keyCmpAux_trans true p1 p2 p3
    have p231 := keyCmpAux_trans true p2 p3 p1
    have p312 := keyCmpAux_trans true p3 p1 p2
    have b123 := keyCmpAux_trans false b1 b2 b3
    exact then_isLE_trans (fun x y => TransCmp.isLE_trans x y)
      (fun x y => TransCmp.lt_of_lt_of_isLE x y) (fun x y => TransCmp.lt_of_isLE_of_lt x y)
      (then_isLE_trans p123
        (lt_of_lt_of_isLE_aux (keyCmpAux_swap true) p123 p231)
        (lt_of_isLE_of_lt_aux (keyCmpAux_swap true) p123 p312)
        b123) h1 h2
termination_by sizeOf a + sizeOf b + sizeOf c
decreasing_by
  all_goals simp_wf
  all_goals omega

instance (hi : Bool) : OrientedCmp (keyCmpAux hi) where
  eq_swap := keyCmpAux_swap hi _ _

instance (hi : Bool) : TransCmp (keyCmpAux hi) where
  isLE_trans := keyCmpAux_trans hi _ _ _

instance : TransCmp keyCmp := inferInstanceAs (TransCmp (keyCmpAux false))

/-- the key of a parsed version: trailing zero items dropped, recursively for pre and build -/
def key : Raw → Key
  | .none => .none
  | .ver _ i p b => .mk (stripZeros i) (key p) (key b)

end Univers.Conan
