/-
Layer A model of `univers.versions.RubygemsVersion` and of `univers.gem.GemVersion`
(`/repo/src/univers/gem.py`), branch for branch.

A `RubygemsVersion` has one compared field `value : GemVersion`.  A `GemVersion` stores
`original` (the stripped text) and `version` (a function of `original`: `""` ↦ `"0"`, every `-`
replaced by `.pre.`); `segments`, `canonical_segments`, `split_segments` are recomputed from
`version` by every call.  Hence `Raw` carries only `original`; `Raw.version`, `Raw.segs`,
`Raw.canon` are the derived values.
-/
import Univers.Basic.PadLex
import Univers.Vers.Model
import Univers.Py.Attrs

namespace Univers.Gem

open Univers

/-- an item of `GemVersion.segments`: a Python `int` or a `str` of ASCII letters -/
inductive Seg where
  | num (n : Nat)
  | str (s : List Char)
  deriving DecidableEq, Repr

/-- the state of a `GemVersion` object: `self.original` -/
structure Raw where
  original : List Char
  deriving DecidableEq, Repr

inductive PErr where
  | invalid
  | other (name : String)
  deriving DecidableEq, Repr

/-! ### characters -/

/-- ASCII characters with `str.isspace()` true (what `str.split()`, `str.strip()` and `\s` use):
TAB LF VT FF CR, FS GS RS US, SPACE -/
def isPySpace (c : Char) : Bool :=
  (9 ≤ c.toNat && c.toNat ≤ 13) || (28 ≤ c.toNat && c.toNat ≤ 32)

def isDig (c : Char) : Bool := c.isDigit
def isAlpha (c : Char) : Bool := ('a' ≤ c && c ≤ 'z') || ('A' ≤ c && c ≤ 'Z')
def isAlnum (c : Char) : Bool := isDig c || isAlpha c

/-! ### `Version.normalize`, `str.strip` -/

/-- `remove_spaces(string).lstrip("vV")` -/
def normalize (s : List Char) : List Char :=
  (s.filter (fun c => !isPySpace c)).dropWhile (fun c => c == 'v' || c == 'V')

/-- `str.strip()` -/
def strip (s : List Char) : List Char :=
  ((s.dropWhile isPySpace).reverse.dropWhile isPySpace).reverse

/-! ### `GemVersion.is_correct`

`^\s*([0-9]+(?:\.[0-9a-zA-Z]+)*(-[0-9A-Za-z-]+(\.[0-9A-Za-z-]+)*)?)?\s*$` as a deterministic
automaton on the stripped text (the body can neither start nor end with white space, so the
two `\s*` take exactly what `strip` removes; `$` before a final newline is covered by `\s*`). -/

inductive St where
  | d0   -- expecting the first digit of `[0-9]+`
  | d    -- inside `[0-9]+`
  | a0   -- after a `.` of the first group: expecting `[0-9a-zA-Z]`
  | a    -- inside `[0-9a-zA-Z]+`
  | p0   -- after `-` or after a `.` of the second group: expecting `[0-9A-Za-z-]`
  | p    -- inside `[0-9A-Za-z-]+`
  deriving DecidableEq, Repr

def step : St → Char → Option St
  | .d0, c => if isDig c then some .d else none
  | .d, c => if isDig c then some .d else if c == '.' then some .a0 else if c == '-' then some .p0 else none
  | .a0, c => if isAlnum c then some .a else none
  | .a, c => if isAlnum c then some .a else if c == '.' then some .a0 else if c == '-' then some .p0 else none
  | .p0, c => if isAlnum c || c == '-' then some .p else none
  | .p, c => if isAlnum c || c == '-' then some .p else if c == '.' then some .p0 else none

def accepting : St → Bool
  | .d | .a | .p => true
  | _ => false

def run : St → List Char → Bool
  | s, [] => accepting s
  | s, c :: cs => match step s c with
    | some s' => run s' cs
    | none => false

/-- `GemVersion.is_correct(string)` (truthiness of the match object) -/
def isCorrect (s : List Char) : Bool :=
  let t := strip s
  t.isEmpty || run .d0 t

/-! ### `GemVersion.__init__`, `__str__` -/

/-- `GemVersion(version)` for a `str` argument -/
def gemVersion (s : List Char) : Except PErr Raw :=
  if !isCorrect s then .error (.other "InvalidVersionError")
  else .ok ⟨strip s⟩

/-- `RubygemsVersion(string)`: `normalize`, `is_valid` (= `is_correct`), `build_value` -/
def construct (s : List Char) : Except PErr Raw :=
  let n := normalize s
  if !isCorrect n then .error .invalid
  else gemVersion n

/-- `str(version)` = `str(self.value)` = `self.original` -/
def str (r : Raw) : List Char := r.original

/-- `version.replace("-", ".pre.")` -/
def replaceDash : List Char → List Char
  | [] => []
  | c :: cs => if c == '-' then '.' :: 'p' :: 'r' :: 'e' :: '.' :: replaceDash cs else c :: replaceDash cs

/-- `self.version` -/
def Raw.version (r : Raw) : List Char :=
  replaceDash (if r.original.isEmpty then ['0'] else r.original)

/-! ### `segments` -/

/-- `int(seg)` on a string of ASCII digits -/
def natOfDigits (ds : List Char) : Nat := Nat.ofDigitChars 10 ds 0

/-- the match in progress while scanning with `[0-9]+|[a-z]+` (IGNORECASE) -/
inductive Run where
  | idle
  | digits (acc : List Char)
  | letters (acc : List Char)
  deriving DecidableEq, Repr

/-- the match is complete: `int(seg) if seg.isdigit() else seg` -/
def Run.emit : Run → List Seg
  | .idle => []
  | .digits acc => [.num (natOfDigits acc)]
  | .letters acc => [.str acc]

/-- `re.compile(r"[0-9]+|[a-z]+", re.IGNORECASE).findall(version)`, character by character:
a run of digits or a run of letters is extended as far as possible (both alternatives are
greedy and disjoint), every other character ends the run and is skipped -/
def scanFrom : Run → List Char → List Seg
  | run, [] => run.emit
  | run, c :: cs =>
    if isDig c then
      match run with
      | .digits acc => scanFrom (.digits (acc ++ [c])) cs
      | _ => run.emit ++ scanFrom (.digits [c]) cs
    else if isAlpha c then
      match run with
      | .letters acc => scanFrom (.letters (acc ++ [c])) cs
      | _ => run.emit ++ scanFrom (.letters [c]) cs
    else run.emit ++ scanFrom .idle cs

def scan (v : List Char) : List Seg := scanFrom .idle v

/-- `self.segments` -/
def Raw.segs (r : Raw) : List Seg := scan r.version

def Seg.isNum : Seg → Bool
  | .num _ => true
  | .str _ => false

/-! ### `split_segments`, `canonical_segments` -/

/-- the loop of `split_segments` with its two accumulators -/
def splitLoop : List Seg → List Seg → List Seg → List Seg × List Seg
  | [], ns, ss => (ns, ss)
  | .num n :: rest, ns, ss =>
      if !ss.isEmpty then splitLoop rest ns (ss ++ [.num n])
      else splitLoop rest (ns ++ [.num n]) ss
  | .str s :: rest, ns, ss => splitLoop rest ns (ss ++ [.str s])

def splitSegments (segs : List Seg) : List Seg × List Seg := splitLoop segs [] []

/-- `reversed(list(dropwhile(lambda s: s == 0, reversed(segments))))` -/
def dropTrailingZeros (l : List Seg) : List Seg :=
  (l.reverse.dropWhile (fun s => s == .num 0)).reverse

def canonicalOf (segs : List Seg) : List Seg :=
  let (ns, ss) := splitSegments segs
  dropTrailingZeros ns ++ dropTrailingZeros ss

/-- `self.canonical_segments` -/
def Raw.canon (r : Raw) : List Seg := canonicalOf r.segs

/-! ### `__cmp__` -/

/-- the end of the loop body, reached when `lhs != rhs` -/
def cmpSeg : Seg → Seg → Ordering
  | .str _, .num _ => .lt
  | .num _, .str _ => .gt
  | .num a, .num b => compare a b                 -- `(lhs > rhs) - (lhs < rhs)` on ints
  | .str a, .str b => lexList compare a b         -- … on strs (code point order)

/-- `while i <= limit:` with `limit = max(lhsize, rhsize) - 1`, written with `n = limit + 1` -/
def cmpLoop (l r : List Seg) (n i : Nat) : Ordering :=
  if i < n then
    let lhs := l.getD i (.num 0)
    let rhs := r.getD i (.num 0)
    if lhs == rhs then cmpLoop l r n (i + 1)
    else cmpSeg lhs rhs
  else .eq
termination_by n - i

/-- `GemVersion.__cmp__(self, other)` for a `GemVersion` argument -/
def vercmp (a b : Raw) : Ordering :=
  if a.version == b.version then .eq
  else
    let l := a.canon
    let r := b.canon
    if l == r then .eq
    else cmpLoop l r (max l.length r.length) 0

/-! ### operators, hash -/

/-- `GemVersion.__eq__` (canonical segments), default `__ne__`, `__lt__ … __ge__` from `__cmp__` -/
def valOps : VOps Raw where
  eq a b := a.canon == b.canon
  ne a b := !(a.canon == b.canon)
  lt a b := vercmp a b == .lt
  le a b := vercmp a b != .gt
  gt a b := vercmp a b == .gt
  ge a b := vercmp a b != .lt

/-- `RubygemsVersion` defines no dunder: all six are the attrs-generated ones of `Version` -/
def verOps : VOps Raw := Univers.Py.attrsOps valOps

def hashable : Bool := true

/-- `hash(version)` = `hash((salt, self.value))`, `GemVersion.__hash__` = `hash(canonical_segments)` -/
def hashKey (r : Raw) : List Seg := r.canon

/-! ### `prerelease`, `release`, `bump` -/

/-- `any(not str(s).isdigit() for s in self.segments)` -/
def isPrerelease (r : Raw) : Bool := r.segs.any (fun s => !s.isNum)

/-- `str(n)` for a non-negative int -/
def natStr (n : Nat) : List Char := Nat.toDigits 10 n

def Seg.text : Seg → List Char
  | .num n => natStr n
  | .str s => s

/-- `".".join(parts)` -/
def joinDots : List (List Char) → List Char
  | [] => []
  | [p] => p
  | p :: q :: rest => p ++ '.' :: joinDots (q :: rest)

/-- `while any(isinstance(s, str) for s in segments): segments.pop()`; every turn pops one
item, so `segments.length` turns are enough -/
def popLoop : Nat → List Seg → List Seg
  | 0, segs => segs
  | fuel + 1, segs => if segs.any (fun s => !s.isNum) then popLoop fuel segs.dropLast else segs

def popWhileStr (segs : List Seg) : List Seg := popLoop segs.length segs

/-- `GemVersion.release()` -/
def release (r : Raw) : Except PErr Raw :=
  if isPrerelease r then gemVersion (joinDots ((popWhileStr r.segs).map Seg.text))
  else .ok r

/-- the first loop of `bump`: the leading ints -/
def leadingNums : List Seg → List Nat
  | .num n :: rest => n :: leadingNums rest
  | _ => []

/-- `segments[-1] += 1` -/
def incrLast : List Nat → Option (List Nat)
  | [] => none
  | [n] => some [n + 1]
  | n :: m :: rest => (incrLast (m :: rest)).map (n :: ·)

/-- `GemVersion.bump()` -/
def bump (r : Raw) : Except PErr Raw :=
  let segments := leadingNums r.segs
  let segments := if segments.length > 1 then segments.dropLast else segments
  match incrLast segments with
  | none => .error (.other "IndexError")
  | some segments => gemVersion (joinDots (segments.map natStr))

end Univers.Gem
