/-
Layer A — SPEC of the Debian version order, written from Debian Policy §5.6.12 and
deb-version(7) (dpkg `lib/dpkg/version.c`), not from the Python.

  * epochs are compared numerically;
  * then `upstream_version`, then `debian_revision` (an absent revision is the empty string,
    which is equivalent to `0`), each by the following procedure, repeated left to right:
      - the initial part consisting of non-digits is compared lexically, by ASCII value
        modified so that all letters sort earlier than all non-letters and `~` sorts before
        anything, even the end of the part;
      - the initial part of the remainder consisting of digits is compared numerically, an
        empty part counting as 0.

So a part is the list of its tokens `(non-digit run, number)`; two parts are compared token
by token, the shorter list being padded with the token `("", 0)`, and two non-digit runs are
compared character by character, the shorter being padded with "end of part" — a padded
lexicographic comparison (`padLex`) in both places.
-/
import Univers.Basic.PadLex
import Univers.Scheme.Deb

namespace Univers.Deb

open Univers Std

/-- position of a character of a non-digit run (`none` = the end of the run) in the modified
ASCII order: class first, then code point.  Classes: 0 `~`; 1 end; 2 letters; 3 the other
characters a Debian version may contain (`+ - .`).  Characters that may NOT occur in a Debian
version (dpkg rejects them, `construct` never produces them) are put in a class 4 after
everything else, so that the key is total; `rank_eq_dpkgOrder` shows that on the Debian
alphabet this is dpkg's `order()`. -/
def rank : Option Char → Nat × Nat
  | none => (1, 0)
  | some c =>
    if c = '~' then (0, 0)
    else if c.isAlpha then (2, c.toNat)
    else if c = '+' ∨ c = '-' ∨ c = '.' then (3, c.toNat)
    else (4, c.toNat)

def rankCmp : Nat × Nat → Nat × Nat → Ordering :=
  lexPair (fun a b => compare a b) (fun a b => compare a b)

/-- dpkg's `order(c)` (`lib/dpkg/version.c`), literally:
`isdigit → 0; isalpha → c; '~' → -1; 0 (end) → 0; else c + 256`. -/
def dpkgOrder : Option Char → Int
  | none => 0
  | some c =>
    if c.isDigit then 0
    else if c.isAlpha then (c.toNat : Int)
    else if c = '~' then -1
    else (c.toNat : Int) + 256

/-- the non-digit characters of the Debian alphabet, and the end of the run -/
def nonDigitAlphabet : List (Option Char) :=
  none :: List.map some
  ['~', '+', '-', '.', 'A', 'B', 'C', 'D', 'E', 'F', 'G', 'H', 'I', 'J',
   'K', 'L', 'M', 'N', 'O', 'P', 'Q', 'R', 'S', 'T', 'U', 'V', 'W', 'X',
   'Y', 'Z', 'a', 'b', 'c', 'd', 'e', 'f', 'g', 'h', 'i', 'j', 'k', 'l',
   'm', 'n', 'o', 'p', 'q', 'r', 's', 't', 'u', 'v', 'w', 'x', 'y', 'z']

/-- one token: the ranks of a non-digit run, and the value of the digit run after it -/
abbrev Tok := List (Nat × Nat) × Nat

/-- value of a run of digits; the empty run counts as 0 -/
def numVal (ds : List Char) : Nat := ds.foldl (fun n c => 10 * n + (c.toNat - '0'.toNat)) 0

/-- a part (upstream version or revision) as its tokens -/
def tokens (s : List Char) : List Tok :=
  match s with
  | [] => []
  | c :: cs =>
    let s := c :: cs
    let r := s.dropWhile (fun c => !c.isDigit)
    ((s.takeWhile (fun c => !c.isDigit)).map (fun c => rank (some c)),
      numVal (r.takeWhile Char.isDigit)) :: tokens (r.dropWhile Char.isDigit)
termination_by s.length
decreasing_by
  by_cases hc : c.isDigit
  · have h3 := (List.dropWhile_sublist Char.isDigit (l := cs)).length_le
    simp only [List.dropWhile_cons, hc, Bool.not_true, Bool.false_eq_true, if_false, if_true,
      List.length_cons]
    omega
  · have h3 := (List.dropWhile_sublist (fun c => !c.isDigit) (l := cs)).length_le
    have h4 := (List.dropWhile_sublist Char.isDigit
      (l := cs.dropWhile (fun c => !c.isDigit))).length_le
    simp only [List.dropWhile_cons, hc, Bool.not_false, if_true, List.length_cons]
    omega

/-- non-digit runs: padded with "end of run" -/
def runCmp : List (Nat × Nat) → List (Nat × Nat) → Ordering := padLex rankCmp (rank none)

/-- tokens: the run first, then the number -/
def tokCmp : Tok → Tok → Ordering := lexPair runCmp (fun a b => compare a b)

/-- the token that stands for "nothing left": empty run, number 0 -/
def padTok : Tok := ([], 0)

/-- parts: token by token, padded with `padTok` -/
def partCmp : List Tok → List Tok → Ordering := padLex tokCmp padTok

/-- `(epoch, tokens of upstream, tokens of revision)` -/
abbrev Key := Nat × List Tok × List Tok

def key (r : Raw) : Key := (r.epoch, tokens r.upstream, tokens r.revision)

def keyCmp : Key → Key → Ordering :=
  lexPair (fun a b => compare a b) (lexPair partCmp partCmp)

instance : TransCmp rankCmp := by unfold rankCmp; infer_instance
instance : TransCmp runCmp := by unfold runCmp; infer_instance
instance : TransCmp tokCmp := by unfold tokCmp; infer_instance
instance : TransCmp partCmp := by unfold partCmp; infer_instance
instance : TransCmp keyCmp := by unfold keyCmp; infer_instance

end Univers.Deb
