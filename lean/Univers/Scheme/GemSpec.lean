/-
Spec of the RubyGems order, written from `Gem::Version#<=>` (rubygems/version.rb):

* `segments`: the text scanned by `/[0-9]+|[a-z]+/i`, digit runs read as integers;
* `_split_segments`: the numeric segments before the first string segment / the rest;
* `canonical_segments`: each of the two parts without its trailing zeros, concatenated;
* `<=>`: position by position over the canonical segments, a missing segment counts as `0`,
  equal segments are skipped, `String < Numeric`, otherwise `Integer#<=>` / `String#<=>`.
-/
import Univers.Scheme.Gem

namespace Univers.Gem

open Std Univers

/-- the order of two segments -/
def segOrd : Seg → Seg → Ordering
  | .num a, .num b => compare a b
  | .str a, .str b => lexList compare a b
  | .str _, .num _ => .lt
  | .num _, .str _ => .gt

instance : OrientedCmp segOrd where
  eq_swap := by
    intro a b
    cases a <;> cases b <;> simp only [segOrd, Ordering.swap]
    · exact OrientedCmp.eq_swap
    · exact OrientedCmp.eq_swap

instance : TransCmp segOrd where
  isLE_trans := by
    intro a b c h1 h2
    cases a <;> cases b <;> cases c <;> simp only [segOrd] at h1 h2 ⊢ <;>
      first
        | exact TransCmp.isLE_trans h1 h2
        | rfl
        | (exact absurd h1 (by decide))
        | (exact absurd h2 (by decide))

/-- a list without its trailing zeros -/
def stripZeros : List Seg → List Seg
  | [] => []
  | x :: xs =>
    match stripZeros xs with
    | [] => if x = .num 0 then [] else [x]
    | y :: ys => x :: y :: ys

/-- canonical segments -/
abbrev Key : Type := List Seg

def key (r : Raw) : Key :=
  stripZeros (r.segs.takeWhile Seg.isNum) ++ stripZeros (r.segs.dropWhile Seg.isNum)

/-- position-wise comparison, the shorter list padded with `0` -/
def keyCmp : Key → Key → Ordering := padLex segOrd (.num 0)

instance : TransCmp keyCmp := padLex.instTrans segOrd (.num 0)

end Univers.Gem
