/-
The class table regenerated from /repo (`Gen.versionClasses`: which class defines each comparison
dunder of each `Version` subclass, whether attrs or `total_ordering` generated it or it is written
by hand, the shape of its `isinstance` guard, the attrs flags and field lists) is the one the
scheme models were written against.  A proof obligation over generated data: removing, adding or
moving a dunder in /repo (say, deleting a hand-written `__le__` so that the attrs one takes over)
makes this module fail to check even when no sampled pair shows a difference.
-/
import Univers.Gen.Classes

namespace Univers.Py

/-- per class: [name, frozen], eq fields, order fields, hash fields, then [dunder, definedIn, origin, guard] … -/
def classSummary : List (List (List String)) :=
  Univers.Gen.versionClasses.map (fun c =>
    [c.name, toString c.frozen] :: c.eqFields :: c.orderFields :: c.hashFields ::
      c.dunders.map (fun d => [d.name, d.definedIn, d.origin, d.guard]))

theorem class_table_pinned : classSummary = [
  ["Version", "true"] :: ["value"] :: ["value"] :: ["value"] ::
    [["__eq__", "Version", "attrs", "classIs"], ["__ne__", "Version", "attrs_ne", "inherit"], ["__lt__", "Version", "attrs", "classIs"], ["__le__", "Version", "attrs", "classIs"], ["__gt__", "Version", "attrs", "classIs"], ["__ge__", "Version", "attrs", "classIs"], ["__hash__", "Version", "attrs", "classIs"]],
  ["AlpineLinuxVersion", "true"] :: ["value"] :: ["value"] :: ["value"] ::
    [["__eq__", "GentooVersion", "hand", "isinstanceSelfClass"], ["__ne__", "Version", "attrs_ne", "inherit"], ["__lt__", "GentooVersion", "hand", "isinstanceSelfClass"], ["__le__", "GentooVersion", "hand", "isinstanceSelfClass"], ["__gt__", "GentooVersion", "hand", "isinstanceSelfClass"], ["__ge__", "GentooVersion", "hand", "isinstanceSelfClass"], ["__hash__", "GentooVersion", "hand", "none"]],
  ["ArchLinuxVersion", "true"] :: ["value"] :: ["value"] :: ["value"] ::
    [["__eq__", "ArchLinuxVersion", "hand", "isinstanceSelfClass"], ["__ne__", "Version", "attrs_ne", "inherit"], ["__lt__", "ArchLinuxVersion", "hand", "isinstanceSelfClass"], ["__le__", "ArchLinuxVersion", "hand", "isinstanceSelfClass"], ["__gt__", "ArchLinuxVersion", "hand", "isinstanceSelfClass"], ["__ge__", "ArchLinuxVersion", "hand", "isinstanceSelfClass"], ["__hash__", "ArchLinuxVersion", "hand", "none"]],
  ["ComposerVersion", "true"] :: ["value"] :: ["value"] :: ["value"] ::
    [["__eq__", "Version", "attrs", "classIs"], ["__ne__", "Version", "attrs_ne", "inherit"], ["__lt__", "Version", "attrs", "classIs"], ["__le__", "Version", "attrs", "classIs"], ["__gt__", "Version", "attrs", "classIs"], ["__ge__", "Version", "attrs", "classIs"], ["__hash__", "Version", "attrs", "classIs"]],
  ["ConanVersion", "true"] :: ["value"] :: ["value"] :: ["value"] ::
    [["__eq__", "Version", "attrs", "classIs"], ["__ne__", "Version", "attrs_ne", "inherit"], ["__lt__", "Version", "attrs", "classIs"], ["__le__", "Version", "attrs", "classIs"], ["__gt__", "Version", "attrs", "classIs"], ["__ge__", "Version", "attrs", "classIs"], ["__hash__", "Version", "attrs", "classIs"]],
  ["DebianVersion", "true"] :: ["value"] :: ["value"] :: ["value"] ::
    [["__eq__", "Version", "attrs", "classIs"], ["__ne__", "Version", "attrs_ne", "inherit"], ["__lt__", "Version", "attrs", "classIs"], ["__le__", "Version", "attrs", "classIs"], ["__gt__", "Version", "attrs", "classIs"], ["__ge__", "Version", "attrs", "classIs"], ["__hash__", "Version", "attrs", "classIs"]],
  ["GenericVersion", "true"] :: ["value"] :: ["value"] :: ["value"] ::
    [["__eq__", "Version", "attrs", "classIs"], ["__ne__", "Version", "attrs_ne", "inherit"], ["__lt__", "Version", "attrs", "classIs"], ["__le__", "Version", "attrs", "classIs"], ["__gt__", "Version", "attrs", "classIs"], ["__ge__", "Version", "attrs", "classIs"], ["__hash__", "Version", "attrs", "classIs"]],
  ["GentooVersion", "true"] :: ["value"] :: ["value"] :: ["value"] ::
    [["__eq__", "GentooVersion", "hand", "isinstanceSelfClass"], ["__ne__", "Version", "attrs_ne", "inherit"], ["__lt__", "GentooVersion", "hand", "isinstanceSelfClass"], ["__le__", "GentooVersion", "hand", "isinstanceSelfClass"], ["__gt__", "GentooVersion", "hand", "isinstanceSelfClass"], ["__ge__", "GentooVersion", "hand", "isinstanceSelfClass"], ["__hash__", "GentooVersion", "hand", "none"]],
  ["GolangVersion", "true"] :: ["value"] :: ["value"] :: ["value"] ::
    [["__eq__", "Version", "attrs", "classIs"], ["__ne__", "Version", "attrs_ne", "inherit"], ["__lt__", "Version", "attrs", "classIs"], ["__le__", "Version", "attrs", "classIs"], ["__gt__", "Version", "attrs", "classIs"], ["__ge__", "Version", "attrs", "classIs"], ["__hash__", "Version", "attrs", "classIs"]],
  ["LegacyOpensslVersion", "true"] :: ["value"] :: ["value"] :: ["value"] ::
    [["__eq__", "Version", "attrs", "classIs"], ["__ne__", "Version", "attrs_ne", "inherit"], ["__lt__", "LegacyOpensslVersion", "hand", "isinstanceSelfClass"], ["__le__", "LegacyOpensslVersion", "hand", "isinstanceSelfClass"], ["__gt__", "LegacyOpensslVersion", "hand", "isinstanceSelfClass"], ["__ge__", "LegacyOpensslVersion", "hand", "isinstanceSelfClass"], ["__hash__", "Version", "attrs", "classIs"]],
  ["MavenVersion", "true"] :: ["value"] :: ["value"] :: ["value"] ::
    [["__eq__", "Version", "attrs", "classIs"], ["__ne__", "Version", "attrs_ne", "inherit"], ["__lt__", "Version", "attrs", "classIs"], ["__le__", "Version", "attrs", "classIs"], ["__gt__", "Version", "attrs", "classIs"], ["__ge__", "Version", "attrs", "classIs"], ["__hash__", "Version", "attrs", "classIs"]],
  ["NginxVersion", "true"] :: ["value"] :: ["value"] :: ["value"] ::
    [["__eq__", "Version", "attrs", "classIs"], ["__ne__", "Version", "attrs_ne", "inherit"], ["__lt__", "Version", "attrs", "classIs"], ["__le__", "Version", "attrs", "classIs"], ["__gt__", "Version", "attrs", "classIs"], ["__ge__", "Version", "attrs", "classIs"], ["__hash__", "Version", "attrs", "classIs"]],
  ["NugetVersion", "true"] :: ["value"] :: ["value"] :: ["value"] ::
    [["__eq__", "Version", "attrs", "classIs"], ["__ne__", "Version", "attrs_ne", "inherit"], ["__lt__", "Version", "attrs", "classIs"], ["__le__", "Version", "attrs", "classIs"], ["__gt__", "Version", "attrs", "classIs"], ["__ge__", "Version", "attrs", "classIs"], ["__hash__", "Version", "attrs", "classIs"]],
  ["OpensslVersion", "true"] :: ["value"] :: ["value"] :: ["value"] ::
    [["__eq__", "OpensslVersion", "hand", "isinstanceSelfClass"], ["__ne__", "Version", "attrs_ne", "inherit"], ["__lt__", "OpensslVersion", "hand", "isinstanceSelfClass"], ["__le__", "OpensslVersion", "hand", "isinstanceSelfClass"], ["__gt__", "OpensslVersion", "hand", "isinstanceSelfClass"], ["__ge__", "OpensslVersion", "hand", "isinstanceSelfClass"], ["__hash__", "OpensslVersion", "hand", "none"]],
  ["PypiVersion", "true"] :: ["value"] :: ["value"] :: ["value"] ::
    [["__eq__", "Version", "attrs", "classIs"], ["__ne__", "Version", "attrs_ne", "inherit"], ["__lt__", "Version", "attrs", "classIs"], ["__le__", "Version", "attrs", "classIs"], ["__gt__", "Version", "attrs", "classIs"], ["__ge__", "Version", "attrs", "classIs"], ["__hash__", "Version", "attrs", "classIs"]],
  ["RpmVersion", "true"] :: ["value"] :: ["value"] :: ["value"] ::
    [["__eq__", "Version", "attrs", "classIs"], ["__ne__", "Version", "attrs_ne", "inherit"], ["__lt__", "Version", "attrs", "classIs"], ["__le__", "Version", "attrs", "classIs"], ["__gt__", "Version", "attrs", "classIs"], ["__ge__", "Version", "attrs", "classIs"], ["__hash__", "Version", "attrs", "classIs"]],
  ["RubygemsVersion", "true"] :: ["value"] :: ["value"] :: ["value"] ::
    [["__eq__", "Version", "attrs", "classIs"], ["__ne__", "Version", "attrs_ne", "inherit"], ["__lt__", "Version", "attrs", "classIs"], ["__le__", "Version", "attrs", "classIs"], ["__gt__", "Version", "attrs", "classIs"], ["__ge__", "Version", "attrs", "classIs"], ["__hash__", "Version", "attrs", "classIs"]],
  ["SemverVersion", "true"] :: ["value"] :: ["value"] :: ["value"] ::
    [["__eq__", "Version", "attrs", "classIs"], ["__ne__", "Version", "attrs_ne", "inherit"], ["__lt__", "Version", "attrs", "classIs"], ["__le__", "Version", "attrs", "classIs"], ["__gt__", "Version", "attrs", "classIs"], ["__ge__", "Version", "attrs", "classIs"], ["__hash__", "Version", "attrs", "classIs"]]] := by decide +kernel

end Univers.Py
