/-
Layer P — rich-comparison dispatch between two version CLASSES, over the class table that the
translator regenerates from /repo on every run (`Univers/Gen/Classes.lean`): which class
defines each dunder, how it was produced (attrs, total_ordering, by hand, object) and the
shape of its guard.
-/
import Univers.Gen.Classes

namespace Univers.Py

open Univers.Gen

def findClass (n : String) : Option PyClass := versionClasses.find? (fun k => k.name == n)

def dunderOf (k : PyClass) (d : String) : Option Dunder := k.dunders.find? (fun x => x.name == d)

/-- `issubclass(a, b)` -/
def isSubclassOf (a b : PyClass) : Bool := a.mro.contains b.name

/-- two classes where neither specialises the other -/
def unrelated (a b : PyClass) : Bool := !isSubclassOf a b && !isSubclassOf b a

/-- Does `self.<d>(other)` return `NotImplemented` for EVERY `self` of class `k` and `other`
of class `ok`, judging from the origin and guard of the method that Python resolves?
`false` also covers every shape this model does not know (so that an unknown shape makes the
theorems fail rather than pass). `fuel` bounds the chain of delegations
(`__ne__` → `__eq__`, total_ordering → `__lt__`). -/
def declines : Nat → PyClass → String → PyClass → Bool
  | 0, _, _, _ => false
  | fuel + 1, k, d, ok =>
    match dunderOf k d with
    | none => false
    | some m =>
      if m.origin == "object" then true
      else if m.origin == "attrs" && m.guard == "classIs" then k.name != ok.name
      else if m.origin == "hand" && m.guard == "isinstanceSelfClass" then !isSubclassOf ok k
      else if m.origin == "attrs_ne" then declines fuel k "__eq__" ok
      else if m.origin == "total_ordering" then declines fuel k "__lt__" ok
      else false

def reflected : String → String
  | "__lt__" => "__gt__" | "__gt__" => "__lt__" | "__le__" => "__ge__" | "__ge__" => "__le__"
  | d => d

inductive Outcome | typeError | false_ | true_ | depends
  deriving DecidableEq, Repr

/-- `a <op> b` for instances of two UNRELATED classes: when both the method and the reflected
method decline, ordering raises `TypeError`, `==` falls back to identity (`False` for distinct
objects) and `!=` to its negation. -/
def crossOutcome (a b : PyClass) (d : String) : Outcome :=
  if declines 3 a d b && declines 3 b (reflected d) a then
    (if d == "__eq__" then .false_ else if d == "__ne__" then .true_ else .typeError)
  else .depends

def orderingDunders : List String := ["__lt__", "__le__", "__gt__", "__ge__"]

end Univers.Py
