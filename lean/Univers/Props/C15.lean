/-
C15 — advisory notations convert to exactly the constraints they state.

Model, spec and helper proofs: `Univers/Text/Advisory*.lean` (comparator dicts and scheme
tables regenerated from /repo).  The theorems audited with this property are listed in
`harness/props/c15.py: THEOREMS`: `github_exact`, `snyk_exact`, `gitlab_exact`,
`notations_agree`, `split_req_order_ok_github`, `split_req_order_ok_snyk`.
-/
import Univers.Text.AdvisoryThm

namespace Univers.C15

end Univers.C15
