/-
C17 — meaning is stable under any sequence of presentation-level operations.

The state is the constraint tuple of a range (version-sorted by the constructor).  Operations,
as Layer-B models: permute + rebuild (`mkRange` of any permutation), simplify (any hash seed),
validate, invert twice, print + parse (`mkRange` of the same constraints: the text round trip
itself is C05).  The quantifier over histories is discharged by induction on the list of
operations.  Helper lemmas: `Univers/Vers/History.lean`.
-/
import Univers.Vers.History
import Univers.Vers.HistoryModel

namespace Univers.C17

open Univers Std

variable {V : Type} {o : VOps V} {cmp : V → V → Ordering}

/-- the invariant: a well-formed version-sorted star-free list -/
def Good (cmp : V → V → Ordering) (s : List (Con V)) : Prop :=
  noStar s = true ∧ StrictSorted cmp s ∧ eqRule s = true ∧ altRule s = true

theorem Good.wf {s : List (Con V)} (h : Good cmp s) : WFSorted cmp s := Or.inr h

theorem mkRange_good [TransCmp cmp] (h : Lawful o cmp) {s : List (Con V)} (hg : Good cmp s) :
    mkRange o s = .ok s :=
  sortCons_eq_of_perm h s s (List.Perm.refl _) hg.1 hg.2.1

/-- simplification of a well-formed list: well-formed, same meaning, and a list that is already a
fixed point is returned as it is -/
theorem simplify_good [TransCmp cmp] (h : Lawful o cmp) (π : List (Con V) → List (Con V))
    (hop : ∀ l, (π l).Perm l) (s : List (Con V)) (hg : Good cmp s) :
    ∃ t, simplify o π s = .ok t ∧ Good cmp t ∧ (∀ x, denote cmp t x = denote cmp s x) ∧
      (∀ π', (∀ l, (π' l).Perm l) → simplify o π' s = .ok s → t = s) := by
  obtain ⟨R, hR, hsub, hmean, hval, hfix⟩ := C08.simplify_spec h π hop s hg.1 hg.2.1
  have hwfR : WF cmp R := (validate_ok_iff_wf h R).mp hval
  have hnsR : noStar R = true := by
    apply List.all_eq_true.mpr
    intro c hc; exact List.all_eq_true.mp hg.1 c (hsub.subset hc)
  have hsR : StrictSorted cmp R := List.Pairwise.sublist hsub hg.2.1
  obtain ⟨t, htp, htw⟩ := hwfR
  have htR : t = R := by
    rcases htw with rfl | ⟨hns, hss, _, _⟩
    · have : R = [.star] := List.perm_singleton.mp htp.symm
      rw [this] at hnsR; simp [noStar, Con.isStar] at hnsR
    · exact strictSorted_perm_eq h t R hss hsR htp
  subst htR
  have hgR : Good cmp t := by
    rcases htw with rfl | hh
    · simp [noStar, Con.isStar] at hnsR
    · exact hh
  refine ⟨t, hR, hgR, ?_, ?_⟩
  · intro x
    rw [← denoteR_eq_denote t hgR.wf x, ← denoteR_eq_denote s hg.wf x]
    exact hmean x
  · intro π' hπ' hfixs
    have := C08.simplify_seed_independent h π π' hop hπ' s hg.1 hg.2.1
    rw [hR, hfixs] at this
    injection this

/-- every operation keeps a well-formed list well-formed, with the same meaning -/
theorem step_good [TransCmp cmp] (h : Lawful o cmp) (op : Op V) (hop : op.ok) (s : List (Con V))
    (hg : Good cmp s) :
    ∃ s', step o op s = .ok s' ∧ Good cmp s' ∧ (∀ x, denote cmp s' x = denote cmp s x) ∧
      (∀ π, (∀ l, (π l).Perm l) → simplify o π s = .ok s → s' = s) := by
  cases op with
  | printParse =>
    exact ⟨s, mkRange_good h hg, hg, fun _ => rfl, fun _ _ _ => rfl⟩
  | permuteRebuild σ =>
    have hp : (σ s).Perm s := hop s
    have : mkRange o (σ s) = .ok s := by
      rw [C13.canonical_perm h s (σ s) hp ⟨s, List.Perm.refl _, hg.wf⟩]
      exact mkRange_good h hg
    exact ⟨s, this, hg, fun _ => rfl, fun _ _ _ => rfl⟩
  | validate =>
    have : validate o s = .ok true := (validate_ok_iff_wf h s).mpr ⟨s, List.Perm.refl _, hg.wf⟩
    exact ⟨s, by simp [step, this], hg, fun _ => rfl, fun _ _ _ => rfl⟩
  | invertTwice =>
    have h1 := invertRange_sorted h s hg.1 hg.2.1
    have h2 := invertRange_sorted h (s.map Con.inv) (by rw [noStar_map_inv]; exact hg.1)
      (strictSorted_map_inv s hg.2.1)
    have : step o .invertTwice s = .ok s := by
      simp only [step, h1, h2]
      simp [List.map_map, Function.comp_def]
    exact ⟨s, this, hg, fun _ => rfl, fun _ _ _ => rfl⟩
  | simplify π =>
    obtain ⟨t, hR, hgR, hm, hfx⟩ := simplify_good h π hop s hg
    exact ⟨t, by simp only [step, hR]; exact mkRange_good h hgR, hgR, hm, hfx⟩
  | parseFlags sf vf π =>
    have h0 : sortCons o s = .ok s := mkRange_good h hg
    cases sf with
    | false =>
      have hv : validate o s = .ok true := (validate_ok_iff_wf h s).mpr ⟨s, List.Perm.refl _, hg.wf⟩
      refine ⟨s, ?_, hg, fun _ => rfl, fun _ _ _ => rfl⟩
      cases vf <;> simp [step, h0, hv, mkRange_good h hg]
    | true =>
      obtain ⟨t, hR, hgR, hm, hfx⟩ := simplify_good h π hop s hg
      have hv : validate o t = .ok true := (validate_ok_iff_wf h t).mpr ⟨t, List.Perm.refl _, hgR.wf⟩
      refine ⟨t, ?_, hgR, hm, hfx⟩
      cases vf <;> simp [step, h0, hR, hv, mkRange_good h hgR]

/-- Starting from any well-formed range (not the star), applying ANY finite sequence of
print+parse, rebuild from shuffled constraints, simplify (any hash seed), validate and invert
twice never fails and yields a well-formed range with exactly the same membership for every
version. -/
theorem history_meaning [TransCmp cmp] (h : Lawful o cmp) :
    ∀ (ops : List (Op V)), (∀ op ∈ ops, op.ok) → ∀ (s : List (Con V)), Good cmp s →
      ∃ s', run o ops s = .ok s' ∧ Good cmp s' ∧ ∀ x, denote cmp s' x = denote cmp s x
  | [], _, s, hg => ⟨s, rfl, hg, fun _ => rfl⟩
  | op :: rest, hops, s, hg => by
    obtain ⟨s1, h1, hg1, hm1, _⟩ := step_good h op (hops op List.mem_cons_self) s hg
    obtain ⟨s2, h2, hg2, hm2⟩ := history_meaning h rest (fun p hp => hops p (List.mem_cons_of_mem _ hp)) s1 hg1
    refine ⟨s2, by simp only [run, h1]; exact h2, hg2, fun x => by rw [hm2 x, hm1 x]⟩

/-- membership on the model of the real test (`contains_version`) is stable too -/
theorem history_membership [TransCmp cmp] (h : Lawful o cmp) (ops : List (Op V))
    (hops : ∀ op ∈ ops, op.ok) (s : List (Con V)) (hg : Good cmp s) (x : V) :
    ∃ s', run o ops s = .ok s' ∧ containsVersion o x s' = containsVersion o x s := by
  obtain ⟨s', hr, hg', hm⟩ := history_meaning h ops hops s hg
  refine ⟨s', hr, ?_⟩
  rw [C04.contains_eq_denote h s' hg'.wf x, C04.contains_eq_denote h s hg.wf x, hm x]

/-- once simplified, nothing changes any more: a list that simplification leaves alone is
left alone by every operation -/
theorem stable_after_simplify [TransCmp cmp] (h : Lawful o cmp) :
    ∀ (ops : List (Op V)), (∀ op ∈ ops, op.ok) → ∀ (s : List (Con V)), Good cmp s →
      (∃ π, (∀ l, (π l).Perm l) ∧ simplify o π s = .ok s) → run o ops s = .ok s
  | [], _, s, _, _ => rfl
  | op :: rest, hops, s, hg, ⟨π, hπ, hfix⟩ => by
    obtain ⟨s1, h1, _, _, hsame⟩ := step_good h op (hops op List.mem_cons_self) s hg
    have : s1 = s := hsame π hπ hfix
    subst this
    simp only [run, h1]
    exact stable_after_simplify h rest (fun p hp => hops p (List.mem_cons_of_mem _ hp)) s1 hg ⟨π, hπ, hfix⟩

/-- the canonical text stops changing after the first simplification: whatever follows a
simplify step leaves the constraint tuple (hence its text) as that step produced it -/
theorem history_text_stable [TransCmp cmp] (h : Lawful o cmp) (ops₁ ops₂ : List (Op V))
    (π : List (Con V) → List (Con V)) (hπ : ∀ l, (π l).Perm l)
    (h1 : ∀ op ∈ ops₁, op.ok) (h2 : ∀ op ∈ ops₂, op.ok) (s : List (Con V)) (hg : Good cmp s) :
    run o (ops₁ ++ [.simplify π] ++ ops₂) s = run o (ops₁ ++ [.simplify π]) s := by
  have hrun_append : ∀ (a b : List (Op V)) (s : List (Con V)),
      run o (a ++ b) s = match run o a s with | .error e => .error e | .ok s' => run o b s' := by
    intro a
    induction a with
    | nil => intro b s; rfl
    | cons x xs ih =>
      intro b s
      simp only [List.cons_append, run]
      cases step o x s with
      | error e => rfl
      | ok s' => exact ih b s'
  obtain ⟨sa, ha, hga, _⟩ := history_meaning h ops₁ h1 s hg
  obtain ⟨sb, hb, hgb, _, _⟩ := step_good h (.simplify π) hπ sa hga
  -- sb is a fixed point of simplification
  have hfix : simplify o π sb = .ok sb := by
    obtain ⟨R, hR, _, _, _, hRfix⟩ := C08.simplify_spec h π hπ sa hga.1 hga.2.1
    have : sb = R := by
      simp only [step, hR] at hb
      have hgR : mkRange o R = .ok sb := hb
      -- R is already sorted: mkRange R = R
      have hval := (C08.simplify_spec h π hπ sa hga.1 hga.2.1)
      obtain ⟨R', hR', hsub', _, hval', _⟩ := hval
      rw [hR] at hR'; injection hR' with e; subst e
      have hnsR : noStar R = true := by
        apply List.all_eq_true.mpr
        intro c hc; exact List.all_eq_true.mp hga.1 c (hsub'.subset hc)
      have hsR : StrictSorted cmp R := List.Pairwise.sublist hsub' hga.2.1
      unfold mkRange at hgR
      rw [sortCons_eq_of_perm h R R (List.Perm.refl _) hnsR hsR] at hgR
      injection hgR with e; exact e.symm
    rw [this]; exact hRfix
  have hfull : run o (ops₁ ++ [Op.simplify π]) s = .ok sb := by
    rw [hrun_append, ha]; simp only [run, hb]
  rw [hrun_append (ops₁ ++ [Op.simplify π]) ops₂ s, hfull]
  exact stable_after_simplify h ops₂ h2 sb hgb ⟨π, hπ, hfix⟩

/-! non-vacuity -/
example : Good C04.intCmp [.mk .ge 1, .mk .lt 5, .mk .eq 7, .mk .ne 9] := by
  refine ⟨by decide, ?_, by decide, by decide⟩
  simp [StrictSorted, C04.intCmp]; decide

end Univers.C17
