/-
C02 — the six comparison operators agree with one another.

`Lawful verOps vercmp` says that the six operators, as Python dispatches them for the scheme's
public class, are the six views of the scheme's one three-way comparison; the generic
consequences (exactly one of <, ==, >; <= is < or ==; …; the meaning of a single-comparator
constraint) are in `Univers/Basic/Swo.lean`.
-/
import Univers.Props.C01
import Univers.Scheme.MavenThm
import Univers.Gen.Comparators

namespace Univers.C02

open Univers Std

/-! ### generic: what `Lawful` gives -/

theorem ops_agree {V : Type} {o : VOps V} {cmp : V → V → Ordering} (h : Lawful o cmp) (a b : V) :
    exactlyOne (o.lt a b) (o.eq a b) (o.gt a b) = true ∧
    o.le a b = (o.lt a b || o.eq a b) ∧ o.ge a b = (o.gt a b || o.eq a b) ∧
    o.ne a b = !o.eq a b := ops_agree_of_lawful h a b

/-- '<=1.9' accepts exactly the versions below or equal to 1.9 in the scheme's order -/
theorem constraint_meaning {V : Type} {o : VOps V} {cmp : V → V → Ordering} (h : Lawful o cmp)
    (c : Cmpr) (u x : V) : (Con.mk c u).sat o x = c.holds (cmp x u) := single_constraint_meaning h c u x

/-- the `COMPARATORS` table regenerated from /repo maps each comparator text to the operator
the model uses (and "*" to the always-true operator) -/
theorem comparators_table :
    (∀ c ∈ Cmpr.all, Gen.comparators.lookup c.text = some (match c with
      | .ge => "ge" | .le => "le" | .ne => "ne" | .lt => "lt" | .gt => "gt" | .eq => "eq")) ∧
    Gen.comparators.lookup "*" = some "star" ∧ Gen.comparators.length = 7 := by decide

/-! ### per scheme -/

theorem gem : Lawful Gem.verOps Gem.vercmp := Gem.verOps_lawful
theorem rpm : Lawful Rpm.verOps Rpm.vercmp := Rpm.verOps_lawful
theorem pypi : Lawful Pypi.verOps Pypi.vercmp := Pypi.verOps_lawful
theorem generic : Lawful Generic.verOps Generic.vercmp := Generic.verOps_lawful
theorem deb : Lawful Deb.verOps Deb.vercmp := Deb.verOps_lawful
theorem alpm : Lawful Alpm.verOps Alpm.vercmp := Alpm.verOps_lawful
theorem conan : Lawful Conan.verOps Conan.vercmp := Conan.verOps_lawful
theorem nuget : Lawful Nuget.verOps Nuget.vercmp := Nuget.verOps_lawful
/-- ebuild, alpine -/
theorem gentoo : Lawful Gentoo.verOps Gentoo.vercmp := Gentoo.verOps_lawful
theorem maven : Lawful Maven.verOps Maven.vercmp := Maven.verOps_lawful
theorem legacy_openssl : Lawful Openssl.Legacy.verOps Openssl.Legacy.vercmp := Openssl.Legacy.verOps_lawful
/-- semver, golang, composer, nginx: on every value the constructors can produce -/
theorem semver : Lawful Semver.verOpsCanon (fun a b => Semver.vercmp a.1 b.1) := Semver.verOps_lawful_partial
theorem semver_constructed (s : List Char) (r : Semver.Raw) (h : Semver.construct s = .ok r) :
    Semver.PreCanon r := Semver.construct_preCanon s r h
/-- openssl: on every value the constructor can produce -/
theorem openssl : Lawful Openssl.verOpsCanon (fun a b => Openssl.vercmp a.1 b.1) := Openssl.verOps_lawful
theorem openssl_constructed (s : List Char) (r : Openssl.Raw) (h : Openssl.construct s = .ok r) :
    Openssl.Canon r := Openssl.construct_canon s r h

end Univers.C02
