/-
C05 — vers text and range objects round-trip losslessly and canonically.

Model: `Univers/Text/Vers.lean` (`VersionRange.from_string`, `VersionConstraint.from_string`,
`split`, `__str__`, `to_dict`) over the registry tables regenerated from /repo.
Spec: `Univers/Text/VersSpec.lean`.  Helper proofs: `Univers/Text/VersThm.lean`.
The order of the printed constraints (version order) is Layer B: `sortCons_of_wf` (C04/C07).
-/
import Univers.Text.VersThm
import Univers.Vers.SortThm

namespace Univers.C05

open Univers Univers.Text Univers.Text.Vers Univers.Text.Str

/-- every range class that can print a `vers:<scheme>/` string has that scheme recognised by
the parser (decided over the regenerated registry and class tables) -/
theorem registry_complete : RegistryComplete := Vers.registry_complete

/-- the registry maps each name to the range class that prints that name -/
theorem registry_sound : RegistrySound := Vers.registry_sound

/-- the printed constraint (`=` implicit) splits back into its comparator and version -/
theorem split_of_print (c : Cmpr) {v : List Char} (h : TextSafe v) :
    split (print c v) = (c.text.toList, v) := Vers.split_of_print c h

/-- printing a range (any registered scheme, any non-empty constraint list with delimiter-free
version texts that the version class prints back unchanged, star only alone) and parsing that
text yields the same scheme and the same constraints -/
theorem fromString_toString (mkVer : MkVer) (scheme : List Char) (vc : String)
    (items : List TCon) (hreg : Registered scheme vc) (hne : items ≠ [])
    (hstar : StarAlone items) (hok : ∀ c ∈ items, ConOk (mkVer vc) c)
    (ha : isAsciiRepr (Vers.toString scheme items) = true) :
    fromString mkVer (Vers.toString scheme items) = .ok (scheme, items) :=
  Vers.fromString_toString mkVer scheme vc items hreg hne hstar hok ha

/-- and printing again yields the identical string -/
theorem toString_fromString_canonical (mkVer : MkVer) (e : Expr) (vc : String) (t : List Char)
    (hreg : Registered e.scheme vc) (hne : e.items ≠ []) (hstar : StarAlone e.items)
    (hok : ∀ c ∈ e.items, ConOk (mkVer vc) c) (hr : Renders e t)
    (ha : isAsciiRepr (removeSpaces t) = true) :
    (fromString mkVer t).map (fun r => Vers.toString r.1 r.2) = .ok (Vers.toString e.scheme e.items) :=
  Vers.toString_fromString_canonical mkVer e vc t hreg hne hstar hok hr ha

/-- the star range round-trips for every registered scheme -/
theorem fromString_toString_star (mkVer : MkVer) (scheme : List Char) (vc : String)
    (hreg : Registered scheme vc) :
    fromString mkVer (Vers.toString scheme [.star]) = .ok (scheme, [.star]) :=
  Vers.fromString_toString_star mkVer scheme vc hreg

end Univers.C05
