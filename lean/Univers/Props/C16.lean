/-
C16 — parsing untrusted text succeeds or fails with a declared error, and terminates.

Every partial Python operation of the modelled parsers is an explicit error constructor of the
models (`PErr.other`, `TErr.IndexError`, …), so "no internal error escapes" is a theorem about
which constructors are reachable — for EVERY text.  Termination of the models is their
acceptance by Lean (structural or well-founded recursion; no `partial`, no fuel that can run
out silently).  The theorems audited with this property are listed in
`harness/props/c16.py: THEOREMS`.  Running time (regex backtracking, big-integer arithmetic,
the interpreter's recursion limit) is runtime behaviour: measured, not proved (partial).
-/
import Univers.Props.C11
import Univers.Text.VersThm
import Univers.Text.NpmThm
import Univers.Text.GemReqThm
import Univers.Text.PypiNativeThm
import Univers.Text.MavenRangeThm
import Univers.Text.ConanRangeThm
import Univers.Text.AdvisoryThm

namespace Univers.C16

end Univers.C16
