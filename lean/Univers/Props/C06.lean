/-
C06 — converting a native range to vers preserves exactly the set of matching versions.

Models, specs and helper proofs: `Univers/Text/{Npm,GemReq,PypiNative,MavenRange,ConanRange,
Advisory}*.lean`.  The theorems audited with this property are listed in
`harness/props/c06.py: THEOREMS` (exactness of every shorthand desugaring, soundness against
the in-repo matchers for gem and maven, well-formedness facts for nginx).
-/
import Univers.Text.NpmThm
import Univers.Text.GemReqThm
import Univers.Text.PypiNativeThm
import Univers.Text.MavenRangeThm
import Univers.Text.ConanRangeThm
import Univers.Text.AdvisoryThm

namespace Univers.C06

end Univers.C06
