/-
C07 — validation accepts exactly the well-formed constraint sequences.

Model: `validate` (`VersionConstraint.validate` + `validate_comparators`, FIXED CODE: the star
rule is tested before sorting; a sorted copy is used).  Spec: `WF`.
-/
import Univers.Vers.ValidateThm
import Univers.Props.C04

namespace Univers.C07

open Univers Std

variable {V : Type} {o : VOps V} {cmp : V → V → Ordering}

/-- Validation accepts a list exactly when, read in version order, it is well-formed: every
version once, `*` only alone, an `=` never followed by an upper bound once exclusions are
ignored, lower and upper bounds strictly alternating once `=` and `!=` are ignored. -/
theorem validate_iff_wf [TransCmp cmp] (h : Lawful o cmp) (cs : List (Con V)) :
    validate o cs = .ok true ↔ WF cmp cs :=
  validate_ok_iff_wf h cs

/-- every other list is rejected with a ValueError (never another error, never `False`) -/
theorem validate_rejects_with_ValueError [TransCmp cmp] (h : Lawful o cmp) (cs : List (Con V))
    (hn : ¬ WF cmp cs) : validate o cs = .error .ValueError := by
  rcases validate_cases (o := o) cs with hv | hv
  · exact absurd ((validate_ok_iff_wf h cs).mp hv) hn
  · exact hv

/-- Every accepted list can be tested for membership of any version without an error
(through the range constructor, which sorts). -/
theorem accepted_is_total [TransCmp cmp] (h : Lawful o cmp) (cs : List (Con V))
    (hv : validate o cs = .ok true) (x : V) :
    ∃ s b, mkRange o cs = .ok s ∧ containsVersion o x s = .ok b := by
  obtain ⟨s, hs, _, hw⟩ := sortCons_of_wf h cs ((validate_ok_iff_wf h cs).mp hv)
  exact ⟨s, _, hs, C04.contains_eq_denote h s hw x⟩

/-! non-vacuity: a well-formed list given out of order; a rejected one -/
example : WF C04.intCmp [.mk .ge 3, .mk .lt 1] :=
  ⟨[.mk .lt 1, .mk .ge 3], List.Perm.swap _ _ _, Or.inr ⟨by decide, by
    simp [StrictSorted, C04.intCmp]; decide, by decide, by decide⟩⟩
example : validate (opsOf C04.intCmp) [.star, .mk .eq 1] = .error .ValueError := by rfl

end Univers.C07
