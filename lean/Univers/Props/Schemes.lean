/-
The generic Layer-B theorems (C04, C07, C08, C09, C10, C13, C17) instantiated at the concrete scheme
models of Layer A.

Every Layer-B theorem is stated for an arbitrary type of versions with six operators `o` and a
comparison `cmp` such that `[TransCmp cmp]` and `Lawful o cmp`.  This file shows that the hypotheses
are MET by the models of the library's own schemes — so the theorems are about gem, rpm, pypi, deb,
generic, openssl (legacy and current), semver, nuget, conan, ebuild/alpine, alpm and maven as
modelled, not about an empty class — and restates the main results for each of them.

Schemes whose operators are lawful only on a sub-domain come with that sub-domain as a subtype:
alpm (all versions with a pkgrel / all without), ebuild and alpine (values the constructors
produce), nuget (well-formed values), conan (one homogeneous shape), maven (the documented shape,
K01).  semver-family and openssl operators are lawful on canonical values (`CanonRaw`), which is
what the constructors produce (`C02.semver_constructed`, `C02.openssl_constructed`).
-/
import Univers.Props.C02
import Univers.Props.C04
import Univers.Props.C07
import Univers.Props.C08
import Univers.Props.C09
import Univers.Props.C10
import Univers.Props.C13
import Univers.Props.C17

namespace Univers.Schemes

open Univers Std

/-- a scheme model that satisfies the hypotheses of Layer B -/
structure LawfulScheme where
  V : Type
  o : VOps V
  cmp : V → V → Ordering
  trans : TransCmp cmp
  lawful : Lawful o cmp

attribute [instance] LawfulScheme.trans

variable (S : LawfulScheme)

/-- C04 for the scheme -/
theorem contains (cs : List (Con S.V)) (hwf : WFSorted S.cmp cs) (x : S.V) :
    containsVersion S.o x cs = .ok (denote S.cmp cs x) :=
  C04.contains_eq_denote S.lawful cs hwf x

/-- C07 for the scheme -/
theorem validate_iff (cs : List (Con S.V)) : validate S.o cs = .ok true ↔ WF S.cmp cs :=
  C07.validate_iff_wf S.lawful cs

/-- C08 for the scheme -/
theorem simplify_ok (perm : List (Con S.V) → List (Con S.V)) (hperm : ∀ l, (perm l).Perm l)
    (cs : List (Con S.V)) (hns : noStar cs = true) (hs : StrictSorted S.cmp cs) :
    ∃ R, simplify S.o perm cs = .ok R ∧ R.Sublist cs ∧ (∀ x, denoteR S.cmp R x = denoteR S.cmp cs x) ∧
      validate S.o R = .ok true ∧ simplify S.o perm R = .ok R :=
  C08.simplify_spec S.lawful perm hperm cs hns hs

/-- C09 for the scheme -/
theorem invert_ok (cs : List (Con S.V)) (hwf : WFSorted S.cmp cs) (hstar : cs ≠ [.star]) (hne : cs ≠ [])
    (hnv : NonVacuous S.cmp cs) :
    ∃ inv, invertRange S.o cs = some (.ok inv) ∧ WFSorted S.cmp inv ∧
      (∀ x, denote S.cmp inv x = !denote S.cmp cs x) ∧
      (∀ x, containsVersion S.o x inv = .ok (!denote S.cmp cs x)) ∧
      invertRange S.o inv = some (.ok cs) :=
  C09.invert_complement S.lawful cs hwf hstar hne hnv

/-- C10 for the scheme -/
theorem normalize_ok (cs : List (Con S.V)) (hwf : WFSorted S.cmp cs) (ks : List S.V) :
    ∃ r, normalize S.o cs ks = .ok r ∧ WFSorted S.cmp r ∧ validate S.o r = .ok true ∧
      ∀ k ∈ ks, containsVersion S.o k r = .ok (denote S.cmp cs k) := by
  obtain ⟨r, h1, h2, h3⟩ := C10.normalize_accepted S.lawful cs hwf ks
  obtain ⟨r', h1', hm⟩ := C10.normalize_members S.lawful cs hwf ks
  rw [h1] at h1'; injection h1' with e; subst e
  exact ⟨r, h1, h2, h3, fun k hk => (hm k hk).1⟩

/-- C13 for the scheme -/
theorem canonical (cs cs' : List (Con S.V)) (hp : cs'.Perm cs) (hwf : WF S.cmp cs) :
    mkRange S.o cs' = mkRange S.o cs :=
  C13.canonical_perm S.lawful cs cs' hp hwf

/-- C17 for the scheme -/
theorem history (ops : List (C17.Op S.V)) (hops : ∀ op ∈ ops, op.ok) (s : List (Con S.V))
    (hg : C17.Good S.cmp s) :
    ∃ s', C17.run S.o ops s = .ok s' ∧ C17.Good S.cmp s' ∧ ∀ x, denote S.cmp s' x = denote S.cmp s x :=
  C17.history_meaning S.lawful ops hops s hg

/-! ### the schemes of the library -/

def gem : LawfulScheme := ⟨Gem.Raw, Gem.verOps, Gem.vercmp, inferInstance, Gem.verOps_lawful⟩
def rpm : LawfulScheme := ⟨Rpm.Raw, Rpm.verOps, Rpm.vercmp, inferInstance, Rpm.verOps_lawful⟩
def pypi : LawfulScheme := ⟨Pypi.Raw, Pypi.verOps, Pypi.vercmp, inferInstance, Pypi.verOps_lawful⟩
def generic : LawfulScheme := ⟨Generic.Raw, Generic.verOps, Generic.vercmp, inferInstance, Generic.verOps_lawful⟩
def deb : LawfulScheme := ⟨Deb.Raw, Deb.verOps, Deb.vercmp, inferInstance, Deb.verOps_lawful⟩
def legacyOpenssl : LawfulScheme :=
  ⟨Openssl.Legacy.Raw, Openssl.Legacy.verOps, Openssl.Legacy.vercmp, inferInstance, Openssl.Legacy.verOps_lawful⟩

/-- semver family (semver, npm, composer, golang, nginx): canonical values -/
def semver : LawfulScheme :=
  ⟨Semver.CanonRaw, Semver.verOpsCanon, fun a b => Semver.vercmp a.1 b.1,
    inferInstanceAs (TransCmp (cmpOn Subtype.val Semver.vercmp)), C02.semver⟩

/-- openssl (legacy or semver value): canonical values -/
def openssl : LawfulScheme :=
  ⟨Openssl.CanonRaw, Openssl.verOpsCanon, fun a b => Openssl.vercmp a.1 b.1,
    inferInstanceAs (TransCmp (cmpOn Subtype.val Openssl.vercmp)), C02.openssl⟩

/-- ebuild and alpine: the values the constructors produce -/
def gentoo : LawfulScheme :=
  ⟨Gentoo.ValidRaw, subOps (P := Gentoo.Valid) Gentoo.verOps, fun a b => Gentoo.vercmp a.1 b.1,
    inferInstanceAs (TransCmp (cmpOn (Subtype.val : Gentoo.ValidRaw → Gentoo.Raw) Gentoo.vercmp)),
    Gentoo.verOps_lawful.sub⟩

/-- alpm: versions with a pkgrel -/
def alpmWithRel : LawfulScheme :=
  ⟨Alpm.WithRel, subOps (P := fun r => Alpm.hasRel r = true) Alpm.verOps, fun a b => Alpm.vercmp a.1 b.1,
    inferInstanceAs (TransCmp (cmpOn (Subtype.val : Alpm.WithRel → Alpm.Raw) Alpm.vercmp)), Alpm.verOps_lawful.sub⟩

/-- alpm: versions without a pkgrel -/
def alpmNoRel : LawfulScheme :=
  ⟨Alpm.NoRel, subOps (P := fun r => Alpm.hasRel r = false) Alpm.verOps, fun a b => Alpm.vercmp a.1 b.1,
    inferInstanceAs (TransCmp (cmpOn (Subtype.val : Alpm.NoRel → Alpm.Raw) Alpm.vercmp)), Alpm.verOps_lawful.sub⟩

/-- nuget: the values the constructor produces -/
def nuget : LawfulScheme :=
  ⟨Nuget.WFRaw, subOps (P := fun r => Nuget.WF r = true) Nuget.verOps, fun a b => Nuget.vercmp a.1 b.1,
    inferInstanceAs (TransCmp Nuget.vercmpW), Nuget.verOps_lawful.sub⟩

/-- conan: versions of one homogeneous shape `σ` (numbers and words never share a position) -/
def conan (σ : List Bool → Nat → Bool) : LawfulScheme :=
  ⟨Conan.Dom σ, subOps (P := fun v => Conan.Fits σ [] v = true) Conan.verOps, fun a b => Conan.vercmp a.1 b.1,
    inferInstanceAs (TransCmp (Conan.vercmpOn σ)), Conan.verOps_lawful.sub⟩

/-- maven: the documented shape (outside it the order is not lawful: K01) -/
def maven : LawfulScheme :=
  ⟨Maven.Dom, subOps (P := fun r => Maven.InDomain r = true) Maven.verOps, fun a b => Maven.vercmp a.1 b.1,
    inferInstanceAs (TransCmp Maven.domCmp), Maven.verOps_lawful.sub⟩

/-- the schemes the library registers, each with a lawful model -/
def all (σ : List Bool → Nat → Bool) : List LawfulScheme :=
  [gem, rpm, pypi, generic, deb, legacyOpenssl, semver, openssl, gentoo, alpmWithRel, alpmNoRel, nuget, conan σ, maven]

/-! non-vacuity: Layer B's membership theorem at two concrete schemes -/
example (cs : List (Con Gem.Raw)) (hwf : WFSorted Gem.vercmp cs) (x : Gem.Raw) :
    containsVersion Gem.verOps x cs = .ok (denote Gem.vercmp cs x) := contains gem cs hwf x
example (cs : List (Con Deb.Raw)) : validate Deb.verOps cs = .ok true ↔ WF Deb.vercmp cs := validate_iff deb cs

end Univers.Schemes
