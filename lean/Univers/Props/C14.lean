/-
C14 — versions of unrelated schemes are never silently compared or matched.

The theorems quantify over the class table regenerated from /repo (`Gen.versionClasses`):
adding a scheme or an operator re-runs them over the new matrix.
-/
import Univers.Py.Dispatch

namespace Univers.C14

open Univers.Py Univers.Gen

/-- Ordering two versions of unrelated classes raises a type error — for every pair of
version classes of the library where neither specialises the other, and all four ordering
operators (the values do not matter: both the method and the reflected method decline on the
class of the operand alone). -/
theorem cross_scheme_ordering :
    ∀ a ∈ versionClasses, ∀ b ∈ versionClasses, unrelated a b = true →
      ∀ d ∈ orderingDunders, crossOutcome a b d = .typeError := by decide +kernel

/-- testing them for equality is false, and `!=` is true -/
theorem cross_scheme_equality :
    ∀ a ∈ versionClasses, ∀ b ∈ versionClasses, unrelated a b = true →
      crossOutcome a b "__eq__" = .false_ ∧ crossOutcome a b "__ne__" = .true_ := by decide +kernel

/-- the only related pair among the listed classes that differ is alpine ⊂ ebuild and the
semver family (golang, composer, nginx ⊂ semver): everything else is unrelated -/
theorem related_pairs :
    ∀ a ∈ versionClasses, ∀ b ∈ versionClasses, a.name ≠ b.name → a.name ≠ "Version" → b.name ≠ "Version" →
      isSubclassOf a b = true →
      (a.name, b.name) ∈ [("AlpineLinuxVersion", "GentooVersion"), ("ComposerVersion", "SemverVersion"),
        ("GolangVersion", "SemverVersion"), ("NginxVersion", "SemverVersion")] := by decide +kernel

/-- non-vacuity: there are unrelated pairs (e.g. pypi vs deb) -/
example : ∃ a ∈ versionClasses, ∃ b ∈ versionClasses, unrelated a b = true ∧
    a.name = "PypiVersion" ∧ b.name = "DebianVersion" := by decide +kernel

end Univers.C14
