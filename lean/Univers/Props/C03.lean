/-
C03 — each scheme orders versions the way its ecosystem's reference algorithm does.

For every scheme: the comparison routine of the code (`vercmp`, the model mirrors the Python
branch for branch) equals `compare` on a sort key written from the ecosystem's published
procedure (`Univers/Scheme/<S>Spec.lean`: dpkg, rpmvercmp with epoch/tilde/caret, pacman
vercmp, Gentoo PMS §3.3, SemVer 2.0 §11 + build tie-break, PEP 440, Maven ComparableVersion,
Gem::Version#<=>, NuGet SemVer2 + revision, Conan on homogeneous items, the two-epoch openssl
order).  The fidelity of the keys to the ecosystems is in the trusted base.
-/
import Univers.Props.C02

namespace Univers.C03

open Univers Std

theorem deb (a b : Deb.Raw) : Deb.vercmp a b = Deb.keyCmp (Deb.key a) (Deb.key b) := Deb.vercmp_eq_key a b
theorem rpm (a b : Rpm.Raw) : Rpm.vercmp a b = Rpm.keyCmp (Rpm.key a) (Rpm.key b) := Rpm.vercmp_eq_key a b
theorem alpm (a b : Alpm.Raw) : Alpm.vercmp a b = Alpm.keyCmp (Alpm.key a) (Alpm.key b) := Alpm.vercmp_eq_key a b
theorem semver (a b : Semver.Raw) : Semver.vercmp a b = Semver.keyCmp (Semver.key a) (Semver.key b) :=
  Semver.vercmp_eq_key a b
theorem pypi (a b : Pypi.Raw) : Pypi.vercmp a b = Pypi.keyCmp (Pypi.key a) (Pypi.key b) := Pypi.vercmp_eq_key a b
theorem gem (a b : Gem.Raw) : Gem.vercmp a b = Gem.keyCmp (Gem.key a) (Gem.key b) := Gem.vercmp_eq_key a b
theorem legacy_openssl (a b : Openssl.Legacy.Raw) :
    Openssl.Legacy.vercmp a b = Openssl.Legacy.keyCmp (Openssl.Legacy.key a) (Openssl.Legacy.key b) :=
  Openssl.Legacy.vercmp_eq_key a b
theorem openssl (a b : Openssl.Raw) : Openssl.vercmp a b = Openssl.keyCmp (Openssl.key a) (Openssl.key b) :=
  Openssl.vercmp_eq_key a b
/-- nuget: on every value the constructor can produce -/
theorem nuget (a b : Nuget.Raw) (ha : Nuget.WF a = true) (hb : Nuget.WF b = true) :
    Nuget.vercmp a b = Nuget.keyCmp (Nuget.key a) (Nuget.key b) := Nuget.vercmp_eq_key a b ha hb
/-- conan: on homogeneous items (the property's own restriction) -/
theorem conan_partial (a b : Conan.Raw) (h : Conan.Compat a b = true) :
    Conan.vercmp a b = Conan.keyCmp (Conan.key a) (Conan.key b) := Conan.vercmp_eq_key_partial a b h
/-- ebuild, alpine: Gentoo PMS key, on valid versions whose first component has no superfluous
leading zero (outside: `010 < 10` in the code, equal in PMS — known finding) -/
theorem gentoo_partial (a b : Gentoo.Raw) (ha : Gentoo.Valid a) (hb : Gentoo.Valid b)
    (fa : Gentoo.FirstOK a = true) (fb : Gentoo.FirstOK b = true) :
    Gentoo.vercmp a b = Gentoo.keyCmp (Gentoo.key a) (Gentoo.key b) := Gentoo.vercmp_eq_key_partial a b ha hb fa fb
/-- maven: on the documented shape `N(.N)*(-qualifier | -N(.N)*)*` (outside: the port's flat
parse of `.qualifier` and list-vs-null comparison — known finding) -/
theorem maven_partial (a b : Maven.Raw) (ha : Maven.InDomain a = true) (hb : Maven.InDomain b = true) :
    Maven.vercmp a b = Maven.keyCmp (Maven.key a) (Maven.key b) := Maven.vercmp_eq_key_partial a b ha hb

end Univers.C03
