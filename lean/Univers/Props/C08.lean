/-
C08 — simplification keeps the meaning, only removes, reaches a valid fixed point.
-/
import Univers.Vers.Spec

namespace Univers.C08

end Univers.C08
