/-
C08 — simplification keeps the meaning, only removes, reaches a valid fixed point.

Model: `simplify` = `deduplicate` then `simplify_constraints` (FIXED CODE: one pass with a stack
of retained constraints, then `sorted(set(...))` whose set iteration order is the arbitrary
permutation `perm`).  Spec: `denoteR` (redundant-range meaning), `validate`, sub-list.
Helper lemmas: `Univers/Vers/Simplify*.lean`.
-/
import Univers.Vers.SimplifyChar
import Univers.Props.C04

namespace Univers.C08

open Univers Std

variable {V : Type} {o : VOps V} {cmp : V → V → Ordering}

/-- on a version-sorted list with distinct versions there is nothing to deduplicate -/
theorem simplify_eq_simplifyConstraints [TransCmp cmp] (h : Lawful o cmp)
    (perm : List (Con V) → List (Con V)) (cs : List (Con V)) (hs : StrictSorted cmp cs) :
    simplify o perm cs = simplifyConstraints o perm cs := by
  unfold simplify
  rw [deduplicate_of_apart [] cs (by intro _ _ _ hs; cases hs) (strictSorted_apart h cs hs)]

/-- exact duplicates of some constraints simply disappear -/
theorem simplify_dups (perm : List (Con V) → List (Con V)) (L cs : List (Con V))
    (hd : deduplicate o [] L = cs) (hcs : deduplicate o [] cs = cs) :
    simplify o perm L = simplify o perm cs := by
  unfold simplify; rw [hd, hcs]

theorem simpStep_ne_nil (st : List (Con V)) (c : Con V) : simpStep st c ≠ [] := by
  unfold simpStep
  split
  · simp
  · split
    · rename_i hh
      cases st with
      | nil => simp [topIsLower] at hh
      | cons a t => simp
    · simp

theorem foldl_simpStep_ne_nil : ∀ (l st : List (Con V)), st ≠ [] → l.foldl simpStep st ≠ []
  | [], st, h => h
  | c :: t, st, _ => foldl_simpStep_ne_nil t _ (simpStep_ne_nil st c)

theorem simpKept_ne_nil (l : List (Con V)) (h : l ≠ []) : simpKept l ≠ [] := by
  cases l with
  | nil => exact absurd rfl h
  | cons c t =>
    unfold simpKept
    simp only [List.foldl_cons, ne_eq, List.reverse_eq_nil_iff]
    exact foldl_simpStep_ne_nil t _ (simpStep_ne_nil [] c)

/-- The four clauses at once, for every version-sorted list with pairwise distinct versions
(well-formed or not, any length, any lawful scheme) and every iteration order `perm` of the
intermediate set: simplification returns a list `R` that
 1. is a sub-list of the input,
 2. has the same (redundant-range) meaning for every version,
 3. is accepted by validation,
 4. is a fixed point of simplification. -/
theorem simplify_spec [TransCmp cmp] (h : Lawful o cmp)
    (perm : List (Con V) → List (Con V)) (hperm : ∀ l, (perm l).Perm l)
    (cs : List (Con V)) (hns : noStar cs = true) (hs : StrictSorted cmp cs) :
    ∃ R, simplify o perm cs = .ok R ∧ R.Sublist cs ∧
      (∀ x, denoteR cmp R x = denoteR cmp cs x) ∧
      validate o R = .ok true ∧
      simplify o perm R = .ok R := by
  obtain ⟨R, hR, hsub, hne, hrest⟩ := simplifyConstraints_char h perm hperm cs hns hs
  have hnsR : noStar R = true := by
    apply List.all_eq_true.mpr
    intro c hc; exact List.all_eq_true.mp hns c (hsub.subset hc)
  have hsR : StrictSorted cmp R := List.Pairwise.sublist hsub hs
  have hpl := plain_filter_notNe cs hns
  have hrestS : StrictSorted cmp (cs.filter (fun c => !c.isNe)) := List.Pairwise.filter _ hs
  obtain ⟨hksub, hkmw, _⟩ := simpKept_spec (cmp := cmp) _ hpl hrestS
  have hkred := redFwd_simpKept (cmp := cmp) _ hpl hrestS
  have hkpl : plain (simpKept (cs.filter (fun c => !c.isNe))) := fun c hc => hpl c (hksub.subset hc)
  refine ⟨R, by rw [simplify_eq_simplifyConstraints h perm cs hs]; exact hR, hsub, ?_, ?_, ?_⟩
  · -- 2. meaning
    intro x
    rw [denoteR_eq_mw R hnsR hsR x, denoteR_eq_mw cs hns hs x]
    by_cases hall : cs.all Con.isNe = true
    · -- only "!=": nothing is removed
      have hrestnil : cs.filter (fun c => !c.isNe) = [] := by
        apply List.filter_eq_nil_iff.mpr
        intro c hc; simp [List.all_eq_true.mp hall c hc]
      have hcsne : cs.filter Con.isNe = cs := by
        apply List.filter_eq_self.mpr
        intro c hc; exact List.all_eq_true.mp hall c hc
      have hRall : R.filter (fun c => !c.isNe) = [] := by rw [hrest, hrestnil]; rfl
      have hRne : R.filter Con.isNe = R := by
        apply List.filter_eq_self.mpr
        intro c hc
        cases hn : c.isNe with
        | true => rfl
        | false =>
          have : c ∈ R.filter (fun c => !c.isNe) := List.mem_filter.mpr ⟨hc, by simp [hn]⟩
          rw [hRall] at this; cases this
      have : R = cs := by rw [← hRne, hne, hcsne]
      rw [this]
    · have hall' : cs.all Con.isNe = false := by cases hh : cs.all Con.isNe <;> simp_all
      have hrestne : cs.filter (fun c => !c.isNe) ≠ [] := by
        intro e
        have : cs.all Con.isNe = true := by
          apply List.all_eq_true.mpr
          intro c hc
          cases hn : c.isNe with
          | true => rfl
          | false =>
            have : c ∈ cs.filter (fun c => !c.isNe) := List.mem_filter.mpr ⟨hc, by simp [hn]⟩
            rw [e] at this; cases this
        rw [this] at hall'; cases hall'
      have hkne := simpKept_ne_nil _ hrestne
      obtain ⟨k0, hk0⟩ : ∃ k0, k0 ∈ R.filter (fun c => !c.isNe) := by
        rw [hrest]
        cases hk : simpKept (cs.filter (fun c => !c.isNe)) with
        | nil => exact absurd hk hkne
        | cons a t => exact ⟨a, List.mem_cons_self⟩
      have hk0' := List.mem_filter.mp hk0
      have hRall : R.all Con.isNe = false := by
        apply Bool.eq_false_iff.mpr
        intro hh
        have := List.all_eq_true.mp hh k0 hk0'.1
        simp [this] at hk0'
      have hRemp : R.isEmpty = false := by
        cases R with
        | nil => cases hk0'.1
        | cons _ _ => rfl
      have hcsemp : cs.isEmpty = false := by
        cases cs with
        | nil => simp at hrestne
        | cons _ _ => rfl
      have hanyR : R.any (fun c => c.isNe && c.at cmp x) = cs.any (fun c => c.isNe && c.at cmp x) := by
        rw [← List.any_filter, ← List.any_filter, hne]
      have hmw : mw cmp x false R = mw cmp x false cs := by
        rw [← mw_filter_notNe x R false, hrest, hkmw x false, mw_filter_notNe x cs false]
      simp only [hRall, hall', hRemp, hcsemp, hanyR, hmw, Bool.false_eq_true, if_false]
  · -- 3. accepted by validation
    apply (validate_ok_iff_wf h R).mpr
    refine ⟨R, List.Perm.refl _, Or.inr ⟨hnsR, hsR, ?_, ?_⟩⟩
    · unfold eqRule
      rw [hrest]
      exact eqPairs_of_red _ hkred
    · rw [altRule_eq_altB]
      have : R.filter Con.isBound = (R.filter (fun c => !c.isNe)).filter Con.isBound := by
        rw [List.filter_filter]
        apply List.filter_congr
        intro c _
        cases c with
        | star => rfl
        | mk k v => cases k <;> rfl
      rw [this, hrest]
      exact (altB_of_red _ hkred hkpl).1
  · -- 4. a fixed point
    rw [simplify_eq_simplifyConstraints h perm R hsR]
    obtain ⟨R', hR', hsub', hne', hrest'⟩ := simplifyConstraints_char h perm hperm R hnsR hsR
    have hfix : R'.filter (fun c => !c.isNe) = R.filter (fun c => !c.isNe) := by
      rw [hrest', hrest, simpKept_of_red _ hkred]
    have hlen : ∀ l : List (Con V), l.length =
        (l.filter Con.isNe).length + (l.filter (fun c => !c.isNe)).length := by
      intro l
      have := (List.filter_append_perm Con.isNe l).length_eq
      simpa using this.symm
    have : R' = R := by
      apply hsub'.eq_of_length
      rw [hlen R', hlen R, hne', hfix]
    rw [hR', this]

/-- The canonical result does not depend on the iteration order of the intermediate set, i.e.
on the interpreter's hash seed. -/
theorem simplify_seed_independent [TransCmp cmp] (h : Lawful o cmp)
    (perm perm' : List (Con V) → List (Con V)) (hperm : ∀ l, (perm l).Perm l)
    (hperm' : ∀ l, (perm' l).Perm l)
    (cs : List (Con V)) (hns : noStar cs = true) (hs : StrictSorted cmp cs) :
    simplify o perm cs = simplify o perm' cs := by
  rw [simplify_eq_simplifyConstraints h perm cs hs, simplify_eq_simplifyConstraints h perm' cs hs]
  obtain ⟨R, hR, hsub, hne, hrest⟩ := simplifyConstraints_char h perm hperm cs hns hs
  obtain ⟨R', hR', hsub', hne', hrest'⟩ := simplifyConstraints_char h perm' hperm' cs hns hs
  have hp : R.Perm R' := by
    have p1 := (List.filter_append_perm Con.isNe R).symm
    have p2 := List.filter_append_perm Con.isNe R'
    rw [hne, hrest] at p1
    rw [hne', hrest'] at p2
    exact p1.trans p2
  have : R = R' := strictSorted_perm_eq h R R' (List.Pairwise.sublist hsub hs)
    (List.Pairwise.sublist hsub' hs) hp
  rw [hR, hR', this]

/-! non-vacuity: the hypotheses are met by a concrete redundant list, and the model removes
what it should -/
example : StrictSorted C04.intCmp [.mk .ge 2, .mk .gt 4, .mk .eq 5, .mk .lt 6, .mk .le 8] ∧
    noStar ([.mk .ge 2, .mk .gt 4, .mk .eq 5, .mk .lt 6, .mk .le 8] : List (Con Int)) = true := by
  refine ⟨?_, by decide⟩
  simp [StrictSorted, C04.intCmp]; decide

example : simpKept ([.mk .ge 2, .mk .gt 4, .mk .eq 5, .mk .lt 6, .mk .le 8] : List (Con Int))
    = [.mk .ge 2, .mk .le 8] := by rfl

end Univers.C08
