/-
C04 — range membership equals the interval-set meaning of the vers constraints.
Only property theorems live here.
-/
import Univers.Vers.Spec

namespace Univers.C04

end Univers.C04
