/-
C04 — range membership equals the interval-set meaning of the vers constraints.

Only property theorems live here (helper lemmas: `Univers/Vers/Contains*.lean`,
`Univers/Vers/DenoteCongr.lean`).  The model is `containsVersion` (`contains_version` of
version_constraint.py, FIXED CODE for "!="-only ranges); the spec is `denote`.
-/
import Univers.Vers.ContainsMain
import Univers.Vers.DenoteCongr
import Univers.Vers.SortThm

namespace Univers.C04

open Univers Std

variable {V : Type} {o : VOps V} {cmp : V → V → Ordering}

/-- For every well-formed version-sorted constraint list (any length, any scheme whose six
operators are the ones induced by a transitive three-way comparison) and every version, the
membership test returns — without raising — exactly the interval-set meaning. -/
theorem contains_eq_denote [TransCmp cmp] (h : Lawful o cmp) (cs : List (Con V))
    (hwf : WFSorted cmp cs) (x : V) :
    containsVersion o x cs = .ok (denote cmp cs x) := by
  rcases hwf with rfl | ⟨hns, hs, _, halt⟩
  · simp [containsVersion, Con.sat, denote]
  · match cs, hns, hs, halt with
    | [c], hns, _, _ =>
      cases c with
      | star => simp [noStar, Con.isStar] at hns
      | mk k v => simp [containsVersion, h.sat_eq_holds, denote_single]
    | [], hns, hs, halt =>
      exact containsMulti_eq_denote h [] (by simp) hns hs halt x
    | a :: b :: rest, hns, hs, halt =>
      exact containsMulti_eq_denote h (a :: b :: rest) (by simp) hns hs halt x

/-- the test never raises on a well-formed range -/
theorem contains_never_raises [TransCmp cmp] (h : Lawful o cmp) (cs : List (Con V))
    (hwf : WFSorted cmp cs) (x : V) : ∃ b, containsVersion o x cs = .ok b :=
  ⟨_, contains_eq_denote h cs hwf x⟩

/-- The answer depends only on how the tested version compares with the constraint versions. -/
theorem contains_depends_only_on_order [TransCmp cmp] (h : Lawful o cmp) (cs : List (Con V))
    (hwf : WFSorted cmp cs) (x y : V)
    (hxy : ∀ k v, Con.mk k v ∈ cs → cmp x v = cmp y v) :
    containsVersion o x cs = containsVersion o y cs := by
  rw [contains_eq_denote h cs hwf x, contains_eq_denote h cs hwf y, denote_congr cs hxy]

/-- Range level (`VersionRange.__contains__`): the constructor sorts the constraints; for a
well-formed list given in ANY order the range holds the well-formed version-sorted
permutation and membership is the interval-set meaning of that. -/
theorem range_contains_eq_denote [TransCmp cmp] (h : Lawful o cmp) (cs : List (Con V))
    (hwf : WF cmp cs) (x : V) :
    ∃ s, mkRange o cs = .ok s ∧ s.Perm cs ∧ WFSorted cmp s ∧
      containsVersion o x s = .ok (denote cmp s x) := by
  obtain ⟨s, hs, hp, hw⟩ := sortCons_of_wf h cs hwf
  exact ⟨s, hs, hp, hw, contains_eq_denote h s hw x⟩

/-- '*' denotes everything. -/
theorem star_contains_everything (x : V) : containsVersion o x [Con.star] = .ok true := rfl

/-- a range made only of '!=' constraints denotes everything except those versions -/
theorem ne_only_meaning (cs : List (Con V)) (hne : cs.all Con.isNe = true) (hcs : cs ≠ []) (x : V) :
    denote cmp cs x = cs.all (fun c => !c.at cmp x) := by
  match cs, hcs with
  | [c], _ =>
    cases c with
    | star => simp [Con.isNe] at hne
    | mk k v => simp [denote, hne]
  | a :: b :: rest, _ => simp [denote, hne]

/-! non-vacuity: concrete well-formed ranges over the integers meet the hypotheses -/

def intCmp : Int → Int → Ordering := fun a b => compare a b

instance : TransCmp intCmp := inferInstanceAs (TransCmp (fun a b : Int => compare a b))

example : WFSorted intCmp [.mk .lt 1, .mk .ne 2, .mk .ge 3, .mk .ne 4, .mk .le 5, .mk .eq 7, .mk .gt 9] := by
  refine Or.inr ⟨by decide, ?_, by decide, by decide⟩
  simp [StrictSorted, intCmp]; decide

example : containsVersion (opsOf intCmp)
    4 [.mk .lt 1, .mk .ne 2, .mk .ge 3, .mk .ne 4, .mk .le 5, .mk .eq 7, .mk .gt 9] = .ok false := by rfl
example : containsVersion (opsOf intCmp)
    5 [.mk .lt 1, .mk .ne 2, .mk .ge 3, .mk .ne 4, .mk .le 5, .mk .eq 7, .mk .gt 9] = .ok true := by rfl

end Univers.C04
