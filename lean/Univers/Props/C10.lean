/-
C10 — ranges built from explicit version sets contain exactly what they should.
-/
import Univers.Vers.Spec

namespace Univers.C10

end Univers.C10
