/-
C10 — ranges built from explicit version sets contain exactly what they should.

`normalize o cs ks` is the model of `VersionRange.normalize(known_versions)` on constructed versions
(`Model.lean`): sort the known versions with the real `<`, test each for membership with the real
`__contains__`, group maximal runs of members, emit `=lo` or `>=lo|<=hi` per run, build the range
(which sorts).  `fromVersions` is `VersionRange.from_versions`.

The theorems hold for every scheme whose six operators are induced by a transitive three-way
comparison (`Lawful o cmp`, discharged per scheme in C01/C02), every well-formed version-sorted
range (what a `VersionRange` object holds, C07/C13) and every list of known versions.
-/
import Univers.Vers.NormalizeCanon
import Univers.Vers.ValidateThm
import Univers.Props.C04
import Univers.Props.C07

namespace Univers.C10

open Univers Std

variable {V : Type} {o : VOps V} {cmp : V → V → Ordering}

/-! ### the pieces of `normalize` -/

theorem leB_iff [OrientedCmp cmp] (h : Lawful o cmp) (a b : V) : (!o.lt b a) = true ↔ le' cmp a b := by
  have hs : cmp b a = (cmp a b).swap := OrientedCmp.eq_swap
  rw [h.lt, hs]
  cases hc : cmp a b <;> simp_all [le', Ordering.swap]

theorem sortVers_perm (ks : List V) : (sortVers o ks).Perm ks := List.mergeSort_perm _ _

theorem sortVers_sorted [TransCmp cmp] (h : Lawful o cmp) (ks : List V) :
    (sortVers o ks).Pairwise (le' cmp) := by
  have := List.pairwise_mergeSort (le := fun a b => !o.lt b a)
    (fun a b c hab hbc => by
      have h1 := (leB_iff h a b).mp hab
      have h2 := (leB_iff h b c).mp hbc
      exact (leB_iff h a c).mpr (le'_trans h1 h2))
    (fun a b => by
      have hs : cmp b a = (cmp a b).swap := OrientedCmp.eq_swap
      simp only [h.lt, hs]
      cases cmp a b <;> simp [Ordering.swap]) ks
  exact this.imp (fun hab => (leB_iff h _ _).mp hab)

theorem memAll_ok [TransCmp cmp] (h : Lawful o cmp) (cs : List (Con V)) (hwf : WFSorted cmp cs) :
    ∀ S : List V, memAll o cs S = .ok (S.map (fun k => (k, denote cmp cs k)))
  | [] => rfl
  | k :: t => by
    simp only [memAll, C04.contains_eq_denote h cs hwf k, memAll_ok h cs hwf t, List.map_cons]

/-- membership respects version equality -/
theorem denote_equiv [TransCmp cmp] (cs : List (Con V)) {a b : V} (e : cmp a b = .eq) :
    denote cmp cs a = denote cmp cs b :=
  denote_congr cs (fun _ _ _ => TransCmp.congr_left e)

theorem blocks_noStar (bs : List (V × V)) : noStar (bs.flatMap (blockCons o)) = true := by
  apply List.all_eq_true.mpr
  intro c hc
  rw [(blocks_noNe bs c hc).2]; rfl

theorem mkRange_blocks [TransCmp cmp] (h : Lawful o cmp) (bs : List (V × V)) (hs : blocksSorted cmp bs) :
    mkRange o (bs.flatMap (blockCons o)) = .ok (bs.flatMap (blockCons o)) :=
  sortCons_eq_of_perm h _ _ (List.Perm.refl _) (blocks_noStar bs) (blocks_strictSorted h bs hs)

theorem sepBy_canon {mem : V → Bool} {S : List V} : ∀ (bs : List (V × V)), sepBy cmp mem S bs →
    ∀ b c rest pre, bs = pre ++ b :: c :: rest →
      ∃ k, k ∈ S ∧ mem k = false ∧ cmp b.2 k = .lt ∧ cmp k c.1 = .lt
  | [], _, b, c, rest, pre, e => by cases pre <;> cases e
  | [_], _, b, c, rest, pre, e => by
    cases pre with
    | nil => cases e
    | cons p q => cases q <;> cases e
  | x :: y :: r, ⟨⟨k, hk, h1, h2, h3⟩, hr⟩, b, c, rest, pre, e => by
    cases pre with
    | nil =>
      injection e with e1 e2
      injection e2 with e2 e3
      subst e1; subst e2
      exact ⟨k, hk, h1, h2, h3⟩
    | cons p q =>
      injection e with e1 e2
      exact sepBy_canon (y :: r) hr b c rest q e2

/-- the blocks the loop produces from the sorted known versions -/
def blocksOf (o : VOps V) (cmp : V → V → Ordering) (cs : List (Con V)) (ks : List V) : List (V × V) :=
  goBlocks (denote cmp cs) (sortVers o ks) none

/-- **the result of `normalize`, as a canonical block list** -/
theorem normalize_blocks [TransCmp cmp] (h : Lawful o cmp) (cs : List (Con V)) (hwf : WFSorted cmp cs)
    (ks : List V) :
    normalize o cs ks = .ok ((blocksOf o cmp cs ks).flatMap (blockCons o)) ∧
    Canon cmp (· ∈ ks) (denote cmp cs) (fun _ => True) (blocksOf o cmp cs ks) := by
  have hperm := sortVers_perm (o := o) ks
  have hsorted := sortVers_sorted h ks
  have hmem : ∀ a b, cmp a b = .eq → denote cmp cs a = denote cmp cs b := fun a b e => denote_equiv cs e
  obtain ⟨g1, g2, g3⟩ := go_spec (denote cmp cs) hmem (sortVers o ks) none hsorted (fun c e => by cases e)
  have g3' : ∀ b ∈ blocksOf o cmp cs ks, b.1 ∈ sortVers o ks ∧ denote cmp cs b.1 = true ∧ b.2 ∈ sortVers o ks := g3
  have g4 := go_sep (denote cmp cs) hmem (sortVers o ks) none hsorted (fun c e => by cases e)
  refine ⟨?_, ⟨g1, ?_, ?_, ?_⟩⟩
  · unfold normalize
    rw [memAll_ok h cs hwf]
    simp only []
    have := groupRuns_eq_goBlocks (o := o) (denote cmp cs) (sortVers o ks) []
    rw [this]
    exact mkRange_blocks h _ g1
  · intro b hb
    obtain ⟨a1, _, a3⟩ := g3' b hb
    exact ⟨hperm.mem_iff.mp a1, hperm.mem_iff.mp a3, trivial⟩
  · intro k hk _
    exact g2 k (hperm.mem_iff.mpr hk)
  · intro b c rest pre e
    obtain ⟨k, hk, r⟩ := sepBy_canon _ g4 b c rest pre e
    exact ⟨k, hperm.mem_iff.mp hk, r⟩

/-! ### the clauses of the property -/

/-- Normalising never fails, and validation accepts the result. -/
theorem normalize_accepted [TransCmp cmp] (h : Lawful o cmp) (cs : List (Con V)) (hwf : WFSorted cmp cs)
    (ks : List V) :
    ∃ r, normalize o cs ks = .ok r ∧ WFSorted cmp r ∧ validate o r = .ok true := by
  obtain ⟨e, hc⟩ := normalize_blocks h cs hwf ks
  have hw := blocks_wfSorted h _ hc.sorted
  exact ⟨_, e, hw, (C07.validate_iff_wf h _).mpr ⟨_, List.Perm.refl _, hw⟩⟩

/-- The result is empty exactly when no known version is a member. -/
theorem normalize_empty_iff [TransCmp cmp] (h : Lawful o cmp) (cs : List (Con V)) (hwf : WFSorted cmp cs)
    (ks : List V) :
    normalize o cs ks = .ok [] ↔ ∀ k ∈ ks, denote cmp cs k = false := by
  obtain ⟨e, hc⟩ := normalize_blocks h cs hwf ks
  rw [e]
  constructor
  · intro hnil k hk
    have hb : blocksOf o cmp cs ks = [] := by
      cases hbs : blocksOf o cmp cs ks with
      | nil => rfl
      | cons b t =>
        rw [hbs, List.flatMap_cons] at hnil
        injection hnil with hnil
        have := blockCons_ne_nil (o := o) b
        cases hb : blockCons o b with
        | nil => exact absurd hb this
        | cons c r => rw [hb] at hnil; cases hnil
    have := hc.memb k hk trivial
    rw [hb] at this
    exact this.symm
  · intro hall
    cases hbs : blocksOf o cmp cs ks with
    | nil => rfl
    | cons b t =>
      obtain ⟨k1, _, _⟩ := hc.ends b (by rw [hbs]; exact List.mem_cons_self)
      have hin : inBlock cmp b.1 b = true :=
        inBlock_iff.mpr ⟨le'_refl _, blocksSorted_mem_le hc.sorted b (by rw [hbs]; exact List.mem_cons_self)⟩
      have := hc.memb b.1 k1 trivial
      rw [hbs, List.any_cons, hin, hall b.1 k1] at this
      cases this

/-- The result contains a known version exactly when the original range does (and the test never
raises). -/
theorem normalize_members [TransCmp cmp] (h : Lawful o cmp) (cs : List (Con V)) (hwf : WFSorted cmp cs)
    (ks : List V) :
    ∃ r, normalize o cs ks = .ok r ∧ ∀ k ∈ ks,
      containsVersion o k r = .ok (denote cmp cs k) ∧ containsVersion o k cs = .ok (denote cmp cs k) := by
  obtain ⟨e, hc⟩ := normalize_blocks h cs hwf ks
  refine ⟨_, e, fun k hk => ⟨?_, C04.contains_eq_denote h cs hwf k⟩⟩
  rw [C04.contains_eq_denote h _ (blocks_wfSorted h _ hc.sorted) k, denote_blockList h,
    hc.memb k hk trivial]

/-- The result is a list of blocks in strictly increasing order, each `=v` or `>=lo|<=hi`; every bound
is a known version and a member; each block holds members only; two consecutive blocks are separated
by a known version that is not a member (so each block is a MAXIMAL run). -/
theorem normalize_shape [TransCmp cmp] (h : Lawful o cmp) (cs : List (Con V)) (hwf : WFSorted cmp cs)
    (ks : List V) :
    ∃ bs : List (V × V), normalize o cs ks = .ok (bs.flatMap (blockCons o)) ∧ blocksSorted cmp bs ∧
      (∀ b ∈ bs, b.1 ∈ ks ∧ b.2 ∈ ks ∧ denote cmp cs b.1 = true ∧ denote cmp cs b.2 = true) ∧
      (∀ b ∈ bs, ∀ k ∈ ks, inBlock cmp k b = true → denote cmp cs k = true) ∧
      (∀ b c rest pre, bs = pre ++ b :: c :: rest →
        ∃ k ∈ ks, denote cmp cs k = false ∧ cmp b.2 k = .lt ∧ cmp k c.1 = .lt) := by
  obtain ⟨e, hc⟩ := normalize_blocks h cs hwf ks
  have hin : ∀ b ∈ blocksOf o cmp cs ks, ∀ k ∈ ks, inBlock cmp k b = true → denote cmp cs k = true := by
    intro b hb k hk hkb
    rw [← hc.memb k hk trivial]
    exact List.any_eq_true.mpr ⟨b, hb, hkb⟩
  refine ⟨_, e, hc.sorted, ?_, hin, ?_⟩
  · intro b hb
    obtain ⟨k1, k2, _⟩ := hc.ends b hb
    have hle := blocksSorted_mem_le hc.sorted b hb
    exact ⟨k1, k2, hin b hb b.1 k1 (inBlock_iff.mpr ⟨le'_refl _, hle⟩),
      hin b hb b.2 k2 (inBlock_iff.mpr ⟨hle, le'_refl _⟩)⟩
  · intro b c rest pre e'
    obtain ⟨k, hk, r⟩ := hc.sep b c rest pre e'
    exact ⟨k, hk, r⟩

/-- every constraint of the result is `=v`, `>=v` or `<=v` for a known version `v` -/
theorem normalize_bounds_known [TransCmp cmp] (h : Lawful o cmp) (cs : List (Con V)) (hwf : WFSorted cmp cs)
    (ks : List V) :
    ∃ r, normalize o cs ks = .ok r ∧
      ∀ c ∈ r, ∃ v ∈ ks, c = .mk .eq v ∨ c = .mk .ge v ∨ c = .mk .le v := by
  obtain ⟨e, hc⟩ := normalize_blocks h cs hwf ks
  refine ⟨_, e, ?_⟩
  intro c hcm
  obtain ⟨b, hb, hcb⟩ := List.mem_flatMap.mp hcm
  obtain ⟨k1, k2, _⟩ := hc.ends b hb
  unfold blockCons at hcb
  split at hcb
  · simp at hcb; exact ⟨b.1, k1, Or.inl hcb⟩
  · simp at hcb
    rcases hcb with rfl | rfl
    · exact ⟨b.1, k1, Or.inr (Or.inl rfl)⟩
    · exact ⟨b.2, k2, Or.inr (Or.inr rfl)⟩

/-! ### the result depends only on the membership of the known versions -/

theorem goBlocks_congr {mem mem' : V → Bool} : ∀ (S : List V) (cur : Option (V × V)),
    (∀ k ∈ S, mem k = mem' k) → goBlocks mem S cur = goBlocks mem' S cur
  | [], none, _ => rfl
  | [], some _, _ => rfl
  | k :: t, cur, hk => by
    have ht : ∀ x ∈ t, mem x = mem' x := fun x hx => hk x (List.mem_cons_of_mem _ hx)
    simp only [goBlocks, ← hk k List.mem_cons_self]
    split
    · exact goBlocks_congr t _ ht
    · cases cur with
      | none => exact goBlocks_congr t _ ht
      | some b => simp only []; rw [goBlocks_congr t none ht]

/-- Two ranges that agree on the known versions normalise to the same range. -/
theorem normalize_extensional [TransCmp cmp] (h : Lawful o cmp) (cs cs' : List (Con V))
    (hwf : WFSorted cmp cs) (hwf' : WFSorted cmp cs') (ks : List V)
    (hag : ∀ k ∈ ks, denote cmp cs k = denote cmp cs' k) :
    normalize o cs ks = normalize o cs' ks := by
  rw [(normalize_blocks h cs hwf ks).1, (normalize_blocks h cs' hwf' ks).1]
  unfold blocksOf
  rw [goBlocks_congr (sortVers o ks) none (fun k hk => hag k ((sortVers_perm ks).mem_iff.mp hk))]

/-! ### any ordering or duplication of the list -/

/-- same comparators, equal versions -/
def consEquiv (cmp : V → V → Ordering) : List (Con V) → List (Con V) → Prop
  | [], [] => True
  | .mk k v :: t, .mk k' v' :: t' => k = k' ∧ cmp v v' = .eq ∧ consEquiv cmp t t'
  | _, _ => False

theorem consEquiv_append {a a' b b' : List (Con V)} (h1 : consEquiv cmp a a') (h2 : consEquiv cmp b b') :
    consEquiv cmp (a ++ b) (a' ++ b') := by
  induction a generalizing a' with
  | nil =>
    cases a' with
    | nil => exact h2
    | cons c t => exact h1.elim
  | cons c t ih =>
    cases a' with
    | nil => cases c <;> exact h1.elim
    | cons c' t' =>
      cases c with
      | star => exact h1.elim
      | mk k v =>
        cases c' with
        | star => exact h1.elim
        | mk k' v' => exact ⟨h1.1, h1.2.1, ih h1.2.2⟩

theorem blockCons_equiv [TransCmp cmp] (h : Lawful o cmp) {b b' : V × V} (e : blockEquiv cmp b b') :
    consEquiv cmp (blockCons o b) (blockCons o b') := by
  have hc : cmp b.1 b.2 = cmp b'.1 b'.2 := by
    rw [TransCmp.congr_left e.1, TransCmp.congr_right e.2]
  unfold blockCons
  rw [h.eq, h.eq, hc]
  split
  · exact ⟨rfl, e.1, trivial⟩
  · exact ⟨rfl, e.1, rfl, e.2, trivial⟩

theorem blocks_consEquiv [TransCmp cmp] (h : Lawful o cmp) : ∀ (bs bs' : List (V × V)),
    blocksEquiv cmp bs bs' → consEquiv cmp (bs.flatMap (blockCons o)) (bs'.flatMap (blockCons o))
  | [], [], _ => trivial
  | [], _ :: _, e => e.elim
  | _ :: _, [], e => e.elim
  | b :: t, b' :: t', e => by
    simp only [List.flatMap_cons]
    exact consEquiv_append (blockCons_equiv h e.1) (blocks_consEquiv h t t' e.2)

/-- Two lists of known versions with the same elements — any order, any duplication — give the same
result: the same comparators in the same order, on equal versions. -/
theorem normalize_order_and_duplicates [TransCmp cmp] (h : Lawful o cmp) (cs : List (Con V))
    (hwf : WFSorted cmp cs) (ks ks' : List V) (hset : ∀ v, v ∈ ks ↔ v ∈ ks') :
    ∃ r r', normalize o cs ks = .ok r ∧ normalize o cs ks' = .ok r' ∧ consEquiv cmp r r' := by
  obtain ⟨e, hc⟩ := normalize_blocks h cs hwf ks
  obtain ⟨e', hc'⟩ := normalize_blocks h cs hwf ks'
  refine ⟨_, _, e, e', blocks_consEquiv h _ _ ?_⟩
  have hc'' : Canon cmp (· ∈ ks) (denote cmp cs) (fun _ => True) (blocksOf o cmp cs ks') :=
    ⟨hc'.sorted,
     fun b hb => by
       obtain ⟨a1, a2, a3⟩ := hc'.ends b hb
       exact ⟨(hset _).mpr a1, (hset _).mpr a2, a3⟩,
     fun k hk p => hc'.memb k ((hset k).mp hk) p,
     fun b c rest pre e => by
       obtain ⟨k, hk, r⟩ := hc'.sep b c rest pre e
       exact ⟨k, (hset k).mpr hk, r⟩⟩
  exact canon_unique _ _ _ (fun _ _ _ _ => trivial) hc hc''

/-! ### `from_versions` -/

theorem contains_allEq [OrientedCmp cmp] (h : Lawful o cmp) (x : V) :
    ∀ (r : List (Con V)), (∀ c ∈ r, c.isEq = true) →
      containsVersion o x r = .ok (r.any (fun c => c.at cmp x)) := by
  intro r hr
  have hform : ∀ c ∈ r, ∃ v, c = .mk .eq v := by
    intro c hc
    have := hr c hc
    cases c with
    | star => simp [Con.isEq] at this
    | mk k v => cases k <;> simp [Con.isEq] at this; exact ⟨v, rfl⟩
  have hmulti : containsMulti o x r = .ok (r.any (fun c => c.at cmp x)) := by
    unfold containsMulti
    have h1 : r.any (fun c => c.hasNeSub && c.verEq o x) = false := by
      apply Bool.eq_false_iff.mpr
      intro hh
      obtain ⟨c, hc, hcc⟩ := List.any_eq_true.mp hh
      obtain ⟨v, rfl⟩ := hform c hc
      simp [Con.hasNeSub, Cmpr.hasNeSub] at hcc
    have h2 : r.any (fun c => c.hasEqChar && c.verEq o x) = r.any (fun c => c.at cmp x) := by
      apply any_congr_mem
      intro c hc
      obtain ⟨v, rfl⟩ := hform c hc
      simp [Con.hasEqChar, Cmpr.hasEqChar, Con.verEq, Con.at, h.eq]
    rw [h1, h2]
    simp only [Bool.false_eq_true, if_false]
    split
    · next ht => rw [ht]
    · next hf =>
      have hfil : r.filter (fun c => !(c.isEq || c.isNe)) = [] := by
        apply List.filter_eq_nil_iff.mpr
        intro c hc
        simp [hr c hc]
      rw [hfil]
      have hnne : r.all (fun c => c.isNe) = false ∨ r = [] := by
        cases r with
        | nil => exact Or.inr rfl
        | cons c t =>
          obtain ⟨v, rfl⟩ := hform c List.mem_cons_self
          exact Or.inl (by simp [Con.isNe])
      have hf' : r.any (fun c => c.at cmp x) = false := by cases hh : r.any (fun c => c.at cmp x) <;> simp_all
      rcases hnne with hn | rfl
      · simp [containsBounds, hn, hf']
      · simp [containsBounds]
  match r, hr, hform, hmulti with
  | [c], _, hform, _ =>
    obtain ⟨v, rfl⟩ := hform c List.mem_cons_self
    simp [containsVersion, Con.sat, VOps.op, Con.at, h.eq]
  | [], _, _, hm => exact hm
  | a :: b :: t, _, _, hm => exact hm

/-- A range built from a list of versions (any order, duplicates allowed) contains exactly the
versions equal to a listed one, and the test never raises. -/
theorem fromVersions_contains [TransCmp cmp] (h : Lawful o cmp) (vs : List V) (x : V) :
    ∃ r, fromVersions o vs = .ok r ∧ r.Perm (vs.map (fun v => Con.mk .eq v)) ∧
      containsVersion o x r = .ok (vs.any (fun v => cmp x v == .eq)) := by
  have hns : noStar (vs.map (fun v => Con.mk .eq v)) = true := by
    apply List.all_eq_true.mpr
    intro c hc
    obtain ⟨v, _, rfl⟩ := List.mem_map.mp hc
    rfl
  have he : fromVersions o vs = .ok ((vs.map (fun v => Con.mk .eq v)).mergeSort (fun a b => conLe o a b)) := by
    unfold fromVersions mkRange
    exact sortCons_noStar _ hns
  have hp := List.mergeSort_perm (vs.map (fun v => Con.mk .eq v)) (fun a b => conLe o a b)
  refine ⟨_, he, hp, ?_⟩
  rw [contains_allEq h x]
  · rw [hp.any_eq, List.any_map]
    rfl
  · intro c hc
    obtain ⟨v, _, rfl⟩ := List.mem_map.mp (hp.mem_iff.mp hc)
    rfl

/-! ### non-vacuity: the hypotheses are met, and the block builder on a concrete instance -/

example : Lawful (opsOf C04.intCmp) C04.intCmp ∧
    WFSorted C04.intCmp [.mk .ne 1, .mk .le 3, .mk .ne 6, .mk .eq 9] :=
  ⟨opsOf_lawful _, Or.inr ⟨by decide, by simp [StrictSorted, C04.intCmp]; decide, by decide, by decide⟩⟩

/-- the sorted known versions 1,3,3,5,6,9,9,9 against `!=1|<=3|!=6|=9`: the runs are [3,3] and [9,9,9] -/
example : goBlocks (denote C04.intCmp [.mk .ne 1, .mk .le 3, .mk .ne 6, .mk .eq 9]) [1, 3, 3, 5, 6, 9, 9, 9] none
    = [(3, 3), (9, 9)] := by decide

end Univers.C10
