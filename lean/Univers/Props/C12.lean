/-
C12 — versions, constraints, ranges: hashable, hash agrees with ==, never mutated.

`hashKey` models the value `hash()` is computed from: equal keys give equal hashes, so
`eq → equal keys` is what "whenever two of them compare equal they have the same hash" needs.
The class-level facts are decided over the class table regenerated from /repo.
Mutation through retained aliases cannot be expressed by a value-semantics model; it is
covered by before/after snapshots in the correspondence only (partial, see DESIGN §10).
-/
import Univers.Props.C03
import Univers.Py.Dispatch

namespace Univers.C12

open Univers Univers.Gen

/-- every version class, `VersionConstraint` and `VersionRange` resolves `__hash__` to a real
method (a class that defines `__eq__` without `__hash__` would show up as "none") -/
theorem all_hashable :
    ∀ k ∈ versionClasses ++ otherClasses, ∀ d ∈ k.dunders, d.name = "__hash__" → d.origin ≠ "none" := by
  decide +kernel

/-- attributes cannot be reassigned: every attrs class of the library is frozen -/
theorem frozen_flags : ∀ k ∈ versionClasses ++ otherClasses, k.frozen = true := by decide +kernel

/-! ### equal versions have equal hash keys, per scheme -/

theorem gem (a b : Gem.Raw) : Gem.verOps.eq a b = true → Gem.hashKey a = Gem.hashKey b := Gem.eq_imp_hash a b
theorem rpm (a b : Rpm.Raw) : Rpm.verOps.eq a b = true → Rpm.hashKey a = Rpm.hashKey b := Rpm.eq_imp_hash a b
theorem pypi (a b : Pypi.Raw) : Pypi.verOps.eq a b = true → Pypi.hashKey a = Pypi.hashKey b := Pypi.eq_imp_hash a b
theorem deb (a b : Deb.Raw) : Deb.verOps.eq a b = true → Deb.hashKey a = Deb.hashKey b := Deb.eq_imp_hash a b
theorem alpm (a b : Alpm.Raw) : Alpm.verOps.eq a b = true → Alpm.hashKey a = Alpm.hashKey b := Alpm.eq_imp_hash a b
theorem gentoo (a b : Gentoo.Raw) (ha : Gentoo.Valid a) (hb : Gentoo.Valid b) :
    Gentoo.verOps.eq a b = true → Gentoo.hashKey a = Gentoo.hashKey b := Gentoo.eq_imp_hash a b ha hb
theorem semver (a b : Semver.Raw) : Semver.verOps.eq a b = true → Semver.hashKey a = Semver.hashKey b :=
  Semver.eq_imp_hash a b
theorem legacy_openssl (a b : Openssl.Legacy.Raw) :
    Openssl.Legacy.verOps.eq a b = true → Openssl.Legacy.hashKey a = Openssl.Legacy.hashKey b :=
  Openssl.Legacy.eq_imp_hash a b
theorem openssl (a b : Openssl.Raw) : Openssl.verOps.eq a b = true → Openssl.hashKey a = Openssl.hashKey b :=
  Openssl.eq_imp_hash a b
theorem conan (a b : Conan.Raw) : Conan.verOps.eq a b = true → Conan.hashKey a = Conan.hashKey b := Conan.eq_imp_hash a b
theorem nuget (a b : Nuget.Raw) (ha : Nuget.WF a = true) (hb : Nuget.WF b = true) :
    Nuget.verOps.eq a b = true → Nuget.hashKey a = Nuget.hashKey b := Nuget.eq_imp_hash a b ha hb
theorem generic (a b : Generic.Raw) : Generic.verOps.eq a b = true → Generic.hashKey a = Generic.hashKey b :=
  Generic.eq_imp_hash a b
/-- maven: known finding — `1.0 == 1` with different hash keys (hash of the unparsed text) -/
theorem maven_counterexample :
    Maven.verOps.eq (Maven.mk "1.0") (Maven.mk "1") = true ∧ Maven.hashKey (Maven.mk "1.0") ≠ Maven.hashKey (Maven.mk "1") :=
  Maven.eq_imp_hash_counterexample

/-! ### constraints and ranges -/

/-- the value `hash(VersionConstraint)` is computed from: attrs hashes the fields
`(comparator, version, comp_operator, version_class)`; the last two are functions of the first
two -/
def conHashKey {V K : Type} (hk : V → K) : Con V → Option (Cmpr × K)
  | .star => none
  | .mk c v => some (c, hk v)

theorem constraint_eq_imp_hash {V K : Type} (o : VOps V) (hk : V → K)
    (h : ∀ a b, o.eq a b = true → hk a = hk b) (c d : Con V) :
    conEq o c d = true → conHashKey hk c = conHashKey hk d := by
  cases c <;> cases d <;> simp [conEq, conHashKey]
  intro h1 h2
  exact ⟨h1, h _ _ h2⟩

/-- `VersionRange.__eq__`/`__hash__` are the attrs ones on the tuple of constraints -/
theorem range_eq_imp_hash {V K : Type} (o : VOps V) (hk : V → K)
    (h : ∀ a b, o.eq a b = true → hk a = hk b) :
    ∀ (r s : List (Con V)), (r.length = s.length ∧ (r.zip s).all (fun p => conEq o p.1 p.2) = true) →
      r.map (conHashKey hk) = s.map (conHashKey hk)
  | [], [], _ => rfl
  | [], _ :: _, ⟨hl, _⟩ => by simp at hl
  | _ :: _, [], ⟨hl, _⟩ => by simp at hl
  | c :: r, d :: s, ⟨hl, ha⟩ => by
    simp only [List.zip_cons_cons, List.all_cons, Bool.and_eq_true] at ha
    simp only [List.map_cons]
    rw [constraint_eq_imp_hash o hk h c d ha.1,
      range_eq_imp_hash o hk h r s ⟨by simpa using hl, ha.2⟩]

end Univers.C12
