/-
C11 — version text round-trips and the validity predicate matches the constructor.

Per scheme: `construct` models `VersionClass(string)` (normalize, is_valid, build_value) with
`.error .invalid` = `InvalidVersion` and `.error (.other n)` = any other exception escaping;
`str` models `str(version)`.  `str_roundtrip`: printing a constructed value and constructing
again gives the same value (hence an equal version with identical text).  `WellFormed` is what
the constructor establishes (`construct_wf`).
-/
import Univers.Props.C03

namespace Univers.C11

open Univers

/-! ### a failed construction raises the library's invalid-version error (nothing else escapes) -/

theorem generic_declared (s : List Char) (n : String) : Generic.construct s ≠ .error (.other n) := by
  unfold Generic.construct; simp only []; split <;> simp
theorem conan_declared (s : List Char) (n : String) : Conan.construct s ≠ .error (.other n) := by
  unfold Conan.construct; simp
theorem maven_declared (s : List Char) (n : String) : Maven.construct s ≠ .error (.other n) := by
  unfold Maven.construct; simp
theorem pypi_declared (s : List Char) (n : String) : Pypi.construct s ≠ .error (.other n) := by
  unfold Pypi.construct; repeat (first | split | simp)
theorem gentoo_declared (s : List Char) (n : String) : Gentoo.construct s ≠ .error (.other n) := by
  unfold Gentoo.construct; repeat (first | split | simp)
theorem alpm_declared (s : List Char) (n : String) : Alpm.construct s ≠ .error (.other n) := by
  unfold Alpm.construct; repeat (first | split | simp)
theorem legacy_openssl_declared (s : List Char) :
    (∃ r, Openssl.Legacy.construct s = .ok r) ∨ Openssl.Legacy.construct s = .error .invalid :=
  Openssl.Legacy.construct_ok_or_invalid s

/-! ### printing and constructing again gives the same version -/

theorem gem_roundtrip (r : Gem.Raw) (h : Gem.WellFormed r) : Gem.construct (Gem.str r) = .ok r := Gem.str_roundtrip r h
theorem gem_constructed (s : List Char) (r : Gem.Raw) (h : Gem.construct s = .ok r) : Gem.WellFormed r := Gem.construct_wf s r h
theorem rpm_roundtrip (r : Rpm.Raw) (h : Rpm.WellFormed r) : Rpm.construct (Rpm.str r) = .ok r := Rpm.str_roundtrip r h
theorem pypi_roundtrip (r : Pypi.Raw) (h : Pypi.wellFormed r = true) : Pypi.construct (Pypi.str r) = .ok r := Pypi.str_roundtrip r h
theorem pypi_constructed (s : List Char) (r : Pypi.Raw) (h : Pypi.construct s = .ok r) : Pypi.wellFormed r = true :=
  Pypi.construct_wellFormed s r h
theorem semver_roundtrip (s : List Char) (r : Semver.Raw) (h : Semver.construct s = .ok r) :
    Semver.construct (Semver.str r) = .ok r := Semver.construct_roundtrip s r h
theorem alpm_roundtrip (r : Alpm.Raw) (h : Alpm.WellFormed r) : Alpm.construct (Alpm.str r) = .ok r := Alpm.str_roundtrip r h
theorem alpm_constructed (s : List Char) (r : Alpm.Raw) (h : Alpm.construct s = .ok r) : Alpm.WellFormed r := Alpm.construct_wf s r h
theorem gentoo_roundtrip (r : Gentoo.Raw) (h : Gentoo.WellFormed r) : Gentoo.construct (Gentoo.str r) = .ok r :=
  Gentoo.str_roundtrip r h
theorem gentoo_constructed (s : List Char) (r : Gentoo.Raw) (h : Gentoo.construct s = .ok r) : Gentoo.WellFormed r :=
  Gentoo.construct_wf s r h
theorem conan_roundtrip (s : List Char) (r : Conan.Raw) (h : Conan.construct s = .ok r) :
    Conan.construct (Conan.str r) = .ok r := Conan.str_roundtrip s r h
theorem maven_roundtrip (r : Maven.Raw) (h : Maven.WellFormed r) : Maven.construct (Maven.str r) = .ok r :=
  Maven.str_roundtrip r h
theorem legacy_openssl_roundtrip (r : Openssl.Legacy.Raw) (h : Openssl.Legacy.WellFormed r) :
    Openssl.Legacy.construct (Openssl.Legacy.str r) = .ok r := Openssl.Legacy.str_roundtrip r h
theorem openssl_roundtrip (r : Openssl.Raw) (h : Openssl.WellFormed r) :
    Openssl.construct (Openssl.str r) = .ok r := Openssl.str_roundtrip r h
/-- deb (FIXED CODE: a "0" revision is printed when the upstream contains a hyphen) -/
theorem deb_roundtrip (r : Deb.Raw) (h : Deb.WellFormed r = true)
    (he : (Deb.natDigits r.epoch).length ≤ 4300) : Deb.construct (Deb.str r) = .ok r := Deb.str_roundtrip r h he
theorem deb_constructed {s : List Char} {r : Deb.Raw} (h : Deb.construct s = .ok r) : Deb.WellFormed r = true :=
  Deb.construct_wf h
/-- nuget: every constructed value -/
theorem nuget_roundtrip (s : List Char) (r : Nuget.Raw) (h : Nuget.construct s = .ok r) :
    Nuget.construct (Nuget.str r) = .ok r := Nuget.str_roundtrip s r h
theorem nuget_declared (s : List Char) (n : String) : Nuget.construct s ≠ .error (.other n) := Nuget.construct_declared s n
theorem deb_declared (s : List Char) (n : String) : Deb.construct s ≠ .error (.other n) := Deb.construct_declared s n
theorem rpm_declared (s : List Char) (n : String) : Rpm.construct s ≠ .error (.other n) := Rpm.construct_declared s n
/-- rpm: every constructed value whose text does not look like another version once printed
(an explicit zero epoch in front of a version starting with `v` or containing `:` is dropped by
`str`: known finding) -/
theorem rpm_constructed_roundtrip (s : List Char) (r : Rpm.Raw) (h : Rpm.construct s = .ok r)
    (hx : r.epoch ≠ 0 ∨ (r.version.contains ':' = false ∧ r.release.contains ':' = false ∧
      Rpm.wellFormed.startsV r.version = false)) : Rpm.construct (Rpm.str r) = .ok r :=
  Rpm.construct_str_roundtrip s r h hx
theorem legacy_openssl_constructed_roundtrip (s : List Char) (r : Openssl.Legacy.Raw)
    (h : Openssl.Legacy.construct s = .ok r) : Openssl.Legacy.construct (Openssl.Legacy.str r) = .ok r :=
  Openssl.Legacy.construct_roundtrip s r h
theorem openssl_constructed_roundtrip (s : List Char) (r : Openssl.Raw)
    (h : Openssl.construct s = .ok r) : Openssl.construct (Openssl.str r) = .ok r := Openssl.construct_roundtrip s r h

end Univers.C11
