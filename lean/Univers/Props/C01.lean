/-
C01 — version comparison is a strict weak order within every scheme; sorting gives the same
sequence of equivalence classes whatever the input order.

The generic statements are in `Univers/Basic/Swo.lean` (`swo_of_ltgt`,
`sort_classes_invariant`); here they are instantiated for the model of every scheme
(`verOps` = the operators as Python dispatches them, `vercmp` = the scheme's comparison
routine, refined to a lawful sort key in `Univers/Scheme/<S>Thm.lean`).
Sub-domains: alpm — all versions with, or all without, a pkgrel (the property's own exclusion);
conan — a homogeneous shape `σ` (the property's own exclusion); ebuild/alpine — every
constructible value (`Valid`); nuget — every constructible value (`WF`).
-/
import Univers.Basic.Swo
import Univers.Scheme.GemThm
import Univers.Scheme.RpmThm
import Univers.Scheme.PypiThm
import Univers.Scheme.DebThm
import Univers.Scheme.SemverThm
import Univers.Scheme.OpensslThm
import Univers.Scheme.AlpmThm
import Univers.Scheme.GentooThm
import Univers.Scheme.NugetThm
import Univers.Scheme.ConanThm
import Univers.Scheme.Generic

namespace Univers.C01

open Univers Std

/-! ### schemes lawful on every value -/

theorem gem_swo : StrictWeakOrder Gem.verOps.lt Gem.verOps.gt := swo_of_lawful Gem.verOps_lawful
theorem gem_sort_classes (l₁ l₂ : List Gem.Raw) (hp : l₁.Perm l₂) :
    (sortBy Gem.verOps.lt l₁).map (cls Gem.vercmp) = (sortBy Gem.verOps.lt l₂).map (cls Gem.vercmp) :=
  sort_classes_invariant Gem.verOps_lawful.ltgt l₁ l₂ hp

theorem rpm_swo : StrictWeakOrder Rpm.verOps.lt Rpm.verOps.gt := swo_of_lawful Rpm.verOps_lawful
theorem rpm_sort_classes (l₁ l₂ : List Rpm.Raw) (hp : l₁.Perm l₂) :
    (sortBy Rpm.verOps.lt l₁).map (cls Rpm.vercmp) = (sortBy Rpm.verOps.lt l₂).map (cls Rpm.vercmp) :=
  sort_classes_invariant Rpm.verOps_lawful.ltgt l₁ l₂ hp

theorem pypi_swo : StrictWeakOrder Pypi.verOps.lt Pypi.verOps.gt := swo_of_lawful Pypi.verOps_lawful
theorem pypi_sort_classes (l₁ l₂ : List Pypi.Raw) (hp : l₁.Perm l₂) :
    (sortBy Pypi.verOps.lt l₁).map (cls Pypi.vercmp) = (sortBy Pypi.verOps.lt l₂).map (cls Pypi.vercmp) :=
  sort_classes_invariant Pypi.verOps_lawful.ltgt l₁ l₂ hp

theorem generic_swo : StrictWeakOrder Generic.verOps.lt Generic.verOps.gt :=
  swo_of_lawful Generic.verOps_lawful
theorem generic_sort_classes (l₁ l₂ : List Generic.Raw) (hp : l₁.Perm l₂) :
    (sortBy Generic.verOps.lt l₁).map (cls Generic.vercmp) = (sortBy Generic.verOps.lt l₂).map (cls Generic.vercmp) :=
  sort_classes_invariant Generic.verOps_lawful.ltgt l₁ l₂ hp

/-! ### schemes whose `<` and `>` are lawful on every value (their `==`/`<=`/`>=` defects are C02's) -/

theorem deb_ltgt : LawfulLtGt Deb.verOps Deb.vercmp := ⟨Deb.verOps_lt, Deb.verOps_gt⟩
theorem deb_swo : StrictWeakOrder Deb.verOps.lt Deb.verOps.gt := swo_of_ltgt deb_ltgt
theorem deb_sort_classes (l₁ l₂ : List Deb.Raw) (hp : l₁.Perm l₂) :
    (sortBy Deb.verOps.lt l₁).map (cls Deb.vercmp) = (sortBy Deb.verOps.lt l₂).map (cls Deb.vercmp) :=
  sort_classes_invariant deb_ltgt l₁ l₂ hp

/-- semver, golang, composer, nginx share one model -/
theorem semver_ltgt : LawfulLtGt Semver.verOps Semver.vercmp :=
  ⟨fun a b => (Semver.verOps_order_lawful a b).1, fun a b => (Semver.verOps_order_lawful a b).2.1⟩
theorem semver_swo : StrictWeakOrder Semver.verOps.lt Semver.verOps.gt := swo_of_ltgt semver_ltgt
theorem semver_sort_classes (l₁ l₂ : List Semver.Raw) (hp : l₁.Perm l₂) :
    (sortBy Semver.verOps.lt l₁).map (cls Semver.vercmp) = (sortBy Semver.verOps.lt l₂).map (cls Semver.vercmp) :=
  sort_classes_invariant semver_ltgt l₁ l₂ hp

theorem legacy_openssl_ltgt : LawfulLtGt Openssl.Legacy.verOps Openssl.Legacy.vercmp :=
  ⟨fun a b => (Openssl.Legacy.verOps_lt_gt_eq_ne_lawful a b).1,
   fun a b => (Openssl.Legacy.verOps_lt_gt_eq_ne_lawful a b).2.1⟩
theorem legacy_openssl_swo : StrictWeakOrder Openssl.Legacy.verOps.lt Openssl.Legacy.verOps.gt :=
  swo_of_ltgt legacy_openssl_ltgt

theorem openssl_ltgt : LawfulLtGt Openssl.verOps Openssl.vercmp := by
  constructor <;> intro a b
  · cases a with
    | legacy a =>
      cases b with
      | legacy b => exact (Openssl.Legacy.verOps_lt_gt_eq_ne_lawful a b).1
      | modern b => rfl
    | modern a =>
      cases b with
      | legacy b => rfl
      | modern b => rw [Openssl.vercmp_modern]; exact (Semver.verOps_order_lawful a b).1
  · cases a with
    | legacy a =>
      cases b with
      | legacy b => exact (Openssl.Legacy.verOps_lt_gt_eq_ne_lawful a b).2.1
      | modern b => rfl
    | modern a =>
      cases b with
      | legacy b => rfl
      | modern b => rw [Openssl.vercmp_modern]; exact (Semver.verOps_order_lawful a b).2.1
theorem openssl_swo : StrictWeakOrder Openssl.verOps.lt Openssl.verOps.gt := swo_of_ltgt openssl_ltgt
theorem openssl_sort_classes (l₁ l₂ : List Openssl.Raw) (hp : l₁.Perm l₂) :
    (sortBy Openssl.verOps.lt l₁).map (cls Openssl.vercmp) = (sortBy Openssl.verOps.lt l₂).map (cls Openssl.vercmp) :=
  sort_classes_invariant openssl_ltgt l₁ l₂ hp

/-! ### schemes with a sub-domain -/

/-- alpm: versions that all have a pkgrel -/
theorem alpm_swo_withRel :
    StrictWeakOrder (subOps (P := fun r => Alpm.hasRel r = true) Alpm.verOps).lt
      (subOps (P := fun r => Alpm.hasRel r = true) Alpm.verOps).gt :=
  swo_of_ltgt (cmp := cmpOn (Subtype.val : Alpm.WithRel → Alpm.Raw) Alpm.vercmp) Alpm.verOps_lawful.ltgt.sub

/-- alpm: versions that all lack a pkgrel -/
theorem alpm_swo_noRel :
    StrictWeakOrder (subOps (P := fun r => Alpm.hasRel r = false) Alpm.verOps).lt
      (subOps (P := fun r => Alpm.hasRel r = false) Alpm.verOps).gt :=
  swo_of_ltgt (cmp := cmpOn (Subtype.val : Alpm.NoRel → Alpm.Raw) Alpm.vercmp) Alpm.verOps_lawful.ltgt.sub

/-- ebuild and alpine: every value the constructors can produce -/
theorem gentoo_ltgt : LawfulLtGt Gentoo.verOps Gentoo.vercmp := Gentoo.verOps_lawful.ltgt
theorem gentoo_swo :
    StrictWeakOrder (subOps (P := Gentoo.Valid) Gentoo.verOps).lt (subOps (P := Gentoo.Valid) Gentoo.verOps).gt :=
  swo_of_ltgt (cmp := cmpOn (Subtype.val : Gentoo.ValidRaw → Gentoo.Raw) Gentoo.vercmp) gentoo_ltgt.sub

/-- nuget: every value the constructor can produce -/
theorem nuget_swo :
    StrictWeakOrder (subOps (P := fun r => Nuget.WF r = true) Nuget.verOps).lt
      (subOps (P := fun r => Nuget.WF r = true) Nuget.verOps).gt :=
  swo_of_ltgt (cmp := Nuget.vercmpW) Nuget.verOps_lawful.ltgt.sub

/-- conan: versions of one homogeneous shape `σ` (numbers and words never share a position) -/
theorem conan_swo (σ : List Bool → Nat → Bool) :
    StrictWeakOrder (subOps (P := fun v => Conan.Fits σ [] v = true) Conan.verOps).lt
      (subOps (P := fun v => Conan.Fits σ [] v = true) Conan.verOps).gt :=
  swo_of_ltgt (cmp := Conan.vercmpOn σ) Conan.verOps_lawful.ltgt.sub

end Univers.C01
