/-
C18 — successor and bound helpers bracket the version they start from.
-/
import Univers.Scheme.SemverThm
import Univers.Scheme.GemThm
import Univers.Scheme.ConanThm
import Univers.Text.NpmThm
import Univers.Text.GemReqThm

namespace Univers.C18

open Univers

/-- next-patch is strictly greater, and patch <= minor <= major (w.r.t. the scheme's order,
which is the reference order by `Semver.vercmp_eq_key`) — for every semver value, including
pre-releases and build metadata -/
theorem semver_successors (v : Semver.Raw) :
    Semver.vercmp v (Semver.nextPatch v) = .lt ∧ Semver.vercmp (Semver.nextPatch v) (Semver.nextMinor v) ≠ .gt ∧
    Semver.vercmp (Semver.nextMinor v) (Semver.nextMajor v) ≠ .gt := Semver.semver_successors v

/-- a gem version is strictly below its bump -/
theorem gem_lt_bump (v b : Gem.Raw) (h : Gem.bump v = .ok b) : Gem.vercmp v b = .lt := Gem.vercmp_bump v b h
/-- … not above its release … -/
theorem gem_le_release (v r : Gem.Raw) (h : Gem.release v = .ok r) : Gem.vercmp v r ≠ .gt := Gem.vercmp_release v r h
/-- … which has no pre-release part -/
theorem gem_release_final (v r : Gem.Raw) (h : Gem.release v = .ok r) : Gem.isPrerelease r = false :=
  Gem.isPrerelease_release v r h

/-- a conan version is strictly below its upper bound at an index, which is strictly below its
bump at that index (items up to the index are numbers) -/
theorem conan_bounds (v : Conan.OV) (i : Nat) (h : Conan.natUpTo v i = true) :
    ∃ u w, Conan.upperBound v i = .ok u ∧ Conan.bump v i = .ok w ∧
      Conan.verOps.lt v u = true ∧ Conan.verOps.lt u w = true := Conan.lt_upperBound_lt_bump_of_natUpTo v i h

/-! The shorthand constraints (caret, tilde, pessimistic; gem `~>`): lower < upper and the
starting version satisfies both — `Text.Npm.caret_bounds`, `Text.Npm.tilde_bounds`,
`Text.Npm.pessimistic_bounds`, `Text.GemReq.gem_tilde_bounds` (audited with this property, see
`harness/props/c18.py: THEOREMS`). -/

end Univers.C18
