/-
C09 — inverting a range yields its complement, and inverting twice yields the original.

Model: `invertRange` (`VersionRange.invert`), `Con.invert` (`VersionConstraint.invert` with the
`INVERTED_COMPARATORS` table, regenerated from /repo as `Gen.invertedLocal` / `Gen.invertedModule`).
-/
import Univers.Vers.InvertWF
import Univers.Props.C04
import Univers.Gen.Comparators

namespace Univers.C09

open Univers Std

variable {V : Type} {o : VOps V} {cmp : V → V → Ordering}

/-- the table used by `VersionConstraint.invert` (regenerated from the source on every run)
maps every versioned comparator to its logical complement, which is what the model uses -/
theorem invert_table_ok :
    ∀ c ∈ Cmpr.all, Gen.invertedLocal.lookup c.text = some (Con.invertCmpr c).text := by decide

/-- the module-level copy of the table says the same -/
theorem invert_table_module_ok :
    ∀ c ∈ Cmpr.all, Gen.invertedModule.lookup c.text = some (Con.invertCmpr c).text := by decide

/-- the table has no entry for the star (the everything range has no inverse) -/
theorem invert_table_no_star : Gen.invertedLocal.lookup "*" = none := by decide

/-- Inverting a single constraint flips membership for every version. -/
theorem invert_constraint_flips (c : Cmpr) (u x : V) :
    (Con.mk (Con.invertCmpr c) u).holds cmp x = !(Con.mk c u).holds cmp x :=
  Con.inv_holds c u x

/-- on the model of `VersionConstraint.__contains__` -/
theorem invert_constraint_flips_model (h : Lawful o cmp) (c : Cmpr) (u x : V) :
    (Con.mk (Con.invertCmpr c) u).sat o x = !(Con.mk c u).sat o x := by
  rw [h.sat_eq_holds, h.sat_eq_holds]; exact Con.inv_holds c u x

/-- the everything range `*` has no inverse -/
theorem invert_star : invertRange o ([.star] : List (Con V)) = none := rfl

/-- For a well-formed range without vacuous constraints: the inverted range is itself
well-formed, a version is in it exactly when it is not in the original (both on the spec and on
the model of the membership test), and inverting it again gives back the original. -/
theorem invert_complement [TransCmp cmp] (h : Lawful o cmp) (cs : List (Con V))
    (hwf : WFSorted cmp cs) (hstar : cs ≠ [.star]) (hne : cs ≠ []) (hnv : NonVacuous cmp cs) :
    ∃ inv, invertRange o cs = some (.ok inv) ∧ WFSorted cmp inv ∧
      (∀ x, denote cmp inv x = !denote cmp cs x) ∧
      (∀ x, containsVersion o x inv = .ok (!denote cmp cs x)) ∧
      invertRange o inv = some (.ok cs) := by
  rcases hwf with rfl | ⟨hns, hs, he, ha⟩
  · exact absurd rfl hstar
  · refine ⟨cs.map Con.inv, invertRange_sorted h cs hns hs, wfSorted_map_inv cs hns hs ha hnv,
      fun x => denote_map_inv cs hns hs ha hnv hne x, ?_, ?_⟩
    · intro x
      rw [C04.contains_eq_denote h _ (wfSorted_map_inv cs hns hs ha hnv) x,
        denote_map_inv cs hns hs ha hnv hne x]
    · rw [invertRange_sorted h _ (by rw [noStar_map_inv]; exact hns) (strictSorted_map_inv cs hs)]
      simp [List.map_map, Function.comp_def]

/-- the empty range is the one well-formed list for which the complement statement fails
(its inverse is empty again); `VersionRange.from_string` cannot produce it -/
theorem empty_range_not_complemented (x : V) :
    invertRange o ([] : List (Con V)) = some (.ok []) ∧ denote cmp ([] : List (Con V)) x = false := by
  constructor
  · simp [invertRange, mkRange, sortCons]
  · rfl

/-! non-vacuity -/
example : NonVacuous C04.intCmp [.mk .lt 1, .mk .eq 2, .mk .ge 3, .mk .ne 4, .mk .le 5] := by
  refine Or.inr ?_
  intro c hc
  simp only [List.mem_cons, List.not_mem_nil, or_false] at hc
  rcases hc with rfl | rfl | rfl | rfl | rfl <;> simp <;> rfl

end Univers.C09
