/-
C13 — canonical vers form is independent of presentation and of the hash seed.
-/
import Univers.Props.C05
import Univers.Props.C08

namespace Univers.C13

open Univers Univers.Text Univers.Text.Vers Univers.Text.Str Std

variable {V : Type} {o : VOps V} {cmp : V → V → Ordering}

/-- Two constraint collections that differ only in the order of the constraints produce the
same canonical (version-sorted) range — for every well-formed list and every permutation. -/
theorem canonical_perm [TransCmp cmp] (h : Lawful o cmp) (cs cs' : List (Con V))
    (hp : cs'.Perm cs) (hwf : WF cmp cs) : mkRange o cs' = mkRange o cs := by
  obtain ⟨s, hs, hsp, hw⟩ := sortCons_of_wf h cs hwf
  have hwf' : WF cmp cs' := by
    obtain ⟨t, htp, htw⟩ := hwf
    exact ⟨t, htp.trans hp.symm, htw⟩
  obtain ⟨s', hs', hsp', hw'⟩ := sortCons_of_wf h cs' hwf'
  have : s' = s := by
    rcases hw with rfl | ⟨hns, hss, _, _⟩
    · have : cs = [.star] := List.perm_singleton.mp hsp.symm
      subst this
      have : cs' = [.star] := List.perm_singleton.mp hp
      subst this
      exact List.perm_singleton.mp hsp'
    · rcases hw' with rfl | ⟨hns', hss', _, _⟩
      · have : cs' = [.star] := List.perm_singleton.mp hsp'.symm
        subst this
        have : cs = [.star] := List.perm_singleton.mp hp.symm
        subst this
        exact (List.perm_singleton.mp hsp).symm
      · exact strictSorted_perm_eq h s' s hss' hss ((hsp'.trans hp).trans hsp.symm)
  unfold mkRange
  rw [hs, hs', this]

/-- whitespace anywhere in the text is insignificant -/
theorem text_whitespace (mkVer : MkVer) {t t' : List Char} (h : removeSpaces t = removeSpaces t') :
    fromString mkVer t = fromString mkVer t' := Vers.fromString_spaces mkVer h

/-- the letter case of `vers` and of the scheme name is insignificant -/
theorem text_case (mkVer : MkVer) (u s c : List Char) (hu : ':' ∉ u) (hs : '/' ∉ s) :
    fromString mkVer (u ++ ':' :: (s ++ '/' :: c)) =
      fromString mkVer (lower u ++ ':' :: (lower s ++ '/' :: c)) := Vers.fromString_case mkVer u s c hu hs

/-- stray leading and trailing `|` are insignificant (FIXED CODE: also around the star) -/
theorem text_bars (mkVer : MkVer) (u s c : List Char) (n m : Nat) (hu : ':' ∉ u) (hs : '/' ∉ s) :
    fromString mkVer (u ++ ':' :: (s ++ '/' :: (bars n ++ c ++ bars m))) =
      fromString mkVer (u ++ ':' :: (s ++ '/' :: c)) := Vers.fromString_bars mkVer u s c n m hu hs

/-- any two spellings of one expression (order of items as given, whitespace, case, stray
pipes, explicit or implicit `=`) parse to the same scheme and constraints -/
theorem text_presentation (mkVer : MkVer) (e : Expr) (vc : String)
    (t t' : List Char) (hreg : Registered e.scheme vc) (hne : e.items ≠ [])
    (hstar : StarAlone e.items) (hok : ∀ c ∈ e.items, ConOk (mkVer vc) c)
    (hr : Renders e t) (hr' : Renders e t')
    (ha : isAsciiRepr (removeSpaces t) = true) (ha' : isAsciiRepr (removeSpaces t') = true) :
    fromString mkVer t = fromString mkVer t' :=
  Vers.fromString_presentation_independent mkVer e vc t t' hreg hne hstar hok hr hr' ha ha'

/-- The hash seed enters in exactly one place — the iteration order of the `set(...)` built
before the final `sorted` of simplification — and the result does not depend on it. -/
theorem hash_seed_independent [TransCmp cmp] (h : Lawful o cmp)
    (perm perm' : List (Con V) → List (Con V)) (hperm : ∀ l, (perm l).Perm l)
    (hperm' : ∀ l, (perm' l).Perm l)
    (cs : List (Con V)) (hns : noStar cs = true) (hs : StrictSorted cmp cs) :
    simplify o perm cs = simplify o perm' cs := C08.simplify_seed_independent h perm perm' hperm hperm' cs hns hs

end Univers.C13
