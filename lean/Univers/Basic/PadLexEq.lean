/-
What `padLex cmp d a b = .eq` says about the two lists: they agree, up to `cmp`-equivalence,
after the trailing padding elements are removed.  Stated through a projection `f` that is
constant on `cmp`-equivalence classes (take `f = id` when `cmp x y = .eq → x = y`).
No Mathlib.
-/
import Univers.Basic.PadLex

namespace Univers

/-- remove the trailing elements equal to `d` -/
def stripTrail {β : Type} [DecidableEq β] (d : β) : List β → List β
  | [] => []
  | x :: xs => if stripTrail d xs = [] ∧ x = d then [] else x :: stripTrail d xs

theorem Ordering.then_eq_eq' {a b : Ordering} : a.then b = .eq ↔ a = .eq ∧ b = .eq := by
  cases a <;> simp [Ordering.then]

theorem padLex_nil_left_eq {α β : Type} [DecidableEq β] {cmp : α → α → Ordering} {d : α}
    {f : α → β} (hf : ∀ x y, cmp x y = .eq → f x = f y) :
    ∀ b : List α, padLex cmp d [] b = .eq → stripTrail (f d) (b.map f) = []
  | [], _ => rfl
  | y :: ys, h => by
    simp only [padLex, Ordering.then_eq_eq'] at h
    simp [stripTrail, padLex_nil_left_eq hf ys h.2, (hf _ _ h.1).symm]

theorem padLex_nil_right_eq {α β : Type} [DecidableEq β] {cmp : α → α → Ordering} {d : α}
    {f : α → β} (hf : ∀ x y, cmp x y = .eq → f x = f y) :
    ∀ a : List α, padLex cmp d a [] = .eq → stripTrail (f d) (a.map f) = []
  | [], _ => rfl
  | x :: xs, h => by
    simp only [padLex, Ordering.then_eq_eq'] at h
    simp [stripTrail, padLex_nil_right_eq hf xs h.2, hf _ _ h.1]

/-- lists that `padLex` finds equal have the same `f`-image up to trailing `f d`s -/
theorem padLex_eq_stripTrail {α β : Type} [DecidableEq β] {cmp : α → α → Ordering} {d : α}
    {f : α → β} (hf : ∀ x y, cmp x y = .eq → f x = f y) :
    ∀ a b : List α, padLex cmp d a b = .eq →
      stripTrail (f d) (a.map f) = stripTrail (f d) (b.map f)
  | [], b, h => by rw [padLex_nil_left_eq hf b h]; rfl
  | x :: xs, [], h => by rw [padLex_nil_right_eq hf (x :: xs) h]; rfl
  | x :: xs, y :: ys, h => by
    simp only [padLex, Ordering.then_eq_eq'] at h
    simp only [List.map_cons, stripTrail, padLex_eq_stripTrail hf xs ys h.2, hf _ _ h.1]

/-- the special case of a comparator whose `.eq` is equality -/
theorem padLex_eq_stripTrail_id {α : Type} [DecidableEq α] {cmp : α → α → Ordering} {d : α}
    (hc : ∀ x y, cmp x y = .eq → x = y) (a b : List α) (h : padLex cmp d a b = .eq) :
    stripTrail d a = stripTrail d b := by
  simpa using padLex_eq_stripTrail (f := id) hc a b h

end Univers
