/-
Comparator-law library on top of core `Std.OrientedCmp` / `Std.TransCmp`:
padded lexicographic comparison of lists (the shorter list is padded with a default element
that may sit anywhere in the element order), as used by dpkg, rpmvercmp, pacman vercmp,
Gem::Version, Maven ComparableVersion, Gentoo suffix chains.
No Mathlib.
-/
namespace Univers

open Std

/-- padded lexicographic comparison: the shorter list is padded with `d` -/
def padLex {α : Type} (cmp : α → α → Ordering) (d : α) : List α → List α → Ordering
  | [], [] => .eq
  | [], b :: bs => (cmp d b).then (padLex cmp d [] bs)
  | a :: as, [] => (cmp a d).then (padLex cmp d as [])
  | a :: as, b :: bs => (cmp a b).then (padLex cmp d as bs)

theorem Ordering.swap_then' (a b : Ordering) : (a.then b).swap = a.swap.then b.swap := by
  cases a <;> rfl

instance padLex.instOriented {α} (cmp : α → α → Ordering) [OrientedCmp cmp] (d : α) :
    OrientedCmp (padLex cmp d) where
  eq_swap := by
    intro a b
    induction a generalizing b with
    | nil =>
      induction b with
      | nil => simp [padLex]
      | cons y ys ih =>
        simp only [padLex, Ordering.swap_then']
        rw [← ih, ← OrientedCmp.eq_swap]
    | cons x xs ih =>
      cases b with
      | nil =>
        simp only [padLex, Ordering.swap_then']
        rw [← ih, ← OrientedCmp.eq_swap]
      | cons y ys =>
        simp only [padLex, Ordering.swap_then']
        rw [← ih, ← OrientedCmp.eq_swap]

/-- the step used at every position of a lexicographic transitivity proof -/
theorem then_isLE_trans {o1 o2 o3 p1 p2 p3 : Ordering}
    (hle : o1.isLE → o2.isLE → o3.isLE)
    (hlt1 : o1 = .lt → o2.isLE → o3 = .lt)
    (hlt2 : o1.isLE → o2 = .lt → o3 = .lt)
    (ih : p1.isLE → p2.isLE → p3.isLE)
    (h1 : (o1.then p1).isLE) (h2 : (o2.then p2).isLE) : (o3.then p3).isLE := by
  cases o1 <;> cases o2 <;> cases o3 <;> simp_all [Ordering.then, Ordering.isLE]

instance padLex.instTrans {α} (cmp : α → α → Ordering) [TransCmp cmp] (d : α) :
    TransCmp (padLex cmp d) where
  isLE_trans := by
    intro a b c
    induction a generalizing b c with
    | nil =>
      induction b generalizing c with
      | nil => intro _ h; exact h
      | cons y ys ihb =>
        cases c with
        | nil =>
          intro h1 h2
          simp [padLex, Ordering.isLE]
        | cons z zs =>
          intro h1 h2
          simp only [padLex] at h1 h2 ⊢
          exact then_isLE_trans (fun a b => TransCmp.isLE_trans a b)
            (fun a b => TransCmp.lt_of_lt_of_isLE a b) (fun a b => TransCmp.lt_of_isLE_of_lt a b)
            (ihb (c := zs)) h1 h2
    | cons x xs ih =>
      cases b with
      | nil =>
        cases c with
        | nil => intro h1 _; exact h1
        | cons z zs =>
          intro h1 h2
          simp only [padLex] at h1 h2 ⊢
          exact then_isLE_trans (fun a b => TransCmp.isLE_trans a b)
            (fun a b => TransCmp.lt_of_lt_of_isLE a b) (fun a b => TransCmp.lt_of_isLE_of_lt a b)
            (ih (b := []) (c := zs)) h1 h2
      | cons y ys =>
        cases c with
        | nil =>
          intro h1 h2
          simp only [padLex] at h1 h2 ⊢
          exact then_isLE_trans (fun a b => TransCmp.isLE_trans a b)
            (fun a b => TransCmp.lt_of_lt_of_isLE a b) (fun a b => TransCmp.lt_of_isLE_of_lt a b)
            (ih (b := ys) (c := [])) h1 h2
        | cons z zs =>
          intro h1 h2
          simp only [padLex] at h1 h2 ⊢
          exact then_isLE_trans (fun a b => TransCmp.isLE_trans a b)
            (fun a b => TransCmp.lt_of_lt_of_isLE a b) (fun a b => TransCmp.lt_of_isLE_of_lt a b)
            (ih (b := ys) (c := zs)) h1 h2

/-- lexicographic product of two comparators on a pair -/
def lexPair {α β : Type} (c1 : α → α → Ordering) (c2 : β → β → Ordering) :
    α × β → α × β → Ordering := fun a b => (c1 a.1 b.1).then (c2 a.2 b.2)

instance lexPair.instOriented {α β} (c1 : α → α → Ordering) (c2 : β → β → Ordering)
    [OrientedCmp c1] [OrientedCmp c2] : OrientedCmp (lexPair c1 c2) where
  eq_swap := by
    intro a b
    simp only [lexPair, Ordering.swap_then']
    rw [← OrientedCmp.eq_swap (cmp := c1), ← OrientedCmp.eq_swap (cmp := c2)]

instance lexPair.instTrans {α β} (c1 : α → α → Ordering) (c2 : β → β → Ordering)
    [TransCmp c1] [TransCmp c2] : TransCmp (lexPair c1 c2) where
  isLE_trans := by
    intro a b c h1 h2
    simp only [lexPair] at h1 h2 ⊢
    exact then_isLE_trans (fun a b => TransCmp.isLE_trans a b)
      (fun a b => TransCmp.lt_of_lt_of_isLE a b) (fun a b => TransCmp.lt_of_isLE_of_lt a b)
      (fun a b => TransCmp.isLE_trans a b) h1 h2

/-- pull-back of a comparator along a key function -/
def cmpOn {α β : Type} (f : α → β) (c : β → β → Ordering) : α → α → Ordering :=
  fun a b => c (f a) (f b)

instance cmpOn.instOriented {α β} (f : α → β) (c : β → β → Ordering) [OrientedCmp c] :
    OrientedCmp (cmpOn f c) where
  eq_swap := by intro a b; exact OrientedCmp.eq_swap (cmp := c)

instance cmpOn.instTrans {α β} (f : α → β) (c : β → β → Ordering) [TransCmp c] :
    TransCmp (cmpOn f c) where
  isLE_trans := by intro a b c'; exact TransCmp.isLE_trans (cmp := c)

/-- plain lexicographic comparison of lists (shorter prefix first) -/
def lexList {α : Type} (cmp : α → α → Ordering) : List α → List α → Ordering
  | [], [] => .eq
  | [], _ :: _ => .lt
  | _ :: _, [] => .gt
  | a :: as, b :: bs => (cmp a b).then (lexList cmp as bs)

instance lexList.instOriented {α} (cmp : α → α → Ordering) [OrientedCmp cmp] :
    OrientedCmp (lexList cmp) where
  eq_swap := by
    intro a b
    induction a generalizing b with
    | nil => cases b <;> rfl
    | cons x xs ih =>
      cases b with
      | nil => rfl
      | cons y ys =>
        simp only [lexList, Ordering.swap_then']
        rw [← ih, ← OrientedCmp.eq_swap]

instance lexList.instTrans {α} (cmp : α → α → Ordering) [TransCmp cmp] :
    TransCmp (lexList cmp) where
  isLE_trans := by
    intro a b c
    induction a generalizing b c with
    | nil => cases b <;> cases c <;> simp [lexList, Ordering.isLE]
    | cons x xs ih =>
      cases b with
      | nil => cases c <;> simp [lexList, Ordering.isLE]
      | cons y ys =>
        cases c with
        | nil => simp [lexList, Ordering.isLE]
        | cons z zs =>
          intro h1 h2
          simp only [lexList] at h1 h2 ⊢
          exact then_isLE_trans (fun a b => TransCmp.isLE_trans a b)
            (fun a b => TransCmp.lt_of_lt_of_isLE a b) (fun a b => TransCmp.lt_of_isLE_of_lt a b)
            (ih (b := ys) (c := zs)) h1 h2

end Univers
