/-
Generic order facts for C01/C02: a scheme whose six operators are induced by a transitive
three-way comparison has a strict weak order; sorting any two permutations of a list gives the
same sequence of equivalence classes.
-/
import Univers.Vers.Spec

namespace Univers

open Std

variable {V : Type} {o : VOps V} {cmp : V → V → Ordering}

/-- `<` is irreflexive, asymmetric and transitive, `>` is its exact converse, and
'neither less nor greater' is transitive. -/
structure StrictWeakOrder (lt gt : V → V → Bool) : Prop where
  irrefl : ∀ a, lt a a = false
  asymm : ∀ a b, lt a b = true → lt b a = false
  trans : ∀ a b c, lt a b = true → lt b c = true → lt a c = true
  conv : ∀ a b, gt a b = lt b a
  incomp_trans : ∀ a b c, (lt a b = false ∧ lt b a = false) → (lt b c = false ∧ lt c b = false) →
    (lt a c = false ∧ lt c a = false)

theorem cmp_self_eq [OrientedCmp cmp] (a : V) : cmp a a = .eq := by
  have h : cmp a a = (cmp a a).swap := OrientedCmp.eq_swap
  cases hc : cmp a a <;> simp_all [Ordering.swap]

/-- `<` and `>` are the ones induced by the three-way comparison -/
structure LawfulLtGt (o : VOps V) (cmp : V → V → Ordering) : Prop where
  lt : ∀ a b, o.lt a b = (cmp a b == .lt)
  gt : ∀ a b, o.gt a b = (cmp a b == .gt)

theorem Lawful.ltgt (h : Lawful o cmp) : LawfulLtGt o cmp := ⟨h.lt, h.gt⟩

theorem swo_of_ltgt [TransCmp cmp] (h : LawfulLtGt o cmp) : StrictWeakOrder o.lt o.gt where
  irrefl a := by simp [h.lt, cmp_self_eq]
  asymm a b hab := by
    simp only [h.lt, beq_iff_eq] at hab ⊢
    have : cmp b a = .gt := OrientedCmp.gt_of_lt hab
    simp [this]
  trans a b c hab hbc := by
    simp only [h.lt, beq_iff_eq] at hab hbc ⊢
    exact TransCmp.lt_trans hab hbc
  conv a b := by
    simp only [h.lt, h.gt]
    have : cmp b a = (cmp a b).swap := OrientedCmp.eq_swap
    rw [this]; cases cmp a b <;> rfl
  incomp_trans a b c hab hbc := by
    simp only [h.lt] at hab hbc ⊢
    have e1 : cmp a b = .eq := by
      have hs : cmp b a = (cmp a b).swap := OrientedCmp.eq_swap
      cases hc : cmp a b <;> simp_all [Ordering.swap]
    have e2 : cmp b c = .eq := by
      have hs : cmp c b = (cmp b c).swap := OrientedCmp.eq_swap
      cases hc : cmp b c <;> simp_all [Ordering.swap]
    have e3 : cmp a c = .eq := TransCmp.eq_trans e1 e2
    have e4 : cmp c a = .eq := OrientedCmp.eq_symm e3
    simp [e3, e4]

/-! ### sorting and equivalence classes -/

/-- the equivalence 'neither less nor greater' -/
def eqvSetoid (cmp : V → V → Ordering) [TransCmp cmp] : Setoid V where
  r a b := cmp a b = .eq
  iseqv := ⟨fun a => cmp_self_eq a, fun h => OrientedCmp.eq_symm h, fun h1 h2 => TransCmp.eq_trans h1 h2⟩

/-- the equivalence class of a version -/
def cls (cmp : V → V → Ordering) [TransCmp cmp] (a : V) : Quotient (eqvSetoid cmp) :=
  Quotient.mk (eqvSetoid cmp) a

/-- the order on classes -/
def clsCmp (cmp : V → V → Ordering) [TransCmp cmp] :
    Quotient (eqvSetoid cmp) → Quotient (eqvSetoid cmp) → Ordering :=
  Quotient.lift₂ cmp (by
    intro a b a' b' ha hb
    have ha' : cmp a a' = .eq := ha
    have hb' : cmp b b' = .eq := hb
    rw [TransCmp.congr_left ha', TransCmp.congr_right hb'])

theorem clsCmp_mk [TransCmp cmp] (a b : V) : clsCmp cmp (cls cmp a) (cls cmp b) = cmp a b := rfl

theorem clsCmp_antisymm [TransCmp cmp] (p q : Quotient (eqvSetoid cmp))
    (h1 : (clsCmp cmp p q).isLE = true) (h2 : (clsCmp cmp q p).isLE = true) : p = q := by
  induction p using Quotient.inductionOn with
  | h a =>
    induction q using Quotient.inductionOn with
    | h b =>
      have e : cmp a b = .eq := OrientedCmp.isLE_antisymm (cmp := cmp) h1 h2
      exact Quotient.sound e

/-- `sorted(versions)`: a stable sort calling only `<` -/
def sortBy (lt : V → V → Bool) (l : List V) : List V := l.mergeSort (fun a b => !lt b a)

/-- Sorting any list of versions gives the same sequence of equivalence classes whatever the
input order. -/
theorem swo_of_lawful [TransCmp cmp] (h : Lawful o cmp) : StrictWeakOrder o.lt o.gt :=
  swo_of_ltgt h.ltgt

/-- the operators of a scheme restricted to a sub-domain -/
def subOps {P : V → Prop} (o : VOps V) : VOps { v : V // P v } where
  lt a b := o.lt a.1 b.1
  le a b := o.le a.1 b.1
  gt a b := o.gt a.1 b.1
  ge a b := o.ge a.1 b.1
  eq a b := o.eq a.1 b.1
  ne a b := o.ne a.1 b.1

theorem LawfulLtGt.sub {P : V → Prop} (h : LawfulLtGt o cmp) :
    LawfulLtGt (subOps (P := P) o) (fun a b => cmp a.1 b.1) := ⟨fun a b => h.lt a.1 b.1, fun a b => h.gt a.1 b.1⟩

theorem Lawful.sub {P : V → Prop} (h : Lawful o cmp) :
    Lawful (subOps (P := P) o) (fun a b => cmp a.1 b.1) :=
  ⟨fun a b => h.lt a.1 b.1, fun a b => h.gt a.1 b.1, fun a b => h.eq a.1 b.1,
   fun a b => h.le a.1 b.1, fun a b => h.ge a.1 b.1, fun a b => h.ne a.1 b.1⟩

theorem sort_classes_invariant [TransCmp cmp] (h : LawfulLtGt o cmp) (l₁ l₂ : List V)
    (hp : l₁.Perm l₂) :
    (sortBy o.lt l₁).map (cls cmp) = (sortBy o.lt l₂).map (cls cmp) := by
  have hle : ∀ a b : V, (!o.lt b a) = (cmp a b).isLE := by
    intro a b
    have hs : cmp b a = (cmp a b).swap := OrientedCmp.eq_swap
    rw [h.lt, hs]; cases cmp a b <;> rfl
  have htrans : ∀ a b c : V, (!o.lt b a) = true → (!o.lt c b) = true → (!o.lt c a) = true := by
    intro a b c; simp only [hle]; exact fun h1 h2 => TransCmp.isLE_trans h1 h2
  have htotal : ∀ a b : V, ((!o.lt b a) || (!o.lt a b)) = true := by
    intro a b
    simp only [hle]
    have hs : cmp b a = (cmp a b).swap := OrientedCmp.eq_swap
    rw [hs]; cases cmp a b <;> rfl
  have sorted : ∀ l : List V, ((sortBy o.lt l).map (cls cmp)).Pairwise
      (fun p q => (clsCmp cmp p q).isLE = true) := by
    intro l
    rw [List.pairwise_map]
    have := List.pairwise_mergeSort (le := fun a b => !o.lt b a) htrans htotal l
    apply List.Pairwise.imp _ this
    intro a b hab
    rw [clsCmp_mk, ← hle]; exact hab
  have hperm : ((sortBy o.lt l₁).map (cls cmp)).Perm ((sortBy o.lt l₂).map (cls cmp)) := by
    apply List.Perm.map
    exact ((List.mergeSort_perm l₁ _).trans hp).trans (List.mergeSort_perm l₂ _).symm
  exact List.Perm.eq_of_pairwise (le := fun p q => (clsCmp cmp p q).isLE = true)
    (fun p q _ _ h1 h2 => clsCmp_antisymm p q h1 h2) (sorted l₁) (sorted l₂) hperm

/-! ### C02: the six operators agree -/

/-- exactly one of three Booleans -/
def exactlyOne (a b c : Bool) : Bool := (a && !b && !c) || (!a && b && !c) || (!a && !b && c)

theorem ops_agree_of_lawful (h : Lawful o cmp) (a b : V) :
    exactlyOne (o.lt a b) (o.eq a b) (o.gt a b) = true ∧
    o.le a b = (o.lt a b || o.eq a b) ∧ o.ge a b = (o.gt a b || o.eq a b) ∧
    o.ne a b = !o.eq a b := by
  simp only [h.lt, h.eq, h.gt, h.le, h.ge, h.ne, exactlyOne]
  cases cmp a b <;> decide

/-- a single-comparator constraint accepts exactly the versions standing in that relation -/
theorem single_constraint_meaning (h : Lawful o cmp) (c : Cmpr) (u x : V) :
    (Con.mk c u).sat o x = c.holds (cmp x u) := by
  cases c <;> simp [Con.sat, VOps.op, Cmpr.holds, h.lt, h.gt, h.eq, h.le, h.ge, h.ne]

end Univers
