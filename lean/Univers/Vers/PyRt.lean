/-
Run-time support for the Lean code that `harness/translate_layerb.py` GENERATES from the Python
source of `univers/version_constraint.py` and of the generic part of `univers/version_range.py`
(`Univers/Gen/LayerB.lean`).  The translation is syntax-directed: one Lean term per Python
statement or expression, in the same order; this file gives the meaning of each Python construct
the translator knows.  Nothing here knows what the translated functions are for.

* A Python value of type `VersionConstraint` is a `Con V`; a variable that the Python also
  assigns `None` to is an `Option (Con V)`.
* A comparator text is a `CmpVal`: one of the seven keys of `COMPARATORS` or Python's `None`
  (`VersionConstraint.__attrs_post_init__` refuses every other text with a `ValueError`).
  A Python expression that depends on ONE comparator text only (`"=" in c`, `c in ("<", "<=")`,
  `c == "*"` …) is translated to a table over `CmpVal`, filled in by evaluating the Python
  expression itself on the eight values.
* A `for` loop is `pyFor`: the loop body gets the loop item and the tuple of the local variables
  it assigns, and answers `next` (with the new tuple; also what `continue` gives), `brk` or
  `ret`; the statements after the loop are the continuation.  A `while` loop is `pyWhile` with a
  fuel bound that the translator takes from a list length and that the agreement theorems show
  is never reached (`Err.OutOfFuel` is not an outcome of any translated function).
* An exception is `Except.error`; the arguments of the exception (message texts) are not
  translated.
-/
import Univers.Vers.Model

namespace Univers.PyRt

open Univers

/-- the comparator texts a constraint can carry, and `None` -/
inductive CmpVal where
  | pyNone | star | of (k : Cmpr)
  deriving DecidableEq, Repr, Inhabited

/-- `constraint.comparator` -/
def comparator {V} : Con V → CmpVal
  | .star => .star
  | .mk k _ => .of k

/-- `constraint.version` (`None` for the star constraint) -/
def version {V} : Con V → Option V
  | .star => none
  | .mk _ v => some v

/-- `x.comparator` where `x` may be `None` -/
def comparatorOpt {V} : Option (Con V) → Except Err CmpVal
  | none => .error .AttributeError
  | some c => .ok (comparator c)

/-- `x.version` where `x` may be `None` -/
def versionOpt {V} : Option (Con V) → Except Err (Option V)
  | none => .error .AttributeError
  | some c => .ok (version c)

/-- `a == b` between a version and a version-or-`None`: a version never equals `None`
(both `__eq__` decline and identity decides). -/
def eqOpt {V} (o : VOps V) (a : V) : Option V → Bool
  | none => false
  | some b => o.eq a b

/-- `a < b` between a version and a version-or-`None`: `TypeError` against `None`. -/
def ltOpt {V} (o : VOps V) (a : V) : Option V → Except Err Bool
  | none => .error .TypeError
  | some b => .ok (o.lt a b)

/-- `a > b` likewise -/
def gtOpt {V} (o : VOps V) (a : V) : Option V → Except Err Bool
  | none => .error .TypeError
  | some b => .ok (o.gt a b)

/-- `xs[i]` for a non-negative literal `i` -/
def index {α} (xs : List α) (i : Nat) : Except Err α :=
  match xs[i]? with
  | some x => .ok x
  | none => .error .IndexError

/-- `xs[-1]` -/
def last {α} (xs : List α) : Except Err α :=
  match xs.getLast? with
  | some x => .ok x
  | none => .error .IndexError

/-- truth value of a list -/
def truthy {α} (xs : List α) : Bool := !xs.isEmpty

/-- outcome of one round of a loop body -/
inductive Step (σ ρ : Type) where
  | next (st : σ) | brk (st : σ) | ret (r : ρ)

/-- what happens after one round of a loop body: go on (`next`), leave the loop (`k`), or
return from the function -/
def Step.cont {ε σ ρ} (r : Except ε (Step σ ρ)) (next k : σ → Except ε ρ) : Except ε ρ :=
  match r with
  | .error e => .error e
  | .ok (.next st') => next st'
  | .ok (.brk st') => k st'
  | .ok (.ret r) => .ok r

/-- `for x in xs: body` followed by `k` -/
def pyFor {ε α σ ρ} (xs : List α) (st : σ) (body : α → σ → Except ε (Step σ ρ))
    (k : σ → Except ε ρ) : Except ε ρ :=
  match xs with
  | [] => k st
  | x :: rest => Step.cont (body x st) (fun st' => pyFor rest st' body k) k

/-- `while cond: body` followed by `k`, with a bound on the number of rounds -/
def pyWhile {σ ρ} (fuel : Nat) (st : σ) (cond : σ → Except Err Bool)
    (body : σ → Except Err (Step σ ρ)) (k : σ → Except Err ρ) : Except Err ρ :=
  match fuel with
  | 0 => .error .OutOfFuel
  | fuel + 1 =>
    match cond st with
    | .error e => .error e
    | .ok false => k st
    | .ok true => Step.cont (body st) (fun st' => pyWhile fuel st' cond body k) k

section lemmas
variable {ε α σ ρ : Type}

@[simp] theorem Step.cont_error (e : ε) (n k : σ → Except ε ρ) :
    Step.cont (.error e) n k = .error e := rfl
@[simp] theorem Step.cont_next (s : σ) (n k : σ → Except ε ρ) :
    Step.cont (.ok (.next s)) n k = n s := rfl
@[simp] theorem Step.cont_brk (s : σ) (n k : σ → Except ε ρ) :
    Step.cont (.ok (.brk s)) n k = k s := rfl
@[simp] theorem Step.cont_ret (r : ρ) (n k : σ → Except ε ρ) :
    Step.cont (.ok (.ret r)) n k = .ok r := rfl
@[simp] theorem Step.cont_ite (c : Prop) [Decidable c] (a b : Except ε (Step σ ρ))
    (n k : σ → Except ε ρ) :
    Step.cont (if c then a else b) n k = if c then Step.cont a n k else Step.cont b n k := by
  split <;> rfl
@[simp] theorem pyFor_nil (st : σ) (body : α → σ → Except ε (Step σ ρ)) (k : σ → Except ε ρ) :
    pyFor [] st body k = k st := rfl
@[simp] theorem pyFor_cons (x : α) (xs : List α) (st : σ) (body : α → σ → Except ε (Step σ ρ))
    (k : σ → Except ε ρ) :
    pyFor (x :: xs) st body k = Step.cont (body x st) (fun st' => pyFor xs st' body k) k := rfl

/-- a loop whose body only tests the item and returns: `any` -/
theorem pyFor_ret_any (xs : List α) (p : α → Bool) (r : ρ) (k : Unit → Except ε ρ) :
    pyFor xs () (fun x st => if p x then .ok (.ret r) else .ok (.next st)) k
      = if xs.any p then .ok r else k () := by
  induction xs with
  | nil => simp
  | cons x xs ih =>
    by_cases h : p x = true
    · simp [h]
    · simp [h, ih]

end lemmas

/-- `c in seen` for a set of constraints: membership in a set is decided by `==` (and the hash, which agrees
with `==` for a lawful scheme: C12) -/
def setMem {V} (o : VOps V) (seen : List (Con V)) (c : Con V) : Bool := seen.any (fun s => conEq o s c)

/-- `sorted(set(xs))`: the set keeps one of every class of equal constraints; its iteration order is not
specified and is the parameter `perm` -/
def sortedSet {V} (o : VOps V) (perm : List (Con V) → List (Con V)) (xs : List (Con V)) : Except Err (List (Con V)) :=
  sortCons o (perm (Univers.deduplicate o [] xs))

/-- `VersionConstraint(comparator=c, version=v)`: `__attrs_post_init__` refuses an unknown comparator text and a
constraint that has neither a version nor a version class -/
def mkCon {V} : CmpVal → Option V → Except Err (Con V)
  | .of k, some v => .ok (.mk k v)
  | .star, _ => .ok .star
  | .of _, none => .error .ValueError
  | .pyNone, _ => .error .ValueError

/-- `RangeClass(constraints=xs)`: `VersionRange.__attrs_post_init__` sorts the constraints -/
def mkRangeOfList {V} (o : VOps V) (xs : List (Con V)) : Except Err (List (Con V)) := sortCons o xs

/-- `RangeClass(constraints=xs)` where `xs` may hold `None` (the inverse of a star constraint): sorting compares
`None` with a constraint and raises `TypeError`.  (A one-element list `[None]` would sort; it cannot be
represented here and is answered `TypeError` as well: the agreement theorem shows the case does not arise,
`VersionRange.invert` returns before it for the star range.) -/
def mkRangeOfOpts {V} (o : VOps V) (xs : List (Option (Con V))) : Except Err (List (Con V)) :=
  if xs.all Option.isSome then sortCons o (xs.filterMap id) else .error .TypeError

/-- `itertools.pairwise` -/
def pairwise {α} : List α → List (α × α) := Univers.pairwise

end Univers.PyRt
