/-
Helper proofs for C09: inversion of a range is the complement and an involution.
-/
import Univers.Vers.Cuts
import Univers.Vers.SortThm
import Univers.Vers.ContainsMain

namespace Univers

open Std

variable {V : Type} {o : VOps V} {cmp : V → V → Ordering}

/-- `VersionConstraint.invert()` on a versioned constraint -/
def Con.inv : Con V → Con V
  | .star => .star
  | .mk c v => .mk (Con.invertCmpr c) v

theorem filterMap_invert_noStar (cs : List (Con V)) (hns : noStar cs = true) :
    cs.filterMap Con.invert = cs.map Con.inv := by
  induction cs with
  | nil => rfl
  | cons c t ih =>
    simp only [noStar, List.all_cons, Bool.and_eq_true] at hns
    cases c with
    | star => simp [Con.isStar] at hns
    | mk k v =>
      simp only [List.filterMap_cons, Con.invert, List.map_cons, Con.inv]
      rw [ih (by simpa [noStar] using hns.2)]

@[simp] theorem Con.inv_isNe (c : Con V) : c.inv.isNe = c.isEq := by
  cases c with | star => rfl | mk k v => cases k <;> rfl
@[simp] theorem Con.inv_isEq (c : Con V) : c.inv.isEq = c.isNe := by
  cases c with | star => rfl | mk k v => cases k <;> rfl
@[simp] theorem Con.inv_isUpper (c : Con V) : c.inv.isUpper = c.isLower := by
  cases c with | star => rfl | mk k v => cases k <;> rfl
@[simp] theorem Con.inv_isLower (c : Con V) : c.inv.isLower = c.isUpper := by
  cases c with | star => rfl | mk k v => cases k <;> rfl
@[simp] theorem Con.inv_isBound (c : Con V) : c.inv.isBound = c.isBound := by
  cases c with | star => rfl | mk k v => cases k <;> rfl
@[simp] theorem Con.inv_isStar (c : Con V) : c.inv.isStar = c.isStar := by
  cases c <;> rfl
@[simp] theorem Con.inv_at (c : Con V) (x : V) : c.inv.at cmp x = c.at cmp x := by
  cases c <;> rfl
@[simp] theorem Con.inv_inv (c : Con V) : c.inv.inv = c := by
  cases c with | star => rfl | mk k v => cases k <;> rfl
@[simp] theorem Con.inv_cutAbove (c : Con V) (x : V) : cutAbove cmp x c.inv = cutAbove cmp x c := by
  cases c with | star => rfl | mk k v => cases k <;> rfl

theorem Con.inv_holds (c : Cmpr) (v x : V) :
    (Con.mk c v).inv.holds cmp x = !(Con.mk c v).holds cmp x := by
  simp only [Con.inv, Con.holds]
  generalize cmp x v = r
  cases c <;> cases r <;> rfl

theorem noStar_map_inv (cs : List (Con V)) : noStar (cs.map Con.inv) = noStar cs := by
  simp [noStar, List.all_map, Function.comp_def]

theorem strictSorted_map_inv (cs : List (Con V)) (hs : StrictSorted cmp cs) :
    StrictSorted cmp (cs.map Con.inv) := by
  unfold StrictSorted at *
  rw [List.pairwise_map]
  apply List.Pairwise.imp _ hs
  intro a b hab
  cases a <;> cases b <;> simp_all [Con.inv]

theorem filter_bound_map_inv (cs : List (Con V)) :
    (cs.map Con.inv).filter Con.isBound = (cs.filter Con.isBound).map Con.inv := by
  rw [List.filter_map]
  congr 1
  apply List.filter_congr
  intro c _
  simp

theorem altB_map_inv (B : List (Con V)) (hb : allBounds B) : altB (B.map Con.inv) = altB B := by
  induction B with
  | nil => rfl
  | cons a t ih =>
    cases t with
    | nil => rfl
    | cons b rest =>
      have ih' := ih (fun y hy => hb y (List.mem_cons_of_mem _ hy))
      simp only [List.map_cons, altB, Con.inv_isUpper] at ih' ⊢
      rw [ih']
      congr 1
      obtain ⟨c1, u, rfl, _, _⟩ := isBound_cases (hb a List.mem_cons_self)
      obtain ⟨c2, w, rfl, _, _⟩ := isBound_cases (hb b (List.mem_cons_of_mem _ List.mem_cons_self))
      cases c1 <;> cases c2 <;> simp_all [Con.isLower, Con.isUpper, Cmpr.isLower, Cmpr.isUpper]

theorem allBounds_map_inv (B : List (Con V)) (hb : allBounds B) : allBounds (B.map Con.inv) := by
  intro y hy
  obtain ⟨c, hc, rfl⟩ := List.mem_map.mp hy
  simpa using hb c hc

theorem firstAboveIn_map_inv (x : V) (B : List (Con V)) (hb : allBounds B) (hne : B ≠ []) :
    firstAboveIn cmp x (B.map Con.inv) = !firstAboveIn cmp x B := by
  unfold firstAboveIn
  rw [List.find?_map]
  have hcomp : (cutAbove cmp x ∘ Con.inv) = cutAbove cmp x := by
    funext c; simp
  rw [hcomp, List.getLast?_map]
  cases hf : B.find? (cutAbove cmp x) with
  | some b =>
    have hbm : b ∈ B := List.mem_of_find?_eq_some hf
    obtain ⟨c, v, rfl, _, _⟩ := isBound_cases (hb b hbm)
    simp only [Option.map_some, Con.inv_isUpper]
    cases c <;> simp_all [Con.isLower, Con.isUpper, Cmpr.isLower, Cmpr.isUpper]
  | none =>
    simp only [Option.map_none]
    cases hl : B.getLast? with
    | none => exact absurd (List.getLast?_eq_none_iff.mp hl) hne
    | some b =>
      have hbm : b ∈ B := List.mem_of_getLast? hl
      obtain ⟨c, v, rfl, _, _⟩ := isBound_cases (hb b hbm)
      simp only [Option.map_some, Con.inv_isLower]
      cases c <;> simp_all [Con.isLower, Con.isUpper, Cmpr.isLower, Cmpr.isUpper]

/-- on a non-empty alternating sorted bound list, inverting every bound complements the union -/
theorem inIntervals_map_inv [TransCmp cmp] (x : V) (B : List (Con V)) (hb : allBounds B)
    (halt : altB B = true) (hs : StrictSorted cmp B) (hne : B ≠ []) :
    inIntervals cmp x (B.map Con.inv) = !inIntervals cmp x B := by
  rw [inIntervals_eq_firstAbove x _ (allBounds_map_inv B hb) (by rw [altB_map_inv B hb]; exact halt)
      (strictSorted_map_inv B hs),
    inIntervals_eq_firstAbove x B hb halt hs, firstAboveIn_map_inv x B hb hne]

/-! ### at most one constraint is at `x` -/

theorem at_unique [TransCmp cmp] (cs : List (Con V)) (hs : StrictSorted cmp cs) (x : V)
    (c d : Con V) (hc : c ∈ cs) (hd : d ∈ cs) (hcx : c.at cmp x = true) (hdx : d.at cmp x = true) :
    c = d := by
  have hR : cs.Pairwise (sameOrApart cmp) := by
    apply List.Pairwise.imp _ hs
    intro a b hab
    cases a with
    | star => cases b <;> simp at hab
    | mk c u =>
      cases b with
      | star => simp at hab
      | mk d w =>
        have hab' : cmp u w = .lt := hab
        exact Or.inr (by simp [hab'])
  have hflip : cs.Pairwise (flip (sameOrApart cmp)) :=
    List.Pairwise.imp (fun hxy => sameOrApart_symm hxy) hR
  have hsym := List.Pairwise.forall_of_forall_of_flip (R := sameOrApart cmp)
    (fun x _ => Or.inl rfl) hR hflip
  rcases hsym hc hd with heq | hne
  · exact heq
  · exfalso
    cases c with
    | star => simp [Con.at] at hcx
    | mk k u =>
      cases d with
      | star => simp [Con.at] at hdx
      | mk k2 w =>
        have hne' : cmp u w ≠ .eq := hne
        simp only [Con.at, beq_iff_eq] at hcx hdx
        exact hne' (TransCmp.eq_trans (OrientedCmp.eq_symm hcx) hdx)

/-! ### `denote` without the star arm -/

theorem denote_formula (cs : List (Con V)) (hne : cs ≠ [.star]) (x : V) :
    denote cmp cs x =
      (if cs.isEmpty then false
       else if cs.all Con.isNe then cs.all (fun c => !c.at cmp x)
       else if cs.any (fun c => c.isNe && c.at cmp x) then false
       else if cs.any (fun c => c.isEq && c.at cmp x) then true
       else inIntervals cmp x (cs.filter Con.isBound)) := by
  match cs, hne with
  | [], _ => simp [denote]
  | [.star], h => exact absurd rfl h
  | [.mk k v], _ => simp [denote]
  | a :: b :: rest, _ => simp [denote]

/-! ### the complement -/

theorem denote_map_inv [TransCmp cmp] (cs : List (Con V)) (hns : noStar cs = true)
    (hs : StrictSorted cmp cs) (halt : altRule cs = true) (hnv : NonVacuous cmp cs)
    (hne : cs ≠ []) (x : V) :
    denote cmp (cs.map Con.inv) x = !denote cmp cs x := by
  have hcs1 : cs ≠ [.star] := by
    intro h; subst h; simp [noStar, Con.isStar] at hns
  have hcs2 : cs.map Con.inv ≠ [.star] := by
    intro h
    have : noStar (cs.map Con.inv) = true := by rw [noStar_map_inv]; exact hns
    rw [h] at this; simp [noStar, Con.isStar] at this
  rw [denote_formula _ hcs2, denote_formula _ hcs1]
  have hemp : cs.isEmpty = false := by
    cases cs with
    | nil => exact absurd rfl hne
    | cons _ _ => rfl
  have hemp2 : (cs.map Con.inv).isEmpty = false := by
    cases cs with
    | nil => exact absurd rfl hne
    | cons _ _ => rfl
  simp only [hemp, hemp2, Bool.false_eq_true, if_false, List.all_map, List.any_map,
    Function.comp_def, Con.inv_isNe, Con.inv_isEq, Con.inv_at, filter_bound_map_inv]
  obtain ⟨c0, t0, hcs⟩ : ∃ c t, cs = c :: t := by
    cases cs with
    | nil => exact absurd rfl hne
    | cons c t => exact ⟨c, t, rfl⟩
  -- x is at no more than one constraint
  have hexcl : cs.any (fun c => c.isNe && c.at cmp x) = true →
      cs.any (fun c => c.isEq && c.at cmp x) = false := by
    intro h1
    apply Bool.eq_false_iff.mpr
    intro h2
    obtain ⟨c, hc, hcc⟩ := List.any_eq_true.mp h1
    obtain ⟨d, hd, hdd⟩ := List.any_eq_true.mp h2
    simp only [Bool.and_eq_true] at hcc hdd
    have := at_unique cs hs x c d hc hd hcc.2 hdd.2
    subst this
    cases c with
    | star => simp [Con.isNe] at hcc
    | mk k v => cases k <;> simp_all [Con.isNe, Con.isEq]
  by_cases hallne : cs.all Con.isNe = true
  · -- only "!=": the inverse is a list of "="
    have halleq : cs.all Con.isEq = false := by
      apply Bool.eq_false_iff.mpr
      intro h
      have h1 := List.all_eq_true.mp hallne c0 (by rw [hcs]; exact List.mem_cons_self)
      have h2 := List.all_eq_true.mp h c0 (by rw [hcs]; exact List.mem_cons_self)
      cases c0 with
      | star => simp [Con.isNe] at h1
      | mk k v => cases k <;> simp_all [Con.isNe, Con.isEq]
    have hnoeq : cs.any (fun c => c.isEq && c.at cmp x) = false := by
      apply Bool.eq_false_iff.mpr
      intro h
      obtain ⟨c, hc, hcc⟩ := List.any_eq_true.mp h
      have h1 := List.all_eq_true.mp hallne c hc
      cases c with
      | star => simp [Con.isNe] at h1
      | mk k v => cases k <;> simp_all [Con.isNe, Con.isEq]
    have hB : cs.filter Con.isBound = [] := by
      apply List.filter_eq_nil_iff.mpr
      intro c hc
      have hn := List.all_eq_true.mp hallne c hc
      cases c with
      | star => simp [Con.isNe] at hn
      | mk k v => cases k <;> simp_all [Con.isNe, Con.isBound, Con.isUpper, Con.isLower, Cmpr.isUpper, Cmpr.isLower]
    simp only [hallne, halleq, hnoeq, hB, if_true, Bool.false_eq_true, if_false, List.map_nil, inIntervals]
    -- any (ne ∧ at) = ¬ all (¬ at), all constraints being "!="
    by_cases hany : cs.any (fun c => c.isNe && c.at cmp x) = true
    · obtain ⟨c, hc, hcc⟩ := List.any_eq_true.mp hany
      have : cs.all (fun c => !c.at cmp x) = false := by
        apply Bool.eq_false_iff.mpr
        intro hh
        have := List.all_eq_true.mp hh c hc
        simp_all
      simp [hany, this]
    · have hany' : cs.any (fun c => c.isNe && c.at cmp x) = false := by
        cases hh : cs.any (fun c => c.isNe && c.at cmp x) with
        | false => rfl
        | true => exact absurd hh hany
      have : cs.all (fun c => !c.at cmp x) = true := by
        apply List.all_eq_true.mpr
        intro c hc
        have hn := List.all_eq_true.mp hallne c hc
        cases hat : c.at cmp x with
        | false => rfl
        | true =>
          have hh : cs.any (fun c => c.isNe && c.at cmp x) = true := List.any_eq_true.mpr ⟨c, hc, by simp [hn, hat]⟩
          rw [hany'] at hh; cases hh
      simp [hany', this]
  · have hallne' : cs.all Con.isNe = false := by
      cases hh : cs.all Con.isNe with
      | false => rfl
      | true => exact absurd hh hallne
    simp only [hallne', Bool.false_eq_true, if_false]
    by_cases halleq : cs.all Con.isEq = true
    · -- only "=": the inverse is a list of "!="
      have hnone : cs.any (fun c => c.isNe && c.at cmp x) = false := by
        apply Bool.eq_false_iff.mpr
        intro h
        obtain ⟨c, hc, hcc⟩ := List.any_eq_true.mp h
        have h1 := List.all_eq_true.mp halleq c hc
        cases c with
        | star => simp [Con.isEq] at h1
        | mk k v => cases k <;> simp_all [Con.isNe, Con.isEq]
      have hB : cs.filter Con.isBound = [] := by
        apply List.filter_eq_nil_iff.mpr
        intro c hc
        have hn := List.all_eq_true.mp halleq c hc
        cases c with
        | star => simp [Con.isEq] at hn
        | mk k v => cases k <;> simp_all [Con.isEq, Con.isBound, Con.isUpper, Con.isLower, Cmpr.isUpper, Cmpr.isLower]
      simp only [halleq, hnone, hB, if_true, Bool.false_eq_true, if_false, inIntervals]
      by_cases hany : cs.any (fun c => c.isEq && c.at cmp x) = true
      · obtain ⟨c, hc, hcc⟩ := List.any_eq_true.mp hany
        have : cs.all (fun c => !c.at cmp x) = false := by
          apply Bool.eq_false_iff.mpr
          intro hh
          have := List.all_eq_true.mp hh c hc
          simp_all
        simp [hany, this]
      · have hany' : cs.any (fun c => c.isEq && c.at cmp x) = false := by
          cases hh : cs.any (fun c => c.isEq && c.at cmp x) with
          | false => rfl
          | true => exact absurd hh hany
        have : cs.all (fun c => !c.at cmp x) = true := by
          apply List.all_eq_true.mpr
          intro c hc
          have hn := List.all_eq_true.mp halleq c hc
          cases hat : c.at cmp x with
          | false => rfl
          | true =>
            have hh : cs.any (fun c => c.isEq && c.at cmp x) = true := List.any_eq_true.mpr ⟨c, hc, by simp [hn, hat]⟩
            rw [hany'] at hh; cases hh
        simp [hany', this]
    · have halleq' : cs.all Con.isEq = false := by
        cases hh : cs.all Con.isEq with
        | false => rfl
        | true => exact absurd hh halleq
      simp only [halleq', Bool.false_eq_true, if_false]
      -- there is a bound: otherwise some "!=" would be vacuous
      have hnvb : ∀ c ∈ cs, match c with
          | .mk .ne v => inIntervals cmp v (cs.filter Con.isBound) = true
          | .mk .eq v => inIntervals cmp v (cs.filter Con.isBound) = false
          | _ => True := by
        rcases hnv with h | h
        · exact absurd h hallne
        · exact h
      have hBne : cs.filter Con.isBound ≠ [] := by
        intro hB
        -- some constraint is not "=": it is a "!=" (there are no bounds), and it is vacuous
        have : ∃ c ∈ cs, c.isEq = false := by
          cases hex : cs.all Con.isEq with
          | true => exact absurd hex halleq
          | false =>
            have := List.all_eq_false.mp hex
            obtain ⟨c, hc, hcc⟩ := this
            exact ⟨c, hc, by simpa using hcc⟩
        obtain ⟨c, hc, hce⟩ := this
        have hcb : c.isBound = false := by
          cases hb : c.isBound with
          | false => rfl
          | true =>
            have : c ∈ cs.filter Con.isBound := List.mem_filter.mpr ⟨hc, hb⟩
            rw [hB] at this; cases this
        have hcs' : c.isStar = false := by simpa using List.all_eq_true.mp hns c hc
        cases c with
        | star => simp [Con.isStar] at hcs'
        | mk k v =>
          have hk : k = .ne := by
            revert hce hcb
            cases k <;> simp [Con.isEq, Con.isBound, Con.isUpper, Con.isLower, Cmpr.isUpper, Cmpr.isLower]
          subst hk
          have := hnvb _ hc
          simp [hB, inIntervals] at this
      have hbnd : allBounds (cs.filter Con.isBound) := fun b hb => (List.mem_filter.mp hb).2
      have hsb : StrictSorted cmp (cs.filter Con.isBound) := List.Pairwise.filter _ hs
      have haltb : altB (cs.filter Con.isBound) = true := by rw [← altRule_eq_altB]; exact halt
      rw [inIntervals_map_inv x _ hbnd haltb hsb hBne]
      by_cases h1 : cs.any (fun c => c.isNe && c.at cmp x) = true
      · simp [h1, hexcl h1]
      · have h1' : cs.any (fun c => c.isNe && c.at cmp x) = false := by
          cases hh : cs.any (fun c => c.isNe && c.at cmp x) with
          | false => rfl
          | true => exact absurd hh h1
        by_cases h2 : cs.any (fun c => c.isEq && c.at cmp x) = true
        · simp [h1', h2]
        · have h2' : cs.any (fun c => c.isEq && c.at cmp x) = false := by
            cases hh : cs.any (fun c => c.isEq && c.at cmp x) with
            | false => rfl
            | true => exact absurd hh h2
          simp [h1', h2']

end Univers
