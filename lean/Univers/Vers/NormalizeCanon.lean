/-
Helper proofs for C10, part 3: the meaning of a block list, separation of consecutive blocks by a
known non-member, and uniqueness (up to version equality) of the canonical block list.
-/
import Univers.Vers.NormalizeGo
import Univers.Vers.InvertThm

namespace Univers

open Std

variable {V : Type} {o : VOps V} {cmp : V → V → Ordering}

/-! ### meaning of a block list -/

theorem blocks_inIntervals (bs : List (V × V)) (x : V) :
    inIntervals cmp x ((bs.flatMap (blockCons o)).filter Con.isBound) =
      inPairs cmp x ((bs.flatMap (blockCons o)).filter Con.isBound) := by
  induction bs with
  | nil => rfl
  | cons b t ih =>
    rw [List.flatMap_cons, List.filter_append, block_bounds]
    by_cases he : o.eq b.1 b.2 = true
    · simp only [he, if_true, List.nil_append]; exact ih
    · have he' : o.eq b.1 b.2 = false := by cases hh : o.eq b.1 b.2 <;> simp_all
      simp [he', inIntervals, Con.isUpper, Cmpr.isUpper]

theorem blocks_noNe (bs : List (V × V)) : ∀ c ∈ bs.flatMap (blockCons o), c.isNe = false ∧ c.isStar = false := by
  intro c hc
  obtain ⟨b, _, hcb⟩ := List.mem_flatMap.mp hc
  exact blockCons_noNe b c hcb

theorem blockCons_ne_nil (b : V × V) : blockCons o b ≠ [] := by
  unfold blockCons; split <;> simp

/-- an "=" block holds the versions equal to its bound; they are the versions inside `[lo, hi]` -/
theorem eqBlock_inBlock [TransCmp cmp] (h : Lawful o cmp) (b : V × V) (x : V) (he : o.eq b.1 b.2 = true) :
    (cmp x b.1 == .eq) = inBlock cmp x b := by
  have hbe : cmp b.1 b.2 = .eq := by have := h.eq b.1 b.2; rw [he] at this; simpa using this.symm
  have h1 : cmp x b.2 = cmp x b.1 := (TransCmp.congr_right hbe).symm
  have hx1 : cmp b.1 x = (cmp x b.1).swap := OrientedCmp.eq_swap
  simp only [inBlock, h1, hx1]
  cases cmp x b.1 <;> rfl

/-- the set a block list denotes -/
theorem denote_blockList [TransCmp cmp] (h : Lawful o cmp) (bs : List (V × V)) (x : V) :
    denote cmp (bs.flatMap (blockCons o)) x = bs.any (inBlock cmp x) := by
  have hno := blocks_noNe (o := o) bs
  have hstar : bs.flatMap (blockCons o) ≠ [.star] := by
    intro e
    have := (hno .star (by rw [e]; exact List.mem_singleton.mpr rfl)).2
    simp [Con.isStar] at this
  rw [denote_formula _ hstar]
  cases bs with
  | nil => rfl
  | cons b t =>
    have hne : ((b :: t).flatMap (blockCons o)).isEmpty = false := by
      rw [List.flatMap_cons]
      cases hb : blockCons o b with
      | nil => exact absurd hb (blockCons_ne_nil b)
      | cons c r => rfl
    have hall : ((b :: t).flatMap (blockCons o)).all Con.isNe = false := by
      rw [List.flatMap_cons]
      cases hb : blockCons o b with
      | nil => exact absurd hb (blockCons_ne_nil b)
      | cons c r =>
        have : c.isNe = false := (blockCons_noNe (o := o) b c (by rw [hb]; exact List.mem_cons_self)).1
        simp [this]
    have hany : ((b :: t).flatMap (blockCons o)).any (fun c => c.isNe && c.at cmp x) = false := by
      apply Bool.eq_false_iff.mpr
      intro hh
      obtain ⟨c, hc, hcc⟩ := List.any_eq_true.mp hh
      rw [(hno c hc).1] at hcc; simp at hcc
    simp only [hne, Bool.false_eq_true, if_false, hall, hany]
    rw [blocks_inIntervals]
    have := denote_blocks (o := o) (cmp := cmp) (b :: t) x
    have hrhs : (b :: t).any (fun b => if o.eq b.1 b.2 then cmp x b.1 == .eq else inBlock cmp x b) =
        (b :: t).any (inBlock cmp x) := by
      apply any_congr_mem
      intro d _
      by_cases he : o.eq d.1 d.2 = true
      · simp only [he, if_true]; exact eqBlock_inBlock h d x he
      · have he' : o.eq d.1 d.2 = false := by cases hh : o.eq d.1 d.2 <;> simp_all
        simp [he']
    rw [hrhs] at this
    rw [← this]
    cases ((b :: t).flatMap (blockCons o)).any (fun c => c.isEq && c.at cmp x) <;> simp

/-! ### consecutive blocks are separated by a known non-member -/

def sepBy (cmp : V → V → Ordering) (mem : V → Bool) (S : List V) : List (V × V) → Prop
  | b :: c :: rest => (∃ k ∈ S, mem k = false ∧ cmp b.2 k = .lt ∧ cmp k c.1 = .lt) ∧ sepBy cmp mem S (c :: rest)
  | _ => True

theorem sepBy_mono {mem : V → Bool} {S S' : List V} (hsub : ∀ k ∈ S, k ∈ S') :
    ∀ (bs : List (V × V)), sepBy cmp mem S bs → sepBy cmp mem S' bs
  | [], _ => trivial
  | [_], _ => trivial
  | _ :: c :: rest, ⟨⟨k, hk, h1, h2, h3⟩, hr⟩ => ⟨⟨k, hsub k hk, h1, h2, h3⟩, sepBy_mono hsub (c :: rest) hr⟩

theorem go_sep [TransCmp cmp] (mem : V → Bool) (hmem : ∀ a b, cmp a b = .eq → mem a = mem b) :
    ∀ (S : List V) (cur : Option (V × V)),
      S.Pairwise (le' cmp) →
      (∀ c, cur = some c → le' cmp c.1 c.2 ∧ mem c.2 = true ∧ ∀ s ∈ S, le' cmp c.2 s) →
      sepBy cmp mem S (goBlocks mem S cur)
  | [], none, _, _ => trivial
  | [], some _, _, _ => trivial
  | k :: t, cur, hs, hc => by
    have hst : t.Pairwise (le' cmp) := (List.pairwise_cons.mp hs).2
    have hkt : ∀ s ∈ t, le' cmp k s := (List.pairwise_cons.mp hs).1
    have hsub : ∀ x ∈ t, x ∈ k :: t := fun x hx => List.mem_cons_of_mem _ hx
    by_cases hm : mem k = true
    · have hcur' : ∀ c, some (extendCur cur k) = some c →
          le' cmp c.1 c.2 ∧ mem c.2 = true ∧ ∀ s ∈ t, le' cmp c.2 s := by
        intro c e
        injection e with e; subst e
        refine ⟨?_, ?_, ?_⟩
        · cases cur with
          | none => show le' cmp k k; intro e; rw [cmp_self_eq (cmp := cmp)] at e; cases e
          | some b =>
            obtain ⟨h1, _, h3⟩ := hc b rfl
            exact le'_trans h1 (h3 k List.mem_cons_self)
        · cases cur <;> exact hm
        · cases cur <;> exact hkt
      have hgo : goBlocks mem (k :: t) cur = goBlocks mem t (some (extendCur cur k)) := by
        simp only [goBlocks, hm, if_true]
      rw [hgo]
      exact sepBy_mono hsub _ (go_sep mem hmem t _ hst hcur')
    · have hm' : mem k = false := by cases hh : mem k <;> simp_all
      have ih := go_sep mem hmem t none hst (fun c e => by cases e)
      cases cur with
      | none =>
        have hgo : goBlocks mem (k :: t) none = goBlocks mem t none := by
          simp only [goBlocks, hm', Bool.false_eq_true, if_false]
        rw [hgo]; exact sepBy_mono hsub _ ih
      | some c =>
        obtain ⟨_, h2, h3⟩ := hc c rfl
        have hgo : goBlocks mem (k :: t) (some c) = c :: goBlocks mem t none := by
          simp only [goBlocks, hm', Bool.false_eq_true, if_false]
        rw [hgo]
        cases hg : goBlocks mem t none with
        | nil => trivial
        | cons d rest =>
          refine ⟨⟨k, List.mem_cons_self, hm', ?_, ?_⟩, ?_⟩
          · apply lt_of_le'_ne (h3 k List.mem_cons_self)
            intro e
            have := hmem c.2 k e
            rw [h2, hm'] at this; cases this
          · obtain ⟨_, _, sh⟩ := go_spec mem hmem t none hst (fun c e => by cases e)
            have sh' : ∀ b ∈ goBlocks mem t none, b.1 ∈ t ∧ mem b.1 = true ∧ b.2 ∈ t := sh
            obtain ⟨a1, a2, _⟩ := sh' d (by rw [hg]; exact List.mem_cons_self)
            apply lt_of_le'_ne (hkt d.1 a1)
            intro e
            have := hmem k d.1 e
            rw [hm', a2] at this; cases this
          · rw [← hg]; exact sepBy_mono hsub _ ih

/-! ### uniqueness of the canonical block list -/

/-- two blocks with equal ends -/
def blockEquiv (cmp : V → V → Ordering) (b b' : V × V) : Prop :=
  cmp b.1 b'.1 = .eq ∧ cmp b.2 b'.2 = .eq

/-- same length, pairwise equal ends -/
def blocksEquiv (cmp : V → V → Ordering) : List (V × V) → List (V × V) → Prop
  | [], [] => True
  | b :: t, b' :: t' => blockEquiv cmp b b' ∧ blocksEquiv cmp t t'
  | _, _ => False

/-- a block list is canonical for the known versions `K`, the membership `mem`, above the threshold `P` -/
structure Canon (cmp : V → V → Ordering) (K : V → Prop) (mem : V → Bool) (P : V → Prop)
    (bs : List (V × V)) : Prop where
  sorted : blocksSorted cmp bs
  ends : ∀ b ∈ bs, K b.1 ∧ K b.2 ∧ P b.1
  memb : ∀ k, K k → P k → bs.any (inBlock cmp k) = mem k
  sep : ∀ b c rest pre, bs = pre ++ b :: c :: rest →
    ∃ k, K k ∧ mem k = false ∧ cmp b.2 k = .lt ∧ cmp k c.1 = .lt

theorem blocksSorted_tail {b : V × V} {t : List (V × V)} (h : blocksSorted cmp (b :: t)) :
    blocksSorted cmp t := by
  cases t with
  | nil => trivial
  | cons c r => exact h.2.2

theorem blocksSorted_le {b : V × V} {t : List (V × V)} (h : blocksSorted cmp (b :: t)) :
    le' cmp b.1 b.2 := by
  cases t with
  | nil => exact h
  | cons c r => exact h.1

theorem blocksSorted_mem_le : ∀ {bs : List (V × V)}, blocksSorted cmp bs → ∀ d ∈ bs, le' cmp d.1 d.2
  | [], _, d, hd => by cases hd
  | b :: t, h, d, hd => by
    rcases List.mem_cons.mp hd with rfl | hd
    · exact blocksSorted_le h
    · exact blocksSorted_mem_le (blocksSorted_tail h) d hd

theorem blocksSorted_head_lt [TransCmp cmp] : ∀ {b : V × V} {t : List (V × V)},
    blocksSorted cmp (b :: t) → ∀ d ∈ t, cmp b.2 d.1 = .lt
  | _, [], _, d, hd => by cases hd
  | b, c :: r, h, d, hd => by
    rcases List.mem_cons.mp hd with rfl | hd
    · exact h.2.1
    · have h1 : cmp b.2 c.1 = .lt := h.2.1
      have h2 : le' cmp c.1 c.2 := blocksSorted_le h.2.2
      have h3 := blocksSorted_head_lt (b := c) (t := r) h.2.2 d hd
      have h12 : cmp b.2 c.2 = .lt := TransCmp.lt_of_lt_of_isLE h1 (by
        cases hc : cmp c.1 c.2 <;> simp_all [Ordering.isLE, le'])
      exact TransCmp.lt_trans h12 h3

theorem isLE_of_le' {a b : V} (h : le' cmp a b) : (cmp a b).isLE = true := by
  cases hc : cmp a b <;> simp_all [Ordering.isLE, le']

theorem le'_of_lt {a b : V} (h : cmp a b = .lt) : le' cmp a b := by
  intro e; rw [h] at e; cases e

theorem le'_of_eq {a b : V} (h : cmp a b = .eq) : le' cmp a b := by
  intro e; rw [h] at e; cases e

theorem le'_refl [ReflCmp cmp] (a : V) : le' cmp a a := by
  intro e; rw [ReflCmp.compare_self (cmp := cmp)] at e; cases e

theorem inBlock_iff {x : V} {b : V × V} : inBlock cmp x b = true ↔ le' cmp b.1 x ∧ le' cmp x b.2 := by
  simp [inBlock, le']

theorem eq_of_le'_le' [OrientedCmp cmp] {a b : V} (h1 : le' cmp a b) (h2 : le' cmp b a) : cmp a b = .eq := by
  have hs : cmp b a = (cmp a b).swap := OrientedCmp.eq_swap
  cases hc : cmp a b <;> simp_all [le', Ordering.swap]

/-- the first block of a canonical list starts at (a version equal to) the least known member above
the threshold -/
theorem canon_head_le [TransCmp cmp] {K : V → Prop} {mem : V → Bool} {P : V → Prop}
    {b b' : V × V} {t t' : List (V × V)}
    (h : Canon cmp K mem P (b :: t)) (h' : Canon cmp K mem P (b' :: t')) : le' cmp b'.1 b.1 := by
  obtain ⟨kb1, _, pb1⟩ := h.ends b List.mem_cons_self
  -- b.1 is a member
  have hin : inBlock cmp b.1 b = true :=
    inBlock_iff.mpr ⟨le'_refl _, blocksSorted_le h.sorted⟩
  have hmemb : mem b.1 = true := by
    rw [← h.memb b.1 kb1 pb1, List.any_cons, hin]; rfl
  have := h'.memb b.1 kb1 pb1
  rw [hmemb] at this
  obtain ⟨c, hc, hcin⟩ := List.any_eq_true.mp this
  obtain ⟨hc1, _⟩ := inBlock_iff.mp hcin
  rcases List.mem_cons.mp hc with rfl | hct
  · exact hc1
  · have hlt := blocksSorted_head_lt h'.sorted c hct
    have h1 : le' cmp b'.1 b'.2 := blocksSorted_le h'.sorted
    exact le'_trans (le'_trans h1 (le'_of_lt hlt)) hc1

theorem canon_head_hi_le [TransCmp cmp] {K : V → Prop} {mem : V → Bool} {P : V → Prop}
    (hP : ∀ a b, P a → cmp a b = .lt → P b)
    {b b' : V × V} {t t' : List (V × V)}
    (h : Canon cmp K mem P (b :: t)) (h' : Canon cmp K mem P (b' :: t'))
    (h1 : cmp b.1 b'.1 = .eq) : le' cmp b'.2 b.2 := by
  -- otherwise b.2 < b'.2: the version b'.2 is a known member, so it lies in a later block of (b :: t),
  -- and the separator in front of that block lies inside b'
  intro hgt
  have hlt : cmp b.2 b'.2 = .lt := OrientedCmp.lt_of_gt hgt
  obtain ⟨_, kb2', _⟩ := h'.ends b' List.mem_cons_self
  obtain ⟨_, _, pb1⟩ := h.ends b List.mem_cons_self
  have pb2' : P b'.2 := by
    have hle : le' cmp b.1 b.2 := blocksSorted_le h.sorted
    have : cmp b.1 b'.2 = .lt := TransCmp.lt_of_isLE_of_lt (isLE_of_le' hle) hlt
    exact hP _ _ pb1 this
  have hin' : inBlock cmp b'.2 b' = true :=
    inBlock_iff.mpr ⟨blocksSorted_le h'.sorted, le'_refl _⟩
  have hmemb : mem b'.2 = true := by
    rw [← h'.memb b'.2 kb2' pb2', List.any_cons, hin']; rfl
  have := h.memb b'.2 kb2' pb2'
  rw [hmemb] at this
  obtain ⟨c, hc, hcin⟩ := List.any_eq_true.mp this
  obtain ⟨hc1, _⟩ := inBlock_iff.mp hcin
  rcases List.mem_cons.mp hc with rfl | hct
  · -- b'.2 ≤ b.2 contradicts b.2 < b'.2
    have := (inBlock_iff.mp hcin).2
    exact this hgt
  · -- c is a later block: take the separator after b
    cases t with
    | nil => cases hct
    | cons d r =>
      obtain ⟨k, kk, mk, hk1, hk2⟩ := h.sep b d r [] rfl
      -- d.1 ≤ c.1
      have hdc : le' cmp d.1 c.1 := by
        rcases List.mem_cons.mp hct with rfl | hcr
        · exact le'_refl _
        · have := blocksSorted_head_lt (blocksSorted_tail h.sorted) c hcr
          exact le'_trans (blocksSorted_le (blocksSorted_tail h.sorted)) (le'_of_lt this)
      -- k lies inside b'
      have hk_hi : le' cmp k b'.2 :=
        le'_trans (le'_of_lt hk2) (le'_trans hdc hc1)
      have hk_lo : le' cmp b'.1 k := by
        have e : cmp b'.1 b.1 = .eq := OrientedCmp.eq_symm h1
        have : le' cmp b'.1 b.2 := le'_trans (le'_of_eq e) (blocksSorted_le h.sorted)
        exact le'_trans this (le'_of_lt hk1)
      have pk : P k := by
        have : cmp b.1 k = .lt := TransCmp.lt_of_isLE_of_lt (isLE_of_le' (blocksSorted_le h.sorted)) hk1
        exact hP _ _ pb1 this
      have := h'.memb k kk pk
      rw [mk, List.any_cons, inBlock_iff.mpr ⟨hk_lo, hk_hi⟩] at this
      cases this

theorem canon_tail [TransCmp cmp] {K : V → Prop} {mem : V → Bool} {P : V → Prop}
    {b : V × V} {t : List (V × V)} (h : Canon cmp K mem P (b :: t)) (hi : V) (hhi : cmp b.2 hi = .eq) :
    Canon cmp K mem (fun k => P k ∧ cmp hi k = .lt) t := by
  have hcong : ∀ k, cmp hi k = cmp b.2 k := fun k => (TransCmp.congr_left hhi).symm
  refine ⟨blocksSorted_tail h.sorted, ?_, ?_, ?_⟩
  · intro d hd
    obtain ⟨a1, a2, a3⟩ := h.ends d (List.mem_cons_of_mem _ hd)
    exact ⟨a1, a2, a3, by rw [hcong]; exact blocksSorted_head_lt h.sorted d hd⟩
  · intro k kk ⟨pk, hk⟩
    have := h.memb k kk pk
    rw [List.any_cons] at this
    rw [hcong] at hk
    rw [inBlock_false_of_gt_hi hk, Bool.false_or] at this
    exact this
  · intro c d rest pre e
    exact h.sep c d rest (b :: pre) (by rw [e]; rfl)

/-- **uniqueness**: two canonical block lists for the same known versions and membership have the
same length and pairwise equal ends -/
theorem canon_unique [TransCmp cmp] {K : V → Prop} {mem : V → Bool} :
    ∀ (bs bs' : List (V × V)) (P : V → Prop), (∀ a b, P a → cmp a b = .lt → P b) →
      Canon cmp K mem P bs → Canon cmp K mem P bs' → blocksEquiv cmp bs bs'
  | [], [], _, _, _, _ => trivial
  | [], b' :: t', P, _, h, h' => by
    obtain ⟨kb1, _, pb1⟩ := h'.ends b' List.mem_cons_self
    have hin : inBlock cmp b'.1 b' = true :=
      inBlock_iff.mpr ⟨le'_refl _, blocksSorted_le h'.sorted⟩
    have h1 := h'.memb b'.1 kb1 pb1
    rw [List.any_cons, hin] at h1
    have h2 := h.memb b'.1 kb1 pb1
    rw [← h1] at h2; cases h2
  | b :: t, [], P, _, h, h' => by
    obtain ⟨kb1, _, pb1⟩ := h.ends b List.mem_cons_self
    have hin : inBlock cmp b.1 b = true :=
      inBlock_iff.mpr ⟨le'_refl _, blocksSorted_le h.sorted⟩
    have h1 := h.memb b.1 kb1 pb1
    rw [List.any_cons, hin] at h1
    have h2 := h'.memb b.1 kb1 pb1
    rw [← h1] at h2; cases h2
  | b :: t, b' :: t', P, hP, h, h' => by
    have e1 : cmp b.1 b'.1 = .eq := eq_of_le'_le' (canon_head_le h' h) (canon_head_le h h')
    have e2 : cmp b.2 b'.2 = .eq :=
      eq_of_le'_le' (canon_head_hi_le hP h' h (OrientedCmp.eq_symm e1)) (canon_head_hi_le hP h h' e1)
    refine ⟨⟨e1, e2⟩, ?_⟩
    have ht := canon_tail h b.2 ReflCmp.compare_self
    have ht' := canon_tail h' b.2 (OrientedCmp.eq_symm e2)
    refine canon_unique t t' _ ?_ ht ht'
    intro a c ⟨pa, ha⟩ hac
    exact ⟨hP a c pa hac, TransCmp.lt_trans ha hac⟩

end Univers
