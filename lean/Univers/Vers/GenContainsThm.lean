/-
Agreement theorem for `contains_version`: the function that `harness/translate_layerb.py` GENERATES from the
Python source of `univers/version_constraint.py` on every run (`Univers/Gen/PyContainsVersion.lean`) is the
hand-written model function `containsVersion` of `Univers/Vers/Model.lean` that the theorems of C04 are about.

If the Python is edited so that it computes something else, the generated definition changes and this
theorem stops checking: the property theorems then no longer speak about what the code says now.
-/
import Univers.Gen.PyContainsVersion
import Univers.Vers.PyRtLemmas

namespace Univers.Gen.LayerB
open Univers Univers.PyRt

variable {V : Type} (o : VOps V) (perm : List (Con V) → List (Con V))

@[simp] theorem cv_tab1 (c : Con V) : contains_version_tab1 (comparator c) = c.hasNeSub := by
  cases c with
  | star => rfl
  | mk k v => cases k <;> rfl

@[simp] theorem cv_tab2 (c : Con V) : contains_version_tab2 (comparator c) = c.hasEqChar := by
  cases c with
  | star => rfl
  | mk k v => cases k <;> rfl

theorem cv_tab1_isNe (c : Con V) : contains_version_tab1 (comparator c) = c.isNe := by
  cases c with
  | star => rfl
  | mk k v => cases k <;> rfl

@[simp] theorem cv_tab3 (c : Con V) : contains_version_tab3 (comparator c) = !(c.isEq || c.isNe) := by
  cases c with
  | star => rfl
  | mk k v => cases k <;> rfl

@[simp] theorem cv_tab4 (c : Con V) : contains_version_tab4 (comparator c) = c.isUpper :=
  isUpper_tab _ (by decide) c

@[simp] theorem cv_tab5 (c : Con V) : contains_version_tab5 (comparator c) = c.isLower :=
  isLower_tab _ (by decide) c

/-! ### `contains_version` -/

theorem con_contains_eq (c : Con V) (x : V) : con_contains o perm c x = .ok (c.sat o x) := rfl

theorem for3_after_eq (x : V) (cs : List (Con V)) (u : Bool) (c : Con V) (cc : CmpVal) (ccon : Option (Con V))
    (first : Bool) :
    contains_version_for3_after o perm x cs u (ccon, some c, cc, comparator c, first) = scanLoop o x first [c] := by
  cases c with
  | star => simp [contains_version_for3_after, scanLoop, comparator, contains_version_tab5, bind, Except.bind]
  | mk k v =>
    cases k <;> cases h : o.gt x v <;>
      simp [contains_version_for3_after, scanLoop, comparator, contains_version_tab5, bind, Except.bind, versionOpt,
        PyRt.version, gtOpt, Cmpr.isLower, h]

/-- one round of the loop body, as the model's `scanLoop` reads it -/
theorem for3_body_eq (x : V) (cs : List (Con V)) (u : Bool) (b c : Con V) (first : Bool) (cc nc : CmpVal)
    (ccon ncon : Option (Con V)) :
    contains_version_for3_body o perm x cs u (b, c) (ccon, ncon, cc, nc, first) =
      (match b, c with
       | .mk k v, .mk d w =>
          if first && (k.isUpper && o.lt x v) then .ok (.ret true)
          else if k.isLower && d.isUpper then
            if o.gt x v && o.lt x w then .ok (.ret true)
            else .ok (.next (some b, some c, comparator b, comparator c, false))
          else if k.isUpper && d.isLower then .ok (.next (some b, some c, comparator b, comparator c, false))
          else .error .InvalidConstraintsError
       | .mk k v, .star =>
          if first && (k.isUpper && o.lt x v) then .ok (.ret true) else .error .InvalidConstraintsError
       | .star, _ => .error .InvalidConstraintsError) := by
  cases b with
  | star =>
    cases c with
    | star =>
      cases first <;>
        simp [contains_version_for3_body, comparatorOpt, comparator, contains_version_tab4, contains_version_tab5, bind,
          Except.bind]
    | mk d w =>
      cases d <;> cases first <;>
        simp [contains_version_for3_body, comparatorOpt, comparator, contains_version_tab4, contains_version_tab5, bind,
          Except.bind]
  | mk k v =>
    cases c with
    | star =>
      cases k <;> cases first <;> cases h : o.lt x v <;>
        simp [contains_version_for3_body, comparatorOpt, comparator, contains_version_tab4, contains_version_tab5, bind,
          Except.bind, versionOpt, PyRt.version, ltOpt, gtOpt, Cmpr.isUpper, Cmpr.isLower, h]
    | mk d w =>
      cases k <;> cases d <;> cases first <;> cases h : o.lt x v <;> cases h2 : o.gt x v <;> cases h3 : o.lt x w <;>
        simp [contains_version_for3_body, comparatorOpt, comparator, contains_version_tab4, contains_version_tab5, bind,
          Except.bind, versionOpt, PyRt.version, ltOpt, gtOpt, Cmpr.isUpper, Cmpr.isLower, h, h2, h3]

/-- the `pairwise` loop with the statement after it is the model's `scanLoop` -/
theorem for3_eq (x : V) (cs : List (Con V)) (u : Bool) (b c : Con V) (rest : List (Con V)) (first : Bool)
    (cc nc : CmpVal) (ccon ncon : Option (Con V)) :
    pyFor (PyRt.pairwise (b :: c :: rest)) (ccon, ncon, cc, nc, first) (contains_version_for3_body o perm x cs u)
        (contains_version_for3_after o perm x cs u)
      = scanLoop o x first (b :: c :: rest) := by
  induction rest generalizing b c first cc nc ccon ncon with
  | nil =>
    simp only [PyRt.pairwise, Univers.pairwise, pyFor_cons, pyFor_nil, for3_body_eq]
    cases b with
    | star => cases c <;> simp [scanLoop]
    | mk k v =>
      cases c with
      | star => simp [scanLoop]
      | mk d w => simp [scanLoop, for3_after_eq]
  | cons d rest ih =>
    have hp : PyRt.pairwise (b :: c :: d :: rest) = (b, c) :: PyRt.pairwise (c :: d :: rest) := rfl
    rw [hp]
    simp only [pyFor_cons, for3_body_eq]
    cases b with
    | star => cases c <;> simp [scanLoop]
    | mk k v =>
      cases c with
      | star => simp [scanLoop]
      | mk e w => simp [scanLoop, ih]

theorem for1_eq (x : V) (cs : List (Con V)) (k : Unit → Except Err Bool) :
    pyFor cs () (contains_version_for1_body o perm x cs) k
      = if cs.any (fun c => c.hasNeSub && c.verEq o x) then .ok false else k () := by
  have : contains_version_for1_body o perm x cs =
      fun c st => if (fun c => Con.hasNeSub c && Con.verEq o x c) c then .ok (.ret false) else .ok (.next st) := by
    funext c st
    simp [contains_version_for1_body]
  rw [this, pyFor_ret_any]

theorem for2_eq (x : V) (cs : List (Con V)) (k : Unit → Except Err Bool) :
    pyFor cs () (contains_version_for2_body o perm x cs) k
      = if cs.any (fun c => c.hasEqChar && c.verEq o x) then .ok true else k () := by
  have : contains_version_for2_body o perm x cs =
      fun c st => if (fun c => Con.hasEqChar c && Con.verEq o x c) c then .ok (.ret true) else .ok (.next st) := by
    funext c st
    simp [contains_version_for2_body]
  rw [this, pyFor_ret_any]

/-- the end of the function, on the filtered list -/
theorem for2_after_eq (x : V) (cs : List (Con V)) :
    contains_version_for2_after o perm x cs () = containsBounds o x cs (cs.filter (fun c => !(c.isEq || c.isNe))) := by
  have hf : cs.filter (fun c => contains_version_tab3 (comparator c)) = cs.filter (fun c => !(c.isEq || c.isNe)) := by
    apply List.filter_congr; intro c _; simp
  have ha : cs.all (fun c => contains_version_tab1 (comparator c)) = cs.all (fun c => c.isNe) := by
    congr 1; funext c; exact cv_tab1_isNe c
  simp only [contains_version_for2_after, hf, ha]
  generalize cs.filter (fun c => !(c.isEq || c.isNe)) = bs
  match bs with
  | [] => simp [containsBounds, truthy]
  | [c] => simp [containsBounds, truthy, index, con_contains_eq, bind, Except.bind]
  | b :: c :: rest =>
    simp only [containsBounds, truthy, List.isEmpty_cons, Bool.not_false, Bool.not_true, Bool.false_eq_true, ↓reduceIte,
      List.length_cons]
    have : ¬ (rest.length + 1 + 1 = 1) := by omega
    simp only [this, decide_false, Bool.false_eq_true, ↓reduceIte]
    exact for3_eq o perm x _ _ b c rest true _ _ _ _

/-- **`contains_version` as translated from the source is the model's `containsVersion`.** -/
theorem contains_version_eq (x : V) (cs : List (Con V)) :
    contains_version o perm x cs = containsVersion o x cs := by
  unfold contains_version containsVersion
  match cs with
  | [c] => simp [index, con_contains_eq, bind, Except.bind]
  | [] =>
    simp [containsMulti, contains_version_for1_after, for2_eq, for2_after_eq]
  | a :: b :: rest =>
    have : ¬ ((a :: b :: rest).length = 1) := by simp
    simp only [this, decide_false, Bool.false_eq_true, ↓reduceIte]
    rw [for1_eq]
    simp only [containsMulti, contains_version_for1_after, for2_eq, for2_after_eq]

end Univers.Gen.LayerB
