import Univers.Vers.PyRt
namespace Univers.GenP
open Univers Univers.PyRt

def tab1 : CmpVal → Bool | .of .ne => true | _ => false
def tab2 : CmpVal → Bool | .of .ne => true | .of .ge => true | .of .le => true | .of .eq => true | _ => false
def tab3 : CmpVal → Bool | .of .ne => true | _ => false
def tab4 : CmpVal → Bool | .of .ne => false | .of .eq => false | _ => true
def tabUp : CmpVal → Bool | .of .lt => true | .of .le => true | _ => false
def tabLo : CmpVal → Bool | .of .gt => true | .of .ge => true | _ => false

def conContains {V} (o : VOps V) (self : Con V) (version : V) : Except Err Bool :=
  .ok (self.sat o version)

def cv_body3 {V} (o : VOps V) (version : V) (item : Con V × Con V) (st : CmpVal × CmpVal × Option (Con V) × Option (Con V) × Bool) : Except Err (Step (CmpVal × CmpVal × Option (Con V) × Option (Con V) × Bool) Bool) :=
      let (cur_comp, nxt_comp, cur_constraint, nxt_constraint, first_iteration) := st
      let cur_constraint := some item.1
      let nxt_constraint := some item.2
      (comparatorOpt cur_constraint) >>= fun cur_comp =>
      (comparatorOpt nxt_constraint) >>= fun nxt_comp =>
      if first_iteration then
        (if tabUp cur_comp then (versionOpt cur_constraint >>= fun t => ltOpt o version t) else .ok false) >>= fun c1 =>
        if c1 then .ok (.ret true)
        else
          let first_iteration := false
          (if tabLo cur_comp && tabUp nxt_comp then
        ((versionOpt cur_constraint >>= fun t => gtOpt o version t) >>= fun a =>
          if a then (versionOpt nxt_constraint >>= fun t => ltOpt o version t) else .ok false) >>= fun c2 =>
        if c2 then .ok (.ret true)
        else .ok (.next (cur_comp, nxt_comp, cur_constraint, nxt_constraint, first_iteration))
      else if tabUp cur_comp && tabLo nxt_comp then
        .ok (.next (cur_comp, nxt_comp, cur_constraint, nxt_constraint, first_iteration))
      else .error .InvalidConstraintsError)
      else
        (if tabLo cur_comp && tabUp nxt_comp then
        ((versionOpt cur_constraint >>= fun t => gtOpt o version t) >>= fun a =>
          if a then (versionOpt nxt_constraint >>= fun t => ltOpt o version t) else .ok false) >>= fun c2 =>
        if c2 then .ok (.ret true)
        else .ok (.next (cur_comp, nxt_comp, cur_constraint, nxt_constraint, first_iteration))
      else if tabUp cur_comp && tabLo nxt_comp then
        .ok (.next (cur_comp, nxt_comp, cur_constraint, nxt_constraint, first_iteration))
      else .error .InvalidConstraintsError)

def cv_after3 {V} (o : VOps V) (version : V) (st : CmpVal × CmpVal × Option (Con V) × Option (Con V) × Bool) : Except Err Bool :=
      let (cur_comp, nxt_comp, cur_constraint, nxt_constraint, first_iteration) := st
      (if tabLo nxt_comp then (versionOpt nxt_constraint >>= fun t => gtOpt o version t) else .ok false) >>= fun c3 =>
      if c3 then .ok true else .ok false


def contains_version {V} (o : VOps V) (version : V) (constraints : List (Con V)) : Except Err Bool :=
  if constraints.length == 1 then
    (index constraints 0) >>= fun t1 => conContains o t1 version
  else
  pyFor constraints () (fun constraint st =>
    if tab1 (comparator constraint) && eqOpt o version (PyRt.version constraint) then .ok (.ret false)
    else .ok (.next st)) fun _ =>
  pyFor constraints () (fun constraint st =>
    if tab2 (comparator constraint) && eqOpt o version (PyRt.version constraint) then .ok (.ret true)
    else .ok (.next st)) fun _ =>
  let unequal_only := truthy constraints && constraints.all (fun c => tab3 (comparator c))
  let constraints := constraints.filter (fun c => tab4 (comparator c))
  if !(truthy constraints) then .ok unequal_only else
  if constraints.length == 1 then
    (index constraints 0) >>= fun t1 => conContains o t1 version
  else
  let cur_comp := CmpVal.pyNone
  let nxt_comp := CmpVal.pyNone
  let cur_constraint : Option (Con V) := none
  let nxt_constraint : Option (Con V) := none
  let first_iteration := true
  pyFor (PyRt.pairwise constraints) (cur_comp, nxt_comp, cur_constraint, nxt_constraint, first_iteration) (cv_body3 o version) (cv_after3 o version)

end Univers.GenP

namespace Univers.GenP
open Univers Univers.PyRt

variable {V : Type} (o : VOps V)

theorem tabUp_eq (c : Con V) : tabUp (comparator c) = c.isUpper := by
  cases c with
  | star => rfl
  | mk k v => cases k <;> rfl

theorem tabLo_eq (c : Con V) : tabLo (comparator c) = c.isLower := by
  cases c with
  | star => rfl
  | mk k v => cases k <;> rfl



theorem cv_after3_eq (x : V) (c : Con V) (cc : CmpVal) (ccon : Option (Con V)) (first : Bool) :
    cv_after3 o x (cc, comparator c, ccon, some c, first) = scanLoop o x first [c] := by
  cases c with
  | star => simp [cv_after3, scanLoop, comparator, tabLo, bind, Except.bind]
  | mk k v =>
    cases k <;> cases h : o.gt x v <;>
      simp [cv_after3, scanLoop, comparator, tabLo, bind, Except.bind, versionOpt, PyRt.version, gtOpt,
        Cmpr.isLower, h]

/-- one round of the loop body, as the model's `scanLoop` reads it -/
theorem cv_body3_eq (x : V) (b c : Con V) (first : Bool) (cc nc : CmpVal) (ccon ncon : Option (Con V)) :
    cv_body3 o x (b, c) (cc, nc, ccon, ncon, first) =
      (match b, c with
       | .mk k v, .mk d w =>
          if first && (k.isUpper && o.lt x v) then .ok (.ret true)
          else if k.isLower && d.isUpper then
            if o.gt x v && o.lt x w then .ok (.ret true)
            else .ok (.next (comparator b, comparator c, some b, some c, false))
          else if k.isUpper && d.isLower then .ok (.next (comparator b, comparator c, some b, some c, false))
          else .error .InvalidConstraintsError
       | .mk k v, .star =>
          if first && (k.isUpper && o.lt x v) then .ok (.ret true) else .error .InvalidConstraintsError
       | .star, _ => .error .InvalidConstraintsError) := by
  cases b with
  | star =>
    cases c with
    | star => cases first <;> simp [cv_body3, comparatorOpt, comparator, tabUp, tabLo, bind, Except.bind]
    | mk d w => cases d <;> cases first <;> simp [cv_body3, comparatorOpt, comparator, tabUp, tabLo, bind, Except.bind]
  | mk k v =>
    cases c with
    | star =>
      cases k <;> cases first <;> cases h : o.lt x v <;>
        simp [cv_body3, comparatorOpt, comparator, tabUp, tabLo, bind, Except.bind, versionOpt,
          PyRt.version, ltOpt, gtOpt, Cmpr.isUpper, Cmpr.isLower, h]
    | mk d w =>
      cases k <;> cases d <;> cases first <;> cases h : o.lt x v <;> cases h2 : o.gt x v <;> cases h3 : o.lt x w <;>
        simp [cv_body3, comparatorOpt, comparator, tabUp, tabLo, bind, Except.bind, versionOpt,
          PyRt.version, ltOpt, gtOpt, Cmpr.isUpper, Cmpr.isLower, h, h2, h3]

theorem scan_eq (x : V) (b c : Con V) (rest : List (Con V)) (first : Bool)
    (cc nc : CmpVal) (ccon ncon : Option (Con V)) :
    pyFor (PyRt.pairwise (b :: c :: rest)) (cc, nc, ccon, ncon, first) (cv_body3 o x) (cv_after3 o x)
      = scanLoop o x first (b :: c :: rest) := by
  induction rest generalizing b c first cc nc ccon ncon with
  | nil =>
    simp only [PyRt.pairwise, Univers.pairwise, pyFor_cons, pyFor_nil, cv_body3_eq]
    cases b with
    | star => cases c <;> simp [scanLoop]
    | mk k v =>
      cases c with
      | star => simp [scanLoop]
      | mk d w => simp [scanLoop, cv_after3_eq]
  | cons d rest ih =>
    have hp : PyRt.pairwise (b :: c :: d :: rest) = (b, c) :: PyRt.pairwise (c :: d :: rest) := rfl
    rw [hp]
    simp only [pyFor_cons, cv_body3_eq]
    cases b with
    | star => cases c <;> simp [scanLoop]
    | mk k v =>
      cases c with
      | star => simp [scanLoop]
      | mk e w => simp [scanLoop, ih]

end Univers.GenP
