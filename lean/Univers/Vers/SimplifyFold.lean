/-
Helper proofs for C08, part 2: the invariant of the stack walk of `simplify_constraints`.
-/
import Univers.Vers.SimplifyWalk

namespace Univers

open Std

variable {V : Type} {cmp : V → V → Ordering}

/-- two neighbours (earlier `a`, later `b`) that the walk would not have left together -/
def okPair (a b : Con V) : Bool :=
  !((a.isEq || a.isUpper) && b.isUpper) && !(a.isLower && (b.isEq || b.isLower))

/-- the stack (top first) contains no redundant neighbours -/
def redStack : List (Con V) → Bool
  | t :: s :: rest => okPair s t && redStack (s :: rest)
  | _ => true

/-- only "=", and bounds (what is left once "!=" is filtered out of a star-free list) -/
def plain (l : List (Con V)) : Prop := ∀ c ∈ l, (c.isEq || c.isBound) = true

theorem redStack_tail (t : Con V) (st : List (Con V)) (h : redStack (t :: st) = true) :
    redStack st = true := by
  cases st with
  | nil => rfl
  | cons s rest => simp only [redStack, Bool.and_eq_true] at h; exact h.2

theorem redStack_dropWhile (q : Con V → Bool) : ∀ (st : List (Con V)), redStack st = true →
    redStack (st.dropWhile q) = true
  | [], _ => rfl
  | t :: st, h => by
    simp only [List.dropWhile_cons]
    split
    · exact redStack_dropWhile q st (redStack_tail t st h)
    · exact h

/-- the invariant of the walk after the prefix `P` with stack `st` -/
structure WalkInv (cmp : V → V → Ordering) (st P : List (Con V)) : Prop where
  sub : st.reverse.Sublist P
  ctx : ∀ S, StrictSorted cmp (P ++ S) → ∀ x p, mw cmp x p (st.reverse ++ S) = mw cmp x p (P ++ S)
  red : redStack st = true

theorem walkInv_nil : WalkInv cmp ([] : List (Con V)) [] :=
  ⟨List.Sublist.refl _, fun _ _ _ _ => rfl, rfl⟩

theorem strictSorted_sublist {l₁ l₂ : List (Con V)} (h : l₁.Sublist l₂) (hs : StrictSorted cmp l₂) :
    StrictSorted cmp l₁ := List.Pairwise.sublist h hs

theorem walkInv_step [TransCmp cmp] (st P : List (Con V)) (c : Con V) (hinv : WalkInv cmp st P)
    (hpl : (c.isEq || c.isBound) = true) (hplst : plain st) :
    WalkInv cmp (simpStep st c) (P ++ [c]) := by
  have hctx' : ∀ S, StrictSorted cmp ((P ++ [c]) ++ S) → ∀ x p,
      mw cmp x p (st.reverse ++ c :: S) = mw cmp x p ((P ++ [c]) ++ S) := by
    intro S hs x p
    have hs' : StrictSorted cmp (P ++ c :: S) := by simpa using hs
    have := hinv.ctx (c :: S) hs' x p
    simpa using this
  have hsortK : ∀ S, StrictSorted cmp ((P ++ [c]) ++ S) → StrictSorted cmp (st.reverse ++ c :: S) := by
    intro S hs
    have hs' : StrictSorted cmp (P ++ c :: S) := by simpa using hs
    exact strictSorted_sublist (List.Sublist.append hinv.sub (List.Sublist.refl _)) hs'
  unfold simpStep
  by_cases hu : c.isUpper = true
  · -- an upper bound: pop the "=", "<", "<=" on top, push
    simp only [hu, if_true]
    obtain ⟨kc, vc, rfl⟩ : ∃ k v, c = .mk k v := by
      cases c with
      | star => simp [Con.isUpper] at hu
      | mk k v => exact ⟨k, v, rfl⟩
    have hku : kc.isUpper = true := hu
    have hsplit : st = st.takeWhile (fun p => p.isEq || p.isUpper) ++ st.dropWhile (fun p => p.isEq || p.isUpper) :=
      (List.takeWhile_append_dropWhile).symm
    have hD : dropRun (st.takeWhile (fun p => p.isEq || p.isUpper)).reverse := by
      intro d hd
      have hall := List.all_eq_true.mp (List.all_takeWhile (l := st) (p := fun p => p.isEq || p.isUpper)) d
        (List.mem_reverse.mp hd)
      exact hall
    have hrev : st.reverse = (st.dropWhile (fun p => p.isEq || p.isUpper)).reverse ++
        (st.takeWhile (fun p => p.isEq || p.isUpper)).reverse := by
      conv => lhs; rw [hsplit]
      rw [List.reverse_append]
    refine ⟨?_, ?_, ?_⟩
    · -- sublist
      simp only [List.reverse_cons]
      apply List.Sublist.append _ (List.Sublist.refl _)
      refine List.Sublist.trans ?_ hinv.sub
      rw [hrev]
      exact List.sublist_append_left _ _
    · intro S hs x p
      rw [← hctx' S hs x p]
      simp only [List.reverse_cons, List.append_assoc, List.singleton_append]
      rw [hrev, List.append_assoc]
      apply mw_prefix_congr
      intro q
      have hsD : StrictSorted cmp ((st.takeWhile (fun p => p.isEq || p.isUpper)).reverse ++ .mk kc vc :: S) := by
        have := hsortK S hs
        rw [hrev, List.append_assoc] at this
        exact strictSorted_sublist (List.sublist_append_right _ _) this
      exact (mw_drop_before_upper x kc vc hku S _ hD hsD q).symm
    · -- reduced
      have hrd := redStack_dropWhile (fun p => p.isEq || p.isUpper) st hinv.red
      cases hdw : st.dropWhile (fun p => p.isEq || p.isUpper) with
      | nil => rfl
      | cons h rest =>
        rw [hdw] at hrd
        have hq : (h.isEq || h.isUpper) = false := by
          have := List.head?_dropWhile_not (fun p : Con V => p.isEq || p.isUpper) st
          rw [hdw] at this
          simpa using this
        simp only [redStack, Bool.and_eq_true]
        refine ⟨?_, hrd⟩
        have hcl : (Con.mk kc vc).isLower = false := by
          revert hku; cases kc <;> simp [Con.isLower, Cmpr.isUpper, Cmpr.isLower]
        have hce : (Con.mk kc vc).isEq = false := by
          revert hku; cases kc <;> simp [Con.isEq, Cmpr.isUpper]
        simp [okPair, hq, hcl, hce]
  · have hu' : c.isUpper = false := by cases h : c.isUpper <;> simp_all
    simp only [hu', Bool.false_eq_true, if_false]
    by_cases hdrop : ((c.isEq || c.isLower) && topIsLower st) = true
    · -- dropped: the top of the stack is a lower bound
      simp only [hdrop, if_true]
      simp only [Bool.and_eq_true] at hdrop
      obtain ⟨hcel, htop⟩ := hdrop
      obtain ⟨l, st', rfl, hl⟩ : ∃ l st', st = l :: st' ∧ l.isLower = true := by
        cases st with
        | nil => simp [topIsLower] at htop
        | cons l st' => exact ⟨l, st', rfl, htop⟩
      obtain ⟨kl, u, rfl⟩ : ∃ k v, l = .mk k v := by
        cases l with
        | star => simp [Con.isLower] at hl
        | mk k v => exact ⟨k, v, rfl⟩
      refine ⟨?_, ?_, hinv.red⟩
      · exact List.Sublist.trans hinv.sub (List.sublist_append_left _ _)
      · intro S hs x p
        rw [← hctx' S hs x p]
        simp only [List.reverse_cons, List.append_assoc, List.singleton_append]
        apply mw_prefix_congr
        intro q
        have hsK := hsortK S hs
        simp only [List.reverse_cons, List.append_assoc, List.singleton_append] at hsK
        have hs2 : StrictSorted cmp (.mk kl u :: c :: S) :=
          strictSorted_sublist (List.sublist_append_right _ _) hsK
        exact mw_drop_after_lower x kl u hl c hcel S hs2 q
    · -- pushed
      have hdrop' : ((c.isEq || c.isLower) && topIsLower st) = false := by
        cases h : ((c.isEq || c.isLower) && topIsLower st) <;> simp_all
      simp only [hdrop', Bool.false_eq_true, if_false]
      refine ⟨?_, ?_, ?_⟩
      · simp only [List.reverse_cons]
        exact List.Sublist.append hinv.sub (List.Sublist.refl _)
      · intro S hs x p
        rw [← hctx' S hs x p]
        simp
      · cases st with
        | nil => rfl
        | cons t rest =>
          simp only [redStack, Bool.and_eq_true]
          refine ⟨?_, hinv.red⟩
          simp only [Bool.and_eq_false_iff] at hdrop'
          simp only [okPair, hu', Bool.and_false, Bool.not_false, Bool.true_and]
          rcases hdrop' with h | h
          · simp [h]
          · have : t.isLower = false := h
            simp [this]

theorem plain_simpStep (st : List (Con V)) (c : Con V) (hst : plain st)
    (hc : (c.isEq || c.isBound) = true) : plain (simpStep st c) := by
  unfold simpStep
  split
  · intro d hd
    simp only [List.mem_cons] at hd
    rcases hd with rfl | hd
    · exact hc
    · exact hst d (List.dropWhile_subset _ hd)
  · split
    · exact hst
    · intro d hd
      simp only [List.mem_cons] at hd
      rcases hd with rfl | hd
      · exact hc
      · exact hst d hd

/-- the invariant after the whole walk -/
theorem walkInv_foldl [TransCmp cmp] : ∀ (R : List (Con V)) (st P : List (Con V)),
    WalkInv cmp st P → plain st → plain R → WalkInv cmp (R.foldl simpStep st) (P ++ R)
  | [], st, P, h, _, _ => by simpa using h
  | c :: R, st, P, h, hst, hR => by
    have hc := hR c List.mem_cons_self
    have hstep := walkInv_step st P c h hc hst
    have := walkInv_foldl R (simpStep st c) (P ++ [c]) hstep (plain_simpStep st c hst hc)
      (fun d hd => hR d (List.mem_cons_of_mem _ hd))
    simpa using this

/-- what `simplify_constraints` keeps of the constraints that are not "!=" -/
def simpKept (rest : List (Con V)) : List (Con V) := (rest.foldl simpStep []).reverse

theorem simpKept_spec [TransCmp cmp] (rest : List (Con V)) (hpl : plain rest)
    (hs : StrictSorted cmp rest) :
    (simpKept rest).Sublist rest ∧ (∀ x p, mw cmp x p (simpKept rest) = mw cmp x p rest) ∧
    redStack (rest.foldl simpStep []) = true := by
  have h := walkInv_foldl (cmp := cmp) rest [] [] walkInv_nil (fun _ h => by cases h) hpl
  simp only [List.nil_append] at h
  refine ⟨h.sub, ?_, h.red⟩
  intro x p
  have := h.ctx [] (by simpa using hs) x p
  simpa [simpKept] using this

end Univers
