/-
Helper proofs for C09: the inverse of a well-formed, non-vacuous range is well-formed.
-/
import Univers.Vers.InvertThm

namespace Univers

open Std

variable {V : Type} {o : VOps V} {cmp : V → V → Ordering}

/-- a violated adjacency rule on a filtered list, located in the unfiltered list -/
theorem adj_filter_aux {α : Type} (q : α → Bool) (r : α → α → Bool) (x : α) :
    ∀ (l : List α), (pairwise (x :: l.filter q)).all (fun p => r p.1 p.2) = false →
      (∃ mid b post, l = mid ++ b :: post ∧ q b = true ∧ (∀ m ∈ mid, q m = false) ∧ r x b = false) ∨
      (∃ pre a mid b post, l = pre ++ a :: (mid ++ b :: post) ∧ q a = true ∧ q b = true ∧
        (∀ m ∈ mid, q m = false) ∧ r a b = false)
  | [], h => by simp [pairwise] at h
  | c :: t, h => by
    by_cases hq : q c = true
    · simp only [List.filter_cons, hq, if_true, pairwise, List.all_cons, Bool.and_eq_false_iff] at h
      rcases h with h | h
      · exact Or.inl ⟨[], c, t, rfl, hq, by simp, h⟩
      · rcases adj_filter_aux q r c t h with ⟨mid, b, post, e, hb, hm, hr⟩ | ⟨pre, a, mid, b, post, e, ha, hb, hm, hr⟩
        · exact Or.inr ⟨[], c, mid, b, post, by simp [e], hq, hb, hm, hr⟩
        · exact Or.inr ⟨c :: pre, a, mid, b, post, by simp [e], ha, hb, hm, hr⟩
    · have hq' : q c = false := by cases hh : q c <;> simp_all
      simp only [List.filter_cons, hq', Bool.false_eq_true, if_false] at h
      rcases adj_filter_aux q r x t h with ⟨mid, b, post, e, hb, hm, hr⟩ | ⟨pre, a, mid, b, post, e, ha, hb, hm, hr⟩
      · refine Or.inl ⟨c :: mid, b, post, by simp [e], hb, ?_, hr⟩
        intro m hm'
        simp only [List.mem_cons] at hm'
        rcases hm' with rfl | hm'
        · exact hq'
        · exact hm m hm'
      · exact Or.inr ⟨c :: pre, a, mid, b, post, by simp [e], ha, hb, hm, hr⟩

theorem adj_filter_decomp {α : Type} (q : α → Bool) (r : α → α → Bool) :
    ∀ (l : List α), (pairwise (l.filter q)).all (fun p => r p.1 p.2) = false →
      ∃ pre a mid b post, l = pre ++ a :: (mid ++ b :: post) ∧ q a = true ∧ q b = true ∧
        (∀ m ∈ mid, q m = false) ∧ r a b = false
  | [], h => by simp [pairwise] at h
  | c :: t, h => by
    by_cases hq : q c = true
    · simp only [List.filter_cons, hq, if_true] at h
      rcases adj_filter_aux q r c t h with ⟨mid, b, post, e, hb, hm, hr⟩ | ⟨pre, a, mid, b, post, e, ha, hb, hm, hr⟩
      · exact ⟨[], c, mid, b, post, by simp [e], hq, hb, hm, hr⟩
      · exact ⟨c :: pre, a, mid, b, post, by simp [e], ha, hb, hm, hr⟩
    · have hq' : q c = false := by cases hh : q c <;> simp_all
      simp only [List.filter_cons, hq', Bool.false_eq_true, if_false] at h
      obtain ⟨pre, a, mid, b, post, e, ha, hb, hm, hr⟩ := adj_filter_decomp q r t h
      exact ⟨c :: pre, a, mid, b, post, by simp [e], ha, hb, hm, hr⟩

/-- a "!=" followed (ignoring "=") by a lower bound lies outside the intervals -/
theorem ne_before_lower_outside [TransCmp cmp] (pre mid post : List (Con V)) (va : V) (b : Con V)
    (hns : noStar (pre ++ .mk .ne va :: (mid ++ b :: post)) = true)
    (hs : StrictSorted cmp (pre ++ .mk .ne va :: (mid ++ b :: post)))
    (halt : altRule (pre ++ .mk .ne va :: (mid ++ b :: post)) = true)
    (hmid : ∀ m ∈ mid, m.isEq = true) (hb : b.isLower = true) :
    inIntervals cmp va ((pre ++ .mk .ne va :: (mid ++ b :: post)).filter Con.isBound) = false := by
  have hbnd : allBounds ((pre ++ .mk .ne va :: (mid ++ b :: post)).filter Con.isBound) :=
    fun y hy => (List.mem_filter.mp hy).2
  have hsb : StrictSorted cmp ((pre ++ .mk .ne va :: (mid ++ b :: post)).filter Con.isBound) :=
    List.Pairwise.filter _ hs
  have haltb : altB ((pre ++ .mk .ne va :: (mid ++ b :: post)).filter Con.isBound) = true := by
    rw [← altRule_eq_altB]; exact halt
  rw [inIntervals_eq_firstAbove va _ hbnd haltb hsb]
  have hmidB : mid.filter Con.isBound = [] := by
    apply List.filter_eq_nil_iff.mpr
    intro m hm
    have := hmid m hm
    cases m with
    | star => simp [Con.isEq] at this
    | mk k v => cases k <;> simp_all [Con.isEq, Con.isBound, Con.isUpper, Con.isLower, Cmpr.isUpper, Cmpr.isLower]
  have hbB : b.isBound = true := by simp [Con.isBound, hb]
  have hfil : (pre ++ .mk .ne va :: (mid ++ b :: post)).filter Con.isBound
      = pre.filter Con.isBound ++ b :: post.filter Con.isBound := by
    rw [List.filter_append, List.filter_cons_of_neg (by simp [Con.isBound, Con.isUpper, Con.isLower, Cmpr.isUpper, Cmpr.isLower]),
      List.filter_append, hmidB, List.filter_cons_of_pos hbB, List.nil_append]
  rw [hfil]
  -- facts from sortedness
  have hsp := List.pairwise_append.mp hs
  have hpre : ∀ c ∈ pre, cutAbove cmp va c = false := by
    intro c hc
    have := hsp.2.2 c hc (.mk .ne va) List.mem_cons_self
    cases c with
    | star => simp at this
    | mk k v =>
      have hv : cmp v va = .lt := this
      simp [cutAbove, hv]
  have hbcut : cutAbove cmp va b = true := by
    have h2 := (List.pairwise_cons.mp hsp.2.1).1 b (by simp)
    cases b with
    | star => simp at h2
    | mk k v =>
      have hv : cmp va v = .lt := h2
      have : cmp v va = .gt := OrientedCmp.gt_of_lt hv
      simp [cutAbove, this]
  have hfind : (pre.filter Con.isBound ++ b :: post.filter Con.isBound).find? (cutAbove cmp va) = some b := by
    rw [List.find?_append]
    have : (pre.filter Con.isBound).find? (cutAbove cmp va) = none := by
      apply List.find?_eq_none.mpr
      intro c hc
      simp [hpre c (List.mem_filter.mp hc).1]
    simp [this, List.find?_cons, hbcut]
  unfold firstAboveIn
  rw [hfind]
  cases b with
  | star => simp [Con.isLower] at hb
  | mk k v => cases k <;> simp_all [Con.isLower, Con.isUpper, Cmpr.isLower, Cmpr.isUpper]

/-- the "=" rule of the inverse -/
theorem eqRule_map_inv [TransCmp cmp] (cs : List (Con V)) (hns : noStar cs = true)
    (hs : StrictSorted cmp cs) (halt : altRule cs = true) (hnv : NonVacuous cmp cs) :
    eqRule (cs.map Con.inv) = true := by
  cases hr : eqRule (cs.map Con.inv) with
  | true => rfl
  | false =>
    exfalso
    unfold eqRule at hr
    rw [List.filter_map] at hr
    -- move the rule to the original list
    have hpm : ∀ l : List (Con V), pairwise (l.map Con.inv) = (pairwise l).map (fun p => (p.1.inv, p.2.inv)) := by
      intro l
      induction l with
      | nil => rfl
      | cons a t ih =>
        cases t with
        | nil => rfl
        | cons b rest => simp only [List.map_cons, pairwise] at ih ⊢; rw [ih]
    rw [hpm, List.all_map] at hr
    have hr' : (pairwise (cs.filter (fun c => !c.isEq))).all
        (fun p => (fun a b : Con V => !(a.isNe && b.isLower)) p.1 p.2) = false := by
      rw [← hr]
      congr 1
      · congr 1
        apply List.filter_congr
        intro c _
        simp
      · funext p; simp
    obtain ⟨pre, a, mid, b, post, e, ha, hb, hm, hrab⟩ :=
      adj_filter_decomp (fun c : Con V => !c.isEq) (fun a b => !(a.isNe && b.isLower)) cs hr'
    simp only [Bool.not_eq_false', Bool.and_eq_true] at hrab
    cases a with
    | star => simp [Con.isNe] at hrab
    | mk k va =>
      have hk : k = .ne := by
        have := hrab.1
        cases k <;> simp_all [Con.isNe]
      subst hk
      have hmid : ∀ m ∈ mid, m.isEq = true := by
        intro m hm'
        have := hm m hm'
        simpa using this
      subst e
      have hout := ne_before_lower_outside pre mid post va b hns hs halt hmid hrab.2
      rcases hnv with hall | hall
      · -- all "!=": but b is a lower bound
        have := List.all_eq_true.mp hall b (by simp)
        cases b with
        | star => simp [Con.isNe] at this
        | mk k2 v2 => cases k2 <;> simp_all [Con.isNe, Con.isLower, Cmpr.isLower]
      · have := hall (.mk .ne va) (by simp)
        simp only [] at this
        rw [hout] at this
        cases this

/-- C09: the inverse of a well-formed version-sorted non-vacuous star-free list is
well-formed (and already version-sorted) -/
theorem wfSorted_map_inv [TransCmp cmp] (cs : List (Con V)) (hns : noStar cs = true)
    (hs : StrictSorted cmp cs) (halt : altRule cs = true) (hnv : NonVacuous cmp cs) :
    WFSorted cmp (cs.map Con.inv) := by
  refine Or.inr ⟨by rw [noStar_map_inv]; exact hns, strictSorted_map_inv cs hs,
    eqRule_map_inv cs hns hs halt hnv, ?_⟩
  rw [altRule_eq_altB, filter_bound_map_inv,
    altB_map_inv _ (fun y hy => (List.mem_filter.mp hy).2), ← altRule_eq_altB]
  exact halt

/-- `VersionRange.invert()` on a star-free version-sorted list: the constraints inverted in place -/
theorem invertRange_sorted [TransCmp cmp] (h : Lawful o cmp) (cs : List (Con V))
    (hns : noStar cs = true) (hs : StrictSorted cmp cs) :
    invertRange o cs = some (.ok (cs.map Con.inv)) := by
  have hstar : cs.any Con.isStar = false := by
    apply Bool.eq_false_iff.mpr
    intro hh
    obtain ⟨c, hc, hcs⟩ := List.any_eq_true.mp hh
    have := List.all_eq_true.mp hns c hc
    simp [hcs] at this
  have hne : cs ≠ [.star] := by
    intro e; subst e; simp [noStar, Con.isStar] at hns
  have hsort : mkRange o (cs.filterMap Con.invert) = .ok (cs.map Con.inv) := by
    rw [filterMap_invert_noStar cs hns]
    exact sortCons_eq_of_perm h _ _ (List.Perm.refl _) (by rw [noStar_map_inv]; exact hns)
      (strictSorted_map_inv cs hs)
  unfold invertRange
  split
  · exact absurd rfl hne
  · simp [hstar, hsort]

end Univers
