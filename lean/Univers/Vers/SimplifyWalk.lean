/-
Helper proofs for C08, part 1: the meaning of a version-sorted list without "!=" as one
upward walk (`mw`), and the two local rewriting steps of the stack walk of
`simplify_constraints`.
-/
import Univers.Vers.Cuts

namespace Univers

open Std

variable {V : Type} {cmp : V → V → Ordering}

/-- One upward walk over a version-sorted list: an "=" at `x` puts `x` in; the first bound
whose cut lies above `x` decides (`p` = the nearest cut below points upward); "!=" and stars are
transparent. -/
def mw (cmp : V → V → Ordering) (x : V) : Bool → List (Con V) → Bool
  | p, [] => p
  | p, c :: t =>
      if c.isEq then c.at cmp x || mw cmp x p t
      else if c.isBound then
        (if cutAbove cmp x c then p || c.isUpper else mw cmp x c.isLower t)
      else mw cmp x p t

/-- every constraint of the list has a version strictly above `x` -/
def allAbove (cmp : V → V → Ordering) (x : V) (l : List (Con V)) : Prop :=
  ∀ c ∈ l, match c with
    | .mk _ v => cmp v x = .gt
    | .star => False

theorem mw_true_of_allAbove (x : V) : ∀ (l : List (Con V)), allAbove cmp x l → mw cmp x true l = true
  | [], _ => rfl
  | c :: t, h => by
    have hc := h c List.mem_cons_self
    have ht : allAbove cmp x t := fun d hd => h d (List.mem_cons_of_mem _ hd)
    cases c with
    | star => exact absurd hc (by simp)
    | mk k v =>
      have hv : cmp v x = .gt := hc
      have ih := mw_true_of_allAbove x t ht
      by_cases he : (Con.mk k v).isEq = true
      · simp [mw, he, ih]
      · by_cases hb : (Con.mk k v).isBound = true
        · have : cutAbove cmp x (.mk k v) = true := by simp [cutAbove, hv]
          simp [mw, he, hb, this]
        · simp [mw, he, hb, ih]

/-- with every remaining constraint above `x`, the walk from `p` is `p` or decided by the first
bound; in particular from `false` it is the first bound being an upper bound -/
theorem allAbove_of_sorted_tail [TransCmp cmp] (x : V) (k : Cmpr) (v : V) (S : List (Con V))
    (hs : StrictSorted cmp (.mk k v :: S)) (hv : cmp v x = .gt ∨ cmp v x = .eq) :
    allAbove cmp x S := by
  intro c hc
  have := (List.pairwise_cons.mp hs).1 c hc
  cases c with
  | star => simp at this
  | mk k2 w =>
    have hvw : cmp v w = .lt := this
    have hwv : cmp w v = .gt := OrientedCmp.gt_of_lt hvw
    show cmp w x = .gt
    rcases hv with hv | hv
    · exact TransCmp.gt_trans hwv hv
    · exact TransCmp.gt_of_gt_of_eq hwv hv

theorem mw_prefix_congr (x : V) (A B : List (Con V)) (h : ∀ p, mw cmp x p A = mw cmp x p B) :
    ∀ (K : List (Con V)) (p : Bool), mw cmp x p (K ++ A) = mw cmp x p (K ++ B)
  | [], p => h p
  | c :: t, p => by
    simp only [List.cons_append, mw]
    rw [mw_prefix_congr x A B h t p, mw_prefix_congr x A B h t c.isLower]

/-- "!=" constraints and stars are transparent for the walk -/
theorem mw_filter_notNe (x : V) : ∀ (l : List (Con V)) (p : Bool),
    mw cmp x p (l.filter (fun c => !c.isNe)) = mw cmp x p l
  | [], _ => rfl
  | c :: t, p => by
    by_cases hn : c.isNe = true
    · have he : c.isEq = false := by cases c with | star => rfl | mk k v => cases k <;> simp_all [Con.isNe, Con.isEq]
      have hb : c.isBound = false := by
        cases c with | star => rfl | mk k v => cases k <;> simp_all [Con.isNe, Con.isBound, Con.isUpper, Con.isLower, Cmpr.isUpper, Cmpr.isLower]
      simp [List.filter_cons, hn, mw, he, hb, mw_filter_notNe x t p]
    · have hn' : c.isNe = false := by cases h : c.isNe <;> simp_all
      simp only [List.filter_cons, hn', Bool.not_false, if_true, mw]
      rw [mw_filter_notNe x t p, mw_filter_notNe x t c.isLower]

theorem mw_cons_eq (x : V) (p : Bool) (c : Con V) (t : List (Con V)) (he : c.isEq = true) :
    mw cmp x p (c :: t) = (c.at cmp x || mw cmp x p t) := by
  simp [mw, he]

theorem mw_cons_bound (x : V) (p : Bool) (c : Con V) (t : List (Con V)) (he : c.isEq = false)
    (hb : c.isBound = true) :
    mw cmp x p (c :: t) = (if cutAbove cmp x c then p || c.isUpper else mw cmp x c.isLower t) := by
  simp [mw, he, hb]

theorem mw_cons_upper (x : V) (p : Bool) (k : Cmpr) (v : V) (t : List (Con V)) (hk : k.isUpper = true) :
    mw cmp x p (.mk k v :: t) = (if cutAbove cmp x (.mk k v) then true else mw cmp x false t) := by
  have he : (Con.mk k v).isEq = false := by cases k <;> simp_all [Con.isEq, Cmpr.isUpper]
  have hb : (Con.mk k v).isBound = true := by simp [Con.isBound, Con.isUpper, hk]
  have hl : (Con.mk k v).isLower = false := by cases k <;> simp_all [Con.isLower, Cmpr.isUpper, Cmpr.isLower]
  rw [mw_cons_bound x p _ t he hb]
  simp [Con.isUpper, hk, hl]

theorem mw_cons_lower (x : V) (p : Bool) (k : Cmpr) (v : V) (t : List (Con V)) (hk : k.isLower = true) :
    mw cmp x p (.mk k v :: t) = (if cutAbove cmp x (.mk k v) then p else mw cmp x true t) := by
  have he : (Con.mk k v).isEq = false := by cases k <;> simp_all [Con.isEq, Cmpr.isLower]
  have hb : (Con.mk k v).isBound = true := by simp [Con.isBound, Con.isLower, hk]
  have hu : (Con.mk k v).isUpper = false := by cases k <;> simp_all [Con.isUpper, Cmpr.isUpper, Cmpr.isLower]
  rw [mw_cons_bound x p _ t he hb]
  simp [Con.isLower, hk, hu]

/-! ### step 1: an upper bound makes the "=", "<", "<=" just below it redundant -/

/-- the dropped run: only "=", "<", "<=" -/
def dropRun (D : List (Con V)) : Prop := ∀ d ∈ D, (d.isEq || d.isUpper) = true

theorem mw_drop_before_upper [TransCmp cmp] (x : V) (k : Cmpr) (v : V) (hk : k.isUpper = true)
    (S : List (Con V)) :
    ∀ (D : List (Con V)), dropRun D → StrictSorted cmp (D ++ .mk k v :: S) →
      ∀ p, mw cmp x p (D ++ .mk k v :: S) = mw cmp x p (.mk k v :: S)
  | [], _, _, _ => rfl
  | d :: D', hD, hs, p => by
    have hD' : dropRun D' := fun e he => hD e (List.mem_cons_of_mem _ he)
    have hs' : StrictSorted cmp (D' ++ .mk k v :: S) := strictSorted_tail hs
    have ih := mw_drop_before_upper x k v hk S D' hD' hs'
    have hd := hD d List.mem_cons_self
    have hdk : match d with | .mk _ u => cmp u v = .lt | .star => False := by
      have := (List.pairwise_cons.mp hs).1 (.mk k v) (by simp)
      cases d <;> simpa using this
    cases d with
    | star => exact absurd hdk (by simp)
    | mk kd u =>
      have huv : cmp u v = .lt := hdk
      simp only [List.cons_append]
      by_cases he : (Con.mk kd u).isEq = true
      · -- an "=": at x it puts x in; then x < v, so the upper bound does too
        rw [mw_cons_eq x p _ _ he, ih p]
        by_cases hat : (Con.mk kd u).at cmp x = true
        · have hxu : cmp x u = .eq := by simpa [Con.at] using hat
          have hvx : cmp v x = .gt := by
            have hvu : cmp v u = .gt := OrientedCmp.gt_of_lt huv
            exact TransCmp.gt_of_gt_of_eq hvu (OrientedCmp.eq_symm hxu)
          have hca : cutAbove cmp x (.mk k v) = true := by simp [cutAbove, hvx]
          rw [mw_cons_upper x p k v S hk]; simp [hat, hca]
        · simp [hat]
      · have hdu : kd.isUpper = true := by
          have he' : (Con.mk kd u).isEq = false := by cases hh : (Con.mk kd u).isEq <;> simp_all
          have : (Con.mk kd u).isUpper = true := by simpa [he'] using hd
          exact this
        rw [mw_cons_upper x p kd u _ hdu, ih false, mw_cons_upper x p k v S hk, mw_cons_upper x false k v S hk]
        by_cases hca : cutAbove cmp x (.mk kd u) = true
        · -- x below d's cut: also below the cut of the later upper bound
          have hall := cutAbove_mono x (.mk kd u) (D' ++ .mk k v :: S) hs hca (.mk k v) (by simp)
          simp [hca, hall]
        · simp [hca]

/-! ### step 2: after a lower bound, an "=", ">" or ">=" is redundant -/

theorem mw_drop_after_lower [TransCmp cmp] (x : V) (kl : Cmpr) (u : V) (hl : kl.isLower = true)
    (c : Con V) (hc : (c.isEq || c.isLower) = true) (S : List (Con V))
    (hs : StrictSorted cmp (.mk kl u :: c :: S)) (p : Bool) :
    mw cmp x p (.mk kl u :: S) = mw cmp x p (.mk kl u :: c :: S) := by
  rw [mw_cons_lower x p kl u S hl, mw_cons_lower x p kl u (c :: S) hl]
  by_cases hca : cutAbove cmp x (.mk kl u) = true
  · simp [hca]
  · simp only [hca, Bool.false_eq_true, if_false]
    have hcu : match c with | .mk _ w => cmp u w = .lt | .star => False := by
      have := (List.pairwise_cons.mp hs).1 c List.mem_cons_self
      cases c <;> simpa using this
    cases c with
    | star => exact absurd hcu (by simp)
    | mk kc w =>
      have hsc : StrictSorted cmp (.mk kc w :: S) := strictSorted_tail hs
      by_cases he : (Con.mk kc w).isEq = true
      · rw [mw_cons_eq x true _ S he]
        by_cases hat : (Con.mk kc w).at cmp x = true
        · -- x = c: everything in S is above x
          have hxw : cmp x w = .eq := by simpa [Con.at] using hat
          have hwx : cmp w x = .eq := OrientedCmp.eq_symm hxw
          have := mw_true_of_allAbove x S (allAbove_of_sorted_tail x kc w S hsc (Or.inr hwx))
          simp [hat, this]
        · simp [hat]
      · have hcl : kc.isLower = true := by
          have he' : (Con.mk kc w).isEq = false := by cases hh : (Con.mk kc w).isEq <;> simp_all
          have : (Con.mk kc w).isLower = true := by simpa [he'] using hc
          exact this
        rw [mw_cons_lower x true kc w S hcl]
        by_cases hcc : cutAbove cmp x (.mk kc w) = true
        · -- x between the two lower bounds: everything in S is above x
          have hwx : cmp w x = .gt ∨ cmp w x = .eq := by
            simp only [cutAbove, Bool.or_eq_true, Bool.and_eq_true, beq_iff_eq] at hcc
            rcases hcc with h | ⟨h, _⟩
            · exact Or.inl h
            · exact Or.inr h
          have := mw_true_of_allAbove x S (allAbove_of_sorted_tail x kc w S hsc hwx)
          simp [hcc, this]
        · simp [hcc]

end Univers
