/-
Helper proofs for C08, part 4: what `simplify_constraints` returns, and its four properties.
-/
import Univers.Vers.SimplifyMeaning

namespace Univers

open Std

variable {V : Type} {o : VOps V} {cmp : V → V → Ordering}

/-! ### reducedness, in list order -/

def redFwd : List (Con V) → Bool
  | a :: b :: t => okPair a b && redFwd (b :: t)
  | _ => true

theorem redFwd_snoc2 : ∀ (L : List (Con V)) (s t : Con V),
    redFwd (L ++ [s, t]) = (redFwd (L ++ [s]) && okPair s t)
  | [], s, t => by simp [redFwd]
  | [a], s, t => by simp [redFwd, Bool.and_assoc]
  | a :: b :: L, s, t => by
    have ih := redFwd_snoc2 (b :: L) s t
    simp only [List.cons_append, redFwd] at ih ⊢
    rw [ih, Bool.and_assoc]

theorem redStack_eq_redFwd_reverse : ∀ (st : List (Con V)), redStack st = redFwd st.reverse
  | [] => rfl
  | [t] => rfl
  | t :: s :: rest => by
    have ih := redStack_eq_redFwd_reverse (s :: rest)
    simp only [redStack, List.reverse_cons, List.append_assoc, List.singleton_append] at ih ⊢
    rw [redFwd_snoc2, ih, Bool.and_comm]

theorem redFwd_tail (a : Con V) (t : List (Con V)) (h : redFwd (a :: t) = true) : redFwd t = true := by
  cases t with
  | nil => rfl
  | cons b t' => simp only [redFwd, Bool.and_eq_true] at h; exact h.2

theorem redFwd_mid : ∀ (A : List (Con V)) (a c : Con V) (B : List (Con V)),
    redFwd (A ++ a :: c :: B) = true → okPair a c = true
  | [], a, c, B, h => by simp only [List.nil_append, redFwd, Bool.and_eq_true] at h; exact h.1
  | x :: A, a, c, B, h => redFwd_mid A a c B (redFwd_tail x _ h)

/-- on an already reduced list the walk only pushes -/
theorem foldl_simpStep_of_red : ∀ (l st : List (Con V)), redFwd (st.reverse ++ l) = true →
    l.foldl simpStep st = l.reverse ++ st
  | [], st, _ => by simp
  | c :: t, st, h => by
    have hstep : simpStep st c = c :: st := by
      cases st with
      | nil =>
        unfold simpStep
        by_cases hu : c.isUpper = true <;> simp [hu, topIsLower]
      | cons a st' =>
        have hok : okPair a c = true := by
          have : redFwd (st'.reverse ++ a :: c :: t) = true := by simpa using h
          exact redFwd_mid _ a c t this
        simp only [okPair, Bool.and_eq_true, Bool.not_eq_true', Bool.and_eq_false_iff] at hok
        unfold simpStep
        by_cases hu : c.isUpper = true
        · have hq : (a.isEq || a.isUpper) = false := by
            rcases hok.1 with h1 | h1
            · exact h1
            · simp [hu] at h1
          simp [hu, List.dropWhile_cons, hq]
        · have hu' : c.isUpper = false := by cases hh : c.isUpper <;> simp_all
          have : ((c.isEq || c.isLower) && topIsLower (a :: st')) = false := by
            simp only [topIsLower]
            rcases hok.2 with h2 | h2
            · simp [h2]
            · simp [h2]
          simp [hu', this]
    simp only [List.foldl_cons, hstep]
    rw [foldl_simpStep_of_red t (c :: st) (by simpa using h)]
    simp

theorem simpKept_of_red (l : List (Con V)) (h : redFwd l = true) : simpKept l = l := by
  unfold simpKept
  rw [foldl_simpStep_of_red l [] (by simpa using h)]
  simp

theorem redFwd_simpKept [TransCmp cmp] (rest : List (Con V)) (hpl : plain rest)
    (hs : StrictSorted cmp rest) : redFwd (simpKept rest) = true := by
  have := (simpKept_spec rest hpl hs).2.2
  rw [redStack_eq_redFwd_reverse] at this
  exact this

theorem simpKept_short (l : List (Con V)) (h : l.length ≤ 1) : simpKept l = l := by
  match l, h with
  | [], _ => rfl
  | [c], _ =>
    unfold simpKept simpStep
    by_cases hu : c.isUpper = true <;> simp [hu, topIsLower]

/-! ### the two rules of validation on a reduced list -/

theorem eqPairs_of_red : ∀ (l : List (Con V)), redFwd l = true →
    (pairwise l).all (fun p => !(p.1.isEq && p.2.isUpper)) = true
  | [], _ => rfl
  | [_], _ => rfl
  | a :: b :: t, h => by
    simp only [redFwd, Bool.and_eq_true] at h
    have ih := eqPairs_of_red (b :: t) h.2
    simp only [pairwise, List.all_cons, Bool.and_eq_true]
    refine ⟨?_, ih⟩
    have := h.1
    simp only [okPair, Bool.and_eq_true, Bool.not_eq_true', Bool.and_eq_false_iff] at this
    rcases this.1 with h1 | h1
    · have : a.isEq = false := by
        cases ha : a.isEq <;> simp_all
      simp [this]
    · simp [h1]

theorem plain_cases {c : Con V} (h : (c.isEq || c.isBound) = true) :
    (c.isEq = true ∧ c.isBound = false) ∨ (c.isEq = false ∧ c.isUpper = true ∧ c.isLower = false ∧ c.isBound = true) ∨
    (c.isEq = false ∧ c.isUpper = false ∧ c.isLower = true ∧ c.isBound = true) := by
  cases c with
  | star => simp [Con.isEq, Con.isBound, Con.isUpper, Con.isLower] at h
  | mk k v => cases k <;> simp_all [Con.isEq, Con.isBound, Con.isUpper, Con.isLower, Cmpr.isUpper, Cmpr.isLower]

theorem altB_of_red : ∀ (l : List (Con V)), redFwd l = true → plain l →
    altB (l.filter Con.isBound) = true ∧
    (∀ a t, l = a :: t →
      ((a.isEq || a.isUpper) = true → ∀ b rest, t.filter Con.isBound = b :: rest → b.isLower = true) ∧
      (a.isLower = true → ∀ b rest, t.filter Con.isBound = b :: rest → b.isUpper = true))
  | [], _, _ => ⟨rfl, fun _ _ e => by cases e⟩
  | a :: t, hr, hp => by
    have hrt := redFwd_tail a t hr
    have hpt : plain t := fun c hc => hp c (List.mem_cons_of_mem _ hc)
    have ih := altB_of_red t hrt hpt
    have second : ((a.isEq || a.isUpper) = true → ∀ b rest, t.filter Con.isBound = b :: rest → b.isLower = true) ∧
        (a.isLower = true → ∀ b rest, t.filter Con.isBound = b :: rest → b.isUpper = true) := by
      cases t with
      | nil => exact ⟨fun _ _ _ e => by simp at e, fun _ _ _ e => by simp at e⟩
      | cons c t' =>
        have hok : okPair a c = true := by
          simp only [redFwd, Bool.and_eq_true] at hr; exact hr.1
        simp only [okPair, Bool.and_eq_true, Bool.not_eq_true', Bool.and_eq_false_iff] at hok
        have hc := plain_cases (hp c (List.mem_cons_of_mem _ List.mem_cons_self))
        constructor
        · intro ha b rest e
          have hcu : c.isUpper = false := by
            rcases hok.1 with h1 | h1
            · rw [h1] at ha; cases ha
            · exact h1
          rcases hc with ⟨he, hb⟩ | ⟨_, hu, _, _⟩ | ⟨_, _, hl, hb⟩
          · -- c is "=": look further
            have : t'.filter Con.isBound = b :: rest := by simpa [List.filter_cons, hb] using e
            exact (ih.2 c t' rfl).1 (by simp [he]) b rest this
          · rw [hu] at hcu; cases hcu
          · have : b = c := by
              simp only [List.filter_cons, hb, if_true] at e
              injection e with e1 _; exact e1.symm
            rw [this]; exact hl
        · intro ha b rest e
          have hcel : (c.isEq || c.isLower) = false := by
            rcases hok.2 with h2 | h2
            · rw [h2] at ha; cases ha
            · exact h2
          rcases hc with ⟨he, _⟩ | ⟨_, hu, _, hb⟩ | ⟨_, _, hl, _⟩
          · simp [he] at hcel
          · have : b = c := by
              simp only [List.filter_cons, hb, if_true] at e
              injection e with e1 _; exact e1.symm
            rw [this]; exact hu
          · simp [hl] at hcel
    refine ⟨?_, fun a' t'' e => by cases e; exact second⟩
    have ha := plain_cases (hp a List.mem_cons_self)
    rcases ha with ⟨_, hb⟩ | ⟨he, hu, hl, hb⟩ | ⟨he, hu, hl, hb⟩
    · simp only [List.filter_cons, hb, Bool.false_eq_true, if_false]; exact ih.1
    · simp only [List.filter_cons, hb, if_true]
      cases hB : t.filter Con.isBound with
      | nil => rfl
      | cons b rest =>
        have hbl := second.1 (by simp [hu]) b rest hB
        have hbu : b.isUpper = false := by
          have hbm : b ∈ t.filter Con.isBound := by rw [hB]; exact List.mem_cons_self
          have := plain_cases (hpt b (List.mem_filter.mp hbm).1)
          rcases this with ⟨_, h2⟩ | ⟨_, _, h3, _⟩ | ⟨_, h4, _, _⟩
          · have := (List.mem_filter.mp hbm).2; rw [h2] at this; cases this
          · rw [h3] at hbl; cases hbl
          · exact h4
        have ih1 := ih.1
        rw [hB] at ih1
        simp only [altB, hu, hbu, Bool.and_eq_true]
        exact ⟨by decide, ih1⟩
    · simp only [List.filter_cons, hb, if_true]
      cases hB : t.filter Con.isBound with
      | nil => rfl
      | cons b rest =>
        have hbu := second.2 hl b rest hB
        have ih1 := ih.1
        rw [hB] at ih1
        simp only [altB, hu, hbu, Bool.and_eq_true]
        exact ⟨by decide, ih1⟩

end Univers
