/-
From the Python source to the specification, in one statement each, for the constraint algebra: the functions of
`univers/version_constraint.py` and `univers/version_range.py` as TRANSLATED on every run (`Univers/Gen/Py*.lean`) satisfy
the property's specification directly — the agreement theorem of the translated function (`Vers/Gen*Thm.lean`) followed by
the property theorem of the model (`Props/C04`, `C07`, `C08`, `C09`).  Nothing here is new mathematics: these theorems
exist so that the chain "what the code says now ⊨ what the property states" is an object the kernel has checked, and so
that it breaks visibly when either half does.
-/
import Univers.Vers.GenContainsThm
import Univers.Vers.GenRangeContainsThm
import Univers.Vers.GenConValidateThm
import Univers.Vers.GenSimplifyThm
import Univers.Vers.GenRangeInvertThm
import Univers.Props.C04
import Univers.Props.C07
import Univers.Props.C08
import Univers.Props.C09
import Univers.Vers.GenRangeNormalizeThm
import Univers.Props.C10

namespace Univers.Gen.LayerB
open Univers Univers.PyRt Std

variable {V : Type} {o : VOps V} {cmp : V → V → Ordering} (perm : List (Con V) → List (Con V))

/-- **C04, source to specification**: `contains_version` as translated answers, without raising, the interval-set meaning
of every well-formed version-sorted constraint list. -/
theorem py_contains_version_eq_denote [TransCmp cmp] (h : Lawful o cmp) (cs : List (Con V)) (hwf : WFSorted cmp cs) (x : V) :
    contains_version o perm x cs = .ok (denote cmp cs x) := by
  rw [contains_version_eq]; exact C04.contains_eq_denote h cs hwf x

/-- the same for `VersionRange.__contains__` as translated -/
theorem py_range_contains_eq_denote [TransCmp cmp] (h : Lawful o cmp) (cs : List (Con V)) (hwf : WFSorted cmp cs) (x : V) :
    range_contains o perm cs x = .ok (denote cmp cs x) := by
  rw [range_contains_eq]; exact C04.contains_eq_denote h cs hwf x

/-- **C07, source to specification**: `VersionConstraint.validate` as translated accepts exactly the well-formed lists … -/
theorem py_validate_iff_wf [TransCmp cmp] (h : Lawful o cmp) (cs : List (Con V)) :
    con_validate o perm cs = .ok true ↔ WF cmp cs := by
  rw [con_validate_eq]; exact C07.validate_iff_wf h cs

/-- … and rejects every other list with a ValueError -/
theorem py_validate_rejects_with_ValueError [TransCmp cmp] (h : Lawful o cmp) (cs : List (Con V)) (hn : ¬ WF cmp cs) :
    con_validate o perm cs = .error .ValueError := by
  rw [con_validate_eq]; exact C07.validate_rejects_with_ValueError h cs hn

/-- **C08, source to specification**: `VersionConstraint.simplify` as translated returns a sub-list with the same meaning
that validation (as translated) accepts and that is a fixed point, for every iteration order of the intermediate set. -/
theorem py_simplify_spec [TransCmp cmp] (h : Lawful o cmp) (hperm : ∀ l, (perm l).Perm l)
    (cs : List (Con V)) (hns : noStar cs = true) (hs : StrictSorted cmp cs) :
    ∃ R, con_simplify o perm cs = .ok R ∧ R.Sublist cs ∧
      (∀ x, denoteR cmp R x = denoteR cmp cs x) ∧
      con_validate o perm R = .ok true ∧
      con_simplify o perm R = .ok R := by
  obtain ⟨R, h1, h2, h3, h4, h5⟩ := C08.simplify_spec h perm hperm cs hns hs
  exact ⟨R, by rw [con_simplify_eq]; exact h1, h2, h3, by rw [con_validate_eq]; exact h4, by rw [con_simplify_eq]; exact h5⟩

/-- **C09, source to specification**: `VersionRange.invert` as translated returns, for a well-formed range without vacuous
constraints, a well-formed range that contains a version (for `contains_version` as translated) exactly when the original
does not. -/
theorem py_invert_complement [TransCmp cmp] (h : Lawful o cmp) (cs : List (Con V))
    (hwf : WFSorted cmp cs) (hstar : cs ≠ [.star]) (hne : cs ≠ []) (hnv : NonVacuous cmp cs) :
    ∃ inv, range_invert o perm cs = .ok (some inv) ∧ WFSorted cmp inv ∧
      (∀ x, contains_version o perm x inv = .ok (!denote cmp cs x)) := by
  obtain ⟨inv, h1, h2, _h3, h4, _⟩ := C09.invert_complement h cs hwf hstar hne hnv
  refine ⟨inv, ?_, h2, ?_⟩
  · rw [range_invert_eq, h1]
  · intro x; rw [contains_version_eq]; exact h4 x

/-- **C10, source to specification**: `VersionRange.normalize` as translated returns a range that the translated validation
accepts, and a known version is in it (for `contains_version` as translated) exactly when it is in the original. -/
theorem py_normalize_accepted_and_members [TransCmp cmp] (h : Lawful o cmp) (cs : List (Con V)) (hwf : WFSorted cmp cs)
    (ks : List V) :
    ∃ r, range_normalize o perm cs ks = .ok r ∧ WFSorted cmp r ∧ con_validate o perm r = .ok true ∧
      ∀ k ∈ ks, contains_version o perm k r = .ok (denote cmp cs k) := by
  obtain ⟨r, h1, h2, h3⟩ := C10.normalize_accepted h cs hwf ks
  obtain ⟨r', h1', h4⟩ := C10.normalize_members h cs hwf ks
  have : r' = r := by rw [h1] at h1'; cases h1'; rfl
  subst this
  refine ⟨r', by rw [range_normalize_eq]; exact h1, h2, by rw [con_validate_eq]; exact h3, ?_⟩
  intro k hk
  rw [contains_version_eq]
  exact (h4 k hk).1

end Univers.Gen.LayerB
