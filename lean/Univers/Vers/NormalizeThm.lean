/-
Helper proofs for C10: `VersionRange.normalize` — blocks of contiguous members.
Part 1: the result as a list of closed blocks `(lo, hi)`, its well-formedness and meaning.
-/
import Univers.Vers.History

namespace Univers

open Std

variable {V : Type} {o : VOps V} {cmp : V → V → Ordering}

/-- the constraints of one block: `VersionConstraint(version=lo)` when both ends are `==`,
else `>=lo`, `<=hi` -/
def blockCons (o : VOps V) (b : V × V) : List (Con V) :=
  if o.eq b.1 b.2 then [.mk .eq b.1] else [.mk .ge b.1, .mk .le b.2]

/-- `x` lies in the closed block -/
def inBlock (cmp : V → V → Ordering) (x : V) (b : V × V) : Bool :=
  cmp b.1 x != .gt && cmp x b.2 != .gt

theorem segCons_eq_blockCons (seg : List V) (lo hi : V) (h1 : seg.head? = some lo)
    (h2 : seg.getLast? = some hi) : segCons o seg = blockCons o (lo, hi) := by
  simp [segCons, blockCons, h1, h2]

/-- blocks strictly increasing: every end of a block is strictly below the start of the next,
and each block is non-empty (`lo ≤ hi`) -/
def blocksSorted (cmp : V → V → Ordering) : List (V × V) → Prop
  | [] => True
  | [b] => cmp b.1 b.2 ≠ .gt
  | b :: c :: rest => cmp b.1 b.2 ≠ .gt ∧ cmp b.2 c.1 = .lt ∧ blocksSorted cmp (c :: rest)

theorem blockCons_noNe (b : V × V) : ∀ c ∈ blockCons o b, c.isNe = false ∧ c.isStar = false := by
  intro c hc
  unfold blockCons at hc
  split at hc <;> simp at hc
  · subst hc; exact ⟨rfl, rfl⟩
  · rcases hc with rfl | rfl <;> exact ⟨rfl, rfl⟩

theorem block_any_eqAt (b : V × V) (x : V) :
    (blockCons o b).any (fun c => c.isEq && c.at cmp x) = (o.eq b.1 b.2 && (cmp x b.1 == .eq)) := by
  unfold blockCons
  split <;> simp_all [Con.isEq, Con.at]

theorem block_bounds (b : V × V) :
    (blockCons o b).filter Con.isBound = if o.eq b.1 b.2 then [] else [.mk .ge b.1, .mk .le b.2] := by
  unfold blockCons
  split <;> simp [Con.isBound, Con.isUpper, Con.isLower, Cmpr.isUpper, Cmpr.isLower]

theorem pair_holds [OrientedCmp cmp] (b : V × V) (x : V) :
    ((Con.mk .ge b.1).holds cmp x && (Con.mk .le b.2).holds cmp x) = inBlock cmp x b := by
  have hx1 : cmp x b.1 = (cmp b.1 x).swap := OrientedCmp.eq_swap
  simp only [Con.holds, Cmpr.holds, inBlock, hx1]
  cases cmp b.1 x <;> rfl

/-- the meaning of a list of blocks, whatever their order -/
theorem denote_blocks [OrientedCmp cmp] (bs : List (V × V)) (x : V) :
    ((bs.flatMap (blockCons o)).any (fun c => c.isEq && c.at cmp x) ||
      inPairs cmp x ((bs.flatMap (blockCons o)).filter Con.isBound))
    = bs.any (fun b => if o.eq b.1 b.2 then cmp x b.1 == .eq else inBlock cmp x b) := by
  induction bs with
  | nil => simp [inPairs]
  | cons b t ih =>
    rw [List.flatMap_cons, List.any_append, List.filter_append, List.any_cons, ← ih,
      block_any_eqAt, block_bounds]
    by_cases he : o.eq b.1 b.2 = true
    · simp only [he, if_true, Bool.true_and, List.nil_append]
      cases (cmp x b.1 == Ordering.eq) <;> simp
    · have he' : o.eq b.1 b.2 = false := by cases hh : o.eq b.1 b.2 <;> simp_all
      simp only [he', Bool.false_eq_true, if_false, Bool.false_and, Bool.false_or, List.cons_append,
        List.nil_append, inPairs, pair_holds]
      cases inBlock cmp x b <;> cases ((t.flatMap (blockCons o)).any fun c => c.isEq && c.at cmp x) <;> simp

/-! ### the block list is a well-formed version-sorted constraint list -/

/-- the first constraint of a non-empty block list is `=lo` or `>=lo` of the first block -/
theorem blocks_head (b : V × V) (t : List (V × V)) :
    ∃ k rest, (b :: t).flatMap (blockCons o) = .mk k b.1 :: rest ∧ (k = .eq ∨ k = .ge) := by
  simp only [List.flatMap_cons]
  unfold blockCons
  split
  · exact ⟨.eq, _, rfl, Or.inl rfl⟩
  · exact ⟨.ge, _, rfl, Or.inr rfl⟩

theorem blocks_red : ∀ (bs : List (V × V)), redFwd (bs.flatMap (blockCons o)) = true
  | [] => rfl
  | [b] => by
    simp only [List.flatMap_cons, List.flatMap_nil, List.append_nil]
    unfold blockCons
    split <;> simp [redFwd, okPair, Con.isEq, Con.isUpper, Con.isLower, Cmpr.isUpper, Cmpr.isLower]
  | b :: c :: t => by
    have ih := blocks_red (c :: t)
    obtain ⟨k, rest, hh, hk⟩ := blocks_head (o := o) c t
    rw [List.flatMap_cons, hh]
    rw [hh] at ih
    unfold blockCons
    split
    · simp only [List.cons_append, List.nil_append, redFwd, ih, Bool.and_true]
      rcases hk with rfl | rfl <;>
        simp [okPair, Con.isEq, Con.isUpper, Con.isLower, Cmpr.isUpper, Cmpr.isLower]
    · simp only [List.cons_append, List.nil_append, redFwd, ih, Bool.and_true]
      rcases hk with rfl | rfl <;>
        simp [okPair, Con.isEq, Con.isUpper, Con.isLower, Cmpr.isUpper, Cmpr.isLower]

theorem blocks_plain (bs : List (V × V)) : plain (bs.flatMap (blockCons o)) := by
  intro c hc
  obtain ⟨b, _, hcb⟩ := List.mem_flatMap.mp hc
  unfold blockCons at hcb
  split at hcb <;> simp at hcb
  · subst hcb; rfl
  · rcases hcb with rfl | rfl <;> rfl

/-- every version of the constraints of a sorted block list lies above `v` when the first
block does -/
theorem blocks_above [TransCmp cmp] (v : V) : ∀ (bs : List (V × V)), blocksSorted cmp bs →
    (∀ b t, bs = b :: t → cmp v b.1 = .lt) →
    ∀ k w, Con.mk k w ∈ bs.flatMap (blockCons o) → cmp v w = .lt
  | [], _, _ => by intro k w h; simp at h
  | [b], hs, hv => by
    intro k w hm
    have h1 : cmp v b.1 = .lt := hv b [] rfl
    have h2 : cmp b.1 b.2 ≠ .gt := hs
    have h3 : cmp v b.2 = .lt := TransCmp.lt_of_lt_of_isLE h1 (by cases hc : cmp b.1 b.2 <;> simp_all [Ordering.isLE])
    simp only [List.flatMap_cons, List.flatMap_nil, List.append_nil] at hm
    unfold blockCons at hm
    split at hm <;> simp at hm
    · obtain ⟨_, rfl⟩ := hm; exact h1
    · rcases hm with ⟨_, rfl⟩ | ⟨_, rfl⟩
      · exact h1
      · exact h3
  | b :: c :: t, hs, hv => by
    intro k w hm
    obtain ⟨hb, hbc, hrest⟩ := hs
    have h1 : cmp v b.1 = .lt := hv b _ rfl
    have h3 : cmp v b.2 = .lt := TransCmp.lt_of_lt_of_isLE h1 (by cases hc : cmp b.1 b.2 <;> simp_all [Ordering.isLE])
    rw [List.flatMap_cons, List.mem_append] at hm
    rcases hm with hm | hm
    · unfold blockCons at hm
      split at hm <;> simp at hm
      · obtain ⟨_, rfl⟩ := hm; exact h1
      · rcases hm with ⟨_, rfl⟩ | ⟨_, rfl⟩
        · exact h1
        · exact h3
    · exact blocks_above v (c :: t) hrest (fun b' t' e => by cases e; exact TransCmp.lt_trans h3 hbc) k w hm

theorem blocks_strictSorted [TransCmp cmp] (h : Lawful o cmp) : ∀ (bs : List (V × V)),
    blocksSorted cmp bs → StrictSorted cmp (bs.flatMap (blockCons o))
  | [], _ => List.Pairwise.nil
  | b :: t, hs => by
    have hb : cmp b.1 b.2 ≠ .gt := by
      cases t with
      | nil => exact hs
      | cons c t' => exact hs.1
    have hrest : blocksSorted cmp t := by
      cases t with
      | nil => trivial
      | cons c t' => exact hs.2.2
    have ih := blocks_strictSorted h t hrest
    have habove : ∀ k w, Con.mk k w ∈ t.flatMap (blockCons o) → cmp b.2 w = .lt := by
      cases t with
      | nil => intro k w hm; simp at hm
      | cons c t' => exact blocks_above b.2 (c :: t') hrest (fun b' t'' e => by cases e; exact hs.2.1)
    rw [List.flatMap_cons]
    unfold StrictSorted
    rw [List.pairwise_append]
    refine ⟨?_, ih, ?_⟩
    · unfold blockCons
      split
      · simp
      · rename_i he
        have hne : cmp b.1 b.2 ≠ .eq := by
          intro e; rw [h.eq, e] at he; simp at he
        have hlt : cmp b.1 b.2 = .lt := by cases hc : cmp b.1 b.2 <;> simp_all
        simp [hlt]
    · intro a ha d hd
      cases d with
      | star =>
        have := blocks_plain (o := o) t .star hd
        simp [Con.isEq, Con.isBound, Con.isUpper, Con.isLower] at this
      | mk kd w =>
        have hw := habove kd w hd
        unfold blockCons at ha
        split at ha <;> simp at ha
        · subst ha
          show cmp b.1 w = .lt
          exact TransCmp.lt_of_isLE_of_lt (by cases hc : cmp b.1 b.2 <;> simp_all [Ordering.isLE]) hw
        · rcases ha with rfl | rfl
          · show cmp b.1 w = .lt
            exact TransCmp.lt_of_isLE_of_lt (by cases hc : cmp b.1 b.2 <;> simp_all [Ordering.isLE]) hw
          · exact hw

/-- C10: the constraint list of sorted blocks is well-formed (and already version-sorted) -/
theorem blocks_wfSorted [TransCmp cmp] (h : Lawful o cmp) (bs : List (V × V))
    (hs : blocksSorted cmp bs) : WFSorted cmp (bs.flatMap (blockCons o)) := by
  have hpl := blocks_plain (o := o) bs
  have hred := blocks_red (o := o) bs
  refine Or.inr ⟨?_, blocks_strictSorted h bs hs, ?_, ?_⟩
  · apply List.all_eq_true.mpr
    intro c hc
    have := hpl c hc
    cases c with
    | star => simp [Con.isEq, Con.isBound, Con.isUpper, Con.isLower] at this
    | mk k v => rfl
  · unfold eqRule
    have : (bs.flatMap (blockCons o)).filter (fun c => !c.isNe) = bs.flatMap (blockCons o) := by
      apply List.filter_eq_self.mpr
      intro c hc
      have := hpl c hc
      cases c with
      | star => simp [Con.isEq, Con.isBound, Con.isUpper, Con.isLower] at this
      | mk k v => cases k <;> simp_all [Con.isNe, Con.isEq, Con.isBound, Con.isUpper, Con.isLower, Cmpr.isUpper, Cmpr.isLower]
    rw [this]
    exact eqPairs_of_red _ hred
  · rw [altRule_eq_altB]
    exact (altB_of_red _ hred hpl).1

end Univers
