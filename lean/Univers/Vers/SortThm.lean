/-
Helper proofs about sorting constraints (`VersionConstraint.__lt__`, `sorted`, `list.sort`):
the sort of a list whose versions are pairwise distinct is THE version-sorted permutation.
-/
import Univers.Vers.Spec
import Univers.Basic.PadLex

namespace Univers

open Std

variable {V : Type} {o : VOps V} {cmp : V → V → Ordering}

/-- comparison of optional versions, `none` (the star's `None`) first -/
def optCmp (cmp : V → V → Ordering) : Option V → Option V → Ordering
  | none, none => .eq
  | none, some _ => .lt
  | some _, none => .gt
  | some a, some b => cmp a b

instance optCmp.instOriented [OrientedCmp cmp] : OrientedCmp (optCmp cmp) where
  eq_swap := by
    intro a b
    cases a <;> cases b <;> simp [optCmp]
    exact OrientedCmp.eq_swap

instance optCmp.instTrans [TransCmp cmp] : TransCmp (optCmp cmp) where
  isLE_trans := by
    intro a b c
    cases a <;> cases b <;> cases c <;> simp [optCmp, Ordering.isLE]
    exact fun h1 h2 => by
      have := TransCmp.isLE_trans (cmp := cmp) (by simpa [Ordering.isLE] using h1) (by simpa [Ordering.isLE] using h2)
      simpa [Ordering.isLE] using this

/-- the sort key of a constraint: `(version, comparator text)` -/
def conKey : Con V → Option V × Nat
  | .star => (none, 1)
  | .mk c v => (some v, c.strRank)

def natCmp : Nat → Nat → Ordering := fun a b => compare a b

instance : TransCmp natCmp := inferInstanceAs (TransCmp (fun a b : Nat => compare a b))

/-- three-way comparison of constraints by `(version, comparator)` -/
def conCmp (cmp : V → V → Ordering) : Con V → Con V → Ordering :=
  cmpOn conKey (lexPair (optCmp cmp) natCmp)

instance conCmp.instTrans [TransCmp cmp] : TransCmp (conCmp cmp) :=
  inferInstanceAs (TransCmp (cmpOn conKey (lexPair (optCmp cmp) natCmp)))

theorem decide_lt_eq (a b : Nat) : decide (a < b) = (compare a b == .lt) := by
  by_cases h : a < b
  · simp [h, Nat.compare_eq_lt.mpr h]
  · have : compare a b ≠ .lt := fun hc => h (Nat.compare_eq_lt.mp hc)
    cases hc : compare a b <;> simp_all

theorem conLt_eq_conCmp (h : Lawful o cmp) (a b : Con V) :
    conLt o a b = (conCmp cmp a b == .lt) := by
  cases a with
  | star =>
    cases b with
    | star => simp [conLt, conCmp, cmpOn, conKey, lexPair, optCmp, natCmp]
    | mk d w => simp [conLt, conCmp, cmpOn, conKey, lexPair, optCmp]
  | mk c u =>
    cases b with
    | star => simp [conLt, conCmp, cmpOn, conKey, lexPair, optCmp]
    | mk d w =>
      simp only [conLt, conCmp, cmpOn, conKey, lexPair, optCmp, natCmp, h.eq, h.lt]
      cases hc : cmp u w <;> simp [Ordering.then, decide_lt_eq]

/-- `not (b < a)`: the `le` that a stable sort calling only `__lt__` works with -/
def conLe (o : VOps V) (a b : Con V) : Bool := !conLt o b a

theorem conLe_eq (h : Lawful o cmp) [OrientedCmp cmp] (a b : Con V) :
    conLe o a b = (conCmp cmp a b).isLE := by
  have : OrientedCmp (conCmp cmp) :=
    inferInstanceAs (OrientedCmp (cmpOn conKey (lexPair (optCmp cmp) natCmp)))
  unfold conLe
  rw [conLt_eq_conCmp h, OrientedCmp.eq_swap (cmp := conCmp cmp)]
  cases conCmp cmp a b <;> rfl

theorem conLe_trans [TransCmp cmp] (h : Lawful o cmp) (a b c : Con V) :
    conLe o a b = true → conLe o b c = true → conLe o a c = true := by
  simp only [conLe_eq h]
  exact fun h1 h2 => TransCmp.isLE_trans h1 h2

theorem conLe_total [TransCmp cmp] (h : Lawful o cmp) (a b : Con V) :
    (conLe o a b || conLe o b a) = true := by
  simp only [conLe_eq h]
  rw [OrientedCmp.eq_swap (cmp := conCmp cmp) (a := b) (b := a)]
  cases conCmp cmp a b <;> rfl

theorem sortCons_noStar (cs : List (Con V)) (hns : noStar cs = true) :
    sortCons o cs = .ok (cs.mergeSort (fun a b => conLe o a b)) := by
  unfold sortCons
  have : cs.any Con.isStar = false := by
    apply Bool.eq_false_iff.mpr
    intro hh
    obtain ⟨c, hc, hs⟩ := List.any_eq_true.mp hh
    have := List.all_eq_true.mp hns c hc
    simp [hs] at this
  simp [this, conLe]

theorem strictSorted_pairwise_le [TransCmp cmp] (h : Lawful o cmp) (s : List (Con V))
    (hs : StrictSorted cmp s) : s.Pairwise (fun a b => conLe o a b = true) := by
  apply List.Pairwise.imp _ hs
  intro a b hab
  cases a with
  | star => cases b <;> simp at hab
  | mk c u =>
    cases b with
    | star => simp at hab
    | mk d w =>
      have hab' : cmp u w = .lt := hab
      rw [conLe_eq h]
      simp [conCmp, cmpOn, conKey, lexPair, optCmp, hab', Ordering.then, Ordering.isLE]

/-- the same constraint, or versions that are not equivalent -/
def sameOrApart (cmp : V → V → Ordering) (x y : Con V) : Prop :=
  x = y ∨ match x, y with
    | .mk _ u, .mk _ w => cmp u w ≠ .eq
    | _, _ => False

theorem sameOrApart_symm [OrientedCmp cmp] {x y : Con V} (hxy : sameOrApart cmp x y) :
    sameOrApart cmp y x := by
  rcases hxy with rfl | hxy
  · exact Or.inl rfl
  · cases x with
    | star => cases y <;> simp at hxy
    | mk c u =>
      cases y with
      | star => simp at hxy
      | mk d w =>
        refine Or.inr ?_
        intro hwu
        exact hxy (OrientedCmp.eq_symm hwu)

/-- in a strictly sorted list, two members whose comparison is `eq` both ways are the same -/
theorem strictSorted_antisymm [TransCmp cmp] (h : Lawful o cmp) (s : List (Con V))
    (hs : StrictSorted cmp s) :
    ∀ a b, a ∈ s → b ∈ s → conLe o a b = true → conLe o b a = true → a = b := by
  intro a b ha hb hab hba
  have hR : s.Pairwise (sameOrApart cmp) := by
    apply List.Pairwise.imp _ hs
    intro a b hab
    cases a with
    | star => cases b <;> simp at hab
    | mk c u =>
      cases b with
      | star => simp at hab
      | mk d w =>
        have hab' : cmp u w = .lt := hab
        exact Or.inr (by simp [hab'])
  have hflip : s.Pairwise (flip (sameOrApart cmp)) :=
    List.Pairwise.imp (fun hxy => sameOrApart_symm hxy) hR
  have hsym := List.Pairwise.forall_of_forall_of_flip (R := sameOrApart cmp)
    (fun x _ => Or.inl rfl) hR hflip
  rcases hsym ha hb with heq | hne
  · exact heq
  · exfalso
    cases a with
    | star => cases b <;> simp at hne
    | mk c u =>
      cases b with
      | star => simp at hne
      | mk d w =>
        have hne' : cmp u w ≠ .eq := hne
        rw [conLe_eq h] at hab hba
        have hwu : cmp w u = (cmp u w).swap := OrientedCmp.eq_swap
        simp only [conCmp, cmpOn, conKey, lexPair, optCmp] at hab hba
        rw [hwu] at hba
        cases hc : cmp u w <;> simp_all [Ordering.then, Ordering.isLE, Ordering.swap]

/-- sorting a list that has a strictly version-sorted, star-free permutation returns exactly
that permutation -/
theorem sortCons_eq_of_perm [TransCmp cmp] (h : Lawful o cmp) (cs s : List (Con V))
    (hp : s.Perm cs) (hns : noStar s = true) (hs : StrictSorted cmp s) :
    sortCons o cs = .ok s := by
  have hns' : noStar cs = true := by
    apply List.all_eq_true.mpr
    intro c hc
    exact List.all_eq_true.mp hns c (hp.mem_iff.mpr hc)
  rw [sortCons_noStar cs hns']
  congr 1
  have hpw := List.pairwise_mergeSort (le := fun a b => conLe o a b)
    (fun a b c => conLe_trans h a b c) (fun a b => conLe_total h a b) cs
  have hperm : (cs.mergeSort (fun a b => conLe o a b)).Perm s :=
    (List.mergeSort_perm cs _).trans hp.symm
  have hmem : ∀ a b, a ∈ cs.mergeSort (fun a b => conLe o a b) → b ∈ s →
      conLe o a b = true → conLe o b a = true → a = b := by
    intro a b ha hb
    exact strictSorted_antisymm h s hs a b (hperm.mem_iff.mp ha) hb
  exact List.Perm.eq_of_pairwise (le := fun a b => conLe o a b = true) hmem hpw
    (strictSorted_pairwise_le h s hs) hperm

/-- C04/C07/C13 glue: a well-formed list in ANY order is put by the constructor's sort into
its well-formed version-sorted form -/
theorem sortCons_of_wf [TransCmp cmp] (h : Lawful o cmp) (cs : List (Con V)) (hwf : WF cmp cs) :
    ∃ s, sortCons o cs = .ok s ∧ s.Perm cs ∧ WFSorted cmp s := by
  obtain ⟨s, hp, hw⟩ := hwf
  rcases hw with rfl | ⟨hns, hs, he, ha⟩
  · have : cs = [.star] := by
      have := hp.symm
      exact List.perm_singleton.mp this
    subst this
    exact ⟨[.star], by simp [sortCons, Con.isStar], List.Perm.refl _, Or.inl rfl⟩
  · exact ⟨s, sortCons_eq_of_perm h cs s hp hns hs, hp, Or.inr ⟨hns, hs, he, ha⟩⟩

end Univers
