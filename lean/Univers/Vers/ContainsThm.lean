/-
Helper lemmas for C04: the `pairwise` scan of `contains_version` computes the interval union.
-/
import Univers.Vers.Spec

namespace Univers

open Std

variable {V : Type} {o : VOps V} {cmp : V → V → Ordering}

/-! ### operators under `Lawful` -/

theorem Lawful.sat_eq_holds (h : Lawful o cmp) (x : V) (c : Con V) :
    c.sat o x = c.holds cmp x := by
  cases c with
  | star => rfl
  | mk k v => cases k <;> simp [Con.sat, Con.holds, VOps.op, Cmpr.holds, h.lt, h.gt, h.eq, h.le, h.ge, h.ne]

theorem Lawful.verEq_eq_at (h : Lawful o cmp) (x : V) (c : Con V) :
    c.verEq o x = c.at cmp x := by
  cases c with
  | star => rfl
  | mk k v => simp [Con.verEq, Con.at, h.eq]

/-- alternation of a list of bounds, as a recursive Boolean -/
def altB : List (Con V) → Bool
  | a :: b :: rest => (a.isUpper != b.isUpper) && altB (b :: rest)
  | _ => true

theorem altRule_eq_altB (cs : List (Con V)) : altRule cs = altB (cs.filter Con.isBound) := by
  unfold altRule
  generalize cs.filter Con.isBound = l
  induction l with
  | nil => rfl
  | cons a t ih =>
    cases t with
    | nil => rfl
    | cons b rest => simp [pairwise, altB, ← ih]

/-- `x` is not at the version of an inclusive bound of the list -/
def offIncl (cmp : V → V → Ordering) (x : V) (bs : List (Con V)) : Prop :=
  ∀ c v, Con.mk c v ∈ bs → (c = .ge ∨ c = .le) → cmp x v ≠ .eq

theorem offIncl_tail {x : V} {b : Con V} {bs : List (Con V)} (h : offIncl cmp x (b :: bs)) :
    offIncl cmp x bs :=
  fun c v hm hc => h c v (List.mem_cons_of_mem _ hm) hc

/-- a lower bound `b`, off its inclusive point: `holds` is `x > v` -/
theorem lower_holds (h : Lawful o cmp) {x : V} {c : Cmpr} {v : V} (hc : c.isLower = true)
    (hoff : (c = .ge ∨ c = .le) → cmp x v ≠ .eq) :
    (Con.mk c v).holds cmp x = o.gt x v := by
  cases c <;> simp [Cmpr.isLower] at hc
  · -- ge
    have := hoff (Or.inl rfl)
    simp [Con.holds, Cmpr.holds, h.gt]
    cases hx : cmp x v <;> simp_all
  · simp [Con.holds, Cmpr.holds, h.gt]

theorem upper_holds (h : Lawful o cmp) {x : V} {c : Cmpr} {v : V} (hc : c.isUpper = true)
    (hoff : (c = .ge ∨ c = .le) → cmp x v ≠ .eq) :
    (Con.mk c v).holds cmp x = o.lt x v := by
  cases c <;> simp [Cmpr.isUpper] at hc
  · -- le
    have := hoff (Or.inr rfl)
    simp [Con.holds, Cmpr.holds, h.lt]
    cases hx : cmp x v <;> simp_all
  · simp [Con.holds, Cmpr.holds, h.lt]

/-- all elements are bounds -/
def allBounds (bs : List (Con V)) : Prop := ∀ b ∈ bs, b.isBound = true

theorem isBound_cases {b : Con V} (hb : b.isBound = true) :
    ∃ c v, b = .mk c v ∧ (c.isUpper = true ∨ c.isLower = true) ∧ (c.isUpper = true → c.isLower = false) := by
  cases b with
  | star => simp [Con.isBound, Con.isUpper, Con.isLower] at hb
  | mk c v =>
    refine ⟨c, v, rfl, ?_, ?_⟩
    · simpa [Con.isBound, Con.isUpper, Con.isLower] using hb
    · cases c <;> simp [Cmpr.isUpper, Cmpr.isLower]

/-- The scan, started on a lower bound (any `first`) or continued on an upper bound
(`first = false`), computes the union of the (lower, upper) pairs. -/
theorem scanLoop_spec (h : Lawful o cmp) (x : V) :
    ∀ (bs : List (Con V)), allBounds bs → altB bs = true → offIncl cmp x bs →
      (∀ b rest, bs = b :: rest → b.isLower = true → ∀ f, scanLoop o x f bs = .ok (inPairs cmp x bs)) ∧
      (∀ b rest, bs = b :: rest → b.isUpper = true → scanLoop o x false bs = .ok (inPairs cmp x rest))
  | [], _, _, _ => ⟨fun _ _ e => (by cases e), fun _ _ e => (by cases e)⟩
  | [b], hb, _, hoff => by
    obtain ⟨c, v, rfl, hul, hex⟩ := isBound_cases (hb b (List.mem_singleton.mpr rfl))
    constructor
    · intro b' rest e hl f
      cases e
      have hl' : c.isLower = true := hl
      have := lower_holds (cmp := cmp) h (x := x) (v := v) hl' (fun hc => hoff c v (List.mem_singleton.mpr rfl) hc)
      simp [scanLoop, inPairs, hl', this]
    · intro b' rest e hu
      cases e
      have hu' : c.isUpper = true := hu
      simp [scanLoop, inPairs, hex hu']
  | b :: n :: rest, hb, halt, hoff => by
    have ih := scanLoop_spec h x (n :: rest) (fun y hy => hb y (List.mem_cons_of_mem _ hy))
      (by simp [altB] at halt; exact halt.2) (offIncl_tail hoff)
    obtain ⟨c, v, rfl, _, hexb⟩ := isBound_cases (hb b (List.mem_cons_self))
    obtain ⟨d, w, rfl, _, hexn⟩ := isBound_cases (hb _ (List.mem_cons_of_mem _ List.mem_cons_self))
    have halt1 : (c.isUpper != d.isUpper) = true := by
      simp [altB] at halt; simpa [Con.isUpper] using halt.1
    constructor
    · intro b' rest' e hl f
      cases e
      have hl' : c.isLower = true := hl
      have hcu : c.isUpper = false := by cases c <;> simp_all [Cmpr.isLower, Cmpr.isUpper]
      have hdu : d.isUpper = true := by simpa [hcu] using halt1
      have e1 := lower_holds (cmp := cmp) h (x := x) (v := v) hl' (fun hc => hoff c v List.mem_cons_self hc)
      have e2 := upper_holds (cmp := cmp) h (x := x) (v := w) hdu
        (fun hc => hoff d w (List.mem_cons_of_mem _ List.mem_cons_self) hc)
      have ih2 := ih.2 _ _ rfl (show (Con.mk d w).isUpper = true from hdu)
      simp only [scanLoop, hl', hcu, hdu, inPairs, e1, e2]
      by_cases hh : (o.gt x v && o.lt x w) = true
      · simp [hh]
      · simp [hh, ih2]
    · intro b' rest' e hu
      cases e
      have hu' : c.isUpper = true := hu
      have hcl : c.isLower = false := hexb hu'
      have hdu : d.isUpper = false := by simpa [hu'] using halt1
      have hdl : d.isLower = true := by
        have := hb _ (List.mem_cons_of_mem _ List.mem_cons_self)
        simpa [Con.isBound, Con.isUpper, Con.isLower, hdu] using this
      have ih1 := ih.1 _ _ rfl (show (Con.mk d w).isLower = true from hdl) false
      simp only [scanLoop, hu', hcl, hdu, hdl]
      simp [ih1]

/-- first iteration on an upper bound followed by more bounds -/
theorem scanLoop_first_upper (h : Lawful o cmp) (x : V) (c : Cmpr) (v : V) (n : Con V)
    (rest : List (Con V)) (hb : allBounds (.mk c v :: n :: rest))
    (halt : altB (.mk c v :: n :: rest) = true) (hoff : offIncl cmp x (.mk c v :: n :: rest))
    (hu : c.isUpper = true) :
    scanLoop o x true (.mk c v :: n :: rest)
      = .ok ((Con.mk c v).holds cmp x || inPairs cmp x (n :: rest)) := by
  obtain ⟨d, w, rfl, _, _⟩ := isBound_cases (hb _ (List.mem_cons_of_mem _ List.mem_cons_self))
  have halt1 : (c.isUpper != d.isUpper) = true := by
    simp [altB] at halt; simpa [Con.isUpper] using halt.1
  have hdu : d.isUpper = false := by simpa [hu] using halt1
  have hdl : d.isLower = true := by
    have := hb _ (List.mem_cons_of_mem _ List.mem_cons_self)
    simpa [Con.isBound, Con.isUpper, Con.isLower, hdu] using this
  have hcl : c.isLower = false := by cases c <;> simp_all [Cmpr.isLower, Cmpr.isUpper]
  have e1 := upper_holds (cmp := cmp) h (x := x) (v := v) hu (fun hc => hoff c v List.mem_cons_self hc)
  have ih := (scanLoop_spec h x (.mk d w :: rest) (fun y hy => hb y (List.mem_cons_of_mem _ hy))
      (by simp [altB] at halt; exact halt.2) (offIncl_tail hoff)).1 _ _ rfl
      (show (Con.mk d w).isLower = true from hdl) false
  simp only [scanLoop, hu, hcl, hdu, hdl, e1]
  by_cases hh : o.lt x v = true
  · simp [hh]
  · simp [hh, ih]

/-- with at least two alternating bounds, off the inclusive points, the scan started with
`first_iteration = True` computes the interval union -/
theorem scanLoop_eq_inIntervals (h : Lawful o cmp) (x : V) (b n : Con V) (rest : List (Con V))
    (hb : allBounds (b :: n :: rest)) (halt : altB (b :: n :: rest) = true)
    (hoff : offIncl cmp x (b :: n :: rest)) :
    scanLoop o x true (b :: n :: rest) = .ok (inIntervals cmp x (b :: n :: rest)) := by
  obtain ⟨c, v, rfl, hul, hex⟩ := isBound_cases (hb b List.mem_cons_self)
  by_cases hu : c.isUpper = true
  · rw [scanLoop_first_upper h x c v n rest hb halt hoff hu]
    simp [inIntervals, Con.isUpper, hu]
  · have hl : c.isLower = true := by cases hul with
      | inl h' => exact absurd h' hu
      | inr h' => exact h'
    have := (scanLoop_spec h x _ hb halt hoff).1 _ _ rfl (show (Con.mk c v).isLower = true from hl) true
    rw [this]
    simp [inIntervals, Con.isUpper, hu]

/-! ### a point on an inclusive bound is inside the intervals -/

theorem strictSorted_tail {b : Con V} {bs : List (Con V)} (hs : StrictSorted cmp (b :: bs)) :
    StrictSorted cmp bs := (List.pairwise_cons.mp hs).2

theorem inPairs_of_at_incl [TransCmp cmp] (x : V) :
    ∀ (bs : List (Con V)), allBounds bs → altB bs = true → StrictSorted cmp bs →
      (∀ b rest, bs = b :: rest → b.isLower = true) →
      ∀ c v, Con.mk c v ∈ bs → (c = .ge ∨ c = .le) → cmp x v = .eq → inPairs cmp x bs = true
  | [], _, _, _, _ => fun c v hm => by cases hm
  | [b], hb, _, _, hlo => by
    intro c v hm hc hx
    have hbl := hlo b [] rfl
    have : b = .mk c v := (List.mem_singleton.mp hm).symm
    subst this
    rcases hc with rfl | rfl
    · simp [inPairs, Con.holds, Cmpr.holds, hx]
    · simp [Con.isLower, Cmpr.isLower] at hbl
  | lo :: hi :: rest, hb, halt, hs, hlo => by
    intro c v hm hc hx
    have hlol := hlo lo _ rfl
    obtain ⟨c1, u, rfl, _, _⟩ := isBound_cases (hb lo List.mem_cons_self)
    obtain ⟨c2, w, rfl, _, _⟩ := isBound_cases (hb hi (List.mem_cons_of_mem _ List.mem_cons_self))
    have hlol' : c1.isLower = true := hlol
    have hc1u : c1.isUpper = false := by cases c1 <;> simp_all [Cmpr.isLower, Cmpr.isUpper]
    have halt1 : (c1.isUpper != c2.isUpper) = true := by
      simp [altB] at halt; simpa [Con.isUpper] using halt.1
    have hc2u : c2.isUpper = true := by simpa [hc1u] using halt1
    have huw : cmp u w = .lt := by
      have := (List.pairwise_cons.mp hs).1 _ List.mem_cons_self
      simpa using this
    simp only [List.mem_cons] at hm
    rcases hm with hm | hm | hm
    · -- the point is the lower bound
      obtain ⟨rfl, rfl⟩ : c = c1 ∧ v = u := by injection hm with e1 e2; exact ⟨e1, e2⟩
      have hxw : cmp x w = .lt := TransCmp.lt_of_eq_of_lt hx huw
      have h1 : (Con.mk c v).holds cmp x = true := by
        rcases hc with rfl | rfl <;> simp [Con.holds, Cmpr.holds, hx]
      have h2 : (Con.mk c2 w).holds cmp x = true := by
        cases c2 <;> simp_all [Con.holds, Cmpr.holds, Cmpr.isUpper]
      simp [inPairs, h1, h2]
    · -- the point is the upper bound
      obtain ⟨rfl, rfl⟩ : c = c2 ∧ v = w := by injection hm with e1 e2; exact ⟨e1, e2⟩
      have hwu : cmp v u = .gt := OrientedCmp.gt_of_lt huw
      have hxu : cmp x u = .gt := TransCmp.gt_of_eq_of_gt hx hwu
      have h1 : (Con.mk c1 u).holds cmp x = true := by
        cases c1 <;> simp_all [Con.holds, Cmpr.holds, Cmpr.isLower]
      have h2 : (Con.mk c v).holds cmp x = true := by
        rcases hc with rfl | rfl <;> simp [Con.holds, Cmpr.holds, hx]
      simp [inPairs, h1, h2]
    · -- further up
      have hrest : ∀ b rest', rest = b :: rest' → b.isLower = true := by
        intro b rest' e
        subst e
        obtain ⟨c3, y, rfl, _, _⟩ := isBound_cases (hb b (List.mem_cons_of_mem _ (List.mem_cons_of_mem _ List.mem_cons_self)))
        have halt2 : (c2.isUpper != c3.isUpper) = true := by
          simp [altB] at halt; simpa [Con.isUpper] using halt.2.1
        have hc3u : c3.isUpper = false := by simpa [hc2u] using halt2
        have := hb (.mk c3 y) (List.mem_cons_of_mem _ (List.mem_cons_of_mem _ List.mem_cons_self))
        simpa [Con.isBound, Con.isUpper, Con.isLower, hc3u] using this
      have ih := inPairs_of_at_incl x rest
        (fun y hy => hb y (List.mem_cons_of_mem _ (List.mem_cons_of_mem _ hy)))
        (by
          cases rest with
          | nil => rfl
          | cons r rs => simp [altB] at halt; exact halt.2.2)
        (strictSorted_tail (strictSorted_tail hs)) hrest c v hm hc hx
      simp [inPairs, ih]

theorem inIntervals_of_at_incl [TransCmp cmp] (x : V) (bs : List (Con V)) (hb : allBounds bs)
    (halt : altB bs = true) (hs : StrictSorted cmp bs) (c : Cmpr) (v : V) (hm : Con.mk c v ∈ bs)
    (hc : c = .ge ∨ c = .le) (hx : cmp x v = .eq) : inIntervals cmp x bs = true := by
  cases bs with
  | nil => cases hm
  | cons b rest =>
    obtain ⟨c0, u, rfl, hul, hex⟩ := isBound_cases (hb b List.mem_cons_self)
    by_cases hu : c0.isUpper = true
    · -- leading upper bound
      simp only [inIntervals, Con.isUpper, hu, if_true]
      simp only [List.mem_cons] at hm
      rcases hm with hm | hm
      · cases hm
        have : (Con.mk c v).holds cmp x = true := by
          rcases hc with rfl | rfl <;> simp [Con.holds, Cmpr.holds, hx]
        simp [this]
      · have hrest : ∀ b rest', rest = b :: rest' → b.isLower = true := by
          intro b rest' e
          subst e
          obtain ⟨c3, y, rfl, _, _⟩ := isBound_cases (hb b (List.mem_cons_of_mem _ List.mem_cons_self))
          have halt2 : (c0.isUpper != c3.isUpper) = true := by
            simp [altB] at halt; simpa [Con.isUpper] using halt.1
          have hc3u : c3.isUpper = false := by simpa [hu] using halt2
          have := hb (.mk c3 y) (List.mem_cons_of_mem _ List.mem_cons_self)
          simpa [Con.isBound, Con.isUpper, Con.isLower, hc3u] using this
        have := inPairs_of_at_incl x rest (fun y hy => hb y (List.mem_cons_of_mem _ hy))
          (by
            cases rest with
            | nil => rfl
            | cons r rs => simp [altB] at halt; exact halt.2)
          (strictSorted_tail hs) hrest c v hm hc hx
        simp [this]
    · have hl : c0.isLower = true := by
        cases hul with
        | inl h' => exact absurd h' hu
        | inr h' => exact h'
      simp only [inIntervals, Con.isUpper, hu]
      exact inPairs_of_at_incl x _ hb halt hs (fun b rest' e => by cases e; exact hl) c v hm hc hx

end Univers
