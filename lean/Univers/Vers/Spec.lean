/-
Layer B — SPEC: what the properties C04, C07, C08, C09, C10 say, stated declaratively over a
three-way comparison `cmp` of the scheme, independently of how the Python computes it.
-/
import Univers.Vers.Model

namespace Univers

variable {V : Type}

/-- The six operators are the ones induced by the three-way comparison `cmp`
(this is property C02 for the scheme). -/
structure Lawful (o : VOps V) (cmp : V → V → Ordering) : Prop where
  lt : ∀ a b, o.lt a b = (cmp a b == .lt)
  gt : ∀ a b, o.gt a b = (cmp a b == .gt)
  eq : ∀ a b, o.eq a b = (cmp a b == .eq)
  le : ∀ a b, o.le a b = (cmp a b != .gt)
  ge : ∀ a b, o.ge a b = (cmp a b != .lt)
  ne : ∀ a b, o.ne a b = (cmp a b != .eq)

/-- The operators induced by `cmp`. -/
def opsOf (cmp : V → V → Ordering) : VOps V where
  lt a b := cmp a b == .lt
  gt a b := cmp a b == .gt
  eq a b := cmp a b == .eq
  le a b := cmp a b != .gt
  ge a b := cmp a b != .lt
  ne a b := cmp a b != .eq

theorem opsOf_lawful (cmp : V → V → Ordering) : Lawful (opsOf cmp) cmp :=
  ⟨fun _ _ => rfl, fun _ _ => rfl, fun _ _ => rfl, fun _ _ => rfl, fun _ _ => rfl, fun _ _ => rfl⟩

/-- Meaning of a comparator: does `x` stand in relation `c` to the constraint version, given
`ord = cmp x v`? -/
def Cmpr.holds : Cmpr → Ordering → Bool
  | .ge, r => r != .lt
  | .le, r => r != .gt
  | .ne, r => r != .eq
  | .lt, r => r == .lt
  | .gt, r => r == .gt
  | .eq, r => r == .eq

/-- Meaning of a single constraint. -/
def Con.holds (cmp : V → V → Ordering) (x : V) : Con V → Bool
  | .star => true
  | .mk c v => c.holds (cmp x v)

/-- `x` is the constraint's version, up to the scheme's equivalence. -/
def Con.at (cmp : V → V → Ordering) (x : V) : Con V → Bool
  | .star => false
  | .mk _ v => cmp x v == .eq

/-! ### C04: the interval-set meaning -/

/-- consecutive (lower, upper) pairs; a trailing lower bound extends to +∞ -/
def inPairs (cmp : V → V → Ordering) (x : V) : List (Con V) → Bool
  | lo :: hi :: rest => (lo.holds cmp x && hi.holds cmp x) || inPairs cmp x rest
  | [lo] => lo.holds cmp x
  | [] => false

/-- the union of the intervals delimited by the bounds, read in version order: an initial
upper bound opens from −∞ -/
def inIntervals (cmp : V → V → Ordering) (x : V) : List (Con V) → Bool
  | [] => false
  | b :: rest => if b.isUpper then b.holds cmp x || inPairs cmp x rest else inPairs cmp x (b :: rest)

/-- The set a (version-sorted) constraint list denotes. -/
def denote (cmp : V → V → Ordering) (cs : List (Con V)) (x : V) : Bool :=
  match cs with
  | [] => false
  | [.star] => true
  | _ =>
    if cs.all Con.isNe then cs.all (fun c => !c.at cmp x)
    else if cs.any (fun c => c.isNe && c.at cmp x) then false
    else if cs.any (fun c => c.isEq && c.at cmp x) then true
    else inIntervals cmp x (cs.filter Con.isBound)

/-! ### C07: well-formed sequences -/

/-- versions strictly increasing (hence pairwise distinct), no star -/
def StrictSorted (cmp : V → V → Ordering) (cs : List (Con V)) : Prop :=
  cs.Pairwise (fun a b => match a, b with
    | .mk _ u, .mk _ w => cmp u w = .lt
    | _, _ => False)

/-- ignoring exclusions, an `=` is never followed by an upper bound -/
def eqRule (cs : List (Con V)) : Bool :=
  (pairwise (cs.filter (fun c => !c.isNe))).all (fun p => !(p.1.isEq && p.2.isUpper))

/-- ignoring `=` and `!=`, lower and upper bounds strictly alternate -/
def altRule (cs : List (Con V)) : Bool :=
  (pairwise (cs.filter Con.isBound)).all (fun p => p.1.isUpper != p.2.isUpper)

def noStar (cs : List (Con V)) : Bool := cs.all (fun c => !c.isStar)

/-- a version-sorted list is well-formed -/
def WFSorted (cmp : V → V → Ordering) (cs : List (Con V)) : Prop :=
  cs = [.star] ∨ (noStar cs = true ∧ StrictSorted cmp cs ∧ eqRule cs = true ∧ altRule cs = true)

/-- a list in any order is well-formed: read in version order it is `WFSorted` -/
def WF (cmp : V → V → Ordering) (cs : List (Con V)) : Prop :=
  ∃ s, s.Perm cs ∧ WFSorted cmp s

/-! ### C08: the meaning of a possibly redundant range -/

/-- A bound is a *cut* of the version line with a direction.  `>=v` and `<v` cut just below
`v`; `>v` and `<=v` cut just above `v`.  The cut of `b` lies below the point `x`: -/
def cutBelow (cmp : V → V → Ordering) (x : V) : Con V → Bool
  | .mk c v => cmp v x == .lt || (cmp v x == .eq && (c == .ge || c == .lt))
  | .star => false

/-- The cut of `b` lies above the point `x`. -/
def cutAbove (cmp : V → V → Ordering) (x : V) : Con V → Bool
  | .mk c v => cmp v x == .gt || (cmp v x == .eq && (c == .gt || c == .le))
  | .star => false

/-- Walking the version-sorted bounds upward until the first cut above `x`:
`prevUp` says whether the nearest cut below `x` points upward. -/
def regionWalk (cmp : V → V → Ordering) (x : V) : Bool → List (Con V) → Bool
  | prevUp, [] => prevUp
  | prevUp, b :: rest =>
      if cutAbove cmp x b then prevUp || b.isUpper else regionWalk cmp x b.isLower rest

/-- `x` is in the region the (version-sorted) bounds describe: the nearest cut below it points
upward or the nearest cut above it points downward. -/
def inRegion (cmp : V → V → Ordering) (x : V) (bs : List (Con V)) : Bool :=
  regionWalk cmp x false bs

/-- The set a possibly redundant (version-sorted, distinct) constraint list denotes. -/
def denoteR (cmp : V → V → Ordering) (cs : List (Con V)) (x : V) : Bool :=
  match cs with
  | [] => false
  | [.star] => true
  | _ =>
    if cs.all Con.isNe then cs.all (fun c => !c.at cmp x)
    else if cs.any (fun c => c.isNe && c.at cmp x) then false
    else if cs.any (fun c => c.isEq && c.at cmp x) then true
    else inRegion cmp x (cs.filter Con.isBound)

/-! ### C09: vacuous constraints -/

/-- every `!=` lies inside an included interval (or the range is `!=`-only) and every `=`
lies outside all intervals -/
def NonVacuous (cmp : V → V → Ordering) (cs : List (Con V)) : Prop :=
  cs.all Con.isNe = true ∨
  (∀ c ∈ cs, match c with
    | .mk .ne v => inIntervals cmp v (cs.filter Con.isBound) = true
    | .mk .eq v => inIntervals cmp v (cs.filter Con.isBound) = false
    | _ => True)

end Univers
