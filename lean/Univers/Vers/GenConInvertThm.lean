/-
Agreement theorems for `VersionConstraint.is_star` and `VersionConstraint.invert` (with its local
`INVERTED_COMPARATORS` dict) as translated from the Python source on every run (`Univers/Gen/PyConIsStar.lean`,
`PyConInvert.lean`): they are the model's `Con.isStar` and `Con.invert` that the theorems of C09 are about.
-/
import Univers.Gen.PyConInvert
import Univers.Vers.PyRtLemmas

namespace Univers.Gen.LayerB
open Univers Univers.PyRt

variable {V : Type} (o : VOps V) (perm : List (Con V) → List (Con V))

/-- **`VersionConstraint.is_star` as translated is the model's `Con.isStar`.** -/
theorem con_is_star_eq (c : Con V) : con_is_star o perm c = .ok c.isStar := by
  cases c with
  | star => rfl
  | mk k v => cases k <;> rfl

/-- **`VersionConstraint.invert` as translated is the model's `Con.invert`** (`None` for the star; the
`INVERTED_COMPARATORS` lookup never raises `KeyError` and the constructor never refuses). -/
theorem con_invert_eq (c : Con V) : con_invert o perm c = .ok c.invert := by
  cases c with
  | star => rfl
  | mk k v => cases k <;> rfl

end Univers.Gen.LayerB
