/-
Agreement theorem for `VersionRange.__contains__` as translated from `univers/version_range.py` on every run
(`Univers/Gen/PyRangeContains.lean`): it is the model's `containsVersion` on the range's constraints (C04).

Versions are given already constructed: `self.version_class(text)` is Layer A's business and is read as the
identity by the translator; the class guards (`isinstance`, `cls.scheme`) are C14's business and hold of every
concrete range class.
-/
import Univers.Gen.PyRangeContains
import Univers.Vers.GenContainsThm

namespace Univers.Gen.LayerB
open Univers Univers.PyRt

variable {V : Type} (o : VOps V) (perm : List (Con V) → List (Con V))

/-! ### `__contains__` -/

/-- **`VersionRange.__contains__` as translated is the model's `containsVersion` on the range's constraints.** -/
theorem range_contains_eq (cs : List (Con V)) (x : V) : range_contains o perm cs x = containsVersion o x cs := by
  unfold range_contains
  exact contains_version_eq o perm x cs

end Univers.Gen.LayerB
