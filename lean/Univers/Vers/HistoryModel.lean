/-
Model of the presentation-level operations of C17 on the constraint tuple of a range, as an
executable state machine (`step`, `run`); the theorems are in `Univers/Props/C17.lean`, the driver
command `hist` runs it.
-/
import Univers.Vers.Model

namespace Univers.C17

open Univers

variable {V : Type}

/-- a presentation-level operation; `σ` is the shuffle applied before rebuilding, `π` the
iteration order of the set built inside `simplify` (the hash seed) -/
inductive Op (V : Type) where
  | printParse
  | permuteRebuild (σ : List (Con V) → List (Con V))
  | simplify (π : List (Con V) → List (Con V))
  | validate
  | invertTwice
  /-- `from_string(str(r), simplify=sf, validate=vf)`: sort the parsed constraints, simplify them if
  asked, validate them if asked, build the range (which sorts again) -/
  | parseFlags (sf vf : Bool) (π : List (Con V) → List (Con V))

/-- the shuffles are permutations -/
def Op.ok : Op V → Prop
  | .permuteRebuild σ => ∀ l, (σ l).Perm l
  | .simplify π => ∀ l, (π l).Perm l
  | .parseFlags _ _ π => ∀ l, (π l).Perm l
  | _ => True

/-- one operation on the constraint tuple of a range -/
def step (o : VOps V) : Op V → List (Con V) → Except Err (List (Con V))
  | .printParse, s => mkRange o s
  | .permuteRebuild σ, s => mkRange o (σ s)
  | .simplify π, s =>
      match simplify o π s with
      | .error e => .error e
      | .ok r => mkRange o r
  | .validate, s =>
      match validate o s with
      | .error e => .error e
      | .ok _ => .ok s
  | .invertTwice, s =>
      match invertRange o s with
      | none => .ok s
      | some (.error e) => .error e
      | some (.ok i) =>
        match invertRange o i with
        | none => .ok s
        | some r => r
  | .parseFlags sf vf π, s =>
      match sortCons o s with
      | .error e => .error e
      | .ok p =>
        match (if sf then simplify o π p else .ok p) with
        | .error e => .error e
        | .ok q =>
          match (if vf then validate o q else .ok true) with
          | .error e => .error e
          | .ok _ => mkRange o q

def run (o : VOps V) : List (Op V) → List (Con V) → Except Err (List (Con V))
  | [], s => .ok s
  | op :: rest, s =>
      match step o op s with
      | .error e => .error e
      | .ok s' => run o rest s'

end Univers.C17
