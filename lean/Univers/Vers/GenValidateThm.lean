/-
Agreement theorem for `validate_comparators`: the function GENERATED from the Python source on every run
(`Univers/Gen/PyValidateComparators.lean`) is the model function `validateComparators` of
`Univers/Vers/Model.lean` that the theorems of C07 are about.
-/
import Univers.Gen.PyValidateComparators
import Univers.Vers.PyRtLemmas

namespace Univers.Gen.LayerB
open Univers Univers.PyRt

variable {V : Type} (o : VOps V) (perm : List (Con V) → List (Con V))

/-! ### `validate_comparators` -/

@[simp] theorem vc_tab1 (c : Con V) : validate_comparators_tab1 (comparator c) = c.isStar := by
  cases c with
  | star => rfl
  | mk k v => cases k <;> rfl

@[simp] theorem vc_tab2 (c : Con V) : validate_comparators_tab2 (comparator c) = !c.isNe := by
  cases c with
  | star => rfl
  | mk k v => cases k <;> rfl

@[simp] theorem vc_tab3 (c : Con V) : validate_comparators_tab3 (comparator c) = c.isEq := by
  cases c with
  | star => rfl
  | mk k v => cases k <;> rfl

@[simp] theorem vc_tab5 (c : Con V) : validate_comparators_tab5 (comparator c) = !c.isEq := by
  cases c with
  | star => rfl
  | mk k v => cases k <;> rfl

theorem vc_for1_eq (cs : List (Con V)) (ie : List (Con V × Con V)) (ps : List (Con V × Con V)) :
    pyFor ps () (validate_comparators_for1_body o perm cs ie) (validate_comparators_for1_after o perm cs ie)
      = if ps.any (fun p => (p.1.isUpper && !p.2.isLower) || (p.1.isLower && !p.2.isUpper)) then .error .ValueError
        else .ok true := by
  induction ps with
  | nil => simp [validate_comparators_for1_after]
  | cons p ps ih =>
    obtain ⟨a, b⟩ := p
    simp only [pyFor_cons, List.any_cons]
    have hb : validate_comparators_for1_body o perm cs ie (a, b) () =
        if (a.isUpper && !b.isLower) || (a.isLower && !b.isUpper) then .error .ValueError else .ok (.next ()) := by
      cases a with
      | star => cases b with
        | star => rfl
        | mk d w => cases d <;> rfl
      | mk k v => cases b with
        | star => cases k <;> rfl
        | mk d w => cases k <;> cases d <;> rfl
    rw [hb]
    by_cases h : ((a.isUpper && !b.isLower) || (a.isLower && !b.isUpper)) = true
    · simp [h]
    · have h' : ((a.isUpper && !b.isLower) || (a.isLower && !b.isUpper)) = false := by simpa using h
      simp only [h', Bool.false_eq_true, ↓reduceIte, Step.cont_next, Bool.false_or]
      exact ih

/-- **`validate_comparators` as translated from the source is the model's `validateComparators`.** -/
theorem validate_comparators_eq (cs : List (Con V)) :
    validate_comparators o perm cs = validateComparators cs := by
  unfold validate_comparators validateComparators
  have h1 : cs.any (fun c => validate_comparators_tab1 (comparator c)) = cs.any Con.isStar := by
    congr 1; funext c; simp
  have h2 : cs.filter (fun c => validate_comparators_tab2 (comparator c)) = cs.filter (fun c => !c.isNe) := by
    apply List.filter_congr; intro c _; simp
  simp only [h1, h2]
  by_cases hs : cs.any Con.isStar = true
  · simp only [hs, ↓reduceIte]
    by_cases hl : cs.length = 1 <;> simp [hl]
  · simp only [hs, Bool.false_eq_true, ↓reduceIte]
    generalize cs.filter (fun c => !c.isNe) = cs1
    have h5 : cs1.filter (fun c => validate_comparators_tab5 (comparator c)) = cs1.filter (fun c => !c.isEq) := by
      apply List.filter_congr; intro c _; simp
    have h4 : ∀ c : Con V, validate_comparators_tab4 (comparator c) = !(c.isEq || c.isLower) := by
      intro c
      cases c with
      | star => rfl
      | mk k v => cases k <;> rfl
    have h34 : (PyRt.pairwise cs1).filter (fun x => match x with
          | (cur, nxt) => validate_comparators_tab3 (comparator cur) && validate_comparators_tab4 (comparator nxt))
        = (Univers.pairwise cs1).filter (fun p => p.1.isEq && !(p.2.isEq || p.2.isLower)) := by
      apply List.filter_congr; intro p _; obtain ⟨a, b⟩ := p; simp [h4]
    simp only [h34, h5, not_truthy, truthy_filter, vc_for1_eq, filter_isEmpty, PyRt.pairwise, vc_tab3, h4]

end Univers.Gen.LayerB
