/-
Helper proofs for C08, part 3: the redundant-range meaning `denoteR` as one upward walk, and
list facts about strictly sorted lists used to pin down the result of
`sorted(set(unequal_constraints + constraints))`.
-/
import Univers.Vers.SimplifyFold
import Univers.Vers.ValidateThm
import Univers.Vers.InvertThm
import Univers.Basic.Swo

namespace Univers

open Std

variable {V : Type} {o : VOps V} {cmp : V → V → Ordering}

/-! ### `denoteR` through `mw` -/

theorem any_eqAt_false_of_allAbove [OrientedCmp cmp] (x : V) (l : List (Con V))
    (h : allAbove cmp x l) : l.any (fun c => c.isEq && c.at cmp x) = false := by
  apply Bool.eq_false_iff.mpr
  intro hh
  obtain ⟨c, hc, hcc⟩ := List.any_eq_true.mp hh
  have := h c hc
  cases c with
  | star => exact this
  | mk k v =>
    have hv : cmp v x = .gt := this
    have hxv : cmp x v = .lt := OrientedCmp.lt_of_gt hv
    simp [Con.at, hxv] at hcc

/-- on a version-sorted star-free list the walk is: an "=" at `x`, or the region walk over
the bounds -/
theorem mw_eq_any_or_region [TransCmp cmp] (x : V) : ∀ (l : List (Con V)) (p : Bool),
    noStar l = true → StrictSorted cmp l →
    mw cmp x p l = (l.any (fun c => c.isEq && c.at cmp x) || regionWalk cmp x p (l.filter Con.isBound))
  | [], p, _, _ => by simp [mw, regionWalk]
  | c :: t, p, hns, hs => by
    have hns' : noStar t = true := by
      simp only [noStar, List.all_cons, Bool.and_eq_true] at hns ⊢; exact hns.2
    have hcs : c.isStar = false := by
      simp only [noStar, List.all_cons, Bool.and_eq_true] at hns; simpa using hns.1
    have hs' := strictSorted_tail hs
    cases c with
    | star => simp [Con.isStar] at hcs
    | mk k v =>
      by_cases he : (Con.mk k v).isEq = true
      · have hb : (Con.mk k v).isBound = false := by
          revert he; cases k <;> simp [Con.isEq, Con.isBound, Con.isUpper, Con.isLower, Cmpr.isUpper, Cmpr.isLower]
        rw [mw_cons_eq x p _ t he, mw_eq_any_or_region x t p hns' hs']
        simp [List.any_cons, he, List.filter_cons, hb, Bool.or_assoc]
      · have he' : (Con.mk k v).isEq = false := by cases h : (Con.mk k v).isEq <;> simp_all
        by_cases hb : (Con.mk k v).isBound = true
        · rw [mw_cons_bound x p _ t he' hb]
          simp only [List.any_cons, he', Bool.false_and, Bool.false_or, List.filter_cons, hb, if_true,
            regionWalk]
          by_cases hca : cutAbove cmp x (.mk k v) = true
          · -- nothing later is at x
            have hvx : cmp v x = .gt ∨ cmp v x = .eq := by
              simp only [cutAbove, Bool.or_eq_true, Bool.and_eq_true, beq_iff_eq] at hca
              rcases hca with h | ⟨h, _⟩
              · exact Or.inl h
              · exact Or.inr h
            have := any_eqAt_false_of_allAbove x t (allAbove_of_sorted_tail x k v t hs hvx)
            simp [hca, this]
          · simp only [hca, Bool.false_eq_true, if_false]
            exact mw_eq_any_or_region x t _ hns' hs'
        · -- a "!="
          have hb' : (Con.mk k v).isBound = false := by cases h : (Con.mk k v).isBound <;> simp_all
          have : mw cmp x p (.mk k v :: t) = mw cmp x p t := by simp [mw, he', hb']
          rw [this, mw_eq_any_or_region x t p hns' hs']
          simp [List.any_cons, he', List.filter_cons, hb']

theorem denoteR_formula (cs : List (Con V)) (hne : cs ≠ [.star]) (x : V) :
    denoteR cmp cs x =
      (if cs.isEmpty then false
       else if cs.all Con.isNe then cs.all (fun c => !c.at cmp x)
       else if cs.any (fun c => c.isNe && c.at cmp x) then false
       else if cs.any (fun c => c.isEq && c.at cmp x) then true
       else inRegion cmp x (cs.filter Con.isBound)) := by
  match cs, hne with
  | [], _ => simp [denoteR]
  | [.star], h => exact absurd rfl h
  | [.mk k v], _ => simp [denoteR]
  | a :: b :: rest, _ => simp [denoteR]

/-- the redundant-range meaning of a version-sorted star-free list, by one upward walk -/
theorem denoteR_eq_mw [TransCmp cmp] (cs : List (Con V)) (hns : noStar cs = true)
    (hs : StrictSorted cmp cs) (x : V) :
    denoteR cmp cs x =
      (if cs.isEmpty then false
       else if cs.all Con.isNe then cs.all (fun c => !c.at cmp x)
       else if cs.any (fun c => c.isNe && c.at cmp x) then false
       else mw cmp x false cs) := by
  have hcs : cs ≠ [.star] := by
    intro h; subst h; simp [noStar, Con.isStar] at hns
  rw [denoteR_formula cs hcs, mw_eq_any_or_region x cs false hns hs]
  unfold inRegion
  by_cases h : cs.any (fun c => c.isEq && c.at cmp x) = true
  · simp [h]
  · have h' : cs.any (fun c => c.isEq && c.at cmp x) = false := by
      cases hh : cs.any (fun c => c.isEq && c.at cmp x) <;> simp_all
    simp [h']

/-! ### strictly sorted lists -/

/-- two strictly sorted lists that are permutations of each other are equal -/
theorem strictSorted_perm_eq [TransCmp cmp] (h : Lawful o cmp) (l₁ l₂ : List (Con V))
    (h1 : StrictSorted cmp l₁) (h2 : StrictSorted cmp l₂) (hp : l₁.Perm l₂) : l₁ = l₂ := by
  have hmem : ∀ a b, a ∈ l₁ → b ∈ l₂ → conLe o a b = true → conLe o b a = true → a = b := by
    intro a b ha hb
    exact strictSorted_antisymm h l₂ h2 a b (hp.mem_iff.mp ha) hb
  exact List.Perm.eq_of_pairwise (le := fun a b => conLe o a b = true) hmem
    (strictSorted_pairwise_le h l₁ h1) (strictSorted_pairwise_le h l₂ h2) hp

theorem strictSorted_ne_of_lt [OrientedCmp cmp] {k k2 : Cmpr} {u w : V} (h : cmp u w = .lt) :
    Con.mk k u ≠ Con.mk k2 w := by
  intro e
  injection e with _ e2
  subst e2
  rw [cmp_self_eq (cmp := cmp)] at h
  cases h

/-- a strictly sorted list whose members all belong to a strictly sorted list is a sub-list of it -/
theorem sublist_of_sorted_subset [TransCmp cmp] : ∀ (cs R : List (Con V)),
    StrictSorted cmp cs → StrictSorted cmp R → (∀ r ∈ R, r ∈ cs) → R.Sublist cs
  | [], R, _, _, hsub => by
    cases R with
    | nil => exact List.Sublist.refl _
    | cons r _ => exact absurd (hsub r List.mem_cons_self) (by simp)
  | c :: t, [], _, _, _ => List.nil_sublist _
  | c :: t, r :: R', hcs, hR, hsub => by
    have hcs' := strictSorted_tail hcs
    have hR' := strictSorted_tail hR
    -- versions of R' are above r's; versions of t above c's
    have lt_of_pair : ∀ {a b : Con V} {l : List (Con V)}, StrictSorted cmp (a :: l) → b ∈ l →
        match a, b with | .mk _ u, .mk _ w => cmp u w = .lt | _, _ => False :=
      fun hs hb => (List.pairwise_cons.mp hs).1 _ hb
    by_cases hrc : r = c
    · subst hrc
      apply List.Sublist.cons₂
      apply sublist_of_sorted_subset t R' hcs' hR'
      intro r' hr'
      have hm := hsub r' (List.mem_cons_of_mem _ hr')
      simp only [List.mem_cons] at hm
      rcases hm with rfl | hm
      · -- r' = r is impossible: it is strictly above r
        have := lt_of_pair hR hr'
        cases r' with
        | star => simp at this
        | mk k u => simp [cmp_self_eq] at this
      · exact hm
    · apply List.Sublist.cons
      apply sublist_of_sorted_subset t (r :: R') hcs' hR
      have hrt : r ∈ t := by
        have := hsub r List.mem_cons_self
        simp only [List.mem_cons] at this
        rcases this with h | h
        · exact absurd h hrc
        · exact h
      have hcr := lt_of_pair hcs hrt
      intro r'' hr''
      have hm := hsub r'' hr''
      simp only [List.mem_cons] at hm hr''
      rcases hm with rfl | hm
      · -- r'' = c is impossible: c < r ≤ r''
        exfalso
        rcases hr'' with rfl | hr''
        · exact hrc rfl
        · have h2 := lt_of_pair hR hr''
          cases r with
          | star => cases r'' <;> simp at hcr
          | mk k u =>
            cases r'' with
            | star => simp at h2
            | mk k2 w =>
              have h2' : cmp u w = .lt := h2
              have h1' : cmp w u = .lt := hcr
              have := TransCmp.lt_trans h1' h2'
              rw [cmp_self_eq (cmp := cmp)] at this; cases this
      · exact hm

/-- `deduplicate` leaves a list with pairwise different versions alone -/
theorem deduplicate_of_apart (seen l : List (Con V))
    (h1 : ∀ c ∈ l, ∀ s ∈ seen, verSame o s c = false)
    (h2 : l.Pairwise (fun a b => verSame o a b = false)) : deduplicate o seen l = l := by
  induction l generalizing seen with
  | nil => rfl
  | cons c t ih =>
    have hnone : seen.any (fun s => conEq o s c) = false := by
      apply Bool.eq_false_iff.mpr
      intro hh
      obtain ⟨s, hs, hsc⟩ := List.any_eq_true.mp hh
      have := h1 c List.mem_cons_self s hs
      cases s <;> cases c <;> simp_all [conEq, verSame]
    simp only [deduplicate, hnone, Bool.false_eq_true, if_false]
    congr 1
    apply ih
    · intro d hd s hs
      simp only [List.mem_cons] at hs
      rcases hs with rfl | hs
      · exact (List.pairwise_cons.mp h2).1 d hd
      · exact h1 d (List.mem_cons_of_mem _ hd) s hs
    · exact (List.pairwise_cons.mp h2).2

end Univers
