/-
Helper proofs for C08, part 5: characterisation of what `simplify_constraints` returns on a
version-sorted star-free list, for any iteration order of the intermediate `set`.
-/
import Univers.Vers.SimplifyMain

namespace Univers

open Std

variable {V : Type} {o : VOps V} {cmp : V → V → Ordering}

theorem plain_filter_notNe (cs : List (Con V)) (hns : noStar cs = true) :
    plain (cs.filter (fun c => !c.isNe)) := by
  intro c hc
  have hm := List.mem_filter.mp hc
  have hs : c.isStar = false := by simpa using List.all_eq_true.mp hns c hm.1
  have hn : c.isNe = false := by simpa using hm.2
  cases c with
  | star => simp [Con.isStar] at hs
  | mk k v => cases k <;> simp_all [Con.isNe, Con.isEq, Con.isBound, Con.isUpper, Con.isLower, Cmpr.isUpper, Cmpr.isLower]

theorem strictSorted_mem_sameOrApart [TransCmp cmp] (cs : List (Con V)) (hs : StrictSorted cmp cs) :
    ∀ ⦃a⦄, a ∈ cs → ∀ ⦃b⦄, b ∈ cs → sameOrApart cmp a b := by
  have hR : cs.Pairwise (sameOrApart cmp) := by
    apply List.Pairwise.imp _ hs
    intro a b hab
    cases a with
    | star => cases b <;> simp at hab
    | mk c u =>
      cases b with
      | star => simp at hab
      | mk d w =>
        have hab' : cmp u w = .lt := hab
        exact Or.inr (by simp [hab'])
  have hflip : cs.Pairwise (flip (sameOrApart cmp)) :=
    List.Pairwise.imp (fun hxy => sameOrApart_symm hxy) hR
  exact List.Pairwise.forall_of_forall_of_flip (R := sameOrApart cmp) (fun x _ => Or.inl rfl) hR hflip

theorem verSame_false_of_apart (h : Lawful o cmp) {a b : Con V} (hab : sameOrApart cmp a b)
    (hne : a ≠ b) : verSame o a b = false := by
  rcases hab with rfl | hab
  · exact absurd rfl hne
  · cases a with
    | star => cases b <;> simp at hab
    | mk c u =>
      cases b with
      | star => simp at hab
      | mk d w =>
        have : cmp u w ≠ .eq := hab
        simp [verSame, h.eq, this]

/-- what `simplify_constraints` returns -/
theorem simplifyConstraints_char [TransCmp cmp] (h : Lawful o cmp)
    (perm : List (Con V) → List (Con V)) (hperm : ∀ l, (perm l).Perm l)
    (cs : List (Con V)) (hns : noStar cs = true) (hs : StrictSorted cmp cs) :
    ∃ R, simplifyConstraints o perm cs = .ok R ∧ R.Sublist cs ∧
      R.filter Con.isNe = cs.filter Con.isNe ∧
      R.filter (fun c => !c.isNe) = simpKept (cs.filter (fun c => !c.isNe)) := by
  unfold simplifyConstraints
  by_cases hlen : cs.length < 2
  · refine ⟨cs, by simp [hlen], List.Sublist.refl _, rfl, ?_⟩
    rw [simpKept_short]
    have := List.length_filter_le (fun c : Con V => !c.isNe) cs
    omega
  · simp only [hlen, if_false]
    by_cases hre : (cs.filter (fun c => !c.isNe)).isEmpty = true
    · have hnil : cs.filter (fun c => !c.isNe) = [] := List.isEmpty_iff.mp hre
      refine ⟨cs.filter Con.isNe, by simp [hre], List.filter_sublist, by simp [List.filter_filter], ?_⟩
      rw [hnil, List.filter_filter]
      simp [simpKept]
    · have hre' : (cs.filter (fun c => !c.isNe)).isEmpty = false := by
        cases hh : (cs.filter (fun c => !c.isNe)).isEmpty <;> simp_all
      simp only [hre', Bool.false_eq_true, if_false]
      -- names
      have hrestS : StrictSorted cmp (cs.filter (fun c => !c.isNe)) := List.Pairwise.filter _ hs
      have hpl := plain_filter_notNe cs hns
      obtain ⟨hksub, _, _⟩ := simpKept_spec (cmp := cmp) (cs.filter (fun c => !c.isNe)) hpl hrestS
      have hfold : ((cs.filter (fun c => !c.isNe)).foldl simpStep []).reverse
          = simpKept (cs.filter (fun c => !c.isNe)) := rfl
      rw [hfold]
      generalize hK : simpKept (cs.filter (fun c => !c.isNe)) = kept at hksub ⊢
      have hkcs : kept.Sublist cs := hksub.trans List.filter_sublist
      have hnecs : (cs.filter Con.isNe).Sublist cs := List.filter_sublist
      have hkne : ∀ c ∈ kept, c.isNe = false := by
        intro c hc
        have := (List.mem_filter.mp (hksub.subset hc)).2
        simpa using this
      -- (i) pairwise apart
      have hapcs := strictSorted_apart h cs hs
      have hmem := strictSorted_mem_sameOrApart cs hs
      have hap0 : (cs.filter Con.isNe ++ kept).Pairwise (fun a b => verSame o a b = false) := by
        rw [List.pairwise_append]
        refine ⟨List.Pairwise.sublist hnecs hapcs, List.Pairwise.sublist hkcs hapcs, ?_⟩
        intro a ha b hb
        have ha' := List.mem_filter.mp ha
        have hbne := hkne b hb
        have hab : a ≠ b := by
          intro e; subst e; rw [ha'.2] at hbne; cases hbne
        exact verSame_false_of_apart h (hmem ha'.1 (hkcs.subset hb)) hab
      -- (ii) nothing to deduplicate
      rw [deduplicate_of_apart [] _ (by intro _ _ _ hs; cases hs) hap0]
      -- (iii) the set's iteration order
      have hpL := hperm (cs.filter Con.isNe ++ kept)
      have hsubL : ∀ c ∈ perm (cs.filter Con.isNe ++ kept), c ∈ cs := by
        intro c hc
        have := hpL.mem_iff.mp hc
        rcases List.mem_append.mp this with h1 | h1
        · exact hnecs.subset h1
        · exact hkcs.subset h1
      have hnsL : noStar (perm (cs.filter Con.isNe ++ kept)) = true := by
        apply List.all_eq_true.mpr
        intro c hc
        exact List.all_eq_true.mp hns c (hsubL c hc)
      have hapL := (apart_perm h hpL).mpr hap0
      -- (iv) the final sort
      rw [sortCons_noStar _ hnsL]
      have hpR := List.mergeSort_perm (perm (cs.filter Con.isNe ++ kept)) (fun a b => conLe o a b)
      have hnsR : noStar ((perm (cs.filter Con.isNe ++ kept)).mergeSort (fun a b => conLe o a b)) = true :=
        noStar_of_perm hpR.symm hnsL
      have hpw := List.pairwise_mergeSort (le := fun a b => conLe o a b)
        (fun a b c => conLe_trans h a b c) (fun a b => conLe_total h a b) (perm (cs.filter Con.isNe ++ kept))
      have hapR := (apart_perm h hpR).mpr hapL
      have hsR := strictSorted_of_sorted_apart h _ hnsR hpw hapR
      refine ⟨_, rfl, ?_, ?_, ?_⟩
      · -- (v) a sub-list of the input
        apply sublist_of_sorted_subset cs _ hs hsR
        intro r hr
        exact hsubL r (hpR.mem_iff.mp hr)
      · -- (vi) the "!=" part
        apply strictSorted_perm_eq h _ _ (List.Pairwise.filter _ hsR) (List.Pairwise.filter _ hs)
        have := ((hpR.trans hpL).filter Con.isNe)
        rw [List.filter_append] at this
        have hk0 : kept.filter Con.isNe = [] := by
          apply List.filter_eq_nil_iff.mpr
          intro c hc; simp [hkne c hc]
        rw [hk0, List.append_nil, List.filter_filter] at this
        simpa using this
      · -- (vii) the rest
        apply strictSorted_perm_eq h _ _ (List.Pairwise.filter _ hsR)
          (List.Pairwise.sublist hksub hrestS)
        have := ((hpR.trans hpL).filter (fun c => !c.isNe))
        rw [List.filter_append] at this
        have hn0 : (cs.filter Con.isNe).filter (fun c => !c.isNe) = [] := by
          apply List.filter_eq_nil_iff.mpr
          intro c hc; simp [(List.mem_filter.mp hc).2]
        have hk1 : kept.filter (fun c => !c.isNe) = kept := by
          apply List.filter_eq_self.mpr
          intro c hc; simp [hkne c hc]
        rw [hn0, hk1, List.nil_append] at this
        exact this

end Univers
