/-
Helper proofs for C04: `contains_version` on a well-formed version-sorted list is `denote`.
-/
import Univers.Vers.ContainsThm

namespace Univers

open Std

variable {V : Type} {o : VOps V} {cmp : V → V → Ordering}

theorem Con.hasNeSub_eq (c : Con V) : c.hasNeSub = c.isNe := by
  cases c with
  | star => rfl
  | mk k v => cases k <;> rfl

/-- inclusive bound -/
def Con.isIncl : Con V → Bool
  | .mk .ge _ => true
  | .mk .le _ => true
  | _ => false

theorem Con.hasEqChar_eq (c : Con V) : c.hasEqChar = (c.isNe || c.isEq || c.isIncl) := by
  cases c with
  | star => rfl
  | mk k v => cases k <;> rfl

theorem filter_bounds_of_noStar (cs : List (Con V)) (hns : noStar cs = true) :
    cs.filter (fun c => !(c.isEq || c.isNe)) = cs.filter Con.isBound := by
  apply List.filter_congr
  intro c hc
  have : c.isStar = false := by
    have := List.all_eq_true.mp hns c hc
    simpa using this
  cases c with
  | star => simp [Con.isStar] at this
  | mk k v => cases k <;> rfl

theorem inIntervals_single (x : V) (b : Con V) (hb : b.isBound = true) :
    inIntervals cmp x [b] = b.holds cmp x := by
  obtain ⟨c, v, rfl, _, _⟩ := isBound_cases hb
  by_cases hu : c.isUpper = true <;> simp [inIntervals, inPairs, Con.isUpper, hu]

theorem denote_single (x : V) (k : Cmpr) (v : V) :
    denote cmp [Con.mk k v] x = (Con.mk k v).holds cmp x := by
  cases k <;>
    simp [denote, Con.isNe, Con.isEq, Con.at, Con.holds, Cmpr.holds, Con.isBound, Con.isUpper,
      Con.isLower, Cmpr.isUpper, Cmpr.isLower, inIntervals, inPairs] <;>
    (generalize cmp x v = r; cases r <;> rfl)

theorem denote_multi (cs : List (Con V)) (hlen : cs.length ≠ 1) (x : V) :
    denote cmp cs x =
      (if cs.isEmpty then false
       else if cs.all Con.isNe then cs.all (fun c => !c.at cmp x)
       else if cs.any (fun c => c.isNe && c.at cmp x) then false
       else if cs.any (fun c => c.isEq && c.at cmp x) then true
       else inIntervals cmp x (cs.filter Con.isBound)) := by
  match cs, hlen with
  | [], _ => simp [denote]
  | [c], h => simp at h
  | a :: b :: rest, _ => simp [denote]

theorem containsMulti_eq_denote [TransCmp cmp] (h : Lawful o cmp) (cs : List (Con V))
    (hlen : cs.length ≠ 1) (hns : noStar cs = true) (hs : StrictSorted cmp cs)
    (halt : altRule cs = true) (x : V) :
    containsMulti o x cs = .ok (denote cmp cs x) := by
  rw [denote_multi cs hlen x]
  unfold containsMulti
  simp only [Con.hasNeSub_eq, h.verEq_eq_at, filter_bounds_of_noStar cs hns]
  by_cases hA : cs.any (fun c => c.isNe && c.at cmp x) = true
  · -- excluded by a "!="
    simp only [hA, if_true]
    by_cases he : cs.isEmpty = true
    · simp [List.isEmpty_iff.mp he] at hA
    · simp only [he]
      by_cases hall : cs.all Con.isNe = true
      · simp only [hall, if_true]
        obtain ⟨c, hc, hcn⟩ := List.any_eq_true.mp hA
        have : cs.all (fun c => !c.at cmp x) = false := by
          apply Bool.eq_false_iff.mpr
          intro hh
          have := List.all_eq_true.mp hh c hc
          simp_all
        simp [this]
      · simp [hall]
  · simp only [hA]
    have hA' : ∀ c ∈ cs, c.isNe = true → c.at cmp x = false := by
      intro c hc hn
      cases hat : c.at cmp x with
      | false => rfl
      | true => exact absurd (List.any_eq_true.mpr ⟨c, hc, by simp [hn, hat]⟩) hA
    by_cases he : cs.isEmpty = true
    · have : cs = [] := List.isEmpty_iff.mp he
      subst this
      simp [containsBounds]
    · simp only [he]
      by_cases hall : cs.all Con.isNe = true
      · -- only "!=" constraints, none of them at x
        have hB : cs.any (fun c => c.hasEqChar && c.at cmp x) = false := by
          apply Bool.eq_false_iff.mpr
          intro hh
          obtain ⟨c, hc, hcc⟩ := List.any_eq_true.mp hh
          have hn := List.all_eq_true.mp hall c hc
          have := hA' c hc hn
          simp [this] at hcc
        have hbs : cs.filter Con.isBound = [] := by
          apply List.filter_eq_nil_iff.mpr
          intro c hc
          have hn := List.all_eq_true.mp hall c hc
          cases c with
          | star => simp [Con.isNe] at hn
          | mk k v => cases k <;> simp_all [Con.isNe, Con.isBound, Con.isUpper, Con.isLower, Cmpr.isUpper, Cmpr.isLower]
        have hd : cs.all (fun c => !c.at cmp x) = true := by
          apply List.all_eq_true.mpr
          intro c hc
          simp [hA' c hc (List.all_eq_true.mp hall c hc)]
        simp only [hB, hbs, containsBounds, hall, hd]
        simp [he]
      · simp only [hall]
        have hbnd : allBounds (cs.filter Con.isBound) := fun b hb => (List.mem_filter.mp hb).2
        have hsb : StrictSorted cmp (cs.filter Con.isBound) := List.Pairwise.filter _ hs
        have haltb : altB (cs.filter Con.isBound) = true := by rw [← altRule_eq_altB]; exact halt
        by_cases hB : cs.any (fun c => c.hasEqChar && c.at cmp x) = true
        · simp only [hB, if_true]
          by_cases hE : cs.any (fun c => c.isEq && c.at cmp x) = true
          · simp [hE]
          · simp only [hE]
            obtain ⟨c, hc, hcc⟩ := List.any_eq_true.mp hB
            rw [Con.hasEqChar_eq] at hcc
            have hat : c.at cmp x = true := by simp_all
            have hne : c.isNe = false := by
              cases hn : c.isNe with
              | false => rfl
              | true => have := hA' c hc hn; simp_all
            have heq : c.isEq = false := by
              cases hq : c.isEq with
              | false => rfl
              | true => exact absurd (List.any_eq_true.mpr ⟨c, hc, by simp [hq, hat]⟩) hE
            have hincl : c.isIncl = true := by simp_all
            -- c is an inclusive bound at x
            cases c with
            | star => simp [Con.isIncl] at hincl
            | mk k v =>
              have hk : k = .ge ∨ k = .le := by cases k <;> simp_all [Con.isIncl]
              have hx : cmp x v = .eq := by simpa [Con.at] using hat
              have hmem : Con.mk k v ∈ cs.filter Con.isBound := by
                apply List.mem_filter.mpr
                refine ⟨hc, ?_⟩
                rcases hk with rfl | rfl <;> rfl
              have := inIntervals_of_at_incl x _ hbnd haltb hsb k v hmem hk hx
              simp [this]
        · simp only [hB]
          have hB' : ∀ c ∈ cs, c.hasEqChar = true → c.at cmp x = false := by
            intro c hc hn
            cases hat : c.at cmp x with
            | false => rfl
            | true => exact absurd (List.any_eq_true.mpr ⟨c, hc, by simp [hn, hat]⟩) hB
          have hE : cs.any (fun c => c.isEq && c.at cmp x) = false := by
            apply Bool.eq_false_iff.mpr
            intro hh
            obtain ⟨c, hc, hcc⟩ := List.any_eq_true.mp hh
            have : c.hasEqChar = true := by rw [Con.hasEqChar_eq]; simp_all
            have := hB' c hc this
            simp_all
          simp only [hE]
          have hoff : offIncl cmp x (cs.filter Con.isBound) := by
            intro k v hm hk hx
            have hc := (List.mem_filter.mp hm).1
            have : (Con.mk k v).hasEqChar = true := by rcases hk with rfl | rfl <;> rfl
            have := hB' _ hc this
            simp [Con.at, hx] at this
          -- the three shapes of the bound list
          rcases hbs : cs.filter Con.isBound with _ | ⟨b, _ | ⟨n, rest⟩⟩
          · simp [containsBounds, hall, inIntervals]
          · have hb : b.isBound = true := by
              have : b ∈ cs.filter Con.isBound := by rw [hbs]; exact List.mem_singleton.mpr rfl
              exact (List.mem_filter.mp this).2
            simp [containsBounds, h.sat_eq_holds, inIntervals_single x b hb]
          · rw [hbs] at hbnd haltb hoff
            simp only [containsBounds]
            exact scanLoop_eq_inIntervals h x b n rest hbnd haltb hoff

end Univers
