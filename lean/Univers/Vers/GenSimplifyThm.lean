/-
Agreement theorems for `deduplicate`, `simplify_constraints` and `VersionConstraint.simplify`: the functions
GENERATED from the Python source on every run (`Univers/Gen/PyDeduplicate.lean`, `PySimplifyConstraints.lean`,
`PyConSimplify.lean`) are the model functions `deduplicate`, `simplifyConstraints` and `simplify` of
`Univers/Vers/Model.lean` that the theorems of C08 (and C13, C17) are about.  In particular the `while` loop
of `simplify_constraints` never runs out of the fuel the translator gave it.
-/
import Univers.Gen.PyConSimplify
import Univers.Vers.PyRtLemmas

namespace Univers.Gen.LayerB
open Univers Univers.PyRt

variable {V : Type} (o : VOps V) (perm : List (Con V) → List (Con V))

/-! ### `deduplicate` -/

theorem dedup_for_eq (cs0 cs : List (Con V)) (unique seen : List (Con V)) :
    pyFor cs (unique, seen) (deduplicate_for1_body o perm cs0) (deduplicate_for1_after o perm cs0)
      = .ok (unique ++ Univers.deduplicate o seen cs) := by
  induction cs generalizing unique seen with
  | nil => simp [deduplicate_for1_after, Univers.deduplicate]
  | cons c cs ih =>
    simp only [pyFor_cons, deduplicate_for1_body, setMem, Univers.deduplicate]
    by_cases h : seen.any (fun s => conEq o s c) = true
    · simp [h, ih]
    · simp [h, ih]

/-- **`deduplicate` as translated is the model's `deduplicate`.** -/
theorem deduplicate_eq (cs : List (Con V)) :
    LayerB.deduplicate o perm cs = .ok (Univers.deduplicate o [] cs) := by
  unfold LayerB.deduplicate
  simpa using dedup_for_eq o perm cs cs [] []

/-! ### `simplify_constraints` -/

@[simp] theorem sc_tab1 (c : Con V) : simplify_constraints_tab1 (comparator c) = c.isNe := by
  cases c with
  | star => rfl
  | mk k v => cases k <;> rfl

@[simp] theorem sc_tab2 (c : Con V) : simplify_constraints_tab2 (comparator c) = !c.isNe := by
  cases c with
  | star => rfl
  | mk k v => cases k <;> rfl

@[simp] theorem sc_tab3 (c : Con V) : simplify_constraints_tab3 (comparator c) = c.isUpper :=
  isUpper_tab _ (by decide) c

@[simp] theorem sc_tab4 (c : Con V) : simplify_constraints_tab4 (comparator c) = (c.isEq || c.isUpper) := by
  cases c with
  | star => rfl
  | mk k v => cases k <;> rfl

@[simp] theorem sc_tab5 (c : Con V) : simplify_constraints_tab5 (comparator c) = (c.isEq || c.isLower) := by
  cases c with
  | star => rfl
  | mk k v => cases k <;> rfl

@[simp] theorem sc_tab6 (c : Con V) : simplify_constraints_tab6 (comparator c) = c.isLower :=
  isLower_tab _ (by decide) c

/-- `last` of a list given by its reverse -/
theorem last_reverse_cons (p : Con V) (st : List (Con V)) : last (p :: st).reverse = .ok p := by
  simp [last]

theorem dropLast_reverse_cons (p : Con V) (st : List (Con V)) : (p :: st).reverse.dropLast = st.reverse := by
  simp

/-- the `while` loop pops what `dropWhile` drops from the stack kept top first; it never runs out of fuel -/
theorem while_eq (cs ne : List (Con V)) (c : Con V) (cmp : CmpVal) (st : List (Con V)) (fuel : Nat)
    (hf : st.length < fuel) :
    pyWhile fuel st.reverse (simplify_constraints_while2_cond o perm cs ne c cmp)
        (simplify_constraints_while2_body o perm cs ne c cmp) (simplify_constraints_while2_after o perm cs ne c cmp)
      = .ok (.next ((c :: st.dropWhile (fun p => p.isEq || p.isUpper)).reverse)) := by
  induction st generalizing fuel with
  | nil =>
    cases fuel with
    | zero => omega
    | succ f => simp [pyWhile, simplify_constraints_while2_cond, simplify_constraints_while2_after, truthy]
  | cons p st ih =>
    cases fuel with
    | zero => omega
    | succ f =>
      have hl : last (st.reverse ++ [p]) = .ok p := by simpa using last_reverse_cons p st
      by_cases hp : (p.isEq || p.isUpper) = true
      · have : f > st.length := by simp at hf; omega
        have hstep : simplify_constraints_while2_cond o perm cs ne c cmp (st.reverse ++ [p]) = .ok true := by
          simp [simplify_constraints_while2_cond, truthy, hl, bind, Except.bind, hp]
        simp only [pyWhile, List.reverse_cons, hstep, simplify_constraints_while2_body, Step.cont_next,
          List.dropLast_concat]
        simpa [List.dropWhile_cons, hp] using ih f this
      · have hp' : (p.isEq || p.isUpper) = false := by simpa using hp
        simp [pyWhile, simplify_constraints_while2_cond, truthy, hl, bind, Except.bind, hp',
          simplify_constraints_while2_after, List.dropWhile_cons]

/-- one round of the `for` loop is the model's `simpStep` on the reversed stack -/
theorem for_body_eq (cs ne : List (Con V)) (c : Con V) (st : List (Con V)) :
    simplify_constraints_for1_body o perm cs ne c st.reverse = .ok (.next (simpStep st c).reverse) := by
  unfold simplify_constraints_for1_body simpStep
  by_cases hu : c.isUpper = true
  · simp only [sc_tab3, hu, ↓reduceIte, List.length_reverse]
    exact while_eq o perm cs ne c _ st _ (by omega)
  · have hu' : c.isUpper = false := by simpa using hu
    simp only [sc_tab3, hu', Bool.false_eq_true, ↓reduceIte, sc_tab5]
    cases st with
    | nil => by_cases h5 : (c.isEq || c.isLower) = true <;> simp [h5, truthy, topIsLower, bind, Except.bind]
    | cons p st =>
      have hl : last (st.reverse ++ [p]) = .ok p := by simpa using last_reverse_cons p st
      by_cases h5 : (c.isEq || c.isLower) = true <;> by_cases h6 : p.isLower = true <;>
        simp [h5, h6, truthy, topIsLower, bind, Except.bind, hl]

theorem for_eq (cs0 ne cs : List (Con V)) (st : List (Con V)) :
    pyFor cs st.reverse (simplify_constraints_for1_body o perm cs0 ne) (simplify_constraints_for1_after o perm cs0 ne)
      = sortCons o (perm (Univers.deduplicate o [] (ne ++ (cs.foldl simpStep st).reverse))) := by
  induction cs generalizing st with
  | nil => simp [simplify_constraints_for1_after, sortedSet]
  | cons c cs ih =>
    simp only [pyFor_cons, for_body_eq, Step.cont_next, List.foldl_cons]
    exact ih _

/-- **`simplify_constraints` as translated is the model's `simplifyConstraints`.** -/
theorem simplify_constraints_eq (cs : List (Con V)) :
    simplify_constraints o perm cs = simplifyConstraints o perm cs := by
  unfold simplify_constraints simplifyConstraints
  by_cases hl : cs.length < 2
  · simp [hl]
  · have h1 : cs.filter (fun c => simplify_constraints_tab1 (comparator c)) = cs.filter Con.isNe := by
      apply List.filter_congr; intro c _; simp
    have h2 : cs.filter (fun c => simplify_constraints_tab2 (comparator c)) = cs.filter (fun c => !c.isNe) := by
      apply List.filter_congr; intro c _; simp
    simp only [hl, decide_false, Bool.false_eq_true, ↓reduceIte, h1, h2, not_truthy]
    by_cases he : (cs.filter (fun c => !c.isNe)).isEmpty = true
    · simp [he]
    · simp only [he, Bool.false_eq_true, ↓reduceIte]
      simpa using for_eq o perm _ (cs.filter Con.isNe) (cs.filter (fun c => !c.isNe)) []

/-! ### `VersionConstraint.simplify` -/

/-- **`VersionConstraint.simplify` as translated is the model's `simplify`.** -/
theorem con_simplify_eq (cs : List (Con V)) : con_simplify o perm cs = simplify o perm cs := by
  unfold con_simplify simplify
  simp only [deduplicate_eq, simplify_constraints_eq, bind, Except.bind]
  cases simplifyConstraints o perm (Univers.deduplicate o [] cs) <;> rfl

end Univers.Gen.LayerB
