/-
Helper proofs for C07: `VersionConstraint.validate` accepts exactly the well-formed sequences.
-/
import Univers.Vers.SortThm

namespace Univers

open Std

variable {V : Type} {o : VOps V} {cmp : V → V → Ordering}

/-! ### the duplicate-version test -/

/-- two constraints carry "different versions" for the `set(c.version …)` test -/
def verApart (o : VOps V) (a b : Con V) : Prop := verSame o a b = false

theorem countDistinct_le (seen cs : List (Con V)) : countDistinct o seen cs ≤ cs.length := by
  induction cs generalizing seen with
  | nil => simp [countDistinct]
  | cons c rest ih =>
    simp only [countDistinct]
    split
    · have := ih seen; simp; omega
    · have := ih (c :: seen); simp; omega

theorem countDistinct_eq_length_iff (seen cs : List (Con V)) :
    countDistinct o seen cs = cs.length ↔
      (∀ c ∈ cs, ∀ s ∈ seen, verSame o s c = false) ∧ cs.Pairwise (fun a b => verSame o a b = false) := by
  induction cs generalizing seen with
  | nil => simp [countDistinct]
  | cons c rest ih =>
    simp only [countDistinct]
    by_cases hany : seen.any (fun s => verSame o s c) = true
    · simp only [hany, if_true]
      constructor
      · intro h
        have := countDistinct_le (o := o) seen rest
        simp at h; omega
      · intro ⟨h1, _⟩
        obtain ⟨s, hs, hsc⟩ := List.any_eq_true.mp hany
        have := h1 c List.mem_cons_self s hs
        simp [hsc] at this
    · have hany' : seen.any (fun s => verSame o s c) = false := by
        cases hh : seen.any (fun s => verSame o s c) with
        | false => rfl
        | true => exact absurd hh hany
      simp only [hany', Bool.false_eq_true, if_false]
      have hnone : ∀ s ∈ seen, verSame o s c = false := by
        intro s hs
        cases hv : verSame o s c with
        | false => rfl
        | true => exact absurd (List.any_eq_true.mpr ⟨s, hs, hv⟩) hany
      have ih' := ih (c :: seen)
      simp only [List.length_cons, List.mem_cons, List.pairwise_cons]
      constructor
      · intro h
        have h' : countDistinct o (c :: seen) rest = rest.length := by omega
        obtain ⟨h1, h2⟩ := ih'.mp h'
        refine ⟨?_, ?_, h2⟩
        · intro d hd s hs
          rcases hd with rfl | hd
          · exact hnone s hs
          · exact h1 d hd s (List.mem_cons_of_mem _ hs)
        · intro d hd
          exact h1 d hd c List.mem_cons_self
      · intro ⟨h1, h2, h3⟩
        have : countDistinct o (c :: seen) rest = rest.length := by
          apply ih'.mpr
          refine ⟨?_, h3⟩
          intro d hd s hs
          simp only [List.mem_cons] at hs
          rcases hs with rfl | hs
          · exact h2 d hd
          · exact h1 d (Or.inr hd) s hs
        omega

theorem countDistinct_nil_iff (cs : List (Con V)) :
    countDistinct o [] cs = cs.length ↔ cs.Pairwise (fun a b => verSame o a b = false) := by
  rw [countDistinct_eq_length_iff]; simp

theorem verSame_symm [OrientedCmp cmp] (h : Lawful o cmp) (a b : Con V) :
    verSame o a b = verSame o b a := by
  cases a <;> cases b <;> simp [verSame, h.eq]
  rename_i c u d w
  have : cmp w u = (cmp u w).swap := OrientedCmp.eq_swap
  rw [this]; cases cmp u w <;> rfl

/-! ### the comparator rules of `validate_comparators` against the spec's two rules -/

theorem pairwise_any_eq_not_all {α} (l : List (α × α)) (p : α × α → Bool) :
    l.any p = !l.all (fun x => !p x) := by
  induction l with
  | nil => rfl
  | cons a t ih => simp [List.any_cons, List.all_cons, ih, Bool.not_and]

theorem validateComparators_noStar (cs : List (Con V)) (hns : noStar cs = true) :
    validateComparators cs = if eqRule cs && altRule cs then .ok true else .error .ValueError := by
  have hstar : cs.any Con.isStar = false := by
    apply Bool.eq_false_iff.mpr
    intro hh
    obtain ⟨c, hc, hs⟩ := List.any_eq_true.mp hh
    have := List.all_eq_true.mp hns c hc
    simp [hs] at this
  -- the two filters of the code are the two filters of the spec
  have hf2 : (cs.filter (fun c => !c.isNe)).filter (fun c => !c.isEq) = cs.filter Con.isBound := by
    rw [List.filter_filter]
    apply List.filter_congr
    intro c hc
    have : c.isStar = false := by simpa using List.all_eq_true.mp hns c hc
    cases c with
    | star => simp [Con.isStar] at this
    | mk k v => cases k <;> rfl
  have hrule1 : (pairwise (cs.filter (fun c => !c.isNe))).any
        (fun p => p.1.isEq && !(p.2.isEq || p.2.isLower)) = !eqRule cs := by
    unfold eqRule
    rw [pairwise_any_eq_not_all]
    congr 1
    -- elementwise: on this filtered list there is neither a star nor a "!="
    have hmem : ∀ l : List (Con V), (∀ c ∈ l, c.isStar = false ∧ c.isNe = false) →
        (pairwise l).all (fun x => !(x.1.isEq && !(x.2.isEq || x.2.isLower))) =
        (pairwise l).all (fun p => !(p.1.isEq && p.2.isUpper)) := by
      intro l
      induction l with
      | nil => intro _; rfl
      | cons a t ih =>
        intro hl
        cases t with
        | nil => rfl
        | cons b rest =>
          simp only [pairwise, List.all_cons]
          rw [ih (fun c hc => hl c (List.mem_cons_of_mem _ hc))]
          congr 1
          have hb := hl b (List.mem_cons_of_mem _ List.mem_cons_self)
          cases b with
          | star => simp [Con.isStar] at hb
          | mk k v => cases k <;> simp_all [Con.isNe, Con.isEq, Con.isLower, Con.isUpper, Cmpr.isLower, Cmpr.isUpper]
    apply hmem
    intro c hc
    have hc' := List.mem_filter.mp hc
    refine ⟨by simpa using List.all_eq_true.mp hns c hc'.1, by simpa using hc'.2⟩
  have hrule2 : (pairwise (cs.filter Con.isBound)).any
        (fun p => (p.1.isUpper && !p.2.isLower) || (p.1.isLower && !p.2.isUpper)) = !altRule cs := by
    unfold altRule
    rw [pairwise_any_eq_not_all]
    congr 1
    have hmem : ∀ l : List (Con V), (∀ c ∈ l, c.isBound = true) →
        (pairwise l).all (fun x => !((x.1.isUpper && !x.2.isLower) || (x.1.isLower && !x.2.isUpper))) =
        (pairwise l).all (fun p => p.1.isUpper != p.2.isUpper) := by
      intro l
      induction l with
      | nil => intro _; rfl
      | cons a t ih =>
        intro hl
        cases t with
        | nil => rfl
        | cons b rest =>
          simp only [pairwise, List.all_cons]
          rw [ih (fun c hc => hl c (List.mem_cons_of_mem _ hc))]
          congr 1
          have ha := hl a List.mem_cons_self
          have hb := hl b (List.mem_cons_of_mem _ List.mem_cons_self)
          cases a with
          | star => simp [Con.isBound, Con.isUpper, Con.isLower] at ha
          | mk k v =>
            cases b with
            | star => simp [Con.isBound, Con.isUpper, Con.isLower] at hb
            | mk k2 v2 =>
              cases k <;> cases k2 <;> simp_all [Con.isBound, Con.isLower, Con.isUpper, Cmpr.isLower, Cmpr.isUpper]
    apply hmem
    intro c hc
    exact (List.mem_filter.mp hc).2
  unfold validateComparators
  simp only [hstar, Bool.false_eq_true, if_false, hf2, hrule1, hrule2]
  by_cases h1 : (cs.filter (fun c => !c.isNe)).isEmpty = true
  · -- nothing but "!=": both rules hold trivially
    have e1 : cs.filter (fun c => !c.isNe) = [] := List.isEmpty_iff.mp h1
    have hb : cs.filter Con.isBound = [] := by rw [← hf2, e1]; rfl
    simp [h1, eqRule, altRule, e1, hb, pairwise]
  · simp only [h1]
    by_cases he : eqRule cs = true
    · simp only [he, Bool.not_true, Bool.false_eq_true, if_false, Bool.true_and]
      by_cases h2 : (cs.filter Con.isBound).isEmpty = true
      · have hb : cs.filter Con.isBound = [] := List.isEmpty_iff.mp h2
        simp [h2, altRule, hb, pairwise]
      · simp only [h2]
        by_cases ha : altRule cs = true <;> simp [ha]
    · simp [he]

/-! ### the main equivalence -/

theorem noStar_of_perm {s cs : List (Con V)} (hp : s.Perm cs) (hns : noStar s = true) :
    noStar cs = true := by
  apply List.all_eq_true.mpr
  intro c hc
  exact List.all_eq_true.mp hns c (hp.mem_iff.mpr hc)

theorem any_star_false_of_noStar {cs : List (Con V)} (hns : noStar cs = true) :
    cs.any Con.isStar = false := by
  apply Bool.eq_false_iff.mpr
  intro hh
  obtain ⟨c, hc, hs⟩ := List.any_eq_true.mp hh
  have := List.all_eq_true.mp hns c hc
  simp [hs] at this

theorem noStar_of_any_false {cs : List (Con V)} (h : cs.any Con.isStar = false) :
    noStar cs = true := by
  apply List.all_eq_true.mpr
  intro c hc
  cases hs : c.isStar with
  | false => rfl
  | true => exact absurd (List.any_eq_true.mpr ⟨c, hc, hs⟩) (by simp [h])

theorem strictSorted_apart (h : Lawful o cmp) (s : List (Con V)) (hs : StrictSorted cmp s) :
    s.Pairwise (fun a b => verSame o a b = false) := by
  apply List.Pairwise.imp _ hs
  intro a b hab
  cases a with
  | star => cases b <;> simp at hab
  | mk c u =>
    cases b with
    | star => simp at hab
    | mk d w =>
      have hab' : cmp u w = .lt := hab
      simp [verSame, h.eq, hab']

theorem apart_perm [OrientedCmp cmp] (h : Lawful o cmp) {s cs : List (Con V)} (hp : s.Perm cs) :
    s.Pairwise (fun a b => verSame o a b = false) ↔ cs.Pairwise (fun a b => verSame o a b = false) :=
  List.Perm.pairwise_iff (fun {x y} hxy => by rw [verSame_symm h]; exact hxy) hp

/-- sorted by `conLe`, star-free and pairwise apart: strictly sorted -/
theorem strictSorted_of_sorted_apart [TransCmp cmp] (h : Lawful o cmp) (s : List (Con V))
    (hns : noStar s = true) (hle : s.Pairwise (fun a b => conLe o a b = true))
    (hap : s.Pairwise (fun a b => verSame o a b = false)) : StrictSorted cmp s := by
  apply List.Pairwise.imp_of_mem _ (hle.and hap)
  intro a b ha hb ⟨h1, h2⟩
  have hsa : a.isStar = false := by simpa using List.all_eq_true.mp hns a ha
  have hsb : b.isStar = false := by simpa using List.all_eq_true.mp hns b hb
  cases a with
  | star => simp [Con.isStar] at hsa
  | mk c u =>
    cases b with
    | star => simp [Con.isStar] at hsb
    | mk d w =>
      show cmp u w = .lt
      rw [conLe_eq h] at h1
      simp only [verSame, h.eq] at h2
      simp only [conCmp, cmpOn, conKey, lexPair, optCmp] at h1
      cases hc : cmp u w <;> simp_all [Ordering.then, Ordering.isLE]

theorem validate_cases (cs : List (Con V)) :
    validate o cs = .ok true ∨ validate o cs = .error .ValueError := by
  unfold validate
  split
  · exact Or.inr rfl
  · split
    · exact Or.inr rfl
    · rename_i h2
      by_cases hst : cs.any Con.isStar = true
      · -- a single star
        have hlen : cs.length = 1 := by
          cases hl : (cs.length != 1) with
          | false => simpa using hl
          | true => simp [hst, hl] at h2
        match cs, hlen, hst with
        | [c], _, hst =>
          cases c with
          | star => left; simp [sortCons, validateComparators, Con.isStar]
          | mk k v => simp [Con.isStar] at hst
      · have hst' : cs.any Con.isStar = false := by
          cases hh : cs.any Con.isStar with
          | false => rfl
          | true => exact absurd hh hst
        have hns := noStar_of_any_false hst'
        rw [sortCons_noStar cs hns]
        simp only []
        have hns2 : noStar (cs.mergeSort (fun a b => conLe o a b)) = true :=
          noStar_of_perm (List.mergeSort_perm cs _).symm hns
        rw [validateComparators_noStar _ hns2]
        split
        · exact Or.inl rfl
        · exact Or.inr rfl

theorem validate_ok_iff_wf [TransCmp cmp] (h : Lawful o cmp) (cs : List (Con V)) :
    validate o cs = .ok true ↔ WF cmp cs := by
  constructor
  · intro hv
    unfold validate at hv
    split at hv
    · cases hv
    · rename_i h1
      have hcd : countDistinct o [] cs = cs.length := by
        cases hh : (countDistinct o [] cs != cs.length) with
        | false => simpa using hh
        | true => exact absurd hh h1
      have hap := (countDistinct_nil_iff cs).mp hcd
      split at hv
      · cases hv
      · rename_i h2
        by_cases hst : cs.any Con.isStar = true
        · have hlen : cs.length = 1 := by
            cases hl : (cs.length != 1) with
            | false => simpa using hl
            | true => simp [hst, hl] at h2
          match cs, hlen, hst with
          | [c], _, hst =>
            cases c with
            | star => exact ⟨[.star], List.Perm.refl _, Or.inl rfl⟩
            | mk k v => simp [Con.isStar] at hst
        · have hst' : cs.any Con.isStar = false := by
            cases hh : cs.any Con.isStar with
            | false => rfl
            | true => exact absurd hh hst
          have hns := noStar_of_any_false hst'
          rw [sortCons_noStar cs hns] at hv
          simp only [] at hv
          have hperm := List.mergeSort_perm cs (fun a b => conLe o a b)
          have hns2 : noStar (cs.mergeSort (fun a b => conLe o a b)) = true :=
            noStar_of_perm hperm.symm hns
          rw [validateComparators_noStar _ hns2] at hv
          have hrules : (eqRule (cs.mergeSort (fun a b => conLe o a b)) &&
              altRule (cs.mergeSort (fun a b => conLe o a b))) = true := by
            cases hr : (eqRule (cs.mergeSort (fun a b => conLe o a b)) &&
              altRule (cs.mergeSort (fun a b => conLe o a b))) with
            | true => rfl
            | false => simp [hr] at hv
          have hpw := List.pairwise_mergeSort (le := fun a b => conLe o a b)
            (fun a b c => conLe_trans h a b c) (fun a b => conLe_total h a b) cs
          have hap2 := (apart_perm h hperm).mpr hap
          have hss := strictSorted_of_sorted_apart h _ hns2 hpw hap2
          simp only [Bool.and_eq_true] at hrules
          exact ⟨_, hperm, Or.inr ⟨hns2, hss, hrules.1, hrules.2⟩⟩
  · intro ⟨s, hp, hw⟩
    rcases hw with rfl | ⟨hns, hs, he, ha⟩
    · have : cs = [.star] := List.perm_singleton.mp hp.symm
      subst this
      simp [validate, countDistinct, sortCons, validateComparators, Con.isStar]
    · have hns' := noStar_of_perm hp hns
      have hap : cs.Pairwise (fun a b => verSame o a b = false) :=
        (apart_perm h hp).mp (strictSorted_apart h s hs)
      have hcd := (countDistinct_nil_iff cs).mpr hap
      unfold validate
      simp only [hcd, bne_self_eq_false, Bool.false_eq_true, if_false,
        any_star_false_of_noStar hns', Bool.false_and]
      rw [sortCons_eq_of_perm h cs s hp hns hs]
      simp only []
      rw [validateComparators_noStar s hns]
      simp [he, ha]

end Univers
