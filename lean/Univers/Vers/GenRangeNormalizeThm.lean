/-
Agreement theorems for `VersionRange.from_versions` and `VersionRange.normalize` as translated from
`univers/version_range.py` on every run (`Univers/Gen/PyRangeFromVersions.lean`, `PyRangeNormalize.lean`): they are
the model's `fromVersions` and `normalize` that the theorems of C10 are about.

Versions are given already constructed: `self.version_class(text)` is Layer A's business and is read as the
identity by the translator; the class guards (`isinstance`, `cls.scheme`) are C14's business and hold of every
concrete range class.
-/
import Univers.Gen.PyRangeFromVersions
import Univers.Gen.PyRangeNormalize
import Univers.Vers.GenRangeContainsThm

namespace Univers.Gen.LayerB
open Univers Univers.PyRt

variable {V : Type} (o : VOps V) (perm : List (Con V) → List (Con V))

/-! ### `from_versions` -/

theorem from_versions_for_eq (u : Unit) (vs0 vs : List V) (acc : List (Con V)) :
    pyFor vs acc (range_from_versions_for1_body o perm u vs0) (range_from_versions_for1_after o perm u vs0)
      = sortCons o (acc ++ vs.map (fun v => .mk .eq v)) := by
  induction vs generalizing acc with
  | nil => simp [range_from_versions_for1_after, mkRangeOfList]
  | cons v vs ih =>
    simp only [pyFor_cons, range_from_versions_for1_body, mkCon, bind, Except.bind, Step.cont_next, List.map_cons]
    rw [ih]
    simp

/-- **`VersionRange.from_versions` as translated is the model's `fromVersions`.** -/
theorem range_from_versions_eq (vs : List V) : range_from_versions o perm () vs = fromVersions o vs := by
  unfold range_from_versions fromVersions mkRange
  simpa using from_versions_for_eq o perm () vs vs []

/-! ### `normalize` -/

theorem for3_is_for2 :
    @range_normalize_for3_body V = @range_normalize_for2_body V ∧ @range_normalize_for3_after V = @range_normalize_for2_after V :=
  ⟨rfl, rfl⟩

/-- the constraints of one non-empty segment, as the second loop appends them -/
theorem seg_step (cs : List (Con V)) (ks vs : List V) (R : List (List V)) (cont : List V) (seg : List V)
    (acc : List (Con V)) (hne : seg ≠ []) :
    range_normalize_for2_body o perm cs ks vs R cont seg acc = .ok (.next (acc ++ segCons o seg)) := by
  unfold range_normalize_for2_body segCons
  cases seg with
  | nil => exact absurd rfl hne
  | cons a rest =>
    have hl : last (a :: rest) = .ok ((a :: rest).getLast (by simp)) := by
      simp [last, List.getLast?_eq_getLast]
    have hg : (a :: rest).getLast? = some ((a :: rest).getLast (by simp)) := List.getLast?_eq_getLast _
    simp only [index, List.getElem?_cons_zero, hl, bind, Except.bind, mkCon, List.head?_cons, hg]
    by_cases h : o.eq a ((a :: rest).getLast (by simp)) = true
    · simp [h]
    · simp [h]

theorem norm_for2_eq (cs : List (Con V)) (ks vs : List V) (R0 : List (List V)) (cont : List V) (R : List (List V))
    (acc : List (Con V)) (hne : ∀ seg ∈ R, seg ≠ []) :
    pyFor R acc (range_normalize_for2_body o perm cs ks vs R0 cont) (range_normalize_for2_after o perm cs ks vs R0 cont)
      = sortCons o (acc ++ R.flatMap (segCons o)) := by
  induction R generalizing acc with
  | nil => simp [range_normalize_for2_after, mkRangeOfList]
  | cons seg R ih =>
    simp only [pyFor_cons, seg_step o perm cs ks vs R0 cont seg acc (hne seg (List.mem_cons_self ..)), Step.cont_next,
      List.flatMap_cons]
    rw [ih _ (fun s hs => hne s (List.mem_cons_of_mem _ hs))]
    simp

/-- segments produced by `groupRuns` are never empty -/
theorem groupRuns_nonempty (ms : List (V × Bool)) (cur : List V) : ∀ seg ∈ groupRuns ms cur, seg ≠ [] := by
  induction ms generalizing cur with
  | nil =>
    intro seg hs
    unfold groupRuns at hs
    by_cases h : cur.isEmpty = true
    · simp [h] at hs
    · simp only [h, Bool.false_eq_true, ↓reduceIte, List.mem_singleton] at hs
      subst hs
      intro he
      have : cur = [] := by simpa using he
      simp [this] at h
  | cons m ms ih =>
    obtain ⟨k, b⟩ := m
    intro seg hs
    unfold groupRuns at hs
    cases b with
    | true => exact ih _ seg (by simpa using hs)
    | false =>
      by_cases h : cur.isEmpty = true
      · exact ih _ seg (by simpa [h] using hs)
      · simp only [Bool.false_eq_true, ↓reduceIte, h, List.mem_cons] at hs
        rcases hs with hs | hs
        · subst hs
          intro he
          have : cur = [] := by simpa using he
          simp [this] at h
        · exact ih _ seg hs

/-- the statements after the first loop: flush the open run, then the second loop -/
theorem norm_for1_after_eq (cs : List (Con V)) (ks vs : List V) (cont : List V) (res : List (List V))
    (hne : ∀ seg ∈ res, seg ≠ []) :
    range_normalize_for1_after o perm cs ks vs (cont, res)
      = sortCons o ((res ++ (if cont.isEmpty then [] else [cont])).flatMap (segCons o)) := by
  unfold range_normalize_for1_after
  by_cases h : cont.isEmpty = true
  · simp only [truthy, h, Bool.not_true, Bool.false_eq_true, ↓reduceIte, for3_is_for2.1, for3_is_for2.2]
    rw [norm_for2_eq o perm cs ks vs _ _ res [] hne]
    simp
  · have hc : cont ≠ [] := by intro he; simp [he] at h
    simp only [truthy, h, Bool.not_false, ↓reduceIte, Bool.false_eq_true]
    rw [norm_for2_eq o perm cs ks vs _ _ (res ++ [cont]) []]
    · simp
    · intro seg hs
      rcases List.mem_append.mp hs with hs | hs
      · exact hne seg hs
      · simp at hs; subst hs; exact hc

/-- the first loop is `memAll` followed by `groupRuns` (the open run `cont` is the model's `cur`, kept reversed there) -/
theorem norm_for1_eq (cs : List (Con V)) (ks vs0 vs : List V) (cont : List V) (res : List (List V))
    (hne : ∀ seg ∈ res, seg ≠ []) :
    pyFor vs (cont, res) (range_normalize_for1_body o perm cs ks vs0) (range_normalize_for1_after o perm cs ks vs0)
      = (match memAll o cs vs with
         | .error e => .error e
         | .ok ms => sortCons o ((res ++ groupRuns ms cont.reverse).flatMap (segCons o))) := by
  induction vs generalizing cont res with
  | nil =>
    simp only [pyFor_nil, memAll, norm_for1_after_eq o perm cs ks vs0 cont res hne, groupRuns]
    by_cases h : cont.isEmpty = true
    · have : cont.reverse.isEmpty = true := by simpa using h
      simp [h, this]
    · have : cont.reverse.isEmpty = false := by simpa using h
      simp [h, this]
  | cons v vs ih =>
    simp only [pyFor_cons, range_normalize_for1_body, range_contains_eq, memAll, bind, Except.bind]
    cases hc : containsVersion o v cs with
    | error e => simp
    | ok b =>
      cases b with
      | true =>
        simp only [↓reduceIte, Step.cont_next]
        rw [ih _ _ hne]
        cases memAll o cs vs with
        | error e => rfl
        | ok ms => simp [groupRuns]
      | false =>
        by_cases h : cont.isEmpty = true
        · have hr : cont.reverse.isEmpty = true := by simpa using h
          simp only [Bool.false_eq_true, ↓reduceIte, truthy, h, Bool.not_true, Step.cont_next]
          rw [ih _ _ hne]
          cases memAll o cs vs with
          | error e => rfl
          | ok ms =>
            have : cont = [] := by simpa using h
            simp [groupRuns, this]
        · have hr : cont.reverse.isEmpty = false := by simpa using h
          have hcne : cont ≠ [] := by intro he; simp [he] at h
          simp only [Bool.false_eq_true, ↓reduceIte, truthy, h, Bool.not_false, Step.cont_next]
          rw [ih [] (res ++ [cont])]
          · cases memAll o cs vs with
            | error e => rfl
            | ok ms => simp [groupRuns, hr]
          · intro seg hs
            rcases List.mem_append.mp hs with hs | hs
            · exact hne seg hs
            · simp at hs; subst hs; exact hcne

/-- **`VersionRange.normalize` as translated is the model's `normalize`.** -/
theorem range_normalize_eq (cs : List (Con V)) (ks : List V) :
    range_normalize o perm cs ks = normalize o cs ks := by
  unfold range_normalize normalize mkRange
  show pyFor (sortVers o ks) ([], []) _ _ = _
  rw [norm_for1_eq o perm cs ks _ _ [] [] (by simp)]
  cases memAll o cs (sortVers o ks) with
  | error e => rfl
  | ok ms => simp

end Univers.Gen.LayerB
