/-
Agreement theorems for `VersionRange.is_star` and `VersionRange.invert` as translated from
`univers/version_range.py` on every run (`Univers/Gen/PyRangeIsStar.lean`, `PyRangeInvert.lean`): they are the
model's `invertRange` that the theorems of C09 are about.

Versions are given already constructed: `self.version_class(text)` is Layer A's business and is read as the
identity by the translator; the class guards (`isinstance`, `cls.scheme`) are C14's business and hold of every
concrete range class.
-/
import Univers.Gen.PyRangeInvert
import Univers.Vers.GenConInvertThm

namespace Univers.Gen.LayerB
open Univers Univers.PyRt

variable {V : Type} (o : VOps V) (perm : List (Con V) → List (Con V))

/-! ### `is_star`, `invert` -/

theorem range_is_star_eq (cs : List (Con V)) :
    range_is_star o perm cs = .ok (match cs with | [.star] => true | _ => false) := by
  unfold range_is_star
  match cs with
  | [] => rfl
  | [c] => cases c with
    | star => rfl
    | mk k v => cases k <;> rfl
  | a :: b :: rest => simp

theorem invert_for_eq (cs0 cs : List (Con V)) (acc : List (Option (Con V))) :
    pyFor cs acc (range_invert_for1_body o perm cs0) (range_invert_for1_after o perm cs0)
      = (mkRangeOfOpts o (acc ++ cs.map Con.invert) >>= fun r => .ok (some r)) := by
  induction cs generalizing acc with
  | nil => simp [range_invert_for1_after]
  | cons c cs ih =>
    simp only [pyFor_cons, range_invert_for1_body, con_invert_eq, bind, Except.bind, Step.cont_next, List.map_cons]
    rw [ih]
    simp [bind, Except.bind]

theorem all_isSome_map_invert (cs : List (Con V)) :
    (cs.map Con.invert).all Option.isSome = !cs.any Con.isStar := by
  induction cs with
  | nil => rfl
  | cons c cs ih => cases c <;> simp [Con.invert, Con.isStar, ih]

theorem filterMap_id_map_invert (cs : List (Con V)) : (cs.map Con.invert).filterMap id = cs.filterMap Con.invert := by
  induction cs with
  | nil => rfl
  | cons c cs ih => cases c <;> simp [List.filterMap_cons, Con.invert, ih]

/-- **`VersionRange.invert` as translated is the model's `invertRange`** (`None` for the star range, the sorted
inverted constraints otherwise; a star among other constraints is the `TypeError` of sorting `None`). -/
theorem range_invert_eq (cs : List (Con V)) :
    range_invert o perm cs =
      (match invertRange o cs with
       | none => .ok none
       | some (.ok r) => .ok (some r)
       | some (.error e) => .error e) := by
  unfold range_invert
  simp only [range_is_star_eq, bind, Except.bind]
  match cs with
  | [.star] => rfl
  | [] =>
    simp only [Bool.false_eq_true, ↓reduceIte]
    rw [invert_for_eq]
    simp only [invertRange, List.map_nil, List.append_nil, mkRangeOfOpts, List.all_nil, ↓reduceIte, List.filterMap_nil,
      List.any_nil, Bool.false_eq_true, mkRange, bind, Except.bind]
    cases sortCons o ([] : List (Con V)) <;> rfl
  | [.mk k v] =>
    simp only [Bool.false_eq_true, ↓reduceIte]
    rw [invert_for_eq]
    simp only [invertRange, List.nil_append, mkRangeOfOpts, all_isSome_map_invert, filterMap_id_map_invert, mkRange,
      List.any_cons, Con.isStar, List.any_nil, Bool.or_false, Bool.not_false, ↓reduceIte, Bool.false_eq_true, bind,
      Except.bind]
    cases sortCons o (List.filterMap Con.invert [Con.mk k v]) <;> rfl
  | a :: b :: rest =>
    simp only [Bool.false_eq_true, ↓reduceIte]
    rw [invert_for_eq]
    simp only [invertRange, List.nil_append, mkRangeOfOpts, all_isSome_map_invert, filterMap_id_map_invert, mkRange]
    cases h : (a :: b :: rest).any Con.isStar
    · simp only [Bool.not_false, ↓reduceIte, Bool.false_eq_true, bind, Except.bind]
      cases sortCons o (List.filterMap Con.invert (a :: b :: rest)) <;> rfl
    · simp [bind, Except.bind]

end Univers.Gen.LayerB
