/-
Helper proofs for C10, part 2: the grouping loop of `VersionRange.normalize` as a block
builder, and its specification on a version-sorted list of known versions.
-/
import Univers.Vers.NormalizeThm

namespace Univers

open Std

variable {V : Type} {o : VOps V} {cmp : V → V → Ordering}

/-- the open block once the member `k` joined it -/
def extendCur (cur : Option (V × V)) (k : V) : V × V :=
  match cur with
  | none => (k, k)
  | some b => (b.1, k)

/-- the grouping loop, producing closed blocks `(lo, hi)`; `cur` is the open block -/
def goBlocks (mem : V → Bool) : List V → Option (V × V) → List (V × V)
  | [], none => []
  | [], some b => [b]
  | k :: t, cur =>
      if mem k then
        goBlocks mem t (some (extendCur cur k))
      else match cur with
        | none => goBlocks mem t none
        | some b => b :: goBlocks mem t none

/-- the open block of the accumulator `contiguous` (kept reversed in the model) -/
def curBlock (cur : List V) : Option (V × V) :=
  match cur.getLast?, cur.head? with
  | some lo, some hi => some (lo, hi)
  | _, _ => none

theorem curBlock_cons (k : V) (cur : List V) :
    curBlock (k :: cur) = some (extendCur (curBlock cur) k) := by
  cases cur with
  | nil => rfl
  | cons c t =>
    simp only [curBlock, List.head?_cons, List.getLast?_cons_cons, extendCur]
    cases hl : (c :: t).getLast? with
    | none => simp at hl
    | some lo => rfl

theorem segCons_reverse (cur : List V) :
    (if cur.isEmpty then [] else segCons o cur.reverse) =
      (match curBlock cur with | none => [] | some b => blockCons o b) := by
  cases cur with
  | nil => rfl
  | cons c t =>
    simp only [List.isEmpty_cons, Bool.false_eq_true, if_false, segCons, List.head?_reverse,
      List.getLast?_reverse, curBlock, List.head?_cons]
    cases hl : (c :: t).getLast? with
    | none => simp at hl
    | some lo => simp [blockCons]

/-- the model's loop, block by block -/
theorem groupRuns_eq_goBlocks (mem : V → Bool) : ∀ (S cur : List V),
    (groupRuns (S.map (fun k => (k, mem k))) cur).flatMap (segCons o) =
      (goBlocks mem S (curBlock cur)).flatMap (blockCons o)
  | [], cur => by
    have := segCons_reverse (o := o) cur
    cases cur with
    | nil => rfl
    | cons c t =>
      simp only [List.isEmpty_cons, Bool.false_eq_true, if_false] at this
      simp only [List.map_nil, groupRuns, List.isEmpty_cons, Bool.false_eq_true, if_false,
        List.flatMap_cons, List.flatMap_nil, List.append_nil, this]
      cases hcb : curBlock (c :: t) with
      | none => simp [curBlock] at hcb; cases hl : (c :: t).getLast? <;> simp_all
      | some b => simp [goBlocks]
  | k :: t, cur => by
    simp only [List.map_cons, groupRuns, goBlocks]
    by_cases hm : mem k = true
    · simp only [hm, if_true]
      rw [groupRuns_eq_goBlocks mem t (k :: cur), curBlock_cons]
    · have hm' : mem k = false := by cases hh : mem k <;> simp_all
      simp only [hm', Bool.false_eq_true, if_false]
      cases cur with
      | nil =>
        simp only [List.isEmpty_nil, if_true]
        rw [groupRuns_eq_goBlocks mem t []]
        rfl
      | cons c t' =>
        have hs := segCons_reverse (o := o) (c :: t')
        simp only [List.isEmpty_cons, Bool.false_eq_true, if_false] at hs ⊢
        rw [List.flatMap_cons, groupRuns_eq_goBlocks mem t [], hs]
        cases hcb : curBlock (c :: t') with
        | none => simp [curBlock] at hcb; cases hl : (c :: t').getLast? <;> simp_all
        | some b => simp [curBlock]

/-- `a ≤ b` -/
abbrev le' (cmp : V → V → Ordering) (a b : V) : Prop := cmp a b ≠ .gt

theorem le'_trans [TransCmp cmp] {a b c : V} (h1 : le' cmp a b) (h2 : le' cmp b c) : le' cmp a c := by
  have := TransCmp.isLE_trans (cmp := cmp) (a := a) (b := b) (c := c)
    (by cases hc : cmp a b <;> simp_all [Ordering.isLE, le'])
    (by cases hc : cmp b c <;> simp_all [Ordering.isLE, le'])
  intro e; rw [e] at this; simp [Ordering.isLE] at this

theorem lt_of_le'_ne [OrientedCmp cmp] {a b : V} (h1 : le' cmp a b) (h2 : cmp a b ≠ .eq) : cmp a b = .lt := by
  cases hc : cmp a b <;> simp_all [le']

theorem inBlock_false_of_lt_lo [OrientedCmp cmp] {x : V} {b : V × V} (h : cmp x b.1 = .lt) :
    inBlock cmp x b = false := by
  have : cmp b.1 x = .gt := OrientedCmp.gt_of_lt h
  simp [inBlock, this]

theorem inBlock_false_of_gt_hi [OrientedCmp cmp] {x : V} {b : V × V} (h : cmp b.2 x = .lt) :
    inBlock cmp x b = false := by
  have : cmp x b.2 = .gt := OrientedCmp.gt_of_lt h
  simp [inBlock, this]

/-- what the third conjunct of `go_spec` says about the shape of the result -/
def goShape (mem : V → Bool) (S : List V) (cur : Option (V × V)) (bs : List (V × V)) : Prop :=
  match cur with
  | none => ∀ b ∈ bs, b.1 ∈ S ∧ mem b.1 = true ∧ b.2 ∈ S
  | some c => ∃ hi' rest, bs = (c.1, hi') :: rest ∧ le' cmp c.2 hi' ∧ (hi' = c.2 ∨ hi' ∈ S) ∧
      ∀ b ∈ rest, b.1 ∈ S ∧ mem b.1 = true ∧ b.2 ∈ S

theorem go_spec [TransCmp cmp] (mem : V → Bool) (hmem : ∀ a b, cmp a b = .eq → mem a = mem b) :
    ∀ (S : List V) (cur : Option (V × V)),
      S.Pairwise (le' cmp) →
      (∀ c, cur = some c → le' cmp c.1 c.2 ∧ mem c.2 = true ∧ ∀ s ∈ S, le' cmp c.2 s) →
      blocksSorted cmp (goBlocks mem S cur) ∧
      (∀ k ∈ S, (goBlocks mem S cur).any (inBlock cmp k) = mem k) ∧
      goShape (cmp := cmp) mem S cur (goBlocks mem S cur)
  | [], none, _, _ => by
    refine ⟨trivial, ?_, ?_⟩
    · intro k hk; cases hk
    · intro b hb; cases hb
  | [], some c, _, hc => by
    obtain ⟨h1, _, _⟩ := hc c rfl
    refine ⟨h1, ?_, ⟨c.2, [], rfl, ?_, Or.inl rfl, ?_⟩⟩
    · intro k hk; cases hk
    · intro e; rw [cmp_self_eq (cmp := cmp)] at e; cases e
    · intro b hb; cases hb
  | k :: t, cur, hs, hc => by
    have hst : t.Pairwise (le' cmp) := (List.pairwise_cons.mp hs).2
    have hkt : ∀ s ∈ t, le' cmp k s := (List.pairwise_cons.mp hs).1
    by_cases hm : mem k = true
    · -- k joins (or opens) the current block
      let cur' : V × V := extendCur cur k
      have hcur' : ∀ c, some cur' = some c → le' cmp c.1 c.2 ∧ mem c.2 = true ∧ ∀ s ∈ t, le' cmp c.2 s := by
        intro c e
        injection e with e; subst e
        refine ⟨?_, ?_, ?_⟩
        · cases cur with
          | none => show le' cmp k k; intro e; rw [cmp_self_eq (cmp := cmp)] at e; cases e
          | some b =>
            obtain ⟨h1, _, h3⟩ := hc b rfl
            exact le'_trans h1 (h3 k List.mem_cons_self)
        · cases cur <;> exact hm
        · cases cur <;> exact hkt
      have ih := go_spec mem hmem t (some cur') hst hcur'
      have hgo : goBlocks mem (k :: t) cur = goBlocks mem t (some cur') := by
        simp only [goBlocks, hm, if_true]; rfl
      rw [hgo]
      obtain ⟨ih1, ih2, hi', rest, hbs, hle, hmemhi, hrest⟩ := ih
      have hlo' : le' cmp cur'.1 k := (hcur' cur' rfl).1 |> fun h => by
        cases cur with
        | none => exact h
        | some b => exact h
      have hcur'2 : cur'.2 = k := by cases cur <;> rfl
      refine ⟨ih1, ?_, ?_⟩
      · intro x hx
        simp only [List.mem_cons] at hx
        rcases hx with rfl | hx
        · rw [hbs, List.any_cons]
          have : inBlock cmp x (cur'.1, hi') = true := by
            have h1 : cmp cur'.1 x ≠ .gt := hlo'
            have h2 : cmp x hi' ≠ .gt := by rw [hcur'2] at hle; exact hle
            simp [inBlock, h1, h2]
          rw [this, hm]; rfl
        · exact ih2 x hx
      · cases cur with
        | none =>
          intro b hb
          rw [hbs] at hb
          simp only [List.mem_cons] at hb
          rcases hb with rfl | hb
          · refine ⟨List.mem_cons_self, hm, ?_⟩
            rcases hmemhi with e | e
            · rw [e]; exact List.mem_cons_self
            · exact List.mem_cons_of_mem _ e
          · obtain ⟨a1, a2, a3⟩ := hrest b hb
            exact ⟨List.mem_cons_of_mem _ a1, a2, List.mem_cons_of_mem _ a3⟩
        | some b =>
          obtain ⟨h1, _, h3⟩ := hc b rfl
          refine ⟨hi', rest, hbs, ?_, Or.inr ?_, ?_⟩
          · have : le' cmp k hi' := by rw [hcur'2] at hle; exact hle
            exact le'_trans (h3 k List.mem_cons_self) this
          · rcases hmemhi with e | e
            · rw [e]; exact List.mem_cons_self
            · exact List.mem_cons_of_mem _ e
          · intro c hc'
            obtain ⟨a1, a2, a3⟩ := hrest c hc'
            exact ⟨List.mem_cons_of_mem _ a1, a2, List.mem_cons_of_mem _ a3⟩
    · -- k is not a member: the open block, if any, is closed
      have hm' : mem k = false := by cases hh : mem k <;> simp_all
      have ih := go_spec mem hmem t none hst (fun c e => by cases e)
      obtain ⟨ih1, ih2, ih3⟩ := ih
      have ih3' : ∀ b ∈ goBlocks mem t none, b.1 ∈ t ∧ mem b.1 = true ∧ b.2 ∈ t := ih3
      -- k is strictly below the start of every later block
      have hbelow : ∀ b ∈ goBlocks mem t none, cmp k b.1 = .lt := by
        intro b hb
        obtain ⟨a1, a2, _⟩ := ih3' b hb
        apply lt_of_le'_ne (hkt b.1 a1)
        intro e
        have := hmem k b.1 e
        rw [hm', a2] at this; cases this
      have hnotin : (goBlocks mem t none).any (inBlock cmp k) = false := by
        apply Bool.eq_false_iff.mpr
        intro hh
        obtain ⟨b, hb, hbb⟩ := List.any_eq_true.mp hh
        rw [inBlock_false_of_lt_lo (hbelow b hb)] at hbb; cases hbb
      cases cur with
      | none =>
        have hgo : goBlocks mem (k :: t) none = goBlocks mem t none := by
          simp only [goBlocks, hm', Bool.false_eq_true, if_false]
        rw [hgo]
        refine ⟨ih1, ?_, ?_⟩
        · intro x hx
          simp only [List.mem_cons] at hx
          rcases hx with rfl | hx
          · rw [hnotin, hm']
          · exact ih2 x hx
        · intro b hb
          obtain ⟨a1, a2, a3⟩ := ih3' b hb
          exact ⟨List.mem_cons_of_mem _ a1, a2, List.mem_cons_of_mem _ a3⟩
      | some c =>
        obtain ⟨h1, h2, h3⟩ := hc c rfl
        have hgo : goBlocks mem (k :: t) (some c) = c :: goBlocks mem t none := by
          simp only [goBlocks, hm', Bool.false_eq_true, if_false]
        rw [hgo]
        -- the closed block ends strictly below k
        have hck : cmp c.2 k = .lt := by
          apply lt_of_le'_ne (h3 k List.mem_cons_self)
          intro e
          have := hmem c.2 k e
          rw [h2, hm'] at this; cases this
        refine ⟨?_, ?_, ⟨c.2, goBlocks mem t none, rfl, ?_, Or.inl rfl, ?_⟩⟩
        · cases hg : goBlocks mem t none with
          | nil => exact h1
          | cons d rest =>
            refine ⟨h1, ?_, ?_⟩
            · have := hbelow d (by rw [hg]; exact List.mem_cons_self)
              exact TransCmp.lt_trans hck this
            · rw [← hg]; exact ih1
        · intro x hx
          simp only [List.mem_cons] at hx
          rw [List.any_cons]
          rcases hx with rfl | hx
          · rw [inBlock_false_of_gt_hi hck, hnotin, hm']; rfl
          · have : cmp c.2 x = .lt :=
              TransCmp.lt_of_lt_of_isLE hck (by
                have := hkt x hx
                cases hc' : cmp k x <;> simp_all [Ordering.isLE, le'])
            rw [inBlock_false_of_gt_hi this, Bool.false_or]
            exact ih2 x hx
        · intro e; rw [cmp_self_eq (cmp := cmp)] at e; cases e
        · intro b hb
          obtain ⟨a1, a2, a3⟩ := ih3' b hb
          exact ⟨List.mem_cons_of_mem _ a1, a2, List.mem_cons_of_mem _ a3⟩

end Univers
