/-
Layer B — MODEL of the constraint algebra in `univers/version_constraint.py` and the
generic part of `univers/version_range.py`.

Everything here mirrors the Python statement by statement; nothing here says what the
functions are *for* (that is `Univers/Vers/Spec.lean`).  No Mathlib, so that the driver links.

A version is an abstract value `V`; the six rich-comparison results the Python obtains from
`version <op> other` are the six fields of `VOps`.  A constraint is `star` (comparator "*",
`version=None`) or a comparator among the six others with a version.
-/
namespace Univers

/-- The six comparators that carry a version, in the order of the `COMPARATORS` dict
(the star comparator is the constructor `Con.star`). -/
inductive Cmpr where
  | ge | le | ne | lt | gt | eq
  deriving DecidableEq, Repr, Inhabited

namespace Cmpr

/-- Text of the comparator as it appears in `COMPARATORS`. -/
def text : Cmpr → String
  | ge => ">=" | le => "<=" | ne => "!=" | lt => "<" | gt => ">" | eq => "="

def all : List Cmpr := [ge, le, ne, lt, gt, eq]

/-- `comparator in ("<", "<=")` -/
def isUpper : Cmpr → Bool
  | lt => true | le => true | _ => false

/-- `comparator in (">", ">=")` -/
def isLower : Cmpr → Bool
  | gt => true | ge => true | _ => false

/-- `"=" in comparator` (a substring test in the Python). -/
def hasEqChar : Cmpr → Bool
  | ge => true | le => true | ne => true | eq => true | _ => false

/-- `"!=" in comparator` (a substring test in the Python). -/
def hasNeSub : Cmpr → Bool
  | ne => true | _ => false

/-- Rank of the comparator text in Python's `str` order:
`"!=" < "*" < "<" < "<=" < "=" < ">" < ">="` (star has rank 1). -/
def strRank : Cmpr → Nat
  | ne => 0 | lt => 2 | le => 3 | eq => 4 | gt => 5 | ge => 6

end Cmpr

/-- Errors the modelled code can raise. -/
inductive Err where
  | ValueError | TypeError | InvalidConstraintsError | KeyError
  -- raised only by the run-time of the translated code (`Vers/PyRt.lean`)
  | AttributeError | IndexError | OutOfFuel
  deriving DecidableEq, Repr, Inhabited

/-- The results of the six rich comparisons between two versions of one scheme, as Python
dispatches them for that class. -/
structure VOps (V : Type) where
  lt : V → V → Bool
  le : V → V → Bool
  gt : V → V → Bool
  ge : V → V → Bool
  eq : V → V → Bool
  ne : V → V → Bool

/-- `COMPARATORS[comparator]` applied as `comp_operator(version, self.version)`. -/
def VOps.op {V} (o : VOps V) : Cmpr → V → V → Bool
  | .ge => o.ge | .le => o.le | .ne => o.ne | .lt => o.lt | .gt => o.gt | .eq => o.eq

/-- A `VersionConstraint`: the star, or a comparator with a version. -/
inductive Con (V : Type) where
  | star : Con V
  | mk (c : Cmpr) (v : V) : Con V
  deriving Repr, Inhabited

namespace Con
variable {V : Type}

def isStar : Con V → Bool
  | star => true | _ => false

def cmpr? : Con V → Option Cmpr
  | star => none | mk c _ => some c

def ver? : Con V → Option V
  | star => none | mk _ v => some v

/-- rank of the comparator text for `str` comparison -/
def strRank : Con V → Nat
  | star => 1 | mk c _ => c.strRank

def isUpper : Con V → Bool
  | mk c _ => c.isUpper | _ => false

def isLower : Con V → Bool
  | mk c _ => c.isLower | _ => false

def isBound (c : Con V) : Bool := c.isUpper || c.isLower

def isNe : Con V → Bool
  | mk .ne _ => true | _ => false

def isEq : Con V → Bool
  | mk .eq _ => true | _ => false

/-- `VersionConstraint.__contains__` (the `isinstance` guard is in the typed model vacuous). -/
def sat (o : VOps V) (x : V) : Con V → Bool
  | star => true
  | mk c v => o.op c x v

/-- `version == constraint.version`; for a star the right-hand side is `None` and the
answer is `False`. -/
def verEq (o : VOps V) (x : V) : Con V → Bool
  | star => false
  | mk _ v => o.eq x v

/-- `VersionConstraint.invert` with the table of `INVERTED_COMPARATORS`. -/
def invertCmpr : Cmpr → Cmpr
  | .ge => .lt | .le => .gt | .ne => .eq | .lt => .ge | .gt => .le | .eq => .ne

def invert : Con V → Option (Con V)
  | star => none
  | mk c v => some (mk (invertCmpr c) v)

end Con

open Con

variable {V : Type}

/-! ### `contains_version` -/

/-- The `for cur, nxt in pairwise(constraints)` loop of `contains_version`, followed by the
statement after the loop.  `first` is `first_iteration`. -/
def scanLoop (o : VOps V) (x : V) : Bool → List (Con V) → Except Err Bool
  | _, [] => .ok false
  -- after the loop: `nxt_comp in (">", ">=") and version > nxt_constraint.version`
  | _, [.mk c v] => .ok (c.isLower && o.gt x v)
  | _, [.star] => .ok false
  | first, .mk c v :: .mk d w :: rest =>
      if first && (c.isUpper && o.lt x v) then .ok true
      else if c.isLower && d.isUpper then
        if o.gt x v && o.lt x w then .ok true else scanLoop o x false (.mk d w :: rest)
      else if c.isUpper && d.isLower then scanLoop o x false (.mk d w :: rest)
      else .error .InvalidConstraintsError
  -- a star comparator is in none of the tuples tested by the loop body
  | first, .mk c v :: .star :: _ =>
      if first && (c.isUpper && o.lt x v) then .ok true else .error .InvalidConstraintsError
  | _, .star :: _ :: _ => .error .InvalidConstraintsError

/-- `"!=" in constraint.comparator` (substring test; the star comparator is "*") -/
def Con.hasNeSub : Con V → Bool
  | .mk k _ => k.hasNeSub
  | .star => false

/-- `"=" in constraint.comparator` -/
def Con.hasEqChar : Con V → Bool
  | .mk k _ => k.hasEqChar
  | .star => false

/-- the end of `contains_version`, on the list `bs` that is left once "=" and "!=" are
filtered out of `cs` -/
def containsBounds (o : VOps V) (x : V) (cs bs : List (Con V)) : Except Err Bool :=
  match bs with
  | [] =>
      -- FIXED CODE (fix: ranges made only of "!=" constraints): `unequal_only`
      .ok (!cs.isEmpty && cs.all (fun c => c.isNe))
  | [c] => .ok (c.sat o x)
  | _ => scanLoop o x true bs

/-- `contains_version` after the single-constraint shortcut -/
def containsMulti (o : VOps V) (x : V) (cs : List (Con V)) : Except Err Bool :=
  if cs.any (fun c => c.hasNeSub && c.verEq o x) then .ok false
  else if cs.any (fun c => c.hasEqChar && c.verEq o x) then .ok true
  else containsBounds o x cs (cs.filter (fun c => !(c.isEq || c.isNe)))

/-- `contains_version(version, constraints)` -/
def containsVersion (o : VOps V) (x : V) (cs : List (Con V)) : Except Err Bool :=
  match cs with
  | [c] => .ok (c.sat o x)
  | _ => containsMulti o x cs

/-! ### sorting: `VersionConstraint.__lt__` and `sorted` / `list.sort` -/

/-- `(self.version, self.comparator).__lt__((other.version, other.comparator))` for two
non-star constraints: the first element that is not `==` decides. -/
def conLt (o : VOps V) : Con V → Con V → Bool
  | .mk c u, .mk d w => if o.eq u w then c.strRank < d.strRank else o.lt u w
  | .star, .star => false      -- `(None, "*") < (None, "*")`
  -- `None < version` raises TypeError: `sortCons` never evaluates these two cases (it returns
  -- the error first); the values only make the comparison a total preorder on `Con V`.
  | .star, .mk _ _ => true
  | .mk _ _, .star => false

/-- `sorted(constraints)`: a stable sort that only calls `__lt__`.  A star together with a
versioned constraint makes the comparison `None < Version` raise `TypeError`. -/
def sortCons (o : VOps V) (cs : List (Con V)) : Except Err (List (Con V)) :=
  if cs.any Con.isStar && cs.any (fun c => !c.isStar) then .error .TypeError
  else .ok (cs.mergeSort (fun a b => !conLt o b a))

/-! ### `validate` -/

/-- `len(set(c.version for c in constraints))` with `set` membership decided by `==`
(for a lawful scheme `hash` agrees with `==`). Star versions are `None`, equal to each other. -/
def verSame (o : VOps V) : Con V → Con V → Bool
  | .star, .star => true
  | .mk _ u, .mk _ w => o.eq u w
  | _, _ => false

def countDistinct (o : VOps V) : List (Con V) → List (Con V) → Nat
  | _, [] => 0
  | seen, c :: rest =>
      if seen.any (fun s => verSame o s c) then countDistinct o seen rest
      else 1 + countDistinct o (c :: seen) rest

/-- adjacent pairs, `itertools.pairwise` -/
def pairwise {α} : List α → List (α × α)
  | a :: b :: rest => (a, b) :: pairwise (b :: rest)
  | _ => []

/-- `validate_comparators(constraints)` on an already sorted list. -/
def validateComparators (cs : List (Con V)) : Except Err Bool :=
  if cs.any Con.isStar then
    if cs.length != 1 then .error .ValueError else .ok true
  else
    let cs1 := cs.filter (fun c => !c.isNe)
    if cs1.isEmpty then .ok true
    else if (pairwise cs1).any (fun p => p.1.isEq && !(p.2.isEq || p.2.isLower)) then
      .error .ValueError
    else
      let cs2 := cs1.filter (fun c => !c.isEq)
      if cs2.isEmpty then .ok true
      else if (pairwise cs2).any (fun p =>
          (p.1.isUpper && !p.2.isLower) || (p.1.isLower && !p.2.isUpper)) then
        .error .ValueError
      else .ok true

/-- `VersionConstraint.validate(constraints)` (type checks are vacuous in the typed model).
FIXED CODE (fix: validate a star with other constraints): the star rule is tested before
sorting so that `[*, =1]` is a `ValueError`, and a sorted copy is used so that the
caller's list is left alone. -/
def validate (o : VOps V) (cs : List (Con V)) : Except Err Bool :=
  if countDistinct o [] cs != cs.length then .error .ValueError
  else if cs.any Con.isStar && cs.length != 1 then .error .ValueError
  else
    match sortCons o cs with
    | .error e => .error e
    | .ok s => validateComparators s

/-! ### `simplify` -/

/-- `c == d` for two constraints (attrs-generated: comparator and version and the derived
fields). -/
def conEq (o : VOps V) : Con V → Con V → Bool
  | .star, .star => true
  | .mk c u, .mk d w => c == d && o.eq u w
  | _, _ => false

/-- `deduplicate(constraints)` -/
def deduplicate (o : VOps V) : List (Con V) → List (Con V) → List (Con V)
  | _, [] => []
  | seen, c :: rest =>
      if seen.any (fun s => conEq o s c) then deduplicate o seen rest
      else c :: deduplicate o (c :: seen) rest

/-- `retained and retained[-1].comparator in (">", ">=")` (the stack is kept top first) -/
def topIsLower : List (Con V) → Bool
  | p :: _ => p.isLower
  | [] => false

/-- One step of the stack walk of `simplify_constraints` (FIXED CODE, fix: single-pass
stack walk): `retained` is kept reversed (top first). -/
def simpStep (st : List (Con V)) (c : Con V) : List (Con V) :=
  if c.isUpper then
    c :: st.dropWhile (fun p => p.isEq || p.isUpper)
  else if (c.isEq || c.isLower) && topIsLower st then
    st
  else c :: st

/-- `simplify_constraints(constraints)`; `perm` stands for the iteration order of the
`set(...)` that is built just before the final `sorted` (it depends on the hash seed). -/
def simplifyConstraints (o : VOps V) (perm : List (Con V) → List (Con V))
    (cs : List (Con V)) : Except Err (List (Con V)) :=
  if cs.length < 2 then .ok cs
  else
    let ne := cs.filter Con.isNe
    let rest := cs.filter (fun c => !c.isNe)
    if rest.isEmpty then .ok ne
    else
      let kept := (rest.foldl simpStep []).reverse
      sortCons o (perm (deduplicate o [] (ne ++ kept)))

/-- `VersionConstraint.simplify(constraints)` -/
def simplify (o : VOps V) (perm : List (Con V) → List (Con V))
    (cs : List (Con V)) : Except Err (List (Con V)) :=
  simplifyConstraints o perm (deduplicate o [] cs)

/-! ### range level: `VersionRange.__attrs_post_init__`, `invert`, `__contains__`,
`normalize`, `from_versions` -/

/-- `VersionRange(constraints=cs)`: the constructor sorts. -/
def mkRange (o : VOps V) (cs : List (Con V)) : Except Err (List (Con V)) := sortCons o cs

/-- `VersionRange.invert()`: `none` is Python's `None` (the star range). -/
def invertRange (o : VOps V) (cs : List (Con V)) : Option (Except Err (List (Con V))) :=
  match cs with
  | [.star] => none
  | _ =>
    -- `constraint.invert()` of a star inside a longer list is `None`, and sorting a list
    -- that contains `None` raises TypeError (AttributeError-free path: `sorted` compares).
    if cs.any Con.isStar then some (.error .TypeError)
    else some (mkRange o (cs.filterMap Con.invert))

/-- constraints for one contiguous segment -/
def segCons (o : VOps V) (seg : List V) : List (Con V) :=
  match seg.head?, seg.getLast? with
  | some lo, some hi =>
      if o.eq lo hi then [.mk .eq lo] else [.mk .ge lo, .mk .le hi]
  | _, _ => []

/-- `sorted(versions)`: stable, only `__lt__`. -/
def sortVers (o : VOps V) (ks : List V) : List V :=
  ks.mergeSort (fun a b => !o.lt b a)

/-- `self.__contains__(kv)` for every known version in turn; the first error escapes. -/
def memAll (o : VOps V) (cs : List (Con V)) : List V → Except Err (List (V × Bool))
  | [] => .ok []
  | k :: rest =>
      match containsVersion o k cs with
      | .error e => .error e
      | .ok b =>
        match memAll o cs rest with
        | .error e => .error e
        | .ok r => .ok ((k, b) :: r)

/-- the grouping loop of `VersionRange.normalize`: maximal runs of contiguous members
(`cur` is `contiguous`, kept reversed). -/
def groupRuns : List (V × Bool) → List V → List (List V)
  | [], cur => if cur.isEmpty then [] else [cur.reverse]
  | (k, b) :: rest, cur =>
      if b then groupRuns rest (k :: cur)
      else if cur.isEmpty then groupRuns rest []
      else cur.reverse :: groupRuns rest []

/-- `VersionRange.normalize(known_versions)` on already constructed versions. -/
def normalize (o : VOps V) (cs : List (Con V)) (ks : List V) : Except Err (List (Con V)) :=
  match memAll o cs (sortVers o ks) with
  | .error e => .error e
  | .ok ms => mkRange o ((groupRuns ms []).flatMap (segCons o))

/-- `VersionRange.from_versions(sequence)` on already constructed versions. -/
def fromVersions (o : VOps V) (vs : List V) : Except Err (List (Con V)) :=
  mkRange o (vs.map (fun v => .mk .eq v))

end Univers
