/-
Lemmas shared by the agreement theorems (`Vers/Gen*Thm.lean`): nothing here mentions a generated definition.
-/
import Univers.Vers.PyRt

namespace Univers.Gen.LayerB
open Univers Univers.PyRt

variable {V : Type} (o : VOps V)

/-! ### tables: each is the model's predicate on the comparator of a constraint -/

theorem isUpper_tab (t : CmpVal → Bool)
    (h : t (.of .lt) = true ∧ t (.of .le) = true ∧ t (.of .ge) = false ∧ t (.of .gt) = false ∧ t (.of .ne) = false ∧
      t (.of .eq) = false ∧ t .star = false) (c : Con V) : t (comparator c) = c.isUpper := by
  obtain ⟨h1, h2, h3, h4, h5, h6, h7⟩ := h
  cases c with
  | star => simpa [comparator, Con.isUpper] using h7
  | mk k v => cases k <;> simp [comparator, Con.isUpper, Cmpr.isUpper, *]

theorem isLower_tab (t : CmpVal → Bool)
    (h : t (.of .lt) = false ∧ t (.of .le) = false ∧ t (.of .ge) = true ∧ t (.of .gt) = true ∧ t (.of .ne) = false ∧
      t (.of .eq) = false ∧ t .star = false) (c : Con V) : t (comparator c) = c.isLower := by
  obtain ⟨h1, h2, h3, h4, h5, h6, h7⟩ := h
  cases c with
  | star => simpa [comparator, Con.isLower] using h7
  | mk k v => cases k <;> simp [comparator, Con.isLower, Cmpr.isLower, *]

@[simp] theorem eqOpt_version (x : V) (c : Con V) : eqOpt o x (PyRt.version c) = c.verEq o x := by
  cases c <;> rfl

theorem filter_isEmpty {α} (l : List α) (p : α → Bool) : (l.filter p).isEmpty = !l.any p := by
  induction l with
  | nil => rfl
  | cons x xs ih => by_cases h : p x = true <;> simp [List.filter_cons, h, ih]

theorem not_truthy {α} (l : List α) : (!(truthy l)) = l.isEmpty := by simp [truthy]

theorem truthy_filter {α} (l : List α) (p : α → Bool) : truthy (l.filter p) = l.any p := by
  simp [truthy, filter_isEmpty]

end Univers.Gen.LayerB
