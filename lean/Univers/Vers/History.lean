/-
Helper proofs for C17: the two oracles agree on well-formed lists, and every
presentation-level operation keeps a well-formed version-sorted star-free list well-formed
with the same meaning.
-/
import Univers.Props.C08
import Univers.Props.C09
import Univers.Props.C07
import Univers.Props.C13

namespace Univers

open Std

variable {V : Type} {o : VOps V} {cmp : V → V → Ordering}

/-! ### `denoteR = denote` on well-formed lists -/

/-- on alternating bounds the upward walk is decided by the first cut above; `p` (the nearest
cut below points upward) can only hold in front of an upper bound -/
theorem regionWalk_alt (x : V) : ∀ (B : List (Con V)) (p : Bool),
    allBounds B → altB B = true → (∀ b t, B = b :: t → p = true → b.isUpper = true) →
    regionWalk cmp x p B =
      (match B.find? (cutAbove cmp x) with
       | some b => b.isUpper
       | none => match B.getLast? with
         | some b => b.isLower
         | none => p)
  | [], p, _, _, _ => by simp [regionWalk]
  | c :: t, p, hb, halt, hp => by
    have hcb := hb c List.mem_cons_self
    obtain ⟨k, v, rfl, hul, hex⟩ := isBound_cases hcb
    have hbt : allBounds t := fun y hy => hb y (List.mem_cons_of_mem _ hy)
    have haltt : altB t = true := by
      cases t with
      | nil => rfl
      | cons d rest => simp only [altB, Bool.and_eq_true] at halt; exact halt.2
    simp only [regionWalk, List.find?_cons]
    by_cases hca : cutAbove cmp x (.mk k v) = true
    · simp only [hca, if_true]
      cases p with
      | false => simp
      | true => simp [hp _ _ rfl rfl]
    · have hca' : cutAbove cmp x (.mk k v) = false := by cases hh : cutAbove cmp x (.mk k v) <;> simp_all
      simp only [hca', Bool.false_eq_true, if_false]
      have hnext : ∀ b t', t = b :: t' → (Con.mk k v).isLower = true → b.isUpper = true := by
        intro b t' e hl
        subst e
        obtain ⟨k2, w, rfl, _, _⟩ := isBound_cases (hb b (List.mem_cons_of_mem _ List.mem_cons_self))
        simp only [altB, Con.isUpper, Bool.and_eq_true] at halt
        have h1 := halt.1
        have hl' : k.isLower = true := hl
        have hku : k.isUpper = false := by cases k <;> simp_all [Cmpr.isLower, Cmpr.isUpper]
        simpa [hku, Con.isUpper] using h1
      rw [regionWalk_alt x t (Con.mk k v).isLower hbt haltt hnext]
      cases t with
      | nil => simp
      | cons d rest =>
        rw [List.getLast?_cons_cons]
        cases hf : (d :: rest).find? (cutAbove cmp x) with
        | some b => rfl
        | none =>
          cases hl : (d :: rest).getLast? with
          | none => simp at hl
          | some b => rfl

theorem inRegion_eq_inIntervals [TransCmp cmp] (x : V) (B : List (Con V)) (hb : allBounds B)
    (halt : altB B = true) (hs : StrictSorted cmp B) : inRegion cmp x B = inIntervals cmp x B := by
  rw [inIntervals_eq_firstAbove x B hb halt hs]
  unfold inRegion firstAboveIn
  rw [regionWalk_alt x B false hb halt (fun _ _ _ h => by cases h)]
  cases hf : B.find? (cutAbove cmp x) with
  | some b => rfl
  | none => cases hl : B.getLast? <;> rfl

/-- the two oracles agree on every well-formed version-sorted list -/
theorem denoteR_eq_denote [TransCmp cmp] (cs : List (Con V)) (hwf : WFSorted cmp cs) (x : V) :
    denoteR cmp cs x = denote cmp cs x := by
  rcases hwf with rfl | ⟨hns, hs, _, halt⟩
  · rfl
  · have hcs : cs ≠ [.star] := by
      intro h; subst h; simp [noStar, Con.isStar] at hns
    rw [denoteR_formula cs hcs, denote_formula cs hcs,
      inRegion_eq_inIntervals x _ (fun b hb => (List.mem_filter.mp hb).2)
        (by rw [← altRule_eq_altB]; exact halt) (List.Pairwise.filter _ hs)]

end Univers
