/-
Helper proofs for C04: `denote` looks at the tested version only through its comparisons with
the constraint versions.
-/
import Univers.Vers.Spec

namespace Univers

variable {V : Type} {cmp : V → V → Ordering}

/-- `x` and `y` compare the same with every constraint version of `cs` -/
def SameSide (cmp : V → V → Ordering) (x y : V) (cs : List (Con V)) : Prop :=
  ∀ k v, Con.mk k v ∈ cs → cmp x v = cmp y v

theorem SameSide.at {x y : V} {cs : List (Con V)} (h : SameSide cmp x y cs) {c : Con V} (hc : c ∈ cs) :
    c.at cmp x = c.at cmp y := by
  cases c with
  | star => rfl
  | mk k v => simp [Con.at, h k v hc]

theorem SameSide.holds {x y : V} {cs : List (Con V)} (h : SameSide cmp x y cs) {c : Con V} (hc : c ∈ cs) :
    c.holds cmp x = c.holds cmp y := by
  cases c with
  | star => rfl
  | mk k v => simp [Con.holds, h k v hc]

theorem SameSide.sub {x y : V} {cs ds : List (Con V)} (h : SameSide cmp x y cs)
    (hs : ∀ c, c ∈ ds → c ∈ cs) : SameSide cmp x y ds :=
  fun k v hm => h k v (hs _ hm)

theorem any_congr_mem {α} {l : List α} {p q : α → Bool} (h : ∀ a ∈ l, p a = q a) :
    l.any p = l.any q := by
  induction l with
  | nil => rfl
  | cons a t ih =>
    simp only [List.any_cons]
    rw [h a List.mem_cons_self, ih (fun b hb => h b (List.mem_cons_of_mem _ hb))]

theorem all_congr_mem {α} {l : List α} {p q : α → Bool} (h : ∀ a ∈ l, p a = q a) :
    l.all p = l.all q := by
  induction l with
  | nil => rfl
  | cons a t ih =>
    simp only [List.all_cons]
    rw [h a List.mem_cons_self, ih (fun b hb => h b (List.mem_cons_of_mem _ hb))]

theorem inPairs_congr {x y : V} : ∀ (bs : List (Con V)), SameSide cmp x y bs →
    inPairs cmp x bs = inPairs cmp y bs
  | [], _ => rfl
  | [b], h => by simp [inPairs, h.holds (List.mem_singleton.mpr rfl)]
  | lo :: hi :: rest, h => by
    have ih := inPairs_congr rest (h.sub (fun c hc => List.mem_cons_of_mem _ (List.mem_cons_of_mem _ hc)))
    simp [inPairs, h.holds List.mem_cons_self,
      h.holds (List.mem_cons_of_mem _ List.mem_cons_self), ih]

theorem inIntervals_congr {x y : V} (bs : List (Con V)) (h : SameSide cmp x y bs) :
    inIntervals cmp x bs = inIntervals cmp y bs := by
  cases bs with
  | nil => rfl
  | cons b rest =>
    simp only [inIntervals]
    rw [h.holds List.mem_cons_self, inPairs_congr rest (h.sub (fun c hc => List.mem_cons_of_mem _ hc)),
      inPairs_congr (b :: rest) h]

theorem denote_congr {x y : V} (cs : List (Con V)) (h : SameSide cmp x y cs) :
    denote cmp cs x = denote cmp cs y := by
  have e1 : cs.all (fun c => !c.at cmp x) = cs.all (fun c => !c.at cmp y) :=
    all_congr_mem (fun c hc => by rw [h.at hc])
  have e2 : cs.any (fun c => c.isNe && c.at cmp x) = cs.any (fun c => c.isNe && c.at cmp y) :=
    any_congr_mem (fun c hc => by rw [h.at hc])
  have e3 : cs.any (fun c => c.isEq && c.at cmp x) = cs.any (fun c => c.isEq && c.at cmp y) :=
    any_congr_mem (fun c hc => by rw [h.at hc])
  have e4 : inIntervals cmp x (cs.filter Con.isBound) = inIntervals cmp y (cs.filter Con.isBound) :=
    inIntervals_congr _ (h.sub (fun c hc => (List.mem_filter.mp hc).1))
  unfold denote
  split
  · rfl
  · rfl
  · rw [e1, e2, e3, e4]

end Univers
