/-
Helper proofs shared by C08, C09, C10: bounds as cuts of the version line; on an alternating
version-sorted bound list the interval union is decided by the first cut above the point.
-/
import Univers.Vers.ContainsThm

namespace Univers

open Std

variable {V : Type} {cmp : V → V → Ordering}

/-- the first cut above `x` is an upper bound; with no cut above, the last bound is a lower one -/
def firstAboveIn (cmp : V → V → Ordering) (x : V) (B : List (Con V)) : Bool :=
  match B.find? (cutAbove cmp x) with
  | some b => b.isUpper
  | none => match B.getLast? with
    | some b => b.isLower
    | none => false

theorem cutBelow_eq_not_cutAbove (x : V) (b : Con V) (hb : b.isBound = true) :
    cutBelow cmp x b = !cutAbove cmp x b := by
  obtain ⟨c, v, rfl, _, _⟩ := isBound_cases hb
  simp only [cutBelow, cutAbove]
  cases hc : cmp v x <;> cases c <;> simp_all [Cmpr.isUpper, Cmpr.isLower]

theorem upper_holds_eq_cutAbove [OrientedCmp cmp] (x : V) (c : Cmpr) (v : V) (hu : c.isUpper = true) :
    (Con.mk c v).holds cmp x = cutAbove cmp x (.mk c v) := by
  have hs : cmp x v = (cmp v x).swap := OrientedCmp.eq_swap
  simp only [Con.holds, cutAbove, hs]
  cases hc : cmp v x <;> cases c <;> simp_all [Cmpr.isUpper, Cmpr.holds, Ordering.swap] <;> try decide

theorem lower_holds_eq_not_cutAbove [OrientedCmp cmp] (x : V) (c : Cmpr) (v : V) (hl : c.isLower = true) :
    (Con.mk c v).holds cmp x = !cutAbove cmp x (.mk c v) := by
  have hs : cmp x v = (cmp v x).swap := OrientedCmp.eq_swap
  simp only [Con.holds, cutAbove, hs]
  cases hc : cmp v x <;> cases c <;> simp_all [Cmpr.isLower, Cmpr.holds, Ordering.swap] <;> try decide

/-- cuts are monotone along a strictly sorted list -/
theorem cutAbove_mono [TransCmp cmp] (x : V) (b : Con V) (rest : List (Con V))
    (hs : StrictSorted cmp (b :: rest)) (hb : cutAbove cmp x b = true) :
    ∀ c ∈ rest, cutAbove cmp x c = true := by
  intro c hc
  have hbc := (List.pairwise_cons.mp hs).1 c hc
  cases b with
  | star => cases c <;> simp at hbc
  | mk k u =>
    cases c with
    | star => simp at hbc
    | mk k2 w =>
      have huw : cmp u w = .lt := hbc
      have hwu : cmp w u = .gt := OrientedCmp.gt_of_lt huw
      simp only [cutAbove, Bool.or_eq_true, Bool.and_eq_true, beq_iff_eq] at hb ⊢
      left
      rcases hb with hb | ⟨hb, _⟩
      · exact TransCmp.gt_trans hwu hb
      · exact TransCmp.gt_of_gt_of_eq hwu hb

theorem inPairs_false_of_all_above [OrientedCmp cmp] (x : V) :
    ∀ (B : List (Con V)), allBounds B → altB B = true →
      (∀ b rest, B = b :: rest → b.isLower = true) →
      (∀ c ∈ B, cutAbove cmp x c = true) → inPairs cmp x B = false
  | [], _, _, _, _ => rfl
  | [b], hb, _, hlo, hab => by
    obtain ⟨c, v, rfl, _, _⟩ := isBound_cases (hb b (List.mem_singleton.mpr rfl))
    have hl : c.isLower = true := hlo _ _ rfl
    simp [inPairs, lower_holds_eq_not_cutAbove x c v hl, hab _ (List.mem_singleton.mpr rfl)]
  | lo :: hi :: rest, hb, halt, hlo, hab => by
    obtain ⟨c, v, rfl, _, _⟩ := isBound_cases (hb lo List.mem_cons_self)
    have hl : c.isLower = true := hlo _ _ rfl
    have h1 : (Con.mk c v).holds cmp x = false := by
      simp [lower_holds_eq_not_cutAbove x c v hl, hab _ List.mem_cons_self]
    have hrest : ∀ b rest', rest = b :: rest' → b.isLower = true := by
      intro b rest' e
      subst e
      obtain ⟨c2, w, rfl, _, _⟩ := isBound_cases (hb hi (List.mem_cons_of_mem _ List.mem_cons_self))
      obtain ⟨c3, y, rfl, _, _⟩ := isBound_cases (hb b (List.mem_cons_of_mem _ (List.mem_cons_of_mem _ List.mem_cons_self)))
      have hcu : c.isUpper = false := by cases c <;> simp_all [Cmpr.isLower, Cmpr.isUpper]
      simp [altB, Con.isUpper] at halt
      have h2u : c2.isUpper = true := by simpa [hcu] using halt.1
      have h3u : c3.isUpper = false := by simpa [h2u] using halt.2.1
      have := hb (.mk c3 y) (List.mem_cons_of_mem _ (List.mem_cons_of_mem _ List.mem_cons_self))
      simpa [Con.isBound, Con.isUpper, Con.isLower, h3u] using this
    have ih := inPairs_false_of_all_above x rest
      (fun y hy => hb y (List.mem_cons_of_mem _ (List.mem_cons_of_mem _ hy)))
      (by
        cases rest with
        | nil => rfl
        | cons r rs => simp [altB] at halt; exact halt.2.2)
      hrest (fun c hc => hab c (List.mem_cons_of_mem _ (List.mem_cons_of_mem _ hc)))
    simp [inPairs, h1, ih]

/-- lower-started alternating sorted bounds: the pair union is decided by the first cut above -/
theorem inPairs_eq_firstAbove [TransCmp cmp] (x : V) :
    ∀ (B : List (Con V)), allBounds B → altB B = true → StrictSorted cmp B →
      (∀ b rest, B = b :: rest → b.isLower = true) →
      inPairs cmp x B = firstAboveIn cmp x B
  | [], _, _, _, _ => rfl
  | [b], hb, _, _, hlo => by
    obtain ⟨c, v, rfl, _, _⟩ := isBound_cases (hb b (List.mem_singleton.mpr rfl))
    have hl : c.isLower = true := hlo _ _ rfl
    have hcu : c.isUpper = false := by cases c <;> simp_all [Cmpr.isLower, Cmpr.isUpper]
    simp only [inPairs, lower_holds_eq_not_cutAbove x c v hl, firstAboveIn, List.find?]
    cases hca : cutAbove cmp x (.mk c v) <;> simp [Con.isUpper, Con.isLower, hcu, hl]
  | lo :: hi :: rest, hb, halt, hs, hlo => by
    obtain ⟨c, v, rfl, _, _⟩ := isBound_cases (hb lo List.mem_cons_self)
    obtain ⟨c2, w, rfl, _, _⟩ := isBound_cases (hb hi (List.mem_cons_of_mem _ List.mem_cons_self))
    have hl : c.isLower = true := hlo _ _ rfl
    have hcu : c.isUpper = false := by cases c <;> simp_all [Cmpr.isLower, Cmpr.isUpper]
    have halt' := halt
    simp only [altB, Con.isUpper, Bool.and_eq_true] at halt'
    have h2u : c2.isUpper = true := by simpa [hcu] using halt'.1
    have h2l : c2.isLower = false := by cases c2 <;> simp_all [Cmpr.isLower, Cmpr.isUpper]
    have hrest : ∀ b rest', rest = b :: rest' → b.isLower = true := by
      intro b rest' e
      subst e
      obtain ⟨c3, y, rfl, _, _⟩ := isBound_cases (hb b (List.mem_cons_of_mem _ (List.mem_cons_of_mem _ List.mem_cons_self)))
      simp only [altB, Con.isUpper, Bool.and_eq_true] at halt'
      have h3u : c3.isUpper = false := by simpa [h2u] using halt'.2.1
      have := hb (.mk c3 y) (List.mem_cons_of_mem _ (List.mem_cons_of_mem _ List.mem_cons_self))
      simpa [Con.isBound, Con.isUpper, Con.isLower, h3u] using this
    have hbr : allBounds rest := fun y hy => hb y (List.mem_cons_of_mem _ (List.mem_cons_of_mem _ hy))
    have haltr : altB rest = true := by
      cases rest with
      | nil => rfl
      | cons r rs =>
        have := halt'.2
        simp only [altB, Bool.and_eq_true] at this
        exact this.2
    have hsr : StrictSorted cmp rest := strictSorted_tail (strictSorted_tail hs)
    have ih := inPairs_eq_firstAbove x rest hbr haltr hsr hrest
    simp only [inPairs, lower_holds_eq_not_cutAbove x c v hl, upper_holds_eq_cutAbove x c2 w h2u]
    cases hca : cutAbove cmp x (.mk c v) with
    | true =>
      -- every later cut is above as well
      have hall := cutAbove_mono x _ _ hs hca
      have h2 := hall _ List.mem_cons_self
      have hfalse := inPairs_false_of_all_above x rest hbr haltr hrest
        (fun c hc => hall c (List.mem_cons_of_mem _ hc))
      simp [hfalse, firstAboveIn, List.find?, hca, Con.isUpper, hcu]
    | false =>
      cases hcb : cutAbove cmp x (.mk c2 w) with
      | true => simp [firstAboveIn, List.find?, hca, hcb, Con.isUpper, h2u]
      | false =>
        simp only [Bool.not_false, Bool.true_and, Bool.false_or, ih]
        cases rest with
        | nil => simp [firstAboveIn, List.find?, hca, hcb, Con.isLower, h2l]
        | cons r rs => simp [firstAboveIn, List.find?, hca, hcb]

/-- alternating sorted bounds: the interval union is decided by the first cut above -/
theorem inIntervals_eq_firstAbove [TransCmp cmp] (x : V) (B : List (Con V)) (hb : allBounds B)
    (halt : altB B = true) (hs : StrictSorted cmp B) :
    inIntervals cmp x B = firstAboveIn cmp x B := by
  cases B with
  | nil => rfl
  | cons b rest =>
    obtain ⟨c, v, rfl, hul, hex⟩ := isBound_cases (hb b List.mem_cons_self)
    by_cases hu : c.isUpper = true
    · have hcl : c.isLower = false := hex hu
      have hrest : ∀ b rest', rest = b :: rest' → b.isLower = true := by
        intro b rest' e
        subst e
        obtain ⟨c3, y, rfl, _, _⟩ := isBound_cases (hb b (List.mem_cons_of_mem _ List.mem_cons_self))
        simp only [altB, Con.isUpper, Bool.and_eq_true] at halt
        have h3u : c3.isUpper = false := by simpa [hu] using halt.1
        have := hb (.mk c3 y) (List.mem_cons_of_mem _ List.mem_cons_self)
        simpa [Con.isBound, Con.isUpper, Con.isLower, h3u] using this
      have hbr : allBounds rest := fun y hy => hb y (List.mem_cons_of_mem _ hy)
      have haltr : altB rest = true := by
        cases rest with
        | nil => rfl
        | cons r rs => simp only [altB, Bool.and_eq_true] at halt; exact halt.2
      have ih := inPairs_eq_firstAbove x rest hbr haltr (strictSorted_tail hs) hrest
      simp only [inIntervals, Con.isUpper, hu, if_true, upper_holds_eq_cutAbove x c v hu, ih]
      cases hca : cutAbove cmp x (.mk c v) with
      | true => simp [firstAboveIn, List.find?, hca, Con.isUpper, hu]
      | false =>
        cases rest with
        | nil => simp [firstAboveIn, List.find?, hca, Con.isLower, hcl]
        | cons r rs => simp [firstAboveIn, List.find?, hca]
    · have hl : c.isLower = true := by
        cases hul with
        | inl h' => exact absurd h' hu
        | inr h' => exact h'
      simp only [inIntervals, Con.isUpper, hu]
      exact inPairs_eq_firstAbove x _ hb halt hs (fun b rest' e => by cases e; exact hl)

end Univers
