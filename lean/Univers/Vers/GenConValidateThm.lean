/-
Agreement theorem for `VersionConstraint.validate` as translated from the Python source on every run
(`Univers/Gen/PyConValidate.lean`): it is the model's `validate` that the theorems of C07 are about.
-/
import Univers.Gen.PyConValidate
import Univers.Vers.GenValidateThm

namespace Univers.Gen.LayerB
open Univers Univers.PyRt

variable {V : Type} (o : VOps V) (perm : List (Con V) → List (Con V))

theorem cval_tab1 (c : Con V) : con_validate_tab1 (comparator c) = c.isStar := by
  cases c with
  | star => rfl
  | mk k v => cases k <;> rfl

/-- **`VersionConstraint.validate` as translated is the model's `validate`.** -/
theorem con_validate_eq (cs : List (Con V)) : con_validate o perm cs = validate o cs := by
  unfold con_validate validate
  have h1 : cs.any (fun c => con_validate_tab1 (comparator c)) = cs.any Con.isStar := by
    congr 1; funext c; exact cval_tab1 c
  have hne : ∀ a b : Nat, decide (a ≠ b) = (a != b) := by
    intro a b; by_cases h : a = b <;> simp [h]
  simp only [Bool.not_true, Bool.false_eq_true, ↓reduceIte, h1, hne]
  cases hd : (countDistinct o [] cs != cs.length)
  · simp only [Bool.false_eq_true, ↓reduceIte]
    cases hs : (cs.any Con.isStar && (cs.length != 1))
    · simp only [Bool.false_eq_true, ↓reduceIte, bind, Except.bind]
      cases sortCons o cs with
      | error e => rfl
      | ok s => exact validate_comparators_eq o perm s
    · simp
  · simp

end Univers.Gen.LayerB
