/-
Driver commands `vparse conan`, `vcmp conan`.
-/
import Univers.Scheme.Conan
import Univers.Driver.Util

namespace Univers.Driver

open Univers

private def conanBit (b : Bool) : String := if b then "1" else "0"

def conanCmd : List String → Option String
  | ["vparse", "conan", h] =>
    match Conan.construct (unhex h) with
    | .ok r => some ("ok " ++ hex (Conan.str r))
    | .error .invalid => some "invalid"
    | .error (.other n) => some ("raise:" ++ n)
  | ["vcmp", "conan", ha, hb] =>
    match Conan.construct (unhex ha), Conan.construct (unhex hb) with
    | .ok a, .ok b =>
      let o := Conan.verOps
      let bits := conanBit (o.eq a b) ++ conanBit (o.ne a b) ++ conanBit (o.lt a b) ++
        conanBit (o.le a b) ++ conanBit (o.gt a b) ++ conanBit (o.ge a b)
      let h := if !Conan.hashable then "x" else if Conan.hashKey a == Conan.hashKey b then "1" else "0"
      some (ordStr (Conan.vercmp a b) ++ " " ++ bits ++ " " ++ h)
    | .error (.other n), _ => some ("raise:" ++ n)
    | _, .error (.other n) => some ("raise:" ++ n)
    | _, _ => some "invalid"
  -- `vbump conan <hex> <index>` → "ok <hex bump> <hex upper_bound>" | "raise:<Name>"
  | ["vbump", "conan", h, i] =>
    match Conan.construct (unhex h), i.toNat? with
    | .ok a, some n =>
      match Conan.bump a n, Conan.upperBound a n with
      | .ok x, .ok y => some ("ok " ++ hex (Conan.str x) ++ " " ++ hex (Conan.str y))
      | .error .indexError, _ => some "raise:IndexError"
      | .error .conanException, _ => some "raise:ConanException"
      | _, _ => some "raise:?"
    | _, _ => some "invalid"
  | _ => none

end Univers.Driver
