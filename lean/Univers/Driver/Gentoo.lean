/-
Driver commands `vparse|vcmp ebuild …` (GentooVersion) and `vparse|vcmp alpine …`
(AlpineLinuxVersion).
-/
import Univers.Scheme.Gentoo
import Univers.Driver.Util

namespace Univers.Driver

open Univers

private def gbit (b : Bool) : String := if b then "1" else "0"

def gentooBits (o : VOps Gentoo.Raw) (a b : Gentoo.Raw) : String :=
  gbit (o.eq a b) ++ gbit (o.ne a b) ++ gbit (o.lt a b) ++ gbit (o.le a b) ++ gbit (o.gt a b) ++ gbit (o.ge a b)

def gentooConstruct : String → Option (List Char → Except Gentoo.PErr Gentoo.Raw)
  | "ebuild" => some Gentoo.construct
  | "alpine" => some Gentoo.constructAlpine
  | _ => none

def gentooCmd : List String → Option String
  | ["vparse", scheme, h] =>
    match gentooConstruct scheme with
    | none => none
    | some con =>
      match con (unhex h) with
      | .ok r => some ("ok " ++ hex (Gentoo.str r))
      | .error .invalid => some "invalid"
      | .error (.other n) => some ("raise:" ++ n)
  | ["vcmp", scheme, ha, hb] =>
    match gentooConstruct scheme with
    | none => none
    | some con =>
      match con (unhex ha), con (unhex hb) with
      | .ok a, .ok b =>
        let h := if Gentoo.hashable then (if Gentoo.hashKey a == Gentoo.hashKey b then "1" else "0") else "x"
        some (ordStr (Gentoo.vercmp a b) ++ " " ++ gentooBits Gentoo.verOps a b ++ " " ++ h)
      | _, _ => some "invalid"
  | _ => none

end Univers.Driver
