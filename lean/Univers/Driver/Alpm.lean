/-
Driver commands `vparse alpm <hex>` and `vcmp alpm <hex> <hex>`.
-/
import Univers.Scheme.Alpm
import Univers.Driver.Util

namespace Univers.Driver

open Univers

private def alpmBit (b : Bool) : String := if b then "1" else "0"

def alpmBits (o : VOps Alpm.Raw) (a b : Alpm.Raw) : String :=
  alpmBit (o.eq a b) ++ alpmBit (o.ne a b) ++ alpmBit (o.lt a b) ++ alpmBit (o.le a b) ++ alpmBit (o.gt a b) ++ alpmBit (o.ge a b)

def alpmCmd : List String → Option String
  | ["vparse", "alpm", h] =>
    match Alpm.construct (unhex h) with
    | .ok r => some ("ok " ++ hex (Alpm.str r))
    | .error .invalid => some "invalid"
    | .error (.other n) => some ("raise:" ++ n)
  | ["vcmp", "alpm", ha, hb] =>
    match Alpm.construct (unhex ha), Alpm.construct (unhex hb) with
    | .ok a, .ok b =>
      let h := if Alpm.hashable then (if Alpm.hashKey a == Alpm.hashKey b then "1" else "0") else "x"
      some (ordStr (Alpm.vercmp a b) ++ " " ++ alpmBits Alpm.verOps a b ++ " " ++ h)
    | _, _ => some "invalid"
  | _ => none

end Univers.Driver
