/-
Driver commands `vparse nuget`, `vcmp nuget`.
-/
import Univers.Scheme.Nuget
import Univers.Driver.Util

namespace Univers.Driver

open Univers

private def nugetBit (b : Bool) : String := if b then "1" else "0"

/-- ordering operators between `None` and a version raise `TypeError`: printed as `E` -/
private def nugetOrdBit (d b : Bool) : String := if d then nugetBit b else "E"

def nugetCmd : List String → Option String
  | ["vparse", "nuget", h] =>
    match Nuget.construct (unhex h) with
    | .ok r => some ("ok " ++ hex (Nuget.str r))
    | .error .invalid => some "invalid"
    | .error (.other n) => some ("raise:" ++ n)
  | ["vcmp", "nuget", ha, hb] =>
    match Nuget.construct (unhex ha), Nuget.construct (unhex hb) with
    | .ok a, .ok b =>
      let o := Nuget.verOps
      let d := Nuget.defined a b
      let sign := if d then ordStr (Nuget.vercmp a b) else "raise:TypeError"
      let bits := nugetBit (o.eq a b) ++ nugetBit (o.ne a b) ++ nugetOrdBit d (o.lt a b) ++
        nugetOrdBit d (o.le a b) ++ nugetOrdBit d (o.gt a b) ++ nugetOrdBit d (o.ge a b)
      let h := if !Nuget.hashable then "x" else if Nuget.hashKey a == Nuget.hashKey b then "1" else "0"
      some (sign ++ " " ++ bits ++ " " ++ h)
    | .error (.other n), _ => some ("raise:" ++ n)
    | _, .error (.other n) => some ("raise:" ++ n)
    | _, _ => some "invalid"
  | _ => none

end Univers.Driver
