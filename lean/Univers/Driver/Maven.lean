/-
Driver commands for the maven scheme: `vparse maven <hex>` and `vcmp maven <hex> <hex>`.
-/
import Univers.Scheme.Maven
import Univers.Driver.Util

namespace Univers.Driver

open Univers

private def bit (b : Bool) : String := if b then "1" else "0"

def mavenCmd : List String → Option String
  | ["vparse", "maven", h] =>
    match Maven.construct (unhex h) with
    | .ok r => some ("ok " ++ hex (Maven.str r))
    | .error .invalid => some "invalid"
    | .error (.other n) => some ("raise:" ++ n)
  | ["vcmp", "maven", ha, hb] =>
    match Maven.construct (unhex ha), Maven.construct (unhex hb) with
    | .ok a, .ok b =>
      let o := Maven.verOps
      let bits := bit (o.eq a b) ++ bit (o.ne a b) ++ bit (o.lt a b) ++ bit (o.le a b)
        ++ bit (o.gt a b) ++ bit (o.ge a b)
      let h := if Maven.hashable then (if Maven.hashKey a = Maven.hashKey b then "1" else "0") else "x"
      some (ordStr (Maven.vercmp a b) ++ " " ++ bits ++ " " ++ h)
    | _, _ => some "invalid"
  | _ => none

end Univers.Driver
