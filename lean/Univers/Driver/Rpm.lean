/-
Driver commands `vparse rpm`, `vcmp rpm` for the Layer A model of the rpm scheme.
`vcmp` answers `invalid` / `raise:ValueError` for the first side (a, then b) that fails to
construct, like `harness.scheme_corr.impl_cmp`.
-/
import Univers.Scheme.Rpm
import Univers.Driver.Util

namespace Univers.Driver

open Univers

private def rpmBit (b : Bool) : String := if b then "1" else "0"

private def rpmErr : Rpm.PErr → String
  | .invalid => "invalid"
  | .other n => "raise:" ++ n

def rpmCmd : List String → Option String
  | ["vparse", "rpm", h] =>
    match Rpm.construct (unhex h) with
    | .ok r => some ("ok " ++ hex (Rpm.str r))
    | .error e => some (rpmErr e)
  | ["vcmp", "rpm", ha, hb] =>
    match Rpm.construct (unhex ha) with
    | .error e => some (rpmErr e)
    | .ok a =>
      match Rpm.construct (unhex hb) with
      | .error e => some (rpmErr e)
      | .ok b =>
        let o := Rpm.verOps
        let bits := rpmBit (o.eq a b) ++ rpmBit (o.ne a b) ++ rpmBit (o.lt a b) ++ rpmBit (o.le a b)
          ++ rpmBit (o.gt a b) ++ rpmBit (o.ge a b)
        let h := if Rpm.hashable then (if Rpm.hashKey a = Rpm.hashKey b then "1" else "0") else "x"
        some (ordStr (Rpm.vercmp a b) ++ " " ++ bits ++ " " ++ h)
  | _ => none

end Univers.Driver
