/-
Driver commands for Layer B (constraint algebra) on integer ranks.
-/
import Univers.Vers.Spec
import Univers.Vers.HistoryModel
import Univers.Driver.Util

namespace Univers.Driver

open Univers

def intOps : VOps Int := opsOf (fun a b => compare a b)
def intCmp : Int → Int → Ordering := fun a b => compare a b

def parseCmpr : String → Option Cmpr
  | "ge" => some .ge | "le" => some .le | "ne" => some .ne
  | "lt" => some .lt | "gt" => some .gt | "eq" => some .eq
  | _ => none

def cmprName : Cmpr → String
  | .ge => "ge" | .le => "le" | .ne => "ne" | .lt => "lt" | .gt => "gt" | .eq => "eq"

def parseCon (s : String) : Option (Con Int) :=
  if s == "star" then some .star else
  match s.splitOn ":" with
  | [c, v] => do
      let c ← parseCmpr c
      let v ← v.toInt?
      pure (.mk c v)
  | _ => none

def parseCons (s : String) : Option (List (Con Int)) :=
  if s == "-" then some [] else (s.splitOn ",").mapM parseCon

def parseInts (s : String) : Option (List Int) :=
  if s == "-" then some [] else (s.splitOn ",").mapM String.toInt?

def conStr : Con Int → String
  | .star => "star"
  | .mk c v => cmprName c ++ ":" ++ toString v

def consStr (cs : List (Con Int)) : String :=
  if cs.isEmpty then "-" else ",".intercalate (cs.map conStr)

def resBool : Except Err Bool → String
  | .ok b => "ok:" ++ boolStr b
  | .error e => "err:" ++ errName e

def resCons : Except Err (List (Con Int)) → String
  | .ok cs => "ok:" ++ consStr cs
  | .error e => "err:" ++ errName e

/-- computable reading of `WFSorted` -/
def strictSortedB : List (Con Int) → Bool
  | .mk _ u :: .mk d w :: rest => u < w && strictSortedB (.mk d w :: rest)
  | [.mk _ _] => true
  | [] => true
  | _ => false

def wfSortedB (cs : List (Con Int)) : Bool :=
  (match cs with | [.star] => true | _ => false) ||
  (noStar cs && strictSortedB cs && eqRule cs && altRule cs)

def specSort (cs : List (Con Int)) : List (Con Int) :=
  cs.mergeSort (fun a b => match a, b with
    | .mk _ u, .mk _ w => u ≤ w
    | _, _ => true)

def wfB (cs : List (Con Int)) : Bool := wfSortedB (specSort cs)

/-- computable reading of `NonVacuous` -/
def nonVacuousB (cs : List (Con Int)) : Bool :=
  cs.all Con.isNe ||
  cs.all (fun c => match c with
    | .mk .ne v => inIntervals intCmp v (cs.filter Con.isBound)
    | .mk .eq v => !inIntervals intCmp v (cs.filter Con.isBound)
    | _ => true)

def permOf (flag : String) : List (Con Int) → List (Con Int) :=
  if flag == "rev" then List.reverse
  else if flag == "rot" then (fun l => l.drop 1 ++ l.take 1)
  else id

/-- one operation of a C17 history: `pp`, `pr:<perm>`, `simp:<perm>`, `val`, `inv2`, `pf<s><v>:<perm>` -/
def parseOp (s : String) : Option (C17.Op Int) :=
  match s.splitOn ":" with
  | ["pp"] => some .printParse
  | ["pr", f] => some (.permuteRebuild (permOf f))
  | ["simp", f] => some (.simplify (permOf f))
  | ["val"] => some .validate
  | ["inv2"] => some .invertTwice
  | ["pf00", f] => some (.parseFlags false false (permOf f))
  | ["pf01", f] => some (.parseFlags false true (permOf f))
  | ["pf10", f] => some (.parseFlags true false (permOf f))
  | ["pf11", f] => some (.parseFlags true true (permOf f))
  | _ => none

/-- the states after every step of a history, `;`-separated; stops at the first error -/
def histStates : List (C17.Op Int) → List (Con Int) → List String
  | [], _ => []
  | op :: rest, s =>
    match C17.step intOps op s with
    | .error e => ["err:" ++ errName e]
    | .ok s' => ("ok:" ++ consStr s') :: histStates rest s'

def versCmd : List String → Option String
  | ["contains", cs, x] => do
      let cs ← parseCons cs
      let x ← x.toInt?
      pure s!"{resBool (containsVersion intOps x cs)} {boolStr (denote intCmp cs x)} {boolStr (wfSortedB cs)}"
  | ["rcontains", cs, x] => do
      -- VersionRange(constraints=cs).__contains__(x): the constructor sorts
      let cs ← parseCons cs
      let x ← x.toInt?
      pure (match mkRange intOps cs with
        | .error e => "err:" ++ errName e
        | .ok s => s!"{resBool (containsVersion intOps x s)} {boolStr (denote intCmp s x)} {boolStr (wfSortedB s)}")
  | ["denote", cs, x] => do
      let cs ← parseCons cs
      let x ← x.toInt?
      pure s!"{boolStr (denote intCmp cs x)} {boolStr (denoteR intCmp cs x)}"
  | ["validate", cs] => do
      let cs ← parseCons cs
      pure s!"{resBool (validate intOps cs)} {boolStr (wfB cs)}"
  | ["simplify", cs, flag] => do
      let cs ← parseCons cs
      pure (resCons (simplify intOps (permOf flag) cs))
  | ["sort", cs] => do
      let cs ← parseCons cs
      pure (resCons (sortCons intOps cs))
  | ["invert", cs] => do
      let cs ← parseCons cs
      let m := match invertRange intOps cs with
        | none => "none"
        | some r => resCons r
      pure s!"{m} {boolStr (wfSortedB cs)} {boolStr (nonVacuousB cs)}"
  | ["hist", cs, ops] => do
      let cs ← parseCons cs
      let ops ← (ops.splitOn ",").mapM parseOp
      pure (";".intercalate (histStates ops cs))
  | ["normalize", cs, ks] => do
      let cs ← parseCons cs
      let ks ← parseInts ks
      pure (resCons (normalize intOps cs ks))
  | ["fromversions", ks] => do
      let ks ← parseInts ks
      pure (resCons (fromVersions intOps ks))
  | _ => none

end Univers.Driver
