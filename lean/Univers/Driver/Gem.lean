/-
Driver commands for the `gem` scheme (`RubygemsVersion` / `GemVersion`).
-/
import Univers.Scheme.Gem
import Univers.Driver.Util

namespace Univers.Driver

open Univers Univers.Gem

private def gemBit (b : Bool) : String := if b then "1" else "0"

private def gemRes : Except Gem.PErr Gem.Raw → String
  | .ok r => "ok " ++ hex (Gem.str r)
  | .error .invalid => "invalid"
  | .error (.other n) => "raise:" ++ n

/-- `vparse gem h`, `vcmp gem ha hb`; extra (used by the ad-hoc bump/release check):
`vbump gem h`, `vrelease gem h` → `ok <hex str(result)>`, `vpre gem h` → `1|0` -/
def gemCmd : List String → Option String
  | ["vparse", "gem", h] => some (gemRes (Gem.construct (unhex h)))
  | ["vcmp", "gem", ha, hb] =>
      match Gem.construct (unhex ha), Gem.construct (unhex hb) with
      | .ok a, .ok b =>
          let o := Gem.verOps
          let bits := gemBit (o.eq a b) ++ gemBit (o.ne a b) ++ gemBit (o.lt a b) ++ gemBit (o.le a b)
            ++ gemBit (o.gt a b) ++ gemBit (o.ge a b)
          let h := if !Gem.hashable then "x" else gemBit (decide (Gem.hashKey a = Gem.hashKey b))
          some (ordStr (Gem.vercmp a b) ++ " " ++ bits ++ " " ++ h)
      | _, _ => some "invalid"
  | ["vbump", "gem", h] =>
      match Gem.construct (unhex h) with
      | .ok a => some (gemRes (Gem.bump a))
      | .error _ => some "invalid"
  | ["vrelease", "gem", h] =>
      match Gem.construct (unhex h) with
      | .ok a => some (gemRes (Gem.release a))
      | .error _ => some "invalid"
  | ["vpre", "gem", h] =>
      match Gem.construct (unhex h) with
      | .ok a => some (gemBit (Gem.isPrerelease a))
      | .error _ => some "invalid"
  | _ => none

end Univers.Driver
