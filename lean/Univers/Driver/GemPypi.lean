/-
Driver commands for the RubyGems and PyPI native range converters.

  native gem <hex>                → ok:<items> | err:<Name>
  native pypi <hex>               → ok:<items> | err:<Name>
  gemsat <hex requirement> <hex version> → true | false | err:<Name>   (GemRequirement.satisfied_by)
  gemtilde <hex version>          → ok:<items> | err:<Name>           (get_tilde_constraints)
  gempypi-info                    → which `mkVer` the pypi converter is instantiated with
-/
import Univers.Text.GemReq
import Univers.Text.PypiNative
import Univers.Scheme.Pypi
import Univers.Driver.Util

namespace Univers.Driver

open Univers Univers.Text

private def gpCmprName : Cmpr → String
  | .ge => "ge" | .le => "le" | .ne => "ne" | .lt => "lt" | .gt => "gt" | .eq => "eq"

private def gpItem : TCon → String
  | .star => "star"
  | .mk c v => gpCmprName c ++ ":" ++ hex v

private def gpItems (cs : List TCon) : String :=
  if cs.isEmpty then "-" else ",".intercalate (cs.map gpItem)

private def gpRes : Except TErr (List TCon) → String
  | .ok cs => "ok:" ++ gpItems cs
  | .error e => "err:" ++ e.name

/-- `str(PypiVersion(text))` from the Layer-A model of the pypi scheme -/
def pypiMkVer (t : List Char) : Except TErr (List Char) :=
  match Pypi.construct t with
  | .ok r => .ok (Pypi.str r)
  | .error .invalid => .error .InvalidVersion
  | .error (.other n) => .error (GP.errOfName n)

def gemPypiCmd : List String → Option String
  | ["native", "gem", h] => some (gpRes (GemReq.fromNative (unhex h)))
  | ["native", "pypi", h] => some (gpRes (PypiNative.fromNative pypiMkVer (unhex h)))
  | ["gemsat", hr, hv] =>
      some (match GemReq.satisfiedByStr (unhex hr) (unhex hv) with
        | .ok b => boolStr b
        | .error e => "err:" ++ e.name)
  | ["gemtilde", hv] => some (gpRes (GemReq.tildeOfStr (unhex hv)))
  | ["gempypi-info"] => some "pypi-mkver:layerA"
  | _ => none

end Univers.Driver
