/-
Driver commands `vparse deb <hex>` and `vcmp deb <hex a> <hex b>` for the Debian scheme.
-/
import Univers.Scheme.Deb
import Univers.Driver.Util

namespace Univers.Driver

open Univers

private def debBit (b : Bool) : String := if b then "1" else "0"

def debCmd : List String → Option String
  | ["vparse", "deb", h] =>
    match Deb.construct (unhex h) with
    | .ok r => some ("ok " ++ hex (Deb.str r))
    | .error .invalid => some "invalid"
    | .error (.other n) => some ("raise:" ++ n)
  | ["vcmp", "deb", ha, hb] =>
    match Deb.construct (unhex ha), Deb.construct (unhex hb) with
    | .ok a, .ok b =>
      let o := Deb.verOps
      let bits := debBit (o.eq a b) ++ debBit (o.ne a b) ++ debBit (o.lt a b) ++ debBit (o.le a b)
        ++ debBit (o.gt a b) ++ debBit (o.ge a b)
      let h := if !Deb.hashable then "x" else if Deb.hashKey a == Deb.hashKey b then "1" else "0"
      some (ordStr (Deb.vercmp a b) ++ " " ++ bits ++ " " ++ h)
    | .error .invalid, _ => some "invalid"
    | .error (.other n), _ => some ("raise:" ++ n)
    | .ok _, .error .invalid => some "invalid"
    | .ok _, .error (.other n) => some ("raise:" ++ n)
  | _ => none

end Univers.Driver
