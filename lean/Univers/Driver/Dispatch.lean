/-
Driver commands for the class-level dispatch model (C14).
-/
import Univers.Py.Dispatch

namespace Univers.Driver

open Univers.Py Univers.Gen

def outcomeStr : Outcome → String
  | .typeError => "TypeError" | .false_ => "false" | .true_ => "true" | .depends => "depends"

def dispatchCmd : List String → Option String
  | ["xcmp", a, b, d] =>
      match findClass a, findClass b with
      | some ka, some kb => some s!"{outcomeStr (crossOutcome ka kb d)} {if unrelated ka kb then "unrelated" else "related"}"
      | _, _ => some "unknown-class"
  -- `version in VersionConstraint(version_class=vc)` / `version in VersionRange` of class vc:
  -- `isinstance(version, version_class)` decides between an answer and the error
  | ["xin", vc, c] =>
      match findClass vc, findClass c with
      | some kvc, some kc =>
          -- a proper subclass passes `isinstance` but the comparison that follows is between
          -- two different classes: outside what this command predicts
          some (if kc.name == kvc.name then "answer" else if isSubclassOf kc kvc then "depends" else "error")
      | _, _ => some "unknown-class"
  | _ => none

end Univers.Driver
