/-
Helpers for the line protocol: hex-encoded strings, lists, error names.
-/
import Univers.Vers.Model

namespace Univers.Driver

def hexVal (c : Char) : Nat :=
  if '0' ≤ c ∧ c ≤ '9' then c.toNat - '0'.toNat
  else if 'a' ≤ c ∧ c ≤ 'f' then c.toNat - 'a'.toNat + 10
  else if 'A' ≤ c ∧ c ≤ 'F' then c.toNat - 'A'.toNat + 10
  else 0

/-- decode a hex string of UTF-32 code points: 6 hex digits per character; "-" is empty -/
def unhex (s : String) : List Char :=
  if s == "-" then [] else
  let rec go : List Char → List Char
    | a :: b :: c :: d :: e :: f :: rest =>
        Char.ofNat (((((hexVal a * 16 + hexVal b) * 16 + hexVal c) * 16 + hexVal d) * 16 + hexVal e) * 16 + hexVal f)
          :: go rest
    | _ => []
  go s.toList

def hexDigit (n : Nat) : Char :=
  if n < 10 then Char.ofNat (n + '0'.toNat) else Char.ofNat (n - 10 + 'a'.toNat)

def hexChar (c : Char) : List Char :=
  let n := c.toNat
  [hexDigit (n / 1048576 % 16), hexDigit (n / 65536 % 16), hexDigit (n / 4096 % 16),
   hexDigit (n / 256 % 16), hexDigit (n / 16 % 16), hexDigit (n % 16)]

def hex (cs : List Char) : String :=
  if cs.isEmpty then "-" else String.ofList (cs.flatMap hexChar)

def errName : Err → String
  | .ValueError => "ValueError"
  | .TypeError => "TypeError"
  | .InvalidConstraintsError => "InvalidConstraintsError"
  | .KeyError => "KeyError"
  | .AttributeError => "AttributeError"
  | .IndexError => "IndexError"
  | .OutOfFuel => "OutOfFuel"

def boolStr (b : Bool) : String := if b then "true" else "false"

def ordStr : Ordering → String
  | .lt => "lt" | .eq => "eq" | .gt => "gt"

end Univers.Driver
