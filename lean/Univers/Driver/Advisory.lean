/-
Driver commands for the advisory notations and the simple relation converters
(`Univers/Text/Advisory.lean`):

    advisory github <scheme> <hexes>          → ok:<items> | err:<ExcClassName>
    advisory snyk   <scheme> <hexes>
    advisory gitlab <gitlab_scheme> <hex>
    native deb|rpm <hexes>        (from_natives; a single string = one field)
    native openssl|nginx <hex>
    advisory stubs                             → comma-separated version classes whose constructor is
                                                 the stub (= base `univers.versions.Version`)
    stub <any of the lines above>              → the same with the stub for EVERY version class but
                                                 `NginxVersion` (text layer only, independent of Layer A)

`<hexes>` = hex fields separated by `;` (the `string_or_list` argument), `[]` = the empty list.
`<items>` = `-` or comma-separated `star` / `<cmpr>:<hex str(version)>`.

Version constructors: the Layer-A model of the version class where one exists in this tree
(`advModelled` below), otherwise the stub `advStubVer` which behaves like the base class
`univers.versions.Version` (normalize = remove whitespace + `lstrip("vV")`, valid iff non-empty,
`str` = the normalized text).  The harness asks `advisory stubs` and substitutes the base class
for exactly those classes on the Python side, so that the text layer is compared exactly.
-/
import Univers.Driver.Util
import Univers.Text.Advisory
import Univers.Scheme.Semver
import Univers.Scheme.Gem
import Univers.Scheme.Openssl
import Univers.Scheme.Deb
import Univers.Scheme.Rpm
import Univers.Scheme.Alpm
import Univers.Scheme.Gentoo
import Univers.Scheme.Pypi
import Univers.Scheme.Maven
import Univers.Scheme.Nuget
import Univers.Scheme.Conan

namespace Univers.Driver

open Univers Univers.Text Univers.Text.Advisory

/-- base `univers.versions.Version` -/
def advStubVer (s : List Char) : Except TErr (List Char) :=
  let n := (Advisory.removeSpaces s).dropWhile (fun c => c == 'v' || c == 'V')
  if n.isEmpty then .error .InvalidVersion else .ok n

/-- version classes with a Layer-A model wired here -/
def advModelled : List (String × (List Char → Except TErr (List Char))) := [
  ("SemverVersion", fun s => match Semver.construct s with
    | .ok r => .ok (Semver.str r) | .error .invalid => .error .InvalidVersion
    | .error (.other n) => .error (.other n)),
  ("GolangVersion", fun s => match Semver.constructGolang s with
    | .ok r => .ok (Semver.str r) | .error .invalid => .error .InvalidVersion
    | .error (.other n) => .error (.other n)),
  ("ComposerVersion", fun s => match Semver.constructComposer s with
    | .ok r => .ok (Semver.str r) | .error .invalid => .error .InvalidVersion
    | .error (.other n) => .error (.other n)),
  ("NginxVersion", fun s => match Semver.constructNginx s with
    | .ok r => .ok (Semver.str r) | .error .invalid => .error .InvalidVersion
    | .error (.other n) => .error (.other n)),
  ("RubygemsVersion", fun s => match Gem.construct s with
    | .ok r => .ok (Gem.str r) | .error .invalid => .error .InvalidVersion
    | .error (.other n) => .error (.other n)),
  ("OpensslVersion", fun s => match Openssl.construct s with
    | .ok r => .ok (Openssl.str r) | .error .invalid => .error .InvalidVersion
    | .error (.other n) => .error (.other n)),
  ("DebianVersion", fun s => match Deb.construct s with
    | .ok r => .ok (Deb.str r) | .error .invalid => .error .InvalidVersion
    | .error (.other n) => .error (.other n)),
  ("RpmVersion", fun s => match Rpm.construct s with
    | .ok r => .ok (Rpm.str r) | .error .invalid => .error .InvalidVersion
    | .error (.other n) => .error (.other n)),
  ("ArchLinuxVersion", fun s => match Alpm.construct s with
    | .ok r => .ok (Alpm.str r) | .error .invalid => .error .InvalidVersion
    | .error (.other n) => .error (.other n)),
  ("GentooVersion", fun s => match Gentoo.construct s with
    | .ok r => .ok (Gentoo.str r) | .error .invalid => .error .InvalidVersion
    | .error (.other n) => .error (.other n)),
  ("AlpineLinuxVersion", fun s => match Gentoo.constructAlpine s with
    | .ok r => .ok (Gentoo.str r) | .error .invalid => .error .InvalidVersion
    | .error (.other n) => .error (.other n)),
  ("PypiVersion", fun s => match Pypi.construct s with
    | .ok r => .ok (Pypi.str r) | .error .invalid => .error .InvalidVersion
    | .error (.other n) => .error (.other n)),
  ("MavenVersion", fun s => match Maven.construct s with
    | .ok r => .ok (Maven.str r) | .error .invalid => .error .InvalidVersion
    | .error (.other n) => .error (.other n)),
  ("NugetVersion", fun s => match Nuget.construct s with
    | .ok r => .ok (Nuget.str r) | .error .invalid => .error .InvalidVersion
    | .error (.other n) => .error (.other n)),
  ("ConanVersion", fun s => match Conan.construct s with
    | .ok r => .ok (Conan.str r) | .error .invalid => .error .InvalidVersion
    | .error (.other n) => .error (.other n))]

/-- the version constructor by version-class name -/
def advMkVerOf (vc : String) : List Char → Except TErr (List Char) :=
  match advModelled.lookup vc with
  | some f => f
  | none => advStubVer

/-- the version classes of the registry that are served by the stub -/
def advStubs : List String :=
  ((Gen.rangeClasses.filterMap (·.versionClass)).filter (fun vc => (advModelled.lookup vc).isNone)).eraseDups

/-- `from_native` of conan / maven / nuget is not part of this component -/
def advStubNative (_ : String) (_ : List Char) : Except TErr (List TCon) := .error (.other "Delegated")

/-- `cls.version_class` of a range class, by name -/
def advClassVer (mkVerOf : String → List Char → Except TErr (List Char)) (cls : String) :
    List Char → Except TErr (List Char) :=
  match versionClassOf cls with
  | some vc => mkVerOf vc
  | none => fun _ => .error .TypeError

def advCmprTag : Cmpr → String
  | .ge => "ge" | .le => "le" | .ne => "ne" | .lt => "lt" | .gt => "gt" | .eq => "eq"

def advTconStr : TCon → String
  | .star => "star"
  | .mk c v => advCmprTag c ++ ":" ++ hex v

def advResult : Except TErr (List TCon) → String
  | .ok [] => "ok:-"
  | .ok cs => "ok:" ++ ",".intercalate (cs.map advTconStr)
  | .error e => "err:" ++ e.name

/-- `h1;h2;…` → the list of strings; `[]` → the empty list -/
def advUnhexList (t : String) : List (List Char) :=
  if t == "[]" then [] else (t.splitOn ";").map unhex

/-- text-layer-only mode: every version class but `NginxVersion` is the stub -/
def advStubMkVerOf (vc : String) : List Char → Except TErr (List Char) :=
  if vc == "NginxVersion" then advMkVerOf vc else advStubVer

def advAllStubs : List String :=
  ((Gen.rangeClasses.filterMap (·.versionClass)).filter (fun vc => vc != "NginxVersion")).eraseDups

def advisoryRun (mkVerOf : String → List Char → Except TErr (List Char))
    (nativeOf : String → List Char → Except TErr (List TCon)) : List String → Option String
  | ["advisory", "github", scheme, h] => some (advResult (fromGithub mkVerOf scheme (advUnhexList h)))
  | ["advisory", "snyk", scheme, h] => some (advResult (fromSnyk mkVerOf scheme (advUnhexList h)))
  | ["advisory", "gitlab", scheme, h] =>
      some (advResult (fromGitlab mkVerOf nativeOf scheme (unhex h)))
  | ["native", "deb", h] =>
      some (advResult (debNatives (advClassVer mkVerOf "DebianVersionRange") (advUnhexList h)))
  | ["native", "rpm", h] =>
      some (advResult (rpmNatives (advClassVer mkVerOf "RpmVersionRange") (advUnhexList h)))
  | ["native", "openssl", h] =>
      some (advResult (opensslNative (advClassVer mkVerOf "OpensslVersionRange") (unhex h)))
  | ["native", "nginx", h] => some (advResult (nginxNative nginxSemver (unhex h)))
  | _ => none

/-- the handler; a line prefixed with `stub` runs in the text-layer-only mode -/
def advisoryCmdWith (nativeOf : String → List Char → Except TErr (List TCon)) :
    List String → Option String
  | ["advisory", "stubs"] => some (",".intercalate advStubs)
  | ["stub", "advisory", "stubs"] => some (",".intercalate advAllStubs)
  | "stub" :: rest => advisoryRun advStubMkVerOf nativeOf rest
  | ws => advisoryRun advMkVerOf nativeOf ws

def advisoryCmd : List String → Option String := advisoryCmdWith advStubNative

end Univers.Driver
