/-
Driver commands for the npm native range converter and the semver shorthand helpers.

  native npm <hex text>                         → ok:<items> | err:<ExcClassName>
  shorthand caret|tilde|pessimistic <hex v>     → the helper applied to "^"+v / "~"+v / "~>"+v
  shorthands caret|tilde|pessimistic <hex s>    → the helper applied to the string s as it is

Versions are built with the Layer-A model `Univers.Semver` (no stub).
-/
import Univers.Driver.Util
import Univers.Text.Npm

namespace Univers.Driver

open Univers Univers.Text

private def npmCmprName : Cmpr → String
  | .ge => "ge" | .le => "le" | .ne => "ne" | .lt => "lt" | .gt => "gt" | .eq => "eq"

private def npmItem : TCon → String
  | .star => "star"
  | .mk c v => npmCmprName c ++ ":" ++ hex v

private def npmRes : Except TErr (List TCon) → String
  | .ok cs => "ok:" ++ (if cs.isEmpty then "-" else ",".intercalate (cs.map npmItem))
  | .error e => "err:" ++ e.name

def npmCmd : List String → Option String
  | ["native", "npm", h] => some (npmRes (Npm.fromNative (unhex h)))
  | ["shorthand", "caret", h] => some (npmRes (Npm.caretConstraints ('^' :: unhex h)))
  | ["shorthand", "tilde", h] => some (npmRes (Npm.tildeConstraints ('~' :: unhex h)))
  | ["shorthand", "pessimistic", h] =>
      some (npmRes (Npm.pessimisticConstraints ('~' :: '>' :: unhex h)))
  | ["shorthands", "caret", h] => some (npmRes (Npm.caretConstraints (unhex h)))
  | ["shorthands", "tilde", h] => some (npmRes (Npm.tildeConstraints (unhex h)))
  | ["shorthands", "pessimistic", h] => some (npmRes (Npm.pessimisticConstraints (unhex h)))
  | _ => none

end Univers.Driver
