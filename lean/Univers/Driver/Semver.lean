/-
Driver commands `vparse` / `vcmp` for the schemes `semver`, `golang`, `composer`, `nginx`.
-/
import Univers.Driver.Util
import Univers.Scheme.Semver

namespace Univers.Driver

open Univers.Semver in
private def semverConstruct : String → Option (List Char → Except Semver.PErr Semver.Raw)
  | "semver" => some construct
  | "golang" => some constructGolang
  | "composer" => some constructComposer
  | "nginx" => some constructNginx
  | _ => none

private def semverBit (b : Bool) : String := if b then "1" else "0"

private def semverBits {R : Type} (o : VOps R) (a b : R) : String :=
  semverBit (o.eq a b) ++ semverBit (o.ne a b) ++ semverBit (o.lt a b) ++ semverBit (o.le a b) ++ semverBit (o.gt a b) ++ semverBit (o.ge a b)

def semverCmd : List String → Option String
  | ["vparse", sch, h] =>
    match semverConstruct sch with
    | none => none
    | some c =>
      match c (unhex h) with
      | .ok r => some ("ok " ++ hex (Semver.str r))
      | .error .invalid => some "invalid"
      | .error (.other n) => some ("raise:" ++ n)
  | ["vcmp", sch, ha, hb] =>
    match semverConstruct sch with
    | none => none
    | some c =>
      match c (unhex ha), c (unhex hb) with
      | .ok a, .ok b =>
        let h := if Semver.hashable then semverBit (Semver.hashKey a == Semver.hashKey b) else "x"
        some (ordStr (Semver.vercmp a b) ++ " " ++ semverBits Semver.verOps a b ++ " " ++ h)
      | _, _ => some "invalid"
  | _ => none

end Univers.Driver
