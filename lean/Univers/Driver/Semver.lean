/-
Driver commands `vparse` / `vcmp` for the schemes `semver`, `golang`, `composer`, `nginx`.
-/
import Univers.Driver.Util
import Univers.Scheme.Semver

namespace Univers.Driver

open Univers.Semver in
def semverConstruct : String → Option (List Char → Except Semver.PErr Semver.Raw)
  | "semver" => some construct
  | "golang" => some constructGolang
  | "composer" => some constructComposer
  | "nginx" => some constructNginx
  | _ => none

def bit (b : Bool) : String := if b then "1" else "0"

def opsBits {R : Type} (o : VOps R) (a b : R) : String :=
  bit (o.eq a b) ++ bit (o.ne a b) ++ bit (o.lt a b) ++ bit (o.le a b) ++ bit (o.gt a b) ++ bit (o.ge a b)

def semverCmd : List String → Option String
  | ["vparse", sch, h] =>
    match semverConstruct sch with
    | none => none
    | some c =>
      match c (unhex h) with
      | .ok r => some ("ok " ++ hex (Semver.str r))
      | .error .invalid => some "invalid"
      | .error (.other n) => some ("raise:" ++ n)
  | ["vcmp", sch, ha, hb] =>
    match semverConstruct sch with
    | none => none
    | some c =>
      match c (unhex ha), c (unhex hb) with
      | .ok a, .ok b =>
        let h := if Semver.hashable then bit (Semver.hashKey a == Semver.hashKey b) else "x"
        some (ordStr (Semver.vercmp a b) ++ " " ++ opsBits Semver.verOps a b ++ " " ++ h)
      | _, _ => some "invalid"
  | _ => none

end Univers.Driver
