/-
Driver commands for the `generic` scheme.
-/
import Univers.Scheme.Generic
import Univers.Driver.Util

namespace Univers.Driver

open Univers

def bitsOf {R} (o : VOps R) (a b : R) : String :=
  String.ofList [if o.eq a b then '1' else '0', if o.ne a b then '1' else '0', if o.lt a b then '1' else '0',
    if o.le a b then '1' else '0', if o.gt a b then '1' else '0', if o.ge a b then '1' else '0']

def genericCmd : List String → Option String
  | ["vparse", "generic", h] =>
      match Generic.construct (unhex h) with
      | .ok r => some ("ok " ++ hex (Generic.str r))
      | .error .invalid => some "invalid"
      | .error (.other n) => some ("raise:" ++ n)
  | ["vcmp", "generic", ha, hb] =>
      match Generic.construct (unhex ha), Generic.construct (unhex hb) with
      | .ok a, .ok b =>
          some s!"{ordStr (Generic.vercmp a b)} {bitsOf Generic.verOps a b} {if Generic.hashKey a == Generic.hashKey b then "1" else "0"}"
      | _, _ => some "invalid"
  | _ => none

end Univers.Driver
