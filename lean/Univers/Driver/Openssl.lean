/-
Driver commands `vparse` / `vcmp` for the schemes `legacy_openssl` and `openssl`.
-/
import Univers.Driver.Util
import Univers.Scheme.Openssl

namespace Univers.Driver

private def osslBit (b : Bool) : String := if b then "1" else "0"

private def osslBits {R : Type} (o : VOps R) (a b : R) : String :=
  osslBit (o.eq a b) ++ osslBit (o.ne a b) ++ osslBit (o.lt a b) ++ osslBit (o.le a b) ++
    osslBit (o.gt a b) ++ osslBit (o.ge a b)

private def osslErr : Openssl.PErr → String
  | .invalid => "invalid"
  | .other n => "raise:" ++ n

open Univers.Openssl in
def opensslCmd : List String → Option String
  | ["vparse", "legacy_openssl", h] =>
    match Legacy.construct (unhex h) with
    | .ok r => some ("ok " ++ hex (Legacy.str r))
    | .error e => some (osslErr e)
  | ["vparse", "openssl", h] =>
    match construct (unhex h) with
    | .ok r => some ("ok " ++ hex (str r))
    | .error e => some (osslErr e)
  | ["vcmp", "legacy_openssl", ha, hb] =>
    match Legacy.construct (unhex ha), Legacy.construct (unhex hb) with
    | .ok a, .ok b =>
      let h := if Legacy.hashable then osslBit (Legacy.hashKey a == Legacy.hashKey b) else "x"
      some (ordStr (Legacy.vercmp a b) ++ " " ++ osslBits Legacy.verOps a b ++ " " ++ h)
    | _, _ => some "invalid"
  | ["vcmp", "openssl", ha, hb] =>
    match construct (unhex ha), construct (unhex hb) with
    | .ok a, .ok b =>
      let h := if hashable then osslBit (hashKey a == hashKey b) else "x"
      some (ordStr (vercmp a b) ++ " " ++ osslBits verOps a b ++ " " ++ h)
    | _, _ => some "invalid"
  | _ => none

end Univers.Driver
