/-
Driver commands telling whether a version lies in the sub-domain of a scheme's partial
refinement theorem (used by the C01/C03 checks to classify a failing input).
-/
import Univers.Scheme.MavenThm
import Univers.Scheme.GentooThm
import Univers.Scheme.ConanThm
import Univers.Driver.Util

namespace Univers.Driver

open Univers

def domainCmd : List String → Option String
  | ["vdomain", "maven", h] =>
      match Maven.construct (unhex h) with
      | .ok r => some (if Maven.InDomain r then "in" else "out")
      | .error _ => some "invalid"
  | ["vdomain", "ebuild", h] =>
      match Gentoo.construct (unhex h) with
      | .ok r => some (if Gentoo.FirstOK r then "in" else "out")
      | .error _ => some "invalid"
  | ["vdomain", "alpine", h] =>
      match Gentoo.constructAlpine (unhex h) with
      | .ok r => some (if Gentoo.FirstOK r then "in" else "out")
      | .error _ => some "invalid"
  | ["vcompat", "conan", ha, hb] =>
      match Conan.construct (unhex ha), Conan.construct (unhex hb) with
      | .ok a, .ok b => some (if Conan.Compat a b then "in" else "out")
      | _, _ => some "invalid"
  | _ => none

end Univers.Driver
