/-
Driver commands for the vers text layer (`Univers/Text/Vers.lean`) and for the Python string
helpers (`Univers/Text/Str.lean`).

  fromstr <hex text>       → ok:<scheme>:<items> | err:<ExcName>
                             | raw:<scheme>:<raw items>      (scheme whose version class has
                               no Layer-A model wired below: the harness completes the answer
                               with the real version class; a raw item is `star`,
                               `<cmpr>:<hex text handed to version_class>` or `!<ExcName>`)
  tostr <scheme> <items>   → <hex of str(range)>             (items already version-sorted)
  todict <scheme> <items>  → <hex scheme> <hex comparator>:<hex version>,…
  csplit <hex>             → <hex comparator> <hex version>  (`VersionConstraint.split`)
  strop <op> <hex> [<hex>] → the Python string helper `op`

`<items>` = `-` or comma-separated `star` | `<cmpr>:<hex version text>`.
-/
import Univers.Text.Vers
import Univers.Text.EndToEnd
import Univers.Driver.Util
import Univers.Driver.Vers
import Univers.Scheme.Gem
import Univers.Scheme.Semver
import Univers.Scheme.Openssl
import Univers.Scheme.Deb
import Univers.Scheme.Rpm
import Univers.Scheme.Alpm
import Univers.Scheme.Gentoo
import Univers.Scheme.Pypi
import Univers.Scheme.Maven
import Univers.Scheme.Nuget
import Univers.Scheme.Conan
import Univers.Scheme.Generic

namespace Univers.Driver

open Univers Univers.Text Univers.Text.Str

/-- exception class name → `TErr` -/
def terrOfName (n : String) : TErr :=
  match n with
  | "ValueError" => .ValueError
  | "InvalidVersion" => .InvalidVersion
  | "InvalidVersionRange" => .InvalidVersionRange
  | "TypeError" => .TypeError
  | "IndexError" => .IndexError
  | "KeyError" => .KeyError
  | "AttributeError" => .AttributeError
  | "UnboundLocalError" => .UnboundLocalError
  | "AssertionError" => .AssertionError
  | "NotImplementedError" => .NotImplementedError
  | n => .other n

/-- a Layer-A constructor as a text-layer version class: `str(version_class(text))` -/
def liftVer {R : Type} (r : Except (Option String) R) (str : R → List Char) : Except TErr (List Char) :=
  match r with
  | .ok v => .ok (str v)
  | .error none => .error .InvalidVersion
  | .error (some n) => .error (terrOfName n)

def gemE : Except Gem.PErr Gem.Raw → Except (Option String) Gem.Raw
  | .ok r => .ok r | .error .invalid => .error none | .error (.other n) => .error (some n)
def semverE : Except Semver.PErr Semver.Raw → Except (Option String) Semver.Raw
  | .ok r => .ok r | .error .invalid => .error none | .error (.other n) => .error (some n)
def opensslE : Except Openssl.PErr Openssl.Raw → Except (Option String) Openssl.Raw
  | .ok r => .ok r | .error .invalid => .error none | .error (.other n) => .error (some n)
def debE : Except Deb.PErr Deb.Raw → Except (Option String) Deb.Raw
  | .ok r => .ok r | .error .invalid => .error none | .error (.other n) => .error (some n)
def rpmE : Except Rpm.PErr Rpm.Raw → Except (Option String) Rpm.Raw
  | .ok r => .ok r | .error .invalid => .error none | .error (.other n) => .error (some n)
def alpmE : Except Alpm.PErr Alpm.Raw → Except (Option String) Alpm.Raw
  | .ok r => .ok r | .error .invalid => .error none | .error (.other n) => .error (some n)
def gentooE : Except Gentoo.PErr Gentoo.Raw → Except (Option String) Gentoo.Raw
  | .ok r => .ok r | .error .invalid => .error none | .error (.other n) => .error (some n)

def pypiE : Except Pypi.PErr Pypi.Raw → Except (Option String) Pypi.Raw
  | .ok r => .ok r | .error .invalid => .error none | .error (.other n) => .error (some n)
def mavenE : Except Maven.PErr Maven.Raw → Except (Option String) Maven.Raw
  | .ok r => .ok r | .error .invalid => .error none | .error (.other n) => .error (some n)
def nugetE : Except Nuget.PErr Nuget.Raw → Except (Option String) Nuget.Raw
  | .ok r => .ok r | .error .invalid => .error none | .error (.other n) => .error (some n)
def conanE : Except Conan.PErr Conan.Raw → Except (Option String) Conan.Raw
  | .ok r => .ok r | .error .invalid => .error none | .error (.other n) => .error (some n)
def genericE : Except Generic.PErr Generic.Raw → Except (Option String) Generic.Raw
  | .ok r => .ok r | .error .invalid => .error none | .error (.other n) => .error (some n)

/-- the Layer-A models wired so far, by version class name.  A version class that is not
listed here is the accept-unchanged stub (answer `raw:`).  TO WIRE a new scheme: add its import,
an `…E` adapter and one line here. -/
def layerA : List (String × (List Char → Except TErr (List Char))) := [
  ("RubygemsVersion", fun s => liftVer (gemE (Gem.construct s)) Gem.str),
  ("SemverVersion", fun s => liftVer (semverE (Semver.construct s)) Semver.str),
  ("NginxVersion", fun s => liftVer (semverE (Semver.constructNginx s)) Semver.str),
  ("GolangVersion", fun s => liftVer (semverE (Semver.constructGolang s)) Semver.str),
  ("ComposerVersion", fun s => liftVer (semverE (Semver.constructComposer s)) Semver.str),
  ("OpensslVersion", fun s => liftVer (opensslE (Openssl.construct s)) Openssl.str),
  ("DebianVersion", fun s => liftVer (debE (Deb.construct s)) Deb.str),
  ("RpmVersion", fun s => liftVer (rpmE (Rpm.construct s)) Rpm.str),
  ("ArchLinuxVersion", fun s => liftVer (alpmE (Alpm.construct s)) Alpm.str),
  ("GentooVersion", fun s => liftVer (gentooE (Gentoo.construct s)) Gentoo.str),
  ("AlpineLinuxVersion", fun s => liftVer (gentooE (Gentoo.constructAlpine s)) Gentoo.str),
  ("PypiVersion", fun s => liftVer (pypiE (Pypi.construct s)) Pypi.str),
  ("MavenVersion", fun s => liftVer (mavenE (Maven.construct s)) Maven.str),
  ("NugetVersion", fun s => liftVer (nugetE (Nuget.construct s)) Nuget.str),
  ("ConanVersion", fun s => liftVer (conanE (Conan.construct s)) Conan.str),
  ("GenericVersion", fun s => liftVer (genericE (Generic.construct s)) Generic.str)]

/-- the Layer-A models as `TextScheme`s (constructor, printer, operators), by version class name -/
def liftCon {R : Type} (r : Except (Option String) R) : Except TErr R :=
  match r with
  | .ok v => .ok v
  | .error none => .error .InvalidVersion
  | .error (some n) => .error (terrOfName n)

def textSchemes : List (String × EndToEnd.TextScheme) := [
  ("RubygemsVersion", ⟨Gem.Raw, fun s => liftCon (gemE (Gem.construct s)), Gem.str, Gem.verOps⟩),
  ("SemverVersion", ⟨Semver.Raw, fun s => liftCon (semverE (Semver.construct s)), Semver.str, Semver.verOps⟩),
  ("NginxVersion", ⟨Semver.Raw, fun s => liftCon (semverE (Semver.constructNginx s)), Semver.str, Semver.verOps⟩),
  ("GolangVersion", ⟨Semver.Raw, fun s => liftCon (semverE (Semver.constructGolang s)), Semver.str, Semver.verOps⟩),
  ("ComposerVersion", ⟨Semver.Raw, fun s => liftCon (semverE (Semver.constructComposer s)), Semver.str, Semver.verOps⟩),
  ("OpensslVersion", ⟨Openssl.Raw, fun s => liftCon (opensslE (Openssl.construct s)), Openssl.str, Openssl.verOps⟩),
  ("DebianVersion", ⟨Deb.Raw, fun s => liftCon (debE (Deb.construct s)), Deb.str, Deb.verOps⟩),
  ("RpmVersion", ⟨Rpm.Raw, fun s => liftCon (rpmE (Rpm.construct s)), Rpm.str, Rpm.verOps⟩),
  ("ArchLinuxVersion", ⟨Alpm.Raw, fun s => liftCon (alpmE (Alpm.construct s)), Alpm.str, Alpm.verOps⟩),
  ("GentooVersion", ⟨Gentoo.Raw, fun s => liftCon (gentooE (Gentoo.construct s)), Gentoo.str, Gentoo.verOps⟩),
  ("AlpineLinuxVersion", ⟨Gentoo.Raw, fun s => liftCon (gentooE (Gentoo.constructAlpine s)), Gentoo.str, Gentoo.verOps⟩),
  ("PypiVersion", ⟨Pypi.Raw, fun s => liftCon (pypiE (Pypi.construct s)), Pypi.str, Pypi.verOps⟩),
  ("MavenVersion", ⟨Maven.Raw, fun s => liftCon (mavenE (Maven.construct s)), Maven.str, Maven.verOps⟩),
  ("NugetVersion", ⟨Nuget.Raw, fun s => liftCon (nugetE (Nuget.construct s)), Nuget.str, Nuget.verOps⟩),
  ("ConanVersion", ⟨Conan.Raw, fun s => liftCon (conanE (Conan.construct s)), Conan.str, Conan.verOps⟩),
  ("GenericVersion", ⟨Generic.Raw, fun s => liftCon (genericE (Generic.construct s)), Generic.str, Generic.verOps⟩)]

/-- the stub: every (non-empty) text is accepted unchanged -/
def stubVer (s : List Char) : Except TErr (List Char) := .ok s

/-- the `mkVer` parameter of the model as the driver instantiates it -/
def textMkVer : Vers.MkVer := fun vc s =>
  match layerA.lookup vc with
  | some f => f s
  | none => stubVer s

def tconStr : TCon → String
  | .star => "star"
  | .mk c v => cmprName c ++ ":" ++ hex v

def tconsStr (cs : List TCon) : String :=
  if cs.isEmpty then "-" else ",".intercalate (cs.map tconStr)

def parseTCon (s : String) : Option TCon :=
  if s == "star" then some .star else
  match s.splitOn ":" with
  | [c, v] => do
      let c ← parseCmpr c
      pure (.mk c (unhex v))
  | _ => none

def parseTCons (s : String) : Option (List TCon) :=
  if s == "-" then some [] else (s.splitOn ",").mapM parseTCon

def rawItem (r : Except TErr TCon) : String :=
  match r with
  | .ok c => tconStr c
  | .error e => "!" ++ e.name

/-- `fromstr` -/
def fromstrAnswer (t : List Char) : String :=
  match Vers.header t with
  | .error e => "err:" ++ e.name
  | .ok (scheme, vc, constraints) =>
      if (layerA.lookup vc).isSome then
        match Vers.fromString textMkVer t with
        | .ok (s, items) => "ok:" ++ String.ofList s ++ ":" ++ tconsStr items
        | .error e => "err:" ++ e.name
      else
        match Vers.constraintBody constraints with
        | .error e => "err:" ++ e.name
        | .ok .star => "raw:" ++ String.ofList scheme ++ ":" ++ rawItem (Vers.conFromString stubVer ['*'])
        | .ok (.texts texts) =>
            -- a star inside the list is rejected by the loop itself
            let item (p : List Char) : String :=
              match Vers.conFromString stubVer p with
              | .ok .star => "!ValueError"
              | r => rawItem r
            "raw:" ++ String.ofList scheme ++ ":" ++ ",".intercalate (texts.map item)

/-- `e2e <hex vers> <hex version>`: `version_class(x) in VersionRange.from_string(t)` -/
def e2eAnswer (t x : List Char) : String :=
  match Vers.header t with
  | .error e => "err:" ++ e.name
  | .ok (_, vc, _) =>
    match textSchemes.lookup vc with
    | none => "nomodel"
    | some T =>
      match EndToEnd.contains T textMkVer t x with
      | .ok b => "ok:" ++ boolStr b
      | .error e => "err:" ++ e.name

def hexList (l : List (List Char)) : String :=
  if l.isEmpty then "[]" else ",".intercalate (l.map hex)

def stropAnswer : List String → Option String
  | ["removespaces", h] => some (hex (removeSpaces (unhex h)))
  | ["splitws", h] => some (hexList (splitWs (unhex h)))
  | ["strip", h] => some (hex (stripWs (unhex h)))
  | ["lstrip", h] => some (hex (lstripWs (unhex h)))
  | ["rstrip", h] => some (hex (rstripWs (unhex h)))
  | ["lower", h] => some (hex (lower (unhex h)))
  | ["upper", h] => some (hex (upper (unhex h)))
  | ["isascii", h] => some (if isAsciiRepr (unhex h) then "1" else "0")
  | ["isdigit", h] => some (if allDigits (unhex h) then "1" else "0")
  | ["lstripset", h, a] => some (hex (lstripSet (unhex a) (unhex h)))
  | ["rstripset", h, a] => some (hex (rstripSet (unhex a) (unhex h)))
  | ["stripset", h, a] => some (hex (stripSet (unhex a) (unhex h)))
  | ["startswith", h, a] => some (if startsWith (unhex h) (unhex a) then "1" else "0")
  | ["endswith", h, a] => some (if endsWith (unhex h) (unhex a) then "1" else "0")
  | ["partition", h, a] =>
      match unhex a with
      | [c] =>
          let r := partitionChar c (unhex h)
          let r2 := partitionStr [c] (unhex h)
          some (hex r.1 ++ " " ++ hex r.2.1 ++ " " ++ hex r.2.2 ++ " " ++
                hex r2.1 ++ " " ++ hex r2.2.1 ++ " " ++ hex r2.2.2)
      | sep =>
          let r := partitionStr sep (unhex h)
          some (hex r.1 ++ " " ++ hex r.2.1 ++ " " ++ hex r.2.2 ++ " " ++
                hex r.1 ++ " " ++ hex r.2.1 ++ " " ++ hex r.2.2)
  | ["split", h, a] =>
      match unhex a with
      | [c] => some (hexList (splitChar c (unhex h)) ++ " " ++ hexList (splitStr [c] (unhex h)))
      | sep => some (hexList (splitStr sep (unhex h)) ++ " " ++ hexList (splitStr sep (unhex h)))
  | ["join", h, a] =>
      -- join the `split(",")` fields of `h` with `a`
      some (hex (join (unhex a) (splitChar ',' (unhex h))))
  | _ => none

def textVersCmd : List String → Option String
  | ["fromstr", h] => some (fromstrAnswer (unhex h))
  | ["e2e", t, x] => some (e2eAnswer (unhex t) (unhex x))
  | ["tostr", scheme, items] => do
      let cs ← parseTCons items
      pure (hex (Vers.toString scheme.toList cs))
  | ["todict", scheme, items] => do
      let cs ← parseTCons items
      let d := Vers.toDict scheme.toList cs
      let es := d.2.map (fun p => hex p.1 ++ ":" ++ hex p.2)
      pure (hex d.1 ++ " " ++ (if es.isEmpty then "-" else ",".intercalate es))
  | ["csplit", h] =>
      let r := Vers.split (unhex h)
      some (hex r.1 ++ " " ++ hex r.2)
  | "strop" :: rest => stropAnswer rest
  | _ => none

end Univers.Driver
