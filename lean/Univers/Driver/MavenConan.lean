/-
Driver commands for the Maven / NuGet bracket ranges and the Conan range converter.

  native maven <hex>    native nuget <hex>    native conan <hex>
      → ok:<items> | err:<ExcClassName>
  natives maven|nuget <hex> <hex> …             (`from_natives` on a list of strings) → same
  mavensat <hex range> <hex version>            → true | false | err:<ExcClassName>
      (`maven.Version(version) in maven.VersionRange(range)`)
  conansat <hex range> <hex version>            → true | false | err:<ExcClassName>
      (`ConanVersion(version) in conan VersionRange(range)`)

Instantiation: the version constructors, the comparison of `maven.Version`s and the conan
arithmetic are the Layer-A models `Univers.Maven`, `Univers.Nuget`, `Univers.Conan`.
-/
import Univers.Text.MavenRange
import Univers.Text.ConanRange
import Univers.Scheme.Maven
import Univers.Scheme.Nuget
import Univers.Scheme.Conan
import Univers.Driver.Util

namespace Univers.Driver

open Univers Univers.Text

namespace MavenConan

def cmprName : Cmpr → String
  | .ge => "ge" | .le => "le" | .ne => "ne" | .lt => "lt" | .gt => "gt" | .eq => "eq"

def item : TCon → String
  | .star => "star"
  | .mk c v => cmprName c ++ ":" ++ hex v

def render : Except TErr (List TCon) → String
  | .error e => "err:" ++ e.name
  | .ok [] => "ok:-"
  | .ok cs => "ok:" ++ String.intercalate "," (cs.map item)

def renderBool : Except TErr Bool → String
  | .error e => "err:" ++ e.name
  | .ok b => boolStr b

/-- `maven.Version(a).__cmp__(maven.Version(b))`: `__init__` strips and lower-cases the text -/
def mavenVcmp (a b : List Char) : Ordering :=
  Maven.cmpList (Maven.parse (MavenRange.strip a)) (Maven.parse (MavenRange.strip b))

/-- `str(MavenVersion(text))` -/
def mavenMk (t : List Char) : Except TErr (List Char) :=
  match Maven.construct t with
  | .ok r => .ok (Maven.str r)
  | .error .invalid => .error .InvalidVersion
  | .error (.other n) => .error (.other n)

/-- `str(NugetVersion(text))` -/
def nugetMk (t : List Char) : Except TErr (List Char) :=
  match Nuget.construct t with
  | .ok r => .ok (Nuget.str r)
  | .error .invalid => .error .InvalidVersion
  | .error (.other n) => .error (.other n)

/-- `ConanVersion` as the converter uses it -/
def conanOps : ConanRange.ConanOps Conan.Raw where
  make t :=
    match Conan.construct t with
    | .ok r => .ok r
    | .error .invalid => .error .InvalidVersion
    | .error (.other n) => .error (.other n)
  str := Conan.str
  mainLen v := v.items.length
  firstNonZero v :=
    let i := v.items.findIdx (fun it => it != .int 0)
    if i = v.items.length then v.items.length - 1 else i
  upperBound v i :=
    match Conan.upperBound v i with
    | .ok u => .ok (Conan.str u)
    | .error .indexError => .error .IndexError
    | .error .conanException => .error ConanRange.errConan

/-- the matcher's view: the operators of `ConanVersion` (attrs over the conan `Version` values; a
bare `Version` on the right goes through the reflected method, which re-parses `str(version)`:
the same values are compared) -/
def conanMatch : ConanRange.MatchOps where
  hasPre x := !(Conan.parse (Conan.normalize x)).pre.isNone
  op c x t := Conan.verOps.op c (Conan.parse (Conan.normalize x)) (Conan.parse (Conan.normalize t))

end MavenConan

open MavenConan in
def mavenConanCmd : List String → Option String
  | ["native", "maven", h] => some (render (MavenRange.fromNative mavenMk mavenVcmp (unhex h)))
  | ["native", "nuget", h] =>
      some (render (MavenRange.fromNative nugetMk mavenVcmp (unhex h)))
  | ["native", "conan", h] => some (render (ConanRange.fromNative conanOps (unhex h)))
  | "natives" :: "maven" :: hs =>
      some (render (MavenRange.fromNatives mavenMk mavenVcmp (hs.map unhex)))
  | "natives" :: "nuget" :: hs =>
      some (render (MavenRange.fromNatives nugetMk mavenVcmp (hs.map unhex)))
  | ["mavensat", hr, hv] => some (renderBool (MavenRange.sat mavenVcmp (unhex hr) (unhex hv)))
  | ["conansat", hr, hv] =>
      some (renderBool
        (match ConanRange.versionRange conanOps (unhex hr) with
         | .error e => .error e
         | .ok sets => .ok (ConanRange.contains conanMatch sets (unhex hv))))
  | _ => none

end Univers.Driver
