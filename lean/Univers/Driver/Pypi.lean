/-
Driver commands `vparse pypi` / `vcmp pypi` for the Layer-A model `Univers.Pypi`.
-/
import Univers.Scheme.Pypi
import Univers.Driver.Util

namespace Univers.Driver

open Univers

private def bit (b : Bool) : String := if b then "1" else "0"

def pypiCmd : List String → Option String
  | ["vparse", "pypi", h] =>
    match Pypi.construct (unhex h) with
    | .ok r => some ("ok " ++ hex (Pypi.str r))
    | .error .invalid => some "invalid"
    | .error (.other n) => some ("raise:" ++ n)
  | ["vcmp", "pypi", ha, hb] =>
    match Pypi.construct (unhex ha), Pypi.construct (unhex hb) with
    | .ok a, .ok b =>
      let o := Pypi.verOps
      let bits := bit (o.eq a b) ++ bit (o.ne a b) ++ bit (o.lt a b) ++ bit (o.le a b) ++
        bit (o.gt a b) ++ bit (o.ge a b)
      let h := if Pypi.hashable then (if Pypi.hashKey a = Pypi.hashKey b then "1" else "0") else "x"
      some (ordStr (Pypi.vercmp a b) ++ " " ++ bits ++ " " ++ h)
    | _, _ => some "invalid"
  | _ => none

end Univers.Driver
