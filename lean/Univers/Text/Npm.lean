/-
Layer C model of the npm native range converter and of the semver shorthand helpers.

Mirrors, statement by statement:
* `univers.version_range.NpmVersionRange.from_native` (`"*"`, `split("||")`, the `" - "` test,
  the `range.split()` token loop with its comparator-then-version state, the local caret
  expansion on a version whose prerelease is temporarily cleared, `split_req` with default `=`,
  `lstrip("vV")`), `get_npm_version_constraints_from_semver_npm_spec` (the `AttributeError` of
  `NpmSpec` re-raised as `ValueError`, a single `Range` wrapped into an `AllOf`),
  `get_allof_constraints`, `split_req`;
* `semantic_version.NpmSpec` 2.8.5: `Parser.parse` (`JOINER`, `strip`, `HYPHEN`, `split(' ')`,
  `NPM_SPEC_BLOCK` as a recogniser returning its groups, the prerelease / non-prerelease clause
  lists), `Parser.parse_simple` (INCLUDING `match.groups()` on a failed match in the hyphen
  branch: `AttributeError`), `Version(major=…, …)` keyword validation, `Clause.simplify`;
* `univers.univers_semver.get_caret_constraints / get_tilde_constraints /
  get_pessimistic_constraints`.

Versions are built with the Layer-A model `Univers.Semver` (`construct`, `str`, `nextMajor`,
`nextMinor`, `nextPatch`).

Python sets: `AllOf.clauses` is a `frozenset`; its iteration order depends on the hashes.  The
model lists the clauses in the order in which `parse` appends them (prerelease clauses first,
as `result |= AllOf(*prerelease_clauses)` comes first), after `List.eraseDups`; the range
constructor sorts the constraints anyway, so results are compared as multisets.
The strings that the converter hands to `NpmSpec` never contain `"||"` (they are pieces of
`string.split("||")`), so `parse` sees exactly one group and produces at most two `AllOf`; the
model nevertheless keeps the loop over groups, and does not model the (then vacuous) removal of
equal `AllOf` members of the `AnyOf` set.
No Mathlib.
-/
import Univers.Text.Err
import Univers.Scheme.Semver

namespace Univers.Text.Npm

open Univers Univers.Text
open Univers.Semver (isPySpace removeSpaces lstripV parseNat splitOn isIdentChar
  validateIdentifiers Raw)

/-! ### Python string primitives -/

/-- `s.startswith(p)` -/
def startsWith (p s : List Char) : Bool := p.isPrefixOf s

/-- `s.endswith(p)` -/
def endsWith (p s : List Char) : Bool := p.reverse.isPrefixOf s.reverse

/-- `sub in s` -/
def containsStr (sub : List Char) : List Char → Bool
  | [] => sub.isEmpty
  | c :: cs => sub.isPrefixOf (c :: cs) || containsStr sub cs

/-- `s.split(sep)` for a non-empty separator: non-overlapping occurrences from the left.
The counter skips the remaining characters of a separator that has just been matched. -/
def splitGo (sep : List Char) : Nat → List Char → List (List Char)
  | _, [] => [[]]
  | skip + 1, _ :: cs => splitGo sep skip cs
  | 0, c :: cs =>
    if sep.isPrefixOf (c :: cs) then [] :: splitGo sep (sep.length - 1) cs
    else match splitGo sep 0 cs with
      | [] => [[c]]
      | h :: t => (c :: h) :: t

def splitStr (sep s : List Char) : List (List Char) := splitGo sep 0 s

/-- `s.split()` without argument: fields separated by runs of whitespace, no empty field -/
def splitWs : List Char → List (List Char)
  | [] => []
  | c :: cs =>
    if isPySpace c then splitWs cs
    else match cs with
      | [] => [[c]]
      | d :: _ =>
        if isPySpace d then [c] :: splitWs cs
        else match splitWs cs with
          | [] => [[c]]
          | h :: t => (c :: h) :: t

/-- `s.strip()` -/
def strip (s : List Char) : List Char :=
  ((s.dropWhile isPySpace).reverse.dropWhile isPySpace).reverse

/-- `s.lstrip(chars)`: strips a character SET -/
def lstripSet (chars s : List Char) : List Char := s.dropWhile (fun c => chars.contains c)

/-! ### versions through Layer A -/

/-- `SemverVersion(text)`: the value, or the exception raised -/
def mkRaw (s : List Char) : Except TErr Raw :=
  match Semver.construct s with
  | .ok r => .ok r
  | .error .invalid => .error .InvalidVersion
  | .error (.other n) => .error (.other n)

/-- `str(SemverVersion(text))` -/
def mkVer (s : List Char) : Except TErr (List Char) :=
  match mkRaw s with
  | .ok r => .ok (Semver.str r)
  | .error e => .error e

/-! ### `semantic_version.NpmSpec` -/

/-- the prefix of a block after `PREFIX_ALIASES` (`'' ↦ '='`) -/
inductive Pfx where
  | lt | le | ge | gt | eq | caret | tilde
  deriving DecidableEq, Repr

/-- `prerelease_policy` of a `Range` (`cls.range` uses same-patch; the extra clauses use always) -/
inductive Policy where
  | samePatch | always
  deriving DecidableEq, Repr

/-- a `Range(operator, target, prerelease_policy)`; the operator `==` is `Cmpr.eq`
(`vers_by_native_comparators` sends `==` and `=` to `=`, the others to themselves) -/
structure Clause where
  op : Cmpr
  target : Raw
  policy : Policy
  deriving DecidableEq, Repr

/-- the groups of a successful `NPM_SPEC_BLOCK` match; a number group that did not take part
or that is `x`, `X`, `*` is `none` (`EMPTY_VALUES`), else `int(text)` -/
structure Block where
  pfx : Pfx
  major : Option Nat
  minor : Option Nat
  patch : Option Nat
  prerel : Option (List Char)
  build : Option (List Char)
  deriving DecidableEq, Repr

/-- `(?P<op><|<=|>=|>|=|\^|~|)`: the alternation is ordered but a number cannot start with an
operator character, so the longest operator is the one that leads to a match -/
def scanOp : List Char → Pfx × List Char
  | '<' :: '=' :: r => (.le, r)
  | '<' :: r => (.lt, r)
  | '>' :: '=' :: r => (.ge, r)
  | '>' :: r => (.gt, r)
  | '=' :: r => (.eq, r)
  | '^' :: r => (.caret, r)
  | '~' :: r => (.tilde, r)
  | r => (.eq, r)

/-- `NUMBER = x|X|\*|0|[1-9][0-9]*`; the digits are taken greedily (what follows a number in
the block is never a digit) -/
def scanNumber : List Char → Option (Option Nat × List Char)
  | [] => none
  | c :: r =>
    if c == 'x' || c == 'X' || c == '*' then some (none, r)
    else if c == '0' then some (some 0, r)
    else if c.isDigit then
      some (some (parseNat (c :: r.takeWhile Char.isDigit)), r.dropWhile Char.isDigit)
    else none

/-- `(?:-(?P<prerel>PART))?(?:\+(?P<build>PART))?$` with `PART = [a-zA-Z0-9.-]*`;
`$` also matches before one final newline -/
def scanTail (s : List Char) : Option (Option (List Char) × Option (List Char)) :=
  let (prerel, s1) : Option (List Char) × List Char :=
    match s with
    | '-' :: r => (some (r.takeWhile isIdentChar), r.dropWhile isIdentChar)
    | _ => (none, s)
  let (build, s2) : Option (List Char) × List Char :=
    match s1 with
    | '+' :: r => (some (r.takeWhile isIdentChar), r.dropWhile isIdentChar)
    | _ => (none, s1)
  if s2 == [] || s2 == ['\n'] then some (prerel, build) else none

/-- the part of `NPM_SPEC_BLOCK` after the operator:
`(?P<major>NB)(?:\.(?P<minor>NB)(?:\.(?P<patch>NB))?)?` and the tail.  A dot after a number
can only be consumed by the optional group, so that group is not optional when a dot follows. -/
def matchRest (pfx : Pfx) (s2 : List Char) : Option Block :=
  match scanNumber s2 with
  | none => none
  | some (major, s3) =>
    match s3 with
    | '.' :: s4 =>
      match scanNumber s4 with
      | none => none
      | some (minor, s5) =>
        match s5 with
        | '.' :: s6 =>
          match scanNumber s6 with
          | none => none
          | some (patch, s7) =>
            match scanTail s7 with
            | none => none
            | some (p, b) => some ⟨pfx, major, minor, patch, p, b⟩
        | _ =>
          match scanTail s5 with
          | none => none
          | some (p, b) => some ⟨pfx, major, minor, none, p, b⟩
    | _ =>
      match scanTail s3 with
      | none => none
      | some (p, b) => some ⟨pfx, major, none, none, p, b⟩

/-- `^(?:v)?`: the optional `v` must be taken when it is there (nothing else can match it) -/
def stripV1 : List Char → List Char
  | 'v' :: r => r
  | s => s

/-- `NPM_SPEC_BLOCK.match(block)` -/
def matchBlock (s : List Char) : Option Block :=
  matchRest (scanOp (stripV1 s)).1 (scanOp (stripV1 s)).2

/-- `x.split('.') if x else ()` -/
def identsOf : Option (List Char) → List (List Char)
  | none => []
  | some [] => []
  | some g => splitOn '.' g

/-- `Version(major=…, minor=…, patch=…, prerelease=…, build=…)`: `_validate_kwargs` -/
def mkVersion (major minor patch : Nat) (pre build : List (List Char)) : Except TErr Raw :=
  if !validateIdentifiers pre false then .error .ValueError
  else if !validateIdentifiers build true then .error .ValueError
  else .ok ⟨major, minor, patch, pre, build⟩

/-- `cls.range(operator, target)` -/
def rng (op : Cmpr) (target : Raw) : Clause := ⟨op, target, .samePatch⟩

/-- `target.truncate()` -/
def truncate (r : Raw) : Raw := ⟨r.major, r.minor, r.patch, [], []⟩

/-- `x` is truthy for an optional string group -/
def truthy : Option (List Char) → Bool
  | some (_ :: _) => true
  | _ => false

/-- `parse_simple`, first part: the target version and the (possibly replaced) prefix.
`build` is the build group after `if build is not None and prefix not in [EQ]: build = None`. -/
def targetOf (b : Block) (build : Option (List Char)) : Except TErr (Raw × Pfx) :=
  match b.major, b.minor, b.patch with
  | none, _, _ =>
    if b.pfx != .eq && b.pfx != .ge then .error .ValueError     -- "Invalid expression"
    else .ok (⟨0, 0, 0, [], []⟩, .ge)
  | some ma, none, _ => .ok (⟨ma, 0, 0, [], []⟩, b.pfx)
  | some ma, some mi, none => .ok (⟨ma, mi, 0, [], []⟩, b.pfx)
  | some ma, some mi, some pa =>
    match mkVersion ma mi pa (identsOf b.prerel) (identsOf build) with
    | .ok t => .ok (t, b.pfx)
    | .error e => .error e

/-- `parse_simple`, last part: the `if prefix == …` chain (its `assert`s cannot fail: a block
without major has had its prefix replaced by `>=`) -/
def clausesOf (b : Block) (target : Raw) : Pfx → List Clause
  | .caret =>
    let high :=
      if target.major != 0 then Semver.nextMajor (truncate target)
      else if target.minor != 0 then Semver.nextMinor (truncate target)
      else if b.minor.isNone then Semver.nextMajor (truncate target)
      else if b.patch.isNone then Semver.nextMinor (truncate target)
      else Semver.nextPatch (truncate target)
    [rng .ge target, rng .lt high]
  | .tilde =>
    let high := if b.minor.isNone then Semver.nextMajor target else Semver.nextMinor target
    [rng .ge target, rng .lt high]
  | .eq =>
    if b.major.isNone then [rng .ge target]
    else if b.minor.isNone then [rng .ge target, rng .lt (Semver.nextMajor target)]
    else if b.patch.isNone then [rng .ge target, rng .lt (Semver.nextMinor target)]
    else [rng .eq target]
  | .gt =>
    if b.minor.isNone then [rng .ge (Semver.nextMajor target)]
    else if b.patch.isNone then [rng .ge (Semver.nextMinor target)]
    else [rng .gt target]
  | .ge => [rng .ge target]
  | .lt => [rng .lt target]
  | .le =>
    if b.minor.isNone then [rng .lt (Semver.nextMajor target)]
    else if b.patch.isNone then [rng .lt (Semver.nextMinor target)]
    else [rng .le target]

/-- `Parser.parse_simple(simple)` -/
def parseSimple (simple : List Char) : Except TErr (List Clause) :=
  match matchBlock simple with
  | none => .error .AttributeError          -- `match.groups()` with `match = None`
  | some b =>
    let build : Option (List Char) :=
      if b.build.isSome && b.pfx != .eq then none else b.build
    match targetOf b build with
    | .error e => .error e
    | .ok (target, pfx) =>
      if (b.major.isNone || b.minor.isNone || b.patch.isNone) && (truthy b.prerel || truthy build)
      then .error .ValueError               -- "Invalid NPM spec"
      else .ok (clausesOf b target pfx)

/-- the loop `for block in blocks:` of `parse` (non-hyphen branch) -/
def parseBlocks : List (List Char) → Except TErr (List Clause)
  | [] => .ok []
  | block :: rest =>
    if (matchBlock block).isNone then .error .ValueError       -- "Invalid NPM block"
    else match parseSimple block with
      | .error e => .error e
      | .ok cs =>
        match parseBlocks rest with
        | .error e => .error e
        | .ok more => .ok (cs ++ more)

/-- the loop `for clause in subclauses:` of `parse`: (prerelease_clauses, non_prerel_clauses) -/
def splitPrerelease : List Clause → List Clause × List Clause
  | [] => ([], [])
  | c :: rest =>
    let (pre, non) := splitPrerelease rest
    if !c.target.pre.isEmpty then
      let extra : List Clause :=
        if c.op == .gt || c.op == .ge then
          [⟨.lt, ⟨c.target.major, c.target.minor, c.target.patch + 1, [], []⟩, .always⟩]
        else if c.op == .lt || c.op == .le then
          [⟨.ge, ⟨c.target.major, c.target.minor, 0, [], []⟩, .always⟩]
        else []
      (extra ++ c :: pre, rng c.op (truncate c.target) :: non)
    else (pre, c :: non)

/-- the hyphen branch: `low, high = group.split(' - ', 2)`, then
`parse_simple('>=' + low) + parse_simple('<=' + high)` (no check that the block matches) -/
def hyphenClauses (group : List Char) : Except TErr (List Clause) :=
  match splitStr [' ', '-', ' '] group with
  | [low, high] =>
    match parseSimple (['>', '='] ++ low) with
    | .error e => .error e
    | .ok a =>
      match parseSimple (['<', '='] ++ high) with
      | .error e => .error e
      | .ok b => .ok (a ++ b)
  | _ => .error .ValueError            -- too many values to unpack

/-- `subclauses` of a (stripped, non-empty) group -/
def groupClauses (group : List Char) : Except TErr (List Clause) :=
  if containsStr [' ', '-', ' '] group then hyphenClauses group
  else parseBlocks (splitOn ' ' group)

/-- `group = group.strip(); if not group: group = '>=0.0.0'` -/
def normGroup (group0 : List Char) : List Char :=
  if (strip group0).isEmpty then ['>', '=', '0', '.', '0', '.', '0'] else strip group0

/-- one iteration of `for group in groups:`: the `AllOf` clause lists that are or-ed into
`result` (the prerelease one first, when there is one) -/
def parseGroup (group0 : List Char) : Except TErr (List (List Clause)) :=
  match groupClauses (normGroup group0) with
  | .error e => .error e
  | .ok cs =>
    if (splitPrerelease cs).1.isEmpty then .ok [(splitPrerelease cs).2]
    else .ok [(splitPrerelease cs).1, (splitPrerelease cs).2]

def parseGroups : List (List Char) → Except TErr (List (List Clause))
  | [] => .ok []
  | g :: rest =>
    match parseGroup g with
    | .error e => .error e
    | .ok a =>
      match parseGroups rest with
      | .error e => .error e
      | .ok more => .ok (a ++ more)

/-- `NpmSpec(expression).clause` before `simplify`: the list of `AllOf` clause lists -/
def specParse (expression : List Char) : Except TErr (List (List Clause)) :=
  parseGroups (splitStr ['|', '|'] expression)

/-! ### `get_allof_constraints`, `get_npm_version_constraints_from_semver_npm_spec` -/

/-- the loop of `get_allof_constraints` over the members of an `AllOf` -/
def allofCons : List Clause → Except TErr (List TCon)
  | [] => .ok []
  | c :: rest =>
    match mkVer (Semver.str c.target) with
    | .error e => .error e
    | .ok v =>
      match allofCons rest with
      | .error e => .error e
      | .ok more => .ok (Con.mk c.op v :: more)

/-- `for allof_clause in clause.clauses: … get_allof_constraints(cls, allof_clause)` when the
simplified clause is an `AnyOf`; a member that simplified to a single `Range` is not an `AllOf`:
`ValueError("Unknown clause type")` -/
def anyofCons : List (List Clause) → Except TErr (List TCon)
  | [] => .ok []
  | cs :: rest =>
    match cs.eraseDups with
    | [_] => .error .ValueError
    | l =>
      match allofCons l with
      | .error e => .error e
      | .ok a =>
        match anyofCons rest with
        | .error e => .error e
        | .ok more => .ok (a ++ more)

/-- `get_npm_version_constraints_from_semver_npm_spec(string, cls)`: an `AttributeError` of
`NpmSpec(string)` is re-raised as `ValueError`; a clause that simplifies to a single `Range`
is wrapped into an `AllOf` -/
def specCons (string : List Char) : Except TErr (List TCon) :=
  match specParse string with
  | .error .AttributeError => .error .ValueError
  | .error e => .error e
  | .ok [cs] => allofCons cs.eraseDups
  | .ok sets => anyofCons sets

/-! ### `NpmVersionRange.from_native` -/

/-- `cmp in cls.vers_by_native_comparators` and the value -/
def nativeCmp (s : List Char) : Option Cmpr :=
  if s == ['=', '='] then some .eq
  else if s == ['<', '='] then some .le
  else if s == ['>', '='] then some .ge
  else if s == ['<'] then some .lt
  else if s == ['>'] then some .gt
  else if s == ['='] then some .eq
  else none

/-- the text of the `comparator` local: `""` or a vers comparator -/
def compText : Option Cmpr → List Char
  | none => []
  | some .ge => ['>', '=']
  | some .le => ['<', '=']
  | some .ne => ['!', '=']
  | some .lt => ['<']
  | some .gt => ['>']
  | some .eq => ['=']

/-- `split_req(string, comparators=vers_by_native_comparators, default="=")`: the dict is
scanned in insertion order, `lstrip(native_comparator)` strips a character set -/
def splitReq (string : List Char) : Cmpr × List Char :=
  let s := removeSpaces string
  if startsWith ['=', '='] s then (.eq, lstripSet ['=', '='] s)
  else if startsWith ['<', '='] s then (.le, lstripSet ['<', '='] s)
  else if startsWith ['>', '='] s then (.ge, lstripSet ['>', '='] s)
  else if startsWith ['<'] s then (.lt, lstripSet ['<'] s)
  else if startsWith ['>'] s then (.gt, lstripSet ['>'] s)
  else if startsWith ['='] s then (.eq, lstripSet ['='] s)
  else (.eq, s)

/-- the caret branch of the token loop -/
def caretCons (constraint : List Char) : Except TErr (List TCon) :=
  match mkRaw (constraint.dropWhile (· == '^')) with
  | .error e => .error e
  | .ok base =>
    let cleared : Raw := { base with pre := [] }
    let next : Raw :=
      if base.major != 0 then Semver.nextMajor cleared
      else if base.minor != 0 then Semver.nextMinor cleared
      else Semver.nextPatch cleared
    match mkVer (Semver.str next) with
    | .error e => .error e
    | .ok high => .ok [Con.mk .ge (Semver.str base), Con.mk .lt high]

/-- what one token that is not a comparator contributes -/
def tokenCons (comparator : Option Cmpr) (constraint : List Char) : Except TErr (List TCon) :=
  match comparator with
  | some c =>
    if endsWith ['.', 'x'] constraint then specCons constraint
    else match mkVer (lstripV constraint) with
      | .error e => .error e
      | .ok v => .ok [Con.mk c v]
  | none =>
    if startsWith ['^'] constraint then caretCons constraint
    else if endsWith ['.', 'x'] constraint || startsWith ['~'] constraint then
      specCons constraint
    else
      let (c, v) := splitReq constraint
      match mkVer (lstripV v) with
      | .error e => .error e
      | .ok v => .ok [Con.mk c v]

/-- `for constraint in range.split():` with the `comparator` state -/
def tokenLoop : Option Cmpr → List (List Char) → Except TErr (List TCon)
  | _, [] => .ok []
  | comparator, constraint :: rest =>
    match nativeCmp (compText comparator ++ constraint) with
    | some c => tokenLoop (some c) rest
    | none =>
      match tokenCons comparator constraint with
      | .error e => .error e
      | .ok here =>
        match tokenLoop none rest with
        | .error e => .error e
        | .ok more => .ok (here ++ more)

/-- one iteration of `for range in string.split("||"):` -/
def rangeCons (range : List Char) : Except TErr (List TCon) :=
  if containsStr [' ', '-', ' '] range then specCons range
  else tokenLoop none (splitWs range)

def rangesCons : List (List Char) → Except TErr (List TCon)
  | [] => .ok []
  | r :: rest =>
    match rangeCons r with
    | .error e => .error e
    | .ok a =>
      match rangesCons rest with
      | .error e => .error e
      | .ok more => .ok (a ++ more)

/-- `NpmVersionRange.from_native(string)`: the constraints handed to the range constructor -/
def fromNative (string : List Char) : Except TErr (List TCon) :=
  if string == ['*'] then .ok [Con.star]
  else rangesCons (splitStr ['|', '|'] string)

/-! ### `univers.univers_semver` -/

/-- `get_tilde_constraints(string, operator)`; with `operator = "^"` and `next_major` it is
`get_caret_constraints` -/
def shorthand (operator : List Char) (next : Raw → Raw) (string0 : List Char) :
    Except TErr (List TCon) :=
  let string := removeSpaces string0
  if string.isEmpty || !startsWith operator string then .error .ValueError
  else
    match mkRaw (lstripSet operator string) with
    | .error e => .error e
    | .ok lower =>
      match mkRaw (Semver.str (next lower)) with
      | .error e => .error e
      | .ok upper => .ok [Con.mk .ge (Semver.str lower), Con.mk .lt (Semver.str upper)]

/-- `get_caret_constraints(string)` -/
def caretConstraints : List Char → Except TErr (List TCon) :=
  shorthand ['^'] Semver.nextMajor

/-- `get_tilde_constraints(string)` -/
def tildeConstraints : List Char → Except TErr (List TCon) :=
  shorthand ['~'] Semver.nextMinor

/-- `get_pessimistic_constraints(string)` -/
def pessimisticConstraints : List Char → Except TErr (List TCon) :=
  shorthand ['~', '>'] Semver.nextMinor

end Univers.Text.Npm
