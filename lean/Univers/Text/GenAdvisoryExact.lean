/-
From the Python source to the specification, in one statement each: the functions of `univers/version_range.py` as
TRANSLATED on every run (`Univers/Gen/PyText*.lean`), applied to any rendering of an expression in the advisory notation
(any spelling of each comparator, optional blanks, one string or several; ASCII text), return exactly the constraints the
expression states, in the registered class of the scheme.  Each is the agreement theorem of the translated function
(`GenAdvisoryThm`, `GenRelationThm`) followed by the exactness theorem of the model (`AdvisoryThm`): C15 for GitHub and
Snyk, the deb / rpm part of C06 for the relation converters.
-/
import Univers.Text.GenAdvisoryThm
import Univers.Text.GenRelationThm
import Univers.Text.AdvisoryThm

namespace Univers.Gen.Text
open Univers Univers.PyRt Univers.Text Univers.Text.Vers Univers.Text.PyText Univers.Text.Advisory

variable (mkVer : MkVer)

/-- **GitHub, source to specification.** -/
theorem py_github_exact (scheme cls vc : String)
    (hs : rangeClassOf scheme = some cls) (hv : Advisory.versionClassOf cls = some vc)
    (gs : List (List Item)) (h : GroupsWF githubDict githubBad gs) (hascii : ∀ i ∈ renderGithub gs, Ascii i) :
    py_github_range mkVer scheme.toList (renderGithub gs)
      = (match constraintsOf (mkVer vc) (astOf gs) with
         | .error e => .error e
         | .ok ks => .ok (cls, ks)) := by
  rw [py_github_range_eq mkVer scheme (renderGithub gs) hascii]
  simp only [hs, github_exact_scheme mkVer scheme cls vc hs hv gs h]
  cases constraintsOf (mkVer vc) (astOf gs) <;> rfl

/-- **Snyk, source to specification.** -/
theorem py_snyk_exact (scheme cls vc : String)
    (hs : rangeClassOf scheme = some cls) (hv : Advisory.versionClassOf cls = some vc)
    (ss : List SnykStr) (h : ∀ s ∈ ss, s.WF) (hascii : ∀ i ∈ ss.map SnykStr.text, Ascii i) :
    py_snyk_range mkVer scheme.toList (ss.map SnykStr.text)
      = (match constraintsOf (mkVer vc) (snykAst ss) with
         | .error e => .error e
         | .ok ks => .ok (cls, ks)) := by
  rw [py_snyk_range_eq mkVer scheme (ss.map SnykStr.text) hascii]
  simp only [hs, snyk_exact_scheme mkVer scheme cls vc hs hv ss h]
  cases constraintsOf (mkVer vc) (snykAst ss) <;> rfl

/-- **Debian relations, source to specification.** -/
theorem py_deb_exact (mk : List Char → Except TErr (List Char)) (rs : List Rel) (h : ∀ r ∈ rs, r.WF debDict debBad)
    (hascii : ∀ s ∈ rs.map Rel.text, Ascii s) :
    deb_from_natives mk (rs.map Rel.text) = constraintsOf mk (relAst rs) := by
  rw [deb_from_natives_eq mk (rs.map Rel.text) hascii, deb_exact mk rs h]

/-- **RPM relations, source to specification.** -/
theorem py_rpm_exact (mk : List Char → Except TErr (List Char)) (rs : List Rel) (h : ∀ r ∈ rs, r.WF rpmDict rpmBad)
    (hascii : ∀ s ∈ rs.map Rel.text, Ascii s) :
    rpm_from_natives mk (rs.map Rel.text) = constraintsOf mk (relAst rs) := by
  rw [rpm_from_natives_eq mk (rs.map Rel.text) hascii, rpm_exact mk rs h]

end Univers.Gen.Text
