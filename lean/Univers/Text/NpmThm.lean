/-
Layer C theorems for the npm native range converter and the semver shorthand helpers
(`Univers/Text/Npm.lean` against `Univers/Text/NpmSpec.lean`).

(a) C06 / C15, exactness.  `npm_exact`: for EVERY expression of the fragment (alternatives joined
    by `||`; comparator sets of primitive comparators — attached or separated by a space, `=` or
    `==` —, exact versions, caret, tilde, `N.x`, `N.N.x`; hyphen ranges; release versions
    `N.N.N`) `fromNative (render e) = .ok (constraintsOf e)`: the documented node-semver
    desugaring, as constraint texts.  Corollaries `npm_caret_exact`, `npm_tilde_exact`,
    `npm_xrange_exact`, `npm_hyphen_exact`, `npm_comparators_exact`, `npm_set_exact`.
(b) C16, declared errors.  `npm_declared`: EVERY text is converted or raises `ValueError` or
    `InvalidVersion` (`fromNative_err`); no internal error can escape.
(c) C18.  `caret_bounds`, `tilde_bounds`, `pessimistic_bounds`: for every text `v` that
    `SemverVersion` accepts (value `r`) the helper applied to the operator followed by `v` gives
    `>= str r`, `< str (next r)`; `vercmp r (next r) = .lt`; `r` satisfies both constraints
    (`Con.sat verOps`).  `shorthand_declared`: the helpers raise only `ValueError` /
    `InvalidVersion`.

Uses from `Univers/Scheme/SemverThm.lean`: `isDigitStr_iff`, `vercmp_eq_key`, `keyCmp_self`,
`verOps_order_lawful`, `lt_nextMajor`, `lt_nextMinor` (always by qualified name; the namespace
`Univers.Semver` is not opened wholesale).  Core Lean only.
-/
import Univers.Text.Npm
import Univers.Text.NpmSpec
import Univers.Scheme.SemverThm

set_option linter.unusedSimpArgs false
set_option linter.unusedVariables false

namespace Univers.Text.Npm

open Univers Univers.Text
open Univers.Semver (natStr parseNat isPySpace removeSpaces lstripV isDigitStr hasLeadingZero stripZeros
  splitOn joinWith matchVersionRe optGroup groupIdents validateIdentifiers parse matchBase padComponents
  coerceString coerce construct constructWith isValid buildValue str nextMajor nextMinor nextPatch Raw
  isIdentChar vercmp verOps)

/-! ### digits -/

theorem digit_ne {c : Char} (h : c.isDigit = true) :
    c ≠ '<' ∧ c ≠ '>' ∧ c ≠ '=' ∧ c ≠ '^' ∧ c ≠ '~' ∧ c ≠ 'v' ∧ c ≠ 'V' ∧ c ≠ 'x' ∧ c ≠ 'X' ∧
    c ≠ '*' ∧ c ≠ '.' ∧ c ≠ '-' ∧ c ≠ '+' ∧ c ≠ ' ' ∧ c ≠ '|' ∧ c ≠ '\n' ∧ isPySpace c = false := by
  have h' := Char.isDigit_iff_toNat.mp h
  simp only [Char.reduceToNat] at h'
  refine ⟨?_, ?_, ?_, ?_, ?_, ?_, ?_, ?_, ?_, ?_, ?_, ?_, ?_, ?_, ?_, ?_, ?_⟩
  all_goals first
    | (intro e; subst e; simp at h')
    | (simp only [isPySpace, Bool.or_eq_false_iff, Bool.and_eq_false_iff, beq_eq_false_iff_ne, decide_eq_false_iff_not]
       refine ⟨⟨?_, ?_⟩, ?_⟩
       · intro e; subst e; simp at h'
       · omega
       · omega)

theorem natStr_digits (n : Nat) : ∀ c ∈ natStr n, c.isDigit = true :=
  fun _ hc => Nat.isDigit_of_mem_toDigits (by decide) (by decide) hc

theorem parseNat_natStr (n : Nat) : parseNat (natStr n) = n := Nat.ofDigitChars_ten_toDigits

/-- the shape of a decimal numeral: a digit, more digits, and no superfluous leading zero -/
theorem natStr_shape (n : Nat) : ∃ d ds, natStr n = d :: ds ∧ d.isDigit = true ∧
    (∀ c ∈ ds, c.isDigit = true) ∧ (d = '0' → n = 0 ∧ ds = []) := by
  induction n using Nat.strongRecOn with
  | _ n ih =>
    by_cases hn : n < 10
    · refine ⟨n.digitChar, [], Nat.toDigits_of_lt_base hn, ?_, by simp, ?_⟩
      · simp [Nat.isDigit_digitChar, hn]
      · intro h; exact ⟨Nat.digitChar_eq_zero.mp h, rfl⟩
    · have h10 : 10 ≤ n := by omega
      obtain ⟨d, ds, he, hd, hds, hz⟩ := ih (n / 10) (by omega)
      have hstr : natStr n = natStr (n / 10) ++ [(n % 10).digitChar] :=
        Nat.toDigits_of_base_le (by decide) h10
      refine ⟨d, ds ++ [(n % 10).digitChar], by rw [hstr, he]; rfl, hd, ?_, ?_⟩
      · intro c hc
        rcases List.mem_append.mp hc with h | h
        · exact hds c h
        · simp at h; subst h; simp [Nat.isDigit_digitChar]; omega
      · intro h0
        have := (hz h0).1
        omega

/-- the rest of the text does not continue the numeral -/
def Stop : List Char → Prop
  | [] => True
  | c :: _ => c.isDigit = false

theorem takeWhile_digits (ds rest : List Char) (h : ∀ c ∈ ds, c.isDigit = true) (hr : Stop rest) :
    (ds ++ rest).takeWhile Char.isDigit = ds ∧ (ds ++ rest).dropWhile Char.isDigit = rest := by
  induction ds with
  | nil =>
    cases rest with
    | nil => simp
    | cons c r => simp only [Stop] at hr; simp [hr]
  | cons d ds ih =>
    have hd := h d (by simp)
    have := ih (fun c hc => h c (by simp [hc]))
    simp [hd, this]

theorem stop_dot (r : List Char) : Stop ('.' :: r) := by simp [Stop]
theorem stop_nil : Stop [] := trivial

theorem natStr_take (n : Nat) (rest : List Char) (hr : Stop rest) :
    (natStr n ++ rest).takeWhile Char.isDigit = natStr n ∧
    (natStr n ++ rest).dropWhile Char.isDigit = rest :=
  takeWhile_digits _ _ (natStr_digits n) hr

theorem natStr_ne_nil (n : Nat) : natStr n ≠ [] := Nat.toDigits_ne_nil

theorem hasLeadingZero_natStr (n : Nat) : hasLeadingZero (natStr n) = false := by
  obtain ⟨d, ds, he, hd, hds, hz⟩ := natStr_shape n
  rw [he]
  by_cases h0 : d = '0'
  · obtain ⟨_, rfl⟩ := hz h0; subst h0; rfl
  · simp [hasLeadingZero, h0]

theorem stripZeros_natStr (n : Nat) : stripZeros (natStr n) = natStr n := by
  obtain ⟨d, ds, he, hd, hds, hz⟩ := natStr_shape n
  rw [he]
  by_cases h0 : d = '0'
  · obtain ⟨_, rfl⟩ := hz h0; subst h0; rfl
  · simp [stripZeros, h0]

theorem isDigitStr_natStr (n : Nat) : isDigitStr (natStr n) = true := by
  rw [Semver.isDigitStr_iff]; exact ⟨natStr_ne_nil n, natStr_digits n⟩

/-- every character of `N.N.N` is a digit or a dot -/
theorem Rel.text_chars (v : Rel) : ∀ c ∈ v.text, c.isDigit = true ∨ c = '.' := by
  intro c hc
  simp only [Rel.text, List.mem_append, List.mem_cons] at hc
  rcases hc with h | h | h | h | h
  · exact .inl (natStr_digits _ c h)
  · exact .inr h
  · exact .inl (natStr_digits _ c h)
  · exact .inr h
  · exact .inl (natStr_digits _ c h)

theorem Rel.text_shape (v : Rel) : ∃ d ds, v.text = d :: ds ∧ d.isDigit = true := by
  obtain ⟨d, ds, he, hd, _, _⟩ := natStr_shape v.major
  exact ⟨d, _, by rw [Rel.text, he]; rfl, hd⟩

theorem dot_ne : ('.' : Char) ≠ 'v' ∧ ('.' : Char) ≠ 'V' ∧ isPySpace '.' = false := by decide

theorem removeSpaces_text (v : Rel) : removeSpaces v.text = v.text := by
  unfold removeSpaces
  rw [List.filter_eq_self]
  intro c hc
  rcases v.text_chars c hc with h | h
  · simp [(digit_ne h).2.2.2.2.2.2.2.2.2.2.2.2.2.2.2.2]
  · subst h; decide

theorem lstripV_digit (d : Char) (ds : List Char) (h : d.isDigit = true) : lstripV (d :: ds) = d :: ds := by
  have := digit_ne h
  simp [lstripV, this.2.2.2.2.2.1, this.2.2.2.2.2.2.1]

theorem normalize_text (v : Rel) : Semver.normalize v.text = v.text := by
  obtain ⟨d, ds, he, hd⟩ := v.text_shape
  rw [Semver.normalize, removeSpaces_text, he, lstripV_digit d ds hd]

/-- `Version.parse` on `N.N.N` -/
theorem parse_text (v : Rel) : parse v.text = some ⟨v.major, v.minor, v.patch, [], []⟩ := by
  obtain ⟨d, ds, he, hd⟩ := v.text_shape
  have h1 := natStr_take v.major ('.' :: (natStr v.minor ++ '.' :: natStr v.patch)) (stop_dot _)
  have h2 := natStr_take v.minor ('.' :: natStr v.patch) (stop_dot _)
  have h3 := natStr_take v.patch [] stop_nil
  simp only [List.append_nil] at h3
  have hm : matchVersionRe v.text =
      some (natStr v.major, natStr v.minor, natStr v.patch, none, none) := by
    simp only [matchVersionRe, Rel.text, h1.1, h1.2, h2.1, h2.2, h3.1, h3.2]
    simp [natStr_ne_nil, optGroup]
  unfold parse
  rw [hm]
  simp [he, hasLeadingZero_natStr, groupIdents, validateIdentifiers, parseNat_natStr]

theorem coerceString_text (v : Rel) : coerceString v.text = some v.text := by
  have h1 := natStr_take v.major ('.' :: (natStr v.minor ++ '.' :: natStr v.patch)) (stop_dot _)
  have h2 := natStr_take v.minor ('.' :: natStr v.patch) (stop_dot _)
  have h3 := natStr_take v.patch [] stop_nil
  simp only [List.append_nil] at h3
  have hm : matchBase v.text = some ([natStr v.major, natStr v.minor, natStr v.patch], []) := by
    simp only [matchBase, Rel.text, h1.1, h1.2, h2.1, h2.2, h3.1, h3.2]
    simp [natStr_ne_nil]
  unfold coerceString
  rw [hm]
  simp [padComponents, stripZeros_natStr, joinWith, Rel.text]

/-- `SemverVersion("N.N.N")` is the release version with these three numbers -/
theorem construct_text (v : Rel) : construct v.text = .ok ⟨v.major, v.minor, v.patch, [], []⟩ := by
  have hc : coerce v.text = some ⟨v.major, v.minor, v.patch, [], []⟩ := by
    rw [coerce, coerceString_text]; exact parse_text v
  simp [construct, constructWith, normalize_text, isValid, buildValue, hc]

/-- and it prints back as `N.N.N` -/
theorem str_release (a b c : Nat) : str ⟨a, b, c, [], []⟩ = Rel.text ⟨a, b, c⟩ := by
  simp [str, Rel.text]

theorem mkRaw_text (v : Rel) : mkRaw v.text = .ok ⟨v.major, v.minor, v.patch, [], []⟩ := by
  simp [mkRaw, construct_text]

theorem mkVer_text (v : Rel) : mkVer v.text = .ok v.text := by
  simp [mkVer, mkRaw_text, str_release]

/-! ### the block grammar on release texts -/

theorem scanNumber_natStr (n : Nat) (rest : List Char) (hr : Stop rest) :
    scanNumber (natStr n ++ rest) = some (some n, rest) := by
  obtain ⟨d, ds, he, hd, hds, hz⟩ := natStr_shape n
  have hne := digit_ne hd
  by_cases h0 : d = '0'
  · obtain ⟨rfl, rfl⟩ := hz h0
    subst h0
    rw [he]; rfl
  · have ht := takeWhile_digits ds rest hds hr
    have hp : parseNat (d :: ds) = n := by rw [← he]; exact parseNat_natStr n
    rw [he]
    simp [scanNumber, hne.2.2.2.2.2.2.2.1, hne.2.2.2.2.2.2.2.2.1, hne.2.2.2.2.2.2.2.2.2.1, h0, hd,
      ht.1, ht.2, hp]

theorem scanTail_nil : scanTail [] = some (none, none) := rfl

theorem matchRest_full (pfx : Pfx) (v : Rel) :
    matchRest pfx v.text = some ⟨pfx, some v.major, some v.minor, some v.patch, none, none⟩ := by
  have h1 := scanNumber_natStr v.major ('.' :: (natStr v.minor ++ '.' :: natStr v.patch)) (stop_dot _)
  have h2 := scanNumber_natStr v.minor ('.' :: natStr v.patch) (stop_dot _)
  have h3 := scanNumber_natStr v.patch [] stop_nil
  simp only [List.append_nil] at h3
  simp only [matchRest, Rel.text, h1, h2, h3, scanTail_nil]

theorem scanNumber_x (r : List Char) : scanNumber ('x' :: r) = some (none, r) := rfl

theorem matchRest_x1 (pfx : Pfx) (ma : Nat) :
    matchRest pfx (natStr ma ++ ['.', 'x']) = some ⟨pfx, some ma, none, none, none, none⟩ := by
  have h1 := scanNumber_natStr ma ['.', 'x'] (stop_dot _)
  simp only [matchRest, h1, scanNumber_x, scanTail_nil]

theorem matchRest_x2 (pfx : Pfx) (ma mi : Nat) :
    matchRest pfx (natStr ma ++ '.' :: (natStr mi ++ ['.', 'x'])) =
      some ⟨pfx, some ma, some mi, none, none, none⟩ := by
  have h1 := scanNumber_natStr ma ('.' :: (natStr mi ++ ['.', 'x'])) (stop_dot _)
  have h2 := scanNumber_natStr mi ['.', 'x'] (stop_dot _)
  simp only [matchRest, h1, h2, scanNumber_x, scanTail_nil]

theorem scanOp_digit (d : Char) (ds : List Char) (hd : d.isDigit = true) :
    scanOp (d :: ds) = (.eq, d :: ds) := by
  have := digit_ne hd
  simp [scanOp, this.1, this.2.1, this.2.2.1, this.2.2.2.1, this.2.2.2.2.1]

theorem stripV1_digit (d : Char) (ds : List Char) (hd : d.isDigit = true) :
    stripV1 (d :: ds) = d :: ds := by
  have := digit_ne hd
  simp [stripV1, this.2.2.2.2.2.1]

theorem matchBlock_tilde (v : Rel) : matchBlock ('~' :: v.text) =
    some ⟨.tilde, some v.major, some v.minor, some v.patch, none, none⟩ := by
  show matchRest .tilde v.text = _
  exact matchRest_full _ v

theorem matchBlock_ge (v : Rel) : matchBlock ('>' :: '=' :: v.text) =
    some ⟨.ge, some v.major, some v.minor, some v.patch, none, none⟩ := by
  show matchRest .ge v.text = _
  exact matchRest_full _ v

theorem matchBlock_le (v : Rel) : matchBlock ('<' :: '=' :: v.text) =
    some ⟨.le, some v.major, some v.minor, some v.patch, none, none⟩ := by
  show matchRest .le v.text = _
  exact matchRest_full _ v

theorem matchBlock_x1 (ma : Nat) : matchBlock (natStr ma ++ ['.', 'x']) =
    some ⟨.eq, some ma, none, none, none, none⟩ := by
  obtain ⟨d, ds, he, hd, _, _⟩ := natStr_shape ma
  have : matchBlock (natStr ma ++ ['.', 'x']) = matchRest .eq (natStr ma ++ ['.', 'x']) := by
    rw [he]; simp only [matchBlock, List.cons_append, stripV1_digit d _ hd, scanOp_digit d _ hd]
  rw [this, matchRest_x1]

theorem matchBlock_x2 (ma mi : Nat) : matchBlock (natStr ma ++ '.' :: (natStr mi ++ ['.', 'x'])) =
    some ⟨.eq, some ma, some mi, none, none, none⟩ := by
  obtain ⟨d, ds, he, hd, _, _⟩ := natStr_shape ma
  have : matchBlock (natStr ma ++ '.' :: (natStr mi ++ ['.', 'x'])) =
      matchRest .eq (natStr ma ++ '.' :: (natStr mi ++ ['.', 'x'])) := by
    rw [he]; simp only [matchBlock, List.cons_append, stripV1_digit d _ hd, scanOp_digit d _ hd]
  rw [this, matchRest_x2]

/-! ### `parse_simple` on these blocks -/

theorem mkVersion_release (a b c : Nat) : mkVersion a b c [] [] = .ok ⟨a, b, c, [], []⟩ := rfl

theorem parseSimple_tilde (v : Rel) : parseSimple ('~' :: v.text) =
    .ok [rng .ge ⟨v.major, v.minor, v.patch, [], []⟩, rng .lt ⟨v.major, v.minor + 1, 0, [], []⟩] := by
  simp [parseSimple, targetOf, clausesOf, matchBlock_tilde, identsOf, mkVersion_release, truthy, nextMinor]

theorem parseSimple_ge (v : Rel) : parseSimple ('>' :: '=' :: v.text) =
    .ok [rng .ge ⟨v.major, v.minor, v.patch, [], []⟩] := by
  simp [parseSimple, targetOf, clausesOf, matchBlock_ge, identsOf, mkVersion_release, truthy]

theorem parseSimple_le (v : Rel) : parseSimple ('<' :: '=' :: v.text) =
    .ok [rng .le ⟨v.major, v.minor, v.patch, [], []⟩] := by
  simp [parseSimple, targetOf, clausesOf, matchBlock_le, identsOf, mkVersion_release, truthy]

theorem parseSimple_x1 (ma : Nat) : parseSimple (natStr ma ++ ['.', 'x']) =
    .ok [rng .ge ⟨ma, 0, 0, [], []⟩, rng .lt ⟨ma + 1, 0, 0, [], []⟩] := by
  simp [parseSimple, targetOf, clausesOf, matchBlock_x1, truthy, nextMajor]

theorem parseSimple_x2 (ma mi : Nat) : parseSimple (natStr ma ++ '.' :: (natStr mi ++ ['.', 'x'])) =
    .ok [rng .ge ⟨ma, mi, 0, [], []⟩, rng .lt ⟨ma, mi + 1, 0, [], []⟩] := by
  simp [parseSimple, targetOf, clausesOf, matchBlock_x2, truthy, nextMinor]

/-! ### string primitives on texts without the separator -/

theorem isPrefixOf_cons_ne {a c : Char} (p s : List Char) (h : c ≠ a) :
    (a :: p).isPrefixOf (c :: s) = false := by
  simp [List.isPrefixOf, Ne.symm h]

theorem splitGo_noSep (a : Char) (p : List Char) : ∀ s : List Char, (∀ c ∈ s, c ≠ a) →
    splitGo (a :: p) 0 s = [s]
  | [], _ => rfl
  | c :: cs, h => by
    have hc := h c (by simp)
    have ih := splitGo_noSep a p cs (fun x hx => h x (by simp [hx]))
    simp [splitGo, isPrefixOf_cons_ne p cs hc, ih]

theorem containsStr_noSep (a : Char) (p : List Char) : ∀ s : List Char, (∀ c ∈ s, c ≠ a) →
    containsStr (a :: p) s = false
  | [], _ => rfl
  | c :: cs, h => by
    have hc := h c (by simp)
    have ih := containsStr_noSep a p cs (fun x hx => h x (by simp [hx]))
    simp [containsStr, isPrefixOf_cons_ne p cs hc, ih]

theorem splitOn_noSep (a : Char) : ∀ s : List Char, (∀ c ∈ s, c ≠ a) → splitOn a s = [s]
  | [], _ => rfl
  | c :: cs, h => by
    have hc := h c (by simp)
    have ih := splitOn_noSep a cs (fun x hx => h x (by simp [hx]))
    simp [splitOn, hc, ih]

theorem strip_ends (s : List Char) (h1 : ∀ c r, s = c :: r → isPySpace c = false)
    (h2 : ∀ c r, s.reverse = c :: r → isPySpace c = false) : strip s = s := by
  unfold strip
  have e1 : s.dropWhile isPySpace = s := by
    cases s with
    | nil => rfl
    | cons c r => simp [List.dropWhile, h1 c r rfl]
  rw [e1]
  have e2 : s.reverse.dropWhile isPySpace = s.reverse := by
    cases hr : s.reverse with
    | nil => rfl
    | cons c r => simp [List.dropWhile, h2 c r hr]
  rw [e2, List.reverse_reverse]

theorem strip_noSpace (s : List Char) (h : ∀ c ∈ s, isPySpace c = false) : strip s = s :=
  strip_ends s (fun c r e => h c (by simp [e]))
    (fun c r e => h c (by have : c ∈ s.reverse := by simp [e]
                          simpa using this))

/-- splitting `A - B` at the hyphen separator when `A` has no space -/
theorem splitGo_hyphen (B : List Char) : ∀ A : List Char, (∀ c ∈ A, c ≠ ' ') →
    splitGo [' ', '-', ' '] 0 (A ++ ' ' :: '-' :: ' ' :: B) = A :: splitGo [' ', '-', ' '] 0 B
  | [], _ => by simp [splitGo, List.isPrefixOf]
  | c :: cs, h => by
    have hc := h c (by simp)
    have ih := splitGo_hyphen B cs (fun x hx => h x (by simp [hx]))
    simp [splitGo, isPrefixOf_cons_ne _ _ hc, ih]

theorem containsStr_hyphen (B : List Char) : ∀ A : List Char,
    containsStr [' ', '-', ' '] (A ++ ' ' :: '-' :: ' ' :: B) = true
  | [] => by simp [containsStr, List.isPrefixOf]
  | c :: cs => by simp [containsStr, containsStr_hyphen B cs]

/-! ### character classes of the rendered tokens -/

theorem text_ne (v : Rel) {a : Char} (ha : a.isDigit = false) (hd : a ≠ '.') : ∀ c ∈ v.text, c ≠ a := by
  intro c hc e
  subst e
  rcases v.text_chars c hc with h | h
  · rw [h] at ha; cases ha
  · exact hd h

theorem text_noSpace (v : Rel) : ∀ c ∈ v.text, isPySpace c = false := by
  intro c hc
  rcases v.text_chars c hc with h | h
  · exact (digit_ne h).2.2.2.2.2.2.2.2.2.2.2.2.2.2.2.2
  · subst h; decide

theorem text_last (v : Rel) : ∃ c r, v.text.reverse = c :: r ∧ c.isDigit = true := by
  cases hr : v.text.reverse with
  | nil =>
    obtain ⟨d, ds, he, _⟩ := v.text_shape
    rw [he] at hr; simp at hr
  | cons c r =>
    refine ⟨c, r, rfl, ?_⟩
    have hmem : c ∈ (natStr v.patch).reverse := by
      have : v.text.reverse = (natStr v.patch).reverse ++ ('.' :: (natStr v.minor).reverse ++ '.' :: (natStr v.major).reverse) := by
        simp [Rel.text]
      rw [this] at hr
      cases hp : (natStr v.patch).reverse with
      | nil => exact absurd (by simpa using hp) (natStr_ne_nil v.patch)
      | cons c' r' =>
        rw [hp] at hr
        simp only [List.cons_append, List.cons.injEq] at hr
        rw [← hr.1]; simp
    exact natStr_digits v.patch c (by simpa using hmem)

/-! ### `specCons` on one group of two release clauses -/

theorem splitPrerelease_release : ∀ cs : List Clause, (∀ c ∈ cs, c.target.pre = []) →
    splitPrerelease cs = ([], cs)
  | [], _ => rfl
  | c :: rest, h => by
    have ih := splitPrerelease_release rest (fun x hx => h x (by simp [hx]))
    simp [splitPrerelease, ih, h c (by simp)]

theorem allofCons_two (o1 o2 : Cmpr) (a b : Rel) (p1 p2 : Policy) :
    allofCons [⟨o1, ⟨a.major, a.minor, a.patch, [], []⟩, p1⟩, ⟨o2, ⟨b.major, b.minor, b.patch, [], []⟩, p2⟩] =
      .ok [.mk o1 a.text, .mk o2 b.text] := by
  simp [allofCons, str_release, mkVer_text]

theorem eraseDups_pair {α} [BEq α] (x y : α) (h : (y == x) = false) : [x, y].eraseDups = [x, y] := by
  simp [List.eraseDups_cons, h]

/-- a string without `|` whose single group parses to two release clauses with different
operators gives these two constraints -/
theorem specCons_two (s : List Char) (hbar : ∀ c ∈ s, c ≠ '|') (o1 o2 : Cmpr) (a b : Rel)
    (ho : o1 ≠ o2)
    (hg : parseGroup s = .ok [[rng o1 ⟨a.major, a.minor, a.patch, [], []⟩,
                               rng o2 ⟨b.major, b.minor, b.patch, [], []⟩]]) :
    specCons s = .ok [.mk o1 a.text, .mk o2 b.text] := by
  have hs : splitStr ['|', '|'] s = [s] := splitGo_noSep '|' ['|'] s hbar
  have hne : (rng o2 ⟨b.major, b.minor, b.patch, [], []⟩ == rng o1 ⟨a.major, a.minor, a.patch, [], []⟩) = false := by
    simp [rng, Ne.symm ho]
  simp only [specCons, specParse, hs, parseGroups, hg, List.append_nil]
  rw [eraseDups_pair _ _ hne]
  exact allofCons_two o1 o2 a b _ _

/-- a single block (no space, no ` - `) as a group -/
theorem parseGroup_block (s : List Char) (hsp : ∀ c ∈ s, isPySpace c = false) (hne : s ≠ [])
    (cs : List Clause) (hp : parseSimple s = .ok cs) (hm : (matchBlock s).isSome = true)
    (hrel : ∀ c ∈ cs, c.target.pre = []) :
    parseGroup s = .ok [cs] := by
  have hsp' : ∀ c ∈ s, c ≠ ' ' := fun c hc e => by subst e; exact absurd (hsp _ hc) (by decide)
  have h1 : strip s = s := strip_noSpace s hsp
  have h2 : containsStr [' ', '-', ' '] s = false := containsStr_noSep ' ' ['-', ' '] s hsp'
  have h3 : splitOn ' ' s = [s] := splitOn_noSep ' ' s hsp'
  have h4 : s.isEmpty = false := by cases s <;> simp_all
  have hm' : (matchBlock s).isNone = false := by cases h : matchBlock s <;> simp_all
  simp [parseGroup, normGroup, groupClauses, h1, h2, h3, h4, parseBlocks, hm', hp, splitPrerelease_release cs hrel]

theorem isSome_of_eq {α} {o : Option α} {x : α} (h : o = some x) : o.isSome = true := by simp [h]

/-! ### `specCons` on the documented shorthand forms -/

theorem mem_cons_text {a : Char} {v : Rel} {c : Char} (h : c ∈ a :: v.text) : c = a ∨ c.isDigit = true ∨ c = '.' := by
  rcases List.mem_cons.mp h with h | h
  · exact .inl h
  · exact .inr (v.text_chars c h)

theorem digit_or_dot_ne_bar {c : Char} (h : c.isDigit = true ∨ c = '.') : c ≠ '|' := by
  rcases h with h | h
  · exact (digit_ne h).2.2.2.2.2.2.2.2.2.2.2.2.2.2.1
  · subst h; decide

theorem digit_or_dot_noSpace {c : Char} (h : c.isDigit = true ∨ c = '.') : isPySpace c = false := by
  rcases h with h | h
  · exact (digit_ne h).2.2.2.2.2.2.2.2.2.2.2.2.2.2.2.2
  · subst h; decide

theorem specCons_tilde (v : Rel) : specCons ('~' :: v.text) =
    .ok [.mk .ge v.text, .mk .lt (tildeUpper v).text] := by
  refine specCons_two _ ?_ .ge .lt v (tildeUpper v) (by decide) ?_
  · intro c hc
    rcases mem_cons_text hc with h | h
    · subst h; decide
    · exact digit_or_dot_ne_bar h
  · refine parseGroup_block _ ?_ (by simp) _ (parseSimple_tilde v) (isSome_of_eq (matchBlock_tilde v)) ?_
    · intro c hc
      rcases mem_cons_text hc with h | h
      · subst h; decide
      · exact digit_or_dot_noSpace h
    · intro c hc; simp at hc; rcases hc with h | h <;> subst h <;> rfl

theorem x1_chars (ma : Nat) : ∀ c ∈ natStr ma ++ ['.', 'x'], c.isDigit = true ∨ c = '.' ∨ c = 'x' := by
  intro c hc
  simp only [List.mem_append, List.mem_cons, List.not_mem_nil, or_false] at hc
  rcases hc with h | h | h
  · exact .inl (natStr_digits _ c h)
  · exact .inr (.inl h)
  · exact .inr (.inr h)

theorem x2_chars (ma mi : Nat) : ∀ c ∈ natStr ma ++ '.' :: (natStr mi ++ ['.', 'x']),
    c.isDigit = true ∨ c = '.' ∨ c = 'x' := by
  intro c hc
  simp only [List.mem_append, List.mem_cons, List.not_mem_nil, or_false] at hc
  rcases hc with h | h | h | h | h
  · exact .inl (natStr_digits _ c h)
  · exact .inr (.inl h)
  · exact .inl (natStr_digits _ c h)
  · exact .inr (.inl h)
  · exact .inr (.inr h)

theorem xchar_ne_bar {c : Char} (h : c.isDigit = true ∨ c = '.' ∨ c = 'x') : c ≠ '|' := by
  rcases h with h | h | h
  · exact (digit_ne h).2.2.2.2.2.2.2.2.2.2.2.2.2.2.1
  · subst h; decide
  · subst h; decide

theorem xchar_noSpace {c : Char} (h : c.isDigit = true ∨ c = '.' ∨ c = 'x') : isPySpace c = false := by
  rcases h with h | h | h
  · exact (digit_ne h).2.2.2.2.2.2.2.2.2.2.2.2.2.2.2.2
  · subst h; decide
  · subst h; decide

theorem specCons_x1 (ma : Nat) : specCons (natStr ma ++ ['.', 'x']) =
    .ok [.mk .ge (Rel.text ⟨ma, 0, 0⟩), .mk .lt (Rel.text ⟨ma + 1, 0, 0⟩)] := by
  refine specCons_two _ (fun c hc => xchar_ne_bar (x1_chars ma c hc)) .ge .lt ⟨ma, 0, 0⟩ ⟨ma + 1, 0, 0⟩
    (by decide) ?_
  refine parseGroup_block _ (fun c hc => xchar_noSpace (x1_chars ma c hc)) (by simp) _
    (parseSimple_x1 ma) (isSome_of_eq (matchBlock_x1 ma)) ?_
  intro c hc; simp at hc; rcases hc with h | h <;> subst h <;> rfl

theorem specCons_x2 (ma mi : Nat) : specCons (natStr ma ++ '.' :: (natStr mi ++ ['.', 'x'])) =
    .ok [.mk .ge (Rel.text ⟨ma, mi, 0⟩), .mk .lt (Rel.text ⟨ma, mi + 1, 0⟩)] := by
  refine specCons_two _ (fun c hc => xchar_ne_bar (x2_chars ma mi c hc)) .ge .lt ⟨ma, mi, 0⟩ ⟨ma, mi + 1, 0⟩
    (by decide) ?_
  refine parseGroup_block _ (fun c hc => xchar_noSpace (x2_chars ma mi c hc)) (by simp) _
    (parseSimple_x2 ma mi) (isSome_of_eq (matchBlock_x2 ma mi)) ?_
  intro c hc; simp at hc; rcases hc with h | h <;> subst h <;> rfl

/-- the rendering of a hyphen range -/
def hyphenText (a b : Rel) : List Char := a.text ++ ' ' :: '-' :: ' ' :: b.text

theorem parseGroup_hyphen (a b : Rel) : parseGroup (hyphenText a b) =
    .ok [[rng .ge ⟨a.major, a.minor, a.patch, [], []⟩, rng .le ⟨b.major, b.minor, b.patch, [], []⟩]] := by
  have hsp : ∀ v : Rel, ∀ c ∈ v.text, c ≠ ' ' := fun v => text_ne v (by decide) (by decide)
  have h1 : strip (hyphenText a b) = hyphenText a b := by
    apply strip_ends
    · intro c r e
      obtain ⟨d, ds, he, hd⟩ := a.text_shape
      rw [hyphenText, he] at e
      simp only [List.cons_append, List.cons.injEq] at e
      rw [← e.1]; exact (digit_ne hd).2.2.2.2.2.2.2.2.2.2.2.2.2.2.2.2
    · intro c r e
      obtain ⟨d, ds, he, hd⟩ := text_last b
      have : (hyphenText a b).reverse = b.text.reverse ++ (' ' :: '-' :: ' ' :: a.text.reverse) := by
        simp [hyphenText]
      rw [this, he] at e
      simp only [List.cons_append, List.cons.injEq] at e
      rw [← e.1]; exact (digit_ne hd).2.2.2.2.2.2.2.2.2.2.2.2.2.2.2.2
  have h2 : containsStr [' ', '-', ' '] (hyphenText a b) = true := containsStr_hyphen _ _
  have h3 : splitStr [' ', '-', ' '] (hyphenText a b) = [a.text, b.text] := by
    rw [splitStr, hyphenText, splitGo_hyphen _ _ (hsp a), splitGo_noSep ' ' ['-', ' '] _ (hsp b)]
  have h4 : (hyphenText a b).isEmpty = false := by
    obtain ⟨d, ds, he, hd⟩ := a.text_shape
    simp [hyphenText, he]
  simp [parseGroup, normGroup, groupClauses, hyphenClauses, h1, h2, h3, h4, parseSimple_ge, parseSimple_le, splitPrerelease, rng]

theorem specCons_hyphen (a b : Rel) : specCons (hyphenText a b) =
    .ok [.mk .ge a.text, .mk .le b.text] := by
  refine specCons_two _ ?_ .ge .le a b (by decide) (parseGroup_hyphen a b)
  intro c hc
  simp only [hyphenText, List.mem_append, List.mem_cons] at hc
  rcases hc with h | h | h | h | h
  · exact digit_or_dot_ne_bar (a.text_chars c h)
  · subst h; decide
  · subst h; decide
  · subst h; decide
  · exact digit_or_dot_ne_bar (b.text_chars c h)

/-! ### the token loop on the rendered members -/

theorem endsWith_x_text (p : List Char) (v : Rel) : endsWith ['.', 'x'] (p ++ v.text) = false := by
  obtain ⟨c, r, he, hc⟩ := text_last v
  have hx := (digit_ne hc).2.2.2.2.2.2.2.1
  simp [endsWith, he, List.isPrefixOf, Ne.symm hx]

theorem endsWith_x_true (s : List Char) : endsWith ['.', 'x'] (s ++ ['.', 'x']) = true := by
  simp [endsWith, List.isPrefixOf]

theorem removeSpaces_noSpace (s : List Char) (h : ∀ c ∈ s, isPySpace c = false) : removeSpaces s = s := by
  unfold removeSpaces
  rw [List.filter_eq_self]
  intro c hc; simp [h c hc]

theorem lstripV_text (v : Rel) : lstripV v.text = v.text := by
  obtain ⟨d, ds, he, hd⟩ := v.text_shape
  rw [he, lstripV_digit d ds hd]

/-- the result of one step of the loop, given what the token contributes -/
theorem tokenLoop_step (comparator : Option Cmpr) (tok : List Char) (rest : List (List Char))
    (here : List TCon) (h1 : nativeCmp (compText comparator ++ tok) = none)
    (h2 : tokenCons comparator tok = .ok here) :
    tokenLoop comparator (tok :: rest) =
      match tokenLoop none rest with
      | .error e => .error e
      | .ok more => .ok (here ++ more) := by
  simp only [tokenLoop, h1, h2]
  cases tokenLoop none rest <;> rfl

theorem tokenLoop_cmp (c : Cmpr) (tok : List Char) (rest : List (List Char))
    (h1 : nativeCmp tok = some c) : tokenLoop none (tok :: rest) = tokenLoop (some c) rest := by
  simp [tokenLoop, compText, h1]

theorem atom_cmp_attached (op : NOp) (v : Rel) :
    nativeCmp (compText none ++ (op.text ++ v.text)) = none ∧
    tokenCons none (op.text ++ v.text) = .ok [.mk op.cmpr v.text] := by
  obtain ⟨d, ds, he, hd⟩ := v.text_shape
  have hne := digit_ne hd
  have hns : ∀ c ∈ op.text ++ v.text, isPySpace c = false := by
    intro c hc
    rcases List.mem_append.mp hc with h | h
    · cases op <;> simp [NOp.text] at h <;>
        first | (subst h; decide) | (rcases h with h | h <;> subst h <;> decide)
    · exact text_noSpace v c h
  have hend := endsWith_x_text op.text v
  have hmk := mkVer_text v
  have hls := lstripV_text v
  constructor
  · rw [he]; cases op <;> simp [nativeCmp, compText, NOp.text, hne.1, hne.2.1, hne.2.2.1]
  · simp only [tokenCons, hend, splitReq, removeSpaces_noSpace _ hns]
    rw [he] at hls hmk ⊢
    cases op <;>
      simp [startsWith, List.isPrefixOf, NOp.text, lstripSet, List.dropWhile, hne.1, hne.2.1,
        hne.2.2.1, Ne.symm hne.1, Ne.symm hne.2.1, Ne.symm hne.2.2.1, hls, hmk, NOp.cmpr]

theorem atom_cmp_spaced (op : NOp) (v : Rel) :
    nativeCmp op.text = some op.cmpr ∧
    nativeCmp (compText (some op.cmpr) ++ v.text) = none ∧
    tokenCons (some op.cmpr) v.text = .ok [.mk op.cmpr v.text] := by
  obtain ⟨d, ds, he, hd⟩ := v.text_shape
  have hne := digit_ne hd
  have hend := endsWith_x_text [] v
  simp only [List.nil_append] at hend
  refine ⟨by cases op <;> rfl, ?_, ?_⟩
  · rw [he]; cases op <;> simp [nativeCmp, compText, NOp.cmpr, hne.1, hne.2.1, hne.2.2.1]
  · simp [tokenCons, hend, lstripV_text, mkVer_text]

theorem atom_exact (v : Rel) :
    nativeCmp (compText none ++ v.text) = none ∧ tokenCons none v.text = .ok [.mk .eq v.text] := by
  obtain ⟨d, ds, he, hd⟩ := v.text_shape
  have hne := digit_ne hd
  have hend := endsWith_x_text [] v
  simp only [List.nil_append] at hend
  have hmk := mkVer_text v
  have hls := lstripV_text v
  have hrs := removeSpaces_noSpace _ (text_noSpace v)
  constructor
  · rw [he]; simp [nativeCmp, compText, hne.1, hne.2.1, hne.2.2.1]
  · simp only [tokenCons, hend, splitReq, hrs]
    rw [he] at hls hmk ⊢
    simp [startsWith, List.isPrefixOf, hne.1, hne.2.1, hne.2.2.1, hne.2.2.2.1, hne.2.2.2.2.1,
      Ne.symm hne.1, Ne.symm hne.2.1, Ne.symm hne.2.2.1, Ne.symm hne.2.2.2.1, Ne.symm hne.2.2.2.2.1, hls, hmk]

theorem caretCons_text (v : Rel) : caretCons ('^' :: v.text) =
    .ok [.mk .ge v.text, .mk .lt (caretUpper v).text] := by
  obtain ⟨d, ds, he, hd⟩ := v.text_shape
  have hne := digit_ne hd
  have hdrop : ('^' :: v.text).dropWhile (· == '^') = v.text := by
    rw [he]; simp [List.dropWhile_cons, hne.2.2.2.1]
  obtain ⟨a, b, c⟩ := v
  simp only [caretCons, hdrop, mkRaw_text, str_release]
  by_cases h1 : a = 0
  · subst h1
    by_cases h2 : b = 0
    · subst h2
      have := mkVer_text ⟨0, 0, c + 1⟩
      simp [nextPatch, str_release, caretUpper, this]
    · have := mkVer_text ⟨0, b + 1, 0⟩
      simp [h2, nextMinor, str_release, caretUpper, this]
  · have := mkVer_text ⟨a + 1, 0, 0⟩
    simp [h1, nextMajor, str_release, caretUpper, this]

theorem atom_caret (v : Rel) :
    nativeCmp (compText none ++ '^' :: v.text) = none ∧
    tokenCons none ('^' :: v.text) = .ok [.mk .ge v.text, .mk .lt (caretUpper v).text] := by
  constructor
  · simp [nativeCmp, compText]
  · simp [tokenCons, startsWith, List.isPrefixOf, caretCons_text]

theorem atom_tilde (v : Rel) :
    nativeCmp (compText none ++ '~' :: v.text) = none ∧
    tokenCons none ('~' :: v.text) = .ok [.mk .ge v.text, .mk .lt (tildeUpper v).text] := by
  constructor
  · simp [nativeCmp, compText]
  · simp [tokenCons, startsWith, List.isPrefixOf, specCons_tilde]

theorem atom_x (s : List Char) (d : Char) (ds : List Char) (hd : d.isDigit = true)
    (he : s = d :: ds) (res : List TCon) (hs : specCons (s ++ ['.', 'x']) = .ok res) :
    nativeCmp (compText none ++ (s ++ ['.', 'x'])) = none ∧
    tokenCons none (s ++ ['.', 'x']) = .ok res := by
  have hne := digit_ne hd
  constructor
  · rw [he]; simp [nativeCmp, compText, hne.1, hne.2.1, hne.2.2.1]
  · have h1 : startsWith ['^'] (s ++ ['.', 'x']) = false := by
      rw [he]; simp [startsWith, List.isPrefixOf, Ne.symm hne.2.2.2.1]
    simp [tokenCons, h1, endsWith_x_true, hs]

/-- what the loop does with the tokens of one member -/
theorem tokenLoop_atom (a : Atom) (rest : List (List Char)) :
    tokenLoop none (a.tokens ++ rest) =
      match tokenLoop none rest with
      | .error e => .error e
      | .ok more => .ok (a.constraints ++ more) := by
  cases a with
  | cmp op spaced v =>
    cases spaced with
    | false =>
      obtain ⟨h1, h2⟩ := atom_cmp_attached op v
      exact tokenLoop_step none _ rest _ h1 h2
    | true =>
      obtain ⟨h0, h1, h2⟩ := atom_cmp_spaced op v
      show tokenLoop none (op.text :: v.text :: rest) = _
      rw [tokenLoop_cmp _ _ _ h0]
      exact tokenLoop_step _ _ rest _ h1 h2
  | exact v =>
    obtain ⟨h1, h2⟩ := atom_exact v
    exact tokenLoop_step none _ rest _ h1 h2
  | caret v =>
    obtain ⟨h1, h2⟩ := atom_caret v
    exact tokenLoop_step none _ rest _ h1 h2
  | tilde v =>
    obtain ⟨h1, h2⟩ := atom_tilde v
    exact tokenLoop_step none _ rest _ h1 h2
  | xMinor ma =>
    obtain ⟨d, ds, he, hd, _, _⟩ := natStr_shape ma
    obtain ⟨h1, h2⟩ := atom_x (natStr ma) d ds hd he _ (specCons_x1 ma)
    exact tokenLoop_step none _ rest _ h1 h2
  | xPatch ma mi =>
    obtain ⟨d, ds, he, hd, _, _⟩ := natStr_shape ma
    have hs := specCons_x2 ma mi
    have hassoc : natStr ma ++ '.' :: (natStr mi ++ ['.', 'x']) = (natStr ma ++ '.' :: natStr mi) ++ ['.', 'x'] := by
      simp
    rw [hassoc] at hs
    obtain ⟨h1, h2⟩ := atom_x (natStr ma ++ '.' :: natStr mi) d (ds ++ '.' :: natStr mi) hd (by rw [he]; rfl) _ hs
    show tokenLoop none ((natStr ma ++ '.' :: (natStr mi ++ ['.', 'x'])) :: rest) = _
    rw [hassoc]
    exact tokenLoop_step none _ rest _ h1 h2

theorem tokenLoop_atoms : ∀ atoms : List Atom,
    tokenLoop none (atoms.flatMap Atom.tokens) = .ok (atoms.flatMap Atom.constraints)
  | [] => rfl
  | a :: rest => by
    simp only [List.flatMap_cons]
    rw [tokenLoop_atom, tokenLoop_atoms rest]

/-! ### characters of the rendered tokens -/

/-- the characters a rendered token is made of -/
def tokChar (c : Char) : Bool :=
  c.isDigit || c == '.' || c == 'x' || c == '^' || c == '~' || c == '<' || c == '>' || c == '='

theorem tokChar_props {c : Char} (h : tokChar c = true) :
    c ≠ '|' ∧ c ≠ '-' ∧ c ≠ '*' ∧ c ≠ ' ' ∧ isPySpace c = false := by
  simp only [tokChar, Bool.or_eq_true, beq_iff_eq] at h
  rcases h with ((((((h | h) | h) | h) | h) | h) | h) | h
  · have := digit_ne h
    exact ⟨this.2.2.2.2.2.2.2.2.2.2.2.2.2.2.1, this.2.2.2.2.2.2.2.2.2.2.2.1, this.2.2.2.2.2.2.2.2.2.1,
      this.2.2.2.2.2.2.2.2.2.2.2.2.2.1, this.2.2.2.2.2.2.2.2.2.2.2.2.2.2.2.2⟩
  all_goals (subst h; decide)

theorem tokChar_digit {c : Char} (h : c.isDigit = true) : tokChar c = true := by simp [tokChar, h]

theorem tokChar_text (v : Rel) : ∀ c ∈ v.text, tokChar c = true := by
  intro c hc
  rcases v.text_chars c hc with h | h
  · exact tokChar_digit h
  · subst h; decide

theorem tokChar_natStr (n : Nat) : ∀ c ∈ natStr n, tokChar c = true :=
  fun c hc => tokChar_digit (natStr_digits n c hc)

theorem tokens_ok (a : Atom) : ∀ t ∈ a.tokens, t ≠ [] ∧ ∀ c ∈ t, tokChar c = true := by
  intro t ht
  cases a with
  | cmp op spaced v =>
    have hop : op.text ≠ [] ∧ ∀ c ∈ op.text, tokChar c = true := by
      cases op <;> simp [NOp.text] <;> decide
    obtain ⟨d, ds, he, _⟩ := v.text_shape
    cases spaced with
    | false =>
      simp only [Atom.tokens, List.mem_singleton] at ht
      subst ht
      refine ⟨by simp [he], ?_⟩
      intro c hc
      rcases List.mem_append.mp hc with h | h
      · exact hop.2 c h
      · exact tokChar_text v c h
    | true =>
      simp only [Atom.tokens, List.mem_cons, List.not_mem_nil, or_false] at ht
      rcases ht with rfl | rfl
      · exact hop
      · exact ⟨by simp [he], tokChar_text v⟩
  | exact v =>
    obtain ⟨d, ds, he, _⟩ := v.text_shape
    simp only [Atom.tokens, List.mem_singleton] at ht
    subst ht
    exact ⟨by simp [he], tokChar_text v⟩
  | caret v =>
    simp only [Atom.tokens, List.mem_singleton] at ht
    subst ht
    refine ⟨by simp, ?_⟩
    intro c hc
    rcases List.mem_cons.mp hc with h | h
    · subst h; decide
    · exact tokChar_text v c h
  | tilde v =>
    simp only [Atom.tokens, List.mem_singleton] at ht
    subst ht
    refine ⟨by simp, ?_⟩
    intro c hc
    rcases List.mem_cons.mp hc with h | h
    · subst h; decide
    · exact tokChar_text v c h
  | xMinor ma =>
    simp only [Atom.tokens, List.mem_singleton] at ht
    subst ht
    refine ⟨by simp, ?_⟩
    intro c hc
    rcases x1_chars ma c hc with h | h | h
    · exact tokChar_digit h
    · subst h; decide
    · subst h; decide
  | xPatch ma mi =>
    simp only [Atom.tokens, List.mem_singleton] at ht
    subst ht
    refine ⟨by simp, ?_⟩
    intro c hc
    rcases x2_chars ma mi c hc with h | h | h
    · exact tokChar_digit h
    · subst h; decide
    · subst h; decide

/-! ### `str.split()` on tokens joined by one space -/

theorem splitWs_cons2 (c d : Char) (r : List Char) (hc : isPySpace c = false)
    (hd : isPySpace d = false) (h : List Char) (t : List (List Char))
    (he : splitWs (d :: r) = h :: t) : splitWs (c :: d :: r) = (c :: h) :: t := by
  conv => lhs; unfold splitWs
  simp [hc, hd, he]

theorem splitWs_single : ∀ t : List Char, t ≠ [] → (∀ c ∈ t, isPySpace c = false) → splitWs t = [t]
  | [], h, _ => absurd rfl h
  | [c], _, hs => by simp [splitWs, hs c (by simp)]
  | c :: d :: r, _, hs => by
    have ih := splitWs_single (d :: r) (by simp) (fun x hx => hs x (by simp [hx]))
    exact splitWs_cons2 c d r (hs c (by simp)) (hs d (by simp)) _ _ ih

theorem splitWs_append (s : List Char) : ∀ t : List Char, t ≠ [] → (∀ c ∈ t, isPySpace c = false) →
    splitWs (t ++ ' ' :: s) = t :: splitWs s
  | [], h, _ => absurd rfl h
  | [c], _, hs => by
    have : isPySpace ' ' = true := by decide
    simp [splitWs, hs c (by simp), this]
  | c :: d :: r, _, hs => by
    have ih := splitWs_append s (d :: r) (by simp) (fun x hx => hs x (by simp [hx]))
    simp only [List.cons_append] at ih ⊢
    exact splitWs_cons2 c d _ (hs c (by simp)) (hs d (by simp)) _ _ ih

theorem splitWs_join : ∀ toks : List (List Char),
    (∀ t ∈ toks, t ≠ [] ∧ ∀ c ∈ t, isPySpace c = false) → splitWs (joinStr [' '] toks) = toks
  | [], _ => rfl
  | [t], h => splitWs_single t (h t (by simp)).1 (h t (by simp)).2
  | t :: u :: rest, h => by
    have ih := splitWs_join (u :: rest) (fun x hx => h x (by simp [hx]))
    simp only [joinStr, List.append_assoc, List.singleton_append]
    rw [splitWs_append _ t (h t (by simp)).1 (h t (by simp)).2, ih]

theorem mem_joinStr (sep : List Char) : ∀ (parts : List (List Char)) (c : Char),
    c ∈ joinStr sep parts → c ∈ sep ∨ ∃ p ∈ parts, c ∈ p
  | [], c, h => by simp [joinStr] at h
  | [x], c, h => .inr ⟨x, by simp, h⟩
  | x :: y :: ys, c, h => by
    simp only [joinStr, List.mem_append] at h
    rcases h with (h | h) | h
    · exact .inr ⟨x, by simp, h⟩
    · exact .inl h
    · rcases mem_joinStr sep (y :: ys) c h with h | ⟨p, hp, hc⟩
      · exact .inl h
      · exact .inr ⟨p, by simp [List.mem_cons.mp hp], hc⟩

/-! ### one alternative -/

theorem containsStr_noDash : ∀ s : List Char, (∀ c ∈ s, c ≠ '-') → containsStr [' ', '-', ' '] s = false
  | [], _ => rfl
  | [c], _ => by simp [containsStr, List.isPrefixOf]
  | c :: d :: r, h => by
    have ih := containsStr_noDash (d :: r) (fun x hx => h x (by simp [hx]))
    have hd : d ≠ '-' := h d (by simp)
    simp [containsStr, List.isPrefixOf, Ne.symm hd] at ih ⊢
    exact ih

/-- characters of a rendered alternative -/
theorem alt_chars (alt : Alt) : ∀ c ∈ alt.render, tokChar c = true ∨ c = ' ' ∨ c = '-' := by
  intro c hc
  cases alt with
  | set atoms =>
    rcases mem_joinStr _ _ c hc with h | ⟨t, ht, hct⟩
    · simp at h; exact .inr (.inl h)
    · obtain ⟨a, _, hta⟩ := List.mem_flatMap.mp ht
      exact .inl ((tokens_ok a t hta).2 c hct)
  | hyphen a b =>
    simp only [Alt.render, List.mem_append, List.mem_cons, List.not_mem_nil, or_false] at hc
    rcases hc with (h | h | h | h) | h
    · exact .inl (tokChar_text a c h)
    · exact .inr (.inl h)
    · exact .inr (.inr h)
    · exact .inr (.inl h)
    · exact .inl (tokChar_text b c h)

theorem alt_no_bar (alt : Alt) : ∀ c ∈ alt.render, c ≠ '|' ∧ c ≠ '*' := by
  intro c hc
  rcases alt_chars alt c hc with h | h | h
  · exact ⟨(tokChar_props h).1, (tokChar_props h).2.2.1⟩
  · subst h; decide
  · subst h; decide

/-- C06 (npm), one alternative: the converter's loop body on the rendering of a comparator set
or of a hyphen range gives exactly the documented desugaring -/
theorem rangeCons_alt (alt : Alt) : rangeCons alt.render = .ok alt.constraints := by
  cases alt with
  | set atoms =>
    have hok : ∀ t ∈ atoms.flatMap Atom.tokens, t ≠ [] ∧ ∀ c ∈ t, tokChar c = true := by
      intro t ht
      obtain ⟨a, _, hta⟩ := List.mem_flatMap.mp ht
      exact tokens_ok a t hta
    have hdash : ∀ c ∈ (Alt.set atoms).render, c ≠ '-' := by
      intro c hc
      rcases mem_joinStr _ _ c hc with h | ⟨t, ht, hct⟩
      · simp at h; subst h; decide
      · exact (tokChar_props ((hok t ht).2 c hct)).2.1
    have hsplit : splitWs (Alt.set atoms).render = atoms.flatMap Atom.tokens :=
      splitWs_join _ (fun t ht => ⟨(hok t ht).1, fun c hc => (tokChar_props ((hok t ht).2 c hc)).2.2.2.2⟩)
    simp only [rangeCons, containsStr_noDash _ hdash, hsplit]
    exact tokenLoop_atoms atoms
  | hyphen a b =>
    have h2 : containsStr [' ', '-', ' '] (Alt.hyphen a b).render = true := by
      simp only [Alt.render, List.append_assoc, List.cons_append, List.nil_append]
      exact containsStr_hyphen _ _
    have h3 : (Alt.hyphen a b).render = hyphenText a b := by simp [Alt.render, hyphenText]
    simp only [rangeCons, h2]
    rw [h3]
    exact specCons_hyphen a b

/-! ### alternatives joined by `||` -/

theorem splitGo_bars (B : List Char) : ∀ A : List Char, (∀ c ∈ A, c ≠ '|') →
    splitGo ['|', '|'] 0 (A ++ '|' :: '|' :: B) = A :: splitGo ['|', '|'] 0 B
  | [], _ => by simp [splitGo, List.isPrefixOf]
  | c :: cs, h => by
    have hc := h c (by simp)
    have ih := splitGo_bars B cs (fun x hx => h x (by simp [hx]))
    simp [splitGo, isPrefixOf_cons_ne _ _ hc, ih]

theorem splitStr_join : ∀ parts : List (List Char), parts ≠ [] → (∀ p ∈ parts, ∀ c ∈ p, c ≠ '|') →
    splitStr ['|', '|'] (joinStr ['|', '|'] parts) = parts
  | [], h, _ => absurd rfl h
  | [x], _, h => splitGo_noSep '|' ['|'] x (h x (by simp))
  | x :: y :: ys, _, h => by
    have ih := splitStr_join (y :: ys) (by simp) (fun p hp => h p (by simp [hp]))
    simp only [joinStr, List.append_assoc, List.cons_append, List.nil_append, splitStr] at ih ⊢
    rw [splitGo_bars _ x (h x (by simp)), ih]

theorem rangesCons_alts : ∀ alts : List Alt,
    rangesCons (alts.map Alt.render) = .ok (alts.flatMap Alt.constraints)
  | [] => rfl
  | a :: rest => by
    simp only [List.map_cons, rangesCons, rangeCons_alt a, rangesCons_alts rest, List.flatMap_cons]

theorem render_ne_star (e : Expr) : render e ≠ ['*'] := by
  intro h
  have hmem : '*' ∈ render e := by rw [h]; simp
  rcases mem_joinStr _ _ _ hmem with h | ⟨p, hp, hc⟩
  · simp at h
  · obtain ⟨alt, _, rfl⟩ := List.mem_map.mp hp
    exact (alt_no_bar alt _ hc).2 rfl

/-! ## (a) exactness: C06 (npm part) -/

/-- C06 / C15 for the npm fragment: on the rendering of ANY expression of the fragment
(alternatives joined by `||`; comparator sets of primitive comparators, exact versions, caret,
tilde and x-ranges; hyphen ranges; all over release versions `N.N.N`) `from_native` yields
exactly the desugaring documented by node-semver, as constraint texts. -/
theorem npm_exact (e : Expr) : fromNative (render e) = .ok (constraintsOf e) := by
  have hstar : (render e == ['*']) = false := by simpa using render_ne_star e
  simp only [fromNative, hstar, Bool.false_eq_true, if_false]
  cases e with
  | nil => rfl
  | cons a rest =>
    have hs : splitStr ['|', '|'] (render (a :: rest)) = (a :: rest).map Alt.render :=
      splitStr_join _ (by simp) (fun p hp c hc => by
        obtain ⟨alt, _, rfl⟩ := List.mem_map.mp hp
        exact (alt_no_bar alt c hc).1)
    rw [hs]
    exact rangesCons_alts (a :: rest)

/-- a comparator set of any members -/
theorem npm_set_exact (atoms : List Atom) :
    fromNative (joinStr [' '] (atoms.flatMap Atom.tokens)) = .ok (atoms.flatMap Atom.constraints) := by
  simpa [render, joinStr, Alt.render, constraintsOf, Alt.constraints] using npm_exact [.set atoms]

/-- `^1.2.3 := >=1.2.3 <2.0.0`, `^0.2.3 := >=0.2.3 <0.3.0`, `^0.0.3 := >=0.0.3 <0.0.4` -/
theorem npm_caret_exact (v : Rel) :
    fromNative ('^' :: v.text) = .ok [.mk .ge v.text, .mk .lt (caretUpper v).text] := by
  simpa [joinStr, Atom.tokens, Atom.constraints] using npm_set_exact [.caret v]

/-- `~1.2.3 := >=1.2.3 <1.3.0` -/
theorem npm_tilde_exact (v : Rel) :
    fromNative ('~' :: v.text) = .ok [.mk .ge v.text, .mk .lt (tildeUpper v).text] := by
  simpa [joinStr, Atom.tokens, Atom.constraints] using npm_set_exact [.tilde v]

/-- `1.x := >=1.0.0 <2.0.0` and `1.2.x := >=1.2.0 <1.3.0` -/
theorem npm_xrange_exact (ma mi : Nat) :
    fromNative (natStr ma ++ ['.', 'x']) =
      .ok [.mk .ge (Rel.text ⟨ma, 0, 0⟩), .mk .lt (Rel.text ⟨ma + 1, 0, 0⟩)] ∧
    fromNative (natStr ma ++ '.' :: (natStr mi ++ ['.', 'x'])) =
      .ok [.mk .ge (Rel.text ⟨ma, mi, 0⟩), .mk .lt (Rel.text ⟨ma, mi + 1, 0⟩)] := by
  constructor
  · simpa [joinStr, Atom.tokens, Atom.constraints] using npm_set_exact [.xMinor ma]
  · simpa [joinStr, Atom.tokens, Atom.constraints] using npm_set_exact [.xPatch ma mi]

/-- `a - b := >=a <=b` -/
theorem npm_hyphen_exact (a b : Rel) :
    fromNative (a.text ++ [' ', '-', ' '] ++ b.text) = .ok [.mk .ge a.text, .mk .le b.text] := by
  simpa [render, joinStr, Alt.render, constraintsOf, Alt.constraints] using npm_exact [.hyphen a b]

/-- a member that is a primitive comparator (attached or separated by a space) or an exact
version -/
def Atom.isComparator : Atom → Bool
  | .cmp _ _ _ => true
  | .exact _ => true
  | _ => false

/-- comparator sets `>=1.2.3 <2.0.0`, `= 1.2.3`, `1.2.3` …: one constraint per member, with the
member's comparator and version -/
theorem npm_comparators_exact (atoms : List Atom) (_h : atoms.all Atom.isComparator = true) :
    fromNative (joinStr [' '] (atoms.flatMap Atom.tokens)) = .ok (atoms.flatMap Atom.constraints) ∧
    (atoms.flatMap Atom.constraints).length = atoms.length := by
  refine ⟨npm_set_exact atoms, ?_⟩
  induction atoms with
  | nil => rfl
  | cons a rest ih =>
    simp only [List.all_cons, Bool.and_eq_true] at _h
    have : a.constraints.length = 1 := by
      cases a <;> simp [Atom.isComparator] at _h <;> rfl
    simp [List.flatMap_cons, this, ih _h.2]; omega

example : render [.set [.cmp .ge false ⟨1, 2, 3⟩, .cmp .lt true ⟨2, 0, 0⟩], .hyphen ⟨1, 0, 0⟩ ⟨1, 5, 0⟩,
    .set [.caret ⟨0, 2, 3⟩, .xPatch 1 2]]
    = ">=1.2.3 < 2.0.0||1.0.0 - 1.5.0||^0.2.3 1.2.x".toList := by decide

/-! ## (b) declared errors: C16 -/

/-- the declared exceptions that the converter raises: `ValueError` and its subclass -/
def Decl (e : TErr) : Prop := e = .ValueError ∨ e = .InvalidVersion

theorem Decl.declared {e : TErr} (h : Decl e) : e.declared = true := by
  rcases h with h | h <;> subst h <;> rfl

theorem construct_not_other (s : List Char) (n : String) : construct s ≠ .error (.other n) := by
  unfold construct constructWith isValid
  cases h : buildValue false (Semver.normalize s) <;> simp [h]

theorem mkRaw_err {s : List Char} {e : TErr} (h : mkRaw s = .error e) : e = .InvalidVersion := by
  unfold mkRaw at h
  cases hc : construct s with
  | ok r => rw [hc] at h; cases h
  | error pe =>
    cases pe with
    | invalid => rw [hc] at h; cases h; rfl
    | other n => exact absurd hc (construct_not_other s n)

theorem mkVer_err {s : List Char} {e : TErr} (h : mkVer s = .error e) : e = .InvalidVersion := by
  unfold mkVer at h
  cases hc : mkRaw s with
  | ok r => rw [hc] at h; cases h
  | error e' => rw [hc] at h; cases h; exact mkRaw_err hc

theorem mkVersion_err {a b c : Nat} {p q : List (List Char)} {e : TErr}
    (h : mkVersion a b c p q = .error e) : e = .ValueError := by
  unfold mkVersion at h
  by_cases h1 : (!validateIdentifiers p false) = true
  · simp only [h1, if_true] at h; cases h; rfl
  · by_cases h2 : (!validateIdentifiers q true) = true
    · simp only [h1, h2, if_true, if_false] at h; cases h; rfl
    · simp only [h1, h2, if_false] at h; cases h

theorem targetOf_err {b : Block} {build : Option (List Char)} {e : TErr}
    (h : targetOf b build = .error e) : e = .ValueError := by
  unfold targetOf at h
  cases hma : b.major with
  | none =>
    by_cases hc : (b.pfx != Pfx.eq && b.pfx != Pfx.ge) = true
    · simp only [hma, hc, if_true] at h; cases h; rfl
    · simp only [hma, hc, if_false] at h; cases h
  | some ma =>
    cases hmi : b.minor with
    | none => simp only [hma, hmi] at h; cases h
    | some mi =>
      cases hpa : b.patch with
      | none => simp only [hma, hmi, hpa] at h; cases h
      | some pa =>
        simp only [hma, hmi, hpa] at h
        cases hv : mkVersion ma mi pa (identsOf b.prerel) (identsOf build) with
        | ok t => rw [hv] at h; cases h
        | error e' => rw [hv] at h; cases h; exact mkVersion_err hv

/-- `parse_simple` raises `ValueError`, or `AttributeError` exactly when the block does not match -/
theorem parseSimple_err {s : List Char} {e : TErr} (h : parseSimple s = .error e) :
    e = .ValueError ∨ (e = .AttributeError ∧ matchBlock s = none) := by
  unfold parseSimple at h
  cases hm : matchBlock s with
  | none => rw [hm] at h; cases h; exact .inr ⟨rfl, rfl⟩
  | some b =>
    left
    simp only [hm] at h
    generalize (if (b.build.isSome && b.pfx != Pfx.eq) = true then none else b.build) = build at h
    cases ht : targetOf b build with
    | error e' => rw [ht] at h; cases h; exact targetOf_err ht
    | ok tp =>
      obtain ⟨t, p⟩ := tp
      rw [ht] at h
      by_cases hc : ((b.major.isNone || b.minor.isNone || b.patch.isNone) &&
          (truthy b.prerel || truthy build)) = true
      · simp only [hc, if_true] at h; cases h; rfl
      · simp only [hc, if_false] at h; cases h

theorem parseBlocks_err : ∀ {bs : List (List Char)} {e : TErr}, parseBlocks bs = .error e → e = .ValueError
  | [], _, h => by cases h
  | b :: rest, e, h => by
    unfold parseBlocks at h
    by_cases hm : (matchBlock b).isNone = true
    · simp only [hm, if_true] at h; cases h; rfl
    · simp only [hm, if_false] at h
      cases hp : parseSimple b with
      | error e' =>
        rw [hp] at h; cases h
        rcases parseSimple_err hp with h1 | ⟨_, h2⟩
        · exact h1
        · rw [h2] at hm; simp at hm
      | ok cs =>
        rw [hp] at h
        cases hr : parseBlocks rest with
        | error e' => rw [hr] at h; cases h; exact parseBlocks_err hr
        | ok more => rw [hr] at h; cases h

theorem hyphenClauses_err {g : List Char} {e : TErr} (h : hyphenClauses g = .error e) :
    e = .ValueError ∨ e = .AttributeError := by
  unfold hyphenClauses at h
  split at h
  · rename_i low high _
    cases h1 : parseSimple (['>', '='] ++ low) with
    | error e' =>
      rw [h1] at h; cases h
      rcases parseSimple_err h1 with h2 | ⟨h2, _⟩
      · exact .inl h2
      · exact .inr h2
    | ok a =>
      rw [h1] at h
      cases h2 : parseSimple (['<', '='] ++ high) with
      | error e' =>
        rw [h2] at h; cases h
        rcases parseSimple_err h2 with h3 | ⟨h3, _⟩
        · exact .inl h3
        · exact .inr h3
      | ok b => rw [h2] at h; cases h
  · cases h; exact .inl rfl

theorem groupClauses_err {g : List Char} {e : TErr} (h : groupClauses g = .error e) :
    e = .ValueError ∨ e = .AttributeError := by
  unfold groupClauses at h
  by_cases hc : containsStr [' ', '-', ' '] g = true
  · simp only [hc, if_true] at h; exact hyphenClauses_err h
  · simp only [hc, if_false] at h; exact .inl (parseBlocks_err h)

theorem parseGroup_err {g : List Char} {e : TErr} (h : parseGroup g = .error e) :
    e = .ValueError ∨ e = .AttributeError := by
  unfold parseGroup at h
  cases hg : groupClauses (normGroup g) with
  | error e' => rw [hg] at h; cases h; exact groupClauses_err hg
  | ok cs =>
    rw [hg] at h
    by_cases hc : (splitPrerelease cs).1.isEmpty = true
    · simp only [hc, if_true] at h; cases h
    · simp only [hc, if_false] at h; cases h

theorem parseGroups_err : ∀ {gs : List (List Char)} {e : TErr}, parseGroups gs = .error e →
    e = .ValueError ∨ e = .AttributeError
  | [], _, h => by cases h
  | g :: rest, e, h => by
    unfold parseGroups at h
    cases hg : parseGroup g with
    | error e' => rw [hg] at h; cases h; exact parseGroup_err hg
    | ok a =>
      rw [hg] at h
      cases hr : parseGroups rest with
      | error e' => rw [hr] at h; cases h; exact parseGroups_err hr
      | ok more => rw [hr] at h; cases h

theorem allofCons_err : ∀ {cs : List Clause} {e : TErr}, allofCons cs = .error e → e = .InvalidVersion
  | [], _, h => by cases h
  | c :: rest, e, h => by
    unfold allofCons at h
    split at h
    · rename_i h'; cases h; exact mkVer_err h'
    · split at h
      · rename_i h'; cases h; exact allofCons_err h'
      · cases h

theorem anyofCons_err : ∀ {sets : List (List Clause)} {e : TErr}, anyofCons sets = .error e →
    e = .ValueError ∨ e = .InvalidVersion
  | [], _, h => by cases h
  | cs :: rest, e, h => by
    unfold anyofCons at h
    split at h
    · cases h; exact .inl rfl
    · split at h
      · rename_i h'; cases h; exact .inr (allofCons_err h')
      · split at h
        · rename_i h'; cases h; exact anyofCons_err h'
        · cases h

theorem specCons_err {s : List Char} {e : TErr} (h : specCons s = .error e) : Decl e := by
  unfold specCons at h
  cases hp : specParse s with
  | error e' =>
    rw [hp] at h
    rcases parseGroups_err hp with h1 | h1
    · subst h1; cases h; exact .inl rfl
    · subst h1; cases h; exact .inl rfl
  | ok sets =>
    rw [hp] at h
    cases sets with
    | nil => simp [anyofCons] at h
    | cons cs rest =>
      cases rest with
      | cons cs2 rest2 => exact anyofCons_err h
      | nil => exact .inr (allofCons_err h)

theorem caretCons_err {t : List Char} {e : TErr} (h : caretCons t = .error e) : e = .InvalidVersion := by
  unfold caretCons at h
  split at h
  · rename_i h'; cases h; exact mkRaw_err h'
  · simp only at h
    split at h
    · rename_i h'; cases h; exact mkVer_err h'
    · cases h

theorem tokenCons_err {comp : Option Cmpr} {tok : List Char} {e : TErr}
    (h : tokenCons comp tok = .error e) : Decl e := by
  unfold tokenCons at h
  split at h
  · split at h
    · exact specCons_err h
    · split at h
      · rename_i h'; cases h; exact .inr (mkVer_err h')
      · cases h
  · split at h
    · exact .inr (caretCons_err h)
    · split at h
      · exact specCons_err h
      · simp only at h
        split at h
        · rename_i h'; cases h; exact .inr (mkVer_err h')
        · cases h

theorem tokenLoop_err : ∀ {toks : List (List Char)} {comp : Option Cmpr} {e : TErr},
    tokenLoop comp toks = .error e → Decl e
  | [], _, _, h => by cases h
  | tok :: rest, comp, e, h => by
    unfold tokenLoop at h
    split at h
    · exact tokenLoop_err h
    · split at h
      · rename_i h'; cases h; exact tokenCons_err h'
      · split at h
        · rename_i h'; cases h; exact tokenLoop_err h'
        · cases h

theorem rangeCons_err {r : List Char} {e : TErr} (h : rangeCons r = .error e) : Decl e := by
  unfold rangeCons at h
  split at h
  · exact specCons_err h
  · exact tokenLoop_err h

theorem rangesCons_err : ∀ {rs : List (List Char)} {e : TErr}, rangesCons rs = .error e → Decl e
  | [], _, h => by cases h
  | r :: rest, e, h => by
    unfold rangesCons at h
    split at h
    · rename_i h'; cases h; exact rangeCons_err h'
    · split at h
      · rename_i h'; cases h; exact rangesCons_err h'
      · cases h

/-- the only exceptions `from_native` raises are `ValueError` and `InvalidVersion` -/
theorem fromNative_err {t : List Char} {e : TErr} (h : fromNative t = .error e) : Decl e := by
  unfold fromNative at h
  split at h
  · cases h
  · exact rangesCons_err h

/-- C16 (npm): for EVERY text `from_native` returns a constraint list or raises a DECLARED
exception, `ValueError` or its subclass `InvalidVersion`; no internal error (`TypeError`,
`IndexError`, `KeyError`, `AttributeError`, `UnboundLocalError`, `AssertionError`, …) escapes -/
theorem npm_declared (t : List Char) :
    (∃ cs, fromNative t = .ok cs) ∨
    ∃ e, fromNative t = .error e ∧ (e = .ValueError ∨ e = .InvalidVersion) := by
  cases h : fromNative t with
  | ok cs => exact .inl ⟨cs, rfl⟩
  | error e => exact .inr ⟨e, rfl, fromNative_err h⟩

/-- in particular the error is in the declared set of the entry point -/
theorem npm_declared' (t : List Char) (e : TErr) (h : fromNative t = .error e) :
    e.declared = true := (fromNative_err h).declared

/-- the former witnesses of escaping internal errors (repaired by /repo 0921960) -/
theorem npm_former_witnesses :
    fromNative ">1.x".toList = .ok [.mk .ge "2.0.0".toList] ∧
    fromNative "x.x".toList = .ok [.mk .ge "0.0.0".toList] ∧
    fromNative "<=1.x".toList = .ok [.mk .lt "2.0.0".toList] ∧
    fromNative "a - b".toList = .error .ValueError ∧
    fromNative "v1.0.0 - 2.0.0".toList = .error .ValueError :=
  ⟨rfl, rfl, rfl, rfl, rfl⟩

/-! ## (c) the shorthand helpers: C18 -/

theorem matchBase_head {s : List Char} (h : matchBase s ≠ none) : ∃ d t, s = d :: t ∧ d.isDigit = true := by
  cases s with
  | nil => simp [matchBase] at h
  | cons d t =>
    refine ⟨d, t, rfl, ?_⟩
    by_cases hd : d.isDigit = true
    · exact hd
    · simp [matchBase, List.takeWhile, hd] at h

/-- a text that `SemverVersion` accepts starts, once the whitespace is removed, with `v`, `V`
or a digit -/
theorem construct_head {v : List Char} {r : Raw} (h : construct v = .ok r) :
    ∃ c w, removeSpaces v = c :: w ∧ (c = 'v' ∨ c = 'V' ∨ c.isDigit = true) := by
  have hb : coerceString (lstripV (removeSpaces v)) ≠ none := by
    intro hn
    simp [construct, constructWith, isValid, buildValue, Semver.normalize, coerce, hn] at h
  have hm : matchBase (lstripV (removeSpaces v)) ≠ none := by
    intro hn; apply hb; simp [coerceString, hn]
  obtain ⟨d, t, he, hd⟩ := matchBase_head hm
  cases hw : removeSpaces v with
  | nil => rw [hw] at he; simp [lstripV] at he
  | cons c w =>
    refine ⟨c, w, rfl, ?_⟩
    rw [hw] at he
    by_cases hc : (c == 'v' || c == 'V') = true
    · simp at hc; rcases hc with hc | hc
      · exact .inl hc
      · exact .inr (.inl hc)
    · simp only [lstripV, List.dropWhile_cons, hc] at he
      simp only [Bool.false_eq_true, if_false, List.cons.injEq] at he
      exact .inr (.inr (he.1 ▸ hd))

theorem construct_removeSpaces (v : List Char) : construct (removeSpaces v) = construct v := by
  have : Semver.normalize (removeSpaces v) = Semver.normalize v := by
    simp [Semver.normalize, removeSpaces, List.filter_filter]
  simp only [construct, constructWith, this]

theorem mkRaw_str_release (r : Raw) (h1 : r.pre = []) (h2 : r.build = []) : mkRaw (str r) = .ok r := by
  obtain ⟨a, b, c, p, q⟩ := r
  simp only at h1 h2
  subst h1 h2
  rw [str_release]; exact mkRaw_text ⟨a, b, c⟩

theorem next_release (r : Raw) :
    ((nextMajor r).pre = [] ∧ (nextMajor r).build = []) ∧
    ((nextMinor r).pre = [] ∧ (nextMinor r).build = []) ∧
    ((nextPatch r).pre = [] ∧ (nextPatch r).build = []) := by
  refine ⟨?_, ?_, ?_⟩
  · unfold nextMajor; split <;> exact ⟨rfl, rfl⟩
  · unfold nextMinor; split <;> exact ⟨rfl, rfl⟩
  · unfold nextPatch; split <;> exact ⟨rfl, rfl⟩

theorem dropWhile_append_all {α} (p : α → Bool) : ∀ (l r : List α), (∀ a ∈ l, p a = true) →
    (l ++ r).dropWhile p = r.dropWhile p
  | [], _, _ => rfl
  | a :: l, r, h => by
    simp [List.dropWhile_cons, h a (by simp), dropWhile_append_all p l r (fun x hx => h x (by simp [hx]))]

/-- the operator strings of the three helpers -/
def OpOK (op : List Char) : Prop :=
  op ≠ [] ∧ ∀ c ∈ op, isPySpace c = false ∧ c ≠ 'v' ∧ c ≠ 'V' ∧ c.isDigit = false

theorem shorthand_ok (op : List Char) (hop : OpOK op) (next : Raw → Raw)
    (hnext : ∀ r, (next r).pre = [] ∧ (next r).build = []) (v : List Char) (r : Raw)
    (h : construct v = .ok r) :
    shorthand op next (op ++ v) = .ok [.mk .ge (str r), .mk .lt (str (next r))] := by
  obtain ⟨c, w, hw, hc⟩ := construct_head h
  have ha : removeSpaces (op ++ v) = op ++ c :: w := by
    rw [← hw]
    simp only [removeSpaces, List.filter_append]
    congr 1
    rw [List.filter_eq_self]
    intro x hx; simp [(hop.2 x hx).1]
  have hcop : op.contains c = false := by
    rw [Bool.eq_false_iff]
    intro hmem
    have hmem' : c ∈ op := by simpa using hmem
    obtain ⟨_, h1, h2, h3⟩ := hop.2 c hmem'
    rcases hc with hc | hc | hc
    · exact h1 hc
    · exact h2 hc
    · rw [hc] at h3; cases h3
  have hb : (op ++ c :: w).isEmpty = false := by simp
  have hs : startsWith op (op ++ c :: w) = true := by
    simp [startsWith, List.isPrefixOf_iff_prefix]
  have hl : lstripSet op (op ++ c :: w) = c :: w := by
    unfold lstripSet
    rw [dropWhile_append_all _ _ _ (fun a ha => by simpa using ha)]
    have hcop' : c ∉ op := by simpa using hcop
    simp [List.dropWhile_cons, hcop']
  have hr : mkRaw (c :: w) = .ok r := by
    rw [← hw]; simp [mkRaw, construct_removeSpaces, h]
  have hu : mkRaw (str (next r)) = .ok (next r) := mkRaw_str_release _ (hnext r).1 (hnext r).2
  simp [shorthand, ha, hb, hs, hl, hr, hu]

theorem vercmp_self (r : Raw) : vercmp r r = .eq := by
  rw [Semver.vercmp_eq_key]; exact Semver.keyCmp_self _

/-- the facts that C18 asks for, from the Layer-A order: the lower bound is below the upper
bound and the starting version satisfies both constraints -/
theorem bounds_order (r up : Raw) (h : vercmp r up = .lt) :
    Con.sat verOps r (.mk .ge r) = true ∧ Con.sat verOps r (.mk .lt up) = true := by
  have h1 := (Semver.verOps_order_lawful r r).2.2.2
  have h2 := (Semver.verOps_order_lawful r up).1
  simp [Con.sat, VOps.op, h1, h2, h, vercmp_self]

/-- C18, caret: for every valid starting version `v` (value `r`) `get_caret_constraints("^"+v)`
is `>= str(r)`, `< str(r.next_major())`; lower < upper and `r` satisfies both -/
theorem caret_bounds (v : List Char) (r : Raw) (h : construct v = .ok r) :
    caretConstraints ('^' :: v) = .ok [.mk .ge (str r), .mk .lt (str (nextMajor r))] ∧
    vercmp r (nextMajor r) = .lt ∧
    Con.sat verOps r (.mk .ge r) = true ∧ Con.sat verOps r (.mk .lt (nextMajor r)) = true := by
  have hop : OpOK ['^'] := ⟨by simp, by intro c hc; simp at hc; subst hc; decide⟩
  exact ⟨shorthand_ok ['^'] hop nextMajor (fun r => (next_release r).1) v r h,
    Semver.lt_nextMajor r, bounds_order r _ (Semver.lt_nextMajor r)⟩

/-- C18, tilde: `get_tilde_constraints("~"+v)` is `>= str(r)`, `< str(r.next_minor())` -/
theorem tilde_bounds (v : List Char) (r : Raw) (h : construct v = .ok r) :
    tildeConstraints ('~' :: v) = .ok [.mk .ge (str r), .mk .lt (str (nextMinor r))] ∧
    vercmp r (nextMinor r) = .lt ∧
    Con.sat verOps r (.mk .ge r) = true ∧ Con.sat verOps r (.mk .lt (nextMinor r)) = true := by
  have hop : OpOK ['~'] := ⟨by simp, by intro c hc; simp at hc; subst hc; decide⟩
  exact ⟨shorthand_ok ['~'] hop nextMinor (fun r => (next_release r).2.1) v r h,
    Semver.lt_nextMinor r, bounds_order r _ (Semver.lt_nextMinor r)⟩

/-- C18, pessimistic: `get_pessimistic_constraints("~>"+v)` is `>= str(r)`,
`< str(r.next_minor())` -/
theorem pessimistic_bounds (v : List Char) (r : Raw) (h : construct v = .ok r) :
    pessimisticConstraints ('~' :: '>' :: v) = .ok [.mk .ge (str r), .mk .lt (str (nextMinor r))] ∧
    vercmp r (nextMinor r) = .lt ∧
    Con.sat verOps r (.mk .ge r) = true ∧ Con.sat verOps r (.mk .lt (nextMinor r)) = true := by
  have hop : OpOK ['~', '>'] :=
    ⟨by simp, by intro c hc; simp at hc; rcases hc with hc | hc <;> subst hc <;> decide⟩
  exact ⟨shorthand_ok ['~', '>'] hop nextMinor (fun r => (next_release r).2.1) v r h,
    Semver.lt_nextMinor r, bounds_order r _ (Semver.lt_nextMinor r)⟩

/-- the helpers raise only declared exceptions -/
theorem shorthand_declared (op : List Char) (next : Raw → Raw) (s : List Char) :
    (∃ cs, shorthand op next s = .ok cs) ∨ ∃ e, shorthand op next s = .error e ∧ Decl e := by
  cases h : shorthand op next s with
  | ok cs => exact .inl ⟨cs, rfl⟩
  | error e =>
    refine .inr ⟨e, rfl, ?_⟩
    unfold shorthand at h
    simp only at h
    by_cases hc : ((removeSpaces s).isEmpty || !startsWith op (removeSpaces s)) = true
    · simp only [hc, if_true] at h; cases h; exact .inl rfl
    · simp only [hc, if_false] at h
      cases h1 : mkRaw (lstripSet op (removeSpaces s)) with
      | error e' => rw [h1] at h; cases h; exact .inr (mkRaw_err h1)
      | ok lower =>
        rw [h1] at h
        simp only at h
        cases h2 : mkRaw (str (next lower)) with
        | error e' => rw [h2] at h; cases h; exact .inr (mkRaw_err h2)
        | ok upper => rw [h2] at h; cases h

end Univers.Text.Npm
