/-
End to end: from the characters of a vers string and of a version to the answer of the membership
test — `version_class(x) in VersionRange.from_string(t)` — as one executable model that composes
the text layer (`Text/Vers.lean`), a Layer-A constructor and the constraint algebra of Layer B.

The text layer carries a version as its printed text (`mkVer`); the real code holds the `Version`
object built from the item text.  The bridge is a `TextScheme`: a constructor, a printer and the
operators of one version class.
-/
import Univers.Text.Vers
import Univers.Vers.Model

namespace Univers.Text.EndToEnd

open Univers Univers.Text

/-- one version class, as the text layer and the constraint algebra see it -/
structure TextScheme where
  R : Type
  /-- `version_class(text)`; the error is the exception that escapes -/
  construct : List Char → Except TErr R
  /-- `str(version)` -/
  str : R → List Char
  ops : VOps R

/-- the text layer's view of the version class: `str(version_class(text))` -/
def TextScheme.mk' (T : TextScheme) : List Char → Except TErr (List Char) :=
  fun s => match T.construct s with
    | .ok r => .ok (T.str r)
    | .error e => .error e

/-- the constraint object of one parsed item (the version is built from the item's text) -/
def TextScheme.conOf (T : TextScheme) : TCon → Except TErr (Con T.R)
  | .star => .ok .star
  | .mk k v => match T.construct v with
    | .ok r => .ok (.mk k r)
    | .error e => .error e

def TextScheme.consOf (T : TextScheme) : List TCon → Except TErr (List (Con T.R))
  | [] => .ok []
  | c :: cs => match T.conOf c with
    | .error e => .error e
    | .ok d => match T.consOf cs with
      | .error e => .error e
      | .ok ds => .ok (d :: ds)

/-- errors of the constraint algebra, seen from the caller -/
def liftErr : Err → TErr
  | .ValueError => .ValueError
  | .TypeError => .TypeError
  | .InvalidConstraintsError => .other "InvalidConstraintsError"
  | .KeyError => .KeyError
  | .AttributeError => .other "AttributeError"
  | .IndexError => .other "IndexError"
  | .OutOfFuel => .other "OutOfFuel"

/-- `version_class(x) in VersionRange.from_string(t)` for a vers string of the scheme whose version
class is `T` (`mkVer` must hand `T.mk'` to that version class) -/
def contains (T : TextScheme) (mkVer : Vers.MkVer) (t x : List Char) : Except TErr Bool :=
  match Vers.fromString mkVer t with
  | .error e => .error e
  | .ok (_, items) =>
    match T.consOf items with
    | .error e => .error e
    | .ok cs =>
      match mkRange T.ops cs with
      | .error e => .error (liftErr e)
      | .ok r =>
        match T.construct x with
        | .error e => .error e
        | .ok v =>
          match containsVersion T.ops v r with
          | .error e => .error (liftErr e)
          | .ok b => .ok b

end Univers.Text.EndToEnd
