/-
Layer C/D — Python `str` methods on `List Char`, as the text layers use them, with the small
lemmas the text-layer theorems need.  Core Lean only.

Every function is tied to CPython by the driver command `strop` (`Univers/Driver/TextVers.lean`)
and `harness/corr_textvers.py` (section "strop").

Domain: the functions are exact on ASCII.  `isSpace` also lists the non-ASCII code points of
`str.isspace`; `lower` only maps `A`–`Z` (Python's `str.lower` also maps non-ASCII letters:
out of the domain).
-/
namespace Univers.Text.Str

/-! ### definitions -/

/-- `ch.isspace()` (`Py_UNICODE_ISSPACE`): the characters `str.split()` and `str.strip()`
without argument treat as whitespace.  On ASCII: 9–13 and 28–32. -/
def isSpace (c : Char) : Bool :=
  let n := c.toNat
  (9 ≤ n && n ≤ 13) || (28 ≤ n && n ≤ 32) || n == 0x85 || n == 0xa0 || n == 0x1680 ||
  (0x2000 ≤ n && n ≤ 0x200a) || n == 0x2028 || n == 0x2029 || n == 0x202f || n == 0x205f ||
  n == 0x3000

/-- loop of `str.split()` without argument; `cur` is the current field, reversed -/
def splitWsAux : List Char → List Char → List (List Char)
  | [], cur => if cur.isEmpty then [] else [cur.reverse]
  | c :: cs, cur =>
      if isSpace c then
        if cur.isEmpty then splitWsAux cs [] else cur.reverse :: splitWsAux cs []
      else splitWsAux cs (c :: cur)

/-- `s.split()`: split on runs of whitespace, no empty field -/
def splitWs (s : List Char) : List (List Char) := splitWsAux s []

/-- `"".join(parts)` -/
def concat (parts : List (List Char)) : List Char := parts.flatten

/-- `sep.join(parts)` -/
def join (sep : List Char) : List (List Char) → List Char
  | [] => []
  | [p] => p
  | p :: q :: ps => p ++ sep ++ join sep (q :: ps)

/-- `univers.utils.remove_spaces`: `"".join(string.split())` -/
def removeSpaces (s : List Char) : List Char := concat (splitWs s)

/-- `s.lstrip()` -/
def lstripWs (s : List Char) : List Char := s.dropWhile isSpace

/-- `s.rstrip()` -/
def rstripWs (s : List Char) : List Char := (s.reverse.dropWhile isSpace).reverse

/-- `s.strip()` -/
def stripWs (s : List Char) : List Char := rstripWs (lstripWs s)

/-- `s.lstrip(chars)`: strips a character SET -/
def lstripSet (chars s : List Char) : List Char := s.dropWhile (fun c => chars.contains c)

/-- `s.rstrip(chars)` -/
def rstripSet (chars s : List Char) : List Char :=
  (s.reverse.dropWhile (fun c => chars.contains c)).reverse

/-- `s.strip(chars)` -/
def stripSet (chars s : List Char) : List Char := rstripSet chars (lstripSet chars s)

/-- `s.startswith(pre)` -/
def startsWith (s pre : List Char) : Bool := pre.isPrefixOf s

/-- `s.endswith(suf)` -/
def endsWith (s suf : List Char) : Bool := suf.isSuffixOf s

/-- `s.partition(sep)` for a one-character separator: `(before, sep or "", after)` -/
def partitionChar (sep : Char) (s : List Char) : List Char × List Char × List Char :=
  let b := s.takeWhile (fun c => c != sep)
  match s.dropWhile (fun c => c != sep) with
  | [] => (b, [], [])
  | _ :: rest => (b, [sep], rest)

/-- `s.partition(sep)` for a non-empty separator string -/
def partitionStr (sep : List Char) : List Char → List Char × List Char × List Char
  | [] => ([], [], [])
  | c :: cs =>
      if sep.isPrefixOf (c :: cs) then ([], sep, (c :: cs).drop sep.length)
      else
        let r := partitionStr sep cs
        match r.2.1 with
        | [] => (c :: cs, [], [])
        | _ => (c :: r.1, r.2.1, r.2.2)

/-- `s.split(sep)` for a one-character separator: keeps empty fields, never returns `[]` -/
def splitChar (sep : Char) : List Char → List (List Char)
  | [] => [[]]
  | c :: cs =>
      if c = sep then [] :: splitChar sep cs
      else
        match splitChar sep cs with
        | [] => [[c]]
        | p :: ps => (c :: p) :: ps

/-- loop of `s.split(sep)` for a non-empty separator string; `skip` counts the characters of a
separator occurrence still to be skipped, `cur` is the current field reversed -/
def splitStrAux (sep : List Char) : List Char → Nat → List Char → List (List Char)
  | [], _, cur => [cur.reverse]
  | _ :: cs, skip + 1, cur => splitStrAux sep cs skip cur
  | c :: cs, 0, cur =>
      if sep.isPrefixOf (c :: cs) then cur.reverse :: splitStrAux sep cs (sep.length - 1) []
      else splitStrAux sep cs 0 (c :: cur)

/-- `s.split(sep)` for a non-empty separator string -/
def splitStr (sep s : List Char) : List (List Char) := splitStrAux sep s 0 []

/-- `ch.lower()` on ASCII -/
def lowerChar (c : Char) : Char :=
  match c with
  | 'A' => 'a' | 'B' => 'b' | 'C' => 'c' | 'D' => 'd' | 'E' => 'e' | 'F' => 'f' | 'G' => 'g'
  | 'H' => 'h' | 'I' => 'i' | 'J' => 'j' | 'K' => 'k' | 'L' => 'l' | 'M' => 'm' | 'N' => 'n'
  | 'O' => 'o' | 'P' => 'p' | 'Q' => 'q' | 'R' => 'r' | 'S' => 's' | 'T' => 't' | 'U' => 'u'
  | 'V' => 'v' | 'W' => 'w' | 'X' => 'x' | 'Y' => 'y' | 'Z' => 'z'
  | c => c

/-- `ch.upper()` on ASCII -/
def upperChar (c : Char) : Char :=
  match c with
  | 'a' => 'A' | 'b' => 'B' | 'c' => 'C' | 'd' => 'D' | 'e' => 'E' | 'f' => 'F' | 'g' => 'G'
  | 'h' => 'H' | 'i' => 'I' | 'j' => 'J' | 'k' => 'K' | 'l' => 'L' | 'm' => 'M' | 'n' => 'N'
  | 'o' => 'O' | 'p' => 'P' | 'q' => 'Q' | 'r' => 'R' | 's' => 'S' | 't' => 'T' | 'u' => 'U'
  | 'v' => 'V' | 'w' => 'W' | 'x' => 'X' | 'y' => 'Y' | 'z' => 'Z'
  | c => c

/-- `s.lower()` (exact on ASCII) -/
def lower (s : List Char) : List Char := s.map lowerChar

/-- `s.upper()` (exact on ASCII) -/
def upper (s : List Char) : List Char := s.map upperChar

/-- the character is written as itself inside `ascii(s)` (quotes apart): printable ASCII other
than the backslash.  Every other character becomes an escape of two or more characters. -/
def reprPlain (c : Char) : Bool := 32 ≤ c.toNat && c.toNat ≤ 126 && c != '\\'

/-- the test `len(s) + 2 == len(ascii(s))` that univers uses as "is ASCII": no character of
`s` is escaped by `ascii`.  Escaped are: non-ASCII and control characters, DEL, the backslash,
and the single quote when `s` contains both kinds of quote (`repr` then delimits with `'`). -/
def isAsciiRepr (s : List Char) : Bool :=
  s.all reprPlain && !(s.contains '\'' && s.contains '"')

/-- `ch.isdigit()` on ASCII -/
def isDigit (c : Char) : Bool := 48 ≤ c.toNat && c.toNat ≤ 57

/-- `s.isdigit()` on ASCII: non-empty and only digits -/
def allDigits (s : List Char) : Bool := !s.isEmpty && s.all isDigit

/-- `int(s)` for a string of ASCII digits -/
def natOfDigits (s : List Char) : Nat := s.foldl (fun n c => 10 * n + (c.toNat - 48)) 0

/-! ### whitespace lemmas -/

theorem splitWsAux_flatten (s cur : List Char) :
    (splitWsAux s cur).flatten = cur.reverse ++ s.filter (fun c => !isSpace c) := by
  induction s generalizing cur with
  | nil => cases cur <;> simp [splitWsAux]
  | cons c cs ih =>
    by_cases hc : isSpace c = true
    · cases cur <;> simp [splitWsAux, hc, ih]
    · simp [splitWsAux, hc, ih]

/-- `remove_spaces` deletes exactly the whitespace characters -/
theorem removeSpaces_eq_filter (s : List Char) :
    removeSpaces s = s.filter (fun c => !isSpace c) := by
  simp [removeSpaces, concat, splitWs, splitWsAux_flatten]

theorem removeSpaces_append (a b : List Char) :
    removeSpaces (a ++ b) = removeSpaces a ++ removeSpaces b := by
  simp [removeSpaces_eq_filter]

@[simp] theorem removeSpaces_nil : removeSpaces [] = [] := by simp [removeSpaces_eq_filter]

theorem removeSpaces_cons (c : Char) (s : List Char) :
    removeSpaces (c :: s) = if isSpace c then removeSpaces s else c :: removeSpaces s := by
  by_cases h : isSpace c = true <;> simp [removeSpaces_eq_filter, h]

theorem removeSpaces_idem (s : List Char) : removeSpaces (removeSpaces s) = removeSpaces s := by
  simp [removeSpaces_eq_filter]

/-- a string without whitespace is left alone -/
theorem removeSpaces_of_noSpace {s : List Char} (h : s.all (fun c => !isSpace c) = true) :
    removeSpaces s = s := by
  rw [removeSpaces_eq_filter]
  exact List.filter_eq_self.mpr (by simpa using h)

theorem noSpace_removeSpaces (s : List Char) :
    (removeSpaces s).all (fun c => !isSpace c) = true := by
  simp [removeSpaces_eq_filter]

theorem mem_removeSpaces {s : List Char} {c : Char} :
    c ∈ removeSpaces s ↔ c ∈ s ∧ isSpace c = false := by
  simp [removeSpaces_eq_filter]

theorem dropWhile_eq_nil_iff_all {α} (p : α → Bool) (l : List α) :
    l.dropWhile p = [] ↔ l.all p = true := by
  induction l with
  | nil => simp
  | cons a l ih => by_cases h : p a = true <;> simp [h, ih]

theorem dropWhile_eq_nil_of_forall {α} {p : α → Bool} {l : List α} (h : ∀ a ∈ l, p a = true) :
    l.dropWhile p = [] := (dropWhile_eq_nil_iff_all p l).mpr (List.all_eq_true.mpr h)

theorem takeWhile_eq_self_of_forall {α} {p : α → Bool} {l : List α} (h : ∀ a ∈ l, p a = true) :
    l.takeWhile p = l := by
  have := List.takeWhile_append_dropWhile (p := p) (l := l)
  rw [dropWhile_eq_nil_of_forall h, List.append_nil] at this
  exact this

/-- `not s.strip()` holds exactly when `remove_spaces(s)` is empty -/
theorem stripWs_eq_nil_iff (s : List Char) : stripWs s = [] ↔ removeSpaces s = [] := by
  rw [removeSpaces_eq_filter]
  constructor
  · intro h
    simp only [stripWs, rstripWs, lstripWs, List.reverse_eq_nil_iff] at h
    rw [dropWhile_eq_nil_iff_all] at h
    have h2 : (s.dropWhile isSpace).all isSpace = true := by simpa using h
    rw [List.filter_eq_nil_iff]
    intro c hc
    have hsplit := List.takeWhile_append_dropWhile (p := isSpace) (l := s)
    rw [← hsplit] at hc
    rcases List.mem_append.mp hc with h1 | h1
    · simpa using (List.all_eq_true.mp (List.all_takeWhile (p := isSpace) (l := s))) c h1
    · simpa using (List.all_eq_true.mp h2) c h1
  · intro h
    have hall : s.all isSpace = true := by
      rw [List.all_eq_true]; intro c hc
      have := (List.filter_eq_nil_iff.mp h) c hc
      simpa using this
    have : s.dropWhile isSpace = [] := (dropWhile_eq_nil_iff_all _ _).mpr hall
    simp [stripWs, rstripWs, lstripWs, this]

/-! ### case lemmas -/

theorem lower_append (a b : List Char) : lower (a ++ b) = lower a ++ lower b := by
  simp [lower]

@[simp] theorem lower_nil : lower [] = [] := rfl

@[simp] theorem lower_cons (c : Char) (s : List Char) : lower (c :: s) = lowerChar c :: lower s := rfl

/-- the 26 pairs (upper-case letter, lower-case letter) -/
def letterPairs : List (Char × Char) :=
  [('A', 'a'), ('B', 'b'), ('C', 'c'), ('D', 'd'), ('E', 'e'), ('F', 'f'), ('G', 'g'),
   ('H', 'h'), ('I', 'i'), ('J', 'j'), ('K', 'k'), ('L', 'l'), ('M', 'm'), ('N', 'n'),
   ('O', 'o'), ('P', 'p'), ('Q', 'q'), ('R', 'r'), ('S', 's'), ('T', 't'), ('U', 'u'),
   ('V', 'v'), ('W', 'w'), ('X', 'x'), ('Y', 'y'), ('Z', 'z')]

/-- `lowerChar` either fixes the character or maps it along one of the 26 pairs -/
theorem lowerChar_cases (c : Char) : lowerChar c = c ∨ (c, lowerChar c) ∈ letterPairs := by
  unfold lowerChar; split <;> first | (left; rfl) | (right; decide)

theorem lowerChar_idem (c : Char) : lowerChar (lowerChar c) = lowerChar c := by
  rcases lowerChar_cases c with h | h
  · rw [h, h]
  · exact (by decide : ∀ p ∈ letterPairs, lowerChar p.2 = p.2) _ h

theorem lower_idem (s : List Char) : lower (lower s) = lower s := by
  simp [lower, lowerChar_idem]

theorem isSpace_lowerChar (c : Char) : isSpace (lowerChar c) = isSpace c := by
  rcases lowerChar_cases c with h | h
  · rw [h]
  · have := (by decide +kernel : ∀ p ∈ letterPairs, isSpace p.2 = false ∧ isSpace p.1 = false) _ h
    rw [this.1, this.2]

theorem reprPlain_lowerChar (c : Char) : reprPlain (lowerChar c) = reprPlain c := by
  rcases lowerChar_cases c with h | h
  · rw [h]
  · have := (by decide +kernel : ∀ p ∈ letterPairs, reprPlain p.2 = true ∧ reprPlain p.1 = true) _ h
    rw [this.1, this.2]

/-- `lowerChar` fixes, and only maps to itself, every character that is not a letter -/
theorem lowerChar_eq_of_not_letter {c d : Char} (hd : lowerChar d = d) (hu : upperChar d = d)
    (h : lowerChar c = d) : c = d := by
  subst h
  rcases lowerChar_cases c with h | h
  · exact h.symm
  · exact absurd hu ((by decide : ∀ p ∈ letterPairs, upperChar p.2 ≠ p.2) _ h)

theorem lowerChar_eq_iff_of_not_letter {c d : Char} (hd : lowerChar d = d) (hu : upperChar d = d) :
    lowerChar c = d ↔ c = d :=
  ⟨lowerChar_eq_of_not_letter hd hu, fun h => h ▸ hd⟩

theorem removeSpaces_lower (s : List Char) : removeSpaces (lower s) = lower (removeSpaces s) := by
  induction s with
  | nil => rfl
  | cons c s ih =>
    rw [lower_cons, removeSpaces_cons, removeSpaces_cons, isSpace_lowerChar, ih]
    by_cases h : isSpace c = true <;> simp [h]

theorem contains_lower_of_not_letter {d : Char} (hd : lowerChar d = d) (hu : upperChar d = d)
    (s : List Char) : (lower s).contains d = s.contains d := by
  induction s with
  | nil => rfl
  | cons c s ih =>
    simp only [lower_cons, List.contains_cons, ih]
    congr 1
    by_cases h : c = d
    · subst h; simp [hd]
    · have : ¬ lowerChar c = d := fun h' => h (lowerChar_eq_of_not_letter hd hu h')
      have h1 : (d == lowerChar c) = false := by
        simp only [beq_eq_false_iff_ne, ne_eq]; exact fun e => this e.symm
      have h2 : (d == c) = false := by
        simp only [beq_eq_false_iff_ne, ne_eq]; exact fun e => h e.symm
      rw [h1, h2]

theorem isAsciiRepr_lower (s : List Char) : isAsciiRepr (lower s) = isAsciiRepr s := by
  unfold isAsciiRepr
  rw [contains_lower_of_not_letter (by decide) (by decide),
      contains_lower_of_not_letter (by decide) (by decide)]
  congr 1
  simp [lower, List.all_map, Function.comp_def, reprPlain_lowerChar]

/-! ### `partition` and `split` lemmas -/

/-- partition at the first separator -/
theorem partitionChar_append {sep : Char} {a : List Char} (b : List Char) (h : sep ∉ a) :
    partitionChar sep (a ++ sep :: b) = (a, [sep], b) := by
  have hall : ∀ c ∈ a, (c != sep) = true := by
    intro c hc; simp only [bne_iff_ne, ne_eq]; intro e; exact h (e ▸ hc)
  have h1 : (a ++ sep :: b).takeWhile (fun c => c != sep) = a := by
    rw [List.takeWhile_append_of_pos hall]; simp
  have h2 : (a ++ sep :: b).dropWhile (fun c => c != sep) = sep :: b := by
    rw [List.dropWhile_append_of_pos hall]; simp
  simp [partitionChar, h1, h2]

/-- without separator: `(s, "", "")` -/
theorem partitionChar_of_not_mem {sep : Char} {a : List Char} (h : sep ∉ a) :
    partitionChar sep a = (a, [], []) := by
  have hall : ∀ c ∈ a, (c != sep) = true := by
    intro c hc; simp only [bne_iff_ne, ne_eq]; intro e; exact h (e ▸ hc)
  have h1 : a.takeWhile (fun c => c != sep) = a := takeWhile_eq_self_of_forall hall
  have h2 : a.dropWhile (fun c => c != sep) = [] := dropWhile_eq_nil_of_forall hall
  simp [partitionChar, h1, h2]

theorem splitChar_ne_nil (sep : Char) (s : List Char) : splitChar sep s ≠ [] := by
  cases s with
  | nil => simp [splitChar]
  | cons c cs =>
    unfold splitChar
    by_cases h : c = sep
    · simp [h]
    · simp only [h, ↓reduceIte]; split <;> simp

theorem splitChar_of_not_mem {sep : Char} {p : List Char} (h : sep ∉ p) :
    splitChar sep p = [p] := by
  induction p with
  | nil => rfl
  | cons c cs ih =>
    have hc : c ≠ sep := fun e => h (e ▸ List.mem_cons_self)
    have hcs : sep ∉ cs := fun e => h (List.mem_cons_of_mem _ e)
    simp [splitChar, hc, ih hcs]

theorem splitChar_append {sep : Char} {p : List Char} (rest : List Char) (h : sep ∉ p) :
    splitChar sep (p ++ sep :: rest) = p :: splitChar sep rest := by
  induction p with
  | nil => simp [splitChar]
  | cons c cs ih =>
    have hc : c ≠ sep := fun e => h (e ▸ List.mem_cons_self)
    have hcs : sep ∉ cs := fun e => h (List.mem_cons_of_mem _ e)
    simp [splitChar, hc, ih hcs]

/-- `sep.join(parts).split(sep) == parts` when no part contains the separator -/
theorem splitChar_join {sep : Char} {parts : List (List Char)} (hne : parts ≠ [])
    (h : ∀ p ∈ parts, sep ∉ p) : splitChar sep (join [sep] parts) = parts := by
  induction parts with
  | nil => exact absurd rfl hne
  | cons p ps ih =>
    cases ps with
    | nil => simpa [join] using splitChar_of_not_mem (h p List.mem_cons_self)
    | cons q qs =>
      have hp := h p List.mem_cons_self
      have := ih (by simp) (fun r hr => h r (List.mem_cons_of_mem _ hr))
      simp only [join, List.append_assoc, List.singleton_append]
      rw [splitChar_append _ hp, this]

theorem mem_join {sep : List Char} {parts : List (List Char)} {c : Char}
    (h : c ∈ join sep parts) : c ∈ sep ∨ ∃ p ∈ parts, c ∈ p := by
  induction parts with
  | nil => simp [join] at h
  | cons p ps ih =>
    cases ps with
    | nil => exact .inr ⟨p, List.mem_cons_self, by simpa [join] using h⟩
    | cons q qs =>
      simp only [join, List.append_assoc, List.mem_append] at h
      rcases h with h | h | h
      · exact .inr ⟨p, List.mem_cons_self, h⟩
      · exact .inl h
      · rcases ih h with h | ⟨r, hr, hc⟩
        · exact .inl h
        · exact .inr ⟨r, List.mem_cons_of_mem _ hr, hc⟩

/-! ### `strip(chars)` lemmas -/

theorem lstripSet_of_head {chars : List Char} {c : Char} (s : List Char)
    (h : chars.contains c = false) : lstripSet chars (c :: s) = c :: s := by
  unfold lstripSet
  rw [List.dropWhile_cons]
  simp only [h, Bool.false_eq_true, ↓reduceIte]

@[simp] theorem lstripSet_nil (chars : List Char) : lstripSet chars [] = [] := rfl

/-- stripping a prefix made of characters of the set -/
theorem lstripSet_append {chars a : List Char} (s : List Char)
    (h : ∀ c ∈ a, chars.contains c = true) : lstripSet chars (a ++ s) = lstripSet chars s := by
  unfold lstripSet; exact List.dropWhile_append_of_pos h

theorem rstripSet_append {chars b : List Char} (s : List Char)
    (h : ∀ c ∈ b, chars.contains c = true) : rstripSet chars (s ++ b) = rstripSet chars s := by
  unfold rstripSet
  rw [List.reverse_append, List.dropWhile_append_of_pos (by simpa using h)]

/-- nothing to strip on the right when the last character is not in the set -/
theorem rstripSet_of_getLast {chars s : List Char} (hne : s ≠ [])
    (h : chars.contains (s.getLast hne) = false) : rstripSet chars s = s := by
  unfold rstripSet
  have hr : s.reverse ≠ [] := by simpa using hne
  obtain ⟨c, t, ht⟩ := List.exists_cons_of_ne_nil hr
  have hc : c = s.getLast hne := by
    have := List.head_reverse hr
    rw [← this]; simp [ht]
  rw [ht, List.dropWhile_cons]
  simp only [hc, h, Bool.false_eq_true, ↓reduceIte]
  rw [← hc, ← ht, List.reverse_reverse]

/-- `strip(chars)` of a string that neither starts nor ends with a character of the set -/
theorem stripSet_of_ends {chars s : List Char} (hne : s ≠ [])
    (hh : chars.contains (s.head hne) = false) (hl : chars.contains (s.getLast hne) = false) :
    stripSet chars s = s := by
  obtain ⟨c, t, rfl⟩ := List.exists_cons_of_ne_nil hne
  unfold stripSet
  rw [lstripSet_of_head _ (by simpa using hh)]
  exact rstripSet_of_getLast hne hl

/-- adding characters of the set in front and behind does not change `strip(chars)` -/
theorem stripSet_pad {chars a b : List Char} (s : List Char)
    (ha : ∀ c ∈ a, chars.contains c = true) (hb : ∀ c ∈ b, chars.contains c = true) :
    stripSet chars (a ++ s ++ b) = stripSet chars s := by
  unfold stripSet
  rw [List.append_assoc, lstripSet_append _ ha]
  by_cases hs : ∀ c ∈ s, chars.contains c = true
  · have h1 : lstripSet chars (s ++ b) = [] := by
      unfold lstripSet
      exact dropWhile_eq_nil_of_forall (fun c hc => by
        rcases List.mem_append.mp hc with h | h
        · exact hs c h
        · exact hb c h)
    have h2 : lstripSet chars s = [] := by
      unfold lstripSet; exact dropWhile_eq_nil_of_forall hs
    rw [h1, h2]
  · have h1 : lstripSet chars (s ++ b) = lstripSet chars s ++ b := by
      unfold lstripSet
      have : ∃ c ∈ s, ¬ chars.contains c = true := by
        false_or_by_contra
        rename_i hn
        exact hs (fun c hc => by
          false_or_by_contra; rename_i hcc; exact hn ⟨c, hc, hcc⟩)
      obtain ⟨c, hc, hcc⟩ := this
      clear hs
      induction s with
      | nil => cases hc
      | cons d t ih =>
        by_cases hd : chars.contains d = true
        · rw [List.cons_append, List.dropWhile_cons, List.dropWhile_cons]
          simp only [hd, ↓reduceIte]
          rcases List.mem_cons.mp hc with e | e
          · exact absurd (e ▸ hd) hcc
          · exact ih e
        · have hd' : chars.contains d = false := by simpa using hd
          rw [List.cons_append, List.dropWhile_cons, List.dropWhile_cons]
          simp only [hd', Bool.false_eq_true, ↓reduceIte, List.cons_append]
    rw [h1, rstripSet_append _ hb]

/-! ### `startswith` lemmas -/

theorem startsWith_cons_cons (c d : Char) (s pre : List Char) :
    startsWith (c :: s) (d :: pre) = (d == c && startsWith s pre) := by
  simp [startsWith, List.isPrefixOf]

@[simp] theorem startsWith_nil_right (s : List Char) : startsWith s [] = true := by
  simp [startsWith, List.isPrefixOf]

@[simp] theorem startsWith_nil_cons (d : Char) (pre : List Char) :
    startsWith [] (d :: pre) = false := by
  simp [startsWith, List.isPrefixOf]

theorem startsWith_append (pre s : List Char) : startsWith (pre ++ s) pre = true := by
  simp [startsWith]

/-! ### more `join` lemmas -/

theorem mem_join_of_mem {sep : List Char} {parts : List (List Char)} {p : List Char} {c : Char}
    (hp : p ∈ parts) (hc : c ∈ p) : c ∈ join sep parts := by
  induction parts with
  | nil => cases hp
  | cons q qs ih =>
    cases qs with
    | nil =>
      have : p = q := by simpa using hp
      subst this; simpa [join] using hc
    | cons r rs =>
      simp only [join, List.append_assoc, List.mem_append]
      rcases List.mem_cons.mp hp with e | e
      · subst e; exact .inl hc
      · exact .inr (.inr (ih e))

/-- the first character of a joined list is the first character of its first part -/
theorem join_cons_cons (sep : List Char) (x : Char) (xs : List Char) (ps : List (List Char)) :
    ∃ rest, join sep ((x :: xs) :: ps) = x :: rest := by
  cases ps with
  | nil => exact ⟨xs, rfl⟩
  | cons q qs => exact ⟨xs ++ sep ++ join sep (q :: qs), by simp [join]⟩

/-- the last character of a joined list belongs to one of the parts -/
theorem join_eq_concat {sep : List Char} {parts : List (List Char)} (hne : parts ≠ [])
    (h : ∀ p ∈ parts, p ≠ []) :
    ∃ init y, join sep parts = init ++ [y] ∧ ∃ p ∈ parts, y ∈ p := by
  induction parts with
  | nil => exact absurd rfl hne
  | cons p ps ih =>
    cases ps with
    | nil =>
      have hp := h p List.mem_cons_self
      refine ⟨p.dropLast, p.getLast hp, ?_, p, List.mem_cons_self, List.getLast_mem hp⟩
      simp [join, List.dropLast_concat_getLast]
    | cons q qs =>
      obtain ⟨init, y, he, r, hr, hy⟩ := ih (by simp) (fun r hr => h r (List.mem_cons_of_mem _ hr))
      refine ⟨p ++ sep ++ init, y, ?_, r, List.mem_cons_of_mem _ hr, hy⟩
      simp only [join, he, List.append_assoc]

/-! ### more lemmas on the ASCII test -/

theorem isAsciiRepr_iff (s : List Char) :
    isAsciiRepr s = true ↔ (∀ c ∈ s, reprPlain c = true) ∧ ¬ ('\'' ∈ s ∧ '"' ∈ s) := by
  simp only [isAsciiRepr, Bool.and_eq_true, List.all_eq_true, Bool.not_eq_true',
    Bool.and_eq_false_iff, List.contains_eq_mem, decide_eq_false_iff_not]
  constructor
  · rintro ⟨h1, h2⟩
    exact ⟨h1, fun ⟨a, b⟩ => h2.elim (fun h => h a) (fun h => h b)⟩
  · rintro ⟨h1, h2⟩
    refine ⟨h1, ?_⟩
    by_cases a : '\'' ∈ s
    · exact .inr (fun b => h2 ⟨a, b⟩)
    · exact .inl a

/-- the ASCII test passes on every text made of characters of a text that passes -/
theorem isAsciiRepr_of_subset {a b : List Char} (h : ∀ c ∈ a, c ∈ b)
    (hb : isAsciiRepr b = true) : isAsciiRepr a = true := by
  rw [isAsciiRepr_iff] at hb ⊢
  exact ⟨fun c hc => hb.1 c (h c hc), fun ⟨h1, h2⟩ => hb.2 ⟨h _ h1, h _ h2⟩⟩

/-- the ASCII test only depends on the set of characters -/
theorem isAsciiRepr_congr {a b : List Char} (h : ∀ c, c ∈ a ↔ c ∈ b) :
    isAsciiRepr a = isAsciiRepr b := by
  cases ha : isAsciiRepr a <;> cases hb : isAsciiRepr b <;> try rfl
  · rw [isAsciiRepr_of_subset (fun c hc => (h c).mp hc) hb] at ha; cases ha
  · rw [isAsciiRepr_of_subset (fun c hc => (h c).mpr hc) ha] at hb; cases hb

/-- the ASCII test depends only on "all characters plain" and on which quotes occur -/
theorem isAsciiRepr_eq_of {a b : List Char}
    (h1 : (∀ c ∈ a, reprPlain c = true) ↔ (∀ c ∈ b, reprPlain c = true))
    (h2 : '\'' ∈ a ↔ '\'' ∈ b) (h3 : '"' ∈ a ↔ '"' ∈ b) : isAsciiRepr a = isAsciiRepr b := by
  rw [Bool.eq_iff_iff, isAsciiRepr_iff, isAsciiRepr_iff, h1, h2, h3]

theorem mem_lower_of_not_letter {d : Char} (hd : lowerChar d = d) (hu : upperChar d = d)
    (s : List Char) : d ∈ lower s ↔ d ∈ s := by
  have := contains_lower_of_not_letter hd hu s
  simp only [List.contains_eq_mem, decide_eq_decide] at this
  exact this

theorem all_reprPlain_lower (s : List Char) :
    (∀ c ∈ lower s, reprPlain c = true) ↔ (∀ c ∈ s, reprPlain c = true) := by
  simp only [lower, List.mem_map, forall_exists_index, and_imp, forall_apply_eq_imp_iff₂,
    reprPlain_lowerChar]

/-- lower-casing a piece of the text does not change the ASCII test -/
theorem isAsciiRepr_lower_mid (x a y : List Char) :
    isAsciiRepr (x ++ lower a ++ y) = isAsciiRepr (x ++ a ++ y) := by
  have hq1 := mem_lower_of_not_letter (d := '\'') (by decide) (by decide) a
  have hq2 := mem_lower_of_not_letter (d := '"') (by decide) (by decide) a
  have hall := all_reprPlain_lower a
  apply isAsciiRepr_eq_of
  · simp only [List.mem_append, or_imp, forall_and, hall]
  · simp only [List.mem_append, hq1]
  · simp only [List.mem_append, hq2]

/-- adding plain characters that are not quotes does not change the ASCII test -/
theorem isAsciiRepr_pad {x a y : List Char} (p q : List Char)
    (hp : ∀ c ∈ p, reprPlain c = true ∧ c ≠ '\'' ∧ c ≠ '"')
    (hq : ∀ c ∈ q, reprPlain c = true ∧ c ≠ '\'' ∧ c ≠ '"') :
    isAsciiRepr (x ++ (p ++ a ++ q) ++ y) = isAsciiRepr (x ++ a ++ y) := by
  have np1 : '\'' ∉ p := fun h => (hp _ h).2.1 rfl
  have np2 : '"' ∉ p := fun h => (hp _ h).2.2 rfl
  have nq1 : '\'' ∉ q := fun h => (hq _ h).2.1 rfl
  have nq2 : '"' ∉ q := fun h => (hq _ h).2.2 rfl
  apply isAsciiRepr_eq_of
  · constructor
    · intro h c hc
      apply h c
      simp only [List.mem_append] at hc ⊢
      rcases hc with (hc | hc) | hc
      · exact .inl (.inl hc)
      · exact .inl (.inr (.inl (.inr hc)))
      · exact .inr hc
    · intro h c hc
      simp only [List.mem_append] at hc
      rcases hc with (hc | ((hc | hc) | hc)) | hc
      · exact h c (by simp [hc])
      · exact (hp c hc).1
      · exact h c (by simp [hc])
      · exact (hq c hc).1
      · exact h c (by simp [hc])
  · simp only [List.mem_append, np1, nq1, false_or, or_false]
  · simp only [List.mem_append, np2, nq2, false_or, or_false]

end Univers.Text.Str
