/-
Run-time support for the TEXT functions that `harness/translate_text.py` GENERATES from the Python source
(`Univers/Gen/PyText*.lean`): what the translated statements mean for a constraint held as text.  The string
methods themselves are `Text/Str.lean`; the loops are `Vers/PyRt.lean`.
-/
import Univers.Vers.PyRt
import Univers.Text.Vers

namespace Univers.Text.PyText
open Univers Univers.Text Univers.Text.Str Univers.Text.Vers

/-- `constraint.comparator` -/
def tconComparator : TCon → List Char
  | .star => ['*']
  | .mk c _ => c.text.toList

/-- `constraint.version` (the text the version prints as; `None` for the star) -/
def tconVersion : TCon → Option (List Char)
  | .star => none
  | .mk _ v => some v

/-- `str(x)` for a version or `None` -/
def strOfOpt : Option (List Char) → List Char
  | none => ['N', 'o', 'n', 'e']
  | some v => v

/-- `comparator in COMPARATORS` -/
def inComparators (k : List Char) : Bool := (lookupComparator k).isSome

/-- `cls(comparator=c, version=v, version_class=…)`: `__attrs_post_init__` looks the comparator text up in
`COMPARATORS` and refuses an unknown one with a ValueError; a star constraint keeps no version -/
def mkTCon (c : List Char) (v : Option (List Char)) : Except TErr TCon :=
  match lookupComparator c, v with
  | none, _ => .error .ValueError
  | some none, _ => .ok .star
  | some (some k), some t => .ok (.mk k t)
  | some (some _), none => .error .ValueError

/-- truth value of a string or `None` -/
def truthyOpt : Option (List Char) → Bool
  | none => false
  | some s => !s.isEmpty

/-- `range_class.version_class` (the name of the version class of a registered range class; every registered class
has one: `registry_versionClass` in `Text/VersThm.lean`) -/
def versionClassOfE (cls : String) : Except TErr String :=
  match versionClassOf cls with
  | some vc => .ok vc
  | none => .error (.other "NoVersionClass")

/-- `RANGE_CLASS_BY_SCHEMES[scheme]`: the name of the registered range class, `KeyError` for an unknown scheme -/
def registryIndex (scheme : List Char) : Except TErr String :=
  match registryL.lookup scheme with
  | some cls => .ok cls
  | none => .error .KeyError

/-- `VersionConstraint(comparator=c, version=v)` where `c` comes out of a `{native: vers}` dict and may be `None`
(not a key of `COMPARATORS`: ValueError) and `v` is a version object, held as its text -/
def mkTConOpt (c : Option (List Char)) (v : List Char) : Except TErr TCon :=
  match c with
  | none => .error .ValueError
  | some t => mkTCon t (some v)

/-- `any(c in s for c in chars)` -/
def anyCharIn (chars s : List Char) : Bool := chars.any (fun c => s.contains c)

/-- `s.replace(c, "")` for a one-character `c` -/
def removeChar (c : Char) (s : List Char) : List Char := s.filter (fun d => d != c)

end Univers.Text.PyText
