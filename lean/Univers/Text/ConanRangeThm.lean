/-
Text layer — THEOREMS about the Conan range converter
(model `ConanRange.lean`, spec `ConanRangeSpec.lean`).
-/
import Univers.Text.ConanRangeSpec
import Univers.Scheme.Conan

namespace Univers.Text.ConanRange

open Univers Univers.Text

/-! ### declared errors (C16) -/

section errors
variable {V : Type} (o : ConanOps V)

/-- an error of the version interface: raised by `ConanVersion(text)`, or by `upper_bound` on a
constructed version at one of the two indices the converter uses -/
def OpsError (e : TErr) : Prop :=
  (∃ t, o.make t = .error e) ∨
  (∃ t v, o.make t = .ok v ∧
    (o.upperBound v (tildeIndex o v) = .error e ∨ o.upperBound v (o.firstNonZero v) = .error e))

theorem splitOperator_error {e : List Char} {err : TErr} (h : splitOperator e = .error err) :
    e = [] := by
  unfold splitOperator at h
  split at h
  · rfl
  · repeat' split at h
    all_goals cases h

theorem parseExpression_error {e : List Char} {err : TErr} (h : parseExpression o e = .error err) :
    err = errConan ∨ OpsError o err := by
  unfold parseExpression at h
  split at h
  · split at h
    · rename_i e' hm; cases h; exact .inr (.inl ⟨_, hm⟩)
    · cases h
  · rename_i hne
    split at h
    · rename_i e' hs
      exact absurd (.inl (splitOperator_error hs)) hne
    · split at h
      · cases h; exact .inl rfl
      · split at h
        · rename_i e' hm; cases h; exact .inr (.inl ⟨_, hm⟩)
        · rename_i x hm
          split at h
          · split at h
            · rename_i e' hu; cases h; exact .inr (.inr ⟨_, x, hm, .inl hu⟩)
            · cases h
          · split at h
            · rename_i e' hu; cases h; exact .inr (.inr ⟨_, x, hm, .inr hu⟩)
            · cases h
          all_goals cases h

theorem condLoop_error (es : List (List Char)) (pre : Bool) {err : TErr}
    (h : condLoop o es pre = .error err) : err = errConan ∨ OpsError o err := by
  induction es generalizing pre with
  | nil => cases h
  | cons e es ih =>
    unfold condLoop at h
    simp only at h
    split at h
    · rename_i e' hp
      cases h
      exact parseExpression_error o hp
    · split at h
      · rename_i e' hl; cases h; exact ih _ hl
      · cases h

theorem condSets_error (pre : Bool) (as : List (List Char)) {err : TErr}
    (h : condSets o pre as = .error err) : err = errConan ∨ OpsError o err := by
  induction as with
  | nil => cases h
  | cons a as ih =>
    unfold condSets at h
    split at h
    · rename_i e' hc; cases h; exact condLoop_error o _ _ hc
    · split at h
      · rename_i e' hl; cases h; exact ih hl
      · cases h

theorem splitOn_ne_nil (sep : Char) (s : List Char) : splitOn sep s ≠ [] := by
  cases s with
  | nil => simp [splitOn]
  | cons c cs =>
    unfold splitOn
    split
    · simp
    · split <;> simp

theorem versionRange_error {s : List Char} {err : TErr} (h : versionRange o s = .error err) :
    err = errConan ∨ OpsError o err := by
  unfold versionRange at h
  split at h
  · rename_i hs; exact absurd hs (splitOn_ne_nil _ _)
  · exact condSets_error o _ _ h

theorem toCons_error (cs : List Cond) {err : TErr} (h : toCons o cs = .error err) :
    ∃ t, o.make t = .error err := by
  induction cs with
  | nil => cases h
  | cons c cs ih =>
    obtain ⟨c, t⟩ := c
    unfold toCons at h
    split at h
    · rename_i e' hm; cases h; exact ⟨_, hm⟩
    · split at h
      · rename_i e' hl; cases h; exact ih hl
      · cases h

/-- **C16 for the Conan converter**: whatever the text, `from_native` returns, or raises
`ConanException` (the library's declared error for this converter), or an error of the version
interface.  No `IndexError` escapes from `_parse_expression` any more (`expression[1:2]`). -/
theorem conan_declared (t : List Char) :
    (∃ cs, fromNative o t = .ok cs) ∨ fromNative o t = .error errConan ∨
      ∃ err, fromNative o t = .error err ∧ OpsError o err := by
  cases h : fromNative o t with
  | ok cs => exact .inl ⟨cs, rfl⟩
  | error err =>
    unfold fromNative at h
    split at h
    · rename_i e' hv
      cases h
      rcases versionRange_error o hv with rfl | h'
      · exact .inr (.inl rfl)
      · exact .inr (.inr ⟨_, rfl, h'⟩)
    · exact .inr (.inr ⟨_, rfl, .inl (toCons_error o _ h)⟩)

/-- `from_native` of `>`, `<`, `>=`, `=`, `~`, `^` (an operator without version) →
`ConanException`, whatever the version class does -/
theorem conan_exception_examples :
    fromNative o ['>'] = .error errConan ∧ fromNative o ['<'] = .error errConan ∧
    fromNative o ['>', '='] = .error errConan ∧ fromNative o ['='] = .error errConan ∧
    fromNative o ['~'] = .error errConan ∧ fromNative o ['^'] = .error errConan ∧
    declared errConan = true :=
  ⟨rfl, rfl, rfl, rfl, rfl, rfl, rfl⟩

end errors

/-! ### exactness of one condition (C06 conan part) -/

section exact
variable {V : Type} (o : ConanOps V)

theorem safeV_cons {v : List Char} (h : safeV v = true) : ∃ d rest, v = d :: rest := by
  cases v with
  | nil => simp [safeV] at h
  | cons d rest => exact ⟨d, rest, rfl⟩

theorem splitOperator_gt {d : Char} (rest : List Char) (hd : d ≠ '=') :
    splitOperator ('>' :: d :: rest) = .ok (.gt, d :: rest) := by
  simp only [splitOperator, true_or, if_true]
  split
  · rename_i h; cases h; exact absurd rfl hd
  · rfl

theorem splitOperator_lt {d : Char} (rest : List Char) (hd : d ≠ '=') :
    splitOperator ('<' :: d :: rest) = .ok (.lt, d :: rest) := by
  simp only [splitOperator, or_true, if_true]
  split
  · rename_i h; cases h; exact absurd rfl hd
  · rfl

/-- `_parse_expression` on any spelling of a condition yields what the condition states -/
theorem parseExpression_spelled {e : Expr} {t : List Char} (hs : Expr.Spelled e t)
    (hsafe : e.safe = true) : parseExpression o t = e.conds o := by
  cases hs with
  | gt v hv =>
    simp only [Expr.safe, Bool.and_eq_true] at hsafe
    obtain ⟨d, rest, rfl⟩ := safeV_cons hsafe.1
    have hd : d ≠ '=' := by
      intro e; subst e; simp [afterAngleOk] at hv
    simp only [parseExpression, splitOperator_gt rest hd, Expr.conds]
    simp
    cases o.make (d :: rest) <;> rfl
  | lt v hv =>
    simp only [Expr.safe, Bool.and_eq_true] at hsafe
    obtain ⟨d, rest, rfl⟩ := safeV_cons hsafe.1
    have hd : d ≠ '=' := by
      intro e; subst e; simp [afterAngleOk] at hv
    simp only [parseExpression, splitOperator_lt rest hd, Expr.conds]
    simp
    cases o.make (d :: rest) <;> rfl
  | ge v =>
    simp only [Expr.safe, Bool.and_eq_true] at hsafe
    obtain ⟨d, rest, rfl⟩ := safeV_cons hsafe.1
    simp only [parseExpression, splitOperator, Expr.conds]
    simp
    cases o.make (d :: rest) <;> rfl
  | le v =>
    simp only [Expr.safe, Bool.and_eq_true] at hsafe
    obtain ⟨d, rest, rfl⟩ := safeV_cons hsafe.1
    simp only [parseExpression, splitOperator, Expr.conds]
    simp
    cases o.make (d :: rest) <;> rfl
  | eq v =>
    simp only [Expr.safe, Bool.and_eq_true] at hsafe
    obtain ⟨d, rest, rfl⟩ := safeV_cons hsafe.1
    simp only [parseExpression, splitOperator, Expr.conds]
    simp
    cases o.make (d :: rest) <;> rfl
  | bare v hb =>
    simp only [Expr.safe, Bool.and_eq_true] at hsafe
    obtain ⟨d, rest, rfl⟩ := safeV_cons hsafe.1
    simp only [bareOk, Bool.and_eq_true, Bool.not_eq_true', Bool.or_eq_false_iff, beq_eq_false_iff_ne,
      bne_iff_ne, ne_eq] at hb
    obtain ⟨⟨⟨⟨⟨h1, h2⟩, h3⟩, h4⟩, h5⟩, h6⟩ := hb
    simp only [parseExpression, splitOperator, Expr.conds, h1, h2, h3, h4, h5, h6]
    simp
    cases o.make (d :: rest) <;> rfl
  | tilde v =>
    simp only [Expr.safe] at hsafe
    obtain ⟨d, rest, rfl⟩ := safeV_cons hsafe
    simp only [parseExpression, splitOperator, Expr.conds]
    simp
    cases o.make (d :: rest) <;> rfl
  | caret v =>
    simp only [Expr.safe] at hsafe
    obtain ⟨d, rest, rfl⟩ := safeV_cons hsafe
    simp only [parseExpression, splitOperator, Expr.conds]
    simp
    cases o.make (d :: rest) <;> rfl
  | star => rfl
  | empty => rfl

end exact


/-! ### string lemmas -/

theorem splitOn_of_not_mem {sep : Char} {s : List Char} (h : sep ∉ s) : splitOn sep s = [s] := by
  induction s with
  | nil => rfl
  | cons c cs ih =>
    have hc : c ≠ sep := fun e => h (by simp [e])
    have hcs : sep ∉ cs := fun e => h (by simp [e])
    simp [splitOn, hc, ih hcs]

theorem splitOn_append_sep {sep : Char} {a : List Char} (b : List Char) (ha : sep ∉ a) :
    splitOn sep (a ++ sep :: b) = a :: splitOn sep b := by
  induction a with
  | nil => simp [splitOn]
  | cons c cs ih =>
    have hc : c ≠ sep := fun e => ha (by simp [e])
    have hcs : sep ∉ cs := fun e => ha (by simp [e])
    simp [splitOn, hc, ih hcs]

theorem splitBars_cons_ne {c : Char} (rest : List Char) (hc : c ≠ '|') :
    splitBars (c :: rest) =
      match splitBars rest with
      | [] => [[c]]
      | p :: ps => (c :: p) :: ps := by
  rw [splitBars]
  · rfl
  · intro r h; exact absurd h hc

theorem splitBars_ne_nil (s : List Char) : splitBars s ≠ [] := by
  fun_cases splitBars s <;> simp_all

theorem splitBars_of_not_mem {s : List Char} (h : '|' ∉ s) : splitBars s = [s] := by
  induction s with
  | nil => rfl
  | cons c cs ih =>
    have hc : c ≠ '|' := fun e => h (by simp [e])
    have hcs : '|' ∉ cs := fun e => h (by simp [e])
    rw [splitBars_cons_ne cs hc, ih hcs]

theorem splitBars_append_bars {a : List Char} (b : List Char) (ha : '|' ∉ a) :
    splitBars (a ++ '|' :: '|' :: b) = a :: splitBars b := by
  induction a with
  | nil => simp [splitBars]
  | cons c cs ih =>
    have hc : c ≠ '|' := fun e => ha (by simp [e])
    have hcs : '|' ∉ cs := fun e => ha (by simp [e])
    rw [List.cons_append, splitBars_cons_ne _ hc, ih hcs]

theorem splitWsAux_field {f : List Char} (s cur : List Char)
    (hf : ∀ c ∈ f, isPySpace c = false) : splitWsAux (f ++ s) cur = splitWsAux s (cur ++ f) := by
  induction f generalizing cur with
  | nil => simp
  | cons c cs ih =>
    have hc := hf c (by simp)
    rw [List.cons_append, splitWsAux, hc]
    simp only [Bool.false_eq_true, if_false]
    rw [ih _ (fun x hx => hf x (by simp [hx]))]
    simp

theorem splitWsAux_ws {w : List Char} (s : List Char) (hw : allWs w = true) :
    splitWsAux (w ++ s) [] = splitWsAux s [] := by
  induction w with
  | nil => rfl
  | cons c cs ih =>
    simp only [allWs, List.all_cons, Bool.and_eq_true] at hw
    rw [List.cons_append, splitWsAux, hw.1]
    simp only [if_true, List.isEmpty_nil]
    exact ih hw.2

/-- a non-empty field followed by whitespace and more text -/
theorem splitWsAux_field_ws {f w : List Char} (s : List Char) (hf : ∀ c ∈ f, isPySpace c = false)
    (hne : f ≠ []) (hw : allWs w = true) (hwne : w ≠ []) :
    splitWsAux (f ++ w ++ s) [] = f :: splitWsAux s [] := by
  rw [List.append_assoc, splitWsAux_field _ _ hf, List.nil_append]
  cases w with
  | nil => exact absurd rfl hwne
  | cons c cs =>
    simp only [allWs, List.all_cons, Bool.and_eq_true] at hw
    rw [List.cons_append, splitWsAux, hw.1]
    have : f.isEmpty = false := by cases f <;> simp_all
    simp only [if_true, this, Bool.false_eq_true, if_false]
    rw [splitWsAux_ws s hw.2]

theorem splitWsAux_field_end {f w : List Char} (hf : ∀ c ∈ f, isPySpace c = false)
    (hne : f ≠ []) (hw : allWs w = true) : splitWsAux (f ++ w) [] = [f] := by
  rw [splitWsAux_field _ _ hf, List.nil_append]
  have hfe : f.isEmpty = false := by cases f <;> simp_all
  cases w with
  | nil => simp [splitWsAux, hfe]
  | cons c cs =>
    simp only [allWs, List.all_cons, Bool.and_eq_true] at hw
    rw [splitWsAux, hw.1]
    simp only [if_true, hfe, Bool.false_eq_true, if_false]
    have := splitWsAux_ws [] hw.2
    rw [List.append_nil] at this
    rw [this]; rfl


/-! ### exactness of whole ranges -/

/-- a character of a field: no whitespace, comma or bar -/
def fieldChar (c : Char) : Bool := !isPySpace c && c != ',' && c != '|'

theorem safeV_fieldChar {v : List Char} (h : safeV v = true) : ∀ c ∈ v, fieldChar c = true := by
  simp only [safeV, Bool.and_eq_true, List.all_eq_true] at h
  intro c hc
  simpa [fieldChar] using h.2 c hc

theorem fieldChar_cons {c0 : Char} {v : List Char} (h0 : fieldChar c0 = true)
    (hv : ∀ c ∈ v, fieldChar c = true) : ∀ c ∈ c0 :: v, fieldChar c = true := by
  intro c hc
  rcases List.mem_cons.mp hc with rfl | hc
  · exact h0
  · exact hv c hc

theorem spelled_fieldChar {e : Expr} {t : List Char} (hs : Expr.Spelled e t)
    (hsafe : e.safe = true) : ∀ c ∈ t, fieldChar c = true := by
  cases hs with
  | gt v _ =>
    simp only [Expr.safe, Bool.and_eq_true] at hsafe
    exact fieldChar_cons (by decide) (safeV_fieldChar hsafe.1)
  | lt v _ =>
    simp only [Expr.safe, Bool.and_eq_true] at hsafe
    exact fieldChar_cons (by decide) (safeV_fieldChar hsafe.1)
  | ge v =>
    simp only [Expr.safe, Bool.and_eq_true] at hsafe
    exact fieldChar_cons (by decide) (fieldChar_cons (by decide) (safeV_fieldChar hsafe.1))
  | le v =>
    simp only [Expr.safe, Bool.and_eq_true] at hsafe
    exact fieldChar_cons (by decide) (fieldChar_cons (by decide) (safeV_fieldChar hsafe.1))
  | eq v =>
    simp only [Expr.safe, Bool.and_eq_true] at hsafe
    exact fieldChar_cons (by decide) (safeV_fieldChar hsafe.1)
  | bare v _ =>
    simp only [Expr.safe, Bool.and_eq_true] at hsafe
    exact safeV_fieldChar hsafe.1
  | tilde v => exact fieldChar_cons (by decide) (safeV_fieldChar hsafe)
  | caret v => exact fieldChar_cons (by decide) (safeV_fieldChar hsafe)
  | star => exact fieldChar_cons (by decide) (fun c hc => absurd hc (by simp))
  | empty => exact fun c hc => absurd hc (by simp)

theorem field_fieldChar {i : Item} {f : List Char} (hf : i.Field f) (hsafe : i.e.safe = true) :
    ∀ c ∈ f, fieldChar c = true := by
  obtain ⟨t, hs, _, rfl, _⟩ := hf
  intro c hc
  have := spelled_fieldChar hs hsafe
  cases hm : i.marked
  · rw [hm] at hc
    exact this c hc
  · rw [hm] at hc
    simp only [if_true, List.mem_append, List.mem_cons, List.mem_nil_iff, or_false] at hc
    rcases hc with hc | rfl
    · exact this c hc
    · decide

/-- the fields of the items of an alternative, in order -/
inductive Fields : List Item → List (List Char) → Prop where
  | nil : Fields [] []
  | cons {i : Item} {f : List Char} {is : List Item} {fs : List (List Char)} :
      i.Field f → Fields is fs → Fields (i :: is) (f :: fs)

theorem fieldChar_spec {c : Char} (h : fieldChar c = true) :
    isPySpace c = false ∧ c ≠ ',' ∧ c ≠ '|' := by
  simp [fieldChar] at h
  exact ⟨h.1.1, h.1.2, h.2⟩

theorem ws_spec {c : Char} (h : isPySpace c = true) : c ≠ ',' ∧ c ≠ '|' := by
  constructor <;> (intro e; subst e; revert h; decide)

/-- one iteration of `_ConditionSet.__init__` on the field of an item -/
theorem condLoop_field {V : Type} (o : ConanOps V) {i : Item} {f : List Char} (hf : i.Field f)
    (hsafe : i.e.safe = true) (fs : List (List Char)) (pre : Bool) :
    condLoop o (f :: fs) pre =
      match i.e.conds o with
      | .error err => .error err
      | .ok cs =>
        match condLoop o fs (i.marked || pre) with
        | .error err => .error err
        | .ok s => .ok ⟨s.prerelease, cs ++ s.conds⟩ := by
  obtain ⟨t, hs, hlast, rfl, _⟩ := hf
  have hp := parseExpression_spelled o hs hsafe
  cases hm : i.marked
  · have h1 : (t.getLast? == some '-') = false := by
      cases h : t.getLast? == some '-'
      · rfl
      · exact absurd (by simpa using h) hlast
    simp only [Bool.false_eq_true, if_false, condLoop, h1, hp, Bool.false_or]
    rfl
  · have h1 : ((t ++ ['-']).getLast? == some '-') = true := by simp
    simp only [if_true, condLoop, h1, List.dropLast_concat, hp, Bool.true_or]
    rfl

theorem condLoop_items {V : Type} (o : ConanOps V) {is : List Item} {fs : List (List Char)}
    (h : Fields is fs) (hsafe : ∀ i ∈ is, i.e.safe = true) (pre : Bool) :
    condLoop o fs pre = altMeaning o is pre := by
  induction h generalizing pre with
  | nil => rfl
  | cons hf _ ih =>
    rw [condLoop_field o hf (hsafe _ List.mem_cons_self), altMeaning,
      ih (fun i hi => hsafe i (List.mem_cons_of_mem _ hi))]
    rfl

/-- `expression.split()` recovers the fields of a spelled alternative -/
theorem splitWs_items {is : List Item} {t : List Char} (h : ItemsSpelled is t)
    (hsafe : ∀ i ∈ is, i.e.safe = true) :
    ∃ fs, Fields is fs ∧
      (∀ w, allWs w = true → splitWsAux (w ++ t) [] = fs) ∧
      (∀ c ∈ t, c ≠ ',' ∧ c ≠ '|') := by
  induction h with
  | nil => exact ⟨[], .nil, fun w hw => by rw [splitWsAux_ws [] hw]; rfl, fun c hc => absurd hc (by simp)⟩
  | last i f hf hw =>
    have hfc := field_fieldChar hf (hsafe i (by simp))
    have hfs : ∀ c ∈ f, isPySpace c = false := fun c hc => (fieldChar_spec (hfc c hc)).1
    refine ⟨[f], .cons hf .nil, fun w hw' => ?_, fun c hc => ?_⟩
    · rw [splitWsAux_ws _ hw', splitWsAux_field_end hfs hf.choose_spec.2.2.2 hw]
    · rcases List.mem_append.mp hc with hc | hc
      · exact (fieldChar_spec (hfc c hc)).2
      · exact ws_spec (List.all_eq_true.mp hw c hc)
  | cons i f is t hf hw hwne _ ih =>
    obtain ⟨fs, hfs2, hsplit, hchars⟩ := ih (fun j hj => hsafe j (List.mem_cons_of_mem _ hj))
    have hfc := field_fieldChar hf (hsafe i (by simp))
    have hfs : ∀ c ∈ f, isPySpace c = false := fun c hc => (fieldChar_spec (hfc c hc)).1
    refine ⟨f :: fs, .cons hf hfs2, fun w hw' => ?_, fun c hc => ?_⟩
    · rw [splitWsAux_ws _ hw', splitWsAux_field_ws t hfs hf.choose_spec.2.2.2 hw hwne]
      congr 1
      exact hsplit [] rfl
    · rcases List.mem_append.mp hc with hc | hc
      · rcases List.mem_append.mp hc with hc | hc
        · exact (fieldChar_spec (hfc c hc)).2
        · exact ws_spec (List.all_eq_true.mp hw c hc)
      · exact hchars c hc

def Alt.safe (a : Alt) : Bool := a.items.all (fun i => i.e.safe)

theorem conditionSet_alt {V : Type} (o : ConanOps V) {a : Alt} {t : List Char}
    (h : a.Spelled t) (hsafe : a.safe = true) (pre : Bool) :
    conditionSet o t pre = altMeaning o a.items pre ∧ (∀ c ∈ t, c ≠ ',' ∧ c ≠ '|') := by
  obtain ⟨t', hit, hlead, rfl⟩ := h
  have hs : ∀ i ∈ a.items, i.e.safe = true := by
    simpa [Alt.safe, List.all_eq_true] using hsafe
  obtain ⟨fs, hf, hsplit, hchars⟩ := splitWs_items hit hs
  refine ⟨?_, fun c hc => ?_⟩
  · unfold conditionSet splitWs
    rw [hsplit _ hlead]
    exact condLoop_items o hf hs pre
  · rcases List.mem_append.mp hc with hc | hc
    · exact ws_spec (List.all_eq_true.mp hlead c hc)
    · exact hchars c hc

theorem condSets_alts {V : Type} (o : ConanOps V) {as : List Alt} {t : List Char}
    (h : AltsSpelled as t) (hsafe : ∀ a ∈ as, a.safe = true) (pre : Bool) :
    condSets o pre (splitBars t) = rangeMeaning o pre as ∧ ',' ∉ t := by
  induction h with
  | one a t ha =>
    obtain ⟨hc, hchars⟩ := conditionSet_alt o ha (hsafe a (by simp)) pre
    refine ⟨?_, fun hm => (hchars _ hm).1 rfl⟩
    rw [splitBars_of_not_mem (fun hm => (hchars _ hm).2 rfl)]
    simp only [condSets, hc, rangeMeaning]
    cases altMeaning o a.items pre <;> rfl
  | cons a t as ts ha _ ih =>
    obtain ⟨hc, hchars⟩ := conditionSet_alt o ha (hsafe a (by simp)) pre
    obtain ⟨ih1, ih2⟩ := ih (fun b hb => hsafe b (List.mem_cons_of_mem _ hb))
    refine ⟨?_, fun hm => ?_⟩
    · rw [splitBars_append_bars _ (fun hm => (hchars _ hm).2 rfl)]
      simp only [condSets, hc, ih1, rangeMeaning]
      rfl
    · rcases List.mem_append.mp hm with hm | hm
      · exact (hchars _ hm).1 rfl
      · simp only [List.mem_cons] at hm
        rcases hm with hm | hm | hm
        · cases hm
        · cases hm
        · exact ih2 hm

/-- **Exactness of the Conan converter on whole ranges** (C06 conan part): for alternatives `as`
of safe conditions, written with any whitespace layout, joined by `||`, optionally followed by
`,options`: `VersionRange(t).condition_sets` is what the range states (`rangeMeaning`: per
alternative the conditions of its items in order; pre-releases admitted by an option containing
`include_prerelease` or by a `-` marker) — errors of the version interface included, in order. -/
theorem conan_range_exact {V : Type} (o : ConanOps V) (as : List Alt) (opts : Option (List Char))
    (t : List Char) (h : RangeSpelled as opts t) (hsafe : ∀ a ∈ as, a.safe = true) :
    versionRange o t = rangeMeaning o (optionsPre opts) as := by
  obtain ⟨t', hal, rfl⟩ := h
  have key := fun pre => condSets_alts o hal hsafe pre
  have hnc := (key false).2
  unfold versionRange
  cases opts with
  | none =>
    simp only [optionsText, List.append_nil, splitOn_of_not_mem hnc, optionsPre, List.any_nil]
    exact (key false).1
  | some r =>
    simp only [optionsText, splitOn_append_sep r hnc, optionsPre]
    exact (key _).1

/-- the constraints of `from_native`: one `cls.version_class(str(version))` per condition -/
theorem conan_native_exact {V : Type} (o : ConanOps V) (as : List Alt) (opts : Option (List Char))
    (t : List Char) (h : RangeSpelled as opts t) (hsafe : ∀ a ∈ as, a.safe = true) :
    fromNative o t =
      match rangeMeaning o (optionsPre opts) as with
      | .error err => .error err
      | .ok sets => toCons o (sets.flatMap (·.conds)) := by
  unfold fromNative
  rw [conan_range_exact o as opts t h hsafe]
  rfl


/-! ### single conditions: the named theorems, generic in the version interface -/

section named
variable {V : Type} (o : ConanOps V)

/-- a range that is one condition `e`, written `t` (no marker) -/
theorem conan_single (e : Expr) (t : List Char) (hs : Expr.Spelled e t) (hsafe : e.safe = true)
    (hne : t ≠ []) (hlast : t.getLast? ≠ some '-') :
    fromNative o t =
      match e.conds o with
      | .error err => .error err
      | .ok cs => toCons o cs := by
  have hr : RangeSpelled [⟨[], [⟨e, false, []⟩]⟩] none t := by
    refine ⟨t, .one _ _ ⟨t, ?_, rfl, rfl⟩, by simp [optionsText]⟩
    have := ItemsSpelled.last ⟨e, false, []⟩ t ⟨t, hs, hlast, rfl, hne⟩ rfl
    simpa using this
  rw [conan_native_exact o _ none t hr (by simp [Alt.safe, hsafe])]
  simp only [rangeMeaning, altMeaning, optionsPre]
  cases e.conds o with
  | error err => rfl
  | ok cs => simp

theorem getLast?_cons_of_ne_nil {c : Char} {v : List Char} (h : v ≠ []) :
    (c :: v).getLast? = v.getLast? := by
  cases v with
  | nil => exact absurd rfl h
  | cons d r => simp [List.getLast?_cons_cons]

/-- **`~v`**: `>= v` and `< v.upper_bound(1 if len(v.main) > 1 else 0)` -/
theorem conan_tilde_exact (v : List Char) (hv : safeV v = true) (hlast : v.getLast? ≠ some '-')
    (x : V) (hx : o.make v = .ok x) (u : List Char) (hu : o.upperBound x (tildeIndex o x) = .ok u) :
    fromNative o ('~' :: v) = toCons o [(.ge, o.str x), (.lt, u)] := by
  obtain ⟨d, r, rfl⟩ := safeV_cons hv
  rw [conan_single o (.tilde (d :: r)) _ (.tilde _) hv (by simp)
    (by rw [getLast?_cons_of_ne_nil (by simp)]; exact hlast)]
  simp [Expr.conds, hx, hu]

/-- **`^v`**: `>= v` and `< v.upper_bound(first_non_zero(v.main))` -/
theorem conan_caret_exact (v : List Char) (hv : safeV v = true) (hlast : v.getLast? ≠ some '-')
    (x : V) (hx : o.make v = .ok x) (u : List Char)
    (hu : o.upperBound x (o.firstNonZero x) = .ok u) :
    fromNative o ('^' :: v) = toCons o [(.ge, o.str x), (.lt, u)] := by
  obtain ⟨d, r, rfl⟩ := safeV_cons hv
  rw [conan_single o (.caret (d :: r)) _ (.caret _) hv (by simp)
    (by rw [getLast?_cons_of_ne_nil (by simp)]; exact hlast)]
  simp [Expr.conds, hx, hu]

/-- an error of `upper_bound` in the caret branch escapes as it is (with the real class: the
`ConanException` "Cannot bump … not an int", e.g. `^abc`) -/
theorem conan_caret_error (v : List Char) (hv : safeV v = true) (hlast : v.getLast? ≠ some '-')
    (x : V) (hx : o.make v = .ok x) (err : TErr)
    (hu : o.upperBound x (o.firstNonZero x) = .error err) :
    fromNative o ('^' :: v) = .error err := by
  obtain ⟨d, r, rfl⟩ := safeV_cons hv
  rw [conan_single o (.caret (d :: r)) _ (.caret _) hv (by simp)
    (by rw [getLast?_cons_of_ne_nil (by simp)]; exact hlast)]
  simp [Expr.conds, hx, hu]

/-- **the comparators** `>v`, `<v`, `>=v`, `<=v`, `=v` and the bare `v`: one constraint with that
comparator (`=` for the bare form) -/
theorem conan_comparators_exact (c : Cmpr) (v t : List Char) (hs : Expr.Spelled (.cmp c v) t)
    (hc : c ≠ .ne) (hv : safeV v = true) (hlast : v.getLast? ≠ some '-')
    (x : V) (hx : o.make v = .ok x) :
    fromNative o t = toCons o [(c, o.str x)] := by
  obtain ⟨d, r, rfl⟩ := safeV_cons hv
  have hsafe : (Expr.cmp c (d :: r)).safe = true := by
    simp only [Expr.safe, hv, Bool.true_and, bne_iff_ne, ne_eq]; exact hc
  have hne : t ≠ [] := by cases hs <;> simp
  have hl : t.getLast? ≠ some '-' := by
    cases hs with
    | gt _ _ => rw [getLast?_cons_of_ne_nil (by simp)]; exact hlast
    | lt _ _ => rw [getLast?_cons_of_ne_nil (by simp)]; exact hlast
    | ge _ =>
      rw [getLast?_cons_of_ne_nil (by simp), getLast?_cons_of_ne_nil (by simp)]; exact hlast
    | le _ =>
      rw [getLast?_cons_of_ne_nil (by simp), getLast?_cons_of_ne_nil (by simp)]; exact hlast
    | eq _ => rw [getLast?_cons_of_ne_nil (by simp)]; exact hlast
    | bare _ _ => exact hlast
  rw [conan_single o _ t hs hsafe hne hl]
  simp [Expr.conds, hx]

/-- `*` (and `-`, the empty condition with the marker): `>= 0.0.0` -/
theorem conan_star_exact (x : V) (hx : o.make ['0', '.', '0', '.', '0'] = .ok x) :
    fromNative o ['*'] = toCons o [(.ge, o.str x)] ∧ fromNative o ['-'] = toCons o [(.ge, o.str x)] := by
  constructor
  · rw [conan_single o .any _ .star rfl (by simp) (by simp)]
    simp [Expr.conds, hx]
  · unfold fromNative
    simp [versionRange, splitOn, splitBars, condSets, conditionSet, splitWs, splitWsAux, isPySpace,
      condLoop, parseExpression, hx]

end named


/-! ### closed forms on plain dotted numeric versions (the local interface `numOps`) -/

section numeric

theorem digit_spec {c : Char} (h : c.isDigit = true) :
    fieldChar c = true ∧ c ≠ '.' ∧ c ≠ '-' := by
  have h' : 48 ≤ c.toNat ∧ c.toNat ≤ 57 := by
    simp only [Char.isDigit, Bool.and_eq_true, decide_eq_true_eq] at h
    exact ⟨by simpa [UInt32.le_iff_toNat_le] using h.1, by simpa [UInt32.le_iff_toNat_le] using h.2⟩
  refine ⟨?_, ?_, ?_⟩
  · have h1 : isPySpace c = false := by
      simp only [isPySpace, Bool.or_eq_false_iff, Bool.and_eq_false_iff, decide_eq_false_iff_not]
      omega
    have h2 : c ≠ ',' := by intro e; subst e; revert h; decide
    have h3 : c ≠ '|' := by intro e; subst e; revert h; decide
    simp [fieldChar, h1, h2, h3]
  · intro e; subst e; revert h; decide
  · intro e; subst e; revert h; decide

theorem natStr_digits (n : Nat) : ∀ c ∈ natStr n, c.isDigit = true :=
  fun _ hc => Nat.isDigit_of_mem_toDigits (by decide) (by decide) hc

theorem natStr_ne_nil (n : Nat) : natStr n ≠ [] := Nat.toDigits_ne_nil

theorem isNum_natStr (n : Nat) : isNum (natStr n) = true := by
  have := natStr_ne_nil n
  simp only [isNum, Bool.and_eq_true, Bool.not_eq_true', List.all_eq_true]
  refine ⟨by cases h : natStr n <;> simp_all, natStr_digits n⟩

theorem natVal_natStr (n : Nat) : natVal (natStr n) = n := Nat.ofDigitChars_ten_toDigits

theorem splitOn_joinDots (ps : List (List Char)) (hne : ps ≠ []) (hp : ∀ p ∈ ps, '.' ∉ p) :
    splitOn '.' (joinDots ps) = ps := by
  induction ps with
  | nil => exact absurd rfl hne
  | cons p ps ih =>
    cases ps with
    | nil => simpa [joinDots] using splitOn_of_not_mem (hp p (by simp))
    | cons q qs =>
      have hj : joinDots (p :: q :: qs) = p ++ '.' :: joinDots (q :: qs) := by
        rw [joinDots]; simp
      rw [hj, splitOn_append_sep _ (hp p (by simp)),
        ih (by simp) (fun r hr => hp r (List.mem_cons_of_mem _ hr))]

theorem splitOn_renderNum (ns : List Nat) (hne : ns ≠ []) :
    splitOn '.' (renderNum ns) = ns.map natStr := by
  apply splitOn_joinDots
  · simpa using hne
  · intro p hp
    obtain ⟨n, _, rfl⟩ := List.mem_map.mp hp
    exact fun hm => (digit_spec (natStr_digits n _ hm)).2.1 rfl

theorem numItems_renderNum (ns : List Nat) (hne : ns ≠ []) : numItems (renderNum ns) = some ns := by
  unfold numItems
  simp only [splitOn_renderNum ns hne]
  have h1 : (ns.map natStr).all isNum = true := by
    simp [List.all_eq_true, isNum_natStr]
  rw [if_pos h1]
  simp [List.map_map, Function.comp_def, natVal_natStr]

theorem mem_joinDots {ps : List (List Char)} {c : Char} (h : c ∈ joinDots ps) :
    c = '.' ∨ ∃ p ∈ ps, c ∈ p := by
  induction ps with
  | nil => simp [joinDots] at h
  | cons p ps ih =>
    cases ps with
    | nil => exact .inr ⟨p, by simp, by simpa [joinDots] using h⟩
    | cons q qs =>
      have hj : joinDots (p :: q :: qs) = p ++ '.' :: joinDots (q :: qs) := by
        rw [joinDots]; simp
      rw [hj] at h
      simp only [List.mem_append, List.mem_cons] at h
      rcases h with h | h | h
      · exact .inr ⟨p, by simp, h⟩
      · exact .inl h
      · rcases ih h with h' | ⟨r, hr, hc⟩
        · exact .inl h'
        · exact .inr ⟨r, List.mem_cons_of_mem _ hr, hc⟩

theorem renderNum_chars (ns : List Nat) : ∀ c ∈ renderNum ns, fieldChar c = true ∧ c ≠ '-' := by
  intro c hc
  rcases mem_joinDots hc with rfl | ⟨p, hp, hcp⟩
  · decide
  · obtain ⟨n, _, rfl⟩ := List.mem_map.mp hp
    have := digit_spec (natStr_digits n c hcp)
    exact ⟨this.1, this.2.2⟩

theorem renderNum_ne_nil (ns : List Nat) (hne : ns ≠ []) : renderNum ns ≠ [] := by
  cases ns with
  | nil => exact absurd rfl hne
  | cons n ns =>
    have := natStr_ne_nil n
    cases ns with
    | nil => simpa [renderNum, joinDots] using this
    | cons m ms => simp [renderNum, joinDots, this]

theorem safeV_renderNum (ns : List Nat) (hne : ns ≠ []) :
    safeV (renderNum ns) = true ∧ (renderNum ns).getLast? ≠ some '-' := by
  refine ⟨?_, ?_⟩
  · simp only [safeV, Bool.and_eq_true, Bool.not_eq_true', List.all_eq_true]
    refine ⟨by cases h : renderNum ns <;> simp_all [renderNum_ne_nil ns hne], fun c hc => ?_⟩
    simpa [fieldChar] using (renderNum_chars ns c hc).1
  · intro h
    have := List.mem_of_getLast? h
    exact (renderNum_chars ns _ this).2 rfl

theorem toCons_numOps (cs : List Cond) : toCons numOps cs = .ok (cs.map fun ct => .mk ct.1 ct.2) := by
  induction cs with
  | nil => rfl
  | cons c cs ih =>
    obtain ⟨c, t⟩ := c
    unfold toCons
    rw [ih]
    rfl

/-- **`~a.b.…`** (two items or more) `:= >=a.b.… <a.(b+1)-` — note: NOT `<a.(b+1).0-`: the
`items.extend([0] * (len(items) - index - 1))` of `upper_bound` adds nothing -/
theorem conan_tilde_num (a b : Nat) (rest : List Nat) :
    fromNative numOps ('~' :: renderNum (a :: b :: rest)) =
      .ok [.mk .ge (renderNum (a :: b :: rest)), .mk .lt (renderNum [a, b + 1] ++ ['-'])] := by
  obtain ⟨hs, hl⟩ := safeV_renderNum (a :: b :: rest) (by simp)
  rw [conan_tilde_exact numOps _ hs hl (renderNum (a :: b :: rest)) rfl
    (renderNum [a, b + 1] ++ ['-']) ?_, toCons_numOps]
  · rfl
  · have hi := numItems_renderNum (a :: b :: rest) (by simp)
    have hlen : (splitOn '.' (renderNum (a :: b :: rest))).length = rest.length + 2 := by
      rw [splitOn_renderNum _ (by simp)]; simp
    simp [numOps, tildeIndex, hi, hlen]

/-- **`~a`** (one item) `:= >=a <(a+1)-` -/
theorem conan_tilde_num_one (a : Nat) :
    fromNative numOps ('~' :: renderNum [a]) =
      .ok [.mk .ge (renderNum [a]), .mk .lt (renderNum [a + 1] ++ ['-'])] := by
  obtain ⟨hs, hl⟩ := safeV_renderNum [a] (by simp)
  rw [conan_tilde_exact numOps _ hs hl (renderNum [a]) rfl (renderNum [a + 1] ++ ['-']) ?_,
    toCons_numOps]
  · rfl
  · have hi := numItems_renderNum [a] (by simp)
    have hlen : (splitOn '.' (renderNum [a])).length = 1 := by
      rw [splitOn_renderNum _ (by simp)]; simp
    simp [numOps, tildeIndex, hi, hlen]

theorem firstNZ_lt (ns : List Nat) (hne : ns ≠ []) : firstNZ ns < ns.length := by
  have hpos : 0 < ns.length := List.length_pos_iff.mpr hne
  have hle : ns.findIdx (fun n => n != 0) ≤ ns.length := List.findIdx_le_length
  simp only [firstNZ]
  split <;> omega

theorem firstNZ_zeros (ns : List Nat) (hz : ∀ n ∈ ns, n = 0) : firstNZ ns = ns.length - 1 := by
  have : ns.findIdx (fun n => n != 0) = ns.length := by
    rw [List.findIdx_eq_length]
    intro n hn
    simp [hz n hn]
  simp [firstNZ, this]

/-- **`^n₀.n₁.…`**: with `i` the index of the first non-zero item, or of the last item when all
are zero: `>=n₀.n₁.… <n₀.….(nᵢ+1)-`
(`^1.2.3 := >=1.2.3 <2-`, `^0.1.2 := >=0.1.2 <0.2-`, `^0.0.1 := >=0.0.1 <0.0.2-`,
`^0.0 := >=0.0 <0.1-`) -/
theorem conan_caret_num (ns : List Nat) (i : Nat) (hi : i < ns.length)
    (hfirst : firstNZ ns = i) :
    fromNative numOps ('^' :: renderNum ns) =
      .ok [.mk .ge (renderNum ns), .mk .lt (renderNum (ns.take i ++ [ns[i] + 1]) ++ ['-'])] := by
  have hne : ns ≠ [] := by intro e; subst e; simp at hi
  obtain ⟨hs, hl⟩ := safeV_renderNum ns hne
  rw [conan_caret_exact numOps _ hs hl (renderNum ns) rfl
    (renderNum (ns.take i ++ [ns[i] + 1]) ++ ['-']) ?_, toCons_numOps]
  · rfl
  · simp [numOps, numItems_renderNum ns hne, hfirst, hi]

/-- **`^0`, `^0.0`, `^0.0.0`, …** (all items zero; an `IndexError` before the fix): the last item is
bumped: `^0 := >=0 <1-`, `^0.0 := >=0.0 <0.1-`, `^0.0.0 := >=0.0.0 <0.0.1-` -/
theorem conan_caret_zero_num (ns : List Nat) (hne : ns ≠ []) (hz : ∀ n ∈ ns, n = 0) :
    fromNative numOps ('^' :: renderNum ns) =
      .ok [.mk .ge (renderNum ns),
        .mk .lt (renderNum (ns.take (ns.length - 1) ++ [1]) ++ ['-'])] := by
  have hlt := firstNZ_lt ns hne
  have hi : ns.length - 1 < ns.length := by rw [← firstNZ_zeros ns hz]; exact hlt
  rw [conan_caret_num ns (ns.length - 1) hi (firstNZ_zeros ns hz)]
  have : ns[ns.length - 1] = 0 := hz _ (List.getElem_mem _)
  rw [this]

example : fromNative numOps "~1.2.3".toList = .ok [.mk .ge "1.2.3".toList, .mk .lt "1.3-".toList] :=
  conan_tilde_num 1 2 [3]

example : fromNative numOps "^1.2.3".toList = .ok [.mk .ge "1.2.3".toList, .mk .lt "2-".toList] :=
  (conan_caret_num [1, 2, 3] 0 (by decide) (by decide)).trans (by simp [renderNum, joinDots, natStr]; decide)

example : fromNative numOps "^0.1.2".toList = .ok [.mk .ge "0.1.2".toList, .mk .lt "0.2-".toList] :=
  (conan_caret_num [0, 1, 2] 1 (by decide) (by decide)).trans (by simp [renderNum, joinDots, natStr]; decide)

end numeric


/-! ### instantiation with the Layer-A model `Univers.Conan`

The same definition as `conanOps` of `Univers/Driver/MavenConan.lean`, which is what the
correspondence check runs against the real code. -/

instance conDecEq : DecidableEq TCon
  | .star, .star => isTrue rfl
  | .star, .mk _ _ => isFalse (by intro h; cases h)
  | .mk _ _, .star => isFalse (by intro h; cases h)
  | .mk c v, .mk c' v' =>
    if h : c = c' ∧ v = v' then isTrue (by rw [h.1, h.2])
    else isFalse (by intro e; cases e; exact h ⟨rfl, rfl⟩)

instance exceptDecEq {ε α : Type} [DecidableEq ε] [DecidableEq α] : DecidableEq (Except ε α)
  | .ok a, .ok b =>
    if h : a = b then isTrue (by rw [h]) else isFalse (by intro e; cases e; exact h rfl)
  | .error a, .error b =>
    if h : a = b then isTrue (by rw [h]) else isFalse (by intro e; cases e; exact h rfl)
  | .ok _, .error _ => isFalse (by intro h; cases h)
  | .error _, .ok _ => isFalse (by intro h; cases h)

/-- `ConanVersion` as the converter uses it, from the Layer-A model -/
def realOps : ConanOps Conan.Raw where
  make t :=
    match Conan.construct t with
    | .ok r => .ok r
    | .error .invalid => .error .InvalidVersion
    | .error (.other n) => .error (.other n)
  str := Conan.str
  mainLen v := v.items.length
  firstNonZero v :=
    let i := v.items.findIdx (fun it => it != .int 0)
    if i = v.items.length then v.items.length - 1 else i
  upperBound v i :=
    match Conan.upperBound v i with
    | .ok u => .ok (Conan.str u)
    | .error .indexError => .error .IndexError
    | .error .conanException => .error errConan

theorem conan_splitOn_ne_nil (sep : Char) (s : List Char) : Conan.splitOn sep s ≠ [] := by
  cases s with
  | nil => simp [Conan.splitOn]
  | cons c cs =>
    unfold Conan.splitOn
    split
    · simp
    · split <;> simp

/-- a parsed version has at least one item -/
theorem items_parseFuel_pos (n : Nat) (s : List Char) :
    0 < (Conan.parseFuel n s).items.length := by
  have key : ∀ t : List Char, 0 < ((Conan.splitOn '.' t).map Conan.mkItem).length := by
    intro t
    rw [List.length_map]
    exact List.length_pos_iff.mpr (conan_splitOn_ne_nil _ _)
  cases n with
  | zero => exact key s
  | succ n =>
    unfold Conan.parseFuel
    split
    · split <;> exact key _
    · split <;> exact key _

theorem tildeIndex_lt {V : Type} (o : ConanOps V) (v : V) (h : 0 < o.mainLen v) :
    tildeIndex o v < o.mainLen v := by
  unfold tildeIndex
  by_cases hc : o.mainLen v > 1
  · rw [if_pos hc]; exact hc
  · rw [if_neg hc]; exact h

theorem realOps_firstNonZero_lt (v : Conan.Raw) (h : 0 < v.items.length) :
    realOps.firstNonZero v < v.items.length := by
  have hle : v.items.findIdx (fun it => it != .int 0) ≤ v.items.length := List.findIdx_le_length
  simp only [realOps]
  by_cases hc : v.items.findIdx (fun it => it != .int 0) = v.items.length
  · rw [if_pos hc]; omega
  · rw [if_neg hc]; omega

/-- **declared errors with the real version class**: every text gives a result or
`ConanException` — nothing else (`ConanVersion(...)` accepts every text; the two indices passed to
`upper_bound` are always inside `main`) -/
theorem conan_declared_real (t : List Char) :
    (∃ cs, fromNative realOps t = .ok cs) ∨ fromNative realOps t = .error errConan := by
  rcases conan_declared realOps t with h | h | ⟨err, herr, hops⟩
  · exact .inl h
  · exact .inr h
  · right
    rw [herr]
    rcases hops with ⟨v, hv⟩ | ⟨t', v, hm, hu⟩
    · simp [realOps, Conan.construct] at hv
    · have hv : v = Conan.parse (Conan.normalize t') := by
        simp only [realOps, Conan.construct] at hm
        cases hm; rfl
      have hpos : 0 < v.items.length := by rw [hv]; exact items_parseFuel_pos _ _
      have h1 : tildeIndex realOps v < v.items.length := tildeIndex_lt realOps v hpos
      have h2 := realOps_firstNonZero_lt v hpos
      have key : ∀ i, i < v.items.length → ∀ e, realOps.upperBound v i = .error e → e = errConan := by
        intro i hi e he
        simp only [realOps, Conan.upperBound, Conan.bumpStr, List.getElem?_eq_getElem hi] at he
        cases hs : (v.items[i]).succ? with
        | none => rw [hs] at he; cases he; rfl
        | some n => rw [hs] at he; cases he
      rcases hu with hu | hu
      · rw [key _ h1 _ hu]
      · rw [key _ h2 _ hu]

/-- the former `IndexError` witnesses with the real version class, and `ConanException` -/
theorem conan_fixed_examples_real :
    fromNative realOps ">".toList = .error errConan ∧
    fromNative realOps "^0".toList = .ok [.mk .ge "0".toList, .mk .lt "1-".toList] ∧
    fromNative realOps "^0.0".toList = .ok [.mk .ge "0.0".toList, .mk .lt "0.1-".toList] ∧
    fromNative realOps "^0.0.0".toList = .ok [.mk .ge "0.0.0".toList, .mk .lt "0.0.1-".toList] ∧
    fromNative realOps ">=".toList = .error errConan ∧
    fromNative realOps "~abc".toList = .error errConan := by
  refine ⟨by decide +kernel, by decide +kernel, by decide +kernel, by decide +kernel,
    by decide +kernel, by decide +kernel⟩

/-- what the code REALLY produces, with the real version class -/
theorem conan_examples_real :
    fromNative realOps "~1.2.3".toList = .ok [.mk .ge "1.2.3".toList, .mk .lt "1.3-".toList] ∧
    fromNative realOps "~1".toList = .ok [.mk .ge "1".toList, .mk .lt "2-".toList] ∧
    fromNative realOps "^1.2.3".toList = .ok [.mk .ge "1.2.3".toList, .mk .lt "2-".toList] ∧
    fromNative realOps "^0.1.2".toList = .ok [.mk .ge "0.1.2".toList, .mk .lt "0.2-".toList] ∧
    fromNative realOps "^0.0.1".toList = .ok [.mk .ge "0.0.1".toList, .mk .lt "0.0.2-".toList] ∧
    fromNative realOps "~1.2.3-pre".toList =
      .ok [.mk .ge "1.2.3-pre".toList, .mk .lt "1.3-".toList] ∧
    fromNative realOps ">1 <2- || ^3.1, include_prerelease=True".toList =
      .ok [.mk .gt "1".toList, .mk .lt "2".toList, .mk .ge "3.1".toList, .mk .lt "4-".toList] ∧
    fromNative realOps "*".toList = .ok [.mk .ge "0.0.0".toList] ∧
    fromNative realOps "".toList = .ok [] := by
  refine ⟨by decide +kernel, by decide +kernel, by decide +kernel, by decide +kernel,
    by decide +kernel, by decide +kernel, by decide +kernel, by decide +kernel, by decide +kernel⟩


/-! ### the closed forms hold for the real version class (bridge `numOps` → `realOps`) -/

section bridge

/-- digits, dots and the dash: the characters of plain versions and of their upper bounds -/
def numChar (c : Char) : Bool := c.isDigit || c == '.' || c == '-'

theorem numChar_spec {c : Char} (h : numChar c = true) :
    Conan.isPySpace c = false ∧ c ≠ 'v' ∧ c ≠ 'V' ∧ c ≠ '+' := by
  simp only [numChar, Bool.or_eq_true, beq_iff_eq] at h
  rcases h with (h | rfl) | rfl
  · have h' : 48 ≤ c.toNat ∧ c.toNat ≤ 57 := by
      simp only [Char.isDigit, Bool.and_eq_true, decide_eq_true_eq] at h
      exact ⟨by simpa [UInt32.le_iff_toNat_le] using h.1, by simpa [UInt32.le_iff_toNat_le] using h.2⟩
    refine ⟨?_, ?_, ?_, ?_⟩
    · have : c ≠ ' ' := by intro e; subst e; revert h; decide
      simp only [Conan.isPySpace, Bool.or_eq_false_iff, Bool.and_eq_false_iff,
        decide_eq_false_iff_not, beq_eq_false_iff_ne]
      exact ⟨⟨this, by omega⟩, by omega⟩
    all_goals (intro e; subst e; revert h; decide)
  · decide
  · decide

theorem normalize_numChars {t : List Char} (h : ∀ c ∈ t, numChar c = true) :
    Conan.normalize t = t := by
  unfold Conan.normalize
  have h1 : t.filter (fun c => !Conan.isPySpace c) = t := by
    rw [List.filter_eq_self]
    intro c hc; simp [(numChar_spec (h c hc)).1]
  rw [h1]
  cases t with
  | nil => rfl
  | cons c cs =>
    have := numChar_spec (h c (by simp))
    simp [this.2.1, this.2.2.1]

theorem str_parseFuel (n : Nat) (s : List Char) : Conan.str (Conan.parseFuel n s) = s := by
  cases n with
  | zero => rfl
  | succ n =>
    unfold Conan.parseFuel
    split
    · split <;> rfl
    · split <;> rfl

theorem str_parse (s : List Char) : Conan.str (Conan.parse s) = s := str_parseFuel _ s

theorem make_numChars {t : List Char} (h : ∀ c ∈ t, numChar c = true) :
    realOps.make t = .ok (Conan.parse t) := by
  simp [realOps, Conan.construct, normalize_numChars h]

theorem rsplit1_none {sep : Char} {s : List Char} (h : sep ∉ s) : Conan.rsplit1 sep s = none := by
  induction s with
  | nil => rfl
  | cons c cs ih =>
    have hc : c ≠ sep := fun e => h (by simp [e])
    have hcs : sep ∉ cs := fun e => h (by simp [e])
    simp [Conan.rsplit1, ih hcs, hc]

theorem conan_splitOn_eq (sep : Char) (s : List Char) : Conan.splitOn sep s = splitOn sep s := by
  induction s with
  | nil => rfl
  | cons c cs ih =>
    by_cases h : c = sep
    · simp [Conan.splitOn, splitOn, h, ih]
    · simp [Conan.splitOn, splitOn, h, ih]
      rfl

theorem conan_joinDots_eq (ps : List (List Char)) : Conan.joinDots ps = joinDots ps := by
  induction ps with
  | nil => rfl
  | cons p ps ih =>
    cases ps with
    | nil => rfl
    | cons q qs =>
      have h1 : Conan.joinDots (p :: q :: qs) = p ++ '.' :: Conan.joinDots (q :: qs) := by
        rw [Conan.joinDots]; simp
      have h2 : joinDots (p :: q :: qs) = p ++ '.' :: joinDots (q :: qs) := by
        rw [joinDots]; simp
      rw [h1, h2, ih]

theorem intDigits_digits : ∀ (s : List Char), s ≠ [] → (∀ c ∈ s, c.isDigit = true) →
    Conan.intDigits s = some s
  | [], h, _ => absurd rfl h
  | [c], _, hd => by
    have : Conan.isDigit c = true := by
      have := hd c (by simp)
      simp only [Char.isDigit, Bool.and_eq_true, decide_eq_true_eq] at this
      simp only [Conan.isDigit, Bool.and_eq_true, decide_eq_true_eq]
      exact ⟨by simpa [Char.le_def, UInt32.le_iff_toNat_le] using this.1,
        by simpa [Char.le_def, UInt32.le_iff_toNat_le] using this.2⟩
    simp [Conan.intDigits, this]
  | c :: d :: rest, _, hd => by
    have hc : Conan.isDigit c = true := by
      have := hd c (by simp)
      simp only [Char.isDigit, Bool.and_eq_true, decide_eq_true_eq] at this
      simp only [Conan.isDigit, Bool.and_eq_true, decide_eq_true_eq]
      exact ⟨by simpa [Char.le_def, UInt32.le_iff_toNat_le] using this.1,
        by simpa [Char.le_def, UInt32.le_iff_toNat_le] using this.2⟩
    have hdd : d ≠ '_' := by
      intro e; subst e
      have := hd '_' (by simp)
      revert this; decide
    have ih := intDigits_digits (d :: rest) (by simp) (fun x hx => hd x (by simp [hx]))
    rw [Conan.intDigits]
    · simp [hc, ih]
    · intro h; cases h
    · intro r h; cases h; exact hdd rfl

theorem mkItem_natStr (n : Nat) : Conan.mkItem (natStr n) = .int (Int.ofNat n) := by
  have hne := natStr_ne_nil n
  have hd := natStr_digits n
  have hi := intDigits_digits (natStr n) hne hd
  have hv : Conan.natVal (natStr n) = n := natVal_natStr n
  unfold Conan.mkItem
  cases hs : natStr n with
  | nil => exact absurd hs hne
  | cons c cs =>
    have hc : c.isDigit = true := hd c (by simp [hs])
    have h1 : c ≠ '+' := by intro e; subst e; revert hc; decide
    have h2 : c ≠ '-' := by intro e; subst e; revert hc; decide
    rw [hs] at hi hv
    have hp : Conan.pyInt (c :: cs) =
        (Conan.intDigits (c :: cs)).map (fun d => Int.ofNat (Conan.natVal d)) := by
      rw [Conan.pyInt]
      · intro r h; cases h; exact h1 rfl
      · intro r h; cases h; exact h2 rfl
    rw [hp, hi]
    simp [hv]

theorem renderNum_numChars (ns : List Nat) : ∀ c ∈ renderNum ns, numChar c = true := by
  intro c hc
  rcases mem_joinDots hc with rfl | ⟨p, hp, hcp⟩
  · decide
  · obtain ⟨n, _, rfl⟩ := List.mem_map.mp hp
    simp [numChar, natStr_digits n c hcp]

theorem renderNum_dash_numChars (ns : List Nat) :
    ∀ c ∈ renderNum ns ++ ['-'], numChar c = true := by
  intro c hc
  rcases List.mem_append.mp hc with hc | hc
  · exact renderNum_numChars ns c hc
  · simp only [List.mem_cons, List.mem_nil_iff, or_false] at hc
    subst hc; decide

/-- the items of the parsed plain version -/
theorem parse_renderNum (ns : List Nat) (hne : ns ≠ []) :
    Conan.parse (renderNum ns) =
      .ver (renderNum ns) (ns.map fun n => .int (Int.ofNat n)) .none .none := by
  have hplus : '+' ∉ renderNum ns :=
    fun h => (numChar_spec (renderNum_numChars ns _ h)).2.2.2 rfl
  have hdash : '-' ∉ renderNum ns := fun h => (renderNum_chars ns _ h).2 rfl
  unfold Conan.parse Conan.parseFuel
  simp only [rsplit1_none hplus, rsplit1_none hdash, conan_splitOn_eq, splitOn_renderNum ns hne,
    List.map_map]
  congr 1
  apply List.map_congr_left
  intro n _
  exact mkItem_natStr n

theorem intStr_ofNat (n : Nat) : Conan.intStr (Int.ofNat n) = natStr n := rfl

/-- `upper_bound` of the real class on a plain version is the local one -/
theorem upperBound_renderNum (ns : List Nat) (hne : ns ≠ []) (i : Nat) :
    realOps.upperBound (Conan.parse (renderNum ns)) i = numOps.upperBound (renderNum ns) i := by
  simp only [realOps, numOps, numItems_renderNum ns hne, Conan.upperBound, Conan.bumpStr,
    parse_renderNum ns hne, Conan.OV.items, List.getElem?_map]
  by_cases hi : i < ns.length
  · simp only [List.getElem?_eq_getElem hi, Option.map_some, Conan.Item.succ?, dif_pos hi]
    have : (Int.ofNat ns[i] + 1) = Int.ofNat (ns[i] + 1) := rfl
    simp only [Except.map, this, intStr_ofNat, str_parse, conan_joinDots_eq, renderNum,
      List.map_append, List.map_take, List.map_map, List.map_cons, List.map_nil]
    congr 3
  · simp [List.getElem?_eq_none (Nat.le_of_not_lt hi), dif_neg hi, Except.map]

theorem mainLen_renderNum (ns : List Nat) (hne : ns ≠ []) :
    realOps.mainLen (Conan.parse (renderNum ns)) = ns.length := by
  simp [realOps, parse_renderNum ns hne, Conan.OV.items]

theorem findIdx_items (ns : List Nat) :
    (ns.map fun n => Conan.Item.int (Int.ofNat n)).findIdx (fun it => it != .int 0) =
      ns.findIdx (fun n => n != 0) := by
  induction ns with
  | nil => rfl
  | cons n ns ih =>
    simp only [List.map_cons, List.findIdx_cons]
    have : ((Conan.Item.int (Int.ofNat n)) != Conan.Item.int 0) = (n != 0) := by
      cases n with
      | zero => rfl
      | succ m =>
        have h1 : (Conan.Item.int (Int.ofNat (m + 1)) != Conan.Item.int 0) = true := by
          rw [bne_iff_ne]; intro h; cases h
        simp
        omega
    rw [this, ih]

theorem firstNonZero_renderNum (ns : List Nat) (hne : ns ≠ []) :
    realOps.firstNonZero (Conan.parse (renderNum ns)) = firstNZ ns := by
  simp only [realOps, parse_renderNum ns hne, Conan.OV.items, findIdx_items, List.length_map, firstNZ]

theorem toCons_realOps_two (c1 c2 : Cmpr) (t1 t2 : List Char) (h1 : ∀ c ∈ t1, numChar c = true)
    (h2 : ∀ c ∈ t2, numChar c = true) :
    toCons realOps [(c1, t1), (c2, t2)] = .ok [.mk c1 t1, .mk c2 t2] := by
  simp only [toCons, make_numChars h1, make_numChars h2]
  simp [realOps, str_parse]

/-- **`~a.b.…` with the real version class**: `>=a.b.… <a.(b+1)-` -/
theorem conan_tilde_real (a b : Nat) (rest : List Nat) :
    fromNative realOps ('~' :: renderNum (a :: b :: rest)) =
      .ok [.mk .ge (renderNum (a :: b :: rest)), .mk .lt (renderNum [a, b + 1] ++ ['-'])] := by
  have hne : a :: b :: rest ≠ [] := by simp
  obtain ⟨hs, hl⟩ := safeV_renderNum (a :: b :: rest) hne
  have hidx : tildeIndex realOps (Conan.parse (renderNum (a :: b :: rest))) = 1 := by
    simp [tildeIndex, mainLen_renderNum _ hne]
  rw [conan_tilde_exact realOps _ hs hl _ (make_numChars (renderNum_numChars _))
    (renderNum [a, b + 1] ++ ['-']) ?_]
  · show toCons realOps [(.ge, Conan.str (Conan.parse _)), _] = _
    rw [str_parse]
    exact toCons_realOps_two _ _ _ _ (renderNum_numChars _) (renderNum_dash_numChars _)
  · rw [hidx, upperBound_renderNum _ hne]
    simp [numOps, numItems_renderNum _ hne]

/-- **`^n₀.n₁.…` with the real version class**; `i` is the index of the first non-zero item, or
of the last item when all are zero -/
theorem conan_caret_real (ns : List Nat) (i : Nat) (hi : i < ns.length)
    (hfirst : firstNZ ns = i) :
    fromNative realOps ('^' :: renderNum ns) =
      .ok [.mk .ge (renderNum ns), .mk .lt (renderNum (ns.take i ++ [ns[i] + 1]) ++ ['-'])] := by
  have hne : ns ≠ [] := by intro e; subst e; simp at hi
  obtain ⟨hs, hl⟩ := safeV_renderNum ns hne
  rw [conan_caret_exact realOps _ hs hl _ (make_numChars (renderNum_numChars _))
    (renderNum (ns.take i ++ [ns[i] + 1]) ++ ['-']) ?_]
  · show toCons realOps [(.ge, Conan.str (Conan.parse _)), _] = _
    rw [str_parse]
    exact toCons_realOps_two _ _ _ _ (renderNum_numChars _) (renderNum_dash_numChars _)
  · rw [firstNonZero_renderNum _ hne, hfirst, upperBound_renderNum _ hne]
    simp [numOps, numItems_renderNum _ hne, hi]

/-- **`^0`, `^0.0`, … with the real version class** (an `IndexError` before the fix): the last
item is bumped -/
theorem conan_caret_zero_real (ns : List Nat) (hne : ns ≠ []) (hz : ∀ n ∈ ns, n = 0) :
    fromNative realOps ('^' :: renderNum ns) =
      .ok [.mk .ge (renderNum ns),
        .mk .lt (renderNum (ns.take (ns.length - 1) ++ [1]) ++ ['-'])] := by
  have hlt := firstNZ_lt ns hne
  have hi : ns.length - 1 < ns.length := by rw [← firstNZ_zeros ns hz]; exact hlt
  rw [conan_caret_real ns (ns.length - 1) hi (firstNZ_zeros ns hz)]
  have : ns[ns.length - 1] = 0 := hz _ (List.getElem_mem _)
  rw [this]

/-- **`~a` (one item) with the real version class**: `>=a <(a+1)-` -/
theorem conan_tilde_one_real (a : Nat) :
    fromNative realOps ('~' :: renderNum [a]) =
      .ok [.mk .ge (renderNum [a]), .mk .lt (renderNum [a + 1] ++ ['-'])] := by
  have hne : [a] ≠ [] := by simp
  obtain ⟨hs, hl⟩ := safeV_renderNum [a] hne
  have hidx : tildeIndex realOps (Conan.parse (renderNum [a])) = 0 := by
    simp [tildeIndex, mainLen_renderNum _ hne]
  rw [conan_tilde_exact realOps _ hs hl _ (make_numChars (renderNum_numChars _))
    (renderNum [a + 1] ++ ['-']) ?_]
  · show toCons realOps [(.ge, Conan.str (Conan.parse _)), _] = _
    rw [str_parse]
    exact toCons_realOps_two _ _ _ _ (renderNum_numChars _) (renderNum_dash_numChars _)
  · rw [hidx, upperBound_renderNum _ hne]
    simp [numOps, numItems_renderNum _ hne]

/-- **the comparators with the real version class** on a plain version `v = n₀.n₁.…`:
`>v`, `<v`, `>=v`, `<=v`, `=v`, `v` ↦ one constraint with that comparator and the same text -/
theorem conan_comparators_real (c : Cmpr) (ns : List Nat) (hne : ns ≠ []) (t : List Char)
    (hs : Expr.Spelled (.cmp c (renderNum ns)) t) (hc : c ≠ .ne) :
    fromNative realOps t = .ok [.mk c (renderNum ns)] := by
  obtain ⟨hsafe, hl⟩ := safeV_renderNum ns hne
  rw [conan_comparators_exact realOps c _ t hs hc hsafe hl _
    (make_numChars (renderNum_numChars _))]
  show toCons realOps [(c, Conan.str (Conan.parse _))] = _
  rw [str_parse]
  simp only [toCons, make_numChars (renderNum_numChars ns)]
  simp [realOps, str_parse]

end bridge

end Univers.Text.ConanRange
