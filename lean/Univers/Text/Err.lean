/-
Layer C/D — shared types of the text layers: the exception classes the modelled parsers can
let escape, and constraints as text.
-/
import Univers.Vers.Model

namespace Univers.Text

/-- every exception class the modelled code can let escape -/
inductive TErr where
  | ValueError | InvalidVersion | InvalidVersionRange | TypeError | IndexError | KeyError
  | AttributeError | UnboundLocalError | AssertionError | NotImplementedError
  | other (name : String)
  deriving DecidableEq, Repr, Inhabited

def TErr.name : TErr → String
  | .ValueError => "ValueError"
  | .InvalidVersion => "InvalidVersion"
  | .InvalidVersionRange => "InvalidVersionRange"
  | .TypeError => "TypeError"
  | .IndexError => "IndexError"
  | .KeyError => "KeyError"
  | .AttributeError => "AttributeError"
  | .UnboundLocalError => "UnboundLocalError"
  | .AssertionError => "AssertionError"
  | .NotImplementedError => "NotImplementedError"
  | .other n => n

/-- an error the library declares for bad input (the ValueError family, and the range error) -/
def TErr.declared : TErr → Bool
  | .ValueError => true
  | .InvalidVersion => true
  | .InvalidVersionRange => true
  | _ => false

/-- a constraint as text: `.star` or `.mk cmpr versionText` -/
abbrev TCon := Con (List Char)

end Univers.Text
