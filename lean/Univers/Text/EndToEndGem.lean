/-
The end-to-end theorem at a concrete scheme (gem) and on a concrete string: the hypotheses of
`contains_text_eq_denote` are met by `" VERS:Gem/ <2.0 | >= 1.0|"`, so the theorem is about real
inputs of the library.
-/
import Univers.Text.EndToEndThm
import Univers.Scheme.GemThm

namespace Univers.Text.EndToEnd

open Univers Univers.Text Univers.Text.Vers Univers.Text.Str Std

/-- `RubygemsVersion` as the text layer and the constraint algebra see it -/
def gemT : TextScheme where
  R := Gem.Raw
  construct s := match Gem.construct s with
    | .ok r => .ok r
    | .error .invalid => .error .InvalidVersion
    | .error (.other n) => .error (.other n)
  str := Gem.str
  ops := Gem.verOps

/-- the end-to-end theorem for gem -/
theorem gem_contains_text (mkVer : MkVer) (hmk : mkVer "RubygemsVersion" = gemT.mk')
    (e : Expr) (hreg : Registered e.scheme "RubygemsVersion") (hne : e.items ≠ []) (hstar : StarAlone e.items)
    (hcanon : ∀ c ∈ e.items, ConOk gemT.mk' c)
    (vals : List (Con Gem.Raw)) (hvals : gemT.consOf e.items = .ok vals) (hwf : WF Gem.vercmp vals)
    (t : List Char) (hr : Renders e t) (ha : isAsciiRepr (removeSpaces t) = true)
    (x : List Char) (v : Gem.Raw) (hx : gemT.construct x = .ok v) :
    ∃ s, s.Perm vals ∧ WFSorted Gem.vercmp s ∧ contains gemT mkVer t x = .ok (denote Gem.vercmp s v) :=
  @contains_text_eq_denote gemT Gem.vercmp (inferInstanceAs (TransCmp Gem.vercmp)) Gem.verOps_lawful mkVer
    "RubygemsVersion" hmk e hreg hne hstar hcanon vals hvals hwf t hr ha x v hx

/-! ### a concrete instance -/

deriving instance DecidableEq for Except

def exE : Expr := ⟨"gem".toList, [.mk .lt "2.0".toList, .mk .ge "1.0".toList]⟩
def exT : List Char := " VERS:Gem/ <2.0 | >= 1.0|".toList

example : Registered exE.scheme "RubygemsVersion" := by
  refine ⟨"GemVersionRange", ?_, ?_⟩ <;> decide

example : ∀ c ∈ exE.items, ConOk gemT.mk' c := by
  intro c hc
  simp only [exE, List.mem_cons, List.mem_nil_iff, or_false] at hc
  rcases hc with rfl | rfl <;> exact ⟨by decide, by decide +kernel⟩

example : Renders exE exT :=
  ⟨"VERS".toList, "Gem".toList, ["<2.0".toList, ">=1.0".toList], 0, 1, by decide, by decide,
    .cons (.explicit .lt _) (.cons (.explicit .ge _) .nil), by decide⟩

example : isAsciiRepr (removeSpaces exT) = true := by decide

end Univers.Text.EndToEnd
