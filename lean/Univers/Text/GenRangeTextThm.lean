/-
Agreement theorem for `VersionRange.from_string` as translated from `univers/version_range.py` on every run
(`Univers/Gen/PyTextRangeFromString.lean`): the translated function, flags included, is `fromStringFull` below, which
is assembled from the model's own pieces (`header`, `constraintBody`, `conFromString`, `conLoop` of
`Univers/Text/Vers.lean`) followed by the Layer-B steps `sorted`, `simplify`, `validate` in the order and under
the flags the code applies them; with both flags off and up to the sort it is the model's `fromString`
(`fromStringFull_plain`), which is what the theorems of C05, C13 and C16 are about.

The version classes are the parameter `mkVer`; sorting, simplifying and validating a list of constraints are
Layer B and enter as the parameters `sortT`, `simpT`, `valT`.
-/
import Univers.Gen.PyTextRangeFromString
import Univers.Text.GenTextThm

namespace Univers.Gen.Text
open Univers Univers.PyRt Univers.Text Univers.Text.Str Univers.Text.Vers Univers.Text.PyText

variable (mkVer : MkVer) (sortT simpT : List TCon → Except TErr (List TCon)) (valT : List TCon → Except TErr Bool)

/-- sort, then simplify and validate under their flags, then build the range of class `cls` -/
def finish (cls : String) (simplify validate : Bool) (items : List TCon) : Except TErr (String × List TCon) :=
  sortT items >>= fun s =>
  (if simplify then simpT s else .ok s) >>= fun s =>
  if validate then valT s >>= fun _ => .ok (cls, s) else .ok (cls, s)

/-- `VersionRange.from_string(vers, simplify, validate)`, from the model's pieces -/
def fromStringFull (vers : List Char) (simplify validate : Bool) : Except TErr (String × List TCon) :=
  match header vers with
  | .error e => .error e
  | .ok (scheme, vc, constraints) =>
    match registryL.lookup scheme with
    | none => .error .ValueError
    | some cls =>
      match constraintBody constraints with
      | .error e => .error e
      | .ok .star =>
        match conFromString (mkVer vc) ['*'] with
        | .error e => .error e
        | .ok c => .ok (cls, [c])
      | .ok (.texts ts) =>
        match conLoop (mkVer vc) ts with
        | .error e => .error e
        | .ok items => finish sortT simpT valT cls simplify validate items

theorem loop_eq (vc : String) (vers : List Char) (simplify validate a : Bool) (u1 u2 u3 u4 u5 u6 : List Char) (cls : String)
    (ts : List (List Char)) (acc : List TCon) :
    pyFor ts acc
        (vr_from_string_for1_body mkVer sortT simpT valT vers simplify validate a u1 u2 u3 u4 u5 u6 cls vc)
        (vr_from_string_for1_after mkVer sortT simpT valT vers simplify validate a u1 u2 u3 u4 u5 u6 cls vc)
      = (match conLoop (mkVer vc) ts with
         | .error e => .error e
         | .ok items => finish sortT simpT valT cls simplify validate (acc ++ items)) := by
  induction ts generalizing acc with
  | nil =>
    simp only [pyFor_nil, conLoop, vr_from_string_for1_after, finish, List.append_nil, bind, Except.bind]
    cases sortT acc with
    | error e => rfl
    | ok s =>
      cases simplify <;> cases validate <;> simp only [Bool.false_eq_true, ↓reduceIte] <;>
        first | rfl | (cases simpT s <;> rfl)
  | cons t ts ih =>
    simp only [pyFor_cons, vr_from_string_for1_body, conLoop, vc_from_string_eq, bind, Except.bind]
    cases conFromString (mkVer vc) t with
    | error e => rfl
    | ok c =>
      by_cases hs : c.isStar = true
      · simp [hs]
      · simp only [hs, Bool.false_eq_true, ↓reduceIte, Step.cont_next]
        rw [ih]
        cases conLoop (mkVer vc) ts with
        | error e => rfl
        | ok items => simp

/-- **`VersionRange.from_string` as translated is `fromStringFull`.** -/
theorem vr_from_string_eq (vers : List Char) (simplify validate : Bool) :
    vr_from_string mkVer sortT simpT valT vers simplify validate
      = fromStringFull mkVer sortT simpT valT vers simplify validate := by
  unfold vr_from_string fromStringFull header
  by_cases h0 : (vers.isEmpty || (stripWs vers).isEmpty) = true
  · have : ((!(!vers.isEmpty)) || (!true) || (!(!(stripWs vers).isEmpty))) = true := by simpa using h0
    simp [h0, this]
  · have : ((!(!vers.isEmpty)) || (!true) || (!(!(stripWs vers).isEmpty))) = false := by simpa using h0
    simp only [this, Bool.false_eq_true, ↓reduceIte, h0, py_remove_spaces_eq, bind, Except.bind, headerCore]
    by_cases ha : isAsciiRepr (removeSpaces vers) = true
    · simp only [ha, Bool.not_true, Bool.false_eq_true, ↓reduceIte]
      generalize partitionChar ':' (removeSpaces vers) = p1
      obtain ⟨u, m1, spec⟩ := p1
      simp only
      by_cases hu : (lower u != ['v', 'e', 'r', 's']) = true
      · simp [hu]
      · simp only [hu, Bool.false_eq_true, ↓reduceIte]
        generalize partitionChar '/' spec = p2
        obtain ⟨sch, m2, cons⟩ := p2
        simp only
        cases hl : registryL.lookup (lower sch) with
        | none => simp
        | some cls =>
          simp only [versionClassOfE]
          cases hv : versionClassOf cls with
          | none => simp
          | some vc =>
            simp only [hl, constraintBody]
            by_cases he : (stripSet ['|'] (removeSpaces cons)).isEmpty = true
            · simp [he]
            · simp only [he, Bool.not_false, Bool.not_true, Bool.false_eq_true, ↓reduceIte]
              by_cases hst : startsWith (stripSet ['|'] (removeSpaces cons)) ['*'] = true
              · by_cases hne : (stripSet ['|'] (removeSpaces cons) != ['*']) = true
                · simp [hst, hne]
                · simp only [hst, hne, ↓reduceIte, Bool.false_eq_true, vc_from_string_eq]
                  cases conFromString (mkVer vc) ['*'] <;> rfl
              · simp only [hst, Bool.false_eq_true, ↓reduceIte]
                rw [loop_eq]
                simp
    · simp [ha]

/-- a header that was accepted names a registered scheme -/
theorem header_ok_lookup {vers scheme : List Char} {vc : String} {constraints : List Char}
    (h : header vers = .ok (scheme, vc, constraints)) : ∃ cls, registryL.lookup scheme = some cls := by
  unfold header at h
  split at h
  · cases h
  · unfold headerCore at h
    split at h
    · cases h
    · generalize partitionChar ':' (removeSpaces vers) = p1 at h
      obtain ⟨u, m1, spec⟩ := p1
      simp only at h
      split at h
      · cases h
      · generalize partitionChar '/' spec = p2 at h
        obtain ⟨sch, m2, cons⟩ := p2
        simp only at h
        cases hl : registryL.lookup (lower sch) with
        | none => simp [hl] at h
        | some cls =>
          simp only [hl] at h
          cases hv : versionClassOf cls with
          | none => simp [hv] at h
          | some v =>
            simp only [hv, Except.ok.injEq, Prod.mk.injEq] at h
            exact ⟨cls, by rw [← h.1]; exact hl⟩

/-- with both flags off, and up to the sort, `fromStringFull` is the model's `fromString` -/
theorem fromStringFull_plain (vers : List Char) :
    fromStringFull mkVer (fun x => .ok x) simpT valT vers false false =
      (match fromString mkVer vers with
       | .error e => .error e
       | .ok (scheme, items) =>
         match registryL.lookup scheme with
         | none => .error .ValueError
         | some cls => .ok (cls, items)) := by
  unfold fromStringFull fromString fromStringItems parseConstraints
  cases hh : header vers with
  | error e => rfl
  | ok r =>
    obtain ⟨scheme, vc, constraints⟩ := r
    obtain ⟨cls, hl⟩ := header_ok_lookup hh
    simp only [hl]
    cases constraintBody constraints with
    | error e => rfl
    | ok b =>
      cases b with
      | star => cases hc : conFromString (mkVer vc) ['*'] <;> simp [hc, hl]
      | texts ts => cases hc : conLoop (mkVer vc) ts <;> simp [hc, hl, finish, bind, Except.bind]

end Univers.Gen.Text
