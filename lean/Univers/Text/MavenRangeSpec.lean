/-
Text layer — SPEC of the Maven / NuGet bracket-range notation
(https://maven.apache.org/enforcer/enforcer-rules/versionRanges.html,
https://learn.microsoft.com/en-us/nuget/concepts/package-versioning#version-ranges):

    [a,b]  a <= x <= b      (a,b)  a < x < b      [a,b)  a <= x < b      (a,b]  a < x <= b
    [a,)   a <= x           (a,)   a < x          (,b]   x <= b          (,b)   x < b
    [a]    x == a
    several sets separated by commas: the union

An expression is a list of `Seg`; its accepted spellings (`Renders`) are the sets written one after
the other, each followed by an optional comma, with blanks anywhere; what it states is
`Expr.cons` (the constraints) and `Expr.mem` (the versions it admits).
-/
import Univers.Text.MavenRange

namespace Univers.Text.MavenRange

open Univers Univers.Text

/-- one bracket set -/
inductive Seg where
  /-- `[`/`(` lo `,` hi `]`/`)`; an absent bound is `none` -/
  | range (lowerIncl : Bool) (lo hi : Option (List Char)) (upperIncl : Bool)
  /-- `[a]` -/
  | exact (a : List Char)
  deriving Repr, DecidableEq

namespace Seg

abbrev closed (a b : List Char) : Seg := .range true (some a) (some b) true          -- `[a,b]`
abbrev opened (a b : List Char) : Seg := .range false (some a) (some b) false        -- `(a,b)`
abbrev closedOpen (a b : List Char) : Seg := .range true (some a) (some b) false     -- `[a,b)`
abbrev openClosed (a b : List Char) : Seg := .range false (some a) (some b) true     -- `(a,b]`
abbrev atLeast (a : List Char) : Seg := .range true (some a) none false              -- `[a,)`
abbrev atMost (b : List Char) : Seg := .range false none (some b) true               -- `(,b]`

end Seg

def openB (incl : Bool) : Char := if incl then '[' else '('
def closeB (incl : Bool) : Char := if incl then ']' else ')'

def optText : Option (List Char) → List Char
  | none => []
  | some t => t

/-- the canonical text of a set -/
def Seg.render : Seg → List Char
  | .range li lo hi ui => openB li :: ((optText lo ++ ',' :: optText hi) ++ [closeB ui])
  | .exact a => '[' :: (a ++ [']'])

/-- the spellings of an expression without blanks: every set may be followed by a comma -/
inductive Spelled : List Seg → List Char → Prop where
  | nil : Spelled [] []
  | cons (s : Seg) (es : List Seg) (t : List Char) : Spelled es t → Spelled (s :: es) (s.render ++ t)
  | consComma (s : Seg) (es : List Seg) (t : List Char) :
      Spelled es t → Spelled (s :: es) (s.render ++ ',' :: t)

/-- the accepted spellings: blanks anywhere -/
def Renders (e : List Seg) (t : List Char) : Prop := Spelled e (removeBlanks t)

/-- the canonical spelling: sets joined by commas -/
def renderExpr : List Seg → List Char
  | [] => []
  | [s] => s.render
  | s :: ss => s.render ++ ',' :: renderExpr ss

/-! ### what an expression states -/

def lowerCmpr (incl : Bool) : Cmpr := if incl then .ge else .gt
def upperCmpr (incl : Bool) : Cmpr := if incl then .le else .lt

/-- the constraints of a set; `f` is `str ∘ version_class` -/
def Seg.cons (f : List Char → List Char) : Seg → List TCon
  | .range li lo hi ui =>
    (match lo with | some a => [Con.mk (lowerCmpr li) (f a)] | none => []) ++
    (match hi with | some b => [Con.mk (upperCmpr ui) (f b)] | none => [])
  | .exact a => [.mk .eq (f a)]

def consE (f : List Char → List Char) : List Seg → List TCon
  | [] => []
  | s :: ss => s.cons f ++ consE f ss

/-- a constraint read with a three-way comparison of version texts -/
def conSat (vcmp : List Char → List Char → Ordering) (x : List Char) : TCon → Bool
  | .star => true
  | .mk .ge v => vcmp x v != .lt
  | .mk .le v => vcmp x v != .gt
  | .mk .lt v => vcmp x v == .lt
  | .mk .gt v => vcmp x v == .gt
  | .mk .eq v => vcmp x v == .eq
  | .mk .ne v => vcmp x v != .eq

/-- the versions a set admits -/
def Seg.mem (vcmp : List Char → List Char → Ordering) (x : List Char) : Seg → Bool
  | .range li lo hi ui =>
    (match lo with
     | some a => if li then vcmp x a != .lt else vcmp x a == .gt
     | none => true) &&
    (match hi with
     | some b => if ui then vcmp x b != .gt else vcmp x b == .lt
     | none => true)
  | .exact a => vcmp x a == .eq

/-- the union -/
def memE (vcmp : List Char → List Char → Ordering) (x : List Char) (e : List Seg) : Bool :=
  e.any (Seg.mem vcmp x)

/-! ### well-formed expressions -/

/-- a character that may occur in a version text of the notation -/
def safeChar (c : Char) : Bool :=
  !isPySpace c && c != ',' && c != '(' && c != ')' && c != '[' && c != ']'

/-- a safe version text: non-empty, no whitespace, no comma, no bracket -/
def safe (t : List Char) : Bool := !t.isEmpty && t.all safeChar

def optSafe : Option (List Char) → Bool
  | none => true
  | some t => safe t

def Seg.lower : Seg → Option (List Char)
  | .range _ lo _ _ => lo
  | .exact a => some a

def Seg.upper : Seg → Option (List Char)
  | .range _ _ hi _ => hi
  | .exact a => some a

/-- a set the parser accepts as such: safe texts, at least one bound, and for two bounds
different texts, not equal as versions, the upper one not below the lower one -/
def Seg.valid (vcmp : List Char → List Char → Ordering) : Seg → Bool
  | .range _ lo hi _ =>
    optSafe lo && optSafe hi && (lo.isSome || hi.isSome) &&
    (match lo, hi with
     | some a, some b => a != b && vcmp a b != .eq && vcmp b a != .lt
     | _, _ => true)
  | .exact a => safe a

/-- the order check between consecutive sets: after a set with an upper bound `u` the next one
needs a lower bound not below `u` (after an unbounded set the code checks nothing) -/
def chainOk (vcmp : List Char → List Char → Ordering) : Option (List Char) → List Seg → Bool
  | _, [] => true
  | up, s :: ss =>
    (match up with
     | none => true
     | some u =>
       match s.lower with
       | none => false
       | some l => vcmp l u != .lt) && chainOk vcmp s.upper ss

def Valid (vcmp : List Char → List Char → Ordering) (e : List Seg) : Bool :=
  e.all (Seg.valid vcmp) && chainOk vcmp none e

/-- the version texts of an expression -/
def Seg.versions : Seg → List (List Char)
  | .range _ lo hi _ => lo.toList ++ hi.toList
  | .exact a => [a]

def versionsE (e : List Seg) : List (List Char) := e.flatMap Seg.versions

/-- the `Restriction` a set denotes -/
def Seg.toRestriction : Seg → Restriction
  | .range li lo hi ui => ⟨lo, hi, li, ui, false⟩
  | .exact a => ⟨some a, some a, true, true, true⟩

/-- the restrictions for which the produced constraints say what the native matcher says: not
the "everything" restriction of a soft requirement; `same` only with identical texts (an invariant
of `Restriction.__init__`); when the converter takes its `lower_bound == upper_bound` branch, both
ends inclusive -/
def Restriction.sound (vcmp : List Char → List Char → Ordering) (r : Restriction) : Bool :=
  (r.lower.isSome || r.upper.isSome) && (!r.same || r.lower == r.upper) &&
    (!boundsEq vcmp r || (r.lowerIncl && r.upperIncl))

/-- the errors the Maven / NuGet converter declares: the `ValueError` family -/
def declared (e : TErr) : Bool :=
  e.declared || e == errRestriction || e == errRange

end Univers.Text.MavenRange
