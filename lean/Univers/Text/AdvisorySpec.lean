/-
Layer C — SPEC of the advisory notations (GitHub, the three Snyk forms, GitLab) and of the
Debian / RPM relations: what an expression of the notation STATES.

An expression is an abstract syntax `AST = List (Cmpr × Str)`: the comparator and version pairs
it states, in order.  A rendering is a spelled form of it: every pair is written with one of
the native spellings of the comparator in the notation's dictionary, with optional
whitespace, pairs are joined by the separators of the notation and distributed over one or
several strings.  `constraintsOf mkVer e` is the constraint list the expression states, the
version texts going through the scheme's constructor (first rejection wins, in order).

Nothing here looks at how `split_req` searches the dictionary: `Spells d k c` only says that
`k` is a key of `d` whose value is the vers comparator `c`.  `keyFine` / `orderOk` / `shadowed`
express the ORDER condition of the dictionaries that `split_req` needs (property (b)).
-/
import Univers.Text.Advisory

namespace Univers.Text.Advisory

open Univers Univers.Text

/-- comparator and version pairs, in the order they are written -/
abbrev AST := List (Cmpr × Str)

/-- the vers text of a comparator, as characters -/
def cmprText (c : Cmpr) : Str := c.text.toList

/-- the constraints an expression states (versions as `str(version_class(text))`), or the first
rejection by the version constructor -/
def constraintsOf (mkVer : Str → Except TErr Str) : AST → Except TErr (List TCon)
  | [] => .ok []
  | (c, v) :: rest =>
    match mkVer v with
    | .error e => .error e
    | .ok v' =>
      match constraintsOf mkVer rest with
      | .error e => .error e
      | .ok cs => .ok (.mk c v' :: cs)

/-- `k` is a native spelling of the comparator `c` in the dictionary `d` -/
def Spells (d : Dict) (k : Str) (c : Cmpr) : Prop := (k, some (cmprText c)) ∈ d

instance (d : Dict) (k : Str) (c : Cmpr) : Decidable (Spells d k c) := by
  unfold Spells; infer_instance

/-- only whitespace -/
def allWs (s : Str) : Bool := s.all isPySpace

/-- the characters used by the keys of a dictionary -/
def cmpChars (d : Dict) : Str := d.flatMap (·.1)

/-- a SAFE version text for a notation with dictionary `d` and reserved characters `bad`
(separators, brackets, characters stripped): non-empty, no whitespace, no reserved character,
and it does not BEGIN with a comparator character (otherwise `lstrip` eats into it) -/
def safeV (d : Dict) (bad : Str) (v : Str) : Bool :=
  match v with
  | [] => false
  | h :: _ => v.all (fun c => !isPySpace c && !bad.contains c) && !(cmpChars d).contains h

/-! ### the order condition of `split_req` -/

/-- the entry `split_req` finds for a text that starts with the key `k` followed by a
non-comparator character: the FIRST entry, in dict order, whose key is a prefix of `k` -/
def firstMatch (d : Dict) (k : Str) : Option (Str × Option Str) :=
  d.find? (fun kv => kv.1.isPrefixOf k)

/-- the key `k` with meaning `v` is read correctly: the first entry that matches it has the same
meaning and its character set strips the whole of `k` -/
def keyFine (d : Dict) (k : Str) (v : Option Str) : Bool :=
  match firstMatch d k with
  | some kv => kv.2 == v && k.all (fun c => kv.1.contains c)
  | none => false

/-- the entries that are NOT read correctly: shadowed by an earlier key that is a proper prefix
with a different meaning (or whose `lstrip` does not remove the key) -/
def shadowed (d : Dict) : Dict := d.filter (fun kv => !keyFine d kv.1 kv.2)

/-- property (b): no key is shadowed -/
def orderOk (d : Dict) : Bool := (shadowed d).isEmpty

/-- sanity of a dictionary with respect to the reserved characters: keys are non-empty and use
neither whitespace nor reserved characters -/
def keysOk (d : Dict) (bad : Str) : Bool :=
  d.all (fun kv => !kv.1.isEmpty && kv.1.all (fun c => !isPySpace c && !bad.contains c))

/-! ### spelled items -/

/-- one pair, spelled: `pre key mid version post` -/
structure Item where
  c : Cmpr
  v : Str
  key : Str
  pre : Str
  mid : Str
  post : Str

namespace Item
def text (i : Item) : Str := i.pre ++ (i.key ++ (i.mid ++ (i.v ++ i.post)))
/-- without optional whitespace -/
def tight (i : Item) : Str := i.key ++ i.v
def pair (i : Item) : Cmpr × Str := (i.c, i.v)
/-- well-formed for dictionary `d` and reserved characters `bad` -/
def WF (d : Dict) (bad : Str) (i : Item) : Prop :=
  Spells d i.key i.c ∧ allWs i.pre = true ∧ allWs i.mid = true ∧ allWs i.post = true ∧
    safeV d bad i.v = true
instance (d : Dict) (bad : Str) (i : Item) : Decidable (i.WF d bad) := by
  unfold WF; infer_instance
end Item

/-- `sep.join(parts)` -/
def joinWith (sep : Char) : List Str → Str
  | [] => []
  | [x] => x
  | x :: y :: ys => x ++ sep :: joinWith sep (y :: ys)

/-! ### GitHub: `>= 1.0, < 2.0`, a string or a list of strings -/

/-- reserved in the GitHub notation -/
def githubBad : Str := [',']

/-- a rendering: the groups are the strings of the list (one group = a single string), the
items of a group are joined by commas -/
def renderGithub (gs : List (List Item)) : List Str :=
  gs.map (fun g => joinWith ',' (g.map Item.text))

def astOf (gs : List (List Item)) : AST := gs.flatten.map Item.pair

/-- every string states at least one pair and every item is well-formed -/
def GroupsWF (d : Dict) (bad : Str) (gs : List (List Item)) : Prop :=
  ∀ g ∈ gs, g ≠ [] ∧ ∀ i ∈ g, i.WF d bad

/-! ### Snyk: `>=1.0, <2.0` / `>=1.0 <2.0` / `[1.0,2.0)`, a string or a list of strings -/

def snykBad : Str := [',', '[', ']', '(', ')']

/-- one comma- or space-separated piece of a Snyk string -/
inductive Piece where
  /-- a comparator spelled with a key of the Snyk dictionary -/
  | cmp (i : Item)
  /-- `[v` (closed: `>=`) or `(v` (open: `>`) -/
  | lower (closed : Bool) (pre mid : Str) (v : Str) (post : Str)
  /-- `v]` (closed: `<=`) or `v)` (open: `<`) -/
  | upper (closed : Bool) (pre : Str) (v : Str) (mid post : Str)
  /-- a lone bracket, as the `(` of `(,9.21]`: states nothing -/
  | void (bracket : Char) (pre post : Str)

namespace Piece
def text : Piece → Str
  | cmp i => i.text
  | lower closed pre mid v post => pre ++ ((if closed then '[' else '(') :: (mid ++ (v ++ post)))
  | upper closed pre v mid post => pre ++ (v ++ (mid ++ ((if closed then ']' else ')') :: post)))
  | void b pre post => pre ++ b :: post
/-- without optional whitespace -/
def tight : Piece → Str
  | cmp i => i.tight
  | lower closed _ _ v _ => (if closed then '[' else '(') :: v
  | upper closed _ v _ _ => v ++ [if closed then ']' else ')']
  | void b _ _ => [b]
def pairs : Piece → AST
  | cmp i => [i.pair]
  | lower closed _ _ v _ => [(if closed then Cmpr.ge else Cmpr.gt, v)]
  | upper closed _ v _ _ => [(if closed then Cmpr.le else Cmpr.lt, v)]
  | void _ _ _ => []
def WF : Piece → Prop
  | cmp i => i.WF snykDict snykBad
  | lower _ pre mid v post => allWs pre = true ∧ allWs mid = true ∧ allWs post = true ∧
      safeV snykDict snykBad v = true
  | upper _ pre v mid post => allWs pre = true ∧ allWs mid = true ∧ allWs post = true ∧
      safeV snykDict snykBad v = true
  | void b pre post => (b = '(' ∨ b = '[' ∨ b = ')' ∨ b = ']') ∧ allWs pre = true ∧ allWs post = true
end Piece

/-- the comma form of one string: at least two pieces (so that there is a comma), optional
whitespace everywhere -/
def renderSnykComma (ps : List Piece) : Str := joinWith ',' (ps.map Piece.text)

/-- the space form of one string: pieces without inner whitespace joined by ONE space, optional
whitespace around the string -/
def renderSnykSpace (lead trail : Str) (ps : List Piece) : Str :=
  lead ++ (joinWith ' ' (ps.map Piece.tight) ++ trail)

/-- one string of a Snyk range, in the comma form (`[1.0,2.0)` and `(,9.21]` are comma forms
whose pieces are brackets) or in the space form -/
inductive SnykStr where
  | comma (ps : List Piece)
  | space (lead trail : Str) (ps : List Piece)

namespace SnykStr
def text : SnykStr → Str
  | comma ps => renderSnykComma ps
  | space lead trail ps => renderSnykSpace lead trail ps
def pieces : SnykStr → List Piece
  | comma ps => ps
  | space _ _ ps => ps
def WF : SnykStr → Prop
  | comma ps => 2 ≤ ps.length ∧ ∀ p ∈ ps, p.WF
  | space lead trail ps => ps ≠ [] ∧ allWs lead = true ∧ allWs trail = true ∧ ∀ p ∈ ps, p.WF
end SnykStr

/-- what a list of Snyk strings states -/
def snykAst (ss : List SnykStr) : AST := (ss.flatMap SnykStr.pieces).flatMap Piece.pairs

/-! ### GitLab: `>=1.0 <2.0||>=3.0`, `>= 1.0`, separator space or comma -/

/-- reserved in the GitLab notation with separator `sep` -/
def gitlabBad (sep : Char) : Str := [sep, '|']

/-- an item of a GitLab expression -/
inductive GItem where
  /-- comparator and version in one token, e.g. `>=1.0` -/
  | glued (i : Item)
  /-- the comparator as a token of its own, e.g. `>= 1.0`: key, `gap + 1` separators, version -/
  | apart (c : Cmpr) (key : Str) (gap : Nat) (v : Str)

/-- what stands between two items (and at both ends) -/
inductive Joint where
  /-- `n` separators -/
  | seps (n : Nat)
  /-- `a` separators, `||`, `b` separators -/
  | pipes (a b : Nat)

namespace GItem
def text (sep : Char) : GItem → Str
  | glued i => i.text
  | apart _ key gap v => key ++ (List.replicate (gap + 1) sep ++ v)
def pair : GItem → Cmpr × Str
  | glued i => i.pair
  | apart c _ _ v => (c, v)
/-- inside a glued token the optional whitespace must not be the separator; a comparator token is a
key of the dictionary (`d.lookup` = `d[key]`: Python dicts have no duplicate keys) -/
def WF (d : Dict) (sep : Char) : GItem → Prop
  | glued i => i.WF d (gitlabBad sep) ∧ ¬ sep ∈ i.pre ∧ ¬ sep ∈ i.mid ∧ ¬ sep ∈ i.post
  | apart c key _ v => d.lookup key = some (some (cmprText c)) ∧ safeV d (gitlabBad sep) v = true
end GItem

namespace Joint
def text (sep : Char) : Joint → Str
  | seps n => List.replicate n sep
  | pipes a b => List.replicate a sep ++ ('|' :: '|' :: List.replicate b sep)
/-- a joint BETWEEN two items separates them -/
def Separates : Joint → Prop
  | seps n => 0 < n
  | pipes _ _ => True
end Joint

/-- `first` then every item followed by its joint; the joints between two items must separate -/
def renderGitlab (sep : Char) (first : Joint) : List (GItem × Joint) → Str
  | [] => first.text sep
  | (i, j) :: rest => first.text sep ++ (i.text sep ++ renderGitlab sep j rest)

/-- all joints but the last one separate -/
def JointsOk : List (GItem × Joint) → Prop
  | [] => True
  | [_] => True
  | (_, j) :: r :: rest => j.Separates ∧ JointsOk (r :: rest)

def gitlabAst (items : List (GItem × Joint)) : AST := items.map (fun p => p.1.pair)

/-! ### Debian `(>= 1.0)` and RPM `>= 1.0,` relations: one relation per string -/

def debBad : Str := [')', '(']
def rpmBad : Str := [',']

/-- a relation: the item with stripped characters (and whitespace) around it -/
structure Rel where
  item : Item
  left : Str
  right : Str

namespace Rel
def text (r : Rel) : Str := r.left ++ (r.item.text ++ r.right)
/-- `left` and `right` consist of whitespace and of the characters of `strip` -/
def WF (d : Dict) (strip : Str) (r : Rel) : Prop :=
  r.item.WF d strip ∧ r.left.all (fun c => isPySpace c || strip.contains c) = true ∧
    r.right.all (fun c => isPySpace c || strip.contains c) = true
end Rel

def relAst (rs : List Rel) : AST := rs.map (fun r => r.item.pair)

end Univers.Text.Advisory
