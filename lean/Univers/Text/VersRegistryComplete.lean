/-
(a) `registry_complete`: every range class that declares a scheme is registered under it in
`RANGE_CLASS_BY_SCHEMES`.

EXPECTED TO FAIL on the unfixed tree: `AlpineLinuxVersionRange` (scheme `alpine`) is missing
from the registry (`registry_complete_counterexample` in VersThm.lean).  Import this module from
`Univers.lean` once /repo is fixed and the tables are regenerated; then delete
`registry_complete_partial` / `registry_complete_counterexample` / `knownUnregistered` /
`fromString_alpine_unknown`.
-/
import Univers.Text.VersSpec

namespace Univers.Text.Vers

theorem registry_complete : RegistryComplete [] := by decide

end Univers.Text.Vers
