/-
Agreement theorems for the TEXT functions translated from the Python source on every run
(`harness/translate_text.py` → `Univers/Gen/PyText*.lean`): `remove_spaces`, `VersionConstraint.split`,
`.from_string`, `.__str__`, `.to_dict` are the model's `removeSpaces`, `split`, `conFromString`, `conStr`,
`conToDict` of `Univers/Text/Vers.lean` that the theorems of C05, C13 and C16 are about.
-/
import Univers.Gen.PyTextConFromString
import Univers.Gen.PyTextConStr
import Univers.Gen.PyTextConToDict

namespace Univers.Gen.Text
open Univers Univers.PyRt Univers.Text Univers.Text.Str Univers.Text.Vers Univers.Text.PyText

variable (mk : List Char → Except TErr (List Char))

/-- **`remove_spaces` as translated is the model's `removeSpaces`.** -/
theorem py_remove_spaces_eq (s : List Char) : py_remove_spaces mk s = .ok (removeSpaces s) := rfl

theorem split_for_eq (string cs : List Char) (ks : List (List Char)) :
    pyFor ks () (vc_split_for1_body mk string cs) (vc_split_for1_after mk string cs) = .ok (splitLoop ks cs) := by
  induction ks with
  | nil => rfl
  | cons k ks ih =>
    simp only [pyFor_cons, vc_split_for1_body, splitLoop]
    by_cases h : startsWith cs k = true
    · by_cases hs : (k == ['*']) = true <;> simp [h, hs]
    · simp [h, ih]

/-- **`VersionConstraint.split` as translated is the model's `split`.** -/
theorem vc_split_eq (s : List Char) : vc_split mk s = .ok (split s) := by
  unfold vc_split split
  simp only [py_remove_spaces_eq, bind, Except.bind]
  by_cases h : startsWith (removeSpaces s) ['*'] = true
  · simp [h]
  · simp only [h, Bool.false_eq_true, ↓reduceIte]
    exact split_for_eq mk s _ _

theorem star_iff_table : ∀ p ∈ Gen.comparators, (cmprOfName p.2 = some none ↔ p.1.toList = ['*']) := by decide

theorem lookup_found {k : List Char} {r : Option Cmpr} (h : lookupComparator k = some r) :
    ∃ p ∈ Gen.comparators, p.1.toList = k ∧ cmprOfName p.2 = some r := by
  unfold lookupComparator at h
  cases hf : Gen.comparators.find? (fun p => p.1.toList == k) with
  | none => simp [hf] at h
  | some p =>
    simp only [hf] at h
    have hm := List.mem_of_find?_eq_some hf
    have hp := List.find?_some hf
    exact ⟨p, hm, by simpa using hp, h⟩

theorem lookup_star {k : List Char} (h : lookupComparator k = some none) : k = ['*'] := by
  obtain ⟨p, hm, hk, hc⟩ := lookup_found h
  rw [← hk]
  exact (star_iff_table p hm).mp hc

theorem lookup_not_star {k : List Char} {c : Cmpr} (h : lookupComparator k = some (some c)) : k ≠ ['*'] := by
  obtain ⟨p, hm, hk, hc⟩ := lookup_found h
  intro he
  rw [← hk] at he
  have := (star_iff_table p hm).mpr he
  rw [hc] at this
  cases this

/-- **`VersionConstraint.from_string` as translated is the model's `conFromString`.** -/
theorem vc_from_string_eq (s : List Char) : vc_from_string mk s = conFromString mk s := by
  unfold vc_from_string conFromString
  simp only [py_remove_spaces_eq, vc_split_eq, bind, Except.bind]
  by_cases ha : isAsciiRepr (removeSpaces s) = true
  · simp only [ha, Bool.not_true, Bool.false_eq_true, ↓reduceIte, inComparators, mkTCon]
    generalize split (removeSpaces s) = p
    obtain ⟨comparator, version⟩ := p
    simp only
    cases hl : lookupComparator comparator with
    | none => simp
    | some k =>
      cases k with
      | none =>
        -- the star: `lookupComparator` says so exactly for the text "*"
        have hc : comparator = ['*'] := lookup_star hl
        simp [hc, hl]
      | some c =>
        have hc : (comparator != ['*']) = true := by
          have := lookup_not_star hl
          simpa [bne] using this
        by_cases hv : version.isEmpty = true
        · simp [hv, hc]
        · simp only [Option.isSome_some, Bool.not_true, Bool.false_eq_true, ↓reduceIte, hv, Bool.not_false, hc,
            Bool.and_true]
          have hne : (comparator == ['*']) = false := by simpa [bne] using hc
          simp only [hne, Bool.false_eq_true, ↓reduceIte]
          cases mk version <;> simp [hl]
  · simp [ha]

/-- **`VersionConstraint.__str__` as translated is the model's `conStr`.** -/
theorem vc_str_eq (c : TCon) : vc_str mk c = .ok (conStr c) := by
  cases c with
  | star => rfl
  | mk k v => cases k <;> rfl

/-- **`VersionConstraint.to_dict` as translated is the model's `conToDict`.** -/
theorem vc_to_dict_eq (c : TCon) : vc_to_dict mk c = .ok (conToDict c) := by
  cases c with
  | star => rfl
  | mk k v => cases k <;> rfl

end Univers.Gen.Text
